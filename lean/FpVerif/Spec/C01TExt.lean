import FpVerif.Model.TryOptExt
import FpVerif.Spec.C01T
import FpVerif.Lemmas.TryOptExt
/-!
# C01 (part 3b) — the remaining transformer functions and hand-written functions equal their definitions

* every `XSeqT` / `XOptionT` of try_seqt.go / try_optiont.go obeys the TRANSFORMER LAW
  `XT(t, args) = try.Map(t, s => s.X(args))`, where the right-hand side is spelled out as the plain meaning
  `tryMap` of `try.Map` (callback on a Success, the error re-wrapped on a Failure, the stated panic on the
  zero-value Try) and `s.X(args)` is given by its list-level specification (`++`, `[i]?`, `isEmpty`,
  `intercalate`, running fold …) — for ALL `t`, all arguments, all callbacks;
* `try.TraverseOption`, `try.FoldRight`, `option.FoldRight` equal their specification as folds over the
  0/1-element list of the container;
* the remaining functions of package option / either and the methods `All`, `Foreach`, `Unapply`, `OrZero`,
  `OrPtr`, `Ptr` of fp.Option / fp.Try equal their reference meaning.

`Sort/Min/Max`SeqT: `Spec/C10Ext.lean`.  Short-circuit statements: `Spec/C02Ext.lean`.  statet: `Spec/C17Ext.lean`.
-/
namespace FpVerif.Spec.C01
open FpVerif MonadFamily TryT

variable {A B R I O T E L : Type}

-- ------------------------------------------------------------------------------------------ try.Map, plainly

/-- the plain meaning of `try.Map(t, g)`: `g` runs exactly when `t` is a Success; a Failure comes back with
    its own error; the zero-value Try (`failure .nil`) panics with "Try not initialized correctly". -/
def tryMap (t : Try I) (g : I → GoM O) : GoM (Try O) :=
  match t with
  | .success i => do let o ← g i; pure (.success o)
  | .failure e => do let e ← Try.failedGet (.failure e : Try I); pure (.failure e)

/-- THE TRANSFORMER LAW, generically: a `Transform` entry is `try.Map` of the inner function, for every `t`. -/
theorem transformT_def (t : Try I) (g : I → GoM O) : transformT (pure t) g = tryMap t g := by
  cases t with
  | success i => simp [transformT, map, lift, TryM.ops, TryM.flatMap, tryMap]
  | failure e => cases e <;> simp [transformT, map, lift, TryM.ops, TryM.flatMap, tryMap, Try.failedGet]

-- ------------------------------------------------------------------------------------------ fp.Seq methods = list operations

theorem seq_append_spec (r items : List A) : SeqM.append r items = r ++ items := by
  cases items <;> simp [SeqM.append]

theorem seq_add_spec (r : List A) (x : A) : SeqM.add r x = r ++ [x] := by
  simp [SeqM.add, SeqM.append]

theorem seq_concat_spec (r tail : List A) : SeqM.concat r tail = r ++ tail := by
  cases tail <;> simp [SeqM.concat]

theorem seq_isEmpty_spec (r : List A) : SeqM.isEmpty r = r.isEmpty := by
  cases r <;> simp [SeqM.isEmpty, SeqM.size]

theorem seq_nonEmpty_spec (r : List A) : SeqM.nonEmpty r = !r.isEmpty := by
  cases r <;> simp [SeqM.nonEmpty, SeqM.size]

/-- `Get(idx)` for a non-negative index is the partial list lookup -/
theorem seq_get_spec (r : List A) (idx : Int) (h : 0 ≤ idx) : SeqM.get r idx = pure r[idx.toNat]? := by
  unfold SeqM.get SeqM.size
  by_cases hlt : (r.length : Int) > idx
  · have : ¬ idx < 0 := by omega
    simp [hlt, this]
  · have hn : r.length ≤ idx.toNat := by omega
    simp [hlt, List.getElem?_eq_none hn]

/-- `Get` of a negative index panics with Go's index error (the guard `Size() > idx` lets it through) -/
theorem seq_get_negative (r : List A) (idx : Int) (h : idx < 0) :
    SeqM.get r idx = throw s!"runtime:runtime error: index out of range [{idx}]" := by
  unfold SeqM.get SeqM.size
  have : (r.length : Int) > idx := by omega
  simp [this, h]

/-- `seq.Scan(s, zero, f)` = `zero ::` the running left fold, `f` invoked once per element, left to right;
    in particular the result always has `len(s) + 1` entries and starts with `zero` -/
theorem seq_scan_spec (s : List A) (zero : B) (f : B → A → GoM B) :
    SeqM.scan s zero f = (do let tl ← scanTail f s zero; pure (zero :: tl)) := by
  cases s with
  | nil => simp [SeqM.scan, SeqM.isEmpty, SeqM.size, scanTail]
  | cons v vs => simp [SeqM.scan, SeqM.isEmpty, SeqM.size, scanLoop_spec]

/-- `MakeString(sep)` is `strings.Join` of the rendered elements -/
theorem seq_makeString_spec (sprint : A → String) (r : List A) (sep : String) :
    SeqM.makeString sprint r sep = joinSep sep (r.map sprint) := by
  cases r with
  | nil => simp [SeqM.makeString, SeqM.makeStringLoop, joinSep]
  | cons v vs => simp [SeqM.makeString, SeqM.makeStringLoop, joinSep, makeStringLoop_spec]

-- ------------------------------------------------------------------------------------------ the SeqT transformer functions

theorem appendSeqT_law (t : Try (List A)) (x : A) :
    appendSeqT (pure t) x = tryMap t (fun l => pure (l ++ [x])) := by
  simp [appendSeqT, transformT_def, seq_append_spec]

theorem concatSeqT_law (t : Try (List A)) (tail : List A) :
    concatSeqT (pure t) tail = tryMap t (fun l => pure (l ++ tail)) := by
  simp [concatSeqT, transformT_def, seq_concat_spec]

theorem getSeqT_law (t : Try (List A)) (idx : Int) (h : 0 ≤ idx) :
    getSeqT (pure t) idx = tryMap t (fun l => pure l[idx.toNat]?) := by
  simp [getSeqT, transformT_def, seq_get_spec _ _ h]

/-- out of range on the low side: on a Success the index error of `Seq.Get` propagates; a Failure still passes -/
theorem getSeqT_negative (l : List A) (idx : Int) (h : idx < 0) :
    getSeqT (pure (.success l)) idx = throw s!"runtime:runtime error: index out of range [{idx}]" := by
  simp [getSeqT, transformT_def, tryMap, seq_get_negative _ _ h]

theorem isEmptySeqT_law (t : Try (List A)) :
    isEmptySeqT (pure t) = tryMap t (fun l => pure l.isEmpty) := by
  simp [isEmptySeqT, transformT_def, seq_isEmpty_spec]

theorem nonEmptySeqT_law (t : Try (List A)) :
    nonEmptySeqT (pure t) = tryMap t (fun l => pure (!l.isEmpty)) := by
  simp [nonEmptySeqT, transformT_def, seq_nonEmpty_spec]

theorem makeStringSeqT_law (sprint : A → String) (t : Try (List A)) (sep : String) :
    makeStringSeqT sprint (pure t) sep = tryMap t (fun l => pure (joinSep sep (l.map sprint))) := by
  simp [makeStringSeqT, transformT_def, seq_makeString_spec]

theorem scanSeqT_law (t : Try (List A)) (zero : B) (f : B → A → GoM B) :
    scanSeqT (pure t) zero f = tryMap t (fun l => do let tl ← scanTail f l zero; pure (zero :: tl)) := by
  simp [scanSeqT, transformT_def, seq_scan_spec]

-- ------------------------------------------------------------------------------------------ the OptionT transformer functions

theorem option_orZero_spec (zero : A) (r : Option A) : OptM.orZero zero r = pure (r.getD zero) := by
  cases r <;> simp [OptM.orZero, OptM.orElseGet]

theorem option_orPtr_spec (r v : Option A) :
    OptM.orPtr r v = (match r with | some x => some x | none => v) := by
  cases r <;> cases v <;> simp [OptM.orPtr]

theorem orZeroOptionT_law (zero : A) (t : Try (Option A)) :
    orZeroOptionT zero (pure t) = tryMap t (fun o => pure (o.getD zero)) := by
  simp [orZeroOptionT, transformT_def, option_orZero_spec]

theorem orPtrOptionT_law (t : Try (Option A)) (v : Option A) :
    orPtrOptionT (pure t) v = tryMap t (fun o => pure (match o with | some x => some x | none => v)) := by
  simp [orPtrOptionT, transformT_def, option_orPtr_spec]

-- ------------------------------------------------------------------------------------------ try.TraverseOption, FoldRight

/-- `try.TraverseOption(opta, fa)`: `None` traverses to `Success(None)`; on `Some(a)` the function runs once and
    its Try is the result (`Some` inside a Success, the error re-wrapped on a Failure). -/
theorem traverseOption_def (opta : Option A) (fa : A → GoM (Try R)) :
    TryM.traverseOption opta fa =
      (match opta with
       | none => pure (.success none)
       | some a => do
         match ← fa a with
         | .success r => pure (.success (some r))
         | .failure e => do let e ← Try.failedGet (.failure e : Try R); pure (.failure e)) := by
  cases opta with
  | none =>
    simp [TryM.traverseOption, traverse, traverseSeq, map, lift, TryM.ops, TryM.flatMap, TryM.foldM, TryM.nextOption]
  | some a =>
    simp only [TryM.traverseOption, traverse, traverseSeq, map, lift, TryM.ops, TryM.flatMap, TryM.foldM,
      Option.toList, bind_assoc, pure_bind]
    congr 1
    funext r
    cases r with
    | success b => simp [TryM.nextOption]
    | failure e => cases e <;> simp [Try.failedGet]

/-- the right fold with a lazily passed accumulator, over a list: `f` is handed the element and the (already
    built, not yet forced) fold of the elements to its right -/
def foldrEval (f : A → EvalM.Eval B → GoM (EvalM.Eval B)) (zero : B) (xs : List A) : GoM (EvalM.Eval B) :=
  xs.foldr (fun a acc => do let e ← acc; f a e) (pure (EvalM.done zero))

/-- `option.FoldRight` is the right fold over the 0/1 elements of the option -/
theorem option_foldRight_def (s : Option A) (zero : B) (f : A → EvalM.Eval B → GoM (EvalM.Eval B)) :
    OptM.foldRight s zero f = foldrEval f zero s.toList := by
  cases s <;> simp [OptM.foldRight, foldrEval]

/-- `try.FoldRight` is the right fold over the 0/1 elements of the Try (a Failure has none) -/
theorem try_foldRight_def (ta : Try A) (bzero : B) (fab : A → EvalM.Eval B → GoM (EvalM.Eval B)) :
    TryM.foldRight ta bzero fab = foldrEval fab bzero (TryM.toSeq ta) := by
  cases ta <;> simp [TryM.foldRight, foldrEval, TryM.toSeq]

/-- lazy in the accumulator: what `f` receives evaluates to `zero` and evaluating it has no effect -/
theorem foldRight_accumulator [Inhabited B] (zero : B) : EvalM.run (EvalM.done zero) = (zero, []) := by
  simp [EvalM.run, EvalM.done, EvalM.callFirst]

-- ------------------------------------------------------------------------------------------ methods of fp.Option / fp.Try

/-- a Go iterator function `func(yield func(T) bool)` over a list: stops when `yield` returns false -/
def iterYield (yield : A → GoM Bool) : List A → GoM Unit
  | [] => pure ()
  | a :: as => do
    if ← yield a then iterYield yield as else pure ()

/-- `Option.All()` iterates over the 0/1 elements of the option -/
theorem option_all_def (r : Option A) (yield : A → GoM Bool) :
    OptM.all r yield = iterYield yield r.toList := by
  cases r with
  | none => simp [OptM.all, iterYield]
  | some v =>
    simp only [OptM.all, Option.toList, iterYield]
    congr 1; funext b; cases b <;> simp

/-- `Try.All()` iterates over the 0/1 elements of the Try -/
theorem try_all_def (r : Try A) (yield : A → GoM Bool) :
    TryM.all r yield = iterYield yield (TryM.toSeq r) := by
  cases r with
  | failure e => simp [TryM.all, iterYield, TryM.toSeq]
  | success v =>
    simp only [TryM.all, TryM.toSeq, iterYield]
    congr 1; funext b; cases b <;> simp

theorem option_foreach_def (r : Option A) (f : A → GoM Unit) :
    OptM.foreach r f = r.toList.forM f := by
  cases r <;> simp [OptM.foreach]

theorem either_foreach_def (e : Either L A) (f : A → GoM Unit) :
    EitM.foreach e f = (match e with | .right r => f r | .left _ => pure ()) := by
  cases e <;> rfl

theorem either_notRight_def (l : L) : (EitM.notRight l : Either L A) = .left l := rfl

/-- `Unapply()`: the flag is `IsDefined`, the value is the content or the zero value -/
theorem option_unapply_spec (zero : A) (r : Option A) :
    OptM.unapply zero r = (r.getD zero, r.isSome) := by
  cases r <;> rfl

theorem try_orZero_spec (zero : A) (r : Try A) : TryM.orZero zero r = pure (TryM.orElse r zero) := by
  cases r <;> simp [TryM.orZero, TryM.orElseGet, TryM.orElse]

/-- `Option.Ptr()` is nil exactly for `None`, otherwise it points at (a copy of) the content;
    `option.Ptr` is its inverse -/
theorem option_ptr_roundtrip (r : Option A) : OptM.ptr (OptM.mPtr r) = r ∧ OptM.mPtr (OptM.ptr r) = r := by
  cases r <;> simp [OptM.ptr, OptM.mPtr]

-- ------------------------------------------------------------------------------------------ package option

theorem option_some_def (v : A) : OptM.some' v = pure (some v) := by
  simp [OptM.some', OptM.recover]

theorem option_constNone_def (a : A) : (OptM.constNone a : Option B) = none := rfl

/-- `option.Of(v)` is `None` exactly when the interface is nil or holds a nil chan/func/map/pointer/slice… -/
theorem option_of_spec (ifaceNil kindNil : A → Bool) (v : A) :
    OptM.of ifaceNil kindNil v = (if ifaceNil v || kindNil v then none else some v) := by
  cases h1 : ifaceNil v <;> cases h2 : kindNil v <;> simp [OptM.of, h1, h2]

theorem option_nonZero_spec [BEq A] [LawfulBEq A] (zero t : A) :
    (OptM.nonZero zero t = none ↔ t = zero) ∧ (t ≠ zero → OptM.nonZero zero t = some t) := by
  by_cases h : t = zero <;> simp [OptM.nonZero, h]

theorem option_string_spec (v : String) :
    (OptM.string v = none ↔ v = "") ∧ (v ≠ "" → OptM.string v = some v) := by
  simpa [OptM.string] using option_nonZero_spec "" v

/-- as written, `NonEmptySlice` is `None` exactly for the NIL slice -/
theorem option_nonEmptySlice_spec (t : Option (List E)) :
    OptM.nonEmptySlice t = none ↔ t = none := by
  cases t <;> simp [OptM.nonEmptySlice]

/-- … in particular an empty, non-nil slice is `Some` (the name suggests otherwise; no property fixes it) -/
example : OptM.nonEmptySlice (some ([] : List Nat)) = some (some []) := rfl

/-- `ComposePure(f)`, `Pure1(f)` = `f` followed by the unit; `Pure0` likewise -/
theorem option_composePure_def (fab : A → GoM B) (a : A) :
    OptM.composePure fab a = lift OptM.ops (fab a) := rfl

theorem option_pure1_def (f : A → GoM R) (a : A) : OptM.pure1 f a = lift OptM.ops (f a) := rfl

theorem option_pure0_def (f : Unit → GoM R) : OptM.pure0 f () = lift OptM.ops (f ()) := rfl

theorem option_flatPtr_spec (opt : Option (Option A)) : OptM.flatPtr opt = pure opt.join := by
  cases opt with
  | none => simp [OptM.flatPtr, OptM.flatMap]
  | some p => cases p <;> simp [OptM.flatPtr, OptM.flatMap, OptM.ptr]

/-- `Deref(opt) = Map(opt, T.Deref)`: the method runs exactly on `Some` (and its panic, e.g. on a nil receiver, propagates) -/
theorem option_deref_def (opt : Option T) (d : T → GoM R) :
    OptM.deref opt d = (match opt with
      | none => pure none
      | some t => do let r ← d t; pure (some r)) := by
  cases opt <;> simp [OptM.deref, map, lift, OptM.ops, OptM.flatMap]

-- ------------------------------------------------------------------------------------------ non-vacuity

example : appendSeqT (pure (.success [1, 2])) 3 = (pure (.success [1, 2, 3]) : GoM (Try (List Nat))) := by
  simp [appendSeqT_law, tryMap]
example : getSeqT (pure (.success [7, 8])) 1 = (pure (.success (some 8)) : GoM (Try (Option Nat))) := by
  simp [getSeqT_law, tryMap]
example : (0 : Int) ≤ 1 := by decide
example : ((-1 : Int) < 0) := by decide
example : scanSeqT (pure (.success [1, 2, 3])) 10 (fun b a => pure (b + a))
    = (pure (.success [10, 11, 13, 16]) : GoM (Try (List Nat))) := by
  simp [scanSeqT_law, tryMap, scanTail]
example : TryM.traverseOption (some 3) (fun a => pure (.success (a + 1)))
    = (pure (.success (some 4)) : GoM (Try (Option Nat))) := by
  simp [traverseOption_def]

end FpVerif.Spec.C01
