import FpVerif.Model.TryOpt
import FpVerif.Spec.C01Inst
/-!
# C01 (part 3) — the OptionT / SeqT transformer functions of package try equal their definitions

`try.OptionT[A] = Try[Option[A]]`, `try.SeqT[A] = Try[Seq[A]]`.  Each transformer function, written in the
generated code with the outer `Map`/`FlatMap`, the inner monad's `FlatMap`/`Pure` and the directive's
`Sequence`, is shown equal to its definition by cases on the carried value.
-/
namespace FpVerif.Spec.C01
open FpVerif MonadFamily TryT

variable {A B : Type}

/-- the plain meaning of `FlatMap` on the stacked monad Try[Option[_]] -/
def optTBind (t : Try (Option A)) (k : A → GoM (Try (Option B))) : GoM (Try (Option B)) :=
  match t with
  | .success (some a) => k a
  | .success none => pure (.success none)
  | .failure e => do let e ← Try.failedGet (.failure e : Try (Option A)); pure (.failure e)

/-- MapOptionT maps under both layers; `f` runs exactly when there is a value. -/
theorem mapOptionT_def (t : Try (Option A)) (f : A → GoM B) :
    mapOptionT (pure t) f = optTBind t (fun a => do let b ← f a; pure (.success (some b))) := by
  cases t with
  | success o => cases o <;> simp [mapOptionT, map, lift, TryM.ops, TryM.flatMap, OptM.flatMap, optTBind]
  | failure e => cases e <;> simp [mapOptionT, map, lift, TryM.ops, TryM.flatMap, optTBind, Try.failedGet]

/-- TraverseOptionT(t, f): `f` runs on the carried value (if any) and its Try is merged into the outer one;
    a successful `f` always yields `Some` of its value — whatever that value is. -/
theorem traverseOptionT_def (t : Try (Option A)) (f : A → GoM (Try B)) :
    traverseOptionT (pure t) f = optTBind t (fun a => do
      match ← f a with
      | .success b => pure (.success (some b))
      | .failure e => do let e ← Try.failedGet (.failure e : Try B); pure (.failure e)) := by
  cases t with
  | success o =>
    cases o with
    | none => simp [traverseOptionT, mapOptionT, map, lift, TryM.ops, TryM.flatMap, OptM.flatMap, optTBind, sequenceOption]
    | some a =>
      simp only [traverseOptionT, mapOptionT, map, lift, TryM.ops, TryM.flatMap, OptM.flatMap, optTBind, bind_assoc, pure_bind]
      congr 1
      all_goals
        funext r
        cases r with
        | success b => simp [sequenceOption, map, lift, TryM.ops, TryM.flatMap]
        | failure e => cases e <;> simp [sequenceOption, map, lift, TryM.ops, TryM.flatMap, Try.failedGet]
  | failure e => cases e <;> simp [traverseOptionT, mapOptionT, map, lift, TryM.ops, TryM.flatMap, optTBind, Try.failedGet]

/-- FlatMapOptionT is the bind of the stacked monad. -/
theorem flatMapOptionT_def (t : Try (Option A)) (f : A → GoM (Try (Option B)))
    :
    flatMapOptionT (pure t) f = optTBind t (fun a => do
      match ← f a with
      | .success o => pure (.success o)
      | .failure e => do let e ← Try.failedGet (.failure e : Try (Option B)); pure (.failure e)) := by
  cases t with
  | success o =>
    cases o with
    | none =>
      simp [flatMapOptionT, traverseOptionT, mapOptionT, map, lift, TryM.ops, TryM.flatMap, OptM.flatMap, optTBind, sequenceOption]
    | some a =>
      simp only [flatMapOptionT, traverseOptionT, mapOptionT, map, lift, TryM.ops, TryM.flatMap, OptM.flatMap, optTBind,
        bind_assoc, pure_bind]
      congr 1
      all_goals
        funext r
        cases r with
        | success b => cases b <;> simp [sequenceOption, map, lift, TryM.ops, TryM.flatMap, OptM.flatMap]
        | failure e => cases e <;> simp [sequenceOption, map, lift, TryM.ops, TryM.flatMap, Try.failedGet]
  | failure e =>
    cases e <;> simp [flatMapOptionT, traverseOptionT, mapOptionT, map, lift, TryM.ops, TryM.flatMap, optTBind, Try.failedGet]

/-- left identity of the stacked monad -/
theorem flatMapOptionT_pure (a : A) (f : A → GoM (Try (Option B))) :
    flatMapOptionT (pureOptionT a) f = (do
      match ← f a with
      | .success o => pure (.success o)
      | .failure e => do let e ← Try.failedGet (.failure e : Try (Option B)); pure (.failure e)) := by
  have := flatMapOptionT_def (.success (some a)) f
  simpa [pureOptionT, optTBind] using this

/-- every `Transform` entry is `Map` of the inner method: the inner method runs iff the outer Try succeeded -/
theorem transformT_success {I O : Type} (i : I) (g : I → GoM O) :
    transformT (pure (.success i)) g = (do let o ← g i; pure (.success o)) := by
  simp [transformT, map, lift, TryM.ops, TryM.flatMap]

theorem transformT_failure {I O : Type} (e : Err) (he : e ≠ .nil) (g : I → GoM O) :
    transformT (pure (.failure e : Try I)) g = pure (.failure e) := by
  simp [transformT, map, lift, TryM.ops, TryM.flatMap, he]

/-- MapSeqT applies `f` to every element, in order. -/
theorem mapSeqT_success (l : List A) (f : A → GoM B) :
    mapSeqT (pure (.success l)) f
      = (do let r ← seqFlatMap l (fun a => do let b ← f a; pure [b]); pure (.success r)) := by
  simp [mapSeqT, map, lift, TryM.ops, TryM.flatMap]

/-- As written, TraverseSeqT runs `f` on ALL elements first (through MapSeqT) and only then looks for the
    first failure: its VALUE is the left-to-right sequence of the results, but functions of elements after
    a failing one have already been invoked (recorded as a known finding under C02). -/
theorem traverseSeqT_success (l : List A) (f : A → GoM (Try B)) :
    traverseSeqT (pure (.success l)) f
      = (do let rs ← seqFlatMap l (fun a => do let b ← f a; pure [b]); sequenceSeqT rs) := by
  simp [traverseSeqT, mapSeqT, map, lift, TryM.ops, TryM.flatMap]

end FpVerif.Spec.C01
