import FpVerif.Lemmas.FutChainBuilt
/-!
# C14 / C06 — the arity-indexed builder families of package `future`, at EVERY arity

`future.ChainN` / `MonadChainN`, `future.ApplicativeN` / `ApplicativeFunctorN` (applicative_gen.go + the
hand-written arity 1) and `LiftAN`, `LiftMN`, `FlapN`, `MethodN`, `FlatMethodN`, `FuncN`, `ComposeN`, `Zip`/`Zip3`
(func_gen.go + hand-written bases), as modelled in `Model/FutureChain.lean` on the network model of C06.

All statements are for every arity (`steps.length`, `ins.length`), every list of method calls, every user
function / supplier / callback (arbitrary logging functions, told on which executor they run), every net.

(a) denotation — `chain_denotation`, `chain_sound`, `chain_complete` (and `applicative_*`): the future a builder
    returns denotes the do-notation reading over fp.Try (`chainSpec`): operands left to right, each callback
    sees exactly the values so far, the first failure short-circuits, nothing dropped / duplicated / reordered;
(b) `fo_*`: everything the builders construct is in the first-order fragment `FO` of Spec/C06Sound (curried
    function values and hlists are data), so `sound_every_schedule` applies — `Spec/C06Chain.lean`;
    exceptions: `LiftMN` and `FlatMethod1` build a future of a future (`Flatten ∘ Map`);
(c) the func_gen.go families — section "func_gen";
(d) building never runs user code: `runChain_log`, `runApplicative_log`, `flapRun_log`; the seeded defect
    (`ApFutureFunc` evaluating its supplier while the chain is being built) violates exactly this:
    `eager_apFutureFunc_differs`.
-/
namespace FpVerif.Spec.C14Fut
open FpVerif FpVerif.Fut FpVerif.Spec.C06

-- the three readings of `chain_rel` ------------------------------------------------------------------------------------

/-- **(a) soundness form.**  If `σ` never knows more than the construction expressions justify (e.g. `σ` = the statuses of
    a sound net, `Sound n`), then the chain's future, once determined, holds what the do-notation reading gives over
    the operands' current statuses: never earlier, never different. -/
theorem chain_sound (fn : NFn) (steps : List (Ex × Step)) (n : Net) (hne : steps ≠ [])
    (hwf : ∀ cs ∈ steps, StepWF n.next cs.2) (n' : Net) (hle : SpecLe (runChain fn steps n).2 n')
    (σ : Nat → TV) (hσ : ∀ p v, σ p = some v → evalS σ (n'.spec p) = some v) (r : Try Val)
    (hq : σ (runChain fn steps n).1 = some r) : chainSpec σ fn steps [] = some r :=
  chain_rel brel_below (R := Below) (fun p v hv => hσ p v hv) fn ((runChain_built fn steps n hne hwf).1.mono hle) r hq

/-- **(a) completeness form**: if `σ` knows everything the construction expressions determine, the chain's future is
    determined as soon as the do-notation reading is. -/
theorem chain_complete (fn : NFn) (steps : List (Ex × Step)) (n : Net) (hne : steps ≠ [])
    (hwf : ∀ cs ∈ steps, StepWF n.next cs.2) (n' : Net) (hle : SpecLe (runChain fn steps n).2 n')
    (σ : Nat → TV) (hσ : ∀ p v, evalS σ (n'.spec p) = some v → σ p = some v) (r : Try Val)
    (hq : chainSpec σ fn steps [] = some r) : σ (runChain fn steps n).1 = some r :=
  chain_rel brel_above (R := fun a b => Below b a) (fun p v hv => hσ p v hv) fn
    ((runChain_built fn steps n hne hwf).1.mono hle) r hq

/-- **(a) denotation**: for every assignment `σ` that solves the net's equations (`σ p = evalS σ (spec p)` — sources are
    free, `spec p = ref p`), the future `ChainN(fn).m1(…)…mN(…)` returns denotes exactly the do-notation reading. -/
theorem chain_denotation (fn : NFn) (steps : List (Ex × Step)) (n : Net) (hne : steps ≠ [])
    (hwf : ∀ cs ∈ steps, StepWF n.next cs.2) (n' : Net) (hle : SpecLe (runChain fn steps n).2 n')
    (σ : Nat → TV) (hσ : ∀ p, σ p = evalS σ (n'.spec p)) :
    σ (runChain fn steps n).1 = chainSpec σ fn steps [] ∧
    evalS σ (n'.spec (runChain fn steps n).1) = chainSpec σ fn steps [] := by
  have h := chain_rel brel_eq (R := Eq) hσ fn ((runChain_built fn steps n hne hwf).1.mono hle)
  exact ⟨h, by rw [← hσ]; exact h⟩

-- (d) building runs no user code ----------------------------------------------------------------------------------------

/-- non-vacuity of the fixpoint hypothesis of `chain_denotation` -/
example :
    let fn : NFn := fun _ vs => (.seq vs, ["fn"])
    let steps : List (Ex × Step) := [(.d, .a (.apFuture 0)), (.d, .a (.ap (.int 7)))]
    let n' := (runChain fn steps (Net.empty 1)).2
    ∃ σ : Nat → TV, (∀ p, σ p = evalS σ (n'.spec p)) ∧ σ 0 = some (.success (.int 5)) ∧
      σ (runChain fn steps (Net.empty 1)).1 = some (.success (.seq [.int 5, .int 7])) := by
  intro fn steps n'
  refine ⟨fun p => match p with
    | 0 => some (.success (.int 5))
    | 1 => some (.success (hl []))
    | 2 => some (.success (pa []))
    | 3 => some (.success (hl [.int 5]))
    | 4 => some (.success (pa [.int 5]))
    | 5 => some (.success (.int 7))
    | 6 => some (.success (.seq [.int 5, .int 7]))
    | _ => none, ?_, rfl, rfl⟩
  intro p
  match p with
  | 0 => rfl
  | 1 => rfl
  | 2 => rfl
  | 3 => rfl
  | 4 => rfl
  | 5 => rfl
  | 6 => rfl
  | k + 7 => rfl

/-- **(d)** constructing a chain — whatever its arity, its method calls, and whether the earlier positions are pending,
    failed or complete — logs nothing: no supplier, callback or `fn` runs synchronously. -/
theorem runChain_log (fn : NFn) (steps : List (Ex × Step)) (n : Net) (hne : steps ≠ [])
    (hwf : ∀ cs ∈ steps, StepWF n.next cs.2) : (runChain fn steps n).2.log = n.log :=
  (runChain_built fn steps n hne hwf).2.2

/-- **(a) soundness form for `ApplicativeN(fn).m1(…)…mN(…)`** -/
theorem applicative_sound (fn : NFn) (steps : List (Ex × AStep)) (n : Net)
    (hne : steps ≠ [])
    (hwf : ∀ cs ∈ steps, AStepWF n.next cs.2) (n' : Net) (hle : SpecLe (runApplicative fn steps n).2 n')
    (σ : Nat → TV) (hσ : ∀ p v, σ p = some v → evalS σ (n'.spec p) = some v) (r : Try Val)
    (hq : σ (runApplicative fn steps n).1 = some r) : applicativeSpec σ fn steps [] = some r :=
  applicative_rel brel_below (R := Below) (fun p v hv => hσ p v hv) fn hne
    ((runApplicative_built fn steps n hwf).1.mono hle) r hq

/-- **(a) completeness form** -/
theorem applicative_complete (fn : NFn) (steps : List (Ex × AStep)) (n : Net)
    (hne : steps ≠ [])
    (hwf : ∀ cs ∈ steps, AStepWF n.next cs.2) (n' : Net) (hle : SpecLe (runApplicative fn steps n).2 n')
    (σ : Nat → TV) (hσ : ∀ p v, evalS σ (n'.spec p) = some v → σ p = some v) (r : Try Val)
    (hq : applicativeSpec σ fn steps [] = some r) : σ (runApplicative fn steps n).1 = some r :=
  applicative_rel brel_above (R := fun a b => Below b a) (fun p v hv => hσ p v hv) fn hne
    ((runApplicative_built fn steps n hwf).1.mono hle) r hq

/-- **(a) denotation**: the future `ApplicativeN(fn).m1(…)…mN(…)` returns denotes the do-notation reading -/
theorem applicative_denotation (fn : NFn) (steps : List (Ex × AStep)) (n : Net)
    (hne : steps ≠ [])
    (hwf : ∀ cs ∈ steps, AStepWF n.next cs.2) (n' : Net) (hle : SpecLe (runApplicative fn steps n).2 n')
    (σ : Nat → TV) (hσ : ∀ p, σ p = evalS σ (n'.spec p)) :
    σ (runApplicative fn steps n).1 = applicativeSpec σ fn steps [] :=
  applicative_rel brel_eq (R := Eq) hσ fn hne ((runApplicative_built fn steps n hwf).1.mono hle)

/-- **(d)** constructing an applicative builder logs nothing -/
theorem runApplicative_log (fn : NFn) (steps : List (Ex × AStep)) (n : Net)
    (hwf : ∀ cs ∈ steps, AStepWF n.next cs.2) : (runApplicative fn steps n).2.log = n.log :=
  (runApplicative_built fn steps n hwf).2.2

/-- a chain used with the applicative methods only denotes what the applicative builder denotes, when no executor is
    passed (with executors the two differ in which executor the suppliers see — `effA`) -/
theorem chainSpec_applicative (σ : Nat → TV) (fn : NFn) (steps : List AStep) (vs : List Val) :
    chainSpec σ fn (steps.map (fun s => (Ex.d, Step.a s))) vs = applicativeSpec σ fn (steps.map (fun s => (Ex.d, s))) vs := by
  induction steps generalizing vs with
  | nil => rfl
  | cons s ss ih =>
    cases ss with
    | nil => simp [chainSpec, applicativeSpec, operandS]
    | cons s2 ss2 =>
      simp only [List.map_cons, chainSpec, applicativeSpec, operandS] at ih ⊢
      congr 1; funext a
      exact ih _

-- (c) func_gen.go ------------------------------------------------------------------------------------------------------------

/-- the Try-level reading of `LiftAN(f)(ins1, …, insN)`: the operands left to right, then `f` -/
def liftASpec (σ : Nat → TV) (f : List Val → W Val) : List Nat → List Val → TV
  | [], vs => some (.success (f vs).1)
  | p :: ps, vs => bindOk (σ p) (fun v => liftASpec σ f ps (vs ++ [v]))

theorem evalS_liftAFrom (σ : Nat → TV) (f : List Val → W Val) (ins : List Nat) (vs : List Val) :
    evalS σ (liftAFrom f ins vs) = liftASpec σ f ins vs := by
  induction ins generalizing vs with
  | nil => simp [liftAFrom, liftASpec, evalS]
  | cons p ps ih =>
    simp only [liftAFrom, liftASpec, evalS]
    congr 1; funext v; exact ih _

/-- **LiftAN at every arity** (N = 1: `Lift`, N = 2: `LiftA2` = `Map2`, N ≥ 3 generated) -/
theorem evalS_liftA (σ : Nat → TV) (f : NFn) (c : Ex) (ins : List Nat) :
    evalS σ (liftA f c ins) = liftASpec σ (f c) ins [] := evalS_liftAFrom σ (f c) ins []

/-- all operands successful: `f` applied to their values in positional order -/
theorem liftASpec_all_success (σ : Nat → TV) (f : List Val → W Val) (pvs : List (Nat × Val)) (vs : List Val)
    (h : ∀ pv ∈ pvs, σ pv.1 = some (.success pv.2)) :
    liftASpec σ f (pvs.map (·.1)) vs = some (.success (f (vs ++ pvs.map (·.2))).1) := by
  induction pvs generalizing vs with
  | nil => simp [liftASpec]
  | cons pv pvs ih =>
    simp only [List.map_cons, liftASpec, h pv (by simp), bindOk]
    rw [ih _ (fun x hx => h x (by simp [hx]))]
    simp [List.append_assoc]

/-- the first failing operand (in positional order) decides, whatever the later operands are or will be -/
theorem liftASpec_first_failure (σ : Nat → TV) (f : List Val → W Val) (pvs : List (Nat × Val)) (q : Nat) (e : Err)
    (rest : List Nat) (vs : List Val) (h : ∀ pv ∈ pvs, σ pv.1 = some (.success pv.2)) (hq : σ q = some (.failure e)) :
    liftASpec σ f (pvs.map (·.1) ++ q :: rest) vs = some (.failure e) := by
  induction pvs generalizing vs with
  | nil => simp [liftASpec, hq, bindOk]
  | cons pv pvs ih =>
    simp only [List.map_cons, List.cons_append, liftASpec, h pv (by simp), bindOk]
    exact ih _ (fun x hx => h x (by simp [hx]))

/-- …and while an earlier operand is undetermined the result is undetermined, even if a later one has failed -/
theorem liftASpec_pending (σ : Nat → TV) (f : List Val → W Val) (pvs : List (Nat × Val)) (q : Nat)
    (rest : List Nat) (vs : List Val) (h : ∀ pv ∈ pvs, σ pv.1 = some (.success pv.2)) (hq : σ q = none) :
    liftASpec σ f (pvs.map (·.1) ++ q :: rest) vs = none := by
  induction pvs generalizing vs with
  | nil => simp [liftASpec, hq, bindOk]
  | cons pv pvs ih =>
    simp only [List.map_cons, List.cons_append, liftASpec, h pv (by simp), bindOk]
    exact ih _ (fun x hx => h x (by simp [hx]))

theorem fo_liftAFrom {b : Nat} (f : List Val → W Val) (ins : List Nat) (vs : List Val) (h : ∀ p ∈ ins, p < b) :
    FO b (liftAFrom f ins vs) := by
  induction ins generalizing vs with
  | nil => exact .logged _ _ (.successful _)
  | cons p ps ih =>
    exact .flatMap _ _ (.ref p (h p (by simp))) (fun v => ih _ (fun x hx => h x (by simp [hx])))

/-- (b) `LiftAN` and `Zip`/`Zip3` are first-order -/
theorem fo_liftA {b : Nat} (f : NFn) (c : Ex) (ins : List Nat) (h : ∀ p ∈ ins, p < b) : FO b (liftA f c ins) :=
  fo_liftAFrom _ ins [] h

theorem fo_zipN {b : Nat} (ins : List Nat) (h : ∀ p ∈ ins, p < b) : FO b (zipN ins) := fo_liftAFrom _ ins [] h

/-- `Zip`/`Zip3`: the tuple of the operands' values in positional order -/
theorem evalS_zipN (σ : Nat → TV) (ins : List Nat) : evalS σ (zipN ins) = liftASpec σ (fun vs => (.tup vs, [])) ins [] :=
  evalS_liftAFrom σ _ ins []

/-- the Try-level reading of `LiftMN(f)(ins1, …, insN)` (f returns a future) -/
def liftMSpec (σ : Nat → TV) (f : List Val → FExpr) : List Nat → List Val → TV
  | [], vs => evalS σ (f vs)
  | p :: ps, vs => bindOk (σ p) (fun v => liftMSpec σ f ps (vs ++ [v]))

/-- the first-order reading of `LiftMN` (`Flatten(Map2(a, b, f))` read as nested `FlatMap`s) denotes `liftMSpec` -/
theorem evalS_liftMFO (σ : Nat → TV) (f : List Val → FExpr) (ins : List Nat) (vs : List Val) :
    evalS σ (liftMFO f ins vs) = liftMSpec σ f ins vs := by
  induction ins generalizing vs with
  | nil => rfl
  | cons p ps ih =>
    simp only [liftMFO, liftMSpec, evalS]
    congr 1; funext v; exact ih _

/-- what `LiftMN` really builds agrees with that reading on every level but the innermost one: for N ≥ 3 the first
    operand is bound by the same `FlatMap` … -/
theorem liftMFrom_cons (f : List Val → FExpr) (p q r : Nat) (ps : List Nat) (vs : List Val) :
    liftMFrom f (p :: q :: r :: ps) vs = .flatMap (.ref p) (fun v => liftMFrom f (q :: r :: ps) (vs ++ [v])) := rfl

/-- … and the innermost two are `LiftM2 = Flatten(Map2(a, b, f))`: a future of a future (`successfulOf`), which has no
    first-order denotation and is outside `FO` -/
theorem liftMFrom_two (f : List Val → FExpr) (a b : Nat) (vs : List Val) :
    liftMFrom f [a, b] vs
      = flatten (.flatMap (.ref a) (fun v1 => .flatMap (.ref b) (fun v2 => .successfulOf (f (vs ++ [v1, v2]))))) := rfl

theorem not_fo_liftM2 {b : Nat} (f : List Val → FExpr) (p q : Nat) (vs : List Val) : ¬ FO b (liftMFrom f [p, q] vs) := by
  intro h
  rw [liftMFrom_two] at h
  cases h with
  | flatMap _ _ he _ =>
    cases he with
    | flatMap _ _ _ hk =>
      have := hk (.int 0)
      cases this with
      | flatMap _ _ _ hk2 => exact nomatch hk2 (.int 0)

/-- the outer levels of the REAL `LiftMN` short-circuit like the reading: if the first undetermined-or-failed operand among
    all but the last two is a failure, the result is that failure (`LiftMN_partial`: nothing is proved about the case
    in which all but the last two succeed — there the `Flatten ∘ Map2` node decides, covered by the correspondence
    and the direct three-valued evaluation only) -/
theorem evalS_liftMFrom_outer_failure (σ : Nat → TV) (f : List Val → FExpr) (pvs : List (Nat × Val)) (q : Nat) (e : Err)
    (r1 r2 : Nat) (rest : List Nat) (vs : List Val) (h : ∀ pv ∈ pvs, σ pv.1 = some (.success pv.2))
    (hq : σ q = some (.failure e)) :
    evalS σ (liftMFrom f (pvs.map (·.1) ++ q :: r1 :: r2 :: rest) vs) = some (.failure e) := by
  induction pvs generalizing vs with
  | nil => simp [liftMFrom, evalS, hq, bindOk]
  | cons pv pvs ih =>
    have hne : ∃ x y zs, pvs.map (·.1) ++ q :: r1 :: r2 :: rest = x :: y :: zs := by
      cases pvs with
      | nil => exact ⟨q, r1, r2 :: rest, rfl⟩
      | cons a as =>
        cases as with
        | nil => exact ⟨a.1, q, r1 :: r2 :: rest, rfl⟩
        | cons b bs => exact ⟨a.1, b.1, _, rfl⟩
    obtain ⟨x, y, zs, hxy⟩ := hne
    have := ih (vs ++ [pv.2]) (fun x hx => h x (by simp [hx]))
    simp only [List.map_cons, List.cons_append]
    rw [hxy] at this ⊢
    cases zs with
    | nil => have := congrArg List.length hxy; simp at this; omega
    | cons z zs =>
      simp only [liftMFrom, evalS, h pv (by simp), bindOk]
      exact this

/-- `MethodN(ta1, fa1)(a2, …, aN)` (and `Method1`, `Method2`, `FlapMap`): `fa1(a1, a2, …, aN)` on the value of `ta1` -/
theorem evalS_methodN (σ : Nat → TV) (ta : Nat) (f : NFn) (c : Ex) (rest : List Val) :
    evalS σ (methodN ta f c rest) = bindOk (σ ta) (fun x => some (.success (f c (x :: rest)).1)) := by
  simp only [methodN, evalS_map, evalS]

theorem fo_methodN {b : Nat} (ta : Nat) (f : NFn) (c : Ex) (rest : List Val) (h : ta < b) : FO b (methodN ta f c rest) :=
  fo_map _ _ (.ref ta h)

/-- `FlatMethodN` for N ≥ 2: the future `fa1(a1, …, aN)` returns, on the value of `ta1`
    (`FlatMethod2` ignores executors altogether) -/
theorem evalS_flatMethodN (σ : Nat → TV) (N : Nat) (hN : 2 ≤ N) (ta : Nat) (f : Ex → List Val → FExpr) (c : Ex)
    (rest : List Val) :
    evalS σ (flatMethodN N ta f c rest)
      = bindOk (σ ta) (fun x => evalS σ (f (if N = 2 then .d else c) (x :: rest))) := by
  match N, hN with
  | 2, _ => simp [flatMethodN, evalS]
  | n + 3, _ => simp [flatMethodN, evalS]

theorem fo_flatMethodN {b : Nat} (N : Nat) (hN : 2 ≤ N) (ta : Nat) (f : Ex → List Val → FExpr) (c : Ex) (rest : List Val)
    (h : ta < b) (hf : ∀ c xs, FO b (f c xs)) : FO b (flatMethodN N ta f c rest) := by
  match N, hN with
  | 2, _ => exact .flatMap _ _ (.ref ta h) (fun _ => hf _ _)
  | n + 3, _ => exact .flatMap _ _ (.ref ta h) (fun _ => hf _ _)

/-- `FlatMethod1 = Flatten ∘ Map`: a future of a future, outside `FO` -/
theorem not_fo_flatMethod1 {b : Nat} (ta : Nat) (f : Ex → List Val → FExpr) (c : Ex) (rest : List Val) :
    ¬ FO b (flatMethodN 1 ta f c rest) := by
  intro h
  simp only [flatMethodN, flatten] at h
  cases h with
  | flatMap _ _ he _ =>
    cases he with
    | flatMap _ _ _ hk => exact nomatch hk (.int 0)

/-- `FuncN(f)(a1, …, aN)`: a task computing `f(a1, …, aN)` on the DEFAULT executor; a panic is already a `Failure` -/
theorem evalS_funcN (σ : Nat → TV) (f : Ex → List Val → W (Try Val)) (args : List Val) :
    evalS σ (funcN f args) = some (f .d args).1 := rfl

theorem fo_funcN {b : Nat} (f : Ex → List Val → W (Try Val)) (args : List Val) : FO b (funcN f args) := .apply _

/-- the Try-level reading of `ComposeN(f1, …, fN)(a)`: Kleisli composition left to right -/
def composeSpec (σ : Nat → TV) (c : Ex) : List (Ex → Val → FExpr) → Ex → Val → TV
  | [], _, a => some (.success a)
  | [f], cur, a => evalS σ (f cur a)
  | f :: fs, cur, a => bindOk (evalS σ (f cur a)) (fun b => composeSpec σ c fs c b)

theorem evalS_composeN (σ : Nat → TV) (c : Ex) (fs : List (Ex → Val → FExpr)) (cur : Ex) (a : Val) :
    evalS σ (composeN c fs cur a) = composeSpec σ c fs cur a := by
  induction fs generalizing cur a with
  | nil => rfl
  | cons f fs ih =>
    cases fs with
    | nil => rfl
    | cons g gs =>
      simp only [composeN, composeSpec, evalS]
      congr 1; funext b; exact ih _ _

theorem fo_composeN {b : Nat} (c : Ex) (fs : List (Ex → Val → FExpr)) (cur : Ex) (a : Val)
    (h : ∀ f ∈ fs, ∀ x v, FO b (f x v)) : FO b (composeN c fs cur a) := by
  induction fs generalizing cur a with
  | nil => exact .successful _
  | cons f fs ih =>
    cases fs with
    | nil => exact h f (by simp) _ _
    | cons g gs =>
      exact .flatMap _ _ (h f (by simp) _ _) (fun v => ih _ _ (fun x hx => h x (by simp [hx])))

-- FlapN -------------------------------------------------------------------------------------------------------------------

theorem flapRun_log (app : Ex → Val → Val → W Val) (c : Ex) (xs : List Val) (tf : Nat) (n : Net) (htf : tf < n.next) :
    (flapRun app c tf xs n).2.log = n.log := (flapRun_frame app c xs tf n htf).2.1

/-- `FlapN(Successful(curried.FuncN(fn)))(x1)…(xN)` is `fn(x1, …, xN)` (run on the executor handed to `Flap`) -/
theorem flapVal_applyC (fn : NFn) (c : Ex) (xs : List Val) (hne : xs ≠ []) :
    ∀ (vs : List Val), flapVal (applyC (vs.length + xs.length) fn) c (pa vs) xs = (fn c (vs ++ xs)).1 := by
  induction xs with
  | nil => exact absurd rfl hne
  | cons x xs ih =>
    intro vs
    cases xs with
    | nil => simp only [flapVal]; rw [applyC_last _ _ _ _ _ (by simp)]
    | cons y ys =>
      simp only [flapVal]
      rw [applyC_partial _ _ _ _ _ (by simp)]
      have := ih (by simp) (vs ++ [x])
      simp only [List.length_append, List.length_cons, List.length_nil, List.append_assoc, List.cons_append,
        List.nil_append] at this ⊢
      rw [show vs.length + (ys.length + 1 + 1) = vs.length + (0 + 1) + (ys.length + 1) by omega]
      exact this

/-- **FlapN, soundness form** (every arity): once completed, `FlapN(tf)(x1)…(xN)` holds the value of the function future
    applied to the arguments in order; combined with `flapVal_applyC`: `fn(x1, …, xN)` -/
theorem flap_sound (app : Ex → Val → Val → W Val) (c : Ex) (xs : List Val) (tf : Nat) (n : Net) (htf : tf < n.next)
    (n' : Net) (hle : SpecLe (flapRun app c tf xs n).2 n') (σ : Nat → TV)
    (hσ : ∀ p v, σ p = some v → evalS σ (n'.spec p) = some v) (r : Try Val)
    (hq : σ (flapRun app c tf xs n).1 = some r) :
    bindOk (σ tf) (fun f => some (.success (flapVal app c f xs))) = some r :=
  flapRun_rel brel_below (R := Below) app c xs tf n htf n' hle (fun p v hv => hσ p v hv) r hq

/-- **FlapN, denotation** -/
theorem flap_denotation (app : Ex → Val → Val → W Val) (c : Ex) (xs : List Val) (tf : Nat) (n : Net) (htf : tf < n.next)
    (n' : Net) (hle : SpecLe (flapRun app c tf xs n).2 n') (σ : Nat → TV) (hσ : ∀ p, σ p = evalS σ (n'.spec p)) :
    σ (flapRun app c tf xs n).1 = bindOk (σ tf) (fun f => some (.success (flapVal app c f xs))) :=
  flapRun_rel brel_eq (R := Eq) app c xs tf n htf n' hle hσ

-- the remaining hand-written combinators of future_op.go --------------------------------------------------------------------

/-- `future.Ap(Map(h1, x => y => fn(x, y)), a, ctx...)`: function future first, then the operand; sound form and denotation -/
theorem ap_sound (fn : NFn) (c : Ex) (h1 a : Nat) (n : Net) (ha : a < n.next) (n' : Net)
    (hle : SpecLe (apRun fn c h1 a n).2 n') (σ : Nat → TV) (hσ : ∀ p v, σ p = some v → evalS σ (n'.spec p) = some v)
    (r : Try Val) (hq : σ (apRun fn c h1 a n).1 = some r) :
    bindOk (σ h1) (fun x => bindOk (σ a) (fun y => some (.success (fn c [x, y]).1))) = some r :=
  (apRun_rel brel_below (R := Below) fn c h1 a n ha n' hle (fun p v hv => hσ p v hv)).1 r hq

theorem ap_denotation (fn : NFn) (c : Ex) (h1 a : Nat) (n : Net) (ha : a < n.next) (n' : Net)
    (hle : SpecLe (apRun fn c h1 a n).2 n') (σ : Nat → TV) (hσ : ∀ p, σ p = evalS σ (n'.spec p)) :
    σ (apRun fn c h1 a n).1 = bindOk (σ h1) (fun x => bindOk (σ a) (fun y => some (.success (fn c [x, y]).1))) :=
  (apRun_rel brel_eq (R := Eq) fn c h1 a n ha n' hle hσ).1

/-- `future.ApFunc`: the supplier's future is consulted only after the function future succeeded -/
theorem apFunc_denotation (fn : NFn) (c : Ex) (h1 : Nat) (a : Ex → FExpr) (n : Net) (n' : Net)
    (hle : SpecLe (apFuncRun fn c h1 a n).2 n') (σ : Nat → TV) (hσ : ∀ p, σ p = evalS σ (n'.spec p)) :
    σ (apFuncRun fn c h1 a n).1
      = bindOk (σ h1) (fun x => bindOk (evalS σ (a c)) (fun y => some (.success (fn c [x, y]).1))) ∧
    (apFuncRun fn c h1 a n).2.log = n.log :=
  apFuncRun_rel brel_eq (R := Eq) fn c h1 a n n' hle hσ

theorem apFunc_sound (fn : NFn) (c : Ex) (h1 : Nat) (a : Ex → FExpr) (n : Net) (n' : Net)
    (hle : SpecLe (apFuncRun fn c h1 a n).2 n') (σ : Nat → TV)
    (hσ : ∀ p v, σ p = some v → evalS σ (n'.spec p) = some v) (r : Try Val)
    (hq : σ (apFuncRun fn c h1 a n).1 = some r) :
    bindOk (σ h1) (fun x => bindOk (evalS σ (a c)) (fun y => some (.success (fn c [x, y]).1))) = some r :=
  (apFuncRun_rel brel_below (R := Below) fn c h1 a n n' hle (fun p v hv => hσ p v hv)).1 r hq

/-- `future.With(withf, v, ctx...)(a)`: `withf(a, b)` on the value `b` of `v` -/
theorem with_denotation (fn : NFn) (c : Ex) (v : Nat) (a : Val) (n : Net) (n' : Net)
    (hle : SpecLe (withRun fn c v a n).2 n') (σ : Nat → TV) (hσ : ∀ p, σ p = evalS σ (n'.spec p)) :
    σ (withRun fn c v a n).1 = bindOk (σ v) (fun b => some (.success (fn c [a, b]).1)) ∧
    (withRun fn c v a n).2.log = n.log :=
  withRun_rel brel_eq (R := Eq) fn c v a n n' hle hσ

theorem evalS_replace (σ : Nat → TV) (ta : Nat) (b : Val) :
    evalS σ (Fut.replace ta b) = bindOk (σ ta) (fun _ => some (.success b)) := by
  simp only [Fut.replace, evalS_map, evalS]

/-- `ComposeTry(f1, f2)(a)`: `f1(a)` (run by the caller), then `f2` on its value -/
theorem evalS_composeTry (σ : Nat → TV) (f1 : Ex → Val → W (Try Val)) (f2 : Ex → Val → FExpr) (c : Ex) (a : Val) :
    evalS σ (composeTry f1 f2 c a) = bindOk (some (f1 .s a).1) (fun v => evalS σ (f2 c v)) := by
  simp only [composeTry, evalS, evalS_fromTry]

theorem evalS_composeOption (σ : Nat → TV) (f1 : Ex → Val → W (Option Val)) (f2 : Ex → Val → FExpr) (c : Ex) (a : Val) :
    evalS σ (composeOption f1 f2 c a) = bindOk (some (tryOfOption (f1 .s a).1)) (fun v => evalS σ (f2 c v)) := by
  simp only [composeOption, evalS, evalS_fromOption]

theorem evalS_composePure (σ : Nat → TV) (f : Ex → Val → W Val) (a : Val) :
    evalS σ (composePure f a) = some (.success (f .s a).1) := rfl

/-- `Func0` passes its executor on (unlike `FuncN`, N ≥ 1) -/
theorem evalS_func0 (σ : Nat → TV) (f : Ex → List Val → W (Try Val)) (c : Ex) : evalS σ (func0 f c) = some (f c []).1 := rfl

theorem evalS_flatMapTraverseSeq (σ : Nat → TV) (ta : FExpr) (f : Val → FExpr) :
    evalS σ (flatMapTraverseSeq ta f) = bindOk (evalS σ ta) (fun xs => evalS σ (traverseSeq (elems xs) f)) := rfl

theorem evalS_mapSeqLift (σ : Nat → TV) (ta : FExpr) (f : Ex → Val → W Val) (c : Ex) :
    evalS σ (mapSeqLift ta f c)
      = bindOk (evalS σ ta) (fun xs => some (.success (.seq ((elems xs).map (fun x => (f c x).1))))) := by
  simp only [mapSeqLift, evalS_map, List.map_map]
  rfl

end FpVerif.Spec.C14Fut
