import FpVerif.Gen.TCGen
/-!
# C09 / C10 / C11 / C18 — coverage of the translation tie for the hand-written type-class combinators

`harness/cmd/tc2lean` lists in `FpVerif/Gen/TCGen.lean` (regenerated from the working tree on every check)

* `found`        every exported function, method and package variable of `eq/eq_op.go`, `hash/hash_op.go`,
                 `ord/ord_op.go`, `monoid/monoid_op.go`, `semigroup/semigroup.go`, `clone/clone.go`, `monoid.go`, and the
                 methods of `EqFunc`, `CompareFunc`, `LessFunc`, `CloneFunc` + `EqGiven`, `LessGiven` of `typeclass.go`;
* `translated`   those it translated (each has a theorem `…_is_model` / `…_def` in `Spec/C09Gen`, `C09GenHash`, `C10Gen`,
                 `C11Gen`, `C18Gen`;
                 the command at the end of each of these files fails the build if one is missing);
* `untranslated` those outside the fragment.

The lists below are fixed under version control.  A NEW exported combinator added to one of the files is `found`; it is
then either translated (and `translated_as_expected` fails: there is no model theorem for it) or untranslated (and
`exceptions_as_expected` fails: it is not a listed exception).  A listed declaration that disappears, or one that
leaves the fragment after an edit, fails the same theorems.
-/
namespace FpVerif.Spec.TCGenCover
open FpVerif.Gen.TC

-- `decide` walks lists of ~130 strings
set_option maxRecDepth 8192

/-- the exceptions: declarations that stay tied by the differential harnesses only (`cmd/tc`, `cmd/clone`, `cmd/misc`),
    WITH REASONS -/
def exceptions : List (String × String) := [
  ("clone.Generic", "fp.Generic (a struct of two user functions To / From outside the translated files); model CloneHeap.clone (.generic), clone harness"),
  ("clone.GoMap", "Go map literal, range over a map, map assignment; model CloneHeap.clone (.gomap), clone harness"),
  ("clone.Ptr", "`&t` allocates: a pointer with an identity; model CloneHeap.clone (.ptr) over an explicit heap, clone harness"),
  ("eq.Bytes", "standard library: bytes.Equal (model EqD.bytes)"),
  ("eq.FpMap", "fp.Map (Size / Iterator().ForAll / Get of the immutable HAMT: C03); model EqD.fpMap, tc harness"),
  ("eq.GoMap", "Go map: `for k, av := range a` has no iteration order that is a function of the value; model EqD.goMap over association lists, tc harness"),
  ("eq.Time", "standard library: time.Time.Equal (model EqD.time states what is assumed about it)"),
  ("fp.EmptyFunc.Empty", "adapter (EmptyFunc used as a value with an Empty method): Spec/C14Misc.lean, misc harness"),
  ("fp.SemigroupFunc.Curried", "currying adapter, not an instance: modelled in Model/Misc.lean, Spec/C14Misc.lean, misc harness"),
  ("hash.Bytes", "standard library: hash/fnv New32 / Write / Sum32 (statements that are not in the fragment); model HashD.bytes = FNV-1, tc harness"),
  ("monoid.Future", "fp.Future: asynchronous, C06 network model (Model/FutureMisc.lean, Spec/C14Misc); not in C11"),
  ("monoid.MergeGoMap", "Go map literal, range over maps, map assignment; model MonoidD.mergeGoMap over association lists, tc harness"),
  ("monoid.MergeMap", "fp.Map.Concat (immutable HAMT: C03); model MonoidD.mergeMap, tc harness"),
  ("monoid.MergeSet", "fp.Set.Concat (C03); model MonoidD.mergeSet, tc harness"),
  ("ord.Time", "standard library: time.Time.Compare (model OrdD.time)")]

/-- what is expected to be translated; every entry has its `…_is_model` (or, where the model has no definition, `…_def`) theorem -/
def expectedTranslated : List String := [
  "clone.Given", "clone.HCons", "clone.HNil", "clone.New", "clone.Option", "clone.Seq",
  "clone.Slice", "clone.Tuple2", "eq.ContraMap", "eq.FieldNilOr", "eq.FieldNoneOr", "eq.FieldNotNilAnd",
  "eq.FieldSomeAnd", "eq.Given", "eq.GivenFieldPtr", "eq.GivenFieldValue", "eq.GivenPtr", "eq.GivenValue",
  "eq.HCons", "eq.HNil", "eq.New", "eq.NilOr", "eq.NoneOr", "eq.NotNilAnd",
  "eq.NotZero", "eq.NotZeroAnd", "eq.Option", "eq.Ptr", "eq.PtrGiven", "eq.Seq",
  "eq.Slice", "eq.SomeAnd", "eq.String", "eq.Tuple1", "eq.ZeroOr", "fp.CloneFunc.Clone",
  "fp.CompareFunc.Compare", "fp.CompareFunc.Eqv", "fp.CompareFunc.Less", "fp.CompareFunc.LessEq", "fp.CompareFunc.Max", "fp.CompareFunc.Min",
  "fp.CompareFunc.Reversed", "fp.CompareFunc.ThenComparing", "fp.Endo.AsFunc", "fp.EqFunc.Eqv", "fp.EqGiven", "fp.LessFunc.Compare",
  "fp.LessFunc.Eqv", "fp.LessFunc.Less", "fp.LessFunc.LessEq", "fp.LessFunc.Max", "fp.LessFunc.Min", "fp.LessFunc.Reversed",
  "fp.LessFunc.ThenComparing", "fp.LessGiven", "fp.Product", "fp.SemigroupFunc.Combine", "fp.SemigroupFunc.Empty", "fp.Sum",
  "hash.ContraMap", "hash.HCons", "hash.HNil", "hash.New", "hash.Number", "hash.Option",
  "hash.Ptr", "hash.Seq", "hash.Slice", "hash.String", "hash.Tuple1", "monoid.All",
  "monoid.Any", "monoid.Dual", "monoid.Endo", "monoid.Eval", "monoid.HCons", "monoid.HNil",
  "monoid.IMap", "monoid.MergeSeq", "monoid.MergeSlice", "monoid.New", "monoid.Option", "monoid.Product",
  "monoid.Ptr", "monoid.String", "monoid.Sum", "monoid.Try", "monoid.Unit", "ord.ContraMap",
  "ord.FromCompare", "ord.Given", "ord.GivenField", "ord.HCons", "ord.HNil", "ord.New",
  "ord.Option", "ord.Ptr", "ord.Seq", "ord.Slice", "ord.Tuple1", "semigroup.All",
  "semigroup.Any", "semigroup.Dual", "semigroup.Endo", "semigroup.Eval", "semigroup.IMap", "semigroup.New",
  "semigroup.Option", "semigroup.Product", "semigroup.Ptr", "semigroup.Sum"]

/-- unexported declarations and callees from other files that the translated code calls and that are translated too
    (`hash.hashUint64` is the exception among them: a `for cond {}` loop; calls go to the model's `HashD.hashUint64`) -/
def expectedHelpers : List String := [
  "fp.Compose", "fp.Id", "fp.Min", "fp.Option.OrElse", "fp.Zero", "fp.monoid.Combine",
  "fp.monoid.Empty", "hash.hashUint64", "hash.hasher.Hash", "monoid.monoid.Combine", "monoid.monoid.Empty", "seq.Fold"]

/-- the translator translated exactly the declarations the model theorems speak about -/
theorem translated_as_expected : translated = expectedTranslated := by decide

/-- … and what it left out is exactly the listed exceptions -/
theorem exceptions_as_expected : untranslated.map Prod.fst = exceptions.map Prod.fst := by decide

theorem helpers_as_expected : helpers = expectedHelpers := by decide

/-- coverage: the translator's three lists are one list split by a flag — every exported declaration found in the files
    is EITHER translated OR untranslated (= a listed exception, by `exceptions_as_expected`), never both -/
theorem coverage_found : found = foundFlags.map Prod.fst := by decide

theorem coverage_translated : translated = (foundFlags.filter fun p => p.2).map Prod.fst := by decide

theorem coverage_untranslated : untranslated.map Prod.fst = (foundFlags.filter fun p => !p.2).map Prod.fst := by decide

theorem coverage_count : found.length = expectedTranslated.length + exceptions.length := by decide

end FpVerif.Spec.TCGenCover
