import FpVerif.Gen.HamtFacts
import FpVerif.Model.Hamt
/-!
# C03 / C04 — regenerated facts (Tie C): `immutable/map.go` has the constants, node kinds, thresholds, shift arithmetic and
# decision structure that `Model/Hamt.lean` was written from

`FpVerif/Gen/HamtFacts.lean` is regenerated from the WORKING TREE's `immutable/map.go` on every run by `harness/cmd/hamtfacts`
(go/ast + go/types).  `Spec/C03.lean` / `Spec/C04Hamt.lean` prove the properties about `Model/Hamt.lean`; the correspondence
harness compares behaviour.  The theorems below tie the model's TEXT to the code's text, so that a change of a constant, of a
promotion / demotion threshold (value or operator), of the hash-fragment arithmetic, of the iterator's stack size, a new node
kind or a new method is a failing obligation even when no generated input reaches it:

* (a) `consts_are_the_models`        the constants of map.go EQUAL `Hamt.maxArrayMapSize`, `maxBitmapIndexedSize`, `mapNodeBits`,
                                   `mapNodeSize`, `mapNodeMask`; there is no other constant;
* (b) `thresholds_expected`       every comparison against a constant (promotions, demotions, emptiness) has the operator and
                                   bound of the model's branch; `model_*` theorems state that branch of the MODEL with the same
                                   operator and bound (boundary behaviour on both sides of the bound);
* (c) `node_kinds`, `methods_expected`, `structs_expected`   five node kinds (one per constructor of `Hamt.Node`, `kindName` is
                                   exhaustive), their fields, the methods per kind; `function_names` every function of the file;
* (d) `frags_expected`, `shift_args_expected`, `popcounts_expected`   `(hash >> shift) & mapNodeMask` = `Hamt.frag`,
                                   descent by `shift + mapNodeBits`, the roots start at shift 0, popcount of `bitmap & (bit-1)`;
* (e) `iter_stack_suffices`       the iterator's stack has at least (maximal trie depth + 1) slots (seed C03-14 shrank it);
* (f) `skeleton_*`                per function the normalised statement tree equals the skeleton written here next to the model
                                   definition it mirrors (receiver = `recv`, single-definition pure locals inlined, other locals
                                   `$<type>`, closure-shared ones `^name`, type arguments dropped).
-/
namespace FpVerif.Spec.C03Facts
open FpVerif.Gen.Hamt
open FpVerif.Hamt

/-! ### (a) constants -/

/-- the constants of map.go are exactly the five constants of the model, with the model's values -/
theorem consts_are_the_models :
    consts = [("maxArrayMapSize", Hamt.maxArrayMapSize), ("maxBitmapIndexedSize", Hamt.maxBitmapIndexedSize),
              ("mapNodeBits", Hamt.mapNodeBits), ("mapNodeSize", Hamt.mapNodeSize), ("mapNodeMask", Hamt.mapNodeMask)] := by
  decide +kernel

/-- `mapNodeSize = 1 << mapNodeBits`, `mapNodeMask = mapNodeSize - 1` — on the extracted values and on the model's -/
theorem const_relations :
    consts.lookup "mapNodeSize" = (consts.lookup "mapNodeBits").map (1 <<< ·) ∧
    consts.lookup "mapNodeMask" = (consts.lookup "mapNodeSize").map (· - 1) ∧
    Hamt.mapNodeSize = 1 <<< Hamt.mapNodeBits ∧ Hamt.mapNodeMask = Hamt.mapNodeSize - 1 := by decide +kernel

/-- the fixed array of a hash-array node has `mapNodeSize` = 32 slots (`List.replicate mapNodeSize none` in `bitmapToHashArray`);
    the bitmap is a `uint32`: one bit per slot -/
theorem slots_are_mapNodeSize :
    (structs.lookup "mapHashArrayNode").bind (·.lookup "nodes") = some "[mapNodeSize=32]mapNode" ∧
    (structs.lookup "mapBitmapIndexedNode").bind (·.lookup "bitmap") = some "uint32" ∧
    Hamt.mapNodeSize = 32 := by decide +kernel

/-! ### (b) thresholds -/

/-- every comparison against a compile-time constant that mentions a named constant or compares a `len`:
    (function, lhs, operator, constant as written, value), constant on the right.
    * `mapArrayNode.set`            `entries.length ≥ maxArrayMapSize`  (`Node.setCore`, array case)  → `expandArray`
    * `mapArrayNode.delete`         `entries.length == 1`               (`Node.delete`, array case)   → nil
    * `mapBitmapIndexedNode.set`    `nodes.length > maxBitmapIndexedSize` (`Node.setCore`, bitmap case) → hash-array node
    * `mapBitmapIndexedNode.delete` `nodes.length == 1`                 (`Node.delete`, bitmap case)  → nil
    * `mapHashArrayNode.delete`     `count ≤ maxBitmapIndexedSize`      (`Node.delete`, hashArray case) → `hashArrayToBitmap`
    * `mapHashCollisionNode.delete` `entries.length == 2`               (`Node.delete`, collision case) → value node
    * `MapBase`                     `t.length > 0`                      (`Hamt.ofList`) -/
def expectedThresholds : List (String × String × String × String × Nat) :=
  [("MapBase", "len(t)", ">", "0", 0),
   ("mapArrayNode.set", "len(recv.entries)", ">=", "maxArrayMapSize", Hamt.maxArrayMapSize),
   ("mapArrayNode.delete", "len(recv.entries)", "==", "1", 1),
   ("mapBitmapIndexedNode.set", "len(recv.nodes)", ">", "maxBitmapIndexedSize", Hamt.maxBitmapIndexedSize),
   ("mapBitmapIndexedNode.delete", "len(recv.nodes)", "==", "1", 1),
   ("mapHashArrayNode.delete", "recv.count", "<=", "maxBitmapIndexedSize", Hamt.maxBitmapIndexedSize),
   ("mapHashCollisionNode.delete", "len(recv.entries)", "==", "2", 2)]

theorem thresholds_expected : thresholds = expectedThresholds := by decide +kernel

/-! ### (c) node kinds, fields, methods -/

/-- the Go type of each constructor of `Hamt.Node` (exhaustive: a sixth constructor does not compile) -/
def kindName {K V : Type} : Node K V → String
  | .array _ => "mapArrayNode"
  | .bitmap _ _ => "mapBitmapIndexedNode"
  | .hashArray _ _ => "mapHashArrayNode"
  | .value _ _ _ => "mapValueNode"
  | .collision _ _ => "mapHashCollisionNode"

/-- the types implementing `mapNode` are the five node kinds; the leaf kinds (`keyHashValue`) are value and collision -/
theorem node_kinds :
    nodeKinds = ["mapArrayNode", "mapBitmapIndexedNode", "mapHashArrayNode", "mapValueNode", "mapHashCollisionNode"] ∧
    leafKinds = ["mapValueNode", "mapHashCollisionNode"] ∧
    ifaces = [("mapNode", ["get", "set", "delete"]), ("mapLeafNode", ["embed:mapNode", "keyHashValue"])] := by decide +kernel

/-- every node of the model is of one of the kinds found in the source -/
theorem kindName_mem {K V : Type} (n : Node K V) : kindName n ∈ nodeKinds := by
  cases n <;> simp [kindName, nodeKinds]

/-- every kind found in the source is a constructor of the model -/
theorem nodeKinds_covered :
    nodeKinds = [kindName (Node.array ([] : List (Nat × Nat))), kindName (Node.bitmap (K := Nat) (V := Nat) 0 []),
                 kindName (Node.hashArray (K := Nat) (V := Nat) 0 []), kindName (Node.value (K := Nat) (V := Nat) 0 0 0),
                 kindName (Node.collision (K := Nat) (V := Nat) 0 [])] := by decide +kernel

/-- the leaf kinds are the constructors on which `Node.keyHashValue` is not the dummy 0 -/
theorem leaf_kinds_model :
    (Node.value (K := Nat) (V := Nat) 7 0 0).keyHashValue = 7 ∧ (Node.collision (K := Nat) (V := Nat) 7 []).keyHashValue = 7 := by
  decide

/-- the fields of every struct of map.go (`Hamt`, `Node` constructors, `IterElem`, `MapBuilder`, `SetBuilder` have these fields) -/
theorem structs_expected :
    structs =
      [("hamt", [("size", "int"), ("root", "mapNode"), ("hasher", "fp.Hashable")]),
       ("mapBuilder", [("m", "*hamt")]),
       ("mapArrayNode", [("entries", "[]mapEntry")]),
       ("mapBitmapIndexedNode", [("bitmap", "uint32"), ("nodes", "[]mapNode")]),
       ("mapHashArrayNode", [("count", "uint"), ("nodes", "[mapNodeSize=32]mapNode")]),
       ("mapValueNode", [("keyHash", "uint32"), ("key", "K"), ("value", "V")]),
       ("mapHashCollisionNode", [("keyHash", "uint32"), ("entries", "[]mapEntry")]),
       ("mapEntry", [("key", "K"), ("value", "V")]),
       ("mapIteratorElem", [("node", "mapNode"), ("index", "int")]),
       ("set", [("m", "fp.MapBase")]),
       ("setBuilder", [("m", "*hamt"), ("shared", "bool")])] := by decide +kernel

/-- the methods per receiver type: a new method (a fourth operation of a node kind, a second mutator of the builders) fails -/
theorem methods_expected :
    methods =
      [("hamt", ["Size", "clone", "Get", "Updated", "set", "Removed", "delete", "Iterator", "String"]),
       ("mapBuilder", ["build", "Build", "Add"]),
       ("mapArrayNode", ["indexOf", "get", "set", "delete"]),
       ("mapBitmapIndexedNode", ["get", "set", "delete"]),
       ("mapHashArrayNode", ["clone", "get", "set", "delete"]),
       ("mapValueNode", ["keyHashValue", "get", "set", "delete"]),
       ("mapHashCollisionNode", ["keyHashValue", "indexOf", "get", "set", "delete"]),
       ("set", ["Contains", "Size", "Iterator", "Incl", "Excl", "String"]),
       ("setBuilder", ["Add", "Build"])] := by decide +kernel

/-- every function / method / closure of map.go -/
theorem function_names :
    funcs.map (·.1) = ["hashUint64", "MapBase", "Map", "hamt.Size", "hamt.clone", "hamt.Get", "hamt.Updated", "hamt.set", "hamt.Removed", "hamt.delete", "hamt.Iterator", "iteratorMap", "iteratorMap$1", "iteratorMap$2", "hamt.String", "hamt.String$1", "MapBuilder", "assert", "mapBuilder.build", "mapBuilder.Build", "mapBuilder.Add", "mapArrayNode.indexOf", "mapArrayNode.get", "mapArrayNode.set", "mapArrayNode.delete", "mapBitmapIndexedNode.get", "mapBitmapIndexedNode.set", "mapBitmapIndexedNode.delete", "mapHashArrayNode.clone", "mapHashArrayNode.get", "mapHashArrayNode.set", "mapHashArrayNode.delete", "newMapValueNode", "mapValueNode.keyHashValue", "mapValueNode.get", "mapValueNode.set", "mapValueNode.delete", "mapHashCollisionNode.keyHashValue", "mapHashCollisionNode.indexOf", "mapHashCollisionNode.get", "mapHashCollisionNode.set", "mapHashCollisionNode.delete", "mergeIntoNode", "MapIterator", "MapIterator$hasNext", "MapIterator$first", "MapIterator$moveStack", "MapIterator$next", "set.Contains", "set.Size", "set.Iterator", "set.Iterator$1", "set.Iterator$2", "set.Incl", "set.Excl", "set.String", "SetMinimal", "Set", "Set$1", "setBuilder.Add", "setBuilder.Build", "setBuilder.Build$1", "SetBuilder"] := by decide +kernel

/-- not modelled (no skeleton below): the unused hash helper, `String()`, `assert`, `iteratorMap` -/
def unmodelled : List String :=
  ["hashUint64", "iteratorMap", "iteratorMap$1", "iteratorMap$2", "hamt.String", "hamt.String$1", "assert", "set.String"]

/-! ### (d) hash fragments, descent, popcount -/

/-- every hash fragment is `(hash >> shift) & mapNodeMask` — `Hamt.frag keyHash shift = (keyHash.toNat >>> shift) &&& mapNodeMask` -/
theorem frags_expected :
    frags =
      [("mapBitmapIndexedNode.get", "(keyHash >> shift) & mapNodeMask"),
       ("mapBitmapIndexedNode.set", "(keyHash >> shift) & mapNodeMask"),
       ("mapBitmapIndexedNode.delete", "(keyHash >> shift) & mapNodeMask"),
       ("mapHashArrayNode.get", "(keyHash >> shift) & mapNodeMask"),
       ("mapHashArrayNode.set", "(keyHash >> shift) & mapNodeMask"),
       ("mapHashArrayNode.delete", "(keyHash >> shift) & mapNodeMask"),
       ("mergeIntoNode", "(node.keyHashValue() >> shift) & mapNodeMask"),
       ("mergeIntoNode", "(keyHash >> shift) & mapNodeMask")] := by decide +kernel

theorem frag_is_the_models (kh : UInt32) (shift : Nat) : frag kh shift = (kh.toNat >>> shift) &&& Hamt.mapNodeMask := rfl

/-- the roots (`Hamt.get/set/delete`, the expansion loop of a full array node) start at shift 0; the branch nodes and the
    recursion of `mergeIntoNode` descend by `shift + mapNodeBits`; value / collision nodes hand their own shift to `mergeIntoNode` -/
theorem shift_args_expected :
    shiftArgs =
      [("hamt.Get", "mapNode.get", "0"), ("hamt.set", "mapNode.set", "0"), ("hamt.delete", "mapNode.delete", "0"),
       ("mapArrayNode.set", "mapNode.set", "0"),
       ("mapBitmapIndexedNode.get", "mapNode.get", "shift + mapNodeBits"),
       ("mapBitmapIndexedNode.set", "mapNode.set", "shift + mapNodeBits"),
       ("mapBitmapIndexedNode.delete", "mapNode.delete", "shift + mapNodeBits"),
       ("mapHashArrayNode.get", "mapNode.get", "shift + mapNodeBits"),
       ("mapHashArrayNode.set", "mapNode.set", "shift + mapNodeBits"),
       ("mapHashArrayNode.delete", "mapNode.delete", "shift + mapNodeBits"),
       ("mapValueNode.set", "mergeIntoNode", "shift"),
       ("mapHashCollisionNode.set", "mergeIntoNode", "shift"),
       ("mergeIntoNode", "mergeIntoNode", "shift + mapNodeBits")] := by decide +kernel

/-- the child index of a bitmap node is the popcount of the bits BELOW the key's bit: `popCount (bm &&& (bit - 1))` with
    `bit = 1 <<< frag keyHash shift`, in all three methods -/
theorem popcounts_expected :
    popcounts =
      [("mapBitmapIndexedNode.get", "OnesCount32(recv.bitmap & ((uint32(1) << ((keyHash >> shift) & mapNodeMask)) - 1))"),
       ("mapBitmapIndexedNode.set", "OnesCount32(recv.bitmap & ((uint32(1) << ((keyHash >> shift) & mapNodeMask)) - 1))"),
       ("mapBitmapIndexedNode.delete", "OnesCount32(recv.bitmap & ((uint32(1) << ((keyHash >> shift) & mapNodeMask)) - 1))")] := by
  decide +kernel

/-! ### (e) the iterator's stack -/

/-- number of branch levels a 32-bit hash can be consumed over, `mapNodeBits` at a time: shifts 0, 5, …, 30 -/
def maxBranchDepth (bits : Nat) : Nat := (32 + bits - 1) / bits

/-- the only local array of map.go is the iterator's stack -/
theorem iter_stack_found : arrays.map (fun a => (a.1, a.2.1)) = [("MapIterator", "mapIteratorElem")] := by decide +kernel

/-- the stack holds one element per branch level plus the leaf on top (`first()` / `moveStack()` write `stack[depth+1]`):
    it needs at least `maxBranchDepth + 1` slots.  (The model's `iterFirst` throws "index out of range [32]" beyond 32 elements;
    any length ≥ 8 is unobservable on well-formed tries, so only the lower bound is an obligation.) -/
theorem iter_stack_suffices :
    arrays.all (fun a => decide (a.2.2 ≥ maxBranchDepth Hamt.mapNodeBits + 1)) = true ∧
    (consts.lookup "mapNodeBits").map maxBranchDepth = some 7 := by decide +kernel

/-- non-vacuity: 7 slots (seed C03-14) are rejected, 8 accepted -/
example : ¬ (7 ≥ maxBranchDepth Hamt.mapNodeBits + 1) := by decide
example : 8 ≥ maxBranchDepth Hamt.mapNodeBits + 1 := by decide

/-! ### (b') the model's branches have the operators and bounds of `expectedThresholds` -/

section model
variable {K V : Type} (h : Hasher K)

/-- array node, new key: `≥ maxArrayMapSize` entries → expansion -/
theorem model_array_promotes {es : List (K × V)} (k : K) (v : V) (s : Nat) (kh : UInt32) (m r : Bool)
    (hnew : indexOf h es k = none) (hfull : es.length ≥ Hamt.maxArrayMapSize) :
    (Node.array es).set h k v s kh m r = expandArray h es k v true := by
  simp [Node.set, Node.setCore, hnew, hfull]

/-- array node, new key: `< maxArrayMapSize` entries → append (so the operator is `≥`, the bound `maxArrayMapSize`) -/
theorem model_array_appends {es : List (K × V)} (k : K) (v : V) (s : Nat) (kh : UInt32) (m r : Bool)
    (hnew : indexOf h es k = none) (hroom : es.length < Hamt.maxArrayMapSize) :
    (Node.array es).set h k v s kh m r = pure (.array (es ++ [(k, v)]), true) := by
  have : ¬ Hamt.maxArrayMapSize ≤ es.length := by omega
  simp [Node.set, Node.setCore, hnew, this]

end model

/-! ### (f) skeletons -/

/-- `MapBase` ↔ `Hamt.ofList`: `t.length > 0` → builder fold + build, else the empty map -/
theorem skeleton_MapBase :
    funcs.lookup "MapBase" = some [
    (0, "if", "len(t) > 0"),
    (1, "asg", "$mapBuilder := MapBuilder(hasher)"),
    (1, "range", "_, $Tuple2 := t"),
    (2, "call", "$mapBuilder.Add($Tuple2.I1, $Tuple2.I2)"),
    (1, "ret", "$mapBuilder.build()"),
    (0, "else", ""),
    (1, "ret", "&hamt{hasher: hasher}")] := by decide +kernel

/-- `Map` ↔ `FMap.ofList` -/
theorem skeleton_Map :
    funcs.lookup "Map" = some [
    (0, "ret", "fp.MakeMap(MapBase(hasher, t...))")] := by decide +kernel

/-- `hamt.Size` ↔ `Hamt.size` (field) -/
theorem skeleton_hamt_Size :
    funcs.lookup "hamt.Size" = some [
    (0, "ret", "recv.size")] := by decide +kernel

/-- `hamt.clone` ↔ shallow copy of the header: `{ m with … }` in `Hamt.set` / `Hamt.delete` -/
theorem skeleton_hamt_clone :
    funcs.lookup "hamt.clone" = some [
    (0, "asg", "$hamt := *recv"),
    (0, "ret", "&$hamt")] := by decide +kernel

/-- `hamt.Get` ↔ `Hamt.get`: nil root → none; else `root.get h key 0 (h.hash key)` -/
theorem skeleton_hamt_Get :
    funcs.lookup "hamt.Get" = some [
    (0, "if", "recv.root == nil"),
    (1, "ret", "fp.None()"),
    (0, "asg", "$uint32 := recv.hasher.Hash(key)"),
    (0, "ret", "recv.root.get(key, 0, $uint32, recv.hasher)")] := by decide +kernel

/-- `hamt.Updated` ↔ `Hamt.updated = set … false` -/
theorem skeleton_hamt_Updated :
    funcs.lookup "hamt.Updated" = some [
    (0, "ret", "recv.set(key, value, false)")] := by decide +kernel

/-- `hamt.set` ↔ `Hamt.set`: empty → array node with the one entry, size 1; else `root.set … 0 (hash key) … false`, size+1 iff resized -/
theorem skeleton_hamt_set :
    funcs.lookup "hamt.set" = some [
    (0, "asg", "$Hashable := recv.hasher"),
    (0, "asg", "$hamt := recv"),
    (0, "if", "!mutable"),
    (1, "asg", "$hamt = recv.clone()"),
    (0, "asg", "$hamt.hasher = $Hashable"),
    (0, "if", "recv.root == nil"),
    (1, "asg", "$hamt.size = 1"),
    (1, "asg", "$hamt.root = &mapArrayNode{entries: []mapEntry{{key: key, value: value}}}"),
    (1, "ret", "$hamt"),
    (0, "asg", "$hamt.root = recv.root.set(key, value, 0, $Hashable.Hash(key), $Hashable, mutable, &$bool)"),
    (0, "if", "$bool"),
    (1, "asg", "$hamt.size++"),
    (0, "ret", "$hamt")] := by decide +kernel

/-- `hamt.Removed` ↔ `Hamt.removed`: left fold of `delete k false` -/
theorem skeleton_hamt_Removed :
    funcs.lookup "hamt.Removed" = some [
    (0, "asg", "$hamt := recv"),
    (0, "range", "_, $K := key"),
    (1, "asg", "$hamt = $hamt.delete($K, false)"),
    (0, "ret", "$hamt")] := by decide +kernel

/-- `hamt.delete` ↔ `Hamt.delete`: nil root → same; not resized → same; else size-1 and the new root -/
theorem skeleton_hamt_delete :
    funcs.lookup "hamt.delete" = some [
    (0, "if", "recv.root == nil"),
    (1, "ret", "recv"),
    (0, "asg", "$mapNode := recv.root.delete(key, 0, recv.hasher.Hash(key), recv.hasher, mutable, &$bool)"),
    (0, "if", "!$bool"),
    (1, "ret", "recv"),
    (0, "asg", "$hamt := recv"),
    (0, "if", "!mutable"),
    (1, "asg", "$hamt = recv.clone()"),
    (0, "asg", "$hamt.size = recv.size - 1"),
    (0, "asg", "$hamt.root = $mapNode"),
    (0, "ret", "$hamt")] := by decide +kernel

/-- `hamt.Iterator` ↔ `Hamt.iterator` -/
theorem skeleton_hamt_Iterator :
    funcs.lookup "hamt.Iterator" = some [
    (0, "asg", "$Iterator := MapIterator(recv)"),
    (0, "ret", "$Iterator")] := by decide +kernel

/-- `MapBuilder` ↔ `MapBuilder.new` -/
theorem skeleton_MapBuilder :
    funcs.lookup "MapBuilder" = some [
    (0, "ret", "&mapBuilder{m: &hamt{hasher: hasher}}")] := by decide +kernel

/-- `mapBuilder.build` ↔ `MapBuilder.build`: hand out, invalidate -/
theorem skeleton_mapBuilder_build :
    funcs.lookup "mapBuilder.build" = some [
    (0, "call", "assert((recv.m != nil), \"immutable.SortedMapBuilder.Build(): duplicate call to fetch map\")"),
    (0, "asg", "$hamt := recv.m"),
    (0, "asg", "recv.m = nil"),
    (0, "ret", "$hamt")] := by decide +kernel

/-- `mapBuilder.Build` ↔ `MapBuilder.build` wrapped by `fp.MakeMap` -/
theorem skeleton_mapBuilder_Build :
    funcs.lookup "mapBuilder.Build" = some [
    (0, "ret", "fp.MakeMap(recv.build())")] := by decide +kernel

/-- `mapBuilder.Add` ↔ `MapBuilder.add`: `m.set h key val true` (the in-place path) -/
theorem skeleton_mapBuilder_Add :
    funcs.lookup "mapBuilder.Add" = some [
    (0, "call", "assert((recv.m != nil), \"immutable.MapBuilder: builder invalid after Build() invocation\")"),
    (0, "asg", "recv.m = recv.m.set(key, value, true)"),
    (0, "ret", "recv")] := by decide +kernel

/-- `mapArrayNode.indexOf` ↔ `indexOf` (`findIdx?`) -/
theorem skeleton_mapArrayNode_indexOf :
    funcs.lookup "mapArrayNode.indexOf" = some [
    (0, "range", "$int := recv.entries"),
    (1, "if", "h.Eqv(recv.entries[$int].key, key)"),
    (2, "ret", "$int"),
    (0, "ret", "-1")] := by decide +kernel

/-- `mapArrayNode.get` ↔ `Node.get (.array …)` -/
theorem skeleton_mapArrayNode_get :
    funcs.lookup "mapArrayNode.get" = some [
    (0, "asg", "$int := recv.indexOf(key, h)"),
    (0, "if", "$int == -1"),
    (1, "ret", "fp.None()"),
    (0, "ret", "fp.Some(recv.entries[$int].value)")] := by decide +kernel

/-- `mapArrayNode.set` ↔ `Node.setCore (.array …)`: resized iff absent; absent ∧ `entries.length ≥ maxArrayMapSize` → `expandArray` (value node of the new key, every old entry `set` at shift 0, not mutable); else replace at idx / append -/
theorem skeleton_mapArrayNode_set :
    funcs.lookup "mapArrayNode.set" = some [
    (0, "asg", "$int := recv.indexOf(key, h)"),
    (0, "if", "$int == -1"),
    (1, "asg", "*resized = true"),
    (0, "if", "($int == -1) && (len(recv.entries) >= maxArrayMapSize)"),
    (1, "asg", "$mapNode := newMapValueNode(h.Hash(key), key, value)"),
    (1, "range", "_, $mapEntry := recv.entries"),
    (2, "asg", "$mapNode = $mapNode.set($mapEntry.key, $mapEntry.value, 0, h.Hash($mapEntry.key), h, false, resized)"),
    (1, "ret", "$mapNode"),
    (0, "if", "mutable"),
    (1, "if", "$int != -1"),
    (2, "asg", "recv.entries[$int] = mapEntry{key, value}"),
    (1, "else", ""),
    (2, "asg", "recv.entries = append(recv.entries, mapEntry{key, value})"),
    (1, "ret", "recv"),
    (0, "if", "$int != -1"),
    (1, "asg", "$mapArrayNode.entries = make([]mapEntry, len(recv.entries))"),
    (1, "call", "copy($mapArrayNode.entries, recv.entries)"),
    (1, "asg", "$mapArrayNode.entries[$int] = mapEntry{key, value}"),
    (0, "else", ""),
    (1, "asg", "$mapArrayNode.entries = make([]mapEntry, (len(recv.entries) + 1))"),
    (1, "call", "copy($mapArrayNode.entries, recv.entries)"),
    (1, "asg", "$mapArrayNode.entries[(len($mapArrayNode.entries) - 1)] = mapEntry{key, value}"),
    (0, "ret", "&$mapArrayNode")] := by decide +kernel

/-- `mapArrayNode.delete` ↔ `Node.delete (.array …)`: absent → same; `entries.length == 1` → nil; else remove idx -/
theorem skeleton_mapArrayNode_delete :
    funcs.lookup "mapArrayNode.delete" = some [
    (0, "asg", "$int := recv.indexOf(key, h)"),
    (0, "if", "$int == -1"),
    (1, "ret", "recv"),
    (0, "asg", "*resized = true"),
    (0, "if", "len(recv.entries) == 1"),
    (1, "ret", "nil"),
    (0, "if", "mutable"),
    (1, "call", "copy(recv.entries[$int:], recv.entries[($int + 1):])"),
    (1, "asg", "recv.entries[(len(recv.entries) - 1)] = mapEntry{}"),
    (1, "asg", "recv.entries = recv.entries[:(len(recv.entries) - 1)]"),
    (1, "ret", "recv"),
    (0, "asg", "$mapArrayNode := &mapArrayNode{entries: make([]mapEntry, (len(recv.entries) - 1))}"),
    (0, "call", "copy($mapArrayNode.entries[:$int], recv.entries[:$int])"),
    (0, "call", "copy($mapArrayNode.entries[$int:], recv.entries[($int + 1):])"),
    (0, "ret", "$mapArrayNode")] := by decide +kernel

/-- `mapBitmapIndexedNode.get` ↔ `Node.get (.bitmap …)`: `bit = 1 <<< frag`; `bm &&& bit == 0` → none; child `popCount (bm &&& (bit-1))` at `shift + mapNodeBits` -/
theorem skeleton_mapBitmapIndexedNode_get :
    funcs.lookup "mapBitmapIndexedNode.get" = some [
    (0, "if", "(recv.bitmap & (uint32(1) << ((keyHash >> shift) & mapNodeMask))) == 0"),
    (1, "ret", "fp.None()"),
    (0, "asg", "$mapNode := recv.nodes[bits.OnesCount32((recv.bitmap & ((uint32(1) << ((keyHash >> shift) & mapNodeMask)) - 1)))]"),
    (0, "ret", "$mapNode.get(key, (shift + mapNodeBits), keyHash, h)")] := by decide +kernel

/-- `mapBitmapIndexedNode.set` ↔ `Node.setCore (.bitmap …)`: `!exists ∧ nodes.length > maxBitmapIndexedSize` → `bitmapToHashArray`, slot `frag`, count+1; exists → replace idx (in place: bitmap untouched); else insert at idx, `bm ||| bit` -/
theorem skeleton_mapBitmapIndexedNode_set :
    funcs.lookup "mapBitmapIndexedNode.set" = some [
    (0, "asg", "$bool := (recv.bitmap & (uint32(1) << ((keyHash >> shift) & mapNodeMask))) != 0"),
    (0, "if", "!$bool"),
    (1, "asg", "*resized = true"),
    (0, "asg", "$int := bits.OnesCount32((recv.bitmap & ((uint32(1) << ((keyHash >> shift) & mapNodeMask)) - 1)))"),
    (0, "if", "$bool"),
    (1, "asg", "$mapNode = recv.nodes[$int].set(key, value, (shift + mapNodeBits), keyHash, h, mutable, resized)"),
    (0, "else", ""),
    (1, "asg", "$mapNode = newMapValueNode(keyHash, key, value)"),
    (0, "if", "!$bool && (len(recv.nodes) > maxBitmapIndexedSize)"),
    (1, "asg", "$uint := uint(0)"),
    (1, "for", "$uint < uint(len($mapHashArrayNode.nodes)); $uint++"),
    (2, "if", "(recv.bitmap & (uint32(1) << $uint)) != 0"),
    (3, "asg", "$mapHashArrayNode.nodes[$uint] = recv.nodes[$mapHashArrayNode.count]"),
    (3, "asg", "$mapHashArrayNode.count++"),
    (1, "asg", "$mapHashArrayNode.nodes[((keyHash >> shift) & mapNodeMask)] = $mapNode"),
    (1, "asg", "$mapHashArrayNode.count++"),
    (1, "ret", "&$mapHashArrayNode"),
    (0, "if", "mutable"),
    (1, "if", "$bool"),
    (2, "asg", "recv.nodes[$int] = $mapNode"),
    (1, "else", ""),
    (2, "asg", "recv.bitmap |= uint32(1) << ((keyHash >> shift) & mapNodeMask)"),
    (2, "asg", "recv.nodes = append(recv.nodes, nil)"),
    (2, "call", "copy(recv.nodes[($int + 1):], recv.nodes[$int:])"),
    (2, "asg", "recv.nodes[$int] = $mapNode"),
    (1, "ret", "recv"),
    (0, "asg", "$mapBitmapIndexedNode := &mapBitmapIndexedNode{bitmap: (recv.bitmap | (uint32(1) << ((keyHash >> shift) & mapNodeMask)))}"),
    (0, "if", "$bool"),
    (1, "asg", "$mapBitmapIndexedNode.nodes = make([]mapNode, len(recv.nodes))"),
    (1, "call", "copy($mapBitmapIndexedNode.nodes, recv.nodes)"),
    (1, "asg", "$mapBitmapIndexedNode.nodes[$int] = $mapNode"),
    (0, "else", ""),
    (1, "asg", "$mapBitmapIndexedNode.nodes = make([]mapNode, (len(recv.nodes) + 1))"),
    (1, "call", "copy($mapBitmapIndexedNode.nodes, recv.nodes[:$int])"),
    (1, "asg", "$mapBitmapIndexedNode.nodes[$int] = $mapNode"),
    (1, "call", "copy($mapBitmapIndexedNode.nodes[($int + 1):], recv.nodes[$int:])"),
    (0, "ret", "$mapBitmapIndexedNode")] := by decide +kernel

/-- `mapBitmapIndexedNode.delete` ↔ `Node.delete (.bitmap …)`: bit clear → same; not resized → same; child nil: `nodes.length == 1` → nil, else remove idx and `bm ^^^ bit`; else replace idx -/
theorem skeleton_mapBitmapIndexedNode_delete :
    funcs.lookup "mapBitmapIndexedNode.delete" = some [
    (0, "if", "(recv.bitmap & (uint32(1) << ((keyHash >> shift) & mapNodeMask))) == 0"),
    (1, "ret", "recv"),
    (0, "asg", "$int := bits.OnesCount32((recv.bitmap & ((uint32(1) << ((keyHash >> shift) & mapNodeMask)) - 1)))"),
    (0, "asg", "$mapNode := recv.nodes[$int]"),
    (0, "asg", "$mapNode := $mapNode.delete(key, (shift + mapNodeBits), keyHash, h, mutable, resized)"),
    (0, "if", "!*resized"),
    (1, "ret", "recv"),
    (0, "if", "$mapNode == nil"),
    (1, "if", "len(recv.nodes) == 1"),
    (2, "ret", "nil"),
    (1, "if", "mutable"),
    (2, "asg", "recv.bitmap ^= uint32(1) << ((keyHash >> shift) & mapNodeMask)"),
    (2, "call", "copy(recv.nodes[$int:], recv.nodes[($int + 1):])"),
    (2, "asg", "recv.nodes[(len(recv.nodes) - 1)] = nil"),
    (2, "asg", "recv.nodes = recv.nodes[:(len(recv.nodes) - 1)]"),
    (2, "ret", "recv"),
    (1, "asg", "$mapBitmapIndexedNode := &mapBitmapIndexedNode{bitmap: (recv.bitmap ^ (uint32(1) << ((keyHash >> shift) & mapNodeMask))), nodes: make([]mapNode, (len(recv.nodes) - 1))}"),
    (1, "call", "copy($mapBitmapIndexedNode.nodes[:$int], recv.nodes[:$int])"),
    (1, "call", "copy($mapBitmapIndexedNode.nodes[$int:], recv.nodes[($int + 1):])"),
    (1, "ret", "$mapBitmapIndexedNode"),
    (0, "asg", "$mapBitmapIndexedNode := recv"),
    (0, "if", "!mutable"),
    (1, "asg", "$mapBitmapIndexedNode = &mapBitmapIndexedNode{bitmap: recv.bitmap, nodes: make([]mapNode, len(recv.nodes))}"),
    (1, "call", "copy($mapBitmapIndexedNode.nodes, recv.nodes)"),
    (0, "asg", "$mapBitmapIndexedNode.nodes[$int] = $mapNode"),
    (0, "ret", "$mapBitmapIndexedNode")] := by decide +kernel

/-- `mapHashArrayNode.clone` ↔ shallow copy (value model: `nodes.set`) -/
theorem skeleton_mapHashArrayNode_clone :
    funcs.lookup "mapHashArrayNode.clone" = some [
    (0, "asg", "$mapHashArrayNode := *recv"),
    (0, "ret", "&$mapHashArrayNode")] := by decide +kernel

/-- `mapHashArrayNode.get` ↔ `Node.get (.hashArray …)`: slot `frag`; nil → none; else child at `shift + mapNodeBits` -/
theorem skeleton_mapHashArrayNode_get :
    funcs.lookup "mapHashArrayNode.get" = some [
    (0, "if", "recv.nodes[((keyHash >> shift) & mapNodeMask)] == nil"),
    (1, "ret", "fp.None()"),
    (0, "ret", "recv.nodes[((keyHash >> shift) & mapNodeMask)].get(key, (shift + mapNodeBits), keyHash, h)")] := by decide +kernel

/-- `mapHashArrayNode.set` ↔ `Node.setCore (.hashArray …)`: nil slot → resized, value node, count+1; else delegate -/
theorem skeleton_mapHashArrayNode_set :
    funcs.lookup "mapHashArrayNode.set" = some [
    (0, "asg", "$mapNode := recv.nodes[((keyHash >> shift) & mapNodeMask)]"),
    (0, "if", "$mapNode == nil"),
    (1, "asg", "*resized = true"),
    (1, "asg", "$mapNode = newMapValueNode(keyHash, key, value)"),
    (0, "else", ""),
    (1, "asg", "$mapNode = $mapNode.set(key, value, (shift + mapNodeBits), keyHash, h, mutable, resized)"),
    (0, "asg", "$mapHashArrayNode := recv"),
    (0, "if", "!mutable"),
    (1, "asg", "$mapHashArrayNode = recv.clone()"),
    (0, "if", "$mapNode == nil"),
    (1, "asg", "$mapHashArrayNode.count++"),
    (0, "asg", "$mapHashArrayNode.nodes[((keyHash >> shift) & mapNodeMask)] = $mapNode"),
    (0, "ret", "$mapHashArrayNode")] := by decide +kernel

/-- `mapHashArrayNode.delete` ↔ `Node.delete (.hashArray …)`: nil slot → same; not resized → same; child nil ∧ `count ≤ maxBitmapIndexedSize` → `hashArrayToBitmap` (skipping idx); else replace, count-1 iff nil -/
theorem skeleton_mapHashArrayNode_delete :
    funcs.lookup "mapHashArrayNode.delete" = some [
    (0, "asg", "$mapNode := recv.nodes[((keyHash >> shift) & mapNodeMask)]"),
    (0, "if", "$mapNode == nil"),
    (1, "ret", "recv"),
    (0, "asg", "$mapNode := $mapNode.delete(key, (shift + mapNodeBits), keyHash, h, mutable, resized)"),
    (0, "if", "!*resized"),
    (1, "ret", "recv"),
    (0, "if", "($mapNode == nil) && (recv.count <= maxBitmapIndexedSize)"),
    (1, "asg", "$mapBitmapIndexedNode := &mapBitmapIndexedNode{nodes: make([]mapNode, 0, (recv.count - 1))}"),
    (1, "range", "$int, $mapNode := recv.nodes"),
    (2, "if", "($mapNode != nil) && (uint32($int) != ((keyHash >> shift) & mapNodeMask))"),
    (3, "asg", "$mapBitmapIndexedNode.bitmap |= 1 << uint($int)"),
    (3, "asg", "$mapBitmapIndexedNode.nodes = append($mapBitmapIndexedNode.nodes, $mapNode)"),
    (1, "ret", "$mapBitmapIndexedNode"),
    (0, "asg", "$mapHashArrayNode := recv"),
    (0, "if", "!mutable"),
    (1, "asg", "$mapHashArrayNode = recv.clone()"),
    (0, "asg", "$mapHashArrayNode.nodes[((keyHash >> shift) & mapNodeMask)] = $mapNode"),
    (0, "if", "$mapNode == nil"),
    (1, "asg", "$mapHashArrayNode.count--"),
    (0, "ret", "$mapHashArrayNode")] := by decide +kernel

/-- `newMapValueNode` ↔ `Node.value keyHash key value` -/
theorem skeleton_newMapValueNode :
    funcs.lookup "newMapValueNode" = some [
    (0, "ret", "&mapValueNode{keyHash: keyHash, key: key, value: value}")] := by decide +kernel

/-- `mapValueNode.keyHashValue` ↔ `Node.keyHashValue` -/
theorem skeleton_mapValueNode_keyHashValue :
    funcs.lookup "mapValueNode.keyHashValue" = some [
    (0, "ret", "recv.keyHash")] := by decide +kernel

/-- `mapValueNode.get` ↔ `Node.get (.value …)` -/
theorem skeleton_mapValueNode_get :
    funcs.lookup "mapValueNode.get" = some [
    (0, "if", "!h.Eqv(recv.key, key)"),
    (1, "ret", "fp.None()"),
    (0, "ret", "fp.Some(recv.value)")] := by decide +kernel

/-- `mapValueNode.set` ↔ `Node.setCore (.value …)`: eqv → overwrite (in place keeps the OLD key); hashes differ → `mergeIntoNode … shift`; else collision node [old, new] -/
theorem skeleton_mapValueNode_set :
    funcs.lookup "mapValueNode.set" = some [
    (0, "if", "h.Eqv(recv.key, key)"),
    (1, "if", "mutable"),
    (2, "asg", "recv.value = value"),
    (2, "ret", "recv"),
    (1, "ret", "newMapValueNode(recv.keyHash, key, value)"),
    (0, "asg", "*resized = true"),
    (0, "if", "recv.keyHash != keyHash"),
    (1, "ret", "mergeIntoNode(recv, shift, keyHash, key, value)"),
    (0, "ret", "&mapHashCollisionNode{keyHash: keyHash, entries: []mapEntry{{key: recv.key, value: recv.value}, {key: key, value: value}}}")] := by decide +kernel

/-- `mapValueNode.delete` ↔ `Node.delete (.value …)` -/
theorem skeleton_mapValueNode_delete :
    funcs.lookup "mapValueNode.delete" = some [
    (0, "if", "!h.Eqv(recv.key, key)"),
    (1, "ret", "recv"),
    (0, "asg", "*resized = true"),
    (0, "ret", "nil")] := by decide +kernel

/-- `mapHashCollisionNode.keyHashValue` ↔ `Node.keyHashValue` -/
theorem skeleton_mapHashCollisionNode_keyHashValue :
    funcs.lookup "mapHashCollisionNode.keyHashValue" = some [
    (0, "ret", "recv.keyHash")] := by decide +kernel

/-- `mapHashCollisionNode.indexOf` ↔ `indexOf` -/
theorem skeleton_mapHashCollisionNode_indexOf :
    funcs.lookup "mapHashCollisionNode.indexOf" = some [
    (0, "range", "$int := recv.entries"),
    (1, "if", "h.Eqv(recv.entries[$int].key, key)"),
    (2, "ret", "$int"),
    (0, "ret", "-1")] := by decide +kernel

/-- `mapHashCollisionNode.get` ↔ `Node.get (.collision …)` (`find?`) -/
theorem skeleton_mapHashCollisionNode_get :
    funcs.lookup "mapHashCollisionNode.get" = some [
    (0, "range", "$int := recv.entries"),
    (1, "if", "h.Eqv(recv.entries[$int].key, key)"),
    (2, "ret", "fp.Some(recv.entries[$int].value)"),
    (0, "ret", "fp.None()")] := by decide +kernel

/-- `mapHashCollisionNode.set` ↔ `Node.setCore (.collision …)`: other hash → resized, `mergeIntoNode … shift`; absent → append, resized; else replace idx -/
theorem skeleton_mapHashCollisionNode_set :
    funcs.lookup "mapHashCollisionNode.set" = some [
    (0, "if", "recv.keyHash != keyHash"),
    (1, "asg", "*resized = true"),
    (1, "ret", "mergeIntoNode(recv, shift, keyHash, key, value)"),
    (0, "if", "mutable"),
    (1, "asg", "$int := recv.indexOf(key, h)"),
    (1, "if", "$int == -1"),
    (2, "asg", "*resized = true"),
    (2, "asg", "recv.entries = append(recv.entries, mapEntry{key, value})"),
    (1, "else", ""),
    (2, "asg", "recv.entries[$int] = mapEntry{key, value}"),
    (1, "ret", "recv"),
    (0, "asg", "$mapHashCollisionNode := &mapHashCollisionNode{keyHash: recv.keyHash}"),
    (0, "asg", "$int := recv.indexOf(key, h)"),
    (0, "if", "$int == -1"),
    (1, "asg", "*resized = true"),
    (1, "asg", "$mapHashCollisionNode.entries = make([]mapEntry, (len(recv.entries) + 1))"),
    (1, "call", "copy($mapHashCollisionNode.entries, recv.entries)"),
    (1, "asg", "$mapHashCollisionNode.entries[(len($mapHashCollisionNode.entries) - 1)] = mapEntry{key, value}"),
    (0, "else", ""),
    (1, "asg", "$mapHashCollisionNode.entries = make([]mapEntry, len(recv.entries))"),
    (1, "call", "copy($mapHashCollisionNode.entries, recv.entries)"),
    (1, "asg", "$mapHashCollisionNode.entries[$int] = mapEntry{key, value}"),
    (0, "ret", "$mapHashCollisionNode")] := by decide +kernel

/-- `mapHashCollisionNode.delete` ↔ `Node.delete (.collision …)`: absent → same; `entries.length == 2` → value node of entry `idx ^^^ 1`; else remove idx -/
theorem skeleton_mapHashCollisionNode_delete :
    funcs.lookup "mapHashCollisionNode.delete" = some [
    (0, "asg", "$int := recv.indexOf(key, h)"),
    (0, "if", "$int == -1"),
    (1, "ret", "recv"),
    (0, "asg", "*resized = true"),
    (0, "if", "len(recv.entries) == 2"),
    (1, "ret", "&mapValueNode{keyHash: recv.keyHash, key: recv.entries[($int ^ 1)].key, value: recv.entries[($int ^ 1)].value}"),
    (0, "if", "mutable"),
    (1, "call", "copy(recv.entries[$int:], recv.entries[($int + 1):])"),
    (1, "asg", "recv.entries[(len(recv.entries) - 1)] = mapEntry{}"),
    (1, "asg", "recv.entries = recv.entries[:(len(recv.entries) - 1)]"),
    (1, "ret", "recv"),
    (0, "asg", "$mapHashCollisionNode := &mapHashCollisionNode{keyHash: recv.keyHash, entries: make([]mapEntry, (len(recv.entries) - 1))}"),
    (0, "call", "copy($mapHashCollisionNode.entries[:$int], recv.entries[:$int])"),
    (0, "call", "copy($mapHashCollisionNode.entries[$int:], recv.entries[($int + 1):])"),
    (0, "ret", "$mapHashCollisionNode")] := by decide +kernel

/-- `mergeIntoNode` ↔ `mergeIntoNode`: idx1/idx2 = `frag … shift`; equal → one child, recursion at `shift + mapNodeBits`; `idx1 < idx2` → [node, new] else [new, node] -/
theorem skeleton_mergeIntoNode :
    funcs.lookup "mergeIntoNode" = some [
    (0, "asg", "$uint32 := (node.keyHashValue() >> shift) & mapNodeMask"),
    (0, "asg", "$mapBitmapIndexedNode := &mapBitmapIndexedNode{bitmap: ((1 << $uint32) | (1 << ((keyHash >> shift) & mapNodeMask)))}"),
    (0, "if", "$uint32 == ((keyHash >> shift) & mapNodeMask)"),
    (1, "asg", "$mapBitmapIndexedNode.nodes = []mapNode{mergeIntoNode(node, (shift + mapNodeBits), keyHash, key, value)}"),
    (0, "else", ""),
    (1, "asg", "$mapValueNode := newMapValueNode(keyHash, key, value)"),
    (1, "if", "$uint32 < ((keyHash >> shift) & mapNodeMask)"),
    (2, "asg", "$mapBitmapIndexedNode.nodes = []mapNode{node, $mapValueNode}"),
    (1, "else", ""),
    (2, "asg", "$mapBitmapIndexedNode.nodes = []mapNode{$mapValueNode, node}"),
    (0, "ret", "$mapBitmapIndexedNode")] := by decide +kernel

/-- `MapIterator` ↔ `Hamt.iterator`: nil root → empty stack (`depth = -1`); else `stack[0] = root`, `first()` -/
theorem skeleton_MapIterator :
    funcs.lookup "MapIterator" = some [
    (0, "if", "m.root == nil"),
    (1, "asg", "^depth = -1"),
    (0, "else", ""),
    (1, "asg", "^stack[0] = mapIteratorElem{node: m.root}"),
    (1, "asg", "^depth = 0"),
    (1, "call", "closure:first()"),
    (0, "ret", "fp.MakeIterator(closure:hasNext, closure:next)")] := by decide +kernel

/-- `MapIterator$hasNext` ↔ `MapIter.hasNext`: `depth != -1` -/
theorem skeleton_MapIterator_hasNext :
    funcs.lookup "MapIterator$hasNext" = some [
    (0, "ret", "^depth != -1")] := by decide +kernel

/-- `MapIterator$first` ↔ `iterFirst`: bitmap → index 0, push `nodes[0]`; hashArray → first non-nil slot (`nextNonNil … 0`), push; leaf → index 0, stop.  Writes `stack[depth+1]` -/
theorem skeleton_MapIterator_first :
    funcs.lookup "MapIterator$first" = some [
    (0, "for", "; ^depth++"),
    (1, "asg", "$mapIteratorElem := &^stack[^depth]"),
    (1, "tswitch", "$mapIteratorElem.node.(type)"),
    (2, "case", "*mapBitmapIndexedNode"),
    (3, "asg", "$mapIteratorElem.index = 0"),
    (3, "asg", "^stack[(^depth + 1)].node = $mapBitmapIndexedNode.nodes[0]"),
    (2, "case", "*mapHashArrayNode"),
    (3, "asg", "$int := 0"),
    (3, "for", "$int < len($mapHashArrayNode.nodes); $int++"),
    (4, "if", "$mapHashArrayNode.nodes[$int] != nil"),
    (5, "asg", "$mapIteratorElem.index = $int"),
    (5, "asg", "^stack[(^depth + 1)].node = $mapHashArrayNode.nodes[$int]"),
    (5, "branch", "break"),
    (2, "default", ""),
    (3, "asg", "$mapIteratorElem.index = 0"),
    (3, "ret", "")] := by decide +kernel

/-- `MapIterator$moveStack` ↔ `iterMoveStack`: array / collision: `index < len-1` → index+1; bitmap: next child, `first()`; hashArray: `nextNonNil … (index+1)`, `first()`; value: pop -/
theorem skeleton_MapIterator_moveStack :
    funcs.lookup "MapIterator$moveStack" = some [
    (0, "for", "^depth >= 0; ^depth--"),
    (1, "asg", "$mapIteratorElem := &^stack[^depth]"),
    (1, "tswitch", "$mapIteratorElem.node.(type)"),
    (2, "case", "*mapArrayNode"),
    (3, "if", "$mapIteratorElem.index < (len($mapArrayNode.entries) - 1)"),
    (4, "asg", "$mapIteratorElem.index++"),
    (4, "ret", ""),
    (2, "case", "*mapBitmapIndexedNode"),
    (3, "if", "$mapIteratorElem.index < (len($mapBitmapIndexedNode.nodes) - 1)"),
    (4, "asg", "$mapIteratorElem.index++"),
    (4, "asg", "^stack[(^depth + 1)].node = $mapBitmapIndexedNode.nodes[$mapIteratorElem.index]"),
    (4, "asg", "^depth++"),
    (4, "call", "closure:first()"),
    (4, "ret", ""),
    (2, "case", "*mapHashArrayNode"),
    (3, "asg", "$int := $mapIteratorElem.index + 1"),
    (3, "for", "$int < len($mapHashArrayNode.nodes); $int++"),
    (4, "if", "$mapHashArrayNode.nodes[$int] != nil"),
    (5, "asg", "$mapIteratorElem.index = $int"),
    (5, "asg", "^stack[(^depth + 1)].node = $mapHashArrayNode.nodes[$mapIteratorElem.index]"),
    (5, "asg", "^depth++"),
    (5, "call", "closure:first()"),
    (5, "ret", ""),
    (2, "case", "*mapValueNode"),
    (3, "branch", "continue"),
    (2, "case", "*mapHashCollisionNode"),
    (3, "if", "$mapIteratorElem.index < (len($mapHashCollisionNode.entries) - 1)"),
    (4, "asg", "$mapIteratorElem.index++"),
    (4, "ret", "")] := by decide +kernel

/-- `MapIterator$next` ↔ `MapIter.next`: empty → panic "next on empty"; entry of the leaf on top; `moveStack()` -/
theorem skeleton_MapIterator_next :
    funcs.lookup "MapIterator$next" = some [
    (0, "if", "!closure:hasNext()"),
    (1, "call", "panic(\"next on empty\")"),
    (0, "asg", "$mapIteratorElem := &^stack[^depth]"),
    (0, "tswitch", "$mapIteratorElem.node.(type)"),
    (1, "case", "*mapArrayNode"),
    (2, "asg", "$mapEntry := &$mapArrayNode.entries[$mapIteratorElem.index]"),
    (2, "asg", "$K, $V = $mapEntry.key, $mapEntry.value"),
    (1, "case", "*mapValueNode"),
    (2, "asg", "$K, $V = $mapValueNode.key, $mapValueNode.value"),
    (1, "case", "*mapHashCollisionNode"),
    (2, "asg", "$mapEntry := &$mapHashCollisionNode.entries[$mapIteratorElem.index]"),
    (2, "asg", "$K, $V = $mapEntry.key, $mapEntry.value"),
    (0, "call", "closure:moveStack()"),
    (0, "ret", "as.Tuple($K, $V)")] := by decide +kernel

/-- `set.Contains` ↔ `SetMin.contains` -/
theorem skeleton_set_Contains :
    funcs.lookup "set.Contains" = some [
    (0, "ret", "recv.m.Get(v).IsDefined()")] := by decide +kernel

/-- `set.Size` ↔ `SetMin.size` -/
theorem skeleton_set_Size :
    funcs.lookup "set.Size" = some [
    (0, "ret", "recv.m.Size()")] := by decide +kernel

/-- `set.Iterator` ↔ `SetMin.iterList` -/
theorem skeleton_set_Iterator :
    funcs.lookup "set.Iterator" = some [
    (0, "asg", "^itr := recv.m.Iterator()"),
    (0, "ret", "fp.MakeIterator(closure:1, closure:2)")] := by decide +kernel

/-- `set.Iterator$1` ↔ HasNext of the wrapped iterator -/
theorem skeleton_set_Iterator_1 :
    funcs.lookup "set.Iterator$1" = some [
    (0, "ret", "^itr.HasNext()")] := by decide +kernel

/-- `set.Iterator$2` ↔ Next().I1 -/
theorem skeleton_set_Iterator_2 :
    funcs.lookup "set.Iterator$2" = some [
    (0, "ret", "^itr.Next().I1")] := by decide +kernel

/-- `set.Incl` ↔ `SetMin.incl`: `Updated(v, true)` -/
theorem skeleton_set_Incl :
    funcs.lookup "set.Incl" = some [
    (0, "ret", "set{recv.m.Updated(v, true)}")] := by decide +kernel

/-- `set.Excl` ↔ `SetMin.excl`: `Removed(v)` -/
theorem skeleton_set_Excl :
    funcs.lookup "set.Excl" = some [
    (0, "ret", "set{recv.m.Removed(v)}")] := by decide +kernel

/-- `SetMinimal` ↔ `FSet.ofList`: MapBase over (v, true) -/
theorem skeleton_SetMinimal :
    funcs.lookup "SetMinimal" = some [
    (0, "asg", "$Seq := make(fp.Seq, len(v))"),
    (0, "range", "$int, $T := v"),
    (1, "asg", "$Seq[$int] = as.Tuple2($T, true)"),
    (0, "ret", "set{MapBase(hasher, $Seq...)}")] := by decide +kernel

/-- `Set` ↔ `FSet.ofList` -/
theorem skeleton_Set :
    funcs.lookup "Set" = some [
    (0, "ret", "fp.MakeSet(closure:1, SetMinimal(hasher, v...))")] := by decide +kernel

/-- `Set$1` ↔ the `getEmpty` closure (`EmptyFn.hamt`) -/
theorem skeleton_Set_1 :
    funcs.lookup "Set$1" = some [
    (0, "ret", "SetMinimal(hasher)")] := by decide +kernel

/-- `setBuilder.Add` ↔ `SetBuilder.add`: `set(v, true, !r.shared)` -/
theorem skeleton_setBuilder_Add :
    funcs.lookup "setBuilder.Add" = some [
    (0, "asg", "recv.m = recv.m.set(v, true, !recv.shared)"),
    (0, "ret", "recv")] := by decide +kernel

/-- `setBuilder.Build` ↔ `SetBuilder.build`: shared := true, hand out -/
theorem skeleton_setBuilder_Build :
    funcs.lookup "setBuilder.Build" = some [
    (0, "asg", "recv.shared = true"),
    (0, "ret", "fp.MakeSet(closure:1, set{recv.m})")] := by decide +kernel

/-- `setBuilder.Build$1` ↔ the `getEmpty` closure -/
theorem skeleton_setBuilder_Build_1 :
    funcs.lookup "setBuilder.Build$1" = some [
    (0, "ret", "SetMinimal(recv.m.hasher)")] := by decide +kernel

/-- `SetBuilder` ↔ `SetBuilder.new` -/
theorem skeleton_SetBuilder :
    funcs.lookup "SetBuilder" = some [
    (0, "ret", "&setBuilder{m: &hamt{hasher: hasher}}")] := by decide +kernel

/-! ### (b'') the other branches of the MODEL with the operators and bounds of `expectedThresholds` -/

section model2
variable {K V : Type} (h : Hasher K)

/-- array node, key present: `entries.length == 1` → nil, else the entry is removed -/
theorem model_array_delete_last {es : List (K × V)} (k : K) (s : Nat) (kh : UInt32) (m r : Bool) {i : Nat}
    (hfound : indexOf h es k = some i) :
    (Node.array es).delete h k s kh m r =
      if es.length == 1 then pure (none, true) else pure (some (.array (es.take i ++ es.drop (i + 1))), true) := by
  simp [Node.delete, hfound]

/-- collision node, key present, not exactly 2 entries → stays a collision node -/
theorem model_collision_delete_two {es : List (K × V)} (nkh : UInt32) (k : K) (s : Nat) (kh : UInt32) (m r : Bool) {i : Nat}
    (hfound : indexOf h es k = some i) (hmany : es.length ≠ 2) :
    (Node.collision nkh es).delete h k s kh m r = pure (some (.collision nkh (es.take i ++ es.drop (i + 1))), true) := by
  simp [Node.delete, hfound, hmany]

/-- collision node, key present: `entries.length == 2` → value node of the OTHER entry (`idx ^^^ 1`) -/
theorem model_collision_delete_to_value {es : List (K × V)} (nkh : UInt32) (k : K) (s : Nat) (kh : UInt32) (m r : Bool) {i : Nat}
    {e : K × V} (hfound : indexOf h es k = some i) (htwo : es.length = 2) (he : es[i ^^^ 1]? = some e) :
    (Node.collision nkh es).delete h k s kh m r = pure (some (.value nkh e.1 e.2), true) := by
  simp [Node.delete, hfound, htwo, he]

/-- bitmap node, free slot: `> maxBitmapIndexedSize` children → hash-array node -/
theorem model_bitmap_promotes {bm : Nat} {nodes : List (Node K V)} (k : K) (v : V) (s : Nat) (kh : UInt32) (m r : Bool)
    (hfree : bm &&& (1 <<< frag kh s) = 0) (hfull : nodes.length > maxBitmapIndexedSize) :
    (Node.bitmap bm nodes).set h k v s kh m r = (do
      let (slots, count) ← bitmapToHashArray bm nodes
      pure (.hashArray (count + 1) (slots.set (frag kh s) (some (.value kh k v))), true)) := by
  simp [Node.set, Node.setCore, hfree, hfull]

/-- bitmap node, free slot: `≤ maxBitmapIndexedSize` children → stays a bitmap node (so the operator is `>`) -/
theorem model_bitmap_inserts {bm : Nat} {nodes : List (Node K V)} (k : K) (v : V) (s : Nat) (kh : UInt32) (m r : Bool)
    (hfree : bm &&& (1 <<< frag kh s) = 0) (hroom : nodes.length ≤ maxBitmapIndexedSize) :
    (Node.bitmap bm nodes).set h k v s kh m r =
      pure (.bitmap (bm ||| (1 <<< frag kh s))
        (nodes.take (popCount (bm &&& (1 <<< frag kh s - 1))) ++ Node.value kh k v :: nodes.drop (popCount (bm &&& (1 <<< frag kh s - 1)))), true) := by
  have : ¬ maxBitmapIndexedSize < nodes.length := by omega
  simp [Node.set, Node.setCore, hfree, this]

/-- hash-array node whose child disappears: `count ≤ maxBitmapIndexedSize` → back to a bitmap node -/
theorem model_hashArray_demotes {cnt : Nat} {nodes : List (Option (Node K V))} {child : Node K V} (k : K) (s : Nat) (kh : UInt32) (m r : Bool)
    (hslot : nodes[frag kh s]? = some (some child))
    (hgone : child.delete h k (s + mapNodeBits) kh m r = pure (none, true)) :
    (Node.hashArray cnt nodes).delete h k s kh m r =
      if cnt ≤ maxBitmapIndexedSize then pure (some (.bitmap (hashArrayToBitmap nodes (frag kh s)).1 (hashArrayToBitmap nodes (frag kh s)).2), true)
      else pure (some (.hashArray (cnt - 1) (nodes.set (frag kh s) none)), true) := by
  rw [Node.delete]
  simp
  split <;> simp_all

/-- bitmap node whose child disappears: `nodes.length == 1` → nil, else the slot and its bit are removed -/
theorem model_bitmap_delete_last {bm : Nat} {nodes : List (Node K V)} {child : Node K V} (k : K) (s : Nat) (kh : UInt32) (m r : Bool)
    (hset : bm &&& (1 <<< frag kh s) ≠ 0)
    (hslot : nodes[popCount (bm &&& (1 <<< frag kh s - 1))]? = some child)
    (hgone : child.delete h k (s + mapNodeBits) kh m r = pure (none, true)) :
    (Node.bitmap bm nodes).delete h k s kh m r =
      if nodes.length == 1 then pure (none, true)
      else pure (some (.bitmap (bm ^^^ (1 <<< frag kh s)) (nodes.take (popCount (bm &&& (1 <<< frag kh s - 1))) ++ nodes.drop (popCount (bm &&& (1 <<< frag kh s - 1)) + 1))), true) := by
  rw [Node.delete]
  simp only [hset, beq_iff_eq, ↓reduceIte]
  split
  · simp_all
  · rename_i c hc
    rw [hslot] at hc
    cases hc
    simp [hgone]

end model2

end FpVerif.Spec.C03Facts
