import FpVerif.Model.FutureMisc
import FpVerif.Spec.C06Live
/-!
# C14 / C11 / C06 remainder — `monoid.Future` and `future.TraverseFunc`

`monoid.Future(m).Combine(a, b)` combines the RESULTS of the two futures with the element monoid in
left-right operand order, whatever the completion order of `a` and `b` and whatever the order in which
the scheduler runs the tasks: `monoidFuture_every_schedule` (soundness at every moment of every
schedule) and `monoidFuture_exact_at_quiescence` (completeness).
-/
namespace FpVerif.Spec.C14MiscFut
open FpVerif FpVerif.Fut FpVerif.Spec.C06

/-- the Try-level reading: `a`'s result first, then `b`'s, then `m.Combine(x, y)` with `x` from `a` (LEFT) -/
theorem evalS_monoidFutureCombine (σ : Nat → Option (Try Val)) (m : Val → Val → W Val) (a b : Nat) :
    evalS σ (monoidFutureCombine m a b)
      = bindOk (σ a) (fun x => bindOk (σ b) (fun y => some (.success (m x y).1))) :=
  evalS_map2 σ a b m

/-- both successful: exactly `m.Combine(x, y)`, operands not swapped -/
theorem monoidFuture_success (σ : Nat → Option (Try Val)) (m : Val → Val → W Val) (a b : Nat) (x y : Val)
    (ha : σ a = some (.success x)) (hb : σ b = some (.success y)) :
    evalS σ (monoidFutureCombine m a b) = some (.success (m x y).1) := by
  simp [evalS_monoidFutureCombine, ha, hb, bindOk]

/-- the LEFT operand's failure wins, whatever the right one is or will be (pending, failed with another error) -/
theorem monoidFuture_left_failure (σ : Nat → Option (Try Val)) (m : Val → Val → W Val) (a b : Nat) (e : Err)
    (ha : σ a = some (.failure e)) : evalS σ (monoidFutureCombine m a b) = some (.failure e) :=
  evalS_map2_first_failure σ a b m e ha

/-- left successful, right failed: the right failure -/
theorem monoidFuture_right_failure (σ : Nat → Option (Try Val)) (m : Val → Val → W Val) (a b : Nat) (x : Val) (e : Err)
    (ha : σ a = some (.success x)) (hb : σ b = some (.failure e)) :
    evalS σ (monoidFutureCombine m a b) = some (.failure e) := by
  simp [evalS_monoidFutureCombine, ha, hb, bindOk]

/-- first-order: the schedule-independence theorems of C06 apply -/
theorem fo_monoidFutureCombine {bd : Nat} (m : Val → Val → W Val) (a b : Nat) (ha : a < bd) (hb : b < bd) :
    FO bd (monoidFutureCombine m a b) := fo_map2 a b m ha hb

/-- **every schedule**: under any valid event sequence (constructions, source completions in any order, pooled
    tasks run in any order) before and after `Combine(a, b)` is built, whenever the combined future is completed
    it holds the left-right combination of what `a` and `b` hold in that same state — never the swapped one,
    never earlier than both operands determine it. -/
theorem monoidFuture_every_schedule (nsrc : Nat) (evs evs' : List Ev) (m : Val → Val → W Val) (a b : Nat) (r : Try Val)
    (hv : Valid nsrc (Net.empty nsrc) (evs ++ .mk (monoidFutureCombine m a b) :: evs')) :
    let n := runEvs (Net.empty nsrc) evs
    let q := (build (monoidFutureCombine m a b) n).1
    let n' := runEvs (Net.empty nsrc) (evs ++ .mk (monoidFutureCombine m a b) :: evs')
    n'.status q = some r →
      bindOk (n'.status a) (fun x => bindOk (n'.status b) (fun y => some (.success (m x y).1))) = some r := by
  intro n q n' hq
  have h := built_future_sound nsrc evs evs' (monoidFutureCombine m a b) r hv hq
  rwa [evalS_monoidFutureCombine] at h

/-- … and when no task is left to run the combined future IS completed with that value as soon as the operands
    determine it (completeness) -/
theorem monoidFuture_exact_at_quiescence (nsrc : Nat) (evs evs' : List Ev) (m : Val → Val → W Val) (a b : Nat)
    (hv : Valid nsrc (Net.empty nsrc) (evs ++ .mk (monoidFutureCombine m a b) :: evs'))
    (hq : (runEvs (Net.empty nsrc) (evs ++ .mk (monoidFutureCombine m a b) :: evs')).pool = []) :
    let n := runEvs (Net.empty nsrc) evs
    let q := (build (monoidFutureCombine m a b) n).1
    let n' := runEvs (Net.empty nsrc) (evs ++ .mk (monoidFutureCombine m a b) :: evs')
    n'.status q = bindOk (n'.status a) (fun x => bindOk (n'.status b) (fun y => some (.success (m x y).1))) := by
  intro n q n'
  have h := built_future_exact nsrc evs evs' (monoidFutureCombine m a b) hv hq
  simp only [] at h
  rw [← evalS_monoidFutureCombine]
  exact h

/-- `monoid.Future(m).Empty()` is the already successful future of `m.Empty()` -/
theorem evalS_monoidFutureEmpty (σ : Nat → Option (Try Val)) (e : Val) :
    evalS σ (monoidFutureEmpty e) = some (.success e) := rfl

/-- the identity laws of the lifted monoid at the level of results: `Combine(Empty(), b)` holds `m.Combine(e, y)`,
    which is `y` when `e` is a left identity of `m` (and symmetrically) -/
theorem monoidFuture_left_identity (σ : Nat → Option (Try Val)) (m : Val → Val → W Val) (e : Val) (pe b : Nat) (y : Val)
    (hpe : σ pe = evalS σ (monoidFutureEmpty e)) (hb : σ b = some (.success y)) (hid : (m e y).1 = y) :
    evalS σ (monoidFutureCombine m pe b) = some (.success y) := by
  rw [evalS_monoidFutureEmpty] at hpe
  simp [evalS_monoidFutureCombine, hpe, hb, bindOk, hid]

/-- `future.TraverseFunc(far)(xs)` is `future.Traverse(xs, far)`: one more `Map` over `TraverseSeq` -/
theorem evalS_traverseFunc (σ : Nat → Option (Try Val)) (far : Val → FExpr) (xs : List Val) :
    evalS σ (traverseFunc far xs) = bindOk (evalS σ (traverseSeq xs far)) (fun l => some (.success l)) := by
  simp only [traverseFunc, evalS_map]

theorem fo_traverseFunc {bd : Nat} (far : Val → FExpr) (xs : List Val) (h : ∀ v, FO bd (far v)) :
    FO bd (traverseFunc far xs) := by
  unfold traverseFunc Fut.map
  exact .flatMap _ _ (fo_traverseSeq xs far h) (fun v => .logged _ _ (.successful _))

example : ∃ σ : Nat → Option (Try Val), σ 0 = some (.failure (.code 1)) ∧ σ 1 = none := ⟨fun p => if p = 0 then some (.failure (.code 1)) else none, rfl, rfl⟩

end FpVerif.Spec.C14MiscFut
