import FpVerif.Gen.AtomFacts
import FpVerif.Model.Promise
/-!
# C05 — regenerated facts: the atomic-step structure of `fp.Promise` is the one `Model/Promise.lean` steps through

`FpVerif/Gen/AtomFacts.lean` is regenerated from the working tree on every run by `harness/cmd/atomfacts`
(go/ast + go/types).  `Spec/C05.lean` proves the property for every interleaving of the ATOMIC BLOCKS of
`Model/Promise.stepT`; a block is "the code between two `verifhook.Yield` calls".  The theorems below are what ties
that block structure to the code:

* (a) `one_yield_per_access`   every shared-memory access of `future.go`, `internal/atomic/atomic.go`, `promise/*.go` is
                               immediately preceded by exactly one yield, on every path;
* (b) `well_hooked`            no path performs two non-commuting accesses without a yield between them;
* (c) `skeleton_*`             per function, the shape (sequence / branch / retry recursion / loop over the events) EQUALS the
                               skeleton written next to the model below;
* (d) `cell_accessors`, `cell_readers_writers`, `cell_reach`   the set of functions touching the cell is the expected one.

## Program counter of `Model/Promise.Local`  ↔  atomic block of the Go code

| pc constructor | yield label (`Local.point`) | block (events after the yield) | Go |
|---|---|---|---|
| `cGet r`        | "get"    | `load`; type switch            | `tryCompleteAndGetListeners`: `ap := r.status.Get()` |
| `cCas r ap c`   | "cas"    | `cas`; success → return, failure → RECURSE (→ `cGet`) | `r.status.CompareAndSwap(ap, v)` (both cases) |
| `cRun r s i cb` | "spawn"  | one user callback of the loop   | `Complete`: `for _, cf := range cbs { cf(result) }` (yield inside `cf`: executor's spawn hook) |
| `cRet r b`      | –        | finished                        | `return ret` |
| `rGet cb`       | "get"    | `load`; type switch             | `dispatchOrAddCallback`: `ap := r.status.Get()` |
| `rAppend cb ap s` | "append" | `append` (writes the backing array when it has spare capacity) | `append(status[...], cb)` |
| `rCas cb ap new` | "cas"   | `cas`; success → return, failure → RECURSE (→ `rGet`) | `r.status.CompareAndSwap(ap, …)` (both cases) |
| `rCall cb r`    | "spawn"  | the callback, directly          | `case Try[T]: cb(status)` |
| `rRet cb`       | –        | finished                        | |
| `oLoad1`        | "load"   | `load`                          | `IsCompleted`: `r.status.Load()` |
| `oLoad2`        | "load"   | `load`; not a result → panic    | `Value`: `r.status.Load()` |
| `oRet v`        | –        | finished                        | |

`Prog.start zero`: on the zero value (`status == nil`) every method returns before its first block — the leading
`br [seq [ret], seq []]` of `Complete`, `dispatchOrAddCallback`, `IsCompleted` (`Value`: panic).
-/
namespace FpVerif.Spec.C05Facts
open FpVerif.AtomShape FpVerif.Gen.Atom

/-! ### the wrappers of `internal/atomic` -/

/-- `Promise.status` is an `atomic.Reference`; the only type implementing it is `atomic.Value`, so an interface
    call resolves to these methods -/
theorem reference_single_impl : impls.lookup "atomic.Reference" = some ["atomic.Value"] := by decide +kernel

def wrapperNames : List (String × String) :=
  [("atomic.Reference.Get", "atomic.Value.Get"), ("atomic.Reference.Load", "atomic.Value.Load"),
   ("atomic.Reference.Store", "atomic.Value.Store"), ("atomic.Reference.CompareAndSwap", "atomic.Value.CompareAndSwap")]

/-- functions that do nothing but return: calls of them are dropped when inlining -/
def pureFns : List String :=
  (funcs.filter (fun f => f.events.all (fun e => e == .ret))).map (·.name)

def wrappers : Wrappers :=
  (wrapperNames ++ wrapperNames.map (fun p => (p.2, p.2))).filterMap
      (fun p => (straight (bodyOf funcs p.2)).map (fun evs => (p.1, evs.filter (fun e =>
        match e with
        | .call c => !pureFns.contains c
        | _ => true))))
    ++ pureFns.map (fun n => (n, []))

/-- (c) each wrapper is ONE block: its yield, then its single `sync/atomic` operation -/
theorem skeleton_wrappers :
    wrapperNames.map (fun p => bodyOf funcs p.2) =
      [seq [y "get", a .load, a .ret],
       seq [y "load", a .load, a (.call "atomic.ValuePtr.Value"), a .ret],
       seq [y "store", a .store],
       seq [y "cas", a .cas, a .ret]] := by decide +kernel

/-- `ValuePtr.Value` (dropped above) only reads the immutable box it is given -/
theorem valuePtr_pure : pureFns.contains "atomic.ValuePtr.Value" = true := by decide +kernel

/-! ### the functions of the Promise -/

def promiseFiles : List String := ["internal/atomic/atomic.go", "future.go", "promise/promise_op.go", "promise/future_op.go"]

def promiseFuncs : List AFunc := funcs.filter (fun f => promiseFiles.contains f.file)

def lockFree (m : Mode) : Disc := ⟨m, false⟩

/-- (a) immediately in front of every access: exactly one yield (checked on every path, wrappers inlined) -/
theorem one_yield_per_access : violations (lockFree .strict) wrappers promiseFuncs = [] := by decide +kernel

/-- (b) no two accesses without a yield between them on any path; nothing but the vocabulary of `Ev` occurs
    (`Ev.other` — a channel operation, `select`, `sync.WaitGroup`, a deferred call … — is a violation) -/
theorem well_hooked : violations (lockFree .mover) wrappers promiseFuncs = [] := by decide +kernel

/-- no mutex anywhere in these files: the cell is lock-free -/
theorem no_locks :
    promiseFuncs.all (fun f => f.events.all (fun e => e != .lock && e != .unlock && e != .deferUnlock)) = true := by decide +kernel

/-- non-vacuity: the functions are there, and the analysis does see accesses (and rejects an unhooked one) -/
theorem promise_funcs_nonempty : promiseFuncs.length ≥ 50 := by decide +kernel
example : check (lockFree .strict) (seq [y "get", a .load, a .load, a .ret]) ≠ none := by decide
example : check (lockFree .strict) (seq [a .load, a .ret]) ≠ none := by decide
example : check (lockFree .strict) (seq [y "a", y "b", a .load]) ≠ none := by decide
example : check (lockFree .mover) (seq [y "a", y "b", a .load]) = none := by decide
example : check (lockFree .mover) (seq [y "a", a .load, loop (seq [a .cas])]) ≠ none := by decide
example : check (lockFree .strict) (seq [y "a", a .load, loop (seq [y "b", a .cas])]) = none := by decide

/-! ### (c) skeletons -/

def inl (name : String) : Sq := inlineSq wrappers (bodyOf funcs name)

/-- `cGet` / `cCas`: load; in the cases `nil` and callback-slice one CAS whose failure RETRIES from the load
    (a recursive tail call, not a single attempt); case result: return; no other case -/
theorem skeleton_tryComplete :
    inl "fp.Promise.tryCompleteAndGetListeners" =
      seq [y "get", a .load,
           br [seq [y "cas", a .cas, br [seq [a .ret], seq []], a (.call "fp.Promise.tryCompleteAndGetListeners"), a .ret],
               seq [y "cas", a .cas, br [seq [a .ret], seq []], a (.call "fp.Promise.tryCompleteAndGetListeners"), a .ret],
               seq [a .ret],
               seq []],
           a .panic] := by decide +kernel

/-- `Prog.start`, then `cGet…`, then the `cRun` loop: the callbacks run AFTER the CAS, one per iteration -/
theorem skeleton_complete :
    inl "fp.Promise.Complete" =
      seq [br [seq [a .ret], seq []], a (.call "fp.Promise.tryCompleteAndGetListeners"), loop (seq [a .cb]), a .ret] := by decide +kernel

/-- `rGet`; nil: `rCas`; slice: `rAppend` then `rCas` (the append comes BEFORE the CAS and in its own block);
    result: `rCall`.  A failing CAS retries from the load. -/
theorem skeleton_dispatch :
    inl "fp.Promise.dispatchOrAddCallback" =
      seq [br [seq [a .ret], seq []],
           y "get", a .load,
           br [seq [y "cas", a .cas, br [seq [a .ret], seq []], a (.call "fp.Promise.dispatchOrAddCallback"), a .ret],
               seq [y "append", a .append, y "cas", a .cas, br [seq [a .ret], seq []],
                    a (.call "fp.Promise.dispatchOrAddCallback"), a .ret],
               seq [a .cb],
               seq []]] := by decide +kernel

/-- `oLoad1`: a single load -/
theorem skeleton_isCompleted :
    inl "fp.Promise.IsCompleted" =
      seq [br [seq [a .ret], seq []], y "load", a .load, br [seq [a .ret], seq []], a .ret] := by decide +kernel

/-- `oLoad2`: a single load, panic when it is not a result -/
theorem skeleton_value :
    inl "fp.Promise.Value" = seq [br [seq [a .panic], seq []], y "load", a .load, br [seq [a .ret], seq []], a .panic] ∧
    inl "fp.Future.Value" = seq [br [seq [a .panic], seq []], y "load", a .load, br [seq [a .ret], seq []], a .panic] := by decide +kernel

/-- `Prog.observe` = `Future.String()`: `IsCompleted()` and, if true, `Value()` -/
theorem skeleton_observe :
    inl "fp.Future.String" =
      seq [a (.call "fp.Promise.IsCompleted"), br [seq [a (.call "fp.Promise.Value"), a .ret], seq [a .ret]]] := by decide +kernel

/-- `Success` / `Failure` / `Future.IsCompleted` / `Future.OnComplete` are the core functions, nothing more -/
theorem skeleton_delegates :
    inl "fp.Promise.Success" = seq [a (.call "fp.Promise.Complete"), a .ret] ∧
    inl "fp.Promise.Failure" = seq [a (.call "fp.Promise.Complete"), a .ret] ∧
    inl "fp.Future.IsCompleted" = seq [a (.call "fp.Promise.IsCompleted"), a .ret] ∧
    inl "fp.Future.OnComplete" = seq [a (.call "fp.Promise.dispatchOrAddCallback")] := by decide +kernel

/-- the yield labels of the code are the yield points of the model (`Local.point`; "spawn" is the harness's
    spawn hook inside the executor) -/
theorem labels_are_model_points :
    (promiseFuncs.flatMap AFunc.labels).eraseDups = ["get", "load", "store", "cas", "append"] ∧
    [(Promise.Local.cGet (0 : Nat)).point, (Promise.Local.oLoad1 : Promise.Local Nat).point,
     (Promise.Local.cCas (0 : Nat) 0 .nil).point, (Promise.Local.rAppend (R := Nat) ⟨0, .all⟩ 0 ⟨0, 0, 0⟩).point,
     (Promise.Local.rGet (R := Nat) ⟨0, .all⟩).point, (Promise.Local.oLoad2 : Promise.Local Nat).point,
     (Promise.Local.rCas (R := Nat) ⟨0, .all⟩ 0 ⟨0, 0, 0⟩).point]
      = ["get", "load", "cas", "append", "get", "load", "cas"] := by decide +kernel

/-! ### (d) who touches the cell -/

/-- the functions performing a shared-memory operation THEMSELVES: the four wrappers, and the append -/
theorem cell_accessors :
    directTouchers promiseFuncs =
      ["atomic.Value.Get", "atomic.Value.Load", "atomic.Value.Store", "atomic.Value.CompareAndSwap",
       "fp.Promise.dispatchOrAddCallback"] ∧
    (promiseFuncs.filter (fun f => !f.labels.isEmpty)).map (·.name) =
      ["atomic.Value.Get", "atomic.Value.Load", "atomic.Value.Store", "atomic.Value.CompareAndSwap",
       "fp.Promise.dispatchOrAddCallback"] := by decide +kernel

def callersOfAny (cs : List String) : List String :=
  (funcs.filter (fun f => f.callees.any cs.contains)).map (·.name)

/-- who calls which wrapper.  Nobody calls `Store`: the cell changes by CAS only (the version counter of the model
    is renewed by successful CASes only). -/
theorem cell_readers_writers :
    callersOfAny ["atomic.Reference.Get", "atomic.Value.Get"] =
      ["fp.Promise.tryCompleteAndGetListeners", "fp.Promise.dispatchOrAddCallback"] ∧
    callersOfAny ["atomic.Reference.CompareAndSwap", "atomic.Value.CompareAndSwap"] =
      ["fp.Promise.tryCompleteAndGetListeners", "fp.Promise.dispatchOrAddCallback"] ∧
    callersOfAny ["atomic.Reference.Load", "atomic.Value.Load"] =
      ["fp.Promise.Value", "fp.Promise.IsCompleted", "fp.Future.Value"] ∧
    callersOfAny ["atomic.Reference.Store", "atomic.Value.Store"] = [] := by decide +kernel

/-- the functions of these files from which the cell can NOT be reached (everything else reaches it through the
    core functions above) -/
theorem cell_reach :
    (promiseFuncs.filter (fun f => !(reach promiseFuncs wrapperNames 8 (directTouchers promiseFuncs)).contains f.name)).map (·.name) =
      ["atomic.ValuePtr.Value", "atomic.New", "fp.RunnableFunc.Run", "fp.NewPromise", "fp.Promise.Future",
       "fp.Future.OnFailure$1", "fp.Future.OnSuccess$1", "fp.goExecutor.ExecuteUnsafe", "fp.getExecutor",
       "fp.Future.OnComplete$1", "fp.Future.OnComplete$1$1", "promise.New", "promise.WithTimeout"] ∧
    reach promiseFuncs wrapperNames 9 (directTouchers promiseFuncs) = reach promiseFuncs wrapperNames 8 (directTouchers promiseFuncs) := by decide +kernel

/-- (d) the cell FIELDS (`Promise.status`, the pointer inside `atomic.Value`) are selected by exactly these functions — in
    ANY file of the packages `fp` and `internal/atomic`, not only the analysed ones — and `future.go` is the only non-test
    file of the repository importing `internal/atomic`: an accessor added elsewhere is a failing obligation -/
theorem cell_field_users :
    cellFieldUsers.filter (fun u => u.1 == "fp.Promise.status" || u.1 == "atomic.Value.value") =
      [("atomic.Value.value", "internal/atomic/atomic.go", "atomic.Value.Get"),
       ("atomic.Value.value", "internal/atomic/atomic.go", "atomic.Value.Load"),
       ("atomic.Value.value", "internal/atomic/atomic.go", "atomic.Value.Store"),
       ("atomic.Value.value", "internal/atomic/atomic.go", "atomic.Value.CompareAndSwap"),
       ("fp.Promise.status", "future.go", "fp.Promise.Value"),
       ("fp.Promise.status", "future.go", "fp.Promise.IsCompleted"),
       ("fp.Promise.status", "future.go", "fp.Promise.Complete"),
       ("fp.Promise.status", "future.go", "fp.Promise.tryCompleteAndGetListeners"),
       ("fp.Promise.status", "future.go", "fp.Promise.dispatchOrAddCallback"),
       ("fp.Promise.status", "future.go", "fp.Future.Value")] ∧
    atomicImporters = ["future.go"] ∧
    (cellFieldUsers.map (·.1)).eraseDups =
      ["atomic.Value.value", "fp.Promise.status", "mutable.CopyOnWriteMap.lock", "mutable.CopyOnWriteMap.value"] := by decide +kernel

/-- no plain (non-atomic) access to a struct field that is assigned after construction, no captured variable written by a closure -/
theorem no_plain_shared_state :
    writtenFields = [] ∧
    promiseFuncs.all (fun f => f.events.all (fun e =>
      match e with
      | .rvar _ | .wvar _ | .fload _ | .fstore _ | .rmw | .onceDo _ | .other _ => false
      | _ => true)) = true := by decide +kernel

end FpVerif.Spec.C05Facts
