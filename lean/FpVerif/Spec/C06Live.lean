import FpVerif.Spec.C06Sound
/-!
# C06 (part 3) — completeness at quiescence: a determined future IS completed

`sound_every_schedule` says a completed promise holds what its expression evaluates to.  This file
proves the converse for every schedule: in every reachable state in which no task is runnable (the
executor's queue is empty), every promise whose expression evaluates — three-valued `evalS`, over the
statuses in that same state — to a value *is completed* (hence, by soundness, with exactly that value).
So a derived future completes "as soon as the sources its evaluation depends on are complete": the only
thing that can stand between the sources being complete and the future being complete is a task that
has not run yet.

Proof: a structural liveness invariant (`Live`: every pending derived promise is the target of a task in
the pool or of a callback registered on a *pending* promise — nothing is ever dropped), preserved by every
event with no validity assumption at all, combined with the soundness invariant `Inv` (what such a
callback means) by induction on the creation order of promises (`RootOf`'s lower bound: the promises a
user function's future allocates are younger than the promise waiting for it).

Audit finding 1 (session 6): `Valid` now includes the well-formedness side condition (`EvOK`: a source is never completed
with `Try{}` / `Failure(nil)`, every constructed program is `WFE` — Lemmas/FutWF.lean).  The theorems of this file take
`Valid` as hypothesis, so they no longer speak about runs in which a task of the Go code would panic in
`t.Failed().Get()` and leave its promise pending (`C06.illformed_source_excluded`); along a valid run no ill-formed Try
ever exists (`C06.wellformed_every_schedule`).
-/
namespace FpVerif.Spec.C06
open FpVerif FpVerif.Fut

/-- the promise a callback will complete -/
def cbTarget : CB → Option Nat
  | .flatMapA _ np => some np
  | .completeWith np => some np
  | .transformA _ np => some np
  | .transformWithA _ np => some np
  | .recoverWithA _ _ np => some np
  | .orFutureA _ np => some np
  | .observe _ => none

def taskTarget : Task → Option Nat
  | .cb c _ => cbTarget c
  | .applyT _ np => some np

/-- somebody is going to complete `p`: a queued task, or a callback waiting on another promise -/
def Blocked (n : Net) (p : Nat) : Prop :=
  (∃ tk, tk ∈ n.pool ∧ taskTarget tk = some p) ∨ (∃ q c, c ∈ n.cbs q ∧ cbTarget c = some p)

/-- liveness invariant, up to a set `X` of promises that are "in the hands of" the code running now -/
structure Live (nsrc : Nat) (X : Nat → Prop) (n : Net) : Prop where
  blocked : ∀ p, nsrc ≤ p → p < n.next → n.status p = none → ¬ X p → Blocked n p
  cbsPending : ∀ q c, c ∈ n.cbs q → n.status q = none

theorem live_weaken {nsrc : Nat} {X X' : Nat → Prop} {n : Net} (h : Live nsrc X n) (hx : ∀ r, X r → X' r) :
    Live nsrc X' n :=
  ⟨fun p h1 h2 h3 h4 => h.blocked p h1 h2 h3 (fun hxp => h4 (hx p hxp)), h.cbsPending⟩

/-- only status, cbs, next and membership in the pool matter; the pool may grow -/
theorem live_mono {nsrc : Nat} {X : Nat → Prop} {n n' : Net} (h : Live nsrc X n)
    (h1 : n'.status = n.status) (h2 : n'.cbs = n.cbs) (h3 : n'.next = n.next)
    (h4 : ∀ tk, tk ∈ n.pool → tk ∈ n'.pool) : Live nsrc X n' := by
  refine ⟨?_, ?_⟩
  · intro p hp hlt hst hx
    rw [h3] at hlt; rw [h1] at hst
    rcases h.blocked p hp hlt hst hx with ⟨tk, htk, ht⟩ | ⟨q, c, hc, ht⟩
    · exact .inl ⟨tk, h4 tk htk, ht⟩
    · exact .inr ⟨q, c, by rw [h2]; exact hc, ht⟩
  · intro q c hc
    rw [h2] at hc; rw [h1]; exact h.cbsPending q c hc

theorem live_addTask {nsrc : Nat} {X : Nat → Prop} {n : Net} (h : Live nsrc X n) (tk : Task) :
    Live nsrc (fun r => X r ∧ taskTarget tk ≠ some r) { n with pool := n.pool ++ [tk] } := by
  refine ⟨?_, h.cbsPending⟩
  intro p hp hlt hst hx
  by_cases ht : taskTarget tk = some p
  · exact .inl ⟨tk, by simp, ht⟩
  · have hxp : ¬ X p := fun hxp => hx ⟨hxp, ht⟩
    rcases h.blocked p hp hlt hst hxp with ⟨tk', htk', ht'⟩ | ⟨q, c, hc, ht'⟩
    · exact .inl ⟨tk', by simp [htk'], ht'⟩
    · exact .inr ⟨q, c, hc, ht'⟩

theorem live_complete {nsrc : Nat} {X : Nat → Prop} {n : Net} (h : Live nsrc X n) (p : Nat) (t : Try Val) :
    Live nsrc (fun r => X r ∧ r ≠ p) (complete p t n) := by
  unfold complete
  cases hst : n.status p with
  | some v =>
    simp only
    refine ⟨?_, h.cbsPending⟩
    intro r hr hlt hsr hx
    have hsr' : n.status r = none := hsr
    have hne : r ≠ p := fun heq => by subst heq; rw [hst] at hsr'; cases hsr'
    exact h.blocked r hr hlt hsr' (fun hxr => hx ⟨hxr, hne⟩)
  | none =>
    simp only
    refine ⟨?_, ?_⟩
    · intro r hr hlt hsr hx
      have hne : r ≠ p := fun heq => by subst heq; simp at hsr
      have hsr' : n.status r = none := by simpa [hne] using hsr
      rcases h.blocked r hr hlt hsr' (fun hxr => hx ⟨hxr, hne⟩) with ⟨tk, htk, ht⟩ | ⟨q, c, hc, ht⟩
      · exact .inl ⟨tk, by simp [htk], ht⟩
      · by_cases hqp : q = p
        · subst hqp
          exact .inl ⟨Task.cb c t, by simp only [List.mem_append, List.mem_map]; exact .inr ⟨c, hc, rfl⟩, ht⟩
        · exact .inr ⟨q, c, by simp [hqp, hc], ht⟩
    · intro q c hc
      by_cases hqp : q = p
      · subst hqp; simp at hc
      · simp only [hqp, if_false] at hc ⊢
        exact h.cbsPending q c hc

theorem live_onComplete {nsrc : Nat} {X : Nat → Prop} {n : Net} (h : Live nsrc X n) (p : Nat) (c : CB) :
    Live nsrc (fun r => X r ∧ cbTarget c ≠ some r) (onComplete p c n) := by
  unfold onComplete
  cases hst : n.status p with
  | some t =>
    simp only
    exact live_addTask h (Task.cb c t)
  | none =>
    simp only
    refine ⟨?_, ?_⟩
    · intro r hr hlt hsr hx
      by_cases ht : cbTarget c = some r
      · exact .inr ⟨p, c, by simp, ht⟩
      · have hxr : ¬ X r := fun hxr => hx ⟨hxr, ht⟩
        rcases h.blocked r hr hlt hsr hxr with ⟨tk, htk, ht'⟩ | ⟨q, c', hc', ht'⟩
        · exact .inl ⟨tk, htk, ht'⟩
        · by_cases hqp : q = p
          · subst hqp; exact .inr ⟨q, c', by simp [hc'], ht'⟩
          · exact .inr ⟨q, c', by simp [hqp, hc'], ht'⟩
    · intro q c' hc'
      by_cases hqp : q = p
      · subst hqp; exact hst
      · simp only [hqp, if_false] at hc'
        exact h.cbsPending q c' hc'

theorem live_fresh {nsrc : Nat} {X : Nat → Prop} {n : Net} (h : Live nsrc X n) (sp : FExpr) :
    Live nsrc (fun r => X r ∨ r = n.next) (fresh sp n).2 := by
  refine ⟨?_, h.cbsPending⟩
  intro r hr hlt hsr hx
  have hlt' : r < n.next + 1 := hlt
  have hne : r ≠ n.next := fun heq => hx (.inr heq)
  exact h.blocked r hr (by omega) hsr (fun hxr => hx (.inl hxr))

/-- allocate a promise and register the callback that will complete it -/
theorem live_node {nsrc : Nat} {X : Nat → Prop} {n : Net} (h : Live nsrc X n) (sp : FExpr) (p : Nat) (c : CB)
    (hc : cbTarget c = some n.next) : Live nsrc X (onComplete p c (fresh sp n).2) :=
  live_weaken (live_onComplete (live_fresh h sp) p c) (by
    intro r hr
    rcases hr with ⟨hx | heq, hne⟩
    · exact hx
    · exact absurd (by rw [hc, heq]) hne)

/-- allocate a promise and complete it at once -/
theorem live_const {nsrc : Nat} {X : Nat → Prop} {n : Net} (h : Live nsrc X n) (sp : FExpr) (t : Try Val) :
    Live nsrc X (complete n.next t (fresh sp n).2) :=
  live_weaken (live_complete (live_fresh h sp) n.next t) (by
    intro r hr
    rcases hr with ⟨hx | heq, hne⟩
    · exact hx
    · exact absurd heq hne)

theorem live_build {nsrc : Nat} (e : FExpr) : ∀ (X : Nat → Prop) (n : Net), Live nsrc X n → Live nsrc X (build e n).2 := by
  induction e with
  | ref p => intro X n h; exact h
  | successful v => intro X n h; exact live_const h _ _
  | failed x => intro X n h; exact live_const h _ _
  | successfulOf e ih =>
    intro X n h
    have h1 := ih X n h
    simp only [build]
    generalize build e n = r at h1
    obtain ⟨q, n1⟩ := r
    exact live_const h1 _ _
  | logged evs e ih =>
    intro X n h
    exact ih X _ (live_mono h rfl rfl rfl (fun _ htk => htk))
  | flatMap e k ih _ =>
    intro X n h
    have h1 := ih X n h
    simp only [build]
    generalize build e n = r at h1
    obtain ⟨p, n1⟩ := r
    exact live_node h1 _ p _ rfl
  | transform e f ih =>
    intro X n h
    have h1 := ih X n h
    simp only [build]
    generalize build e n = r at h1
    obtain ⟨p, n1⟩ := r
    exact live_node h1 _ p _ rfl
  | transformWith e k ih _ =>
    intro X n h
    have h1 := ih X n h
    simp only [build]
    generalize build e n = r at h1
    obtain ⟨p, n1⟩ := r
    exact live_node h1 _ p _ rfl
  | recoverWith e d k ih _ =>
    intro X n h
    have h1 := ih X n h
    simp only [build]
    generalize build e n = r at h1
    obtain ⟨p, n1⟩ := r
    exact live_node h1 _ p _ rfl
  | orFuture e alt ihe iha =>
    intro X n h
    have h1 := ihe X n h
    simp only [build]
    generalize build e n = r at h1
    obtain ⟨p, n1⟩ := r
    have h2 := iha X n1 h1
    generalize build alt n1 = r2 at h2
    obtain ⟨a, n2⟩ := r2
    exact live_node h2 _ p _ rfl
  | apply f =>
    intro X n h
    exact live_weaken (live_addTask (live_fresh h (.apply f)) (Task.applyT f n.next)) (by
      intro r hr
      rcases hr with ⟨hx | heq, hne⟩
      · exact hx
      · exact absurd (by simp [taskTarget, heq]) hne)

/-- build the future a user function returned and chain it to `np` -/
theorem live_chain {nsrc : Nat} {X : Nat → Prop} {n : Net} (e : FExpr) (np : Nat)
    (h : Live nsrc (fun r => X r ∨ r = np) n) :
    Live nsrc X (onComplete (build e n).1 (.completeWith np) (build e n).2) :=
  live_weaken (live_onComplete (live_build e _ n h) (build e n).1 (.completeWith np)) (by
    intro r hr
    rcases hr with ⟨hx | heq, hne⟩
    · exact hx
    · exact absurd (by simp [cbTarget, heq]) hne)

theorem live_completeT {nsrc : Nat} {X : Nat → Prop} {n : Net} (np : Nat) (t : Try Val)
    (h : Live nsrc (fun r => X r ∨ r = np) n) : Live nsrc X (complete np t n) :=
  live_weaken (live_complete h np t) (by
    intro r hr
    rcases hr with ⟨hx | heq, hne⟩
    · exact hx
    · exact absurd heq hne)

/-- running a task re-establishes the invariant for the promise the task was responsible for -/
theorem live_runTask {nsrc : Nat} {X : Nat → Prop} {n : Net} (tk : Task)
    (h : Live nsrc (fun r => X r ∨ taskTarget tk = some r) n) : Live nsrc X (runTask tk n) := by
  have conv : ∀ np : Nat, Live nsrc (fun r => X r ∨ some np = some r) n → Live nsrc (fun r => X r ∨ r = np) n :=
    fun np h' => live_weaken h' (by
      intro r hr
      rcases hr with hx | heq
      · exact .inl hx
      · exact .inr (Option.some.inj heq).symm)
  cases tk with
  | applyT f np =>
    exact live_completeT np _ (live_mono (conv np h) rfl rfl rfl (fun _ htk => htk))
  | cb c t =>
    cases c with
    | flatMapA k np =>
      cases t with
      | success v => exact live_chain (k v) np (conv np h)
      | failure e => exact live_completeT np _ (conv np h)
    | completeWith np => exact live_completeT np _ (conv np h)
    | transformA f np =>
      exact live_completeT np _ (live_mono (conv np h) rfl rfl rfl (fun _ htk => htk))
    | transformWithA k np => exact live_chain (k t) np (conv np h)
    | recoverWithA d k np =>
      cases t with
      | success v => exact live_completeT np _ (conv np h)
      | failure e =>
        simp only [runTask]
        by_cases hd : d e = true
        · simp only [hd, if_true]; exact live_chain (k e) np (conv np h)
        · simp only [hd]; exact live_completeT np _ (conv np h)
    | orFutureA q np =>
      cases t with
      | success v => exact live_completeT np _ (conv np h)
      | failure e =>
        exact live_weaken (live_onComplete (conv np h) q (.completeWith np)) (by
          intro r hr
          rcases hr with ⟨hx | heq, hne⟩
          · exact hx
          · exact absurd (by simp [cbTarget, heq]) hne)
    | observe id =>
      exact live_mono (live_weaken h (by
        intro r hr
        rcases hr with hx | heq
        · exact hx
        · simp [taskTarget, cbTarget] at heq)) rfl rfl rfl (fun _ htk => htk)

theorem live_erase {nsrc : Nat} {X : Nat → Prop} {n : Net} (h : Live nsrc X n) (i : Nat) (tk : Task)
    (hi : n.pool[i]? = some tk) :
    Live nsrc (fun r => X r ∨ taskTarget tk = some r) { n with pool := n.pool.eraseIdx i } := by
  refine ⟨?_, h.cbsPending⟩
  intro p hp hlt hst hx
  rcases h.blocked p hp hlt hst (fun hxp => hx (.inl hxp)) with ⟨tk', htk', ht'⟩ | ⟨q, c, hc, ht'⟩
  · refine .inl ⟨tk', ?_, ht'⟩
    obtain ⟨j, hj⟩ := List.getElem?_of_mem htk'
    have hne : j ≠ i := by
      intro heq; subst heq
      rw [hi] at hj
      have : tk = tk' := Option.some.inj hj
      subst this
      exact hx (.inr ht')
    exact List.mem_eraseIdx_iff_getElem?.mpr ⟨j, hne, hj⟩
  · exact .inr ⟨q, c, hc, ht'⟩

/-- every event — whatever the program builds, whichever promise the environment completes, whichever
    task the executor picks — keeps every pending derived promise somebody's responsibility -/
theorem live_step {nsrc : Nat} {n : Net} (h : Live nsrc (fun _ => False) n) (ev : Ev) :
    Live nsrc (fun _ => False) (step n ev) := by
  cases ev with
  | run i =>
    simp only [step]
    cases hi : n.pool[i]? with
    | none => exact h
    | some tk =>
      simp only
      exact live_runTask tk (live_weaken (live_erase h i tk hi) (by
        intro r hr
        rcases hr with hx | heq
        · exact absurd hx id
        · exact .inr heq))
  | src p t => exact live_weaken (live_complete h p t) (fun r hr => hr.1)
  | mk e => exact live_build e _ n h
  | obs p id => exact live_weaken (live_onComplete h p (.observe id)) (fun r hr => hr.1)

theorem live_init (nsrc : Nat) : Live nsrc (fun _ => False) (Net.empty nsrc) where
  blocked := by
    intro p hp hlt _ _
    have : p < nsrc := hlt
    omega
  cbsPending := by intro q c hc; simp [Net.empty] at hc

theorem live_run {nsrc : Nat} (evs : List Ev) : ∀ (n : Net), Live nsrc (fun _ => False) n →
    Live nsrc (fun _ => False) (runEvs n evs) := by
  induction evs with
  | nil => intro n h; exact h
  | cons ev evs ih => intro n h; exact ih _ (live_step h ev)

-- completeness -------------------------------------------------------------------------------------------

/-- if the root of a constructed expression is still pending, and every pending promise the construction
    allocated has an expression that does not evaluate yet, then the expression does not evaluate yet -/
theorem root_pending (n : Net) (hs : Sound n) (lo : Nat) (e : FExpr) (q : Nat)
    (hD : ∀ p, lo ≤ p → p < n.next → n.status p = none → evalS n.status (n.spec p) = none)
    (hr : RootOf n lo q e) (hq : n.status q = none) : evalS n.status e = none := by
  induction e generalizing q with
  | ref p => simp only [RootOf] at hr; subst hr; simpa [evalS] using hq
  | successful v => have := hD q hr.1 hr.2.1 hq; rw [hr.2.2] at this; simp [evalS] at this
  | failed x => have := hD q hr.1 hr.2.1 hq; rw [hr.2.2] at this; simp [evalS] at this
  | successfulOf e _ => exact absurd hr (by simp [RootOf])
  | logged evs e ih => exact ih q hr hq
  | flatMap e k ihe _ =>
    obtain ⟨p, hp, hlo, hlt, hsp⟩ := hr
    have h := hD q hlo hlt hq; rw [hsp] at h
    simp only [evalS] at h ⊢
    cases hsp' : n.status p with
    | none => rw [ihe p hp hsp']; rfl
    | some t => rw [root_sound n hs lo e p t hp hsp']; rw [hsp'] at h; exact h
  | transform e f ih =>
    obtain ⟨p, hp, hlo, hlt, hsp⟩ := hr
    have h := hD q hlo hlt hq; rw [hsp] at h
    simp only [evalS] at h ⊢
    cases hsp' : n.status p with
    | none => rw [ih p hp hsp']; rfl
    | some t => rw [hsp'] at h; simp at h
  | transformWith e k ihe _ =>
    obtain ⟨p, hp, hlo, hlt, hsp⟩ := hr
    have h := hD q hlo hlt hq; rw [hsp] at h
    simp only [evalS] at h ⊢
    cases hsp' : n.status p with
    | none => rw [ihe p hp hsp']; rfl
    | some t => rw [root_sound n hs lo e p t hp hsp']; rw [hsp'] at h; exact h
  | recoverWith e d k ihe _ =>
    obtain ⟨p, hp, hlo, hlt, hsp⟩ := hr
    have h := hD q hlo hlt hq; rw [hsp] at h
    simp only [evalS] at h ⊢
    cases hsp' : n.status p with
    | none => rw [ihe p hp hsp']; rfl
    | some t => rw [root_sound n hs lo e p t hp hsp']; rw [hsp'] at h; exact h
  | orFuture e alt ihe iha =>
    obtain ⟨p, a, hp, ha, hlo, hlt, hsp⟩ := hr
    have h := hD q hlo hlt hq; rw [hsp] at h
    simp only [evalS] at h ⊢
    cases hsp' : n.status p with
    | none => rw [ihe p hp hsp']; rfl
    | some t =>
      rw [root_sound n hs lo e p t hp hsp']; rw [hsp'] at h
      cases t with
      | success v => simp [bindTry] at h
      | failure err =>
        simp only [bindTry] at h ⊢
        exact iha a ha h
  | apply f => have := hD q hr.1 hr.2.1 hq; rw [hr.2.2] at this; simp [evalS] at this

/-- **Completeness at quiescence** (one state): with no task left to run, a pending promise's expression
    does not evaluate — i.e. whatever evaluates has been completed. -/
theorem pending_undetermined {nsrc : Nat} {n : Net} (hi : Inv nsrc n) (hl : Live nsrc (fun _ => False) n)
    (hq : n.pool = []) : ∀ p, p < n.next → n.status p = none → evalS n.status (n.spec p) = none := by
  have key : ∀ d p, n.next - p ≤ d → p < n.next → n.status p = none → evalS n.status (n.spec p) = none := by
    intro d
    induction d with
    | zero => intro p hd hlt _; omega
    | succ d ih =>
      intro p hd hlt hst
      by_cases hsrc : p < nsrc
      · rw [hi.srcs.2 p hsrc]; simpa [evalS] using hst
      · rcases hl.blocked p (Nat.le_of_not_lt hsrc) hlt hst id with ⟨tk, htk, _⟩ | ⟨q, c, hc, ht⟩
        · rw [hq] at htk; simp at htk
        · have hqs := hl.cbsPending q c hc
          have hok := hi.cbs q c hc
          cases c with
          | flatMapA k np =>
            have : np = p := by simpa [cbTarget] using ht
            subst this
            rw [hok.2.1]; simp [evalS, hqs, bindOk]
          | completeWith np =>
            have : np = p := by simpa [cbTarget] using ht
            subst this
            obtain ⟨_, e, lo, hlo, hr, hj⟩ := hok
            rw [hj n.status (fun _ _ h => h)]
            exact root_pending n hi.sound lo e q
              (fun p' hp' hlt' hst' => ih p' (by omega) hlt' hst') hr hqs
          | transformA f np =>
            have : np = p := by simpa [cbTarget] using ht
            subst this
            rw [hok.2]; simp [evalS, hqs]
          | transformWithA k np =>
            have : np = p := by simpa [cbTarget] using ht
            subst this
            rw [hok.2.1]; simp [evalS, hqs, bindTry]
          | recoverWithA d' k np =>
            have : np = p := by simpa [cbTarget] using ht
            subst this
            rw [hok.2.1]; simp [evalS, hqs, bindTry]
          | orFutureA alt np =>
            have : np = p := by simpa [cbTarget] using ht
            subst this
            rw [hok.2]; simp [evalS, hqs, bindTry]
          | observe id => simp [cbTarget] at ht
  intro p hlt hst
  exact key (n.next - p) p (Nat.le_refl _) hlt hst

/-- **Exactness at quiescence, for every schedule.**  Start from `nsrc` pending sources; let the program
    build first-order futures at any moments, the environment complete sources in any order, the executor
    run queued tasks in any order.  Whenever the queue is empty, the status of EVERY promise equals the
    three-valued evaluation of its expression over the statuses: completed with exactly the value the
    expression determines if it determines one, pending otherwise. -/
theorem exact_at_quiescence (nsrc : Nat) (evs : List Ev) (hv : Valid nsrc (Net.empty nsrc) evs)
    (hq : (runEvs (Net.empty nsrc) evs).pool = []) (p : Nat) (hp : p < (runEvs (Net.empty nsrc) evs).next) :
    (runEvs (Net.empty nsrc) evs).status p
      = evalS (runEvs (Net.empty nsrc) evs).status ((runEvs (Net.empty nsrc) evs).spec p) := by
  have hi := inv_run evs _ (inv_init nsrc) hv
  have hl := live_run (nsrc := nsrc) evs _ (live_init nsrc)
  cases hst : (runEvs (Net.empty nsrc) evs).status p with
  | some v => exact (hi.sound p v hst).symm
  | none => exact (pending_undetermined hi hl hq p hp hst).symm

/-- … in terms of the expression the program wrote: at every later quiescent state the handle `build e`
    returned holds exactly `evalS e` — completed iff `e` is determined by what has completed so far. -/
theorem built_future_exact (nsrc : Nat) (evs evs' : List Ev) (e : FExpr)
    (hv : Valid nsrc (Net.empty nsrc) (evs ++ .mk e :: evs'))
    (hq : (runEvs (Net.empty nsrc) (evs ++ .mk e :: evs')).pool = []) :
    let n := runEvs (Net.empty nsrc) evs
    let q := (build e n).1
    let n' := runEvs (Net.empty nsrc) (evs ++ .mk e :: evs')
    n'.status q = evalS n'.status e := by
  intro n q n'
  cases hst : n'.status q with
  | some r => exact (built_future_sound nsrc evs evs' e r hv hst).symm
  | none =>
    have hi : Inv nsrc n' := inv_run _ _ (inv_init nsrc) hv
    have hl : Live nsrc (fun _ => False) n' := live_run (nsrc := nsrc) _ _ (live_init nsrc)
    obtain ⟨lo, hroot⟩ := built_future_root nsrc evs evs' e hv
    exact (root_pending n' hi.sound lo e q
      (fun p _ hlt hs => pending_undetermined hi hl hq p hlt hs) hroot hst).symm

/-- non-vacuity: the schedule of `Spec/C06Sound`'s example ends quiescent, and there the derived future is
    completed although the second operand's callback never had to run. -/
example :
    let evs : List Ev := [.mk (Fut.map2 0 1 (fun x y => (.tup [x, y], []))), .src 1 (.success (.int 5)), .run 0,
                          .src 0 (.failure (.code 3)), .run 0, .run 0]
    (runEvs (Net.empty 2) evs).pool = [] ∧ (runEvs (Net.empty 2) evs).status 2 = some (.failure (.code 3)) := by
  refine ⟨rfl, rfl⟩

/-- non-vacuity of the other direction: a quiescent state with a pending derived future (its first
    operand has not completed), whose expression indeed does not evaluate yet. -/
example :
    let evs : List Ev := [.mk (Fut.map2 0 1 (fun x y => (.tup [x, y], []))), .src 1 (.success (.int 5))]
    (runEvs (Net.empty 2) evs).pool = [] ∧ (runEvs (Net.empty 2) evs).status 2 = none := by
  refine ⟨rfl, rfl⟩

end FpVerif.Spec.C06
