import FpVerif.Lemmas.IterTerm
import FpVerif.Lemmas.IterPulled
import FpVerif.Spec.C12
/-!
# C20 — Iterator protocol is sound; Duplicate/Span/Partition survive any pull order

`Represents m s d r` ("from state `s`, having delivered `d`, iterator machine `m` yields exactly
`r`") is established for every library iterator in `Spec/C12.lean` (sources and combinators).
Here: what `Represents` gives to a client (every script of `HasNext`/`Next` calls observes the
list, in order, `HasNext` is idempotent and non-consuming, `Next` on the exhausted iterator
panics and keeps panicking), the zero value, and the two-sided iterators of
`Duplicate`/`Span`/`Partition` under EVERY interleaving of the four calls.  The last section lifts
all of it over the pipeline AST `Pipe` ("for every iterator the library returns"): `pipe_*`.

Pull counts (AUDITFIX-B, audit finding 19): `duplicate_pulls_once` / `duplicate_source_pulled_once`
(Duplicate), `span_source_pulled_exactly` / `span_pulls_exactly` (Span) and
`partition_source_pulled_exactly` / `partition_pulls_exactly` (Partition): after ANY interleaving the
shared source has delivered EXACTLY `max (consumed by left) (consumed by right)` elements.

Callbacks are arbitrary logging, non-panicking Go functions (`Total p g`: `p` returns `g a`
whatever the log is); element types, lists, scripts and logs are universally quantified.
-/
namespace FpVerif.Spec.C20
open FpVerif FpVerif.It

variable {σ α β : Type}

/-! ## one iterator, every call pattern -/

/-- Every script of `HasNext`/`Next` calls — repeated `HasNext`, `Next` without `HasNext`, calls
    past the end — observes exactly what the same script observes on the plain list, and leaves
    an iterator that represents the rest. -/
theorem script_observes_list (m : Machine σ α) (s : σ) (d r : List α) (h : Represents m s d r)
    (cs : List Call) (lg : Log) :
    (runScript m cs s lg).1.map Obs.erase = specScript cs r ∧
    ∃ d', Represents m (runScript m cs s lg).2.1 d' (specRest cs r) ∧ d' ++ specRest cs r = d ++ r := by
  obtain ⟨s', lg', d', e, hobs, hR, hd⟩ := runScript_sim (Represents.sim m) cs s d r lg h
  refine ⟨hobs, d', ?_, hd⟩
  rw [e]; exact hR

/-- `HasNext` answers whether elements remain, any number of times in a row, and consumes nothing. -/
theorem hasNext_idempotent (m : Machine σ α) (s : σ) (d r : List α) (h : Represents m s d r)
    (k : Nat) (lg : Log) :
    (runScript m (List.replicate k .H) s lg).1 = List.replicate k (.has (!r.isEmpty)) ∧
    ∃ d', Represents m (runScript m (List.replicate k .H) s lg).2.1 d' r := by
  obtain ⟨hobs, d', hR, _⟩ := script_observes_list m s d r h (List.replicate k .H) lg
  have hspec : ∀ k, specScript (List.replicate k Call.H) r = List.replicate k (.has (!r.isEmpty)) := by
    intro k; induction k with
    | zero => rfl
    | succ k ih => simp [List.replicate_succ, specScript, ih]
  have hrest : ∀ k, specRest (List.replicate k Call.H) r = r := by
    intro k; induction k with
    | zero => rfl
    | succ k ih => simp [List.replicate_succ, specRest, ih]
  rw [hrest] at hR
  refine ⟨?_, d', hR⟩
  rw [hspec] at hobs
  -- no observation of an `H`-only script is a panic, so erasing changes nothing
  have herase : ∀ (os : List (Obs α)) (k : Nat) (b : Bool),
      os.map Obs.erase = List.replicate k (.has b) → os = List.replicate k (.has b) := by
    intro os
    induction os with
    | nil => intro k b h; cases k <;> simp_all [List.replicate_succ]
    | cons o os ih =>
      intro k b h
      cases k with
      | zero => simp at h
      | succ k =>
        simp only [List.map_cons, List.replicate_succ, List.cons.injEq] at h ⊢
        refine ⟨?_, ih k b h.2⟩
        cases o <;> simp_all [Obs.erase]
  exact herase _ _ _ hobs

/-- `Next` after (any number of) `HasNext` returns the next element and only that one is consumed. -/
theorem next_returns_next (m : Machine σ α) (s : σ) (d : List α) (a : α) (r : List α)
    (h : Represents m s d (a :: r)) (k : Nat) (lg : Log) :
    ∃ s' lg', (runScript m (List.replicate k .H ++ [.N]) s lg) =
        (List.replicate k (.has true) ++ [.val a], s', lg') ∧ Represents m s' (d ++ [a]) r := by
  induction k generalizing s lg with
  | zero =>
    obtain ⟨s', lg', e, hR⟩ := (Represents.sim m).next_cons s d a r lg h
    exact ⟨s', lg', by simp [runScript, runCall, e], hR⟩
  | succ k ih =>
    obtain ⟨s1, lg1, e1, hR1⟩ := (Represents.sim m).hasNext s d (a :: r) lg h
    obtain ⟨s', lg', e, hR⟩ := ih s1 hR1 lg1
    refine ⟨s', lg', ?_, hR⟩
    simp only [List.replicate_succ, List.cons_append, runScript, runCall, e1, List.isEmpty_cons,
      Bool.not_false]
    rw [e]

/-- `Next` on the exhausted iterator panics — it fabricates no value — and the iterator stays
    exhausted: every later `HasNext` is false and every later `Next` panics. -/
theorem next_on_exhausted_panics (m : Machine σ α) (s : σ) (d : List α) (h : Represents m s d [])
    (cs : List Call) (lg : Log) :
    (runScript m cs s lg).1.map Obs.erase =
      cs.map (fun c => match c with | .H => .has false | .N => .panic "") := by
  obtain ⟨hobs, _⟩ := script_observes_list m s d [] h cs lg
  rw [hobs]
  have hspec : ∀ cs : List Call, specScript cs ([] : List α) =
      cs.map (fun c => match c with | .H => .has false | .N => .panic "") := by
    intro cs
    induction cs with
    | nil => rfl
    | cons c cs ih => cases c <;> simp [specScript, ih]
  exact hspec cs

/-! ## the zero value -/

/-- `fp.Iterator[T]{}` behaves as the empty iterator … -/
theorem zero_represents_nil : Represents (zero : Machine Unit α) () [] [] :=
  ⟨_, zero_sim, rfl⟩

example : Represents (empty : Machine Unit α) () [] [] := ⟨_, empty_sim, rfl⟩

/-- … in every method: each terminal operation gives on the zero value the result it gives on an
    empty iterator (`ToSeq` = [], `Count` = 0, `NextOption` = None, `IsEmpty`, `Exists` = false,
    `ForAll` = true, `Find` = None, `Foreach`/`All` call nothing, folds return `zero`). -/
theorem zero_methods (lg : Log) (fuel : Nat) (hf : 0 < fuel) :
    toSeq (zero : Machine Unit α) fuel [] () lg = (.ok [], (), lg) ∧
    count (zero : Machine Unit α) fuel 0 () lg = (.ok 0, (), lg) ∧
    nextOption (zero : Machine Unit α) () lg = (.ok none, (), lg) ∧
    isEmpty (zero : Machine Unit α) () lg = (.ok true, (), lg) ∧
    nonEmpty (zero : Machine Unit α) () lg = (.ok false, (), lg) ∧
    (∀ p : α → GoM Bool, «exists» p zero fuel () lg = (.ok false, (), lg)) ∧
    (∀ p : α → GoM Bool, forAll p zero fuel () lg = (.ok true, (), lg)) ∧
    (∀ p : α → GoM Bool, find p zero fuel () lg = (.ok none, (), lg)) ∧
    (∀ p : α → GoM Unit, foreach p zero fuel () lg = (.ok (), (), lg)) ∧
    (∀ p : α → GoM Bool, all p zero fuel () lg = (.ok (), (), lg)) ∧
    (∀ (f : β → α → GoM β) (z : β), fold f zero fuel z () lg = (.ok z, (), lg)) := by
  obtain ⟨k, rfl⟩ := Nat.exists_eq_succ_of_ne_zero (Nat.pos_iff_ne_zero.mp hf)
  refine ⟨rfl, rfl, rfl, rfl, rfl, fun _ => rfl, fun _ => rfl, fun _ => rfl, fun _ => rfl, fun _ => rfl,
    fun _ _ => rfl⟩

/-- combinators applied to the zero value see an empty iterator (instance: `Map`, `Take`). -/
theorem zero_under_combinators (f : α → GoM β) (g : α → β) (hf : Total f g) (n : Int) :
    Represents (map f (zero : Machine Unit α)) () [] [] ∧
    Represents (take n (zero : Machine Unit α)) ((), 0) [] [] :=
  ⟨⟨_, map_sim hf zero_sim, [], [], rfl, rfl, rfl⟩, ⟨_, take_sim n zero_sim, [], rfl, rfl, by simp⟩⟩

/-! ## Duplicate: two iterators over one source, any interleaving -/

/-- For EVERY interleaving `cs` of the four calls `LH`, `LN`, `RH`, `RN`, each side of
    `Duplicate(r)` observes the complete source sequence `l`, in order, exactly as if it were alone
    (`leftPart`/`rightPart` are the calls addressed to that side). -/
theorem duplicate_any_interleaving (m : Machine σ α) (s : σ) (l : List α) (h : Represents m s [] l)
    (cs : List Call2) (lg : Log) :
    (obsLeft (runScript2 (dupLeft m) (dupRight m) cs (s, {}) lg).1).map Obs.erase
        = specScript (Call2.leftPart cs) l ∧
    (obsRight (runScript2 (dupLeft m) (dupRight m) cs (s, {}) lg).1).map Obs.erase
        = specScript (Call2.rightPart cs) l := by
  have h2 := dup_sim2 (Represents.sim m)
  have h0 : dupRel (Represents m) (s, ({} : DupSt α)) [] l [] l := ⟨[], l, h, by simp [DupInv]⟩
  obtain ⟨_, _, _, _, _, hL, hR, _⟩ := runScript2_sim h2 cs (s, {}) [] l [] l lg h0
  exact ⟨hL, hR⟩

/-- Each source element is pulled exactly once, whatever the interleaving: on the instrumented
    slice source (whose state is its pull counter) the number of pulls after the script equals the
    number of elements obtained by the side that is further ahead — never more (no element is
    pulled twice, none is pulled that nobody asked for), and when both sides have been drained it
    is `xs.length`. -/
theorem duplicate_pulls_once (tag : Option (α → Event)) (xs : List α) (cs : List Call2) (lg : Log) :
    let fin := runScript2 (dupLeft (ofSeq tag xs)) (dupRight (ofSeq tag xs)) cs (0, {}) lg
    let gotL := xs.length - (specRest (Call2.leftPart cs) xs).length
    let gotR := xs.length - (specRest (Call2.rightPart cs) xs).length
    fin.2.1.1 = Nat.max gotL gotR := by
  intro fin gotL gotR
  have h2 := dup_sim2 (ofSeq_sim tag xs)
  have h0 : dupRel (ofSeqRel xs) ((0 : Nat), ({} : DupSt α)) [] xs [] xs :=
    ⟨[], xs, ⟨by simp, by simp, by simp⟩, by simp [DupInv]⟩
  obtain ⟨s', lg', dL', dR', e, _, _, ⟨d, r, ⟨hle, hd, hr⟩, hI⟩, hdL, hdR⟩ :=
    runScript2_sim h2 cs (0, {}) [] xs [] xs lg h0
  have hfin : fin.2.1 = s' := by show (runScript2 _ _ cs (0, {}) lg).2.1 = s'; rw [e]
  rw [hfin]
  have hdl : d.length = s'.1 := by rw [hd]; simp; omega
  have hL : dL'.length = gotL := by
    have := congrArg List.length hdL; simp at this; omega
  have hR : dR'.length = gotR := by
    have := congrArg List.length hdR; simp at this; omega
  simp only [DupInv] at hI
  by_cases hla : s'.2.leftAhead = true
  · simp only [hla, if_true] at hI
    obtain ⟨h1, _, h3, _⟩ := hI
    have : dR'.length ≤ dL'.length := by rw [h3]; simp
    rw [← hdl, ← h1, ← hL, ← hR]; exact (Nat.max_eq_left this).symm
  · simp only [hla] at hI
    obtain ⟨h1, _, h3, _⟩ := hI
    have : dL'.length ≤ dR'.length := by rw [h3]; simp
    rw [← hdl, ← h1, ← hL, ← hR]; exact (Nat.max_eq_right this).symm

/-! ## Span and Partition -/

/-- `Span(r, p)`: for every interleaving the left iterator observes `takeWhile p l` and the right
    one `dropWhile p l`. -/
theorem span_any_interleaving (p : α → GoM Bool) (g : α → Bool) (hp : Total p g)
    (m : Machine σ α) (s : σ) (l : List α) (h : Represents m s [] l) (fuel : Nat) (hfuel : l.length < fuel)
    (cs : List Call2) (lg : Log) :
    (obsLeft (runScript2 (spanLeft p m) (spanRight fuel p m) cs ((s, {}), {}, {}) lg).1).map Obs.erase
        = specScript (Call2.leftPart cs) (l.takeWhile g) ∧
    (obsRight (runScript2 (spanLeft p m) (spanRight fuel p m) cs ((s, {}), {}, {}) lg).1).map Obs.erase
        = specScript (Call2.rightPart cs) (l.dropWhile g) := by
  have h2 := sides_sim2 (dup_sim2 (Represents.sim m))
    (cL := takeWhile p (dupLeft m)) (IL := TakeWhileInv g) (fun R hR => takeWhile_sim hp hR)
    (cR := dropWhile fuel p (dupRight m)) (IR := DropWhileInv fuel g) (fun R hR => dropWhile_sim hp fuel hR)
  obtain ⟨_, _, _, _, _, hL, hR, _⟩ := runScript2_sim h2 cs ((s, {}), {}, {}) [] (l.takeWhile g) [] (l.dropWhile g) lg
    ⟨[], l, [], l, ⟨[], l, h, by simp [DupInv]⟩, by simp [TakeWhileInv], by simp [DropWhileInv, hfuel]⟩
  exact ⟨hL, hR⟩

/-- `Partition(r, p)`: for every interleaving the left iterator observes `filter p l` and the right
    one `filter (not ∘ p) l`. -/
theorem partition_any_interleaving (p : α → GoM Bool) (g : α → Bool) (hp : Total p g)
    (m : Machine σ α) (s : σ) (l : List α) (h : Represents m s [] l) (fuel : Nat) (hfuel : l.length < fuel)
    (cs : List Call2) (lg : Log) :
    (obsLeft (runScript2 (partitionLeft fuel p m) (partitionRight fuel p m) cs ((s, {}), {}, {}) lg).1).map Obs.erase
        = specScript (Call2.leftPart cs) (l.filter g) ∧
    (obsRight (runScript2 (partitionLeft fuel p m) (partitionRight fuel p m) cs ((s, {}), {}, {}) lg).1).map Obs.erase
        = specScript (Call2.rightPart cs) (l.filter (fun x => !g x)) := by
  have hnp : Total (fun t => do let b ← p t; pure (!b)) (fun x => !g x) := total_bind_pure hp (fun b => !b)
  have h2 := sides_sim2 (dup_sim2 (Represents.sim m))
    (cL := filter fuel p (dupLeft m)) (IL := FilterInvF fuel g) (fun R hR => filter_sim hp fuel hR)
    (cR := filterNot fuel p (dupRight m)) (IR := FilterInvF fuel (fun x => !g x))
    (fun R hR => filter_sim hnp fuel hR)
  obtain ⟨_, _, _, _, _, hL, hR, _⟩ := runScript2_sim h2 cs ((s, {}), {}, {}) [] (l.filter g) []
    (l.filter (fun x => !g x)) lg
    ⟨[], l, [], l, ⟨[], l, h, by simp [DupInv]⟩, by simp [FilterInvF, FilterInv, hfuel],
      by simp [FilterInvF, FilterInv, hfuel]⟩
  exact ⟨hL, hR⟩

/-! ### how many elements `Span` / `Partition` pull from the shared source

(AUDITFIX-B, audit finding 19: the former `span_pulls_at_most_once` only said `counter ≤ xs.length`,
which is true of EVERY state of the slice source.)  Both sides of `Span` / `Partition` read the source
through the two ends of ONE `Duplicate`; the source therefore has delivered EXACTLY the elements
consumed by the side that is further ahead: `n = max cL cR`, where `cL` / `cR` are the numbers of
elements the left / right combinator has consumed so far — stated in terms of the combinators'
captured variables and of what the client has observed (`TakeWhileSt.look`, `DropWhilePulled`,
`FilterPulled` in `Lemmas/IterPulled.lean`).  No element is pulled twice, none that neither side
needed, none is withheld. -/

/-- `Span(r, p)`, any source, any interleaving: the shared source iterator has delivered exactly
    the first `n = max cL cR` elements of `l` and will deliver exactly the others, where
    * `cL = gotL + look`: the left side (`TakeWhile`) has consumed what it has delivered (`gotL`
      elements of `takeWhile p l`) plus the one element it holds (parked by `HasNext`, or the first
      failing element, which had to be pulled to be tested);
    * `cR` is what the right side (`DropWhile`) has consumed: once it has found the first failing
      element, `cR + |rest of the right side| = |l|` (`+ 1` while that element is parked in
      `first`); before that, the right side's rest is `dropWhile p (l.drop cR)`. -/
theorem span_source_pulled_exactly (p : α → GoM Bool) (g : α → Bool) (hp : Total p g)
    (m : Machine σ α) (s : σ) (l : List α) (h : Represents m s [] l) (fuel : Nat) (hfuel : l.length < fuel)
    (cs : List Call2) (lg : Log) :
    let fin := runScript2 (spanLeft p m) (spanRight fuel p m) cs ((s, {}), {}, {}) lg
    let restL := specRest (Call2.leftPart cs) (l.takeWhile g)
    let restR := specRest (Call2.rightPart cs) (l.dropWhile g)
    let gotL := (l.takeWhile g).length - restL.length
    ∃ cR, DropWhilePulled g l fin.2.1.2.2 cR restR ∧
      gotL + fin.2.1.2.1.look ≤ l.length ∧
      Represents m fin.2.1.1.1 (l.take (Nat.max (gotL + fin.2.1.2.1.look) cR))
        (l.drop (Nat.max (gotL + fin.2.1.2.1.look) cR)) := by
  intro fin restL restR gotL
  have hS : Sim m (fun s d r => Represents m s d r ∧ d ++ r = l) := (Represents.sim m).withTotal l
  have h2 := sides_sim2 (dup_sim2 hS)
    (cL := takeWhile p (dupLeft m)) (IL := TakeWhileInv g) (fun R hR => takeWhile_sim hp hR)
    (cR := dropWhile fuel p (dupRight m)) (IR := DropWhileInv fuel g) (fun R hR => dropWhile_sim hp fuel hR)
  obtain ⟨s', lg', dL', dR', e, _, _, ⟨dL, rL, dR, rR, hdup, hIL, hIR⟩, hdL', _⟩ :=
    runScript2_sim h2 cs ((s, {}), {}, {}) [] (l.takeWhile g) [] (l.dropWhile g) lg
    ⟨[], l, [], l, ⟨[], l, ⟨h, rfl⟩, by simp [DupInv]⟩, by simp [TakeWhileInv], by simp [DropWhileInv, hfuel]⟩
  have hfin : fin.2.1 = s' := by
    show (runScript2 (spanLeft p m) (spanRight fuel p m) cs ((s, {}), {}, {}) lg).2.1 = s'
    simp only [spanLeft, spanRight]; rw [e]
  rw [hfin]
  obtain ⟨d, r, ⟨hRep, hdr⟩, hmax, hl1, hl2⟩ := dupRel_max hdup
  have hgot : dL'.length = gotL := by
    have := congrArg List.length hdL'; simp only [gotL, restL]; simp at this; omega
  have hcL : dL.length = gotL + s'.2.1.look := by rw [← hgot]; exact hIL.consumed
  have hlenL : dL.length ≤ l.length := by
    have := congrArg List.length (hl1.symm.trans hdr); simp at this; omega
  refine ⟨dR.length, hIR.pulled (hl2.symm.trans hdr), by omega, ?_⟩
  rw [← hcL, ← hmax]
  obtain ⟨h1, h2'⟩ := take_drop_of_append hdr
  rw [← h1, ← h2']
  exact hRep

/-- the same on the instrumented slice source, whose state IS its pull counter: the counter equals
    `max cL cR` exactly -/
theorem span_pulls_exactly (p : α → GoM Bool) (g : α → Bool) (hp : Total p g)
    (tag : Option (α → Event)) (xs : List α) (fuel : Nat) (hfuel : xs.length < fuel)
    (cs : List Call2) (lg : Log) :
    let fin := runScript2 (spanLeft p (ofSeq tag xs)) (spanRight fuel p (ofSeq tag xs)) cs ((0, {}), {}, {}) lg
    let restL := specRest (Call2.leftPart cs) (xs.takeWhile g)
    let restR := specRest (Call2.rightPart cs) (xs.dropWhile g)
    let gotL := (xs.takeWhile g).length - restL.length
    ∃ cR, DropWhilePulled g xs fin.2.1.2.2 cR restR ∧
      fin.2.1.1.1 = Nat.max (gotL + fin.2.1.2.1.look) cR := by
  intro fin restL restR gotL
  have h2 := sides_sim2 (dup_sim2 ((ofSeq_sim tag xs).withTotal xs))
    (cL := takeWhile p (dupLeft (ofSeq tag xs))) (IL := TakeWhileInv g) (fun R hR => takeWhile_sim hp hR)
    (cR := dropWhile fuel p (dupRight (ofSeq tag xs))) (IR := DropWhileInv fuel g)
    (fun R hR => dropWhile_sim hp fuel hR)
  obtain ⟨s', lg', dL', dR', e, _, _, ⟨dL, rL, dR, rR, hdup, hIL, hIR⟩, hdL', _⟩ :=
    runScript2_sim h2 cs (((0 : Nat), {}), {}, {}) [] (xs.takeWhile g) [] (xs.dropWhile g) lg
    ⟨[], xs, [], xs, ⟨[], xs, ⟨⟨by simp, by simp, by simp⟩, rfl⟩, by simp [DupInv]⟩, by simp [TakeWhileInv],
      by simp [DropWhileInv, hfuel]⟩
  have hfin : fin.2.1 = s' := by
    show (runScript2 (spanLeft p (ofSeq tag xs)) (spanRight fuel p (ofSeq tag xs)) cs ((0, {}), {}, {}) lg).2.1 = s'
    simp only [spanLeft, spanRight]; rw [e]
  rw [hfin]
  obtain ⟨d, r, ⟨⟨hle, hd, _⟩, hdr⟩, hmax, hl1, hl2⟩ := dupRel_max hdup
  have hgot : dL'.length = gotL := by
    have := congrArg List.length hdL'; simp only [gotL, restL]; simp at this; omega
  have hcL : dL.length = gotL + s'.2.1.look := by rw [← hgot]; exact hIL.consumed
  refine ⟨dR.length, hIR.pulled (hl2.symm.trans hdr), ?_⟩
  rw [← hcL, ← hmax, hd]; simp; omega

/-- (old name, now a corollary) the instrumented source has handed out at most `xs.length`
    elements.  NOTE (audit finding 19): this bound alone holds in every state of the slice source;
    the real pull-count statement is `span_pulls_exactly` / `span_source_pulled_exactly`. -/
theorem span_pulls_at_most_once (p : α → GoM Bool) (g : α → Bool) (hp : Total p g)
    (tag : Option (α → Event)) (xs : List α) (fuel : Nat) (hfuel : xs.length < fuel)
    (cs : List Call2) (lg : Log) :
    (runScript2 (spanLeft p (ofSeq tag xs)) (spanRight fuel p (ofSeq tag xs)) cs ((0, {}), {}, {}) lg).2.1.1.1
      ≤ xs.length := by
  obtain ⟨cR, hR, hc⟩ := span_pulls_exactly p g hp tag xs fuel hfuel cs lg
  obtain ⟨cR', hR', hle, _⟩ := span_source_pulled_exactly p g hp (ofSeq tag xs) 0 xs
    ⟨_, ofSeq_sim tag xs, by simp [ofSeqRel]⟩ fuel hfuel cs lg
  rw [hc]
  exact Nat.max_le.mpr ⟨hle, hR.1⟩

/-- `Partition(r, p)`, any source, any interleaving: the shared source has delivered exactly the
    first `n = max cL cR` elements of `l`, where `cL` (`cR`) is what the left `Filter p` (right
    `FilterNot p`) has consumed: nothing before its first `HasNext`; then the shortest prefix of `l`
    containing one matching element more than that side has delivered (it sits on that element);
    or all of `l` once it has run off the end. -/
theorem partition_source_pulled_exactly (p : α → GoM Bool) (g : α → Bool) (hp : Total p g)
    (m : Machine σ α) (s : σ) (l : List α) (h : Represents m s [] l) (fuel : Nat) (hfuel : l.length < fuel)
    (cs : List Call2) (lg : Log) :
    let fin := runScript2 (partitionLeft fuel p m) (partitionRight fuel p m) cs ((s, {}), {}, {}) lg
    let restL := specRest (Call2.leftPart cs) (l.filter g)
    let restR := specRest (Call2.rightPart cs) (l.filter (fun x => !g x))
    ∃ cL cR dL' dR', dL' ++ restL = l.filter g ∧ dR' ++ restR = l.filter (fun x => !g x) ∧
      FilterPulled g l fin.2.1.2.1 cL dL' ∧ FilterPulled (fun x => !g x) l fin.2.1.2.2 cR dR' ∧
      Represents m fin.2.1.1.1 (l.take (Nat.max cL cR)) (l.drop (Nat.max cL cR)) := by
  intro fin restL restR
  have hnp : Total (fun t => do let b ← p t; pure (!b)) (fun x => !g x) := total_bind_pure hp (fun b => !b)
  have hS : Sim m (fun s d r => Represents m s d r ∧ d ++ r = l) := (Represents.sim m).withTotal l
  have h2 := sides_sim2 (dup_sim2 hS)
    (cL := filter fuel p (dupLeft m)) (IL := FilterInvF fuel g) (fun R hR => filter_sim hp fuel hR)
    (cR := filterNot fuel p (dupRight m)) (IR := FilterInvF fuel (fun x => !g x))
    (fun R hR => filter_sim hnp fuel hR)
  obtain ⟨s', lg', dL', dR', e, _, _, ⟨dL, rL, dR, rR, hdup, hIL, hIR⟩, hdL', hdR'⟩ :=
    runScript2_sim h2 cs ((s, {}), {}, {}) [] (l.filter g) [] (l.filter (fun x => !g x)) lg
    ⟨[], l, [], l, ⟨[], l, ⟨h, rfl⟩, by simp [DupInv]⟩, by simp [FilterInvF, FilterInv, hfuel],
      by simp [FilterInvF, FilterInv, hfuel]⟩
  have hfin : fin.2.1 = s' := by
    show (runScript2 (partitionLeft fuel p m) (partitionRight fuel p m) cs ((s, {}), {}, {}) lg).2.1 = s'
    simp only [partitionLeft, partitionRight]; rw [e]
  rw [hfin]
  obtain ⟨d, r, ⟨hRep, hdr⟩, hmax, hl1, hl2⟩ := dupRel_max hdup
  refine ⟨dL.length, dR.length, dL', dR', by simpa using hdL', by simpa using hdR',
    hIL.2.pulled (hl1.symm.trans hdr), hIR.2.pulled (hl2.symm.trans hdr), ?_⟩
  rw [← hmax]
  obtain ⟨h1, h2'⟩ := take_drop_of_append hdr
  rw [← h1, ← h2']
  exact hRep

/-- on the instrumented slice source: the pull counter is exactly `max cL cR` -/
theorem partition_pulls_exactly (p : α → GoM Bool) (g : α → Bool) (hp : Total p g)
    (tag : Option (α → Event)) (xs : List α) (fuel : Nat) (hfuel : xs.length < fuel)
    (cs : List Call2) (lg : Log) :
    let fin := runScript2 (partitionLeft fuel p (ofSeq tag xs)) (partitionRight fuel p (ofSeq tag xs)) cs
      ((0, {}), {}, {}) lg
    let restL := specRest (Call2.leftPart cs) (xs.filter g)
    let restR := specRest (Call2.rightPart cs) (xs.filter (fun x => !g x))
    ∃ cL cR dL' dR', dL' ++ restL = xs.filter g ∧ dR' ++ restR = xs.filter (fun x => !g x) ∧
      FilterPulled g xs fin.2.1.2.1 cL dL' ∧ FilterPulled (fun x => !g x) xs fin.2.1.2.2 cR dR' ∧
      fin.2.1.1.1 = Nat.max cL cR := by
  intro fin restL restR
  have hnp : Total (fun t => do let b ← p t; pure (!b)) (fun x => !g x) := total_bind_pure hp (fun b => !b)
  have h2 := sides_sim2 (dup_sim2 ((ofSeq_sim tag xs).withTotal xs))
    (cL := filter fuel p (dupLeft (ofSeq tag xs))) (IL := FilterInvF fuel g) (fun R hR => filter_sim hp fuel hR)
    (cR := filterNot fuel p (dupRight (ofSeq tag xs))) (IR := FilterInvF fuel (fun x => !g x))
    (fun R hR => filter_sim hnp fuel hR)
  obtain ⟨s', lg', dL', dR', e, _, _, ⟨dL, rL, dR, rR, hdup, hIL, hIR⟩, hdL', hdR'⟩ :=
    runScript2_sim h2 cs (((0 : Nat), {}), {}, {}) [] (xs.filter g) [] (xs.filter (fun x => !g x)) lg
    ⟨[], xs, [], xs, ⟨[], xs, ⟨⟨by simp, by simp, by simp⟩, rfl⟩, by simp [DupInv]⟩,
      by simp [FilterInvF, FilterInv, hfuel], by simp [FilterInvF, FilterInv, hfuel]⟩
  have hfin : fin.2.1 = s' := by
    show (runScript2 (partitionLeft fuel p (ofSeq tag xs)) (partitionRight fuel p (ofSeq tag xs)) cs
      ((0, {}), {}, {}) lg).2.1 = s'
    simp only [partitionLeft, partitionRight]; rw [e]
  rw [hfin]
  obtain ⟨d, r, ⟨⟨hle, hd, _⟩, hdr⟩, hmax, hl1, hl2⟩ := dupRel_max hdup
  refine ⟨dL.length, dR.length, dL', dR', by simpa using hdL', by simpa using hdR',
    hIL.2.pulled (hl1.symm.trans hdr), hIR.2.pulled (hl2.symm.trans hdr), ?_⟩
  rw [← hmax, hd]; simp; omega

/-- `Partition`: never more pulls than elements (the weak bound, as a corollary) -/
theorem partition_pulls_at_most_once (p : α → GoM Bool) (g : α → Bool) (hp : Total p g)
    (tag : Option (α → Event)) (xs : List α) (fuel : Nat) (hfuel : xs.length < fuel)
    (cs : List Call2) (lg : Log) :
    (runScript2 (partitionLeft fuel p (ofSeq tag xs)) (partitionRight fuel p (ofSeq tag xs)) cs
      ((0, {}), {}, {}) lg).2.1.1.1 ≤ xs.length := by
  obtain ⟨cL, cR, _, _, _, _, hL, hR, hc⟩ := partition_pulls_exactly p g hp tag xs fuel hfuel cs lg
  rw [hc]
  exact Nat.max_le.mpr ⟨hL.1, hR.1⟩

/-- the exact statements are not the trivial bound: on `[1,2,3,4]` with `p = (< 3)`, after `LH` (left
    `HasNext`: one element pulled and parked) the source counter is 1 — not 0, not 4; after `RH`
    (right `HasNext`, which must skip 1, 2 and find 3) it is 3; `Partition` by evenness after `LH`
    (the left `Filter` runs to the first even element): 2. -/
example :
    (runScript2 (spanLeft (fun x : Nat => pure (x < 3)) (ofSeq none [1, 2, 3, 4]))
      (spanRight 10 (fun x : Nat => pure (x < 3)) (ofSeq none [1, 2, 3, 4])) [.LH] ((0, {}), {}, {}) []).2.1.1.1 = 1 := by
  decide

example :
    (runScript2 (spanLeft (fun x : Nat => pure (x < 3)) (ofSeq none [1, 2, 3, 4]))
      (spanRight 10 (fun x : Nat => pure (x < 3)) (ofSeq none [1, 2, 3, 4])) [.RH] ((0, {}), {}, {}) []).2.1.1.1 = 3 := by
  decide

example :
    (runScript2 (partitionLeft 10 (fun x : Nat => pure (x % 2 == 0)) (ofSeq none [1, 2, 3, 4]))
      (partitionRight 10 (fun x : Nat => pure (x % 2 == 0)) (ofSeq none [1, 2, 3, 4])) [.LH] ((0, {}), {}, {}) []).2.1.1.1 = 2 := by
  decide

/-! ## every iterator the library returns: quantifying over the pipeline AST

`Pipe` (`Model/IterPipe.lean`) is the AST of the iterator-producing library calls — ten sources
(`IteratorOfSeq` / `iterator.Of` / `FromSeq` / `FromSlice`, `Range` / `RangeClosed`, `IteratorOfOption`,
`Empty`, the zero value `Iterator[T]{}`, `ReverseSeq`, `MakePullIterator`, …) and fifteen combinators
(`Map`, `TapEach`, `Take`, `Drop`, `TakeWhile`, `DropWhile`, `Filter`, `FilterNot`, `Concat`, `FlatMap`,
`FilterMap`, `Scan`, `Zip`, `Zip3`, `ZipWithIndex`), nested arbitrarily, also inside `FlatMap` callbacks;
`Pipe.buildF` runs the constructors, `Pipe.machineF` is the iterator returned (these are the
definitions the oracle executes, with its fuel constant).  The theorems above are about any machine
that `Represents` a list; `C12.pipe_representsF` says every pipeline does (callbacks that do not panic:
`Pipe.WB`; any fuel above the explicit bound `Pipe.need`; lists of every length).  Put together, the
protocol statements of C20 hold FOR EVERY PIPELINE, at EVERY POINT of EVERY call history. -/

/-- For every pipeline and every call script: the script observes exactly what it observes on the
    list `Pipe.denote`, and leaves an iterator representing the rest. -/
theorem pipe_script_observes_list (p : Pipe) (x : Val) (hwb : p.WB x) (fuel : Nat) (hfuel : p.need x < fuel)
    (cs : List Call) (lg : Log) :
    ∃ s lg1, (p.buildF fuel x).run.run lg = (.ok s, lg1) ∧
      (runScript (Pipe.machineF fuel p) cs s lg1).1.map Obs.erase = specScript cs (p.denote x) ∧
      ∃ d', Represents (Pipe.machineF fuel p) (runScript (Pipe.machineF fuel p) cs s lg1).2.1 d'
          (specRest cs (p.denote x)) ∧ d' ++ specRest cs (p.denote x) = p.denote x := by
  obtain ⟨s, lg1, e, hR⟩ := C12.pipe_representsF p x hwb fuel hfuel lg
  obtain ⟨h1, d', h2, h3⟩ := script_observes_list _ s [] _ hR cs lg1
  exact ⟨s, lg1, e, h1, d', h2, by simpa using h3⟩

/-- For every pipeline, after ANY call history `cs`: `k` further `HasNext` calls all give the same
    answer — whether elements remain — and neither consume nor skip anything: the iterator still
    represents the same rest. -/
theorem pipe_hasNext_idempotent (p : Pipe) (x : Val) (hwb : p.WB x) (fuel : Nat) (hfuel : p.need x < fuel)
    (cs : List Call) (k : Nat) (lg : Log) :
    ∃ s lg1, (p.buildF fuel x).run.run lg = (.ok s, lg1) ∧
      let st := runScript (Pipe.machineF fuel p) cs s lg1
      let rest := specRest cs (p.denote x)
      (runScript (Pipe.machineF fuel p) (List.replicate k .H) st.2.1 st.2.2).1
          = List.replicate k (.has (!rest.isEmpty)) ∧
      ∃ d', Represents (Pipe.machineF fuel p)
        (runScript (Pipe.machineF fuel p) (List.replicate k .H) st.2.1 st.2.2).2.1 d' rest := by
  obtain ⟨s, lg1, e, _, d', hR, _⟩ := pipe_script_observes_list p x hwb fuel hfuel cs lg
  exact ⟨s, lg1, e, hasNext_idempotent _ _ d' _ hR k _⟩

/-- For every pipeline, after ANY call history `cs` that leaves `a :: r`: `Next` — after any number
    of `HasNext` calls, which all answer true — returns `a`, the next element, and only it is
    consumed. -/
theorem pipe_next_returns_next (p : Pipe) (x : Val) (hwb : p.WB x) (fuel : Nat) (hfuel : p.need x < fuel)
    (cs : List Call) (a : Val) (r : List Val) (hrest : specRest cs (p.denote x) = a :: r) (k : Nat) (lg : Log) :
    ∃ s lg1, (p.buildF fuel x).run.run lg = (.ok s, lg1) ∧
      let st := runScript (Pipe.machineF fuel p) cs s lg1
      ∃ s' lg' d', runScript (Pipe.machineF fuel p) (List.replicate k .H ++ [.N]) st.2.1 st.2.2 =
          (List.replicate k (.has true) ++ [.val a], s', lg') ∧
        Represents (Pipe.machineF fuel p) s' d' r := by
  obtain ⟨s, lg1, e, _, d', hR, _⟩ := pipe_script_observes_list p x hwb fuel hfuel cs lg
  rw [hrest] at hR
  obtain ⟨s', lg', e', hR'⟩ := next_returns_next _ _ d' a r hR k (runScript (Pipe.machineF fuel p) cs s lg1).2.2
  exact ⟨s, lg1, e, s', lg', _, e', hR'⟩

/-- For every pipeline: once a call history `cs` has exhausted it, `Next` panics — no value is
    fabricated — and it stays exhausted: in every continuation `cs2` every `HasNext` is false and
    every `Next` panics. -/
theorem pipe_next_on_exhausted_panics (p : Pipe) (x : Val) (hwb : p.WB x) (fuel : Nat) (hfuel : p.need x < fuel)
    (cs : List Call) (hrest : specRest cs (p.denote x) = []) (cs2 : List Call) (lg : Log) :
    ∃ s lg1, (p.buildF fuel x).run.run lg = (.ok s, lg1) ∧
      let st := runScript (Pipe.machineF fuel p) cs s lg1
      (runScript (Pipe.machineF fuel p) cs2 st.2.1 st.2.2).1.map Obs.erase =
        cs2.map (fun c => match c with | .H => .has false | .N => .panic "") := by
  obtain ⟨s, lg1, e, _, d', hR, _⟩ := pipe_script_observes_list p x hwb fuel hfuel cs lg
  rw [hrest] at hR
  exact ⟨s, lg1, e, next_on_exhausted_panics _ _ d' hR cs2 _⟩

/-- `Duplicate` over EVERY pipeline, every interleaving: each side observes the complete sequence
    `Pipe.denote`, in order. -/
theorem pipe_duplicate_any_interleaving (p : Pipe) (x : Val) (hwb : p.WB x) (fuel : Nat) (hfuel : p.need x < fuel)
    (cs : List Call2) (lg : Log) :
    ∃ s lg1, (p.buildF fuel x).run.run lg = (.ok s, lg1) ∧
      (obsLeft (runScript2 (dupLeft (Pipe.machineF fuel p)) (dupRight (Pipe.machineF fuel p)) cs (s, {}) lg1).1).map Obs.erase
          = specScript (Call2.leftPart cs) (p.denote x) ∧
      (obsRight (runScript2 (dupLeft (Pipe.machineF fuel p)) (dupRight (Pipe.machineF fuel p)) cs (s, {}) lg1).1).map Obs.erase
          = specScript (Call2.rightPart cs) (p.denote x) := by
  obtain ⟨s, lg1, e, hR⟩ := C12.pipe_representsF p x hwb fuel hfuel lg
  exact ⟨s, lg1, e, duplicate_any_interleaving _ s _ hR cs lg1⟩

/-- `Duplicate` pulls each element of its source exactly once, whatever the source pipeline and the
    interleaving: after the script the shared source iterator has delivered exactly the first
    `max gotL gotR` elements of `Pipe.denote` (the number obtained by the side that is further
    ahead) and will deliver exactly the others. -/
theorem duplicate_source_pulled_once (m : Machine σ α) (s : σ) (l : List α) (h : Represents m s [] l)
    (cs : List Call2) (lg : Log) :
    let fin := runScript2 (dupLeft m) (dupRight m) cs (s, {}) lg
    let gotL := l.length - (specRest (Call2.leftPart cs) l).length
    let gotR := l.length - (specRest (Call2.rightPart cs) l).length
    Represents m fin.2.1.1 (l.take (Nat.max gotL gotR)) (l.drop (Nat.max gotL gotR)) := by
  intro fin gotL gotR
  have h2 := dup_sim2 (Represents.sim m)
  have h0 : dupRel (Represents m) (s, ({} : DupSt α)) [] l [] l := ⟨[], l, h, by simp [DupInv]⟩
  obtain ⟨s', lg', dL', dR', e, _, _, ⟨d, r, hRep, hI⟩, hdL, hdR⟩ := runScript2_sim h2 cs (s, {}) [] l [] l lg h0
  have hfin : fin.2.1 = s' := by show (runScript2 _ _ cs (s, {}) lg).2.1 = s'; rw [e]
  rw [hfin]
  have hL : dL'.length = gotL := by
    have := congrArg List.length hdL; simp at this; omega
  have hR : dR'.length = gotR := by
    have := congrArg List.length hdR; simp at this; omega
  simp only [List.nil_append] at hdL hdR
  simp only [DupInv] at hI
  have key : ∀ n, d.length = n → d ++ r = l → Represents m s'.1 (l.take n) (l.drop n) := by
    intro n hn hdr
    subst hn; subst hdr
    simpa using hRep
  by_cases hla : s'.2.leftAhead = true
  · simp only [hla, if_true] at hI
    obtain ⟨h1, h2', h3, _⟩ := hI
    have hle : dR'.length ≤ dL'.length := by rw [h3]; simp
    refine key _ ?_ ?_
    · rw [← h1, hL]; exact (Nat.max_eq_left (by omega)).symm
    · rw [← h1, ← h2']; exact hdL
  · simp only [hla] at hI
    obtain ⟨h1, h2', h3, _⟩ := hI
    have hle : dL'.length ≤ dR'.length := by rw [h3]; simp
    refine key _ ?_ ?_
    · rw [← h1, hR]; exact (Nat.max_eq_right (by omega)).symm
    · rw [← h1, ← h2']; exact hdR

theorem pipe_duplicate_pulls_once (p : Pipe) (x : Val) (hwb : p.WB x) (fuel : Nat) (hfuel : p.need x < fuel)
    (cs : List Call2) (lg : Log) :
    ∃ s lg1, (p.buildF fuel x).run.run lg = (.ok s, lg1) ∧
      let fin := runScript2 (dupLeft (Pipe.machineF fuel p)) (dupRight (Pipe.machineF fuel p)) cs (s, {}) lg1
      let l := p.denote x
      let n := Nat.max (l.length - (specRest (Call2.leftPart cs) l).length)
        (l.length - (specRest (Call2.rightPart cs) l).length)
      Represents (Pipe.machineF fuel p) fin.2.1.1 (l.take n) (l.drop n) := by
  obtain ⟨s, lg1, e, hR⟩ := C12.pipe_representsF p x hwb fuel hfuel lg
  exact ⟨s, lg1, e, duplicate_source_pulled_once _ s _ hR cs lg1⟩

/-- `Span` over EVERY pipeline, every interleaving (`sfuel`: the fuel of `Span`'s own `DropWhile`
    loop, any number above the length). -/
theorem pipe_span_any_interleaving (p : Pipe) (x : Val) (hwb : p.WB x) (fuel : Nat) (hfuel : p.need x < fuel)
    (f : Val → GoM Bool) (g : Val → Bool) (hf : Total f g) (sfuel : Nat) (hsfuel : (p.denote x).length < sfuel)
    (cs : List Call2) (lg : Log) :
    ∃ s lg1, (p.buildF fuel x).run.run lg = (.ok s, lg1) ∧
      (obsLeft (runScript2 (spanLeft f (Pipe.machineF fuel p)) (spanRight sfuel f (Pipe.machineF fuel p)) cs
          ((s, {}), {}, {}) lg1).1).map Obs.erase = specScript (Call2.leftPart cs) ((p.denote x).takeWhile g) ∧
      (obsRight (runScript2 (spanLeft f (Pipe.machineF fuel p)) (spanRight sfuel f (Pipe.machineF fuel p)) cs
          ((s, {}), {}, {}) lg1).1).map Obs.erase = specScript (Call2.rightPart cs) ((p.denote x).dropWhile g) := by
  obtain ⟨s, lg1, e, hR⟩ := C12.pipe_representsF p x hwb fuel hfuel lg
  exact ⟨s, lg1, e, span_any_interleaving f g hf _ s _ hR sfuel hsfuel cs lg1⟩

/-- `Partition` over EVERY pipeline, every interleaving. -/
theorem pipe_partition_any_interleaving (p : Pipe) (x : Val) (hwb : p.WB x) (fuel : Nat) (hfuel : p.need x < fuel)
    (f : Val → GoM Bool) (g : Val → Bool) (hf : Total f g) (sfuel : Nat) (hsfuel : (p.denote x).length < sfuel)
    (cs : List Call2) (lg : Log) :
    ∃ s lg1, (p.buildF fuel x).run.run lg = (.ok s, lg1) ∧
      (obsLeft (runScript2 (partitionLeft sfuel f (Pipe.machineF fuel p)) (partitionRight sfuel f (Pipe.machineF fuel p)) cs
          ((s, {}), {}, {}) lg1).1).map Obs.erase = specScript (Call2.leftPart cs) ((p.denote x).filter g) ∧
      (obsRight (runScript2 (partitionLeft sfuel f (Pipe.machineF fuel p)) (partitionRight sfuel f (Pipe.machineF fuel p)) cs
          ((s, {}), {}, {}) lg1).1).map Obs.erase = specScript (Call2.rightPart cs) ((p.denote x).filter (fun v => !g v)) := by
  obtain ⟨s, lg1, e, hR⟩ := C12.pipe_representsF p x hwb fuel hfuel lg
  exact ⟨s, lg1, e, partition_any_interleaving f g hf _ s _ hR sfuel hsfuel cs lg1⟩

/-- the same for the machines the oracle runs (`Pipe.machine` = `Pipe.machineF FUEL`, hypothesis
    `Pipe.OK`): every script on every pipeline observes the list. -/
theorem pipe_script_observes_list_oracle (p : Pipe) (x : Val) (hok : p.OK x) (cs : List Call) (lg : Log) :
    ∃ s lg1, (p.build x).run.run lg = (.ok s, lg1) ∧
      (runScript (Pipe.machine p) cs s lg1).1.map Obs.erase = specScript cs (p.denote x) ∧
      ∃ d', Represents (Pipe.machine p) (runScript (Pipe.machine p) cs s lg1).2.1 d'
          (specRest cs (p.denote x)) ∧ d' ++ specRest cs (p.denote x) = p.denote x := by
  obtain ⟨hwb, hneed⟩ := (Pipe.OK_iff p x).mp hok
  exact pipe_script_observes_list p x hwb FUEL hneed cs lg

/-- the hypotheses are satisfiable, and the statement is not empty: `Filter` over `Concat` over the
    zero value and a slice of ANY length `n`. -/
example (n : Nat) (x : Val) :
    (Pipe.filter (.concat .zero (.seq ((List.range n).map (fun (i : Nat) => Val.int i)))) (fun _ => pure true)).WB x ∧
    (Pipe.filter (.concat .zero (.seq ((List.range n).map (fun (i : Nat) => Val.int i)))) (fun _ => pure true)).need x = n := by
  refine ⟨⟨⟨trivial, trivial⟩, LL.Total.pure1 (total_pure (fun _ => true))⟩, ?_⟩
  show Max.max (Max.max 0 0) _ = n
  simp [Pipe.denote]

/-! ## hypotheses are satisfiable -/

example : Total (fun (x : Int) => (do emit s!"p:{x}"; pure (decide (x < 3)) : GoM Bool)) (fun x => decide (x < 3)) :=
  total_emit _ _

example : Represents (ofSeq none [1, 2, 3]) 0 [] [1, 2, 3] :=
  ⟨_, ofSeq_sim none [1, 2, 3], by simp [ofSeqRel]⟩

end FpVerif.Spec.C20
