import FpVerif.Gen.Facts
/-!
# C16 — regenerated facts: every deferred computation is wrapped in a `sync.Once`

`FpVerif/Gen/Facts.lean` is regenerated from /repo's source on every run by harness/cmd/factx.
These expectations are what ties the Once model of `Model/Memo.lean` to the code: `lazy.Call`,
`lazy.TailCall`, memoised list cells (`fp.MakeList`) route their thunk through a `Memoize`, and every
`Memoize` declares a `sync.Once` and runs the function inside `once.Do`.
-/
namespace FpVerif.Spec.C16
open FpVerif.Gen

def lookup (pkg recv name : String) : Option FuncFact :=
  funcs.find? (fun f => f.pkg == pkg && f.recv == recv && f.name == name)

def callsOf (pkg recv name : String) : List String :=
  match lookup pkg recv name with
  | some f => f.calls
  | none => []

theorem memoize_uses_once :
    (funcs.filter (fun f => f.name == "Memoize")).length = 3 ∧
    (funcs.filter (fun f => f.name == "Memoize")).all (fun f => f.usesOnce && f.calls.contains "once.Do" && f.calls.contains "f") = true := by
  decide

theorem call_is_memoised : (callsOf "lazy" "" "Call").contains "Memoize" = true := by decide

theorem tailCall_is_memoised :
    (callsOf "lazy" "" "TailCall").contains "Memoize" = true ∧ (callsOf "lazy" "" "TailCall").contains "mf" = true := by decide

theorem list_cells_memoised : (callsOf "fp" "" "MakeList").contains "Memoize" = true := by decide

end FpVerif.Spec.C16
