import FpVerif.Model.TryOpt
import FpVerif.Spec.C01Inst
/-!
# C02 — failure short-circuits left to right; panics are captured, never lost

Statements about *effects*: an equation between `GoM` computations says which user callbacks ran,
in which order; "the continuation is absent from the right-hand side" means it was not invoked.
-/
namespace FpVerif.Spec.C02
open FpVerif MonadFamily

variable {A B D R S L : Type}

/-- A computation that every `FlatMap` of the package passes through untouched, without invoking
    the continuation: `Failure(e)` (e not nil), `None`, `Left(l)`. -/
def Absorbing {C : Type → Type} (o : MonadOps C) {α : Type} (z : ∀ β : Type, C β) : Prop :=
  ∀ (β : Type) (k : α → C β), o.flatMap (z α) k = z β

theorem try_failure_absorbing (e : Err) (he : e ≠ .nil) :
    ∀ (α β : Type) (k : α → GoM (Try β)),
      (TryM.ops).flatMap (pure (.failure e)) k = pure (.failure e) := by
  intro α β k
  simp [TryM.ops, TryM.flatMap, he]

theorem option_none_absorbing :
    ∀ (α β : Type) (k : α → GoM (Option β)), (OptM.ops).flatMap (pure none) k = pure none := by
  intro α β k; simp [OptM.ops, OptM.flatMap]

theorem either_left_absorbing (l : L) :
    ∀ (α β : Type) (k : α → GoM (Either L β)),
      (EitM.ops L).flatMap (pure (.left l)) k = pure (.left l) := by
  intro α β k; simp [EitM.ops, EitM.flatMap]

theorem statet_failure_absorbing (e : Err) (he : e ≠ .nil) (st : StM.StT S A) (s ns : S)
    (h : st s = Pure.pure (.failure e, ns)) (k : A → StM.StT S B) :
    (StM.ops S).flatMap st k s = Pure.pure (.failure e, ns) := by
  simp [StM.ops, StM.flatMap, h, he]

/-- N-ary combinators (MapN/LiftAN/LiftMN/ZipN/FlatMapN, any N), generically: when the operand at
    position `pre.length` is absorbing, the result is what the operands before it leave followed by
    that failure itself; the operands after it and the final callback are absent (never run). -/
theorem bindAll_short_circuit {C : Type → Type} (o : MonadOps C)
    (z : ∀ β : Type, C β) (hz : ∀ (α β : Type) (k : α → C β), o.flatMap (z α) k = z β)
    (pre post : List (C A)) (k : List A → C R) :
    bindAll o (pre ++ z A :: post) k = bindAll o pre (fun _ => z R) := by
  induction pre generalizing k with
  | nil => simp [bindAll, hz]
  | cons m ms ih => simp [bindAll, ih]

theorem liftAList_short_circuit {C : Type → Type} (o : MonadOps C)
    (z : ∀ β : Type, C β) (hz : ∀ (α β : Type) (k : α → C β), o.flatMap (z α) k = z β)
    (pre post : List (C A)) (f : List A → GoM R) :
    liftAList o (pre ++ z A :: post) f = bindAll o pre (fun _ => z R) := by
  rw [Spec.C01.liftAList_def, bindAll_short_circuit o z hz]

theorem liftMList_short_circuit {C : Type → Type} (o : MonadOps C)
    (z : ∀ β : Type, C β) (hz : ∀ (α β : Type) (k : α → C β), o.flatMap (z α) k = z β)
    (pre post : List (C A)) (f : List A → C R) :
    liftMList o (pre ++ z A :: post) f = bindAll o pre (fun _ => z R) := by
  rw [Spec.C01.liftMList_def, bindAll_short_circuit o z hz]

/-- Try instance, all successes before the failing operand: the result is exactly that operand's
    failure with its own error value; nothing else happened. -/
theorem try_mapN_first_failure (e : Err) (he : e ≠ .nil) (oks : List A) (post : List (GoM (Try A)))
    (f : List A → GoM R) :
    liftAList TryM.ops (oks.map (fun a => pure (.success a)) ++ pure (.failure e) :: post) f
      = pure (.failure e) := by
  rw [liftAList_short_circuit TryM.ops (fun β => pure (.failure e)) (try_failure_absorbing e he)]
  induction oks with
  | nil => rfl
  | cons a as ih => simpa [bindAll, TryM.ops, TryM.flatMap] using ih

/-- ApFunc: when the function operand fails the supplier is never called. -/
theorem try_apFunc_failure (e : Err) (he : e ≠ .nil) (ta : Unit → GoM (Try A)) :
    apFunc TryM.ops (pure (.failure e) : GoM (Try (A → GoM B))) ta = pure (.failure e) := by
  simp [apFunc, TryM.ops, TryM.flatMap, he]

theorem option_apFunc_none (ta : Unit → GoM (Option A)) :
    apFunc OptM.ops (pure none : GoM (Option (A → GoM B))) ta = pure none := by
  simp [apFunc, OptM.ops, OptM.flatMap]

/-- … and when it succeeds the supplier is called exactly once, then the function. -/
theorem try_apFunc_success (g : A → GoM B) (ta : Unit → GoM (Try A)) :
    apFunc TryM.ops (pure (.success g)) ta = map TryM.ops (ta ()) g := by
  simp [apFunc, TryM.ops, TryM.flatMap]

-- FoldM / Traverse stop at the first failure ---------------------------------------------------------

theorem try_foldM_append (xs ys : List A) (z : B) (f : B → A → GoM (Try B)) :
    TryM.foldM (xs ++ ys) z f = (do
      match ← TryM.foldM xs z f with
      | .success s => TryM.foldM ys s f
      | .failure e => pure (.failure e)) := by
  induction xs generalizing z with
  | nil => simp [TryM.foldM]
  | cons x xs ih =>
    simp only [List.cons_append, TryM.foldM, bind_assoc]
    congr 1; funext t
    cases t with
    | success s => simp [ih]
    | failure e => simp

/-- The step on `a` fails: the elements after it are never visited (`ys` and their steps are absent). -/
theorem try_foldM_stops (xs ys : List A) (a : A) (z s : B) (e : Err) (f : B → A → GoM (Try B))
    (hxs : TryM.foldM xs z f = pure (.success s)) (ha : f s a = pure (.failure e)) :
    TryM.foldM (xs ++ a :: ys) z f = pure (.failure e) := by
  rw [try_foldM_append]
  simp [hxs, TryM.foldM, ha]

theorem option_foldM_stops (ys : List A) (a : A) (z : B) (f : B → A → GoM (Option B))
    (ha : f z a = pure none) : OptM.foldM (a :: ys) z f = pure none := by
  simp [OptM.foldM, ha]

theorem either_foldM_stops (ys : List A) (a : A) (z : B) (l : L) (f : B → A → GoM (Either L B))
    (ha : f z a = pure (.left l)) : EitM.foldM (a :: ys) z f = pure (.left l) := by
  simp [EitM.foldM, ha]

-- Recover* / OrElse* / Or* ------------------------------------------------------------------------------

/-- Successes pass through untouched; no handler runs. -/
theorem try_success_untouched (v : A) (f : Err → GoM A) (fw : Err → GoM (Try A)) (p : Err → GoM Bool)
    (g : Unit → GoM A) (gt : Unit → GoM (Try A)) (t : Try A) :
    TryM.recover (.success v) f = pure (.success v) ∧
    TryM.recoverWith (.success v) fw = pure (.success v) ∧
    TryM.recoverCase (.success v) p f = pure (.success v) ∧
    TryM.recoverCaseWith (.success v) p fw = pure (.success v) ∧
    TryM.or (.success v) gt = pure (.success v) ∧
    TryM.orTry (.success v) t = .success v ∧
    TryM.orElse (.success v) v = v ∧
    TryM.orElseGet (.success v) g = pure v := by
  simp [TryM.recover, TryM.recoverWith, TryM.recoverCase, TryM.recoverCaseWith, TryM.or, TryM.orTry,
    TryM.orElse, TryM.orElseGet]

/-- On failure the handler runs exactly once, with the failure's own error. -/
theorem try_failure_handled (e : Err) (he : e ≠ .nil) (f : Err → GoM A) (fw : Err → GoM (Try A))
    (g : Unit → GoM A) (gt : Unit → GoM (Try A)) (t : Try A) (d : A) :
    TryM.recover (.failure e) f = (do let a ← f e; pure (.success a)) ∧
    TryM.recoverWith (.failure e) fw = fw e ∧
    TryM.or (.failure e) gt = gt () ∧
    TryM.orTry (.failure e) t = t ∧
    TryM.orElse (.failure e) d = d ∧
    TryM.orElseGet (.failure e) g = g () := by
  simp [TryM.recover, TryM.recoverWith, TryM.or, TryM.orTry, TryM.orElse, TryM.orElseGet, he]

theorem try_recoverCase_failure (e : Err) (he : e ≠ .nil) (p : Err → GoM Bool) (f : Err → GoM A) :
    TryM.recoverCase (.failure e) p f
      = (do if ← p e then (do let a ← f e; pure (.success a)) else pure (.failure e)) := by
  simp [TryM.recoverCase, he]

theorem option_some_untouched (v : A) (g : Unit → GoM A) (go : Unit → GoM (Option A)) (o : Option A) :
    OptM.recover (some v) g = pure (some v) ∧ OptM.or (some v) go = pure (some v) ∧
    OptM.orOption (some v) o = some v ∧ OptM.orElseGet (some v) g = pure v := by
  simp [OptM.recover, OptM.or, OptM.orOption, OptM.orElseGet]

theorem option_none_handled (g : Unit → GoM A) (go : Unit → GoM (Option A)) (o : Option A) :
    OptM.recover none g = (do let t ← g (); pure (some t)) ∧ OptM.or none go = go () ∧
    OptM.orOption none o = o ∧ OptM.orElseGet none g = g () := by
  simp [OptM.recover, OptM.or, OptM.orOption, OptM.orElseGet]

-- try.Of / Call / CallUnit -------------------------------------------------------------------------------

/-- A normal return is never turned into a failure … (the log of `f` is kept: `act` stands for any
    prefix of effects) -/
theorem of_normal (act : GoM Unit) (v : A) :
    TryM.of (fun _ => do act; pure v) = (do
      tryCatch (do act; pure (.success v)) (fun p => pure (.failure (.panicErr p)))) := by
  simp [TryM.of]

theorem of_pure (v : A) : TryM.of (fun _ => pure v) = pure (.success v) := by
  simp [TryM.of, tryCatch, tryCatchThe, MonadExceptOf.tryCatch, ExceptT.tryCatch, ExceptT.mk, pure, ExceptT.pure]
  rfl

/-- … and a panic with value `p` becomes a Failure exposing `p`. -/
theorem of_panic (p : PanicVal) : TryM.of (fun _ => (throw p : GoM A)) = pure (.failure (.panicErr p)) := by
  simp [TryM.of, tryCatch, tryCatchThe, MonadExceptOf.tryCatch, ExceptT.tryCatch, ExceptT.mk, throw,
    throwThe, MonadExceptOf.throw, ExceptT.bind, ExceptT.bindCont, bind, pure, ExceptT.pure]
  rfl

/-- Full specification of `try.Of` for EVERY supplied function and every prior log `s`: `Of` itself
    never panics; the log is exactly `f`'s log; the result is `Success v` iff `f` returned `v`
    normally and `Failure(panicErr p)` iff `f` panicked with `p`. -/
theorem of_spec (f : Unit → GoM A) (s : List Event) :
    (TryM.of f).run.run s =
      (match (f ()).run.run s with
       | (.ok v, log) => (.ok (.success v), log)
       | (.error p, log) => (.ok (.failure (.panicErr p)), log)) := by
  simp only [TryM.of, tryCatch, tryCatchThe, MonadExceptOf.tryCatch, ExceptT.tryCatch, ExceptT.mk,
    ExceptT.run, bind, ExceptT.bind, ExceptT.bindCont, StateT.bind, StateT.run, pure, ExceptT.pure,
    StateT.pure]
  rcases h : (f ()) s with ⟨r, log⟩
  cases r <;> simp [h] <;> rfl

theorem callUnit_panic (p : PanicVal) : TryM.callUnit (fun _ => (throw p : GoM Err)) = pure (.failure (.panicErr p)) := by
  simp [TryM.callUnit, tryCatch, tryCatchThe, MonadExceptOf.tryCatch, ExceptT.tryCatch, ExceptT.mk, throw,
    throwThe, MonadExceptOf.throw, ExceptT.bind, ExceptT.bindCont, bind, pure, ExceptT.pure]
  rfl

end FpVerif.Spec.C02
