import FpVerif.Model.TryOpt
import FpVerif.Spec.C01Inst
/-!
# C02 — failure short-circuits left to right; panics are captured, never lost

Statements about *effects*: an equation between `GoM` computations says which user callbacks ran,
in which order; "the continuation is absent from the right-hand side" means it was not invoked.

Steps / fold functions are ARBITRARY computations (audit finding 14): next to each statement with an effect-free hypothesis
(`f z a = pure …`, `st s = pure …`) there is the hypothesis-free equation (`…_cons_eq`, `…_append`, `statet_flatMap_eq`,
`try_recover_eq`) and the general form `…_eff` in which the step returns its outcome after arbitrary effects
(`= act >>= fun _ => pure …`, `act : GoM X`); the effect-free statements are the instances `act := pure ()`.
Excluded branches (`e = .nil`): `recover_nil`, `statet_zero_panics_eff`, `C01.try_flatMap_zero`.
-/
namespace FpVerif.Spec.C02
open FpVerif MonadFamily

variable {A B D R S L : Type}

/-- A computation that every `FlatMap` of the package passes through untouched, without invoking
    the continuation: `Failure(e)` (e not nil), `None`, `Left(l)`. -/
def Absorbing {C : Type → Type} (o : MonadOps C) {α : Type} (z : ∀ β : Type, C β) : Prop :=
  ∀ (β : Type) (k : α → C β), o.flatMap (z α) k = z β

theorem try_failure_absorbing (e : Err) (he : e ≠ .nil) :
    ∀ (α β : Type) (k : α → GoM (Try β)),
      (TryM.ops).flatMap (pure (.failure e)) k = pure (.failure e) := by
  intro α β k
  simp [TryM.ops, TryM.flatMap, he]

theorem option_none_absorbing :
    ∀ (α β : Type) (k : α → GoM (Option β)), (OptM.ops).flatMap (pure none) k = pure none := by
  intro α β k; simp [OptM.ops, OptM.flatMap]

theorem either_left_absorbing (l : L) :
    ∀ (α β : Type) (k : α → GoM (Either L β)),
      (EitM.ops L).flatMap (pure (.left l)) k = pure (.left l) := by
  intro α β k; simp [EitM.ops, EitM.flatMap]

/-- HYPOTHESIS-FREE (audit finding 14): `statet.FlatMap` for EVERY step (logging, panicking, failing, zero value):
    the step runs first, once; a Failure comes back with its own error and the step's state, `k` absent. -/
theorem statet_flatMap_eq (st : StM.StT S A) (k : A → StM.StT S B) (s : S) :
    (StM.ops S).flatMap st k s = (st s >>= fun x =>
      match x.1 with
      | .success a => k a x.2
      | .failure .nil => throw "ErrNotInit"
      | .failure e => Pure.pure (.failure e, x.2)) := by
  simp only [StM.ops, StM.flatMap]
  congr 1
  funext ⟨r, ns⟩
  cases r with
  | success v => simp
  | failure e => cases e <;> simp [Try.failedGet]

/-- GENERAL form: the failing step may have effects `act` (a log, other callbacks; any `GoM` computation of any
    result type `X`) before it fails — they are kept, the continuation is absent. -/
theorem statet_failure_absorbing_eff {X : Type} (e : Err) (he : e ≠ .nil) (st : StM.StT S A) (s ns : S)
    (act : GoM X) (h : st s = act >>= fun _ => Pure.pure (.failure e, ns)) (k : A → StM.StT S B) :
    (StM.ops S).flatMap st k s = act >>= fun _ => Pure.pure (.failure e, ns) := by
  simp [StM.ops, StM.flatMap, h, he]

/-- the excluded branch (`e = .nil`): a step returning the zero-value Try — after any effects — makes `FlatMap`
    panic ("Try not initialized correctly", `Failed().Get()` in statet_op.go); `k` is absent here too -/
theorem statet_zero_panics_eff {X : Type} (st : StM.StT S A) (s ns : S) (act : GoM X)
    (h : st s = act >>= fun _ => Pure.pure (.failure .nil, ns)) (k : A → StM.StT S B) :
    (StM.ops S).flatMap st k s = act >>= fun _ => throw "ErrNotInit" := by
  simp [StM.ops, StM.flatMap, h]

/-- the effect-free instance of `statet_failure_absorbing_eff` -/
theorem statet_failure_absorbing (e : Err) (he : e ≠ .nil) (st : StM.StT S A) (s ns : S)
    (h : st s = Pure.pure (.failure e, ns)) (k : A → StM.StT S B) :
    (StM.ops S).flatMap st k s = Pure.pure (.failure e, ns) := by
  simpa using statet_failure_absorbing_eff e he st s ns (Pure.pure ()) (by simpa using h) k

/-- N-ary combinators (MapN/LiftAN/LiftMN/ZipN/FlatMapN, any N), generically: when the operand at
    position `pre.length` is absorbing, the result is what the operands before it leave followed by
    that failure itself; the operands after it and the final callback are absent (never run). -/
theorem bindAll_short_circuit {C : Type → Type} (o : MonadOps C)
    (z : ∀ β : Type, C β) (hz : ∀ (α β : Type) (k : α → C β), o.flatMap (z α) k = z β)
    (pre post : List (C A)) (k : List A → C R) :
    bindAll o (pre ++ z A :: post) k = bindAll o pre (fun _ => z R) := by
  induction pre generalizing k with
  | nil => simp [bindAll, hz]
  | cons m ms ih => simp [bindAll, ih]

theorem liftAList_short_circuit {C : Type → Type} (o : MonadOps C)
    (z : ∀ β : Type, C β) (hz : ∀ (α β : Type) (k : α → C β), o.flatMap (z α) k = z β)
    (pre post : List (C A)) (f : List A → GoM R) :
    liftAList o (pre ++ z A :: post) f = bindAll o pre (fun _ => z R) := by
  rw [Spec.C01.liftAList_def, bindAll_short_circuit o z hz]

theorem liftMList_short_circuit {C : Type → Type} (o : MonadOps C)
    (z : ∀ β : Type, C β) (hz : ∀ (α β : Type) (k : α → C β), o.flatMap (z α) k = z β)
    (pre post : List (C A)) (f : List A → C R) :
    liftMList o (pre ++ z A :: post) f = bindAll o pre (fun _ => z R) := by
  rw [Spec.C01.liftMList_def, bindAll_short_circuit o z hz]

/-- Try instance, all successes before the failing operand: the result is exactly that operand's
    failure with its own error value; nothing else happened. -/
theorem try_mapN_first_failure (e : Err) (he : e ≠ .nil) (oks : List A) (post : List (GoM (Try A)))
    (f : List A → GoM R) :
    liftAList TryM.ops (oks.map (fun a => pure (.success a)) ++ pure (.failure e) :: post) f
      = pure (.failure e) := by
  rw [liftAList_short_circuit TryM.ops (fun β => pure (.failure e)) (try_failure_absorbing e he)]
  induction oks with
  | nil => rfl
  | cons a as ih => simpa [bindAll, TryM.ops, TryM.flatMap] using ih

/-- ApFunc: when the function operand fails the supplier is never called. -/
theorem try_apFunc_failure (e : Err) (he : e ≠ .nil) (ta : Unit → GoM (Try A)) :
    apFunc TryM.ops (pure (.failure e) : GoM (Try (A → GoM B))) ta = pure (.failure e) := by
  simp [apFunc, TryM.ops, TryM.flatMap, he]

theorem option_apFunc_none (ta : Unit → GoM (Option A)) :
    apFunc OptM.ops (pure none : GoM (Option (A → GoM B))) ta = pure none := by
  simp [apFunc, OptM.ops, OptM.flatMap]

/-- … and when it succeeds the supplier is called exactly once, then the function. -/
theorem try_apFunc_success (g : A → GoM B) (ta : Unit → GoM (Try A)) :
    apFunc TryM.ops (pure (.success g)) ta = map TryM.ops (ta ()) g := by
  simp [apFunc, TryM.ops, TryM.flatMap]

-- FoldM / Traverse stop at the first failure ---------------------------------------------------------

theorem try_foldM_append (xs ys : List A) (z : B) (f : B → A → GoM (Try B)) :
    TryM.foldM (xs ++ ys) z f = (do
      match ← TryM.foldM xs z f with
      | .success s => TryM.foldM ys s f
      | .failure e => pure (.failure e)) := by
  induction xs generalizing z with
  | nil => simp [TryM.foldM]
  | cons x xs ih =>
    simp only [List.cons_append, TryM.foldM, bind_assoc]
    congr 1; funext t
    cases t with
    | success s => simp [ih]
    | failure e => simp

/-- HYPOTHESIS-FREE (audit finding 14) — the loops, for EVERY step function (it may log, panic, return anything):
    the step on the head runs first, once, with all its effects; on a failure / `None` / `Left` the loop returns that
    very value and the tail `xs` — hence every later step — is ABSENT from that branch. -/
theorem try_foldM_cons_eq (x : A) (xs : List A) (z : B) (f : B → A → GoM (Try B)) :
    TryM.foldM (x :: xs) z f = (f z x >>= fun t =>
      match t with
      | .success s => TryM.foldM xs s f
      | .failure e => pure (.failure e)) :=
  Spec.C01.try_foldM_cons_eq x xs z f

theorem option_foldM_cons_eq (x : A) (xs : List A) (z : B) (f : B → A → GoM (Option B)) :
    OptM.foldM (x :: xs) z f = (f z x >>= fun t =>
      match t with
      | some s => OptM.foldM xs s f
      | none => pure none) := by
  simp only [OptM.foldM]
  congr 1

theorem either_foldM_cons_eq (x : A) (xs : List A) (z : B) (f : B → A → GoM (Either L B)) :
    EitM.foldM (x :: xs) z f = (f z x >>= fun t =>
      match t with
      | .right s => EitM.foldM xs s f
      | .left l => pure (.left l)) := by
  simp only [EitM.foldM]
  congr 1
  funext t
  cases t <;> rfl

/-- GENERAL form: the steps before `a` (together: `act1`) and the failing step on `a` (`act2`) may log / run other
    callbacks before they return; all those effects happen, in that order, exactly once — then the failure; the
    elements after `a` are never visited.  (Any `e`, also `.nil`: the loop does not inspect the error.) -/
theorem try_foldM_stops_eff {X Y : Type} (xs ys : List A) (a : A) (z s : B) (e : Err) (f : B → A → GoM (Try B))
    (act1 : GoM X) (act2 : GoM Y)
    (hxs : TryM.foldM xs z f = act1 >>= fun _ => pure (.success s))
    (ha : f s a = act2 >>= fun _ => pure (.failure e)) :
    TryM.foldM (xs ++ a :: ys) z f = act1 >>= fun _ => act2 >>= fun _ => pure (.failure e) := by
  rw [try_foldM_append]
  simp [hxs, TryM.foldM, ha]

/-- The step on `a` fails: the elements after it are never visited (`ys` and their steps are absent).
    (The effect-free instance of `try_foldM_stops_eff`.) -/
theorem try_foldM_stops (xs ys : List A) (a : A) (z s : B) (e : Err) (f : B → A → GoM (Try B))
    (hxs : TryM.foldM xs z f = pure (.success s)) (ha : f s a = pure (.failure e)) :
    TryM.foldM (xs ++ a :: ys) z f = pure (.failure e) := by
  simpa using try_foldM_stops_eff xs ys a z s e f (pure ()) (pure ()) (by simpa using hxs) (by simpa using ha)

theorem option_foldM_stops_eff {X : Type} (ys : List A) (a : A) (z : B) (f : B → A → GoM (Option B))
    (act : GoM X) (ha : f z a = act >>= fun _ => pure none) :
    OptM.foldM (a :: ys) z f = act >>= fun _ => pure none := by
  simp [OptM.foldM, ha]

theorem option_foldM_stops (ys : List A) (a : A) (z : B) (f : B → A → GoM (Option B))
    (ha : f z a = pure none) : OptM.foldM (a :: ys) z f = pure none := by
  simpa using option_foldM_stops_eff ys a z f (pure ()) (by simpa using ha)

theorem either_foldM_stops_eff {X : Type} (ys : List A) (a : A) (z : B) (l : L) (f : B → A → GoM (Either L B))
    (act : GoM X) (ha : f z a = act >>= fun _ => pure (.left l)) :
    EitM.foldM (a :: ys) z f = act >>= fun _ => pure (.left l) := by
  simp [EitM.foldM, ha]

theorem either_foldM_stops (ys : List A) (a : A) (z : B) (l : L) (f : B → A → GoM (Either L B))
    (ha : f z a = pure (.left l)) : EitM.foldM (a :: ys) z f = pure (.left l) := by
  simpa using either_foldM_stops_eff ys a z l f (pure ()) (by simpa using ha)

/-- after a prefix: Option / Either loops over `xs ++ a :: ys`, general form as for Try -/
theorem option_foldM_append (xs ys : List A) (z : B) (f : B → A → GoM (Option B)) :
    OptM.foldM (xs ++ ys) z f = (do
      match ← OptM.foldM xs z f with
      | some s => OptM.foldM ys s f
      | none => pure none) := by
  induction xs generalizing z with
  | nil => simp [OptM.foldM]
  | cons x xs ih =>
    simp only [List.cons_append, OptM.foldM, bind_assoc]
    congr 1; funext t
    cases t with
    | some s => simp [ih]
    | none => simp

theorem either_foldM_append (xs ys : List A) (z : B) (f : B → A → GoM (Either L B)) :
    EitM.foldM (xs ++ ys) z f = (do
      match ← EitM.foldM xs z f with
      | .right s => EitM.foldM ys s f
      | .left l => pure (.left l)) := by
  induction xs generalizing z with
  | nil => simp [EitM.foldM]
  | cons x xs ih =>
    simp only [List.cons_append, EitM.foldM, bind_assoc]
    congr 1; funext t
    cases t with
    | right s => simp [ih]
    | left l => simp

-- Recover* / OrElse* / Or* ------------------------------------------------------------------------------

/-- Successes pass through untouched; no handler runs — `OrElse` with a FRESH default `d` (audit finding 20: the
    statement below used `v` itself as the default, so a mutant `OrElse` returning its argument would satisfy it). -/
theorem try_success_untouched_fresh (v d : A) (f : Err → GoM A) (fw : Err → GoM (Try A)) (p : Err → GoM Bool)
    (g : Unit → GoM A) (gt : Unit → GoM (Try A)) (t : Try A) :
    TryM.recover (.success v) f = pure (.success v) ∧
    TryM.recoverWith (.success v) fw = pure (.success v) ∧
    TryM.recoverCase (.success v) p f = pure (.success v) ∧
    TryM.recoverCaseWith (.success v) p fw = pure (.success v) ∧
    TryM.or (.success v) gt = pure (.success v) ∧
    TryM.orTry (.success v) t = .success v ∧
    TryM.orElse (.success v) d = v ∧
    TryM.orElseGet (.success v) g = pure v := by
  simp [TryM.recover, TryM.recoverWith, TryM.recoverCase, TryM.recoverCaseWith, TryM.or, TryM.orTry,
    TryM.orElse, TryM.orElseGet]

/-- Successes pass through untouched; no handler runs.  (`try_success_untouched_fresh` at `d := v`.) -/
theorem try_success_untouched (v : A) (f : Err → GoM A) (fw : Err → GoM (Try A)) (p : Err → GoM Bool)
    (g : Unit → GoM A) (gt : Unit → GoM (Try A)) (t : Try A) :
    TryM.recover (.success v) f = pure (.success v) ∧
    TryM.recoverWith (.success v) fw = pure (.success v) ∧
    TryM.recoverCase (.success v) p f = pure (.success v) ∧
    TryM.recoverCaseWith (.success v) p fw = pure (.success v) ∧
    TryM.or (.success v) gt = pure (.success v) ∧
    TryM.orTry (.success v) t = .success v ∧
    TryM.orElse (.success v) v = v ∧
    TryM.orElseGet (.success v) g = pure v :=
  try_success_untouched_fresh v v f fw p g gt t

/-- On failure the handler runs exactly once, with the failure's own error. -/
theorem try_failure_handled (e : Err) (he : e ≠ .nil) (f : Err → GoM A) (fw : Err → GoM (Try A))
    (g : Unit → GoM A) (gt : Unit → GoM (Try A)) (t : Try A) (d : A) :
    TryM.recover (.failure e) f = (do let a ← f e; pure (.success a)) ∧
    TryM.recoverWith (.failure e) fw = fw e ∧
    TryM.or (.failure e) gt = gt () ∧
    TryM.orTry (.failure e) t = t ∧
    TryM.orElse (.failure e) d = d ∧
    TryM.orElseGet (.failure e) g = g () := by
  simp [TryM.recover, TryM.recoverWith, TryM.or, TryM.orTry, TryM.orElse, TryM.orElseGet, he]

theorem try_recoverCase_failure (e : Err) (he : e ≠ .nil) (p : Err → GoM Bool) (f : Err → GoM A) :
    TryM.recoverCase (.failure e) p f
      = (do if ← p e then (do let a ← f e; pure (.success a)) else pure (.failure e)) := by
  simp [TryM.recoverCase, he]

theorem try_recoverCaseWith_failure (e : Err) (he : e ≠ .nil) (p : Err → GoM Bool) (fw : Err → GoM (Try A)) :
    TryM.recoverCaseWith (.failure e) p fw
      = (do if ← p e then fw e else pure (.failure e)) := by
  simp [TryM.recoverCaseWith, he]

/-- THE EXCLUDED BRANCH of `try_failure_handled` / `try_recoverCase_failure` (`e = .nil`; audit finding 20; the
    `recover_nil` DESIGN.md cites): on the zero-value Try (`fp.Try[T]{}`, `try.Failure(nil)`) every Recover* /
    RecoverCase* method PANICS with "Try not initialized correctly" and runs neither the handler nor `isDefinedAt`:
    the code is `f(r.Failed().Get())` (try.go:126,135,147,158), `Failed()` on `err == nil` is
    `Failure(Error(406, "Try not initialized correctly"))` (try.go:85-87) and `Get` on a Failure panics (try.go:43). -/
theorem recover_nil (f : Err → GoM A) (fw : Err → GoM (Try A)) (p : Err → GoM Bool) :
    TryM.recover (.failure .nil) f = throw "ErrNotInit" ∧
    TryM.recoverWith (.failure .nil) fw = throw "ErrNotInit" ∧
    TryM.recoverCase (.failure .nil) p f = throw "ErrNotInit" ∧
    TryM.recoverCaseWith (.failure .nil) p fw = throw "ErrNotInit" := by
  simp [TryM.recover, TryM.recoverWith, TryM.recoverCase, TryM.recoverCaseWith]

/-- … whereas the Or* / OrElse* methods only test `IsSuccess()` (try.go:90-120) and never look at the error: on
    EVERY Failure, the zero value included (no `e ≠ .nil`), the alternative is taken, exactly once. -/
theorem try_failure_or_any (e : Err) (g : Unit → GoM A) (gt : Unit → GoM (Try A)) (t : Try A) (d : A) :
    TryM.or (.failure e) gt = gt () ∧
    TryM.orTry (.failure e) t = t ∧
    TryM.orElse (.failure e) d = d ∧
    TryM.orElseGet (.failure e) g = g () := by
  simp [TryM.or, TryM.orTry, TryM.orElse, TryM.orElseGet]

/-- All four Recover* on EVERY Try value at once (no hypothesis): the three cases side by side. -/
theorem try_recover_eq (r : Try A) (f : Err → GoM A) (fw : Err → GoM (Try A)) :
    TryM.recover r f = (match r with
      | .success v => pure (.success v)
      | .failure .nil => throw "ErrNotInit"
      | .failure e => do let a ← f e; pure (.success a)) ∧
    TryM.recoverWith r fw = (match r with
      | .success v => pure (.success v)
      | .failure .nil => throw "ErrNotInit"
      | .failure e => fw e) := by
  cases r with
  | success v => simp [TryM.recover, TryM.recoverWith]
  | failure e => cases e <;> simp [TryM.recover, TryM.recoverWith, Try.failedGet]

-- Either: Recover / OrElse / OrElseGet (audit finding 20) ---------------------------------------------------

/-- A `Right` passes through `Recover` / `OrElse` / `OrElseGet` untouched: the supplier is ABSENT (never called),
    the default `d` — any value, unrelated to `v` — is ignored.  (either.go:73 `right.Recover` returns `r`;
    either_op.go:69-81.) -/
theorem either_right_untouched (v d : A) (g : Unit → GoM A) :
    EitM.recover (.right v : Either L A) g = pure (.right v) ∧
    EitM.orElse (.right v : Either L A) d = v ∧
    EitM.orElseGet (.right v : Either L A) g = pure v := by
  simp [EitM.recover, EitM.orElse, EitM.orElseGet]

/-- On a `Left` the supplier runs exactly once (all its effects, a panic propagates) and its result is the value:
    `Recover` wraps it in `Right` (either.go:47), `OrElse` returns the default, `OrElseGet` the supplier's value.
    The left value `l` is dropped by all three (the supplier takes no argument). -/
theorem either_left_handled (l : L) (d : A) (g : Unit → GoM A) :
    EitM.recover (.left l : Either L A) g = (do let r ← g (); pure (.right r)) ∧
    EitM.orElse (.left l : Either L A) d = d ∧
    EitM.orElseGet (.left l : Either L A) g = g () := by
  simp [EitM.recover, EitM.orElse, EitM.orElseGet]

/-- consequences (hypothesis-free, every supplier): whenever `Recover` returns, it returns a `Right`; and `Recover`
    after `Recover` does not call the second supplier -/
theorem either_recover_isRight (e : Either L A) (g : Unit → GoM A) :
    (EitM.recover e g >>= fun e' => pure (match e' with | .right _ => true | .left _ => false))
      = (EitM.recover e g >>= fun _ => pure true) := by
  cases e <;> simp [EitM.recover]

theorem either_recover_recover (e : Either L A) (g g' : Unit → GoM A) :
    (EitM.recover e g >>= fun e' => EitM.recover e' g') = EitM.recover e g := by
  cases e <;> simp [EitM.recover]

/-- `OrElseGet` is `Recover` followed by `Get` (which then cannot panic); `OrElse d` is `OrElseGet` of a constant -/
theorem either_orElseGet_eq (e : Either L A) (g : Unit → GoM A) (d : A) :
    EitM.orElseGet e g = (EitM.recover e g >>= EitM.get) ∧
    EitM.orElseGet e (fun _ => pure d) = pure (EitM.orElse e d) := by
  cases e <;> simp [EitM.recover, EitM.orElse, EitM.orElseGet, EitM.get]

theorem option_some_untouched (v : A) (g : Unit → GoM A) (go : Unit → GoM (Option A)) (o : Option A) :
    OptM.recover (some v) g = pure (some v) ∧ OptM.or (some v) go = pure (some v) ∧
    OptM.orOption (some v) o = some v ∧ OptM.orElseGet (some v) g = pure v := by
  simp [OptM.recover, OptM.or, OptM.orOption, OptM.orElseGet]

theorem option_none_handled (g : Unit → GoM A) (go : Unit → GoM (Option A)) (o : Option A) :
    OptM.recover none g = (do let t ← g (); pure (some t)) ∧ OptM.or none go = go () ∧
    OptM.orOption none o = o ∧ OptM.orElseGet none g = g () := by
  simp [OptM.recover, OptM.or, OptM.orOption, OptM.orElseGet]

-- try.Of / Call / CallUnit -------------------------------------------------------------------------------

/-- A normal return is never turned into a failure … (the log of `f` is kept: `act` stands for any
    prefix of effects) -/
theorem of_normal (act : GoM Unit) (v : A) :
    TryM.of (fun _ => do act; pure v) = (do
      tryCatch (do act; pure (.success v)) (fun p => pure (.failure (.panicErr p)))) := by
  simp [TryM.of]

theorem of_pure (v : A) : TryM.of (fun _ => pure v) = pure (.success v) := by
  simp [TryM.of, tryCatch, tryCatchThe, MonadExceptOf.tryCatch, ExceptT.tryCatch, ExceptT.mk, pure, ExceptT.pure]
  rfl

/-- … and a panic with value `p` becomes a Failure exposing `p`. -/
theorem of_panic (p : PanicVal) : TryM.of (fun _ => (throw p : GoM A)) = pure (.failure (.panicErr p)) := by
  simp [TryM.of, tryCatch, tryCatchThe, MonadExceptOf.tryCatch, ExceptT.tryCatch, ExceptT.mk, throw,
    throwThe, MonadExceptOf.throw, ExceptT.bind, ExceptT.bindCont, bind, pure, ExceptT.pure]
  rfl

/-- Full specification of `try.Of` for EVERY supplied function and every prior log `s`: `Of` itself
    never panics; the log is exactly `f`'s log; the result is `Success v` iff `f` returned `v`
    normally and `Failure(panicErr p)` iff `f` panicked with `p`. -/
theorem of_spec (f : Unit → GoM A) (s : List Event) :
    (TryM.of f).run.run s =
      (match (f ()).run.run s with
       | (.ok v, log) => (.ok (.success v), log)
       | (.error p, log) => (.ok (.failure (.panicErr p)), log)) := by
  simp only [TryM.of, tryCatch, tryCatchThe, MonadExceptOf.tryCatch, ExceptT.tryCatch, ExceptT.mk,
    ExceptT.run, bind, ExceptT.bind, ExceptT.bindCont, StateT.bind, StateT.run, pure, ExceptT.pure,
    StateT.pure]
  rcases h : (f ()) s with ⟨r, log⟩
  cases r <;> simp [h] <;> rfl

theorem callUnit_panic (p : PanicVal) : TryM.callUnit (fun _ => (throw p : GoM Err)) = pure (.failure (.panicErr p)) := by
  simp [TryM.callUnit, tryCatch, tryCatchThe, MonadExceptOf.tryCatch, ExceptT.tryCatch, ExceptT.mk, throw,
    throwThe, MonadExceptOf.throw, ExceptT.bind, ExceptT.bindCont, bind, pure, ExceptT.pure]
  rfl

-- non-vacuity of the GENERAL (`_eff`) forms ----------------------------------------------------------------------
def logTag : Nat → String
  | 1 => "visit1"
  | 2 => "visit2"
  | _ => "visitN"
/-- a fold step that LOGS every element and fails on 2 -/
def logStep : Nat → Nat → GoM (Try Nat) := fun acc x => do
  emit (logTag x)
  if x = 2 then pure (.failure (.code 7)) else pure (.success (acc + x))

example : TryM.foldM [1] 0 logStep = (emit "visit1" >>= fun _ => pure (.success 1)) := by
  simp [TryM.foldM, logStep, logTag]
example : logStep 1 2 = (emit "visit2" >>= fun _ => pure (.failure (.code 7))) := by simp [logStep, logTag]
/-- the effect-free hypothesis of `try_foldM_stops` is NOT met by this step … -/
example : logStep 1 2 ≠ pure (.failure (.code 7)) := by
  intro h
  have := congrArg (fun m => (GoM.exec m).2) h
  revert this
  decide
/-- … the general form applies: 3 and 4 are never visited, "visit1", "visit2" are logged once, in order -/
example : TryM.foldM ([1] ++ 2 :: [3, 4]) 0 logStep
    = (emit "visit1" >>= fun _ => emit "visit2" >>= fun _ => pure (.failure (.code 7))) :=
  try_foldM_stops_eff [1] [3, 4] 2 0 1 (.code 7) logStep (emit "visit1") (emit "visit2")
    (by simp [TryM.foldM, logStep, logTag]) (by simp [logStep, logTag])
example : (GoM.exec (TryM.foldM [1, 2, 3, 4] 0 logStep)).2 = ["visit1", "visit2"] := by decide

end FpVerif.Spec.C02
