import FpVerif.Lemmas.ListLoops
import FpVerif.Lemmas.ListGen
/-!
# C12 (lazy `fp.List` part) — memoised cells are evaluated at most once; the cursor loops of
# package `list` compute the list folds and stop forcing at the first failure

The model (`Model/LazyList.lean`) keeps the `sync.Once` cells of every `ListAdaptor` in a heap and
runs the closures of `list.Map`, `FlatMap`, `Combine`, `Zip`, `Scan`, `GenerateFrom`, `Collect`, …
statement by statement; the oracle executes exactly these definitions.

* `memo_*`: forcing a cell that is done returns the stored value and runs nothing — no callback,
  no heap change; forcing a pending cell stores its value.
* `started_at_most_once`: from the empty heap, whatever expression is built and whatever sequence
  of operations is executed, every cell's closure has been started at most once (the counter that
  `forceH`/`forceT`/`forceL` increment when they start a closure never exceeds 1).
* `list_*_eq`: the loops of `list.Fold`, `FoldTry`, `FoldOption`, `FoldError`, `FoldRight`/`Reduce`,
  `ToSeq` — modelled literally with their cursor — terminate on every finite list and equal the
  list computation, for every list representation that satisfies the `fp.List` interface contract
  `LSim` (instance proved here: `Nil`/`Cons`/`Seq`); `FoldTry`/`FoldOption`/`FoldError` stop with
  the cursor on the failing element: its tail is never forced.

For the memoised representations (`ListAdaptor` cells in the heap) the contract is proved for
`GenerateFrom` / `Generate` / `Range` / `RangeClosed` (`generate_lists_satisfy_contract`,
`range_eval_denote`, with the frame lemmas about heap growth this needs).
PARTIAL (stated, not proved) for the other closures (`Map`, `FlatMap`, `Combine`, `Zip`, `Scan`,
`Collect`), i.e.

    theorem eval_denote (e : LExpr) (x : Val) (pure callbacks) :
      ∃ fuel hp l, eval fuel e x {} lg = (.ok l, hp, _) ∧ ∃ k R, LSim k R ∧ R hp l (e.denote x)

needs a heap-monotonicity (frame) argument over all closure kinds that is not done; it is
validated instead on every correspondence run: the oracle compares the heap semantics' `ToSeq`
with `LExpr.denote` (and the Go implementation with both) and would print `model-divergence`.
`eval_denote_plain` below is the part that needs no heap.
-/
namespace FpVerif.Spec.C12List
open FpVerif FpVerif.It FpVerif.LL

/-! ## memoisation -/

/-- `getHead` of a cell that is done: the stored value, nothing is run, nothing changes. -/
theorem memo_head_not_rerun (fuel c : Nat) (hp : Heap) (lg : Log) (v : Option Val) (n : Nat)
    (h : hp.hs[c]? = some (.done v, n)) : forceH (fuel + 1) c hp lg = (.ok v, hp, lg) :=
  forceH_done fuel c hp lg v n h

theorem memo_tail_not_rerun (fuel c : Nat) (hp : Heap) (lg : Log) (v : LV) (n : Nat)
    (h : hp.ts[c]? = some (.done v, n)) : forceT (fuel + 1) c hp lg = (.ok v, hp, lg) :=
  forceT_done fuel c hp lg v n h

theorem memo_lazy_not_rerun (fuel c : Nat) (hp : Heap) (lg : Log) (v : LV) (n : Nat)
    (h : hp.ls[c]? = some (.done v, n)) : forceL (fuel + 1) c hp lg = (.ok v, hp, lg) :=
  forceL_done fuel c hp lg v n h

/-- after a successful `getHead` the cell is done and holds the returned value — so by
    `memo_head_not_rerun` every later `IsEmpty`/`Head` on it is free. -/
theorem memo_head_stored (fuel c : Nat) (hp hp' : Heap) (lg lg' : Log) (v : Option Val)
    (h : forceH (fuel + 1) c hp lg = (.ok v, hp', lg')) (hc : c < hp'.hs.size) :
    ∃ n, hp'.hs[c]? = some (.done v, n) :=
  forceH_stores fuel c hp hp' lg lg' v h hc

/-- One operation of the interface or one library call, on any list value / expression. -/
inductive Op where
  | isEmpty (l : LV) | head (l : LV) | tail (l : LV) | headOpt (l : LV)
  | eval (e : LExpr) (x : Val)
  | toSeq (l : LV)
  | fold (f : Val → Val → GoM Val) (l : LV) (z : Val)

def Op.run (fuel : Nat) : Op → Heap → Log → Heap × Log
  | .isEmpty l, hp, lg => let r := LL.isEmpty fuel l hp lg; (r.2.1, r.2.2)
  | .head l, hp, lg => let r := LL.head fuel l hp lg; (r.2.1, r.2.2)
  | .tail l, hp, lg => let r := LL.tail fuel l hp lg; (r.2.1, r.2.2)
  | .headOpt l, hp, lg => let r := LL.headOpt fuel l hp lg; (r.2.1, r.2.2)
  | .eval e x, hp, lg => let r := LL.eval fuel e x hp lg; (r.2.1, r.2.2)
  | .toSeq l, hp, lg => let r := LL.toSeq fuel l [] hp lg; (r.2.1, r.2.2)
  | .fold f l z, hp, lg => let r := LL.fold f fuel l z hp lg; (r.2.1, r.2.2)

def runOps (fuel : Nat) : List Op → Heap → Log → Heap × Log
  | [], hp, lg => (hp, lg)
  | op :: ops, hp, lg => let r := op.run fuel hp lg; runOps fuel ops r.1 r.2

/-- Each cell is evaluated at most once: starting from the empty heap, after ANY sequence of
    library calls and interface operations (on any list values, with any callbacks — also ones
    that panic — and any fuel), no cell's closure has been started more than once. -/
theorem started_at_most_once (fuel : Nat) (ops : List Op) (lg : Log) :
    (runOps fuel ops {} lg).1.maxEvals ≤ 1 := by
  apply WF.maxEvals_le
  have key : ∀ (ops : List Op) (hp : Heap) (lg : Log), hp.WF → (runOps fuel ops hp lg).1.WF := by
    intro ops
    induction ops with
    | nil => intro hp lg wf; exact wf
    | cons op ops ih =>
      intro hp lg wf
      simp only [runOps]
      apply ih
      have hA := presAll fuel
      cases op with
      | isEmpty l => exact hA.isEmpty l hp lg wf
      | head l => exact hA.head l hp lg wf
      | tail l => exact hA.tail l hp lg wf
      | headOpt l => exact hA.headOpt l hp lg wf
      | eval e x => exact hA.eval e x hp lg wf
      | toSeq l => exact pres_toSeq fuel l [] hp lg wf
      | fold f l z => exact pres_fold f fuel l z hp lg wf
  exact key ops {} lg Heap.WF.empty

/-! ## the loops of package `list` -/

variable {k : Nat} {R : Heap → LV → List Val → Prop}

theorem list_toSeq_eq (hS : LSim k R) (hp : Heap) (l : LV) (xs : List Val) (h : R hp l xs)
    (fuel : Nat) (hfuel : k + xs.length < fuel) (lg : Log) :
    ∃ hp' lg', LL.toSeq fuel l [] hp lg = (.ok xs, hp', lg') := by
  simpa using toSeq_lspec hS xs fuel hp l [] lg hfuel h

theorem list_fold_eq (f : Val → Val → GoM Val) (g : Val → Val → Val) (hf : Total2 f g)
    (hS : LSim k R) (hp : Heap) (l : LV) (xs : List Val) (h : R hp l xs) (z : Val)
    (fuel : Nat) (hfuel : k + xs.length < fuel) (lg : Log) :
    ∃ hp' lg', LL.fold f fuel l z hp lg = (.ok (xs.foldl g z), hp', lg') :=
  fold_lspec hf hS xs fuel hp l z lg hfuel h

/-- `list.FoldTry` terminates, equals the reference fold, and on a failure the cursor rests on the
    failing element `a`: what follows it has not been forced. -/
theorem list_foldTry_eq (f : Val → Val → GoM (Try Val)) (g : Val → Val → Try Val) (hf : Total2 f g)
    (hS : LSim k R) (hp : Heap) (l : LV) (xs : List Val) (h : R hp l xs) (z : Val)
    (fuel : Nat) (hfuel : k + xs.length < fuel) (lg : Log) :
    ∃ hp' lg', LL.foldTry f fuel l z hp lg = (.ok (foldTryL g z xs).1, hp', lg') ∧
      ((foldTryL g z xs).1.isSuccess = false → ∃ l' a, R hp' l' (a :: (foldTryL g z xs).2)) :=
  foldTry_lspec hf hS xs fuel hp l z lg hfuel h

/-- `list.FoldOption` as the property demands it (the cursor advances): terminates on every finite
    list and equals the reference fold.  The Go loop does not advance the cursor (defect D4). -/
theorem list_foldOption_eq (f : Val → Val → GoM (Option Val)) (g : Val → Val → Option Val) (hf : Total2 f g)
    (hS : LSim k R) (hp : Heap) (l : LV) (xs : List Val) (h : R hp l xs) (z : Val)
    (fuel : Nat) (hfuel : k + xs.length < fuel) (lg : Log) :
    ∃ hp' lg', LL.foldOption f fuel l z hp lg = (.ok (foldOptionL g z xs).1, hp', lg') ∧
      ((foldOptionL g z xs).1 = none → ∃ l' a, R hp' l' (a :: (foldOptionL g z xs).2)) :=
  foldOption_lspec hf hS xs fuel hp l z lg hfuel h

theorem list_foldError_eq (f : Val → GoM (Option Err)) (g : Val → Option Err) (hf : Total f g)
    (hS : LSim k R) (hp : Heap) (l : LV) (xs : List Val) (h : R hp l xs)
    (fuel : Nat) (hfuel : k + xs.length < fuel) (lg : Log) :
    ∃ hp' lg', LL.foldError f fuel l hp lg = (.ok (foldErrorL g xs).1, hp', lg') ∧
      ((foldErrorL g xs).1.isSome = true → ∃ l' a, R hp' l' (a :: (foldErrorL g xs).2)) :=
  foldError_lspec hf hS xs fuel hp l lg hfuel h

/-- `list.FoldRight` with a forcing step, and `list.Reduce`, are the right fold. -/
theorem list_foldRight_eq (f : Val → Val → GoM Val) (g : Val → Val → Val) (hf : Total2 f g)
    (hS : LSim k R) (hp : Heap) (l : LV) (xs : List Val) (h : R hp l xs) (zero : Val)
    (fuel : Nat) (hfuel : k + xs.length < fuel) (lg : Log) :
    ∃ hp' lg', LL.foldRight zero (fun a th => do let b ← th; IM.liftG (f a b)) fuel l hp lg =
      (.ok (xs.foldr g zero), hp', lg') :=
  foldRight_lspec hf hS zero xs fuel hp l lg hfuel h

theorem list_reduce_eq (combine : Val → Val → GoM Val) (g : Val → Val → Val) (hf : Total2 combine g)
    (hS : LSim k R) (hp : Heap) (l : LV) (xs : List Val) (h : R hp l xs) (empty : Val)
    (fuel : Nat) (hfuel : k + xs.length < fuel) (lg : Log) :
    ∃ hp' lg', LL.reduce empty combine fuel l hp lg = (.ok (xs.foldr g empty), hp', lg') :=
  foldRight_lspec hf hS empty xs fuel hp l lg hfuel h

/-! ## the interface contract holds for the heap-free representations -/

/-- `Nil`, `Cons` and `Seq` satisfy the contract (so the theorems above are not vacuous). -/
theorem plain_lists_satisfy_contract : LSim 1 (fun _ l xs => plainDen l = some xs) := plain_lsim

example : plainDen (.cons (.int 1) (.seq [.int 2, .int 3])) = some [.int 1, .int 2, .int 3] := rfl

/-- the part of `eval e = denote e` that needs no heap: expressions built from `Empty`, `Of`,
    `Apply`, `FromOption` evaluate (with fuel beyond their depth) to a value denoting
    `LExpr.denote`, leaving the heap untouched. -/
theorem eval_denote_plain_partial (x : Val) (hp : Heap) (lg : Log) :
    (∀ fuel, LL.eval (fuel + 1) .empty x hp lg = (.ok .nil, hp, lg)) ∧
    (∀ fuel xs, ∃ l, LL.eval (fuel + 1) (.of xs) x hp lg = (.ok l, hp, lg) ∧
      plainDen l = some ((LExpr.of xs).denote x)) ∧
    (∀ fuel o, ∃ l, LL.eval (fuel + 1) (.fromOption o) x hp lg = (.ok l, hp, lg) ∧
      plainDen l = some ((LExpr.fromOption o).denote x)) ∧
    (∀ fuel h xs, ∃ l, LL.eval (fuel + 2) (.apply h (.of xs)) x hp lg = (.ok l, hp, lg) ∧
      plainDen l = some ((LExpr.apply h (.of xs)).denote x)) := by
  refine ⟨fun fuel => ?_, fun fuel xs => ⟨.seq xs, ?_, rfl⟩, fun fuel o => ?_, fun fuel h xs => ⟨.cons h (.seq xs), ?_, rfl⟩⟩
  · rw [LL.eval.eq_def]; rfl
  · rw [LL.eval.eq_def]; rfl
  · cases o with
    | none => exact ⟨.nil, by rw [LL.eval.eq_def]; rfl, rfl⟩
    | some v => exact ⟨.seq [v], by rw [LL.eval.eq_def]; rfl, rfl⟩
  · rw [LL.eval.eq_def]
    simp only [bind_apply]
    rw [LL.eval.eq_def]
    rfl

/-! ## a memoised representation: `GenerateFrom` -/

/-- The heap cells of `list.GenerateFrom(i, g)` — hence `Generate`, `Range`, `RangeClosed` — satisfy
    the interface contract, however far they have been forced (`GenR`: each cell is still pending
    or holds exactly the generator's value). -/
theorem generate_lists_satisfy_contract (g : Int → GoM (Option Val)) (gp : Int → Option Val)
    (hg : Total g gp) : LSim 3 (fun hp l xs => ∃ i, GenR g gp xs hp l i) :=
  gen_lsim hg

/-- `eval e = denote e` for `list.Range(a, b)` / `RangeClosed(a, b)`. -/
theorem range_eval_denote (closed : Bool) (a b : Int) (x : Val) (fuel : Nat) (lg : Log) :
    ∃ l hp, LL.eval (fuel + 1) (.range closed a b) x {} lg = (.ok l, hp, lg) ∧
      ∃ i, GenR (rangeGen closed b) (rangeP closed b) ((LExpr.range closed a b).denote x) hp l i :=
  range_list_rel closed a b x fuel lg

/-- put together: `list.Fold(list.Range(a, b), z, f)` terminates and is the left fold over
    `a, a+1, …, b-1` — through the memo cells, every one forced at most once. -/
theorem fold_range_eq (f : Val → Val → GoM Val) (gf : Val → Val → Val) (hf : Total2 f gf)
    (closed : Bool) (a b : Int) (x z : Val) (lg : Log) (fuel : Nat)
    (hfuel : 3 + ((LExpr.range closed a b).denote x).length < fuel) :
    ∃ l hp hp' lg', LL.eval 1 (.range closed a b) x {} lg = (.ok l, hp, lg) ∧
      LL.fold f fuel l z hp lg = (.ok (((LExpr.range closed a b).denote x).foldl gf z), hp', lg') ∧
      hp'.maxEvals ≤ 1 := by
  obtain ⟨l, hp, he, hrel⟩ := range_list_rel closed a b x 0 lg
  obtain ⟨hp', lg', hfold⟩ := fold_lspec hf (gen_lsim (rangeGen_total closed b)) _ fuel hp l z lg hfuel hrel
  refine ⟨l, hp, hp', lg', he, hfold, ?_⟩
  apply WF.maxEvals_le
  have h1 : hp.WF := by
    have := (presAll 1).eval (.range closed a b) x {} lg Heap.WF.empty
    rw [he] at this; exact this
  have := pres_fold f fuel l z hp lg h1
  rw [hfold] at this; exact this

end FpVerif.Spec.C12List
