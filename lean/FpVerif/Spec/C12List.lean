import FpVerif.Lemmas.ListLoops
import FpVerif.Lemmas.ListGen
import FpVerif.Lemmas.ListDen
import FpVerif.Lemmas.IterPanic
import FpVerif.Lemmas.ListForced
import FpVerif.Lemmas.ListMemoPanic
import FpVerif.Lemmas.ListQuiesce
import FpVerif.Lemmas.ListDemand
/-!
# C12 (lazy `fp.List` part) — every list expression evaluates to a heap representation of its
# denotation; memoised cells are evaluated at most once; the cursor loops of package `list` compute
# the list folds and stop forcing at the first failure

The model (`Model/LazyList.lean`) keeps the `sync.Once` cells of every `ListAdaptor` in a heap and
runs the closures of `list.Map`, `FlatMap`, `FilterMap`, `Combine`, `Zip`, `ZipWithIndex`, `Scan`,
`GenerateFrom`, `Collect`, `ReverseSeq` … statement by statement; the oracle executes exactly these
definitions.

* `memo_*`: forcing a cell that is done returns the stored value and runs nothing — no callback,
  no heap change; forcing a pending cell stores its value.
* `started_at_most_once`: from the empty heap, whatever expression is built and whatever sequence
  of operations is executed, every cell's closure has been started at most once.
* a closure that PANICS (`head_closure_panics`, `tail_closure_panics`, `lazy_closure_panics`,
  `*_cell_after_panic`): `sync.Once` is done also on the panic path, so the panic propagates and the
  cell is done with the zero value (`None` / the nil list `LV.nilIface`), started once; afterwards it
  returns that zero value and runs nothing; every method call on the nil list is a nil dereference.
  `running_only_while_closure_runs` / `no_cell_left_running`: no operation, returning or panicking,
  leaves a cell `running` — the model panic `deadlock` only arises from genuine re-entrance.
* `list_*_eq`: the loops of `list.Fold`, `FoldTry`, `FoldOption`, `FoldError`, `FoldRight`/`Reduce`,
  `ToSeq` — modelled literally with their cursor — terminate on every finite list and equal the
  list computation, for every list representation that satisfies the `fp.List` interface contract
  `LSim`; `FoldTry`/`FoldOption`/`FoldError` stop with the cursor on the failing element.
* demand (section "demand", audit finding 13): for generated lists (`GenerateFrom`: `Generate`, `Range`,
  `RangeClosed`) the heap is accounted for exactly — `k` steps of a traversal create exactly `k` new
  cell pairs (`walk_generated_cells`), and a fold that fails at an element leaves the tail cell of
  that element PENDING and LAST in the heap (`foldTry_stops_forcing`, `foldOption_stops_forcing`,
  `foldError_stops_forcing`): the cells of what follows do not exist.
* `eval_denote` (TOTAL, all sixteen constructors of `LExpr`, i.e. also the closures of `Map`,
  `FlatMap`, `FilterMap`, `Combine`, `Zip`, `ZipWithIndex`, `Scan`, `Collect`, `ReverseSeq`, nested
  arbitrarily, with sharing): for callbacks that do not panic, `eval e` returns — without panic,
  `sync.Once` re-entrance or fuel exhaustion, for every fuel ≥ `e.bnd x` — a value that satisfies
  the interface contract w.r.t. `LExpr.denote e`.  The proof (Lemmas/ListTy, ListTyHeap, ListTot) is a
  type-soundness argument: a ghost typing `Sty` of the heap assigns every memo cell the value / list
  it will produce and the fuel forcing it needs; `eval_denote_typed` is the statement for an
  arbitrary well-typed start heap (so expressions evaluated one after the other share one heap and
  all stay valid: `typed_values_stay_typed`).
* `eval_toSeq_eq`, `eval_fold_eq`, `eval_foldTry_eq`, `eval_foldOption_eq`, `eval_foldError_eq`,
  `eval_foldRight_eq`, `eval_reduce_eq`: end to end — `list.X(eval e)` = the list function on
  `denote e`, and afterwards every memo cell has been started at most once.
* `eval_toSeq_twice` (memoisation end to end): a second traversal returns the same list and leaves
  heap and log unchanged; `fromList_represents`: `iterator.FromList` of any such list is an iterator
  in the sense of C12/C20.
* `list_fold_panic`, `list_foldTry_panic`, `eval_fold_panic`: the step function of the fold may
  panic — the panic propagates, the cursor rests on the element whose step panicked.
-/
namespace FpVerif.Spec.C12List
open FpVerif FpVerif.It FpVerif.LL

/-! ## memoisation -/

/-- `getHead` of a cell that is done: the stored value, nothing is run, nothing changes. -/
theorem memo_head_not_rerun (fuel c : Nat) (hp : Heap) (lg : Log) (v : Option Val) (n : Nat)
    (h : hp.hs[c]? = some (.done v, n)) : forceH (fuel + 1) c hp lg = (.ok v, hp, lg) :=
  forceH_done fuel c hp lg v n h

theorem memo_tail_not_rerun (fuel c : Nat) (hp : Heap) (lg : Log) (v : LV) (n : Nat)
    (h : hp.ts[c]? = some (.done v, n)) : forceT (fuel + 1) c hp lg = (.ok v, hp, lg) :=
  forceT_done fuel c hp lg v n h

theorem memo_lazy_not_rerun (fuel c : Nat) (hp : Heap) (lg : Log) (v : LV) (n : Nat)
    (h : hp.ls[c]? = some (.done v, n)) : forceL (fuel + 1) c hp lg = (.ok v, hp, lg) :=
  forceL_done fuel c hp lg v n h

/-- after a successful `getHead` the cell is done and holds the returned value — so by
    `memo_head_not_rerun` every later `IsEmpty`/`Head` on it is free. -/
theorem memo_head_stored (fuel c : Nat) (hp hp' : Heap) (lg lg' : Log) (v : Option Val)
    (h : forceH (fuel + 1) c hp lg = (.ok v, hp', lg')) (hc : c < hp'.hs.size) :
    ∃ n, hp'.hs[c]? = some (.done v, n) :=
  forceH_stores fuel c hp hp' lg lg' v h hc

/-- One operation of the interface or one library call, on any list value / expression. -/
inductive Op where
  | isEmpty (l : LV) | head (l : LV) | tail (l : LV) | headOpt (l : LV)
  | eval (e : LExpr) (x : Val)
  | toSeq (l : LV)
  | fold (f : Val → Val → GoM Val) (l : LV) (z : Val)

def Op.run (fuel : Nat) : Op → Heap → Log → Heap × Log
  | .isEmpty l, hp, lg => let r := LL.isEmpty fuel l hp lg; (r.2.1, r.2.2)
  | .head l, hp, lg => let r := LL.head fuel l hp lg; (r.2.1, r.2.2)
  | .tail l, hp, lg => let r := LL.tail fuel l hp lg; (r.2.1, r.2.2)
  | .headOpt l, hp, lg => let r := LL.headOpt fuel l hp lg; (r.2.1, r.2.2)
  | .eval e x, hp, lg => let r := LL.eval fuel e x hp lg; (r.2.1, r.2.2)
  | .toSeq l, hp, lg => let r := LL.toSeq fuel l [] hp lg; (r.2.1, r.2.2)
  | .fold f l z, hp, lg => let r := LL.fold f fuel l z hp lg; (r.2.1, r.2.2)

def runOps (fuel : Nat) : List Op → Heap → Log → Heap × Log
  | [], hp, lg => (hp, lg)
  | op :: ops, hp, lg => let r := op.run fuel hp lg; runOps fuel ops r.1 r.2

/-- Each cell is evaluated at most once: starting from the empty heap, after ANY sequence of
    library calls and interface operations (on any list values, with any callbacks — also ones
    that panic — and any fuel), no cell's closure has been started more than once. -/
theorem started_at_most_once (fuel : Nat) (ops : List Op) (lg : Log) :
    (runOps fuel ops {} lg).1.maxEvals ≤ 1 := by
  apply WF.maxEvals_le
  have key : ∀ (ops : List Op) (hp : Heap) (lg : Log), hp.WF → (runOps fuel ops hp lg).1.WF := by
    intro ops
    induction ops with
    | nil => intro hp lg wf; exact wf
    | cons op ops ih =>
      intro hp lg wf
      simp only [runOps]
      apply ih
      have hA := presAll fuel
      cases op with
      | isEmpty l => exact hA.isEmpty l hp lg wf
      | head l => exact hA.head l hp lg wf
      | tail l => exact hA.tail l hp lg wf
      | headOpt l => exact hA.headOpt l hp lg wf
      | eval e x => exact hA.eval e x hp lg wf
      | toSeq l => exact pres_toSeq fuel l [] hp lg wf
      | fold f l z => exact pres_fold f fuel l z hp lg wf
  exact key ops {} lg Heap.WF.empty

/-! ## a list closure that panics

`fp.Memoize(f)` is `once.Do(func() { ret = f() }); return ret`.  `sync.Once` marks itself done also when
`f` panics, and then `ret` was never assigned: the cell is DONE and holds the zero value of its type —
`None` for `getHead`, the nil `fp.List` interface (`LV.nilIface`) for `getTail` and for the `lazy.Call`
cells of `FlatMap`.  So after a panicking closure the cell is never started again
(`started_at_most_once` above covers every program, also across panics) and later reads return the
zero value; every method call on the nil list is Go's nil-dereference panic. -/

/-- a head closure panics: `getHead` propagates the panic (heap and log as the closure left them) and
    leaves the cell DONE with the zero value `None`, its start counter incremented exactly once -/
theorem head_closure_panics (fuel c : Nat) (hp hp1 : Heap) (lg lg1 : Log) (t : HThunk) (n : Nat) (p : PanicVal)
    (hcell : hp.hs[c]? = some (.pending t, n))
    (hrun : runH fuel t { hp with hs := hp.hs.set! c (.running, n + 1) } lg = (.error p, hp1, lg1)) :
    forceH (fuel + 1) c hp lg = (.error p, { hp1 with hs := hp1.hs.set! c (.done none, n + 1) }, lg1) :=
  forceH_panic fuel c hp hp1 lg lg1 t n p hcell hrun

/-- … and afterwards, for every fuel and log: the cell returns `None` and nothing runs (heap and log
    unchanged) — the list says `IsEmpty() = true` and `Head()` panics `List.empty` (not the closure's
    panic: the closure is not run again) -/
theorem head_cell_after_panic (c tc : Nat) (hp1 : Heap) (n : Nat) (hc : c < hp1.hs.size) (fuel2 : Nat) (lg2 : Log) :
    let hp2 : Heap := { hp1 with hs := hp1.hs.set! c (.done none, n + 1) }
    forceH (fuel2 + 1) c hp2 lg2 = (.ok none, hp2, lg2) ∧
    isEmpty (fuel2 + 2) (.adaptor c tc) hp2 lg2 = (.ok true, hp2, lg2) ∧
    head (fuel2 + 2) (.adaptor c tc) hp2 lg2 = (.error listEmpty, hp2, lg2) :=
  ⟨forceH_after_panic c hp1 n hc fuel2 lg2, adaptor_after_head_panic c tc hp1 n hc fuel2 lg2⟩

/-- a tail closure panics: `getTail` propagates the panic and leaves the cell DONE with the zero
    `fp.List` — the nil interface -/
theorem tail_closure_panics (fuel c : Nat) (hp hp1 : Heap) (lg lg1 : Log) (t : TThunk) (n : Nat) (p : PanicVal)
    (hcell : hp.ts[c]? = some (.pending t, n))
    (hrun : runT fuel t { hp with ts := hp.ts.set! c (.running, n + 1) } lg = (.error p, hp1, lg1)) :
    forceT (fuel + 1) c hp lg = (.error p, { hp1 with ts := hp1.ts.set! c (.done .nilIface, n + 1) }, lg1) :=
  forceT_panic fuel c hp hp1 lg lg1 t n p hcell hrun

/-- … and afterwards: `Tail()` RETURNS — the nil list, nothing runs — and every method call on that
    result is a nil dereference that changes neither heap nor log -/
theorem tail_cell_after_panic (hc' c : Nat) (hp1 : Heap) (n : Nat) (hc : c < hp1.ts.size) (fuel2 fuel3 : Nat) (lg2 : Log) :
    let hp2 : Heap := { hp1 with ts := hp1.ts.set! c (.done .nilIface, n + 1) }
    forceT (fuel2 + 1) c hp2 lg2 = (.ok .nilIface, hp2, lg2) ∧
    tail (fuel2 + 2) (.adaptor hc' c) hp2 lg2 = (.ok .nilIface, hp2, lg2) ∧
    isEmpty (fuel3 + 1) .nilIface hp2 lg2 = (.error nilDeref, hp2, lg2) ∧
    head (fuel3 + 1) .nilIface hp2 lg2 = (.error nilDeref, hp2, lg2) ∧
    tail (fuel3 + 1) .nilIface hp2 lg2 = (.error nilDeref, hp2, lg2) :=
  ⟨forceT_after_panic c hp1 n hc fuel2 lg2, adaptor_after_tail_panic hc' c hp1 n hc fuel2 fuel3 lg2⟩

/-- the `lazy.Call` cell of `FlatMap` (`fn(opt.Head())`), same story -/
theorem lazy_closure_panics (fuel c : Nat) (hp hp1 : Heap) (lg lg1 : Log) (opt : LV) (k : FnK) (n : Nat) (p : PanicVal)
    (hcell : hp.ls[c]? = some (.pending (opt, k), n))
    (hrun : (do let x ← head fuel opt; applyK fuel k x : HM LV)
      { hp with ls := hp.ls.set! c (.running, n + 1) } lg = (.error p, hp1, lg1)) :
    forceL (fuel + 1) c hp lg = (.error p, { hp1 with ls := hp1.ls.set! c (.done .nilIface, n + 1) }, lg1) :=
  forceL_panic fuel c hp hp1 lg lg1 opt k n p hcell hrun

theorem lazy_cell_after_panic (c : Nat) (hp1 : Heap) (n : Nat) (hc : c < hp1.ls.size) (fuel2 : Nat) (lg2 : Log) :
    let hp2 : Heap := { hp1 with ls := hp1.ls.set! c (.done .nilIface, n + 1) }
    forceL (fuel2 + 1) c hp2 lg2 = (.ok .nilIface, hp2, lg2) :=
  forceL_after_panic c hp1 n hc fuel2 lg2

/-- the clean-up on the panic path keeps the start counters ≤ 1: from a well-formed heap, forcing any
    cell — whether its closure returns or panics — gives a well-formed heap (this is the step of
    `started_at_most_once` that changed with the model) -/
theorem force_keeps_wf (fuel c : Nat) (hp : Heap) (lg : Log) (wf : hp.WF) :
    (forceH fuel c hp lg).2.1.WF ∧ (forceT fuel c hp lg).2.1.WF ∧ (forceL fuel c hp lg).2.1.WF :=
  ⟨(presAll fuel).forceH c hp lg wf, (presAll fuel).forceT c hp lg wf, (presAll fuel).forceL c hp lg wf⟩

/-- every operation of the model (the thirteen mutually recursive functions: interface methods, forcing
    a cell, the closure bodies, the constructors), from ANY heap, whether it returns or panics, ends with
    exactly the cells running that were running when it started: a cell is `running` only WHILE its
    closure runs — `sync.Once` is done on the return path and on the panic path. -/
theorem running_only_while_closure_runs (fuel : Nat) : KeepAll fuel := keepAll fuel

/-- … hence no cell is ever left `running`: from the empty heap, after ANY sequence of library calls
    and interface operations (any list values, any callbacks — also ones that panic —, any fuel; each
    operation returns or panics) no memo cell is in state `running`.  So the model panic `deadlock`
    (forcing a running cell: Go's self-deadlock of `sync.Once`) can only arise from genuine re-entrance
    inside one operation, never as an after-effect of an earlier panic.  (False for the model before
    this work package: a panicking closure left its cell `running`.) -/
theorem no_cell_left_running (fuel : Nat) (ops : List Op) (lg : Log) :
    (runOps fuel ops {} lg).1.NoRunning := by
  have key : ∀ (ops : List Op) (hp : Heap) (lg : Log), hp.NoRunning → (runOps fuel ops hp lg).1.NoRunning := by
    intro ops
    induction ops with
    | nil => intro hp lg h; exact h
    | cons op ops ih =>
      intro hp lg h
      simp only [runOps]
      apply ih
      have hA := keepAll fuel
      cases op with
      | isEmpty l => exact (hA.isEmpty l hp lg).noRunning h
      | head l => exact (hA.head l hp lg).noRunning h
      | tail l => exact (hA.tail l hp lg).noRunning h
      | headOpt l => exact (hA.headOpt l hp lg).noRunning h
      | eval e x => exact (hA.eval e x hp lg).noRunning h
      | toSeq l => exact (keep_toSeq fuel l [] hp lg).noRunning h
      | fold f l z => exact (keep_fold f fuel l z hp lg).noRunning h
  exact key ops {} lg Heap.NoRunning.empty

/-- the hypotheses of `head_closure_panics` are satisfiable: a `GenerateFrom` head cell whose generator panics -/
example : ∃ (hp : Heap) (t : HThunk) (p : PanicVal),
    hp.hs[0]? = some (.pending t, 0) ∧
    runH 1 t { hp with hs := hp.hs.set! 0 (.running, 0 + 1) } [] =
      (.error p, { hp with hs := hp.hs.set! 0 (.running, 0 + 1) }, []) := by
  refine ⟨{ hs := #[(.pending (.gen 0 (fun _ => goPanic "boom")), 0)] }, .gen 0 (fun _ => goPanic "boom"), "boom", rfl, ?_⟩
  rw [runH] <;> first | rfl | (intro h; cases h)

/-! ## the loops of package `list` -/

variable {k : Nat} {R : Heap → LV → List Val → Prop}

theorem list_toSeq_eq (hS : LSim k R) (hp : Heap) (l : LV) (xs : List Val) (h : R hp l xs)
    (fuel : Nat) (hfuel : k + xs.length < fuel) (lg : Log) :
    ∃ hp' lg', LL.toSeq fuel l [] hp lg = (.ok xs, hp', lg') := by
  simpa using toSeq_lspec hS xs fuel hp l [] lg hfuel h

theorem list_fold_eq (f : Val → Val → GoM Val) (g : Val → Val → Val) (hf : Total2 f g)
    (hS : LSim k R) (hp : Heap) (l : LV) (xs : List Val) (h : R hp l xs) (z : Val)
    (fuel : Nat) (hfuel : k + xs.length < fuel) (lg : Log) :
    ∃ hp' lg', LL.fold f fuel l z hp lg = (.ok (xs.foldl g z), hp', lg') :=
  fold_lspec hf hS xs fuel hp l z lg hfuel h

/-- `list.FoldTry` terminates, equals the reference fold, and on a failure the cursor `l'` rests on
    the failing element `a` (`R hp' l' (a :: rest)`: the loop did not call `Tail` on it).  For an
    ABSTRACT contract `R` this says nothing about which memo cells are done; that "what follows has
    not been forced" is a statement about the heap and is proved, in the conclusion, for generated
    lists in `foldTry_stops_forcing` below (section "demand"). -/
theorem list_foldTry_eq (f : Val → Val → GoM (Try Val)) (g : Val → Val → Try Val) (hf : Total2 f g)
    (hS : LSim k R) (hp : Heap) (l : LV) (xs : List Val) (h : R hp l xs) (z : Val)
    (fuel : Nat) (hfuel : k + xs.length < fuel) (lg : Log) :
    ∃ hp' lg', LL.foldTry f fuel l z hp lg = (.ok (foldTryL g z xs).1, hp', lg') ∧
      ((foldTryL g z xs).1.isSuccess = false → ∃ l' a, R hp' l' (a :: (foldTryL g z xs).2)) :=
  foldTry_lspec hf hS xs fuel hp l z lg hfuel h

/-- `list.FoldOption` as the property demands it (the cursor advances): terminates on every finite
    list and equals the reference fold; at a `None` the cursor rests on the failing element (heap
    level: `foldOption_stops_forcing`).  The Go loop does not advance the cursor (defect D4). -/
theorem list_foldOption_eq (f : Val → Val → GoM (Option Val)) (g : Val → Val → Option Val) (hf : Total2 f g)
    (hS : LSim k R) (hp : Heap) (l : LV) (xs : List Val) (h : R hp l xs) (z : Val)
    (fuel : Nat) (hfuel : k + xs.length < fuel) (lg : Log) :
    ∃ hp' lg', LL.foldOption f fuel l z hp lg = (.ok (foldOptionL g z xs).1, hp', lg') ∧
      ((foldOptionL g z xs).1 = none → ∃ l' a, R hp' l' (a :: (foldOptionL g z xs).2)) :=
  foldOption_lspec hf hS xs fuel hp l z lg hfuel h

theorem list_foldError_eq (f : Val → GoM (Option Err)) (g : Val → Option Err) (hf : Total f g)
    (hS : LSim k R) (hp : Heap) (l : LV) (xs : List Val) (h : R hp l xs)
    (fuel : Nat) (hfuel : k + xs.length < fuel) (lg : Log) :
    ∃ hp' lg', LL.foldError f fuel l hp lg = (.ok (foldErrorL g xs).1, hp', lg') ∧
      ((foldErrorL g xs).1.isSome = true → ∃ l' a, R hp' l' (a :: (foldErrorL g xs).2)) :=
  foldError_lspec hf hS xs fuel hp l lg hfuel h

/-- `list.FoldRight` with a forcing step, and `list.Reduce`, are the right fold. -/
theorem list_foldRight_eq (f : Val → Val → GoM Val) (g : Val → Val → Val) (hf : Total2 f g)
    (hS : LSim k R) (hp : Heap) (l : LV) (xs : List Val) (h : R hp l xs) (zero : Val)
    (fuel : Nat) (hfuel : k + xs.length < fuel) (lg : Log) :
    ∃ hp' lg', LL.foldRight zero (fun a th => do let b ← th; IM.liftG (f a b)) fuel l hp lg =
      (.ok (xs.foldr g zero), hp', lg') :=
  foldRight_lspec hf hS zero xs fuel hp l lg hfuel h

theorem list_reduce_eq (combine : Val → Val → GoM Val) (g : Val → Val → Val) (hf : Total2 combine g)
    (hS : LSim k R) (hp : Heap) (l : LV) (xs : List Val) (h : R hp l xs) (empty : Val)
    (fuel : Nat) (hfuel : k + xs.length < fuel) (lg : Log) :
    ∃ hp' lg', LL.reduce empty combine fuel l hp lg = (.ok (xs.foldr g empty), hp', lg') :=
  foldRight_lspec hf hS empty xs fuel hp l lg hfuel h

/-! ## the interface contract holds for the heap-free representations -/

/-- `Nil`, `Cons` and `Seq` satisfy the contract (so the theorems above are not vacuous). -/
theorem plain_lists_satisfy_contract : LSim 1 (fun _ l xs => plainDen l = some xs) := plain_lsim

example : plainDen (.cons (.int 1) (.seq [.int 2, .int 3])) = some [.int 1, .int 2, .int 3] := rfl

/-! ## a memoised representation: `GenerateFrom` -/

/-- The heap cells of `list.GenerateFrom(i, g)` — hence `Generate`, `Range`, `RangeClosed` — satisfy
    the interface contract, however far they have been forced (`GenR`: each cell is still pending
    or holds exactly the generator's value). -/
theorem generate_lists_satisfy_contract (g : Int → GoM (Option Val)) (gp : Int → Option Val)
    (hg : Total g gp) : LSim 3 (fun hp l xs => ∃ i, GenR g gp xs hp l i) :=
  gen_lsim hg

/-- `eval e = denote e` for `list.Range(a, b)` / `RangeClosed(a, b)`. -/
theorem range_eval_denote (closed : Bool) (a b : Int) (x : Val) (fuel : Nat) (lg : Log) :
    ∃ l hp, LL.eval (fuel + 1) (.range closed a b) x {} lg = (.ok l, hp, lg) ∧
      ∃ i, GenR (rangeGen closed b) (rangeP closed b) ((LExpr.range closed a b).denote x) hp l i :=
  range_list_rel closed a b x fuel lg

/-- put together: `list.Fold(list.Range(a, b), z, f)` terminates and is the left fold over
    `a, a+1, …, b-1` — through the memo cells, every one forced at most once. -/
theorem fold_range_eq (f : Val → Val → GoM Val) (gf : Val → Val → Val) (hf : Total2 f gf)
    (closed : Bool) (a b : Int) (x z : Val) (lg : Log) (fuel : Nat)
    (hfuel : 3 + ((LExpr.range closed a b).denote x).length < fuel) :
    ∃ l hp hp' lg', LL.eval 1 (.range closed a b) x {} lg = (.ok l, hp, lg) ∧
      LL.fold f fuel l z hp lg = (.ok (((LExpr.range closed a b).denote x).foldl gf z), hp', lg') ∧
      hp'.maxEvals ≤ 1 := by
  obtain ⟨l, hp, he, hrel⟩ := range_list_rel closed a b x 0 lg
  obtain ⟨hp', lg', hfold⟩ := fold_lspec hf (gen_lsim (rangeGen_total closed b)) _ fuel hp l z lg hfuel hrel
  refine ⟨l, hp, hp', lg', he, hfold, ?_⟩
  apply WF.maxEvals_le
  have h1 : hp.WF := by
    have := (presAll 1).eval (.range closed a b) x {} lg Heap.WF.empty
    rw [he] at this; exact this
  have := pres_fold f fuel l z hp lg h1
  rw [hfold] at this; exact this

/-! ## every list expression: `eval e` represents `denote e` -/

/-- the hypothesis on callbacks is satisfiable: any callback that is total w.r.t. SOME function -/
theorem pure_of_total {f : Val → GoM Val} {g : Val → Val} (h : Total f g) : Total f (pure1 f) := Total.pure1 h

example : (LExpr.zipidx (.flatMap (.map (.range false 0 3) (fun v => do emit "m"; pure v)) 7
    (.scan (.combine (.argOf 2) (.reverse [.int 1])) (.int 0) (fun a _ => pure a)))).Pure :=
  ⟨⟨trivial, Total.pure1 (total_emit (fun _ => "m") id)⟩, ⟨trivial, trivial⟩,
    Total2.pure2 (g := fun a _ => a) (fun _ _ lg => ⟨lg, rfl⟩)⟩

/-- THE theorem, typed form.  For every list expression `e` (all constructors, nested, callbacks
    that do not panic) and every heap that is well-typed (`WellTyped S hp`: every cell consistent
    with the ghost typing, no `sync.Once` executing): `eval e` returns normally for every fuel
    `≥ e.bnd x`, the heap stays well-typed for an extension `S'` of the typing, and the returned value
    is typed with the expression's denotation. -/
theorem eval_denote_typed (e : LExpr) (x : Val) (hpure : e.Pure) (S : Sty) (hp : Heap) (hW : WellTyped S hp)
    (fuel : Nat) (hfuel : e.bnd x ≤ fuel) (lg : Log) :
    ∃ l S' hp' lg', LL.eval fuel e x hp lg = (.ok l, hp', lg') ∧ WellTyped S' hp' ∧ Ext S S' ∧
      VDen S' l (.fin (e.denote x)) (e.bnd x) :=
  eval_typed e x hpure S hp hW fuel hfuel lg

/-- typed values satisfy the interface contract: `IsEmpty`/`Head`/`Tail` return what the denoted
    list says, whatever part of the cells has been forced already, for every fuel `≥ k`. -/
theorem typed_lists_satisfy_contract (k : Nat) : LSim k (HeapRep k) := heapRep_lsim k

/-- frame: whatever else happens in the heap (the typing only grows), a typed value stays typed
    with the same denotation — sharing and aliasing between lists are harmless. -/
theorem typed_values_stay_typed {S S' : Sty} {l : LV} {d : DenV} {K : Nat} (h : VDen S l d K) (hE : Ext S S') :
    VDen S' l d K := h.ext hE

/-- the interface operations on a typed value extend the typing (so by `typed_values_stay_typed`
    they keep every other typed value typed). -/
theorem typed_ops_extend (S : Sty) (hp : Heap) (hW : WellTyped S hp) (l : LV) (xs : List Val) (k : Nat)
    (hV : VDen S l (.fin xs) k) (fuel : Nat) (hk : k ≤ fuel) (lg : Log) :
    (∃ S' hp' lg', LL.isEmpty fuel l hp lg = (.ok xs.isEmpty, hp', lg') ∧ WellTyped S' hp' ∧ Ext S S') ∧
    (∀ y ys, xs = y :: ys →
      (∃ S' hp' lg', LL.head fuel l hp lg = (.ok y, hp', lg') ∧ WellTyped S' hp' ∧ Ext S S') ∧
      (∃ t S' hp' lg', LL.tail fuel l hp lg = (.ok t, hp', lg') ∧ WellTyped S' hp' ∧ Ext S S' ∧
        VDen S' t (.fin ys) k)) := by
  refine ⟨?_, ?_⟩
  · obtain ⟨b, S', hp', lg', e, hP, hb⟩ := (totAll fuel).isEmpty S hp l _ k hW.cons hV hk (hW.quiet k) lg
    subst hb
    exact ⟨S', hp', lg', e, hW.post hP, hP.ext⟩
  · rintro y ys rfl
    refine ⟨?_, ?_⟩
    · obtain ⟨v, S', hp', lg', e, hP, hv⟩ := (totAll fuel).head S hp l _ k y hW.cons hV rfl hk (hW.quiet k) lg
      subst hv
      exact ⟨S', hp', lg', e, hW.post hP, hP.ext⟩
    · obtain ⟨t, S', hp', lg', e, hP, ht⟩ := (totAll fuel).tail S hp l _ k hW.cons hV rfl hk (hW.quiet k) lg
      exact ⟨t, S', hp', lg', e, hW.post hP, hP.ext, ht⟩

/-- THE theorem, contract form (the statement announced as partial in the first round, now total):
    every lazy-list expression evaluates — for every fuel from `k = e.bnd x` on — to a heap
    representation that satisfies the interface contract `LSim` for its denotation; and every memo
    cell has been started at most once. -/
theorem eval_denote (e : LExpr) (x : Val) (hpure : e.Pure) :
    ∃ k R, LSim k R ∧ ∀ fuel, k ≤ fuel → ∀ lg, ∃ l hp lg', LL.eval fuel e x {} lg = (.ok l, hp, lg') ∧
      R hp l (e.denote x) ∧ hp.maxEvals ≤ 1 := by
  refine ⟨e.bnd x, HeapRep (e.bnd x), heapRep_lsim _, fun fuel hf lg => ?_⟩
  obtain ⟨l, hp, lg', he, hR, hwf⟩ := eval_rep e x hpure fuel hf lg
  exact ⟨l, hp, lg', he, hR, WF.maxEvals_le hp hwf⟩

/-! ## end to end: the loops of package `list` on `eval e` -/

/-- `list.ToSeq(e)` (= `Foreach`/`Iterator` order) is `denote e`; every cell forced at most once. -/
theorem eval_toSeq_eq (e : LExpr) (x : Val) (hpure : e.Pure) (fuel : Nat)
    (hfuel : e.bnd x + (e.denote x).length < fuel) (lg : Log) :
    ∃ l hp lg1 hp' lg', LL.eval fuel e x {} lg = (.ok l, hp, lg1) ∧
      LL.toSeq fuel l [] hp lg1 = (.ok (e.denote x), hp', lg') ∧ hp'.maxEvals ≤ 1 := by
  obtain ⟨l, hp, lg1, he, hR, hwf⟩ := eval_rep e x hpure fuel (by omega) lg
  obtain ⟨hp', lg', h⟩ := list_toSeq_eq (heapRep_lsim _) hp l _ hR fuel hfuel lg1
  refine ⟨l, hp, lg1, hp', lg', he, h, WF.maxEvals_le _ ?_⟩
  have := pres_toSeq fuel l [] hp lg1 hwf
  rw [h] at this; exact this

theorem eval_fold_eq (f : Val → Val → GoM Val) (g : Val → Val → Val) (hf : Total2 f g)
    (e : LExpr) (x : Val) (hpure : e.Pure) (z : Val) (fuel : Nat)
    (hfuel : e.bnd x + (e.denote x).length < fuel) (lg : Log) :
    ∃ l hp lg1 hp' lg', LL.eval fuel e x {} lg = (.ok l, hp, lg1) ∧
      LL.fold f fuel l z hp lg1 = (.ok ((e.denote x).foldl g z), hp', lg') ∧ hp'.maxEvals ≤ 1 := by
  obtain ⟨l, hp, lg1, he, hR, hwf⟩ := eval_rep e x hpure fuel (by omega) lg
  obtain ⟨hp', lg', h⟩ := list_fold_eq f g hf (heapRep_lsim _) hp l _ hR z fuel hfuel lg1
  refine ⟨l, hp, lg1, hp', lg', he, h, WF.maxEvals_le _ ?_⟩
  have := pres_fold f fuel l z hp lg1 hwf
  rw [h] at this; exact this

/-- `list.FoldTry(e, z, f)`: the reference fold; on a failure the cursor rests on the failing
    element — the cells behind it have not been forced by the loop. -/
theorem eval_foldTry_eq (f : Val → Val → GoM (Try Val)) (g : Val → Val → Try Val) (hf : Total2 f g)
    (e : LExpr) (x : Val) (hpure : e.Pure) (z : Val) (fuel : Nat)
    (hfuel : e.bnd x + (e.denote x).length < fuel) (lg : Log) :
    ∃ l hp lg1 hp' lg', LL.eval fuel e x {} lg = (.ok l, hp, lg1) ∧
      LL.foldTry f fuel l z hp lg1 = (.ok (foldTryL g z (e.denote x)).1, hp', lg') ∧ hp'.maxEvals ≤ 1 ∧
      ((foldTryL g z (e.denote x)).1.isSuccess = false →
        ∃ l' a, HeapRep (e.bnd x) hp' l' (a :: (foldTryL g z (e.denote x)).2)) := by
  obtain ⟨l, hp, lg1, he, hR, hwf⟩ := eval_rep e x hpure fuel (by omega) lg
  obtain ⟨hp', lg', h, hrest⟩ := list_foldTry_eq f g hf (heapRep_lsim _) hp l _ hR z fuel hfuel lg1
  refine ⟨l, hp, lg1, hp', lg', he, h, WF.maxEvals_le _ ?_, hrest⟩
  have := pres_foldTry f fuel l z hp lg1 hwf
  rw [h] at this; exact this

theorem eval_foldOption_eq (f : Val → Val → GoM (Option Val)) (g : Val → Val → Option Val) (hf : Total2 f g)
    (e : LExpr) (x : Val) (hpure : e.Pure) (z : Val) (fuel : Nat)
    (hfuel : e.bnd x + (e.denote x).length < fuel) (lg : Log) :
    ∃ l hp lg1 hp' lg', LL.eval fuel e x {} lg = (.ok l, hp, lg1) ∧
      LL.foldOption f fuel l z hp lg1 = (.ok (foldOptionL g z (e.denote x)).1, hp', lg') ∧ hp'.maxEvals ≤ 1 ∧
      ((foldOptionL g z (e.denote x)).1 = none →
        ∃ l' a, HeapRep (e.bnd x) hp' l' (a :: (foldOptionL g z (e.denote x)).2)) := by
  obtain ⟨l, hp, lg1, he, hR, hwf⟩ := eval_rep e x hpure fuel (by omega) lg
  obtain ⟨hp', lg', h, hrest⟩ := list_foldOption_eq f g hf (heapRep_lsim _) hp l _ hR z fuel hfuel lg1
  refine ⟨l, hp, lg1, hp', lg', he, h, WF.maxEvals_le _ ?_, hrest⟩
  have := pres_foldOption f fuel l z hp lg1 hwf
  rw [h] at this; exact this

theorem eval_foldError_eq (f : Val → GoM (Option Err)) (g : Val → Option Err) (hf : Total f g)
    (e : LExpr) (x : Val) (hpure : e.Pure) (fuel : Nat)
    (hfuel : e.bnd x + (e.denote x).length < fuel) (lg : Log) :
    ∃ l hp lg1 hp' lg', LL.eval fuel e x {} lg = (.ok l, hp, lg1) ∧
      LL.foldError f fuel l hp lg1 = (.ok (foldErrorL g (e.denote x)).1, hp', lg') ∧ hp'.maxEvals ≤ 1 ∧
      ((foldErrorL g (e.denote x)).1.isSome = true →
        ∃ l' a, HeapRep (e.bnd x) hp' l' (a :: (foldErrorL g (e.denote x)).2)) := by
  obtain ⟨l, hp, lg1, he, hR, hwf⟩ := eval_rep e x hpure fuel (by omega) lg
  obtain ⟨hp', lg', h, hrest⟩ := list_foldError_eq f g hf (heapRep_lsim _) hp l _ hR fuel hfuel lg1
  refine ⟨l, hp, lg1, hp', lg', he, h, WF.maxEvals_le _ ?_, hrest⟩
  have := pres_foldError f fuel l hp lg1 hwf
  rw [h] at this; exact this

theorem eval_foldRight_eq (f : Val → Val → GoM Val) (g : Val → Val → Val) (hf : Total2 f g)
    (e : LExpr) (x : Val) (hpure : e.Pure) (zero : Val) (fuel : Nat)
    (hfuel : e.bnd x + (e.denote x).length < fuel) (lg : Log) :
    ∃ l hp lg1 hp' lg', LL.eval fuel e x {} lg = (.ok l, hp, lg1) ∧
      LL.foldRight zero (fun a th => do let b ← th; IM.liftG (f a b)) fuel l hp lg1 =
        (.ok ((e.denote x).foldr g zero), hp', lg') ∧ hp'.maxEvals ≤ 1 := by
  obtain ⟨l, hp, lg1, he, hR, hwf⟩ := eval_rep e x hpure fuel (by omega) lg
  obtain ⟨hp', lg', h⟩ := list_foldRight_eq f g hf (heapRep_lsim _) hp l _ hR zero fuel hfuel lg1
  refine ⟨l, hp, lg1, hp', lg', he, h, WF.maxEvals_le _ ?_⟩
  have := pres_foldRight f zero fuel l hp lg1 hwf
  rw [h] at this; exact this

theorem eval_reduce_eq (combine : Val → Val → GoM Val) (g : Val → Val → Val) (hf : Total2 combine g)
    (e : LExpr) (x : Val) (hpure : e.Pure) (empty : Val) (fuel : Nat)
    (hfuel : e.bnd x + (e.denote x).length < fuel) (lg : Log) :
    ∃ l hp lg1 hp' lg', LL.eval fuel e x {} lg = (.ok l, hp, lg1) ∧
      LL.reduce empty combine fuel l hp lg1 = (.ok ((e.denote x).foldr g empty), hp', lg') ∧ hp'.maxEvals ≤ 1 :=
  eval_foldRight_eq combine g hf e x hpure empty fuel hfuel lg

/-- `iterator.FromList(list)` over any representation satisfying the contract is an iterator that
    represents the list (so every C12/C20 iterator theorem applies to lists, too). -/
theorem fromList_represents {k : Nat} {R : Heap → LV → List Val → Prop} (hS : LSim k R) (fuel : Nat) (hk : k ≤ fuel)
    (hp : Heap) (l : LV) (xs : List Val) (h : R hp l xs) :
    Represents (LL.fromList fuel) (hp, l) [] xs := by
  refine ⟨fun s _ r => R s.1 s.2 r, ⟨?_, ?_, ?_⟩, h⟩
  · rintro ⟨hp, cur⟩ d r lg hR
    obtain ⟨hp', lg', e, hR'⟩ := hS.isEmpty fuel hp cur r lg hk hR
    exact ⟨(hp', cur), lg', by simp [LL.fromList, e, Except.map], hR'⟩
  · rintro ⟨hp, cur⟩ d a r lg hR
    obtain ⟨hp1, lg1, e1, hR1⟩ := hS.isEmpty fuel hp cur (a :: r) lg hk hR
    obtain ⟨hp2, lg2, e2, hR2⟩ := hS.head fuel hp1 cur a r lg1 hk hR1
    obtain ⟨t, hp3, lg3, e3, hR3⟩ := hS.tail fuel hp2 cur a r lg2 hk hR2
    exact ⟨(hp3, t), lg3, by simp [LL.fromList, e1, e2, e3], hR3⟩
  · rintro ⟨hp, cur⟩ d lg hR
    obtain ⟨hp1, lg1, e1, hR1⟩ := hS.isEmpty fuel hp cur [] lg hk hR
    exact ⟨nextOnEmpty, (hp1, cur), lg1, by simp [LL.fromList, e1], hR1⟩

/-- … in particular `iterator.FromList(eval e)` represents `denote e`. -/
theorem fromList_eval_represents (e : LExpr) (x : Val) (hpure : e.Pure) (fuel : Nat) (hfuel : e.bnd x ≤ fuel)
    (lg : Log) : ∃ l hp lg', LL.eval fuel e x {} lg = (.ok l, hp, lg') ∧
      Represents (LL.fromList fuel) (hp, l) [] (e.denote x) := by
  obtain ⟨l, hp, lg', he, hR, _⟩ := eval_rep e x hpure fuel hfuel lg
  exact ⟨l, hp, lg', he, fromList_represents (heapRep_lsim _) fuel hfuel hp l _ hR⟩

/-! ## memoisation, end to end -/

/-- a traversal that finds every cell it reads done (`Forced`) returns the list and does NOTHING
    else: heap and log are unchanged — no closure is run, no callback invoked. -/
theorem traversal_of_forced_is_free (xs : List Val) (l : LV) (acc : List Val) (fuel : Nat) (hp : Heap) (lg : Log)
    (h : Forced hp xs l) (hfuel : xs.length + 3 ≤ fuel) :
    LL.toSeq fuel l acc hp lg = (.ok (acc ++ xs), hp, lg) :=
  toSeq_forced xs l acc fuel hp lg h hfuel

/-- a traversal of a typed value leaves every cell it read done (and the done cells it found
    untouched). -/
theorem traversal_forces (xs : List Val) (S : Sty) (hp : Heap) (l : LV) (acc : List Val) (k fuel : Nat) (lg : Log)
    (hW : WellTyped S hp) (hV : VDen S l (.fin xs) k) (hfuel : k + xs.length < fuel) :
    ∃ S' hp' lg', LL.toSeq fuel l acc hp lg = (.ok (acc ++ xs), hp', lg') ∧ WellTyped S' hp' ∧ Ext S S' ∧
      DoneSub hp hp' ∧ Forced hp' xs l :=
  toSeq_forces xs S hp l acc k fuel lg hW hV hfuel

/-- Traverse `eval e` twice (all constructors, any nesting): the first traversal returns
    `denote e`; the second returns the same list and leaves heap AND log exactly as they were —
    every closure ran during the first traversal and its callbacks are not invoked again. -/
theorem eval_toSeq_twice (e : LExpr) (x : Val) (hpure : e.Pure) (fuel : Nat)
    (hfuel : e.bnd x + (e.denote x).length < fuel) (lg : Log) :
    ∃ l hp lg1 hp' lg', LL.eval fuel e x {} lg = (.ok l, hp, lg1) ∧
      LL.toSeq fuel l [] hp lg1 = (.ok (e.denote x), hp', lg') ∧
      LL.toSeq fuel l [] hp' lg' = (.ok (e.denote x), hp', lg') := by
  obtain ⟨l, S, hp, lg1, he, hW, _, hV⟩ := eval_typed e x hpure _ _ WellTyped.empty fuel (by omega) lg
  obtain ⟨S', hp', lg', h1, _, _, _, hF⟩ := toSeq_forces _ S hp l [] _ fuel lg1 hW hV hfuel
  have hb := LExpr.bnd_ge3 e x
  refine ⟨l, hp, lg1, hp', lg', he, by simpa using h1, ?_⟩
  simpa using toSeq_forced _ l [] fuel hp' lg' hF (by omega)

/-! ## callbacks that may panic (terminal folds) -/

/-- `list.Fold` with a step that may panic (`Outcome2`: it returns or panics, whatever the log):
    the loop returns what the list computation up to the first panic returns — the panic propagates
    with its value — and the cursor rests on the element whose step panicked: its tail has not been
    forced. -/
theorem list_fold_panic (f : Val → Val → GoM Val) (g : Val → Val → Except PanicVal Val) (hf : Outcome2 f g)
    {k : Nat} {R : Heap → LV → List Val → Prop}
    (hS : LSim k R) (hp : Heap) (l : LV) (xs : List Val) (h : R hp l xs) (z : Val)
    (fuel : Nat) (hfuel : k + xs.length < fuel) (lg : Log) :
    ∃ hp' lg', LL.fold f fuel l z hp lg = ((foldE g z xs).1, hp', lg') ∧
      (∀ p, (foldE g z xs).1 = .error p → ∃ l' a, R hp' l' (a :: (foldE g z xs).2)) :=
  fold_lpspec hf hS xs fuel hp l z lg hfuel h

theorem list_foldTry_panic (f : Val → Val → GoM (Try Val)) (g : Val → Val → Except PanicVal (Try Val))
    (hf : Outcome2 f g) {k : Nat} {R : Heap → LV → List Val → Prop}
    (hS : LSim k R) (hp : Heap) (l : LV) (xs : List Val) (h : R hp l xs) (z : Val)
    (fuel : Nat) (hfuel : k + xs.length < fuel) (lg : Log) :
    ∃ hp' lg', LL.foldTry f fuel l z hp lg = ((foldTryE g z xs).1, hp', lg') ∧
      ((∀ z', (foldTryE g z xs).1 ≠ .ok (.success z')) → ∃ l' a, R hp' l' (a :: (foldTryE g z xs).2)) :=
  foldTry_lpspec hf hS xs fuel hp l z lg hfuel h

/-- end to end: `list.Fold(eval e, z, f)` with a panicking `f` (the callbacks INSIDE `e` do not
    panic); also after the panic every memo cell has been started at most once. -/
theorem eval_fold_panic (f : Val → Val → GoM Val) (g : Val → Val → Except PanicVal Val) (hf : Outcome2 f g)
    (e : LExpr) (x : Val) (hpure : e.Pure) (z : Val) (fuel : Nat)
    (hfuel : e.bnd x + (e.denote x).length < fuel) (lg : Log) :
    ∃ l hp lg1 hp' lg', LL.eval fuel e x {} lg = (.ok l, hp, lg1) ∧
      LL.fold f fuel l z hp lg1 = ((foldE g z (e.denote x)).1, hp', lg') ∧ hp'.maxEvals ≤ 1 ∧
      (∀ p, (foldE g z (e.denote x)).1 = .error p →
        ∃ l' a, HeapRep (e.bnd x) hp' l' (a :: (foldE g z (e.denote x)).2)) := by
  obtain ⟨l, hp, lg1, he, hR, hwf⟩ := eval_rep e x hpure fuel (by omega) lg
  obtain ⟨hp', lg', h, hrest⟩ := list_fold_panic f g hf (heapRep_lsim _) hp l _ hR z fuel hfuel lg1
  refine ⟨l, hp, lg1, hp', lg', he, h, WF.maxEvals_le _ ?_, hrest⟩
  have := pres_fold f fuel l z hp lg1 hwf
  rw [h] at this; exact this


/-! ## demand: how many cells a traversal of a generated list creates and forces (audit finding 13)

`GenFresh g gp N hp l xs` (Lemmas/ListDemand.lean): `l` is the cursor of a `GenerateFrom` list that
denotes `xs`; its head cell is pending or done, its TAIL cell is PENDING, both are the LAST cells of the
heap, and `(number of head cells) + xs.length = N`.  The invariant is closed under `IsEmpty`, `Head`,
`Tail` (`generated_fresh_contract`), so every loop theorem above applies with `R := GenFresh g gp N`
and its conclusion then speaks about the heap: nothing beyond the cursor has been created, let alone
forced; every element passed has cost exactly one pair of cells; each head cell's closure (one call
of the generator) has run at most once (`started_at_most_once`). -/

theorem generated_fresh_contract (g : Int → GoM (Option Val)) (gp : Int → Option Val) (hg : Total g gp) (N : Nat) :
    LSim 3 (GenFresh g gp N) := genFresh_lsim hg N

/-- `list.GenerateFrom(i, g)` on ANY heap yields a fresh cursor (non-vacuity of `GenFresh`) -/
theorem generated_starts_fresh (g : Int → GoM (Option Val)) (gp : Int → Option Val) (hp : Heap) (lg : Log) (i : Int)
    (xs : List Val) (he : Enum gp i xs) :
    ∃ l hp', makeList (.gen i g) (.gen i g) hp lg = (.ok l, hp', lg) ∧
      GenFresh g gp (hp.hs.size + 1 + xs.length) hp' l xs := genFresh_makeList hp lg i xs he

/-- what `GenFresh` says about the heap, spelled out -/
theorem fresh_cursor_is_last (g : Int → GoM (Option Val)) (gp : Int → Option Val) (N : Nat) (hp : Heap) (l : LV)
    (xs : List Val) (h : GenFresh g gp N hp l xs) :
    hp.hs.size + xs.length = N ∧ ∃ hc tc, l = .adaptor hc tc ∧ hc + 1 = hp.hs.size ∧ tc + 1 = hp.ts.size ∧
      ∃ i, hp.ts[tc]? = some (.pending (.gen i g), 0) := h.sizes

/-- `k` steps of a client's traversal: `IsEmpty`, `Head`, `Tail` on the cursor, `k` times -/
def walk (fuel : Nat) : Nat → LV → HM LV
  | 0, l => pure l
  | n + 1, l => do
    let _ ← LL.isEmpty fuel l
    let _ ← LL.head fuel l
    let t ← LL.tail fuel l
    walk fuel n t

/-- for every list representation satisfying the contract: `k` steps arrive at a cursor that denotes
    the list without its first `k` elements -/
theorem walk_lspec {k0 : Nat} {R : Heap → LV → List Val → Prop} (hS : LSim k0 R) (fuel : Nat) (hk : k0 ≤ fuel) :
    ∀ (n : Nat) (hp : Heap) (l : LV) (xs : List Val) (lg : Log), n ≤ xs.length → R hp l xs →
      ∃ l' hp' lg', walk fuel n l hp lg = (.ok l', hp', lg') ∧ R hp' l' (xs.drop n) := by
  intro n
  induction n with
  | zero => intro hp l xs lg _ hR; exact ⟨l, hp, lg, rfl, by simpa using hR⟩
  | succ n ih =>
    intro hp l xs lg hn hR
    cases xs with
    | nil => simp at hn
    | cons x xs =>
      obtain ⟨hp1, lg1, h1, hR1⟩ := hS.isEmpty fuel hp l (x :: xs) lg hk hR
      obtain ⟨hp2, lg2, h2, hR2⟩ := hS.head fuel hp1 l x xs lg1 hk hR1
      obtain ⟨t, hp3, lg3, h3, hR3⟩ := hS.tail fuel hp2 l x xs lg2 hk hR2
      obtain ⟨l', hp', lg', h4, hR4⟩ := ih hp3 t xs lg3 (by simpa using hn) hR3
      refine ⟨l', hp', lg', ?_, by simpa using hR4⟩
      simp only [walk]
      rw [bind_ok h1, bind_ok h2, bind_ok h3, h4]

/-- HOW MANY CELLS after `k` head / tail steps on a generated list (of any length ≥ `k`, e.g. a
    `Range` over billions): exactly `k` new head cells and `k` new tail cells have been created —
    hence at most `k + 1` generator calls have happened —, and the cursor's tail cell is pending and
    last: nothing of the remaining `xs.length − k` elements exists in the heap. -/
theorem walk_generated_cells (g : Int → GoM (Option Val)) (gp : Int → Option Val) (hg : Total g gp) (N : Nat)
    (fuel : Nat) (hfuel : 3 ≤ fuel) (n : Nat) (hp : Heap) (l : LV) (xs : List Val) (lg : Log) (hn : n ≤ xs.length)
    (h : GenFresh g gp N hp l xs) :
    ∃ l' hp' lg', walk fuel n l hp lg = (.ok l', hp', lg') ∧ GenFresh g gp N hp' l' (xs.drop n) ∧
      hp'.hs.size = hp.hs.size + n := by
  obtain ⟨l', hp', lg', e, hR⟩ := walk_lspec (genFresh_lsim hg N) fuel hfuel n hp l xs lg hn h
  refine ⟨l', hp', lg', e, hR, ?_⟩
  have h1 := h.sizes.1
  have h2 := hR.sizes.1
  simp only [List.length_drop] at h2
  omega

/-- `list.FoldTry` over a generated list: at a failure the cursor rests on the failing element, its
    tail cell is pending and is the last cell of the heap, and the heap has exactly one more cell
    pair per element BEFORE the failing one — what follows has not been forced (it has not even been
    allocated). -/
theorem foldTry_stops_forcing (f : Val → Val → GoM (Try Val)) (gt : Val → Val → Try Val) (hf : Total2 f gt)
    (g : Int → GoM (Option Val)) (gp : Int → Option Val) (hg : Total g gp) (N : Nat)
    (hp : Heap) (l : LV) (xs : List Val) (h : GenFresh g gp N hp l xs) (z : Val)
    (fuel : Nat) (hfuel : 3 + xs.length < fuel) (lg : Log) :
    ∃ hp' lg', LL.foldTry f fuel l z hp lg = (.ok (foldTryL gt z xs).1, hp', lg') ∧
      ((foldTryL gt z xs).1.isSuccess = false →
        ∃ l' a, GenFresh g gp N hp' l' (a :: (foldTryL gt z xs).2) ∧
          hp'.hs.size + (foldTryL gt z xs).2.length + 1 = hp.hs.size + xs.length) := by
  obtain ⟨hp', lg', e, hrest⟩ := foldTry_lspec hf (genFresh_lsim hg N) xs fuel hp l z lg hfuel h
  refine ⟨hp', lg', e, fun hfail => ?_⟩
  obtain ⟨l', a, hR⟩ := hrest hfail
  refine ⟨l', a, hR, ?_⟩
  have h1 := h.sizes.1
  have h2 := hR.sizes.1
  simp only [List.length_cons] at h2
  omega

theorem foldOption_stops_forcing (f : Val → Val → GoM (Option Val)) (go : Val → Val → Option Val) (hf : Total2 f go)
    (g : Int → GoM (Option Val)) (gp : Int → Option Val) (hg : Total g gp) (N : Nat)
    (hp : Heap) (l : LV) (xs : List Val) (h : GenFresh g gp N hp l xs) (z : Val)
    (fuel : Nat) (hfuel : 3 + xs.length < fuel) (lg : Log) :
    ∃ hp' lg', LL.foldOption f fuel l z hp lg = (.ok (foldOptionL go z xs).1, hp', lg') ∧
      ((foldOptionL go z xs).1 = none →
        ∃ l' a, GenFresh g gp N hp' l' (a :: (foldOptionL go z xs).2) ∧
          hp'.hs.size + (foldOptionL go z xs).2.length + 1 = hp.hs.size + xs.length) := by
  obtain ⟨hp', lg', e, hrest⟩ := foldOption_lspec hf (genFresh_lsim hg N) xs fuel hp l z lg hfuel h
  refine ⟨hp', lg', e, fun hfail => ?_⟩
  obtain ⟨l', a, hR⟩ := hrest hfail
  refine ⟨l', a, hR, ?_⟩
  have h1 := h.sizes.1
  have h2 := hR.sizes.1
  simp only [List.length_cons] at h2
  omega

theorem foldError_stops_forcing (f : Val → GoM (Option Err)) (ge : Val → Option Err) (hf : Total f ge)
    (g : Int → GoM (Option Val)) (gp : Int → Option Val) (hg : Total g gp) (N : Nat)
    (hp : Heap) (l : LV) (xs : List Val) (h : GenFresh g gp N hp l xs)
    (fuel : Nat) (hfuel : 3 + xs.length < fuel) (lg : Log) :
    ∃ hp' lg', LL.foldError f fuel l hp lg = (.ok (foldErrorL ge xs).1, hp', lg') ∧
      ((foldErrorL ge xs).1.isSome = true →
        ∃ l' a, GenFresh g gp N hp' l' (a :: (foldErrorL ge xs).2) ∧
          hp'.hs.size + (foldErrorL ge xs).2.length + 1 = hp.hs.size + xs.length) := by
  obtain ⟨hp', lg', e, hrest⟩ := foldError_lspec hf (genFresh_lsim hg N) xs fuel hp l lg hfuel h
  refine ⟨hp', lg', e, fun hfail => ?_⟩
  obtain ⟨l', a, hR⟩ := hrest hfail
  refine ⟨l', a, hR, ?_⟩
  have h1 := h.sizes.1
  have h2 := hR.sizes.1
  simp only [List.length_cons] at h2
  omega

/-- END TO END from the empty heap: `list.FoldTry(list.Range(a, b), z, f)`.  Building the range
    creates ONE pair of cells whatever its length; when `f` fails at an element, the heap holds exactly
    `1 + (number of elements before it)` head cells, the tail cell of the failing element is pending
    and last, and no cell has been started more than once: the rest of the range — however long — has
    not been touched. -/
theorem foldTry_range_stops_forcing (f : Val → Val → GoM (Try Val)) (gt : Val → Val → Try Val) (hf : Total2 f gt)
    (closed : Bool) (a b : Int) (x z : Val) (lg : Log) (fuel : Nat)
    (hfuel : 3 + ((LExpr.range closed a b).denote x).length < fuel) :
    let xs := (LExpr.range closed a b).denote x
    ∃ l hp hp' lg', LL.eval 1 (.range closed a b) x {} lg = (.ok l, hp, lg) ∧ hp.hs.size = 1 ∧
      LL.foldTry f fuel l z hp lg = (.ok (foldTryL gt z xs).1, hp', lg') ∧ hp'.maxEvals ≤ 1 ∧
      ((foldTryL gt z xs).1.isSuccess = false →
        hp'.hs.size + (foldTryL gt z xs).2.length = xs.length ∧
        ∃ l' e, GenFresh (rangeGen closed b) (rangeP closed b) (1 + xs.length) hp' l' (e :: (foldTryL gt z xs).2)) := by
  intro xs
  obtain ⟨l, hp, he, hsz, hF⟩ := range_eval_fresh closed a b x 0 lg
  obtain ⟨hp', lg', hfold, hrest⟩ := foldTry_stops_forcing f gt hf _ _ (rangeGen_total closed b) _ hp l xs hF z fuel hfuel lg
  refine ⟨l, hp, hp', lg', he, hsz, hfold, ?_, fun hfail => ?_⟩
  · apply WF.maxEvals_le
    have h1 : hp.WF := by
      have := (presAll 1).eval (.range closed a b) x {} lg Heap.WF.empty
      rw [he] at this; exact this
    have hA := presAll fuel
    have hP : Pres (LL.foldTry f fuel l z) := pres_foldTry f fuel l z
    have := hP hp lg h1
    rw [hfold] at this; exact this
  · obtain ⟨l', e, hG, hcount⟩ := hrest hfail
    exact ⟨by omega, l', e, hG⟩

end FpVerif.Spec.C12List
