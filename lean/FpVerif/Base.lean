import FpVerif.Sexp
/-!
# Semantics prelude: effect monad `GoM`, universal value `Val`, errors, Option/Try models.

A Go `func(A) B` supplied by the user is modelled as `A → GoM B`: it may panic (`throw`) and
it may leave observable events in a log (so that "which callbacks ran, how often, in which
order" is part of the equality of two computations).
-/
namespace FpVerif

/-- Error values (`error` in Go), as far as the library distinguishes them. -/
inductive Err where
  | nil                         -- Go's nil error: the zero value `Try{}` and `Failure(nil)`
  | code (n : Int)              -- a user error, identified by a number
  | optionEmpty                 -- fp.ErrOptionEmpty
  | tryNotFailed                -- fp.ErrTryNotFailed
  | futureNotFailed             -- fp.ErrFutureNotFailed
  | notInit                     -- "Try not initialized correctly"
  | panicErr (p : String)       -- try.panicError exposing the panic value
  | leftVal (s : String)        -- an Either-left rendered as text (either -> try bridges)
  deriving DecidableEq, Repr, Inhabited

def Err.toStr : Err → String
  | .nil => "nil"
  | .code n => s!"e{n}"
  | .optionEmpty => "ErrOptionEmpty"
  | .tryNotFailed => "ErrTryNotFailed"
  | .futureNotFailed => "ErrFutureNotFailed"
  | .notInit => "ErrNotInit"
  | .panicErr p => s!"panicErr({p})"
  | .leftVal s => s!"left({s})"

instance : ToString Err := ⟨Err.toStr⟩

/-- Panic values, canonically rendered. -/
abbrev PanicVal := String

abbrev Event := String

/-- panic + event log (the log survives a panic, as it does in Go). -/
abbrev GoM := ExceptT PanicVal (StateM (List Event))

def emit (e : Event) : GoM Unit := modify (· ++ [e])

def goPanic {α : Type} (p : PanicVal) : GoM α := throw p

/-- Run a computation from the empty log. -/
def GoM.exec {α : Type} (m : GoM α) : Except PanicVal α × List Event :=
  (m.run.run [])

/-- `fp.Try[T]`.  `failure .nil` is the zero value `Try{}` (not successful, `err == nil`). -/
inductive Try (α : Type) where
  | success (v : α)
  | failure (e : Err)
  deriving DecidableEq, Repr, Inhabited

namespace Try
def isSuccess {α : Type} : Try α → Bool
  | success _ => true
  | failure _ => false

/-- `t.Failed().Get()`: the error of a failure.  On a success `Failed()` is `Failure(ErrTryNotFailed)`
    and on a failure whose `err` is nil it is `Failure("Try not initialized correctly")`; `Get` on
    either panics with that error. -/
def failedGet {α : Type} : Try α → GoM Err
  | success _ => throw "ErrTryNotFailed"
  | failure .nil => throw "ErrNotInit"
  | failure e => pure e

@[simp] theorem failedGet_failure {α : Type} (e : Err) (h : e ≠ .nil) :
    failedGet (failure e : Try α) = pure e := by
  cases e <;> simp_all [failedGet]

@[simp] theorem failedGet_nil {α : Type} : failedGet (failure .nil : Try α) = throw "ErrNotInit" := rfl
end Try

/-- Universal first-order value used by the oracles (Go side: everything instantiated at `any`). -/
inductive Val where
  | int (n : Int)
  | str (s : String)
  | unit
  | nil                         -- Go's nil (an `any` holding nothing)
  | tup (xs : List Val)
  | seq (xs : List Val)
  | none
  | some (v : Val)
  | succ (v : Val)
  | fail (e : Err)
  | left (v : Val)
  | right (v : Val)
  deriving Repr, Inhabited

partial def Val.toStr : Val → String
  | .int n => toString n
  | .str s => "\"" ++ s ++ "\""
  | .unit => "unit"
  | .nil => "nil"
  | .tup xs => "(" ++ ",".intercalate (xs.map Val.toStr) ++ ")"
  | .seq xs => "[" ++ ",".intercalate (xs.map Val.toStr) ++ "]"
  | .none => "None"
  | .some v => "Some(" ++ v.toStr ++ ")"
  | .succ v => "Success(" ++ v.toStr ++ ")"
  | .fail .nil => "Failure(ErrNotInit)"
  | .fail e => "Failure(" ++ e.toStr ++ ")"
  | .left v => "Left(" ++ v.toStr ++ ")"
  | .right v => "Right(" ++ v.toStr ++ ")"

instance : ToString Val := ⟨Val.toStr⟩

def Val.ofTry : Try Val → Val
  | .success v => .succ v
  | .failure e => .fail e

def Val.ofOption : Option Val → Val
  | .some v => .some v
  | .none => .none

def Val.asInt : Val → Int
  | .int n => n
  | _ => 0

/-- Render the outcome of a computation: value or panic, then the event log. -/
def renderOutcome {α : Type} (show_ : α → String) (r : Except PanicVal α × List Event) : String :=
  let v := match r.1 with
    | .ok a => show_ a
    | .error p => s!"panic({p})"
  v ++ " | " ++ ",".intercalate r.2

end FpVerif
