import FpVerif.Model.LazyList
import FpVerif.Lemmas.IterTerm
/-!
# Lazy list: memo cells

* a `done` cell is returned without running anything (`forceH_done` …);
* heap well-formedness `Heap.WF` — a pending cell's closure has been started 0 times, a running or
  done cell's exactly once — is preserved by every operation of the model (`presAll`, by mutual
  induction on the fuel over the thirteen mutually recursive functions), hence no closure is ever
  started twice.
-/
namespace FpVerif.LL
open FpVerif.It IM

/-- a computation that returns is not affected by the panic clean-up -/
theorem onPanic_ok {X : Type} {m : HM X} {f : Heap → Heap} {hp hp' : Heap} {lg lg' : Log} {x : X}
    (h : m hp lg = (.ok x, hp', lg')) : LL.onPanic m f hp lg = (.ok x, hp', lg') := by
  simp [LL.onPanic, h]

theorem onPanic_err {X : Type} {m : HM X} {f : Heap → Heap} {hp hp' : Heap} {lg lg' : Log} {p : PanicVal}
    (h : m hp lg = (.error p, hp', lg')) : LL.onPanic m f hp lg = (.error p, f hp', lg') := by
  simp [LL.onPanic, h]

/-! ## memoisation: a done cell is never run again -/

theorem forceH_done (fuel c : Nat) (hp : Heap) (lg : Log) (v : Option Val) (n : Nat)
    (h : hp.hs[c]? = some (.done v, n)) : forceH (fuel + 1) c hp lg = (.ok v, hp, lg) := by
  simp [forceH, bind_apply, h]

theorem forceT_done (fuel c : Nat) (hp : Heap) (lg : Log) (v : LV) (n : Nat)
    (h : hp.ts[c]? = some (.done v, n)) : forceT (fuel + 1) c hp lg = (.ok v, hp, lg) := by
  simp [forceT, bind_apply, h]

theorem forceL_done (fuel c : Nat) (hp : Heap) (lg : Log) (v : LV) (n : Nat)
    (h : hp.ls[c]? = some (.done v, n)) : forceL (fuel + 1) c hp lg = (.ok v, hp, lg) := by
  simp [forceL, bind_apply, h]

/-- forcing a pending cell whose closure returns stores the value: the cell is done afterwards -/
theorem forceH_stores (fuel c : Nat) (hp hp' : Heap) (lg lg' : Log) (v : Option Val)
    (h : forceH (fuel + 1) c hp lg = (.ok v, hp', lg')) (hc : c < hp'.hs.size) :
    ∃ n, hp'.hs[c]? = some (.done v, n) := by
  simp only [forceH, bind_apply, get_apply] at h
  rcases hcell : hp.hs[c]? with _ | ⟨cell, n⟩
  · simp [hcell] at h
  · rcases cell with t | _ | w
    · simp only [hcell, bind_apply, modify_apply] at h
      split at h
      · rename_i x hp2 lg2 hr
        simp only [pure_apply, Prod.mk.injEq, Except.ok.injEq] at h
        obtain ⟨rfl, rfl, rfl⟩ := h
        refine ⟨n + 1, ?_⟩
        simp only [Array.set!_eq_setIfInBounds, Array.size_setIfInBounds] at hc ⊢
        simp [Array.getElem?_setIfInBounds, hc]
      · simp at h
    · simp [hcell] at h
    · simp only [hcell, pure_apply, Prod.mk.injEq, Except.ok.injEq] at h
      obtain ⟨rfl, rfl, rfl⟩ := h
      exact ⟨n, hcell⟩

/-! ## every memo cell's closure is started at most once -/

/-- a pending cell has never been started, a running or done cell exactly once -/
def cellOk {T V : Type} : Cell T V × Nat → Prop
  | (.pending _, n) => n = 0
  | (_, n) => n = 1

structure Heap.WF (hp : Heap) : Prop where
  hs : ∀ (i : Nat) c, hp.hs[i]? = some c → cellOk c
  ts : ∀ (i : Nat) c, hp.ts[i]? = some c → cellOk c
  ls : ∀ (i : Nat) c, hp.ls[i]? = some c → cellOk c

theorem Heap.WF.empty : ({} : Heap).WF := ⟨by simp, by simp, by simp⟩

/-- the computation keeps the heap well-formed (whether it returns or panics) -/
def Pres {X : Type} (m : HM X) : Prop := ∀ hp lg, hp.WF → (m hp lg).2.1.WF

theorem Pres.pure {X : Type} (x : X) : Pres (pure x : HM X) := fun _ _ h => h
theorem Pres.panic {X : Type} (p : PanicVal) : Pres (IM.panic p : HM X) := fun _ _ h => h
theorem Pres.liftG {X : Type} (g : GoM X) : Pres (IM.liftG g : HM X) := fun _ _ h => h

theorem Pres.bind {X Y : Type} {m : HM X} {f : X → HM Y} (hm : Pres m) (hf : ∀ x, Pres (f x)) :
    Pres (m >>= f) := by
  intro hp lg wf
  have h1 := hm hp lg wf
  simp only [bind_apply]
  rcases hr : m hp lg with ⟨_ | x, hp1, lg1⟩
  · simpa [hr] using h1
  · simp only [hr] at h1 ⊢
    exact hf x hp1 lg1 h1

/-- the clean-up a memo cell performs when its closure panics keeps the heap well-formed -/
theorem Pres.onPanic {X : Type} {m : HM X} {f : Heap → Heap} (hm : Pres m) (hf : ∀ hp, hp.WF → (f hp).WF) :
    Pres (LL.onPanic m f) := by
  intro hp lg wf
  have h1 := hm hp lg wf
  unfold LL.onPanic
  rcases hr : m hp lg with ⟨_ | x, hp1, lg1⟩
  · simp only [hr] at h1 ⊢
    exact hf hp1 h1
  · simpa [hr] using h1

theorem Pres.ite {X : Type} {c : Prop} [Decidable c] {a b : HM X} (ha : Pres a) (hb : Pres b) :
    Pres (if c then a else b) := by
  split <;> assumption

theorem arr_push_ok {C : Type} {P : C → Prop} {a : Array C} {x : C}
    (h : ∀ (i : Nat) c, a[i]? = some c → P c) (hx : P x) : ∀ (i : Nat) c, (a.push x)[i]? = some c → P c := by
  intro i c hc
  rw [Array.getElem?_push] at hc
  split at hc
  · cases hc; exact hx
  · exact h i c hc

theorem arr_set_ok {C : Type} {P : C → Prop} {a : Array C} {x : C} (j : Nat)
    (h : ∀ (i : Nat) c, a[i]? = some c → P c) (hx : P x) : ∀ (i : Nat) c, (a.set! j x)[i]? = some c → P c := by
  intro i c hc
  simp only [Array.set!_eq_setIfInBounds, Array.getElem?_setIfInBounds] at hc
  split at hc
  · split at hc
    · cases hc; exact hx
    · cases hc
  · exact h i c hc

theorem pres_makeList (h : HThunk) (t : TThunk) : Pres (makeList h t) := by
  intro hp lg wf
  exact ⟨arr_push_ok wf.hs rfl, arr_push_ok wf.ts rfl, wf.ls⟩

theorem pres_allocLazy (opt : LV) (k : FnK) : Pres (allocLazy opt k) := by
  intro hp lg wf
  exact ⟨wf.hs, wf.ts, arr_push_ok wf.ls rfl⟩

theorem pres_allocIter (id : Int) (xs : List Val) : Pres (allocIter id xs) := by
  intro hp lg wf
  exact ⟨wf.hs, wf.ts, wf.ls⟩

theorem pres_iterNextOption (it : Nat) : Pres (iterNextOption it) := by
  intro hp lg wf
  show (iterNextOption it hp lg).2.1.WF
  unfold iterNextOption
  split
  · split
    · exact ⟨wf.hs, wf.ts, wf.ls⟩
    · exact wf
  · exact wf

theorem pres_setH (c : Nat) (x : Cell HThunk (Option Val) × Nat) (hx : cellOk x) :
    Pres (IM.modify fun hp => { hp with hs := hp.hs.set! c x } : HM Unit) :=
  fun _ _ wf => ⟨arr_set_ok c wf.hs hx, wf.ts, wf.ls⟩

theorem pres_setT (c : Nat) (x : Cell TThunk LV × Nat) (hx : cellOk x) :
    Pres (IM.modify fun hp => { hp with ts := hp.ts.set! c x } : HM Unit) :=
  fun _ _ wf => ⟨wf.hs, arr_set_ok c wf.ts hx, wf.ls⟩

theorem pres_setL (c : Nat) (x : Cell (LV × FnK) LV × Nat) (hx : cellOk x) :
    Pres (IM.modify fun hp => { hp with ls := hp.ls.set! c x } : HM Unit) :=
  fun _ _ wf => ⟨wf.hs, wf.ts, arr_set_ok c wf.ls hx⟩

theorem pres_forceH {fuel : Nat} (ih : ∀ t, Pres (runH fuel t)) (c : Nat) : Pres (LL.forceH (fuel + 1) c) := by
  intro hp lg wf
  show (LL.forceH (fuel + 1) c hp lg).2.1.WF
  rw [LL.forceH]
  simp only [bind_apply, get_apply]
  rcases hcell : hp.hs[c]? with _ | ⟨cell, n⟩
  · simpa using wf
  · rcases cell with t | _ | w
    · have hn : n = 0 := wf.hs c _ hcell
      subst hn
      exact (Pres.bind (pres_setH c (.running, 0 + 1) rfl) (fun _ => Pres.bind
        (Pres.onPanic (ih t) (fun hp wf => pres_setH c (.done none, 0 + 1) rfl hp [] wf)) (fun v =>
        Pres.bind (pres_setH c (.done v, 0 + 1) rfl) (fun _ => Pres.pure v)))) hp lg wf
    · simpa using wf
    · simpa using wf

theorem pres_forceT {fuel : Nat} (ih : ∀ t, Pres (runT fuel t)) (c : Nat) : Pres (LL.forceT (fuel + 1) c) := by
  intro hp lg wf
  show (LL.forceT (fuel + 1) c hp lg).2.1.WF
  rw [LL.forceT]
  simp only [bind_apply, get_apply]
  rcases hcell : hp.ts[c]? with _ | ⟨cell, n⟩
  · simpa using wf
  · rcases cell with t | _ | w
    · have hn : n = 0 := wf.ts c _ hcell
      subst hn
      exact (Pres.bind (pres_setT c (.running, 0 + 1) rfl) (fun _ => Pres.bind
        (Pres.onPanic (ih t) (fun hp wf => pres_setT c (.done .nilIface, 0 + 1) rfl hp [] wf)) (fun v =>
        Pres.bind (pres_setT c (.done v, 0 + 1) rfl) (fun _ => Pres.pure v)))) hp lg wf
    · simpa using wf
    · simpa using wf

theorem pres_forceL {fuel : Nat} (ihh : ∀ l, Pres (head fuel l)) (ihk : ∀ k x, Pres (applyK fuel k x)) (c : Nat) :
    Pres (LL.forceL (fuel + 1) c) := by
  intro hp lg wf
  show (LL.forceL (fuel + 1) c hp lg).2.1.WF
  rw [LL.forceL]
  simp only [bind_apply, get_apply]
  rcases hcell : hp.ls[c]? with _ | ⟨cell, n⟩
  · simpa using wf
  · rcases cell with ⟨opt, k⟩ | _ | w
    · have hn : n = 0 := wf.ls c _ hcell
      subst hn
      exact (Pres.bind (pres_setL c (.running, 0 + 1) rfl) (fun _ => Pres.bind
        (Pres.onPanic (Pres.bind (ihh opt) (fun x => ihk k x))
          (fun hp wf => pres_setL c (.done .nilIface, 0 + 1) rfl hp [] wf)) (fun v =>
        Pres.bind (pres_setL c (.done v, 0 + 1) rfl) (fun _ => Pres.pure v)))) hp lg wf
    · simpa using wf
    · simpa using wf

/-- all heap operations of the model, at a given fuel -/
structure PresAll (fuel : Nat) : Prop where
  isEmpty : ∀ l, Pres (LL.isEmpty fuel l)
  head : ∀ l, Pres (LL.head fuel l)
  tail : ∀ l, Pres (LL.tail fuel l)
  headOpt : ∀ l, Pres (LL.headOpt fuel l)
  forceH : ∀ c, Pres (LL.forceH fuel c)
  forceT : ∀ c, Pres (LL.forceT fuel c)
  forceL : ∀ c, Pres (LL.forceL fuel c)
  applyK : ∀ k x, Pres (LL.applyK fuel k x)
  runH : ∀ t, Pres (LL.runH fuel t)
  runT : ∀ t, Pres (LL.runT fuel t)
  flatMap : ∀ l k, Pres (LL.flatMap fuel l k)
  combine : ∀ a b, Pres (LL.combine fuel a b)
  eval : ∀ e x, Pres (LL.eval fuel e x)

macro "pres_step" : tactic =>
  `(tactic| first
    | (cases ‹_ + 1 = Nat.succ _›)
    | (exact fun h => absurd h (Nat.succ_ne_zero _))
    | exact Pres.pure _
    | exact Pres.panic _
    | exact Pres.liftG _
    | exact pres_makeList _ _
    | exact pres_allocLazy _ _
    | exact pres_allocIter _ _
    | exact pres_iterNextOption _
    | omega
    | (apply PresAll.isEmpty; assumption)
    | (apply PresAll.head; assumption)
    | (apply PresAll.tail; assumption)
    | (apply PresAll.headOpt; assumption)
    | (apply PresAll.forceH; assumption)
    | (apply PresAll.forceT; assumption)
    | (apply PresAll.forceL; assumption)
    | (apply PresAll.applyK; assumption)
    | (apply PresAll.runH; assumption)
    | (apply PresAll.runT; assumption)
    | (apply PresAll.flatMap; assumption)
    | (apply PresAll.combine; assumption)
    | (apply PresAll.eval; assumption)
    | (refine Pres.bind ?_ (fun _ => ?_))
    | (apply Pres.ite)
    | split)

attribute [local irreducible] LL.isEmpty LL.head LL.tail LL.headOpt LL.forceH LL.forceT LL.forceL LL.applyK LL.runH LL.runT
  LL.flatMap LL.combine LL.eval in
theorem presAll : ∀ fuel, PresAll fuel := by
  intro fuel
  induction fuel with
  | zero =>
    constructor <;> intros <;>
      first
        | (rw [LL.isEmpty]; exact Pres.panic _) | (rw [LL.head]; exact Pres.panic _)
        | (rw [LL.tail]; exact Pres.panic _) | (rw [LL.headOpt]; exact Pres.panic _)
        | (rw [LL.forceH]; exact Pres.panic _) | (rw [LL.forceT]; exact Pres.panic _)
        | (rw [LL.forceL]; exact Pres.panic _) | (rw [LL.applyK]; exact Pres.panic _)
        | (rw [LL.runH]; exact Pres.panic _) | (rw [LL.runT]; exact Pres.panic _)
        | (rw [LL.flatMap]; exact Pres.panic _) | (rw [LL.combine]; exact Pres.panic _)
        | (rw [LL.eval]; exact Pres.panic _)
  | succ fuel ih =>
    constructor
    · intro l; cases l <;> rw [LL.isEmpty] <;> repeat pres_step
    · intro l; rw [LL.head.eq_def]; repeat pres_step
    · intro l; rw [LL.tail.eq_def]; repeat pres_step
    · intro l; rw [LL.headOpt]; repeat pres_step
    · intro c; exact pres_forceH ih.runH c
    · intro c; exact pres_forceT ih.runT c
    · intro c; exact pres_forceL ih.head ih.applyK c
    · intro k x; cases k <;> rw [LL.applyK] <;> repeat pres_step
    · intro t; cases t <;> rw [LL.runH] <;> repeat pres_step
    · intro t; cases t <;> rw [LL.runT] <;> repeat pres_step
    · intro l k; rw [LL.flatMap]; repeat pres_step
    · intro a b; rw [LL.combine]; repeat pres_step
    · intro e x
      cases e with
      | fromOption o => cases o <;> rw [LL.eval] <;> repeat pres_step
      | _ => rw [LL.eval] <;> repeat pres_step

theorem foldl_max_le {C : Type} (a : Array (C × Nat)) (b m : Nat)
    (h : ∀ (i : Nat) c, a[i]? = some c → c.2 ≤ b) (hm : m ≤ b) :
    a.foldl (fun m c => Nat.max m c.2) m ≤ b := by
  rw [← Array.foldl_toList]
  have h' : ∀ c ∈ a.toList, c.2 ≤ b := by
    intro c hc
    obtain ⟨i, hi, rfl⟩ := List.getElem_of_mem hc
    exact h i _ (by simp [Array.getElem?_eq_getElem (by simpa using hi)])
  generalize a.toList = l at h'
  induction l generalizing m with
  | nil => simpa using hm
  | cons c l ih =>
    simp only [List.foldl_cons]
    exact ih _ (Nat.max_le.mpr ⟨hm, h' c (List.mem_cons_self ..)⟩) (fun d hd => h' d (List.mem_cons_of_mem _ hd))

theorem cellOk_le {T V : Type} (c : Cell T V × Nat) (h : cellOk c) : c.2 ≤ 1 := by
  rcases c with ⟨_ | _ | _, n⟩ <;> simp [cellOk] at h <;> omega

theorem WF.maxEvals_le (hp : Heap) (wf : hp.WF) : hp.maxEvals ≤ 1 := by
  unfold Heap.maxEvals
  apply foldl_max_le _ _ _ (fun i c hc => cellOk_le c (wf.ls i c hc))
  apply foldl_max_le _ _ _ (fun i c hc => cellOk_le c (wf.ts i c hc))
  apply foldl_max_le _ _ _ (fun i c hc => cellOk_le c (wf.hs i c hc))
  omega

end FpVerif.LL
