import FpVerif.Lemmas.ListTy
/-!
# Lazy list typing: the heap updates of the model keep the heap consistent

All frame reasoning of the development is here: pushing fresh cells (`makeList`, `allocLazy`,
`allocIter`), overwriting a cell (`running`, `done`), advancing a captured iterator.
-/
namespace FpVerif.LL
open FpVerif.It IM

theorem push_cases {C : Type} {a : Array C} {x c : C} {i : Nat} (h : (a.push x)[i]? = some c) :
    (i < a.size ∧ a[i]? = some c) ∨ (i = a.size ∧ c = x) := by
  rw [Array.getElem?_push] at h
  split at h
  · next he => right; exact ⟨he, by cases h; rfl⟩
  · next hne =>
    left
    refine ⟨?_, h⟩
    exact (Array.getElem?_eq_some_iff.mp h).1

theorem set_cases {C : Type} {a : Array C} {x c : C} {i j : Nat} (h : (a.set! j x)[i]? = some c) :
    (i ≠ j ∧ a[i]? = some c) ∨ (i = j ∧ j < a.size ∧ c = x) := by
  simp only [Array.set!_eq_setIfInBounds, Array.getElem?_setIfInBounds] at h
  split at h
  · next he =>
    split at h
    · next hlt => right; exact ⟨he.symm, hlt, by cases h; rfl⟩
    · cases h
  · next hne => left; exact ⟨fun e => hne e.symm, h⟩

theorem size_set! {C : Type} (a : Array C) (j : Nat) (x : C) : (a.set! j x).size = a.size := by
  simp [Array.set!_eq_setIfInBounds]

theorem get_lt {C : Type} {a : Array C} {c : C} {i : Nat} (h : a[i]? = some c) : i < a.size :=
  (Array.getElem?_eq_some_iff.mp h).1

/-! ## pushing cells -/

theorem Cons.pushHT {S : Sty} {hp : Heap} (hC : Cons S hp) {h : HThunk} {t : TThunk} {hty : HTy} {tty : TTy}
    (hh : HThunkOK S h hty) (h2 : 2 ≤ hty.need)
    (ht : ∀ d, tty.d = some d → TThunkOK S hp.its t d tty.need tty.K) (t2 : 2 ≤ tty.need)
    (hcol : ∀ it, t = .collect it → it < hp.its.size ∧ NoPendCollect hp it) :
    Cons (S.pushHT hty tty)
      { hp with hs := hp.hs.push (.pending h, 0), ts := hp.ts.push (.pending t, 0) } := by
  have hE := Ext.pushHT S hty tty
  refine ⟨by simp [Sty.pushHT, hC.nh], by simp [Sty.pushHT, hC.nt], hC.nl, ?_, ?_, ?_, ?_, ?_⟩
  · intro c cell n hc
    rcases push_cases hc with ⟨hlt, hc⟩ | ⟨he, hx⟩
    · rw [hE.hs c (by rw [hC.nh]; exact hlt)]
      exact ⟨(hC.hs c cell n hc).1, (hC.hs c cell n hc).2.mono hE⟩
    · cases hx
      have : (S.pushHT hty tty).hs c = hty := by simp [Sty.pushHT, he, hC.nh]
      rw [this]
      exact ⟨h2, HThunkOK.mono hE hh⟩
  · intro c cell n hc
    rcases push_cases hc with ⟨hlt, hc⟩ | ⟨he, hx⟩
    · rw [hE.ts c (by rw [hC.nt]; exact hlt)]
      exact ⟨(hC.ts c cell n hc).1, (hC.ts c cell n hc).2.mono hE⟩
    · cases hx
      have : (S.pushHT hty tty).ts c = tty := by simp [Sty.pushHT, he, hC.nt]
      rw [this]
      exact ⟨t2, fun d hd => TThunkOK.mono hE (ht d hd)⟩
  · intro c cell n hc
    exact ⟨(hC.ls c cell n hc).1, (hC.ls c cell n hc).2.mono hE⟩
  · intro c c' it n n' h1 h2'
    rcases push_cases h1 with ⟨_, g1⟩ | ⟨he1, hx1⟩
    · rcases push_cases h2' with ⟨_, g2⟩ | ⟨he2, hx2⟩
      · exact hC.uniq c c' it n n' g1 g2
      · cases hx2
        exact absurd g1 ((hcol it rfl).2 c n)
    · cases hx1
      rcases push_cases h2' with ⟨_, g2⟩ | ⟨he2, hx2⟩
      · exact absurd g2 ((hcol it rfl).2 c' n')
      · rw [he1, he2]
  · intro c it n h1
    rcases push_cases h1 with ⟨_, g1⟩ | ⟨he1, hx1⟩
    · exact hC.itsb c it n g1
    · cases hx1; exact (hcol it rfl).1

theorem RunSub.pushHT (hp : Heap) (h : HThunk) (t : TThunk) :
    RunSub { hp with hs := hp.hs.push (.pending h, 0), ts := hp.ts.push (.pending t, 0) } hp := by
  refine ⟨fun c n hc => ?_, fun c n hc => ?_, fun c n hc => ⟨n, hc⟩⟩
  · rcases push_cases hc with ⟨_, hc⟩ | ⟨_, hx⟩
    · exact ⟨n, hc⟩
    · cases hx
  · rcases push_cases hc with ⟨_, hc⟩ | ⟨_, hx⟩
    · exact ⟨n, hc⟩
    · cases hx

theorem DoneSub.pushHT (hp : Heap) (h : HThunk) (t : TThunk) :
    DoneSub hp { hp with hs := hp.hs.push (.pending h, 0), ts := hp.ts.push (.pending t, 0) } :=
  ⟨fun c v n hc => by rw [push_get_lt _ _ _ (get_lt hc)]; exact hc,
   fun c v n hc => by rw [push_get_lt _ _ _ (get_lt hc)]; exact hc⟩

/-- `fp.MakeList(head, tail)` with closures that are well-typed for `hty`, `tty` -/
theorem spec_makeList {S : Sty} {hp : Heap} (hC : Cons S hp) {h : HThunk} {t : TThunk} {hty : HTy} {tty : TTy}
    (hh : HThunkOK S h hty) (h2 : 2 ≤ hty.need)
    (ht : ∀ d, tty.d = some d → TThunkOK S hp.its t d tty.need tty.K) (t2 : 2 ≤ tty.need)
    (hcol : ∀ it, t = .collect it → it < hp.its.size ∧ NoPendCollect hp it) :
    Spec (makeList h t) S hp (fun S' v => v = .adaptor S.nh S.nt ∧ S' = S.pushHT hty tty) := by
  intro lg
  refine ⟨.adaptor hp.hs.size hp.ts.size, S.pushHT hty tty, _, lg, rfl,
    ⟨hC.pushHT hh h2 ht t2 hcol, Ext.pushHT S hty tty, RunSub.pushHT hp h t, DoneSub.pushHT hp h t⟩, ?_, rfl⟩
  rw [hC.nh, hC.nt]

/-- the fresh adaptor denotes `d` -/
theorem VDen.fresh (S : Sty) (d : DenV) (K : Nat) (hty : HTy) (tty : TTy) (ho : hty.o = d.head?)
    (hn : hty.need < K) (htd : tty.d = d.tailTy) (htn : tty.need < K) (htK : tty.K ≤ K) :
    VDen (S.pushHT hty tty) (.adaptor S.nh S.nt) d K := by
  refine ⟨by simp [Sty.pushHT], by simp [Sty.pushHT, ho], by simp [Sty.pushHT, hn], fun hne => ?_⟩
  refine ⟨by simp [Sty.pushHT], ?_, by simp [Sty.pushHT, htn], by simp [Sty.pushHT, htK]⟩
  simp [Sty.pushHT, htd, DenV.tailTy, hne]

theorem Cons.pushL {S : Sty} {hp : Heap} (hC : Cons S hp) {opt : LV} {k : FnK} {lty : LTy}
    (hl : LThunkOK S opt k lty) (l2 : 2 ≤ lty.need) :
    Cons (S.pushL lty) { hp with ls := hp.ls.push (.pending (opt, k), 0) } := by
  have hE := Ext.pushL S lty
  refine ⟨hC.nh, hC.nt, by simp [Sty.pushL, hC.nl], ?_, ?_, ?_, hC.uniq, hC.itsb⟩
  · intro c cell n hc
    exact ⟨(hC.hs c cell n hc).1, (hC.hs c cell n hc).2.mono hE⟩
  · intro c cell n hc
    exact ⟨(hC.ts c cell n hc).1, (hC.ts c cell n hc).2.mono hE⟩
  · intro c cell n hc
    rcases push_cases hc with ⟨hlt, hc⟩ | ⟨he, hx⟩
    · rw [hE.ls c (by rw [hC.nl]; exact hlt)]
      exact ⟨(hC.ls c cell n hc).1, (hC.ls c cell n hc).2.mono hE⟩
    · cases hx
      have : (S.pushL lty).ls c = lty := by simp [Sty.pushL, he, hC.nl]
      rw [this]
      exact ⟨l2, LThunkOK.mono hE hl⟩

theorem spec_allocLazy {S : Sty} {hp : Heap} (hC : Cons S hp) {opt : LV} {k : FnK} {lty : LTy}
    (hl : LThunkOK S opt k lty) (l2 : 2 ≤ lty.need) :
    Spec (allocLazy opt k) S hp (fun S' v => v = S.nl ∧ S' = S.pushL lty) := by
  intro lg
  refine ⟨hp.ls.size, S.pushL lty, _, lg, rfl,
    ⟨hC.pushL hl l2, Ext.pushL S lty, ?_, ⟨fun _ _ _ h => h, fun _ _ _ h => h⟩⟩, hC.nl.symm, rfl⟩
  refine ⟨fun c n hc => ⟨n, hc⟩, fun c n hc => ⟨n, hc⟩, fun c n hc => ?_⟩
  rcases push_cases hc with ⟨_, hc⟩ | ⟨_, hx⟩
  · exact ⟨n, hc⟩
  · cases hx

/-! ## overwriting a cell -/

theorem Cons.setH {S : Sty} {hp : Heap} (hC : Cons S hp) (c : Nat) (cell : Cell HThunk (Option Val)) (n : Nat)
    (hcell : HCellOK S (S.hs c) cell) : Cons S { hp with hs := hp.hs.set! c (cell, n) } := by
  refine ⟨by simp [size_set!, hC.nh], hC.nt, hC.nl, ?_, hC.ts, hC.ls, hC.uniq, hC.itsb⟩
  intro i cl m hi
  rcases set_cases hi with ⟨_, hi⟩ | ⟨he, hlt, hx⟩
  · exact hC.hs i cl m hi
  · cases hx
    subst he
    obtain ⟨old, hold⟩ : ∃ old, hp.hs[i]? = some old := ⟨hp.hs[i], by simp [hlt]⟩
    exact ⟨(hC.hs i old.1 old.2 hold).1, hcell⟩

theorem Cons.setL {S : Sty} {hp : Heap} (hC : Cons S hp) (c : Nat) (cell : Cell (LV × FnK) LV) (n : Nat)
    (hcell : LCellOK S (S.ls c) cell) : Cons S { hp with ls := hp.ls.set! c (cell, n) } := by
  refine ⟨hC.nh, hC.nt, by simp [size_set!, hC.nl], hC.hs, hC.ts, ?_, hC.uniq, hC.itsb⟩
  intro i cl m hi
  rcases set_cases hi with ⟨_, hi⟩ | ⟨he, hlt, hx⟩
  · exact hC.ls i cl m hi
  · cases hx
    subst he
    obtain ⟨old, hold⟩ : ∃ old, hp.ls[i]? = some old := ⟨hp.ls[i], by simp [hlt]⟩
    exact ⟨(hC.ls i old.1 old.2 hold).1, hcell⟩

/-- overwriting a tail cell by `running` / `done` (never by a pending closure) -/
theorem Cons.setT {S : Sty} {hp : Heap} (hC : Cons S hp) (c : Nat) (cell : Cell TThunk LV) (n : Nat)
    (hnp : ∀ t, cell ≠ .pending t)
    (hcell : TCellOK S hp.its (S.ts c) cell) : Cons S { hp with ts := hp.ts.set! c (cell, n) } := by
  refine ⟨hC.nh, by simp [size_set!, hC.nt], hC.nl, hC.hs, ?_, hC.ls, ?_, ?_⟩
  · intro i cl m hi
    rcases set_cases hi with ⟨_, hi⟩ | ⟨he, hlt, hx⟩
    · exact hC.ts i cl m hi
    · cases hx
      subst he
      obtain ⟨old, hold⟩ : ∃ old, hp.ts[i]? = some old := ⟨hp.ts[i], by simp [hlt]⟩
      exact ⟨(hC.ts i old.1 old.2 hold).1, hcell⟩
  · intro i j it m m' h1 h2
    rcases set_cases h1 with ⟨_, h1⟩ | ⟨_, _, hx⟩
    · rcases set_cases h2 with ⟨_, h2⟩ | ⟨_, _, hx⟩
      · exact hC.uniq i j it m m' h1 h2
      · cases hx; exact absurd rfl (hnp _)
    · cases hx; exact absurd rfl (hnp _)
  · intro i it m h1
    rcases set_cases h1 with ⟨_, h1⟩ | ⟨_, _, hx⟩
    · exact hC.itsb i it m h1
    · cases hx; exact absurd rfl (hnp _)

/-! ## the instrumented iterators captured by `Collect` -/

theorem Cons.allocIter {S : Sty} {hp : Heap} (hC : Cons S hp) (e : Int × List Val × Nat) :
    Cons S { hp with its := hp.its.push e } := by
  refine ⟨hC.nh, hC.nt, hC.nl, hC.hs, ?_, hC.ls, hC.uniq, ?_⟩
  · intro c cell n hc
    refine ⟨(hC.ts c cell n hc).1, ?_⟩
    have h := (hC.ts c cell n hc).2
    cases cell with
    | pending t =>
      intro d hd
      refine (h d hd).its (fun it hit => ?_)
      subst hit
      exact push_get_lt _ _ _ (hC.itsb c it n hc)
    | running => trivial
    | done v => exact h
  · intro c it n hc
    have := hC.itsb c it n hc
    simp only [Array.size_push]
    omega

theorem Cons.setIts {S : Sty} {hp : Heap} (hC : Cons S hp) (it : Nat) (e : Int × List Val × Nat)
    (hnp : NoPendCollect hp it) : Cons S { hp with its := hp.its.set! it e } := by
  refine ⟨hC.nh, hC.nt, hC.nl, hC.hs, ?_, hC.ls, hC.uniq, ?_⟩
  · intro c cell n hc
    refine ⟨(hC.ts c cell n hc).1, ?_⟩
    have h := (hC.ts c cell n hc).2
    cases cell with
    | pending t =>
      intro d hd
      refine (h d hd).its (fun it' hit => ?_)
      subst hit
      have hne : it' ≠ it := fun e => by subst e; exact hnp c n hc
      exact set_get_other _ _ _ _ hne
    | running => trivial
    | done v => exact h
  · intro c it' n hc
    have := hC.itsb c it' n hc
    simp only [size_set!]
    exact this

/-! ## the operations on values that are not in the heap -/

theorem isEmpty_plain (fuel : Nat) (l : LV) (hl : ∀ a b, l ≠ .adaptor a b) (hn : l ≠ .nilIface) (hp : Heap) (lg : Log) :
    LL.isEmpty (fuel + 1) l hp lg =
      (.ok (match l with | .nil => true | .cons _ _ => false | .seq xs => xs.isEmpty | _ => true), hp, lg) := by
  cases l with
  | nil => rw [LL.isEmpty.eq_def]; rfl
  | cons a t => rw [LL.isEmpty.eq_def]; rfl
  | seq xs => rw [LL.isEmpty.eq_def]; rfl
  | adaptor a b => exact absurd rfl (hl a b)
  | nilIface => exact absurd rfl hn

end FpVerif.LL
