import FpVerif.Lemmas.FutDrain
import FpVerif.Spec.C06Live
/-!
# Exactly one completer per derived promise (helper lemmas for `Spec/C06Once.lean`)

The multiset of TARGETS of all queued tasks and registered callbacks (`TM`): no derived promise is targeted
twice, and only pending derived promises are targeted.  Hence every `Complete` a task performs on a derived
promise succeeds; the only failing `Complete` calls are second completions of SOURCE promises by the environment.
-/
namespace FpVerif.Fut.Drain
open FpVerif FpVerif.Fut FpVerif.Spec.C06 Multiset

def poolT (n : Net) : Multiset (Option Nat) := ((n.pool.map taskTarget : List (Option Nat)) : Multiset (Option Nat))

def cbsT (n : Net) (B : Nat) : Multiset (Option Nat) :=
  ∑ q ∈ Finset.range B, (((n.cbs q).map cbTarget : List (Option Nat)) : Multiset (Option Nat))

def TM (n : Net) (B : Nat) : Multiset (Option Nat) := poolT n + cbsT n B

theorem cbsT_mono {n : Net} {B B' : Nat} (hS : Supp n B) (h : B ≤ B') : cbsT n B' = cbsT n B := by
  induction B', h using Nat.le_induction with
  | base => rfl
  | succ k hk ih =>
    unfold cbsT at ih ⊢
    rw [Finset.sum_range_succ, ih, hS k hk]
    simp

theorem T_mono {n : Net} {B B' : Nat} (hS : Supp n B) (h : B ≤ B') : TM n B' = TM n B := by
  unfold TM; rw [cbsT_mono hS h]

/-- changing the callback list of one promise `p < B` -/
theorem cbsT_update (n n' : Net) (B p : Nat) (hp : p < B) (l : List CB)
    (hc : n'.cbs = fun q => if q = p then l else n.cbs q) :
    cbsT n' B + (((n.cbs p).map cbTarget : List (Option Nat)) : Multiset (Option Nat))
      = cbsT n B + ((l.map cbTarget : List (Option Nat)) : Multiset (Option Nat)) := by
  unfold cbsT
  have hm : p ∈ Finset.range B := by simpa using hp
  rw [← Finset.add_sum_erase _ _ hm, ← Finset.add_sum_erase (Finset.range B) (fun q => (((n.cbs q).map cbTarget : List (Option Nat)) : Multiset (Option Nat))) hm]
  have : ∑ x ∈ (Finset.range B).erase p, (((n'.cbs x).map cbTarget : List (Option Nat)) : Multiset (Option Nat))
       = ∑ x ∈ (Finset.range B).erase p, (((n.cbs x).map cbTarget : List (Option Nat)) : Multiset (Option Nat)) := by
    refine Finset.sum_congr rfl fun x hx => ?_
    have hxp : x ≠ p := (Finset.mem_erase.1 hx).1
    simp [hc, hxp]
  rw [this]
  simp only [hc, if_true]
  abel

theorem T_onComplete {n : Net} {B : Nat} (hS : Supp n B) (p : Nat) (c : CB) :
    ∃ B', B ≤ B' ∧ Supp (onComplete p c n) B' ∧ TM (onComplete p c n) B' = TM n B + {cbTarget c} := by
  refine ⟨max B (p + 1), Nat.le_max_left _ _, ?_, ?_⟩
  · intro q hq
    unfold onComplete
    cases hst : n.status p with
    | some t => exact hS q (Nat.le_trans (Nat.le_max_left _ _) hq)
    | none =>
      have hqp : q ≠ p := by have := Nat.le_trans (Nat.le_max_right B (p + 1)) hq; omega
      simp only [hqp, if_false]
      exact hS q (Nat.le_trans (Nat.le_max_left _ _) hq)
  · have hS' : Supp n (max B (p + 1)) := supp_mono hS (Nat.le_max_left _ _)
    rw [← T_mono hS (Nat.le_max_left B (p + 1))]
    unfold onComplete
    cases hst : n.status p with
    | some t =>
      simp only [TM, poolT, cbsT, List.map_append, List.map_cons, List.map_nil, taskTarget]
      rw [← Multiset.coe_add]
      simp only [Multiset.coe_singleton]
      abel
    | none =>
      have hp : p < max B (p + 1) := Nat.lt_of_lt_of_le (Nat.lt_succ_self p) (Nat.le_max_right _ _)
      have h := cbsT_update n { n with cbs := fun q => if q = p then n.cbs p ++ [c] else n.cbs q } (max B (p + 1)) p hp
        (n.cbs p ++ [c]) rfl
      simp only [List.map_append, List.map_cons, List.map_nil] at h
      rw [← Multiset.coe_add, Multiset.coe_singleton] at h
      simp only [TM, poolT]
      have h2 : cbsT { n with cbs := fun q => if q = p then n.cbs p ++ [c] else n.cbs q } (max B (p + 1))
          = cbsT n (max B (p + 1)) + {cbTarget c} := by
        have h3 : cbsT { n with cbs := fun q => if q = p then n.cbs p ++ [c] else n.cbs q } (max B (p + 1))
              + (((n.cbs p).map cbTarget : List (Option Nat)) : Multiset (Option Nat))
            = (cbsT n (max B (p + 1)) + {cbTarget c}) + (((n.cbs p).map cbTarget : List (Option Nat)) : Multiset (Option Nat)) := by
          rw [h]; abel
        exact add_right_cancel h3
      rw [h2]
      abel

theorem T_complete {n : Net} {B : Nat} (hS : Supp n B) (p : Nat) (t : Try Val) :
    Supp (complete p t n) B ∧ TM (complete p t n) B = TM n B := by
  unfold complete
  cases hst : n.status p with
  | some t' => exact ⟨hS, rfl⟩
  | none =>
    refine ⟨?_, ?_⟩
    · intro q hq
      by_cases hqp : q = p
      · simp [hqp]
      · simp only [hqp, if_false]; exact hS q hq
    · by_cases hp : p < B
      · have h := cbsT_update n { n with
            status := fun q => if q = p then some t else n.status q
            pool := n.pool ++ (n.cbs p).map (fun c => Task.cb c t)
            cbs := fun q => if q = p then [] else n.cbs q
            completes := n.completes ++ [(p, true)] } B p hp [] rfl
        simp only [List.map_nil, Multiset.coe_nil, add_zero] at h
        simp only [TM, poolT, List.map_append, List.map_map]
        rw [← Multiset.coe_add, ← h]
        have : (taskTarget ∘ fun c => Task.cb c t) = cbTarget := by funext c; rfl
        rw [this]
        abel
      · have hnil : n.cbs p = [] := hS p (Nat.le_of_not_lt hp)
        simp only [TM, poolT, hnil, List.map_nil, List.append_nil]
        congr 1
        unfold cbsT
        refine Finset.sum_congr rfl fun x hx => ?_
        have hxp : x ≠ p := by have := Finset.mem_range.1 hx; omega
        simp [hxp]

theorem T_fresh {n : Net} {B : Nat} (hS : Supp n B) (sp : FExpr) :
    Supp (fresh sp n).2 B ∧ TM (fresh sp n).2 B = TM n B := ⟨hS, rfl⟩

theorem T_log {n : Net} {B : Nat} (hS : Supp n B) (evs : List Event) :
    Supp { n with log := n.log ++ evs } B ∧ TM { n with log := n.log ++ evs } B = TM n B := ⟨hS, rfl⟩

theorem T_addTask {n : Net} {B : Nat} (hS : Supp n B) (tk : Task) :
    Supp { n with pool := n.pool ++ [tk] } B ∧ TM { n with pool := n.pool ++ [tk] } B = TM n B + {taskTarget tk} := by
  refine ⟨hS, ?_⟩
  simp only [TM, poolT, cbsT, List.map_append, List.map_cons, List.map_nil]
  rw [← Multiset.coe_add, Multiset.coe_singleton]
  abel


theorem poolT_erase (l : List Task) : ∀ (i : Nat) (tk : Task), l[i]? = some tk →
    ((l.map taskTarget : List (Option Nat)) : Multiset (Option Nat)) = (((l.eraseIdx i).map taskTarget : List (Option Nat)) : Multiset (Option Nat)) + {taskTarget tk} := by
  induction l with
  | nil => intro i tk h; simp at h
  | cons x xs ih =>
    intro i tk h
    cases i with
    | zero =>
      simp only [List.getElem?_cons_zero, Option.some.injEq] at h
      subst h
      simp only [List.map_cons, List.eraseIdx_cons_zero]
      rw [← Multiset.cons_coe, ← Multiset.singleton_add, add_comm]
    | succ j =>
      simp only [List.getElem?_cons_succ] at h
      simp only [List.map_cons, List.eraseIdx_cons_succ]
      rw [← Multiset.cons_coe, ← Multiset.cons_coe, ih j tk h, Multiset.cons_add]


/-! ## the invariant -/

structure Uniq (nsrc : Nat) (n : Net) (B : Nat) : Prop where
  supp : Supp n B
  cnt : ∀ np, (TM n B).count (some np) ≤ 1
  pend : ∀ np, some np ∈ TM n B → nsrc ≤ np ∧ np < n.next ∧ n.status np = none
  fresh : ∀ p, n.next ≤ p → n.status p = none
  le : nsrc ≤ n.next
  good : ∀ pb ∈ n.completes, pb.2 = false → pb.1 < nsrc

/-- what the target of a new item must satisfy -/
def NewTarget (nsrc : Nat) (n : Net) (B : Nat) (o : Option Nat) : Prop :=
  ∀ np, o = some np → some np ∉ TM n B ∧ nsrc ≤ np ∧ np < n.next ∧ n.status np = none

theorem uniq_addItem {nsrc : Nat} {n n' : Net} {B B' : Nat} (h : Uniq nsrc n B) (o : Option Nat) (ho : NewTarget nsrc n B o)
    (hS : Supp n' B') (hT : TM n' B' = TM n B + {o})
    (h1 : n'.status = n.status) (h2 : n'.next = n.next) (h3 : n'.completes = n.completes) : Uniq nsrc n' B' where
  supp := hS
  cnt := by
    intro np
    rw [hT, count_add, count_singleton]
    by_cases hnp : some np = o
    · have := (ho np hnp.symm).1
      rw [← count_eq_zero] at this
      rw [this, if_pos hnp]
    · rw [if_neg hnp]; exact h.cnt np
  pend := by
    intro np hm
    rw [hT, mem_add, mem_singleton] at hm
    rw [h1, h2]
    rcases hm with hm | hm
    · exact h.pend np hm
    · exact (ho np hm.symm).2
  fresh := by rw [h1, h2]; exact h.fresh
  le := by rw [h2]; exact h.le
  good := by rw [h3]; exact h.good

theorem uniq_onComplete {nsrc : Nat} {n : Net} {B : Nat} (h : Uniq nsrc n B) (p : Nat) (c : CB)
    (hc : NewTarget nsrc n B (cbTarget c)) : ∃ B', B ≤ B' ∧ Uniq nsrc (onComplete p c n) B' ∧
      TM (onComplete p c n) B' = TM n B + {cbTarget c} := by
  obtain ⟨B', hB, hS, hT⟩ := T_onComplete h.supp p c
  refine ⟨B', hB, uniq_addItem h _ hc hS hT ?_ ?_ ?_, hT⟩ <;>
    (unfold onComplete; cases n.status p <;> rfl)

theorem uniq_complete {nsrc : Nat} {n : Net} {B : Nat} (h : Uniq nsrc n B) (p : Nat) (t : Try Val)
    (hp : some p ∉ TM n B) (hst : n.status p = none ∨ p < nsrc) (hlt : p < n.next) :
    Uniq nsrc (complete p t n) B ∧ TM (complete p t n) B = TM n B := by
  obtain ⟨hS, hT⟩ := T_complete h.supp p t
  refine ⟨⟨hS, by rw [hT]; exact h.cnt, ?_, ?_, ?_, ?_⟩, hT⟩
  · intro np hm
    rw [hT] at hm
    have hne : np ≠ p := fun e => hp (e ▸ hm)
    obtain ⟨a, b, c⟩ := h.pend np hm
    refine ⟨a, ?_, ?_⟩
    · unfold complete; cases n.status p <;> exact b
    · unfold complete; cases hs : n.status p with
      | some x => exact c
      | none => simp [hne, c]
  · intro q hq
    have hne : q ≠ p := by have : n.next ≤ q := by (unfold complete at hq; cases hs : n.status p <;> simpa [hs] using hq)
                           omega
    have hnx : n.next ≤ q := by unfold complete at hq; cases hs : n.status p <;> simpa [hs] using hq
    unfold complete; cases hs : n.status p with
    | some x => exact h.fresh q hnx
    | none => simp [hne, h.fresh q hnx]
  · unfold complete; cases n.status p <;> exact h.le
  · intro pb hm hb
    unfold complete at hm
    cases hs : n.status p with
    | some x =>
      simp only [hs, List.mem_append, List.mem_singleton] at hm
      rcases hm with hm | rfl
      · exact h.good pb hm hb
      · rcases hst with hst | hst
        · rw [hs] at hst; cases hst
        · exact hst
    | none =>
      simp only [hs, List.mem_append, List.mem_singleton] at hm
      rcases hm with hm | rfl
      · exact h.good pb hm hb
      · cases hb

theorem uniq_fresh {nsrc : Nat} {n : Net} {B : Nat} (h : Uniq nsrc n B) (sp : FExpr) :
    Uniq nsrc (fresh sp n).2 B ∧ TM (fresh sp n).2 B = TM n B :=
  ⟨⟨h.supp, h.cnt, fun np hm => let ⟨a, b, c⟩ := h.pend np hm; ⟨a, Nat.lt_succ_of_lt b, c⟩,
    fun p hp => h.fresh p (Nat.le_of_succ_le hp), Nat.le_succ_of_le h.le, h.good⟩, rfl⟩

theorem uniq_log {nsrc : Nat} {n : Net} {B : Nat} (h : Uniq nsrc n B) (evs : List Event) :
    Uniq nsrc { n with log := n.log ++ evs } B ∧ TM { n with log := n.log ++ evs } B = TM n B :=
  ⟨⟨h.supp, h.cnt, h.pend, h.fresh, h.le, h.good⟩, rfl⟩

/-- what `build` (and a task) does to the targets: only FRESH promises become targets, old statuses stay -/
structure Ext (n n' : Net) (B B' : Nat) : Prop where
  next : n.next ≤ n'.next
  targets : ∀ x, some x ∈ TM n' B' → some x ∈ TM n B ∨ n.next ≤ x
  status : ∀ x, x < n.next → n'.status x = n.status x

theorem Ext.rfl' {n : Net} {B : Nat} : Ext n n B B := ⟨Nat.le_refl _, fun _ h => .inl h, fun _ _ => rfl⟩

theorem Ext.trans {a b c : Net} {A B C : Nat} (h1 : Ext a b A B) (h2 : Ext b c B C) : Ext a c A C :=
  ⟨Nat.le_trans h1.next h2.next,
   fun x hx => by
     rcases h2.targets x hx with h | h
     · exact h1.targets x h
     · exact .inr (Nat.le_trans h1.next h),
   fun x hx => by rw [h2.status x (Nat.lt_of_lt_of_le hx h1.next), h1.status x hx]⟩

/-- allocate `np`, register / queue an item targeting it -/
theorem uniq_node {nsrc : Nat} {n : Net} {B : Nat} (h : Uniq nsrc n B) (sp : FExpr) (p : Nat) (c : CB)
    (hc : cbTarget c = some n.next) :
    ∃ B', B ≤ B' ∧ Uniq nsrc (onComplete p c (fresh sp n).2) B' ∧ Ext n (onComplete p c (fresh sp n).2) B B' := by
  obtain ⟨h1, hT1⟩ := uniq_fresh h sp
  have hnew : NewTarget nsrc (fresh sp n).2 B (cbTarget c) := by
    intro np hnp
    rw [hc] at hnp; cases hnp
    refine ⟨?_, h.le, Nat.lt_succ_self _, h.fresh _ (Nat.le_refl _)⟩
    rw [hT1]; intro hm
    exact Nat.lt_irrefl _ (h.pend _ hm).2.1
  obtain ⟨B', hB, h2, hT2⟩ := uniq_onComplete h1 p c hnew
  refine ⟨B', hB, h2, ?_, ?_, ?_⟩
  · unfold onComplete; cases (fresh sp n).2.status p <;> exact Nat.le_succ _
  · intro x hx
    rw [hT2, hT1, mem_add, mem_singleton, hc] at hx
    rcases hx with hx | hx
    · exact .inl hx
    · cases hx; exact .inr (Nat.le_refl _)
  · intro x _; unfold onComplete; cases (fresh sp n).2.status p <;> rfl

/-- allocate `np` and complete it at once (Successful / Failed) -/
theorem uniq_const {nsrc : Nat} {n : Net} {B : Nat} (h : Uniq nsrc n B) (sp : FExpr) (t : Try Val) :
    Uniq nsrc (complete n.next t (fresh sp n).2) B ∧ Ext n (complete n.next t (fresh sp n).2) B B := by
  obtain ⟨h1, hT1⟩ := uniq_fresh h sp
  have hnot : some n.next ∉ TM (fresh sp n).2 B := by
    rw [hT1]; intro hm; exact Nat.lt_irrefl _ (h.pend _ hm).2.1
  obtain ⟨h2, hT2⟩ := uniq_complete h1 n.next t hnot (.inl (h.fresh _ (Nat.le_refl _))) (Nat.lt_succ_self _)
  refine ⟨h2, ?_, fun x hx => .inl (by rw [hT2, hT1] at hx; exact hx), ?_⟩
  · unfold complete; cases (fresh sp n).2.status n.next <;> exact Nat.le_succ _
  intro x hx
  have hne : x ≠ n.next := Nat.ne_of_lt hx
  unfold complete
  cases hs : (fresh sp n).2.status n.next with
  | some y => rfl
  | none => simp [hne, fresh]

theorem uniq_build {nsrc : Nat} (e : FExpr) : ∀ (n : Net) (B : Nat), Uniq nsrc n B →
    ∃ B', B ≤ B' ∧ Uniq nsrc (build e n).2 B' ∧ Ext n (build e n).2 B B' := by
  induction e with
  | ref p => intro n B h; exact ⟨B, Nat.le_refl _, h, Ext.rfl'⟩
  | successful v =>
    intro n B h
    obtain ⟨h1, h2⟩ := uniq_const h (.successful v) (.success v)
    exact ⟨B, Nat.le_refl _, h1, h2⟩
  | failed err =>
    intro n B h
    obtain ⟨h1, h2⟩ := uniq_const h (.failed err) (.failure err)
    exact ⟨B, Nat.le_refl _, h1, h2⟩
  | successfulOf e ih =>
    intro n B h
    obtain ⟨B1, hB1, h1, e1⟩ := ih n B h
    obtain ⟨h2, e2⟩ := uniq_const h1 (.successfulOf (.ref (build e n).1)) (.success (handle (build e n).1))
    exact ⟨B1, hB1, h2, e1.trans e2⟩
  | logged evs e ih =>
    intro n B h
    obtain ⟨h0, _⟩ := uniq_log h evs
    obtain ⟨B1, hB1, h1, e1⟩ := ih _ B h0
    exact ⟨B1, hB1, h1, ⟨e1.next, e1.targets, e1.status⟩⟩
  | flatMap e k ih _ =>
    intro n B h
    obtain ⟨B1, hB1, h1, e1⟩ := ih n B h
    obtain ⟨B2, hB2, h2, e2⟩ := uniq_node h1 (.flatMap (.ref (build e n).1) k) (build e n).1 (.flatMapA k (build e n).2.next) rfl
    exact ⟨B2, Nat.le_trans hB1 hB2, h2, e1.trans e2⟩
  | transform e f ih =>
    intro n B h
    obtain ⟨B1, hB1, h1, e1⟩ := ih n B h
    obtain ⟨B2, hB2, h2, e2⟩ := uniq_node h1 (.transform (.ref (build e n).1) f) (build e n).1 (.transformA f (build e n).2.next) rfl
    exact ⟨B2, Nat.le_trans hB1 hB2, h2, e1.trans e2⟩
  | transformWith e k ih _ =>
    intro n B h
    obtain ⟨B1, hB1, h1, e1⟩ := ih n B h
    obtain ⟨B2, hB2, h2, e2⟩ := uniq_node h1 (.transformWith (.ref (build e n).1) k) (build e n).1 (.transformWithA k (build e n).2.next) rfl
    exact ⟨B2, Nat.le_trans hB1 hB2, h2, e1.trans e2⟩
  | recoverWith e d k ih _ =>
    intro n B h
    obtain ⟨B1, hB1, h1, e1⟩ := ih n B h
    obtain ⟨B2, hB2, h2, e2⟩ := uniq_node h1 (.recoverWith (.ref (build e n).1) d k) (build e n).1 (.recoverWithA d k (build e n).2.next) rfl
    exact ⟨B2, Nat.le_trans hB1 hB2, h2, e1.trans e2⟩
  | orFuture e alt ih iha =>
    intro n B h
    obtain ⟨B1, hB1, h1, e1⟩ := ih n B h
    obtain ⟨B2, hB2, h2, e2⟩ := iha (build e n).2 B1 h1
    obtain ⟨B3, hB3, h3, e3⟩ := uniq_node h2 (.orFuture (.ref (build e n).1) (.ref (build alt (build e n).2).1)) (build e n).1
      (.orFutureA (build alt (build e n).2).1 (build alt (build e n).2).2.next) rfl
    exact ⟨B3, Nat.le_trans hB1 (Nat.le_trans hB2 hB3), h3, (e1.trans e2).trans e3⟩
  | apply f =>
    intro n B h
    obtain ⟨h1, hT1⟩ := uniq_fresh h (.apply f)
    obtain ⟨hS, hT⟩ := T_addTask h1.supp (Task.applyT f n.next)
    have hnew : NewTarget nsrc (fresh (.apply f) n).2 B (taskTarget (Task.applyT f n.next)) := by
      intro np hnp
      simp only [taskTarget, Option.some.injEq] at hnp; subst hnp
      refine ⟨?_, h.le, Nat.lt_succ_self _, h.fresh _ (Nat.le_refl _)⟩
      rw [hT1]; intro hm
      exact Nat.lt_irrefl _ (h.pend _ hm).2.1
    refine ⟨B, Nat.le_refl _, uniq_addItem h1 _ hnew hS hT rfl rfl rfl, Nat.le_succ _, ?_, fun _ _ => rfl⟩
    intro x hx
    have hx' : some x ∈ TM { (fresh (.apply f) n).2 with pool := (fresh (.apply f) n).2.pool ++ [Task.applyT f n.next] } B := hx
    rw [hT, hT1, mem_add, mem_singleton] at hx'
    rcases hx' with hx' | hx'
    · exact .inl hx'
    · simp only [taskTarget, Option.some.injEq] at hx'; exact .inr (Nat.le_of_eq hx'.symm)

/-- the target of the running task: pending, derived, targeted by nobody else -/
def Held (nsrc : Nat) (n : Net) (B : Nat) (np : Nat) : Prop :=
  some np ∉ TM n B ∧ nsrc ≤ np ∧ np < n.next ∧ n.status np = none

theorem held_ext {nsrc : Nat} {n n' : Net} {B B' : Nat} {np : Nat} (h : Held nsrc n B np) (e : Ext n n' B B') :
    Held nsrc n' B' np := by
  obtain ⟨a, b, c, d⟩ := h
  refine ⟨fun hm => ?_, b, Nat.lt_of_lt_of_le c e.next, by rw [e.status np c]; exact d⟩
  rcases e.targets np hm with h | h
  · exact a h
  · omega

theorem uniq_completeHeld {nsrc : Nat} {n : Net} {B : Nat} (h : Uniq nsrc n B) (np : Nat) (t : Try Val) (hh : Held nsrc n B np) :
    Uniq nsrc (complete np t n) B := (uniq_complete h np t hh.1 (.inl hh.2.2.2) hh.2.2.1).1

/-- `build e` then `OnComplete(completeWith np)` -/
theorem uniq_chain {nsrc : Nat} {n : Net} {B : Nat} (h : Uniq nsrc n B) (e : FExpr) (np : Nat) (hh : Held nsrc n B np) :
    ∃ B', Uniq nsrc (onComplete (build e n).1 (.completeWith np) (build e n).2) B' := by
  obtain ⟨B1, _, h1, e1⟩ := uniq_build (nsrc := nsrc) e n B h
  have hh1 := held_ext hh e1
  obtain ⟨B2, _, h2, _⟩ := uniq_onComplete h1 (build e n).1 (.completeWith np)
    (by intro x hx; simp only [cbTarget, Option.some.injEq] at hx; subst hx; exact hh1)
  exact ⟨B2, h2⟩

theorem uniq_runTask {nsrc : Nat} (tk : Task) {n : Net} {B : Nat} (h : Uniq nsrc n B)
    (hh : ∀ np, taskTarget tk = some np → Held nsrc n B np) : ∃ B', Uniq nsrc (runTask tk n) B' := by
  match tk with
  | .applyT f np =>
    have hh' := hh np rfl
    obtain ⟨h1, hT⟩ := uniq_log h (f ()).2
    exact ⟨B, uniq_completeHeld h1 np (f ()).1 ⟨by rw [hT]; exact hh'.1, hh'.2⟩⟩
  | .cb (.flatMapA k np) (.success v) => simpa only [runTask] using uniq_chain h (k v) np (hh np rfl)
  | .cb (.flatMapA k np) (.failure e) => exact ⟨B, uniq_completeHeld h np _ (hh np rfl)⟩
  | .cb (.completeWith np) t => exact ⟨B, uniq_completeHeld h np t (hh np rfl)⟩
  | .cb (.transformA f np) t =>
    have hh' := hh np rfl
    obtain ⟨h1, hT⟩ := uniq_log h (f t).2
    exact ⟨B, uniq_completeHeld h1 np (f t).1 ⟨by rw [hT]; exact hh'.1, hh'.2⟩⟩
  | .cb (.transformWithA k np) t => simpa only [runTask] using uniq_chain h (k t) np (hh np rfl)
  | .cb (.recoverWithA d k np) (.success v) => exact ⟨B, uniq_completeHeld h np _ (hh np rfl)⟩
  | .cb (.recoverWithA d k np) (.failure e) =>
    cases hd : d e with
    | true => simpa [runTask, hd] using uniq_chain h (k e) np (hh np rfl)
    | false => exact ⟨B, by simpa [runTask, hd] using uniq_completeHeld h np (.failure e) (hh np rfl)⟩
  | .cb (.orFutureA q np) (.success v) => exact ⟨B, uniq_completeHeld h np _ (hh np rfl)⟩
  | .cb (.orFutureA q np) (.failure e) =>
    obtain ⟨B2, _, h2, _⟩ := uniq_onComplete h q (.completeWith np)
      (by intro x hx; simp only [cbTarget, Option.some.injEq] at hx; subst hx; exact hh np rfl)
    exact ⟨B2, h2⟩
  | .cb (.observe id) t => exact ⟨B, (uniq_log h _).1⟩

/-- removing a task from the pool: it now holds its target -/
theorem uniq_erase {nsrc : Nat} {n : Net} {B : Nat} (h : Uniq nsrc n B) (i : Nat) (tk : Task) (hi : n.pool[i]? = some tk) :
    Uniq nsrc { n with pool := n.pool.eraseIdx i } B ∧
      ∀ np, taskTarget tk = some np → Held nsrc { n with pool := n.pool.eraseIdx i } B np := by
  have hT : TM n B = TM { n with pool := n.pool.eraseIdx i } B + {taskTarget tk} := by
    simp only [TM, poolT]
    rw [poolT_erase n.pool i tk hi]
    simp only [cbsT]
    abel
  refine ⟨⟨h.supp, ?_, ?_, h.fresh, h.le, h.good⟩, ?_⟩
  · intro np
    have := h.cnt np
    rw [hT, count_add] at this
    omega
  · intro np hm
    exact h.pend np (by rw [hT]; exact mem_add.2 (.inl hm))
  · intro np hnp
    have hc := h.cnt np
    rw [hT, count_add, hnp, count_singleton_self] at hc
    have hz : count (some np) (TM { n with pool := n.pool.eraseIdx i } B) = 0 := by omega
    have hp := h.pend np (by rw [hT, hnp]; exact mem_add.2 (.inr (mem_singleton_self _)))
    exact ⟨count_eq_zero.1 hz, hp⟩

theorem uniq_step {nsrc : Nat} {n : Net} (h : ∃ B, Uniq nsrc n B) (ev : Ev) (hev : EvOK nsrc n ev) :
    ∃ B, Uniq nsrc (step n ev) B := by
  obtain ⟨B, h⟩ := h
  match ev with
  | .run i =>
    cases hi : n.pool[i]? with
    | none => exact ⟨B, by simpa only [step, hi] using h⟩
    | some tk =>
      obtain ⟨h0, hh⟩ := uniq_erase h i tk hi
      obtain ⟨B', h'⟩ := uniq_runTask tk h0 hh
      exact ⟨B', by simpa only [step, hi] using h'⟩
  | .src p t =>
    have hp : p < nsrc := hev.1
    have hnot : some p ∉ TM n B := fun hm => by have := (h.pend p hm).1; omega
    exact ⟨B, (uniq_complete h p t hnot (.inr hp) (Nat.lt_of_lt_of_le hp h.le)).1⟩
  | .mk e =>
    obtain ⟨B', _, h', _⟩ := uniq_build (nsrc := nsrc) e n B h
    exact ⟨B', h'⟩
  | .obs p id =>
    obtain ⟨B', _, h', _⟩ := uniq_onComplete h p (.observe id) (by intro x hx; simp [cbTarget] at hx)
    exact ⟨B', h'⟩

theorem uniq_empty (nsrc : Nat) : Uniq nsrc (Net.empty nsrc) 0 where
  supp := fun _ _ => rfl
  cnt := by intro np; simp [TM, poolT, cbsT, Net.empty]
  pend := by intro np hm; simp [TM, poolT, cbsT, Net.empty] at hm
  fresh := fun _ _ => rfl
  le := Nat.le_refl _
  good := by intro pb hm; simp [Net.empty] at hm

theorem uniq_runEvs {nsrc : Nat} (evs : List Ev) : ∀ (n : Net), (∃ B, Uniq nsrc n B) → Valid nsrc n evs →
    ∃ B, Uniq nsrc (runEvs n evs) B := by
  induction evs with
  | nil => intro n h _; exact h
  | cons ev evs ih => intro n h hv; exact ih (step n ev) (uniq_step h ev hv.1) hv.2

end FpVerif.Fut.Drain
