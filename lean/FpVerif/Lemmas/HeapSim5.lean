import FpVerif.Lemmas.HeapSim4
/-!
Simulation, part 5: `set` on bitmap-indexed nodes (update of a child, insertion of a child).
-/
set_option linter.unusedSimpArgs false
set_option linter.unusedVariables false
namespace FpVerif.HamtHeap
open FpVerif.Hamt
variable {K V : Type} {α β : Type}

/-- children whose footprints avoid the write set are unchanged -/
theorem kids_stable {f s : Nat} {H H' : Heap K V} {W : List Addr} (heff : Eff H H' W)
    {ps : List Addr} {rs : List (Node K V × List Addr)} (hk : mapOpt (absF f s H) ps = some rs)
    (hdisj : ∀ r ∈ rs, ∀ a ∈ r.2, a ∉ W) : mapOpt (absF f s H') ps = some rs := by
  rw [← hk]; apply mapOpt_congr
  intro c hcm
  obtain ⟨r, hr, hcabs⟩ := mapOpt_mem hk hcm
  rw [hcabs]
  exact heff.absF (n := r.1) (fp := r.2) hcabs (hdisj r hr)

theorem parent_bitmap {F s : Nat} {H : Heap K V} {p : Addr} {bm : Nat} {sl : Slice} {ps : List Addr}
    {rs : List (Node K V × List Addr)} (hc : H[p]? = some (.bitmap bm sl)) (hs : s < 32)
    (hview : viewPtrs H sl = some ps) (hk : mapOpt (absF F (s + mapNodeBits) H) ps = some rs) :
    absF (F + 1) s H p = some (Node.bitmap bm (rs.map (·.1)), p :: sl.arr :: (rs.map (·.2)).flatten) := by
  rw [absF_bitmap hc hs, hview]; simp [hk]

/-- copying path, existing child replaced: `make` + `copy` + `other.nodes[idx] = newNode` -/
theorem bitmap_finish_copy {F s : Nat} {H H1 : Heap K V} {p : Addr} {bm : Nat} {sl : Slice} {ps : List Addr}
    {rs : List (Node K V × List Addr)} {idx : Nat} {child : Node K V} {fpo fpn : List Addr}
    {c' : Addr} {nn : Node K V}
    (hc : H[p]? = some (.bitmap bm sl)) (hs : s < 32) (hview : viewPtrs H sl = some ps)
    (hk : mapOpt (absF F (s + mapNodeBits) H) ps = some rs)
    (hnd : (p :: sl.arr :: (rs.map (·.2)).flatten).Nodup) (hri : rs[idx]? = some (child, fpo))
    (hc' : absF F (s + mapNodeBits) H1 c' = some (nn, fpn)) (hndn : fpn.Nodup) (heff : Eff H H1 [])
    (hsub : ∀ a ∈ fpn, a ∈ fpo ∨ H.size ≤ a) (bm' : Nat) (t : List (Option (Slot K V))) :
    SimRes false (F + 1) s H (p :: sl.arr :: (rs.map (·.2)).flatten)
      ((H1.push (.arr ((ptrSlots (ps.set idx c') : List (Slot K V)).map some ++ t))).push
        (.bitmap bm' ⟨H1.size, (ptrSlots (ps.set idx c') : List (Slot K V)).length⟩)) (H1.size + 1)
      (.bitmap bm' ((rs.map (·.1)).set idx nn)) := by
  have hparent := parent_bitmap hc hs hview hk
  have hB : ∀ a ∈ (rs.map (·.2)).flatten, a < H.size := fun a ha => absF_lt hparent (by simp [ha])
  have hle1 : Heap.le H H1 := heff.to_le
  have hk1 : mapOpt (absF F (s + mapNodeBits) H1) (ps.set idx c') = some (rs.set idx (nn, fpn)) :=
    kids_set heff hk hc' (fun _ _ _ _ _ _ => by simp)
  have habs := mkBitmap_abs hk1 hs t bm'
  have hndL : (rs.map (·.2)).flatten.Nodup := (List.nodup_cons.mp (List.nodup_cons.mp hnd).2).2
  have hnd' : ((rs.map (·.2)).set idx fpn).flatten.Nodup :=
    nodup_flatten_set hndL (getElem?_map_snd hri) hndn hsub hB
  apply SimRes.of_fresh (fp' := (H1.size + 1) :: H1.size :: ((rs.map (·.2)).set idx fpn).flatten)
  · rw [habs]; simp [List.map_set]
  · apply nodup_fresh2 hnd'
    intro x hx
    rcases mem_flatten_set hx with h | h
    · exact absF_lt hc' h
    · have := hB x h; have := hle1.1; omega
  · exact Heap.le_trans hle1 (Heap.le_trans (Heap.le_push _ _) (Heap.le_push _ _))
  · intro a ha
    have := hle1.1
    simp only [List.mem_cons] at ha
    rcases ha with rfl | rfl | ha
    · right; omega
    · right; omega
    · rcases mem_flatten_set ha with h | h
      · rcases hsub a h with h' | h'
        · left; simp only [List.mem_cons]; right; right
          exact mem_flatten_of_getElem? (getElem?_map_snd hri) h'
        · right; exact h'
      · left; simp [h]

/-- in place, existing child replaced: `n.nodes[idx] = newNode` -/
theorem bitmap_finish_mut {F s : Nat} {H H1 : Heap K V} {p : Addr} {bm : Nat} {sl : Slice} {ps : List Addr}
    {rs : List (Node K V × List Addr)} {idx : Nat} {child : Node K V} {fpo fpn : List Addr}
    {c' : Addr} {nn : Node K V}
    (hc : H[p]? = some (.bitmap bm sl)) (hs : s < 32) (hview : viewPtrs H sl = some ps)
    (hk : mapOpt (absF F (s + mapNodeBits) H) ps = some rs)
    (hnd : (p :: sl.arr :: (rs.map (·.2)).flatten).Nodup) (hri : rs[idx]? = some (child, fpo))
    (hc' : absF F (s + mapNodeBits) H1 c' = some (nn, fpn)) (hndn : fpn.Nodup) (heff : Eff H H1 fpo)
    (hsub : ∀ a ∈ fpn, a ∈ fpo ∨ H.size ≤ a) :
    ∃ H2, storeSlot sl idx (.ptr c') H1 = .ok ((), H2) ∧
      SimRes true (F + 1) s H (p :: sl.arr :: (rs.map (·.2)).flatten) H2 p
        (.bitmap bm ((rs.map (·.1)).set idx nn)) := by
  have hparent := parent_bitmap hc hs hview hk
  have hB : ∀ a ∈ (rs.map (·.2)).flatten, a < H.size := fun a ha => absF_lt hparent (by simp [ha])
  have hp := lt_size_of_get hc
  have harr := viewWith_arr_lt hview
  obtain ⟨hp1, hnd2⟩ := List.nodup_cons.mp hnd
  obtain ⟨harrL, hndL⟩ := List.nodup_cons.mp hnd2
  have hpa : p ≠ sl.arr := fun h => hp1 (by simp [h])
  have hpL : p ∉ (rs.map (·.2)).flatten := fun h => hp1 (by simp [h])
  have hfpoL : ∀ a ∈ fpo, a ∈ (rs.map (·.2)).flatten :=
    fun a ha => mem_flatten_of_getElem? (getElem?_map_snd hri) ha
  have hnot : ∀ x, x < H.size → x ∉ (rs.map (·.2)).flatten → x ∉ fpn := by
    intro x hx hxL h
    rcases hsub x h with h' | h'
    · exact hxL (hfpoL x h')
    · omega
  have hidx : idx < ps.length := by
    have := (List.getElem?_eq_some_iff.mp hri).1
    rw [mapOpt_length hk] at this; exact this
  -- the slice is untouched by the recursive call
  have hview1 : viewPtrs H1 sl = some ps := by
    unfold viewPtrs
    rw [viewWith_agree (heff.2 sl.arr harr (fun h => harrL (hfpoL _ h)))]; exact hview
  obtain ⟨H2, h1, hview2, hsz, heff12⟩ :=
    storeSlot_spec (g := Slot.ptr?) hview1 hidx (x := .ptr c') (y := c') rfl
  have heff2 : Eff H H2 (sl.arr :: fpo) :=
    Eff.trans (heff.mono (fun a ha _ => by simp [ha])) (heff12.mono (fun a ha _ => by simp at ha; simp [ha]))
  have hc2 : absF F (s + mapNodeBits) H2 c' = some (nn, fpn) :=
    heff12.absF hc' (fun a ha => by
      simp only [List.mem_singleton]; intro h; exact hnot sl.arr harr harrL (h ▸ ha))
  have hk2 : mapOpt (absF F (s + mapNodeBits) H2) (ps.set idx c') = some (rs.set idx (nn, fpn)) := by
    apply kids_set heff2 hk hc2
    intro j r hj hr a ha
    simp only [List.mem_cons, not_or]
    have haL : a ∈ (rs.map (·.2)).flatten := mem_flatten_of_getElem? (getElem?_map_snd hr) ha
    refine ⟨fun h => harrL (h ▸ haL), ?_⟩
    exact disjoint_of_nodup_flatten hndL (getElem?_map_snd hr) (getElem?_map_snd hri) hj ha
  have hcell2 : H2[p]? = some (.bitmap bm sl) :=
    heff2.get hc (by simp only [List.mem_cons, not_or]; exact ⟨hpa, fun h => hpL (hfpoL p h)⟩)
  have hnd' : ((rs.map (·.2)).set idx fpn).flatten.Nodup :=
    nodup_flatten_set hndL (getElem?_map_snd hri) hndn hsub hB
  refine ⟨H2, h1, p :: sl.arr :: ((rs.map (·.2)).set idx fpn).flatten, ?_, ?_, ?_, ?_⟩
  · have hview2' : viewPtrs H2 sl = some (ps.set idx c') := hview2
    rw [absF_bitmap hcell2 hs, hview2']; simp [hk2, List.map_set]
  · rw [List.nodup_cons, List.nodup_cons]
    refine ⟨?_, ?_, hnd'⟩
    · simp only [List.mem_cons, not_or]
      refine ⟨hpa, fun h => ?_⟩
      rcases mem_flatten_set h with h' | h'
      · exact hnot p hp hpL h'
      · exact hpL h'
    · intro h
      rcases mem_flatten_set h with h' | h'
      · exact hnot sl.arr harr harrL h'
      · exact harrL h'
  · simp only [if_true]
    exact heff2.mono (fun a ha _ => by
      simp only [List.mem_cons] at ha ⊢
      rcases ha with rfl | ha
      · right; left; rfl
      · right; right; exact hfpoL a ha)
  · intro a ha
    simp only [List.mem_cons] at ha
    rcases ha with rfl | rfl | ha
    · left; simp
    · left; simp
    · rcases mem_flatten_set ha with h | h
      · rcases hsub a h with h' | h'
        · left; simp [hfpoL a h']
        · right; exact h'
      · left; simp [h]

theorem map_insert {γ δ : Type} (f : γ → δ) (l : List γ) (x : γ) (idx : Nat) :
    (l.take idx ++ x :: l.drop idx).map f = (l.map f).take idx ++ f x :: (l.map f).drop idx := by
  simp [List.map_take, List.map_drop]

/-- copying path, new child: `make(len+1)` + `copy` + `other.nodes[idx] = newNode` -/
theorem bitmap_insert_copy {F0 s : Nat} {H : Heap K V} {p : Addr} {bm : Nat} {sl : Slice} {ps : List Addr}
    {rs : List (Node K V × List Addr)} (idx : Nat)
    (hc : H[p]? = some (.bitmap bm sl)) (hs : s < 32) (hview : viewPtrs H sl = some ps)
    (hk : mapOpt (absF (F0 + 1) (s + mapNodeBits) H) ps = some rs)
    (hnd : (p :: sl.arr :: (rs.map (·.2)).flatten).Nodup)
    (kh : UInt32) (k : K) (v : V) (bm' : Nat) (t : List (Option (Slot K V))) :
    SimRes false (F0 + 1 + 1) s H (p :: sl.arr :: (rs.map (·.2)).flatten)
      (((H.push (.value kh k v)).push
          (.arr ((ptrSlots (ps.take idx ++ H.size :: ps.drop idx) : List (Slot K V)).map some ++ t))).push
        (.bitmap bm' ⟨H.size + 1, (ptrSlots (ps.take idx ++ H.size :: ps.drop idx) : List (Slot K V)).length⟩))
      (H.size + 1 + 1)
      (.bitmap bm' ((rs.map (·.1)).take idx ++ Node.value kh k v :: (rs.map (·.1)).drop idx)) := by
  have hparent := parent_bitmap hc hs hview hk
  have hB : ∀ a ∈ (rs.map (·.2)).flatten, a < H.size := fun a ha => absF_lt hparent (by simp [ha])
  let H1 := H.push (.value kh k v)
  have hsz1 : H1.size = H.size + 1 := by simp [H1]
  have hk1 : mapOpt (absF (F0 + 1) (s + mapNodeBits) H1) ps = some rs :=
    kids_stable (Eff.push H _ []) hk (fun _ _ _ _ => by simp)
  have hk1' := mapOpt_insert hk1 (mkValue_abs H kh k v F0 (s + mapNodeBits)) idx
  have habs := mkBitmap_abs hk1' hs t bm'
  have hndL : (rs.map (·.2)).flatten.Nodup := (List.nodup_cons.mp (List.nodup_cons.mp hnd).2).2
  have hnd' : ((rs.map (·.2)).take idx ++ [H.size] :: (rs.map (·.2)).drop idx).flatten.Nodup :=
    nodup_flatten_insert (B := H.size) hndL (by simp) (by simp) hB
  apply SimRes.of_fresh
    (fp' := (H1.size + 1) :: H1.size :: ((rs.map (·.2)).take idx ++ [H.size] :: (rs.map (·.2)).drop idx).flatten)
  · simp only [hsz1] at habs ⊢
    rw [habs, map_insert, map_insert]
  · apply nodup_fresh2 hnd'
    intro x hx
    rcases mem_flatten_insert hx with h | h
    · simp at h; omega
    · have := hB x h; omega
  · exact Heap.le_trans (Heap.le_push _ _) (Heap.le_trans (Heap.le_push _ _) (Heap.le_push _ _))
  · intro a ha
    simp only [List.mem_cons] at ha
    rcases ha with rfl | rfl | ha
    · right; omega
    · right; omega
    · rcases mem_flatten_insert ha with h | h
      · simp at h; right; omega
      · left; simp [h]

/-- in place, new child: `n.bitmap |= bit; n.nodes = append(n.nodes, nil); copy(…); n.nodes[idx] = newNode` -/
theorem bitmap_insert_mut {F0 s : Nat} {H : Heap K V} {p : Addr} {bm : Nat} {sl : Slice} {ps : List Addr}
    {rs : List (Node K V × List Addr)} {idx : Nat} (hidx : idx ≤ ps.length)
    (hc : H[p]? = some (.bitmap bm sl)) (hs : s < 32) (hview : viewPtrs H sl = some ps)
    (hk : mapOpt (absF (F0 + 1) (s + mapNodeBits) H) ps = some rs)
    (hnd : (p :: sl.arr :: (rs.map (·.2)).flatten).Nodup)
    (kh : UInt32) (k : K) (v : V) (bm' : Nat) {γ : Type} (ret : γ) :
    ∃ H3, (insertSlot sl idx (.ptr H.size) >>= fun sl' => store p (.bitmap bm' sl') >>= fun _ => pure ret)
        (H.push (.value kh k v)) = .ok (ret, H3) ∧
      SimRes true (F0 + 1 + 1) s H (p :: sl.arr :: (rs.map (·.2)).flatten) H3 p
        (.bitmap bm' ((rs.map (·.1)).take idx ++ Node.value kh k v :: (rs.map (·.1)).drop idx)) := by
  have hparent := parent_bitmap hc hs hview hk
  have hB : ∀ a ∈ (rs.map (·.2)).flatten, a < H.size := fun a ha => absF_lt hparent (by simp [ha])
  have hp := lt_size_of_get hc
  have harr := viewWith_arr_lt hview
  obtain ⟨hp1, hnd2⟩ := List.nodup_cons.mp hnd
  obtain ⟨harrL, hndL⟩ := List.nodup_cons.mp hnd2
  have hpa : p ≠ sl.arr := fun h => hp1 (by simp [h])
  have hpL : p ∉ (rs.map (·.2)).flatten := fun h => hp1 (by simp [h])
  let H1 := H.push (.value kh k v)
  have hsz1 : H1.size = H.size + 1 := by simp [H1]
  have hle1 : Heap.le H H1 := Heap.le_push _ _
  have hview1 : viewPtrs H1 sl = some ps := by
    unfold viewPtrs; rw [viewWith_agree (hle1.2 sl.arr harr)]; exact hview
  obtain ⟨sl', H2, h2, hview2, heff12, hsl', hsl'lt, hsz2⟩ :=
    insertSlot_spec (g := Slot.ptr?) hview1 hidx (x := .ptr H.size) (y := H.size) rfl
  have hp2 : p < H2.size := by have := heff12.1; omega
  let H3 := H2.setIfInBounds p (.bitmap bm' sl')
  have hpsl' : p ≠ sl'.arr := by
    rcases hsl' with h | h
    · rw [h]; exact hpa
    · rw [h]; omega
  have heff13 : Eff H1 H3 [p, sl.arr] :=
    Eff.trans (heff12.mono (fun a ha _ => by simp at ha; simp [ha])) (Eff.set _ _ _ (by simp))
  have heff3 : Eff H H3 [p, sl.arr] := Eff.trans (Eff.push H _ _) heff13
  have hk3 : mapOpt (absF (F0 + 1) (s + mapNodeBits) H3) ps = some rs := by
    apply kids_stable heff3 hk
    intro r hr a ha
    have haL : a ∈ (rs.map (·.2)).flatten :=
      List.mem_flatten.mpr ⟨r.2, List.mem_map.mpr ⟨r, hr, rfl⟩, ha⟩
    simp only [List.mem_cons, List.not_mem_nil, or_false, not_or]
    exact ⟨fun h => hpL (h ▸ haL), fun h => harrL (h ▸ haL)⟩
  have hv3 : absF (F0 + 1) (s + mapNodeBits) H3 H.size = some (Node.value kh k v, [H.size]) :=
    heff13.absF (mkValue_abs H kh k v F0 (s + mapNodeBits)) (fun a ha => by
      simp only [List.mem_singleton] at ha
      simp only [List.mem_cons, List.not_mem_nil, or_false, not_or]
      subst ha; constructor <;> omega)
  have hk3' := mapOpt_insert hk3 hv3 idx
  have hview3 : viewPtrs H3 sl' = some (ps.take idx ++ H.size :: ps.drop idx) := by
    unfold viewPtrs; rw [viewWith_agree (get_set_ne _ hpsl')]; exact hview2
  have hnd' : ((rs.map (·.2)).take idx ++ [H.size] :: (rs.map (·.2)).drop idx).flatten.Nodup :=
    nodup_flatten_insert (B := H.size) hndL (by simp) (by simp) hB
  refine ⟨H3, ?_, p :: sl'.arr :: ((rs.map (·.2)).take idx ++ [H.size] :: (rs.map (·.2)).drop idx).flatten,
    ?_, ?_, ?_, ?_⟩
  · rw [bind_ok h2, bind_ok (store_apply _ hp2)]; rfl
  · show absF (F0 + 1 + 1) s H3 p = _
    have hcell3 : H3[p]? = some (.bitmap bm' sl') := get_set_eq _ hp2
    rw [absF_bitmap hcell3 hs, hview3]
    simp only [Option.bind_some]
    rw [hk3']
    simp only [Option.map_some, map_insert]
  · have hmemL : ∀ x, x ∈ ((rs.map (·.2)).take idx ++ [H.size] :: (rs.map (·.2)).drop idx).flatten →
        x = H.size ∨ x ∈ (rs.map (·.2)).flatten := by
      intro x hx
      rcases mem_flatten_insert hx with h | h
      · left; simpa using h
      · right; exact h
    rw [List.nodup_cons, List.nodup_cons]
    refine ⟨?_, ?_, hnd'⟩
    · simp only [List.mem_cons, not_or]
      refine ⟨hpsl', fun h => ?_⟩
      rcases hmemL p h with h' | h'
      · omega
      · exact hpL h'
    · intro h
      rcases hmemL _ h with h' | h'
      · rcases hsl' with h'' | h'' <;> omega
      · rcases hsl' with h'' | h''
        · exact harrL (h'' ▸ h')
        · have := hB _ h'; omega
  · simp only [if_true]
    exact heff3.mono (fun a ha _ => by
      simp only [List.mem_cons, List.not_mem_nil, or_false] at ha
      simp only [List.mem_cons]
      rcases ha with rfl | rfl
      · left; rfl
      · right; left; rfl)
  · intro a ha
    simp only [List.mem_cons] at ha
    rcases ha with rfl | rfl | ha
    · left; simp
    · rcases hsl' with h | h
      · left; simp [h]
      · right; omega
    · rcases mem_flatten_insert ha with h | h
      · simp at h; right; omega
      · left; simp [h]

end FpVerif.HamtHeap
