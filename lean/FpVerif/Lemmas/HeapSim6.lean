import FpVerif.Lemmas.HeapConv
/-!
Simulation, part 6: `set` on bitmap-indexed nodes, and the assembled simulation theorem for `set`.
-/
set_option linter.unusedSimpArgs false
set_option linter.unusedVariables false
namespace FpVerif.HamtHeap
open FpVerif.Hamt
variable {K V : Type} {α β : Type}

theorem setSim_bitmap (h : Hasher K) {ex : List (K × V) → K → V → Bool → GoE (Node K V × Bool)}
    {hex : List (K × V) → K → V → Bool → HM K V (Addr × Bool)} {F : Nat} (ih : SetSim h ex hex F)
    {p : Addr} {s : Nat} {H : Heap K V} {bm : Nat} {sl : Slice} {ps : List Addr}
    {rs : List (Node K V × List Addr)}
    (hc : H[p]? = some (.bitmap bm sl)) (hs : s < 32) (hview : viewPtrs H sl = some ps)
    (hk : mapOpt (absF F (s + mapNodeBits) H) ps = some rs)
    (hnd : (p :: sl.arr :: (rs.map (·.2)).flatten).Nodup)
    (k : K) (v : V) (kh : UInt32) (mu r : Bool) (n' : Node K V) (r' : Bool)
    (hfuel : 16 ≤ s / 5 + (F + 1)) (hwf : mu = true → WF h s (Node.bitmap bm (rs.map (·.1))))
    (hv : (Node.bitmap bm (rs.map (·.1))).setCore h ex k v s kh mu r = .ok (n', r')) :
    ∃ p' H', hsetCoreN h hex (F + 1) p k v s kh mu r H = .ok ((p', r'), H') ∧
      SimRes mu (F + 1) s H (p :: sl.arr :: (rs.map (·.2)).flatten) H' p' n' := by
  have hp := lt_size_of_get hc
  obtain ⟨F0, rfl⟩ : ∃ F0, F = F0 + 1 := ⟨F - 1, by omega⟩
  have hlen := mapOpt_length hk
  rw [Node.setCore] at hv
  unfold hsetCoreN
  rw [bind_ok (load_apply hc)]
  dsimp only
  rw [bind_ok (loadPtrs_apply hview)]
  dsimp only at hv ⊢
  by_cases hex_ : (bm &&& 1 <<< frag kh s != 0) = true
  · simp only [hex_, if_true, Bool.not_true, Bool.false_eq_true, if_false, Bool.false_and] at hv ⊢
    split at hv
    · rename_i child hnode
      obtain ⟨fpo, hri⟩ := getElem?_map_fst hnode
      obtain ⟨c, hpc, hcabs⟩ := mapOpt_getElem?' hk hri
      rw [hpc]
      dsimp only
      cases hsc : Node.setCore h ex child k v (s + mapNodeBits) kh mu r with
      | error e => rw [hsc] at hv; cases hv
      | ok res =>
        obtain ⟨nn, r1⟩ := res
        rw [hsc] at hv
        simp only [pure, Except.pure, bind, Except.bind] at hv
        injection hv with hv; injection hv with hn hr; subst hn; subst hr
        have hndc : fpo.Nodup :=
          (List.pairwise_flatten.mp (List.nodup_cons.mp (List.nodup_cons.mp hnd).2).2).1 fpo
            (List.mem_of_getElem? (getElem?_map_snd hri))
        obtain ⟨c', H1, h1, fpn, hc', hndn, heff, hsub⟩ :=
          ih c (s + mapNodeBits) H child fpo k v kh mu r nn r1 hcabs hndc (by simp [mapNodeBits]; omega)
            (fun hmu => by
              have hw := hwf hmu
              cases hw with
              | bitmap _ _ hl _ _ hkw _ => exact hkw _ (mem_of_getElem?_kidsB hl hnode).choose_spec)
            hsc
        rw [bind_ok h1]
        dsimp only
        cases mu with
        | true =>
          simp only [if_true] at heff ⊢
          obtain ⟨H2, h2, hres⟩ := bitmap_finish_mut hc hs hview hk hnd hri hc' hndn heff hsub
          rw [bind_ok h2]
          exact ⟨_, _, rfl, hres⟩
        | false =>
          simp only [Bool.false_eq_true, if_false] at heff ⊢
          have hres := bitmap_finish_copy hc hs hview hk hnd hri hc' hndn heff hsub (bm ||| 1 <<< frag kh s)
            (List.replicate (ps.length - (ptrSlots (ps.set (popCount (bm &&& 1 <<< frag kh s - 1)) c') : List (Slot K V)).length) none)
          rw [bind_ok (allocSlots_apply _ _ _), bind_ok (alloc_apply _ _)]
          refine ⟨_, _, rfl, ?_⟩
          simpa using hres
    · simp only [bind, Except.bind, throw, throwThe, MonadExceptOf.throw] at hv
      cases hv
  · simp only [hex_, Bool.false_eq_true, if_false, Bool.not_false, if_true, Bool.true_and] at hv ⊢
    simp only [pure, Except.pure, bind, Except.bind, List.length_map] at hv
    rw [bind_ok (alloc_apply _ _), bind_ok (pure_apply _ _)]
    dsimp only
    rw [hlen] at hv
    by_cases hbig : ps.length > maxBitmapIndexedSize
    · have hd : decide (ps.length > maxBitmapIndexedSize) = true := by simpa using hbig
      simp only [hd, if_true] at hv ⊢
      cases hb2h : bitmapToHashArray bm (rs.map (·.1)) with
      | error e => rw [hb2h] at hv; cases hv
      | ok res =>
        obtain ⟨slotsV, cnt⟩ := res
        rw [hb2h] at hv
        simp only at hv
        injection hv with hv; injection hv with hn hr; subst hn; subst hr
        obtain ⟨slotsH, rsS, hG, hkS, hfst, hsubl⟩ := b2h_sim hk hb2h
        rw [bind_ok (liftE_ok _ hG)]
        dsimp only
        rw [bind_ok (alloc_apply _ _)]
        refine ⟨_, _, rfl, ?_⟩
        apply SimRes.weaken
        let H1 := H.push (Cell.value kh k v)
        have hparent := parent_bitmap hc hs hview hk
        have hB : ∀ a ∈ (rs.map (·.2)).flatten, a < H.size := fun a ha => absF_lt hparent (by simp [ha])
        have hndL : (rs.map (·.2)).flatten.Nodup := (List.nodup_cons.mp (List.nodup_cons.mp hnd).2).2
        have hndS : (rsS.map (·.2)).flatten.Nodup := hndL.sublist hsubl
        have hBS : ∀ a ∈ (rsS.map (·.2)).flatten, a < H.size := fun a ha => hB a (hsubl.subset ha)
        have hk1 : mapOpt (absSlot (F0 + 1) (s + mapNodeBits) H1) (slotsH.set (frag kh s) (some H.size)) =
            some (rsS.set (frag kh s) (some (Node.value kh k v), [H.size])) :=
          slots_set (Eff.push H _ []) hkS (by simp [absSlot, H1, mkValue_abs]) (fun _ _ _ _ _ _ => by simp)
        have habs := mkHashArray_abs hk1 hs (cnt + 1)
        have hnd' : ((rsS.map (·.2)).set (frag kh s) [H.size]).flatten.Nodup := by
          by_cases hlt : frag kh s < (rsS.map (·.2)).length
          · exact nodup_flatten_set (B := H.size) hndS (List.getElem?_eq_getElem hlt) (by simp)
              (by intro a ha; simp at ha; right; omega) hBS
          · rw [List.set_eq_of_length_le (by omega)]; exact hndS
        apply SimRes.of_fresh (fp' := H1.size :: ((rsS.map (·.2)).set (frag kh s) [H.size]).flatten)
        · rw [habs]; simp [List.map_set, hfst]
        · apply nodup_fresh1 hnd'
          intro x hx
          have hsz1 : H1.size = H.size + 1 := by simp [H1]
          rcases mem_flatten_set hx with h' | h'
          · simp at h'; omega
          · have := hBS x h'; omega
        · exact Heap.le_trans (Heap.le_push _ _) (Heap.le_push _ _)
        · intro a ha
          have hsz1 : H1.size = H.size + 1 := by simp [H1]
          simp only [List.mem_cons] at ha
          rcases ha with rfl | ha
          · right; omega
          · rcases mem_flatten_set ha with h' | h'
            · simp at h'; right; omega
            · left; simp [hsubl.subset h']
    · have hd : decide (ps.length > maxBitmapIndexedSize) = false := by simpa using hbig
      simp only [hd, Bool.false_eq_true, if_false] at hv ⊢
      injection hv with hv; injection hv with hn hr; subst hn; subst hr
      cases mu with
      | true =>
        simp only [if_true]
        have hidx : popCount (bm &&& 1 <<< frag kh s - 1) ≤ ps.length := by
          have hw := hwf rfl
          cases hw with
          | bitmap _ _ hl _ _ _ _ =>
            rw [List.length_map, hlen] at hl
            rw [hl]
            have hj := frag_lt kh s
            have h1 : rank bm (frag kh s) = (lo bm (frag kh s)).length := rank_eq_lo hj
            unfold rank at h1
            rw [h1]
            unfold popCount
            cases ht : bm.testBit (frag kh s) with
            | true => rw [bitsOf_of_testBit hj ht]; simp
            | false => rw [bitsOf_of_not_testBit hj ht]; simp
        obtain ⟨H3, h3, hres⟩ := bitmap_insert_mut hidx hc hs hview hk hnd kh k v (bm ||| 1 <<< frag kh s) (p, true)
        exact ⟨_, _, h3, hres⟩
      | false =>
        simp only [Bool.false_eq_true, if_false]
        have hres := bitmap_insert_copy (popCount (bm &&& 1 <<< frag kh s - 1)) hc hs hview hk hnd kh k v
          (bm ||| 1 <<< frag kh s)
          (List.replicate (ps.length + 1 - (ptrSlots (List.take (popCount (bm &&& 1 <<< frag kh s - 1)) ps ++
              H.size :: List.drop (popCount (bm &&& 1 <<< frag kh s - 1)) ps) : List (Slot K V)).length) none)
        rw [bind_ok (allocSlots_apply _ _ _), bind_ok (alloc_apply _ _)]
        refine ⟨_, _, rfl, ?_⟩
        apply SimRes.weaken (mu := false)
        simpa using hres

/-- **Simulation of `set`** (all node kinds, both values of `mutable`), relative to the expansion
    function. -/
theorem setSim (h : Hasher K) {ex : List (K × V) → K → V → Bool → GoE (Node K V × Bool)}
    {hex : List (K × V) → K → V → Bool → HM K V (Addr × Bool)} (hexp : ExpandSim ex hex) :
    ∀ F, SetSim h ex hex F := by
  intro F
  induction F with
  | zero => intro p s H n fp k v kh mu r n' r' habs; cases habs
  | succ F ih =>
    intro p s H n fp k v kh mu r n' r' habs hnd hfuel hwf hv
    cases hc : H[p]? with
    | none => simp [absF, hc] at habs
    | some c =>
      cases c with
      | hamt sz rt => simp [absF, hc] at habs
      | arr sl => simp [absF, hc] at habs
      | value nkh nk nv =>
        rw [absF_value hc] at habs; cases habs
        exact setSim_value h hc k v kh mu r n' r' hfuel hv
      | array sl =>
        rw [absF_array hc] at habs
        split at habs
        · rename_i hs0
          subst hs0
          simp only [Option.map_eq_some_iff] at habs
          obtain ⟨es, hview, he⟩ := habs; cases he
          have hne : p ≠ sl.arr := by
            intro h'; rw [List.nodup_cons] at hnd; exact hnd.1 (by simp [h'])
          exact setSim_array h hexp hc hview hne k v kh mu r n' r' (by omega) hv
        · cases habs
      | collision nkh sl =>
        rw [absF_collision hc] at habs
        simp only [Option.map_eq_some_iff] at habs
        obtain ⟨es, hview, he⟩ := habs; cases he
        have hne : p ≠ sl.arr := by
          intro h'; rw [List.nodup_cons] at hnd; exact hnd.1 (by simp [h'])
        exact setSim_collision h hc hview hne k v kh mu r n' r' hfuel hv
      | bitmap bm sl =>
        have hs := absF_bitmap_lt hc habs
        rw [absF_bitmap hc hs] at habs
        simp only [Option.bind_eq_some_iff, Option.map_eq_some_iff] at habs
        obtain ⟨ps, hview, rs, hk, he⟩ := habs; cases he
        exact setSim_bitmap h ih hc hs hview hk hnd k v kh mu r n' r' hfuel hwf hv
      | hashArray cnt slots =>
        have hs := absF_hashArray_lt hc habs
        rw [absF_hashArray hc hs] at habs
        simp only [Option.map_eq_some_iff] at habs
        obtain ⟨rs, hk, he⟩ := habs; cases he
        exact setSim_hashArray h ih hc hs hk hnd k v kh mu r n' r' hfuel hwf hv

end FpVerif.HamtHeap
