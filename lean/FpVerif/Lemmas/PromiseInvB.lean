import FpVerif.Lemmas.PromiseInvA
/-!
Invariant B — the repaired algorithm (`Variant.copyFirst`) only: backing arrays are immutable
once allocated, so every slice header keeps denoting the same callback list; every callback is,
at all times, in exactly one place (still with its registering thread, in the cell's list, in
the winner's captured list, or in the invocation log): conservation of callbacks.
-/
namespace FpVerif.Promise
open FpVerif FpVerif.Sched

variable {R : Type}

/-! ### slices over an append-only heap -/

def Denotes (h : Heap) (sl : Slice) (cs : List Cb) : Prop :=
  sl.arr < h.length ∧ resolve h sl = cs.map some ∧ cs.length = sl.len

theorem arrayAt_push {h : Heap} {a : Nat} (x : List (Option Cb)) (ha : a < h.length) :
    arrayAt (h ++ [x]) a = arrayAt h a := by
  simp [arrayAt, List.getElem?_append_left ha]

theorem arrayAt_push_new (h : Heap) (x : List (Option Cb)) : arrayAt (h ++ [x]) h.length = x := by
  simp [arrayAt]

theorem resolve_push {h : Heap} {sl : Slice} (x : List (Option Cb)) (ha : sl.arr < h.length) :
    resolve (h ++ [x]) sl = resolve h sl := by
  simp [resolve, arrayAt_push x ha]

theorem Denotes.push {h : Heap} {sl : Slice} {cs : List Cb} (x : List (Option Cb))
    (d : Denotes h sl cs) : Denotes (h ++ [x]) sl cs :=
  ⟨by have := d.1; simp; omega, by rw [resolve_push x d.1]; exact d.2.1, d.2.2⟩

theorem Denotes.alloc (h : Heap) (cs : List Cb) (cb : Cb) :
    Denotes (allocCopy h (cs.map some) cb).1 (allocCopy h (cs.map some) cb).2 (cs ++ [cb]) := by
  refine ⟨by simp [allocCopy], ?_, by simp [allocCopy]⟩
  simp only [allocCopy, resolve, arrayAt_push_new, List.length_map]
  rw [List.take_append_of_le_length (by simp)]
  rw [List.take_of_length_le (by simp)]
  simp

theorem count_some_map (c : Cb) (cs : List Cb) : (cs.map some).count (some c) = cs.count c := by
  induction cs with
  | nil => rfl
  | cons a as ih =>
    simp only [List.map_cons, List.count_cons, ih]
    by_cases h : a = c <;> simp [h]

theorem Denotes.readSlot {h : Heap} {sl : Slice} {cs : List Cb} (d : Denotes h sl cs) {i : Nat}
    (hi : i < sl.len) : ∃ cb, readSlot h sl.arr i = some cb ∧ cs[i]? = some cb := by
  have h1 : (resolve h sl)[i]? = (arrayAt h sl.arr)[i]? := by
    simp [resolve, hi]
  have hlen : i < cs.length := by rw [d.2.2]; exact hi
  refine ⟨cs[i], ?_, by simp [hlen]⟩
  unfold FpVerif.Promise.readSlot
  rw [← h1, d.2.1]
  simp [hlen]

theorem Denotes.drop_eq {h : Heap} {sl : Slice} {cs : List Cb} (d : Denotes h sl cs) {i : Nat}
    {cb : Cb} (hcb : cs[i]? = some cb) :
    (resolve h sl).drop i = some cb :: (resolve h sl).drop (i + 1) := by
  rw [d.2.1]
  obtain ⟨hlen, hget⟩ := List.getElem?_eq_some_iff.mp hcb
  rw [List.drop_eq_getElem_cons (by simpa using hlen)]
  simp [hget]

/-! ### per-thread part -/

def CellHas (sh : Shared R) (cs : List Cb) : Prop :=
  match sh.cell with
  | .nil => cs = []
  | .cbs sl => Denotes sh.heap sl cs
  | .done _ => False

def TInvB (sh : Shared R) : Local R → Prop
  | .cRun _ sl i cb => ∃ cs, Denotes sh.heap sl cs ∧ cs[i]? = some cb
  | .rCas cb ap new => ap = sh.ver → ∃ cs, CellHas sh cs ∧ Denotes sh.heap new (cs ++ [cb])
  | .panicked _ => False
  | _ => True

/-- where a callback is, seen from one thread -/
def holds (c : Cb) (sh : Shared R) : Local R → Nat
  | .rGet cb | .rAppend cb .. | .rCas cb .. | .rCall cb _ => if cb = c then 1 else 0
  | .cRun _ sl i _ => ((resolve sh.heap sl).drop i).count (some c)
  | _ => 0

def cellCount (c : Cb) (sh : Shared R) : Nat :=
  match sh.cell with
  | .cbs sl => (resolve sh.heap sl).count (some c)
  | _ => 0

def logCount (c : Cb) (sh : Shared R) : Nat := (sh.log.map (·.1)).count c

/-- number of places callback `c` is in -/
def occ (c : Cb) (s : PSys R) : Nat :=
  sumBy (holds c s.shared) s.threads + cellCount c s.shared + logCount c s.shared

structure InvB (total : Cb → Nat) (s : PSys R) : Prop where
  threads : ∀ l ∈ s.threads, TInvB s.shared l
  cell : ∀ sl, s.shared.cell = .cbs sl → ∃ cs, Denotes s.shared.heap sl cs
  cons : ∀ c, occ c s = total c

theorem sumBy_congr {L : Type} {f g : L → Nat} {ts : List L} (h : ∀ x ∈ ts, f x = g x) :
    sumBy f ts = sumBy g ts := by
  induction ts with
  | nil => rfl
  | cons a as ih =>
    simp only [sumBy, h a (by simp), ih (fun x hx => h x (by simp [hx]))]

/-- bookkeeping of one step in the per-thread sum -/
theorem holds_step {c : Cb} {sh sh' : Shared R} {ts : List (Local R)} {t : Nat} {l l' : Local R}
    (hl : ts[t]? = some l) (hst : ∀ x ∈ ts, holds c sh' x = holds c sh x) :
    sumBy (holds c sh') (ts.set t l') + holds c sh l = sumBy (holds c sh) ts + holds c sh' l' := by
  have h1 := sumBy_set (holds c sh') (l' := l') hl
  rw [sumBy_congr hst, hst l (List.mem_of_getElem? hl)] at h1
  exact h1

/-! ### stability of the per-thread parts under the steps of other threads -/

theorem holds_pushLog (c : Cb) (sh : Shared R) (cb : Cb) (r : R) (x : Local R) :
    holds c (pushLog sh cb r) x = holds c sh x := by cases x <;> rfl

theorem holds_bump (c : Cb) (sh : Shared R) (cl : Cell R) (x : Local R) :
    holds c (bump sh cl) x = holds c sh x := by cases x <;> rfl

theorem holds_push (c : Cb) (sh : Shared R) (a : List (Option Cb)) (x : Local R)
    (hx : TInvB sh x) : holds c (setHeap sh (sh.heap ++ [a])) x = holds c sh x := by
  cases x with
  | cRun r sl i cb =>
    obtain ⟨cs, d, _⟩ := hx
    simp [holds, resolve_push a d.1]
  | _ => rfl

theorem TInvB_pushLog (sh : Shared R) (cb : Cb) (r : R) (x : Local R) :
    TInvB sh x → TInvB (pushLog sh cb r) x := by
  intro h; cases x <;> exact h

theorem CellHas.push {sh : Shared R} {cs : List Cb} (a : List (Option Cb)) (h : CellHas sh cs) :
    CellHas (setHeap sh (sh.heap ++ [a])) cs := by
  unfold CellHas at *
  simp only [setHeap_cell, setHeap_heap]
  split <;> simp_all
  exact h.push a

theorem TInvB_push (sh : Shared R) (a : List (Option Cb)) (x : Local R) :
    TInvB sh x → TInvB (setHeap sh (sh.heap ++ [a])) x := by
  intro h
  cases x with
  | cRun r sl i cb =>
    obtain ⟨cs, d, hi⟩ := h
    exact ⟨cs, d.push a, hi⟩
  | rCas cb ap new =>
    intro hap
    obtain ⟨cs, hc, d⟩ := h hap
    exact ⟨cs, hc.push a, d.push a⟩
  | _ => exact h

theorem TInvB_bump (sh : Shared R) (cl : Cell R) (x : Local R) (hA : TInvA sh x) :
    TInvB sh x → TInvB (bump sh cl) x := by
  intro h
  cases x with
  | cRun r sl i cb => exact h
  | rCas cb ap new =>
    intro hap
    have : ap ≤ sh.ver := hA.1
    simp at hap
    omega
  | _ => exact h

theorem cellCount_push {sh : Shared R} (c : Cb) (a : List (Option Cb))
    (hcell : ∀ sl, sh.cell = .cbs sl → ∃ cs, Denotes sh.heap sl cs) :
    cellCount c (setHeap sh (sh.heap ++ [a])) = cellCount c sh := by
  unfold cellCount
  simp only [setHeap_cell, setHeap_heap]
  split
  · rename_i sl hc
    obtain ⟨cs, d⟩ := hcell sl hc
    rw [resolve_push a d.1]
  · rfl

theorem cellCount_of_CellHas {sh : Shared R} {cs : List Cb} (c : Cb) (h : CellHas sh cs) :
    cellCount c sh = cs.count c := by
  unfold CellHas at h
  unfold cellCount
  split at h
  · subst h; simp_all
  · rename_i sl hc; simp only [hc]; rw [h.2.1, count_some_map]
  · exact h.elim


/-- with a valid slice, the loop head fetches a real callback or finishes -/
theorem enterRun_of_denotes {h : Heap} {sl : Slice} {cs : List Cb} (d : Denotes h sl cs) (r : R)
    (i : Nat) :
    (i < sl.len ∧ ∃ cb, cs[i]? = some cb ∧ enterRun h r sl i = .cRun r sl i cb) ∨
    (¬ i < sl.len ∧ enterRun h r sl i = .cRet r true) := by
  unfold enterRun
  by_cases hi : i < sl.len
  · obtain ⟨cb, hrd, hget⟩ := d.readSlot hi
    exact Or.inl ⟨hi, cb, hget, by simp [hi, hrd]⟩
  · exact Or.inr ⟨hi, by simp [hi]⟩

theorem holds_enterRun {sh sh' : Shared R} {sl : Slice} {cs : List Cb} (c : Cb) (r : R) (j : Nat)
    (d : Denotes sh.heap sl cs) (hh : sh'.heap = sh.heap) :
    holds c sh' (enterRun sh.heap r sl j) = ((resolve sh.heap sl).drop j).count (some c) := by
  rcases enterRun_of_denotes d r j with ⟨_, cb, _, he⟩ | ⟨hj, he⟩
  · rw [he]; simp [holds, hh]
  · rw [he]
    have : (resolve sh.heap sl).drop j = [] := by
      apply List.drop_eq_nil_of_le
      have := resolve_length_le sh.heap sl
      omega
    simp [holds, this]

theorem TInvB_enterRun {sh sh' : Shared R} {sl : Slice} {cs : List Cb} (r : R) (j : Nat)
    (d : Denotes sh.heap sl cs) (hh : sh'.heap = sh.heap) : TInvB sh' (enterRun sh.heap r sl j) := by
  rcases enterRun_of_denotes d r j with ⟨_, cb, hget, he⟩ | ⟨_, he⟩
  · rw [he]; exact ⟨cs, by rw [hh]; exact d, hget⟩
  · rw [he]; trivial

/-- steps that leave the shared state alone and do not move a callback -/
theorem InvB_same {total : Cb → Nat} {s : PSys R} {t : Nat} {l l' : Local R}
    (hB : InvB total s) (hl : s.threads[t]? = some l) (hT : TInvB s.shared l')
    (hh : ∀ c, holds c s.shared l' = holds c s.shared l) :
    InvB total ⟨s.shared, s.threads.set t l'⟩ := by
  refine ⟨forall_set hB.threads (fun _ h => h) hT, hB.cell, fun c => ?_⟩
  have h1 := holds_step (c := c) (sh := s.shared) (sh' := s.shared) (l' := l') hl (fun _ _ => rfl)
  have h2 := hB.cons c
  simp only [occ] at h2 ⊢
  rw [hh c] at h1
  omega

theorem logCount_pushLog (c : Cb) (sh : Shared R) (cb : Cb) (r : R) :
    logCount c (pushLog sh cb r) = logCount c sh + (if cb = c then 1 else 0) := by
  simp [logCount, List.count_append, List.count_cons]

theorem cellCount_pushLog (c : Cb) (sh : Shared R) (cb : Cb) (r : R) :
    cellCount c (pushLog sh cb r) = cellCount c sh := rfl

/-- Invariant B is preserved by every atomic block of the repaired algorithm. -/
theorem InvB_step {total : Cb → Nat} (s : PSys R) (t : Tid) (s' : PSys R)
    (hA : InvA s) (hB : InvB total s) (hstep : step (stepT Variant.copyFirst) s t = some s') :
    InvB total s' := by
  obtain ⟨l, sh', l', hl, htr, rfl⟩ := step_trans hstep
  have hlm := List.mem_of_getElem? hl
  have hAl := hA.threads l hlm
  have hBl := hB.threads l hlm
  cases htr with
  | cGetPend hnd => exact InvB_same hB hl trivial (fun _ => rfl)
  | cGetDone hc => exact InvB_same hB hl trivial (fun _ => rfl)
  | @cCasOk r ap c hap =>
    obtain ⟨_, hfresh⟩ := hAl
    obtain ⟨hnd, hcap⟩ := hfresh hap
    refine ⟨forall_set (P := fun x => TInvA s.shared x ∧ TInvB s.shared x)
        (fun x hx => ⟨hA.threads x hx, hB.threads x hx⟩)
        (fun x h => TInvB_bump _ _ x h.1 h.2) ?_, ?_, fun c' => ?_⟩
    · -- the winner's captured slice is the cell's
      cases c with
      | nil => trivial
      | cbs sl =>
        have hcell : s.shared.cell = .cbs sl := by
          cases hc : s.shared.cell <;> simp_all [captOf]
        obtain ⟨cs, d⟩ := hB.cell sl hcell
        exact TInvB_enterRun r 0 d rfl
    · intro sl hsl; simp at hsl
    · have h1 := holds_step (c := c') (sh := s.shared) (sh' := bump s.shared (.done r))
        (l' := afterWin s.shared.heap r c) hl (fun x _ => holds_bump c' _ _ x)
      have h2 := hB.cons c'
      simp only [occ] at h2 ⊢
      have h3 : holds c' (bump s.shared (.done r)) (afterWin s.shared.heap r c) = cellCount c' s.shared := by
        cases c with
        | nil =>
          have hcell : s.shared.cell = .nil := by
            cases hc : s.shared.cell <;> simp_all [captOf, Cell.isDone]
          simp [afterWin, holds, cellCount, hcell]
        | cbs sl =>
          have hcell : s.shared.cell = .cbs sl := by
            cases hc : s.shared.cell <;> simp_all [captOf]
          obtain ⟨cs, d⟩ := hB.cell sl hcell
          simp only [afterWin]
          rw [holds_enterRun (sh := s.shared) (sh' := bump s.shared (.done r)) c' r 0 d rfl]
          simp [cellCount, hcell]
      have h4 : cellCount c' (bump s.shared (.done r)) = 0 := rfl
      have h5 : logCount c' (bump s.shared (.done r)) = logCount c' s.shared := rfl
      have h6 : holds c' s.shared (.cCas r ap c) = 0 := rfl
      omega
  | cCasFail hap => exact InvB_same hB hl trivial (fun _ => rfl)
  | @cRun r sl i cb =>
    obtain ⟨cs, d, hget⟩ := hBl
    refine ⟨forall_set hB.threads (TInvB_pushLog _ cb r) ?_, hB.cell, fun c' => ?_⟩
    · exact TInvB_enterRun r (i + 1) d rfl
    · have h1 := holds_step (c := c') (sh := s.shared) (sh' := pushLog s.shared cb r)
        (l' := enterRun s.shared.heap r sl (i + 1)) hl (fun x _ => holds_pushLog c' _ _ _ x)
      have h2 := hB.cons c'
      simp only [occ] at h2 ⊢
      rw [logCount_pushLog, cellCount_pushLog]
      have h3 : holds c' s.shared (.cRun r sl i cb) =
          (if cb = c' then 1 else 0) + holds c' (pushLog s.shared cb r) (enterRun s.shared.heap r sl (i + 1)) := by
        rw [holds_enterRun (sh := s.shared) (sh' := pushLog s.shared cb r) c' r (i + 1) d rfl]
        simp only [holds]
        rw [d.drop_eq hget, List.count_cons]
        by_cases hcc : cb = c' <;> simp [hcc, Nat.add_comm]
      omega
  | @rGetNil cb hc =>
    have halloc : (allocCopy s.shared.heap [] cb).1 = s.shared.heap ++
        [[] ++ [some cb] ++ List.replicate (growCap 0 - (0 + 1)) none] := rfl
    rw [halloc]
    refine ⟨forall_set hB.threads (TInvB_push _ _) ?_, ?_, fun c' => ?_⟩
    · intro _
      refine ⟨[], ?_, ?_⟩
      · simp [CellHas, hc]
      · have := Denotes.alloc s.shared.heap [] cb
        simpa [allocCopy] using this
    · intro sl hsl
      obtain ⟨cs, d⟩ := hB.cell sl hsl
      exact ⟨cs, d.push _⟩
    · have h1 := holds_step (c := c') (sh := s.shared)
        (sh' := setHeap s.shared (s.shared.heap ++ [[] ++ [some cb] ++ List.replicate (growCap 0 - (0 + 1)) none]))
        (l' := .rCas cb s.shared.ver (allocCopy s.shared.heap [] cb).2) hl
        (fun x hx => holds_push c' _ _ x (hB.threads x hx))
      have h2 := hB.cons c'
      simp only [occ] at h2 ⊢
      rw [cellCount_push c' _ hB.cell]
      have h3 : logCount c' (setHeap s.shared (s.shared.heap ++
          [[] ++ [some cb] ++ List.replicate (growCap 0 - (0 + 1)) none])) = logCount c' s.shared := rfl
      simp only [holds] at h1
      omega
  | rGetCbs hc => exact InvB_same hB hl trivial (fun _ => rfl)
  | rGetDone hc => exact InvB_same hB hl trivial (fun _ => rfl)
  | @rAppend cb ap sl =>
    obtain ⟨_, hfresh⟩ := hAl
    have halloc : (goAppend Variant.copyFirst s.shared.heap sl cb).1 = s.shared.heap ++
        [resolve s.shared.heap sl ++ [some cb] ++
          List.replicate (growCap (resolve s.shared.heap sl).length - ((resolve s.shared.heap sl).length + 1)) none] := rfl
    rw [halloc]
    refine ⟨forall_set hB.threads (TInvB_push _ _) ?_, ?_, fun c' => ?_⟩
    · intro hap
      have hcell := hfresh hap
      obtain ⟨cs, d⟩ := hB.cell sl hcell
      refine ⟨cs, ?_, ?_⟩
      · have : CellHas s.shared cs := by simp [CellHas, hcell, d]
        exact this.push _
      · have := Denotes.alloc s.shared.heap cs cb
        rw [← d.2.1] at this
        simpa [goAppend, allocCopy] using this
    · intro sl' hsl
      obtain ⟨cs, d⟩ := hB.cell sl' hsl
      exact ⟨cs, d.push _⟩
    · have h1 := holds_step (c := c') (sh := s.shared)
        (sh' := setHeap s.shared (s.shared.heap ++ [resolve s.shared.heap sl ++ [some cb] ++
          List.replicate (growCap (resolve s.shared.heap sl).length - ((resolve s.shared.heap sl).length + 1)) none]))
        (l' := .rCas cb ap (goAppend Variant.copyFirst s.shared.heap sl cb).2) hl
        (fun x hx => holds_push c' _ _ x (hB.threads x hx))
      have h2 := hB.cons c'
      simp only [occ] at h2 ⊢
      rw [cellCount_push c' _ hB.cell]
      have h3 : logCount c' (setHeap s.shared (s.shared.heap ++ [resolve s.shared.heap sl ++ [some cb] ++
          List.replicate (growCap (resolve s.shared.heap sl).length - ((resolve s.shared.heap sl).length + 1)) none])) =
          logCount c' s.shared := rfl
      simp only [holds] at h1
      omega
  | @rCasOk cb ap new hap =>
    obtain ⟨cs, hcs, dnew⟩ := hBl hap
    refine ⟨forall_set (P := fun x => TInvA s.shared x ∧ TInvB s.shared x)
        (fun x hx => ⟨hA.threads x hx, hB.threads x hx⟩)
        (fun x h => TInvB_bump _ _ x h.1 h.2) trivial, ?_, fun c' => ?_⟩
    · intro sl hsl
      simp at hsl
      subst hsl
      exact ⟨_, dnew⟩
    · have h1 := holds_step (c := c') (sh := s.shared) (sh' := bump s.shared (.cbs new))
        (l' := .rRet cb) hl (fun x _ => holds_bump c' _ _ x)
      have h2 := hB.cons c'
      simp only [occ] at h2 ⊢
      have h3 : cellCount c' (bump s.shared (.cbs new)) = cs.count c' + (if cb = c' then 1 else 0) := by
        simp only [cellCount, bump_cell, bump_heap]
        rw [dnew.2.1, count_some_map, List.count_append]
        simp [List.count_cons]
      have h4 := cellCount_of_CellHas c' hcs
      have h5 : logCount c' (bump s.shared (.cbs new)) = logCount c' s.shared := rfl
      simp only [holds] at h1
      omega
  | rCasFail hap => exact InvB_same hB hl trivial (fun _ => rfl)
  | @rCall cb r =>
    refine ⟨forall_set hB.threads (TInvB_pushLog _ cb r) trivial, hB.cell, fun c' => ?_⟩
    have h1 := holds_step (c := c') (sh := s.shared) (sh' := pushLog s.shared cb r)
      (l' := .rRet cb) hl (fun x _ => holds_pushLog c' _ _ _ x)
    have h2 := hB.cons c'
    simp only [occ] at h2 ⊢
    rw [logCount_pushLog, cellCount_pushLog]
    simp only [holds] at h1
    omega
  | oLoad1Done hd => exact InvB_same hB hl trivial (fun _ => rfl)
  | oLoad1Pend hd => exact InvB_same hB hl trivial (fun _ => rfl)
  | oLoad2Done hc => exact InvB_same hB hl trivial (fun _ => rfl)
  | oLoad2Pend hd =>
    have : s.shared.cell.isDone = true := hAl
    simp [this] at hd

end FpVerif.Promise
