import FpVerif.Lemmas.CloneHeap
/-!
# Heap-relative ties between a PURE (typed) clone function and the heap model's `clone`  (audit finding 6)

`Spec/C18Gen.Tie c i enc` demanded `clone i (enc v) h = (enc (c v), h)`: a heap-INDEPENDENT encoding and an UNCHANGED
heap.  No allocating instance (`clone.Seq`, `clone.Slice`, `clone.Ptr`, `clone.GoMap`) can satisfy it, so the old
`…_is_model` theorems never applied below a reference (`Option[Seq[T]]`, `Seq[Seq[T]]`).

Here the encoding is a heap-relative REPRESENTATION RELATION `R : Heap → T → Val → Prop` (`R h v x`: in heap `h` the
model value `x` represents the typed value `v`), monotone under heap extension, and

    `HTie c i R`  :  `R h v x → ∃ ext, (clone i x h).2 = h ++ ext ∧ R (h ++ ext) (c v) (clone i x h).1`

(the heap only grows, and in the GROWN heap the model's result represents what the pure function returns).
`Rep.Views R ty tr` connects a representation to the observation `view` of `Model/CloneHeap.lean`: related values are
well-formed and read as the heap-free tree `tr v`; hence `HTie.view_eq`: the view of the model's result in the new heap is
the tree of the pure function's result.

The combinators (`repOption`, `repPair`, `repList`) and their `htie_*` / `mono` / `views` lemmas compose at ANY depth.
-/
namespace FpVerif.CloneHeap

/-- heap-relative representation of typed values by model values -/
abbrev Rep (T : Type) := Heap → T → Val → Prop

/-- a representation survives allocation -/
def Rep.Mono {T : Type} (R : Rep T) : Prop := ∀ (h : Heap) (v : T) (x : Val) (ext : Heap), R h v x → R (h ++ ext) v x

/-- related model values are well-formed inhabitants of `ty` and read (following all references) as `tr v` -/
def Rep.Views {T : Type} (R : Rep T) (ty : Ty) (tr : T → Tree) : Prop :=
  ∀ (h : Heap) (v : T) (x : Val), R h v x → WT ty h x ∧ view ty h x = tr v

/-- THE HEAP-RELATIVE TIE: the instance expression `i` of the heap model maps a representation of `v` to a representation
    of `c v` in an EXTENSION of the heap -/
def HTie {T : Type} (c : T → T) (i : Inst) (R : Rep T) : Prop :=
  ∀ (v : T) (x : Val) (h : Heap), R h v x → ∃ ext, (clone i x h).2 = h ++ ext ∧ R (h ++ ext) (c v) (clone i x h).1

variable {T A B : Type}

/-- pointwise relation of two lists (core has no `List.Forall₂`) -/
inductive All2 {α β : Type} (P : α → β → Prop) : List α → List β → Prop
  | nil : All2 P [] []
  | cons {a b l1 l2} : P a b → All2 P l1 l2 → All2 P (a :: l1) (b :: l2)

-- representations ------------------------------------------------------------------------------------------------------

/-- a heap-independent encoding (the old notion) -/
def repEnc (enc : T → Val) : Rep T := fun _ v x => x = enc v
def repInt : Rep Int := repEnc Val.int
def repUnit : Rep Unit := repEnc fun _ => Val.unit

def repOption (R : Rep T) : Rep (Option T)
  | _, none, x => x = .none
  | h, some v, x => ∃ y, x = .some y ∧ R h v y

def repPair (R1 : Rep A) (R2 : Rep B) : Rep (A × B) :=
  fun h p x => ∃ a b, x = .pair a b ∧ R1 h p.1 a ∧ R2 h p.2 b

/-- a Go slice / `fp.Seq`: nil, or (backing array, length) whose first `len` cells represent the elements -/
def repList (R : Rep T) : Rep (List T) :=
  fun h vs x => (x = .nilslice ∧ vs = []) ∨
    ∃ a len ws, x = .slice a len ∧ h[a]? = some (.arr ws) ∧ len ≤ ws.length ∧ All2 (R h) vs (ws.take len)

def trOption (tr : T → Tree) : Option T → Tree
  | none => .none
  | some v => .some (tr v)
def trPair (t1 : A → Tree) (t2 : B → Tree) : A × B → Tree := fun p => .pair (t1 p.1) (t2 p.2)
def trList (tr : T → Tree) : List T → Tree := fun vs => .seq (vs.map tr)

theorem forall₂_imp {α β : Type} {P Q : α → β → Prop} (hpq : ∀ a b, P a b → Q a b) :
    ∀ {l1 : List α} {l2 : List β}, All2 P l1 l2 → All2 Q l1 l2 := by
  intro l1 l2 hf
  induction hf with
  | nil => exact .nil
  | cons h _ ih => exact .cons (hpq _ _ h) ih

theorem forall₂_length {α β : Type} {P : α → β → Prop} :
    ∀ {l1 : List α} {l2 : List β}, All2 P l1 l2 → l1.length = l2.length := by
  intro l1 l2 hf
  induction hf with
  | nil => rfl
  | cons _ _ ih => simp [ih]

-- monotonicity ---------------------------------------------------------------------------------------------------------

theorem repEnc_mono (enc : T → Val) : (repEnc enc).Mono := fun _ _ _ _ hr => hr
theorem repInt_mono : repInt.Mono := repEnc_mono _
theorem repUnit_mono : repUnit.Mono := repEnc_mono _

theorem repOption_mono {R : Rep T} (hm : R.Mono) : (repOption R).Mono := by
  intro h v x ext hr
  cases v with
  | none => exact hr
  | some v =>
    obtain ⟨y, hx, hy⟩ := hr
    exact ⟨y, hx, hm _ _ _ ext hy⟩

theorem repPair_mono {R1 : Rep A} {R2 : Rep B} (h1 : R1.Mono) (h2 : R2.Mono) : (repPair R1 R2).Mono := by
  intro h v x ext hr
  obtain ⟨a, b, hx, ha, hb⟩ := hr
  exact ⟨a, b, hx, h1 _ _ _ ext ha, h2 _ _ _ ext hb⟩

theorem repList_mono {R : Rep T} (hm : R.Mono) : (repList R).Mono := by
  intro h v x ext hr
  rcases hr with hr | ⟨a, len, ws, hx, hc, hl, hf⟩
  · exact .inl hr
  · exact .inr ⟨a, len, ws, hx, get_append ext hc, hl, forall₂_imp (fun _ _ hab => hm _ _ _ ext hab) hf⟩

-- views ----------------------------------------------------------------------------------------------------------------

theorem repInt_views : repInt.Views .int Tree.int := by
  intro h v x hr; cases hr; simp [WT, view]

theorem repUnit_views : repUnit.Views .unit (fun _ => Tree.unit) := by
  intro h v x hr; cases hr; simp [WT, view]

theorem repOption_views {R : Rep T} {ty : Ty} {tr : T → Tree} (hv : R.Views ty tr) :
    (repOption R).Views (.option ty) (trOption tr) := by
  intro h v x hr
  cases v with
  | none => cases hr; simp [WT, view, trOption]
  | some v =>
    obtain ⟨y, rfl, hy⟩ := hr
    have := hv _ _ _ hy
    simp [WT, view, trOption, this.1, this.2]

theorem repPair_views {R1 : Rep A} {R2 : Rep B} {ta tb : Ty} {t1 : A → Tree} {t2 : B → Tree}
    (h1 : R1.Views ta t1) (h2 : R2.Views tb t2) : (repPair R1 R2).Views (.pair ta tb) (trPair t1 t2) := by
  intro h v x hr
  obtain ⟨a, b, rfl, ha, hb⟩ := hr
  have ha := h1 _ _ _ ha
  have hb := h2 _ _ _ hb
  simp [WT, view, trPair, ha.1, ha.2, hb.1, hb.2]

theorem forall₂_views {R : Rep T} {ty : Ty} {tr : T → Tree} (hv : R.Views ty tr) {h : Heap} :
    ∀ {vs : List T} {xs : List Val}, All2 (R h) vs xs →
      (∀ x ∈ xs, WT ty h x) ∧ xs.map (view ty h) = vs.map tr := by
  intro vs xs hf
  induction hf with
  | nil => simp
  | cons hab _ ih =>
    have := hv _ _ _ hab
    simp [this.1, this.2, ih.2]
    exact ih.1

theorem repList_views {R : Rep T} {ty : Ty} {tr : T → Tree} (hv : R.Views ty tr) :
    (repList R).Views (.slice ty) (trList tr) := by
  intro h v x hr
  rcases hr with ⟨rfl, rfl⟩ | ⟨a, len, ws, rfl, hc, hl, hf⟩
  · simp [WT, view, trList]
  · have := forall₂_views (h := h) hv hf
    refine ⟨?_, ?_⟩
    · simp only [WT]
      exact ⟨ws, hc, hl, this.1⟩
    · simp only [view, hc, trList, this.2]

-- the ties compose -----------------------------------------------------------------------------------------------------

/-- `clone.Given` at any representation: the value and the heap are returned as they are -/
theorem htie_given (R : Rep T) : HTie (fun v => v) .given R := by
  intro v x h hr
  exact ⟨[], by simp [clone], by simpa [clone] using hr⟩

theorem htie_hnil : HTie (fun _ => ()) .hnil repUnit := by
  intro v x h _
  exact ⟨[], by simp [clone], by simp [clone, repUnit, repEnc]⟩

/-- the old notion is the special case `ext = []` of the new one -/
theorem htie_of_enc {c : T → T} {i : Inst} {enc : T → Val} (ht : ∀ v h, clone i (enc v) h = (enc (c v), h)) :
    HTie c i (repEnc enc) := by
  intro v x h hr
  cases hr
  exact ⟨[], by simp [ht], by simp [ht, repEnc]⟩

theorem htie_option {c : T → T} {i : Inst} {R : Rep T} (ht : HTie c i R) :
    HTie (Option.map c) (.option i) (repOption R) := by
  intro v x h hr
  cases v with
  | none =>
    cases hr
    exact ⟨[], by simp [clone], by simp [clone, repOption]⟩
  | some v =>
    obtain ⟨y, rfl, hy⟩ := hr
    obtain ⟨ext, he, hr'⟩ := ht v y h hy
    exact ⟨ext, by simpa [clone] using he, ⟨_, by simp [clone], hr'⟩⟩

theorem htie_pair {c1 : A → A} {c2 : B → B} {i1 i2 : Inst} {R1 : Rep A} {R2 : Rep B}
    (h1 : HTie c1 i1 R1) (h2 : HTie c2 i2 R2) (m1 : R1.Mono) (m2 : R2.Mono) :
    HTie (fun p => (c1 p.1, c2 p.2)) (.pair i1 i2) (repPair R1 R2) := by
  intro v x h hr
  obtain ⟨a, b, rfl, ha, hb⟩ := hr
  obtain ⟨e1, he1, hr1⟩ := h1 v.1 a h ha
  obtain ⟨e2, he2, hr2⟩ := h2 v.2 b (h ++ e1) (m2 _ _ _ e1 hb)
  refine ⟨e1 ++ e2, ?_, ?_⟩
  · simp only [clone, he1, he2, List.append_assoc]
  · refine ⟨(clone i1 a h).1, (clone i2 b (clone i1 a h).2).1, by simp only [clone], ?_, ?_⟩
    · have := m1 _ _ _ e2 hr1
      simpa only [List.append_assoc] using this
    · rw [he1]
      simpa only [List.append_assoc] using hr2

/-- `seq.Map(s, tclone.Clone)`: the heap is threaded left to right and only grows; the results represent `vs.map c` in the
    final heap -/
theorem cloneList_htie {c : T → T} {i : Inst} {R : Rep T} (ht : HTie c i R) (hm : R.Mono) :
    ∀ (vs : List T) (xs : List Val) (h : Heap), All2 (R h) vs xs →
      ∃ ext, (cloneList (clone i) xs h).2 = h ++ ext ∧
        All2 (R (h ++ ext)) (vs.map c) (cloneList (clone i) xs h).1 := by
  intro vs
  induction vs with
  | nil =>
    intro xs h hf
    cases hf
    exact ⟨[], by simp [cloneList], by simpa [cloneList] using All2.nil⟩
  | cons v vs ih =>
    intro xs h hf
    cases hf with
    | cons hvx hrest =>
      rename_i x xs'
      obtain ⟨e1, he1, hr1⟩ := ht v x h hvx
      obtain ⟨e2, he2, hr2⟩ := ih xs' (h ++ e1) (forall₂_imp (fun _ _ hab => hm _ _ _ e1 hab) hrest)
      refine ⟨e1 ++ e2, ?_, ?_⟩
      · simp only [cloneList, he1, he2, List.append_assoc]
      · simp only [cloneList, List.map_cons, he1]
        refine .cons ?_ ?_
        · have := hm _ _ _ e2 hr1
          simpa only [List.append_assoc] using this
        · simpa only [List.append_assoc] using hr2

private theorem htie_list_aux {c : T → T} {i : Inst} {R : Rep T} (ht : HTie c i R) (hm : R.Mono)
    (vs : List T) (len : Nat) (ws : List Val) (h : Heap) (hl : len ≤ ws.length)
    (hf : All2 (R h) vs (ws.take len)) :
    let r := cloneList (clone i) (ws.take len) h
    ∃ ext, r.2 ++ [Cell.arr r.1] = h ++ ext ∧ repList R (h ++ ext) (vs.map c) (.slice r.2.length len) := by
  intro r
  obtain ⟨e1, he1, hr1⟩ := cloneList_htie ht hm vs (ws.take len) h hf
  have hlen : r.1.length = len := by
    have h1 := forall₂_length hr1
    have h2 := forall₂_length hf
    simp only [List.length_map, List.length_take] at h1 h2
    show (cloneList (clone i) (ws.take len) h).1.length = len
    omega
  refine ⟨e1 ++ [Cell.arr r.1], ?_, ?_⟩
  · show (cloneList (clone i) (ws.take len) h).2 ++ _ = _
    rw [he1, List.append_assoc]
  · refine .inr ⟨r.2.length, len, r.1, rfl, ?_, by omega, ?_⟩
    · show (h ++ (e1 ++ [Cell.arr r.1]))[(cloneList (clone i) (ws.take len) h).2.length]? = _
      rw [he1, ← List.append_assoc]
      exact get_new _ _
    · rw [List.take_of_length_le (by omega), ← List.append_assoc]
      exact forall₂_imp (fun _ _ hab => hm _ _ _ _ hab) hr1

/-- `clone.Seq`: ALLOCATES the backing array of the result (after the element clones allocated theirs) — satisfied by the
    heap-relative tie, at any element tie -/
theorem htie_seq {c : T → T} {i : Inst} {R : Rep T} (ht : HTie c i R) (hm : R.Mono) :
    HTie (List.map c) (.seq i) (repList R) := by
  intro v x h hr
  rcases hr with ⟨rfl, rfl⟩ | ⟨a, len, ws, rfl, hc, hl, hf⟩
  · refine ⟨[Cell.arr []], by simp [clone], .inr ⟨h.length, 0, [], by simp [clone], by simp, by simp, by simpa using All2.nil⟩⟩
  · obtain ⟨ext, he, hr'⟩ := htie_list_aux ht hm v len ws h hl hf
    refine ⟨ext, by simpa [clone, hc] using he, by simpa [clone, hc] using hr'⟩

/-- `clone.Slice`: as `clone.Seq` -/
theorem htie_slice {c : T → T} {i : Inst} {R : Rep T} (ht : HTie c i R) (hm : R.Mono) :
    HTie (List.map c) (.slice i) (repList R) := by
  intro v x h hr
  rcases hr with ⟨rfl, rfl⟩ | ⟨a, len, ws, rfl, hc, hl, hf⟩
  · refine ⟨[Cell.arr []], by simp [clone], .inr ⟨h.length, 0, [], by simp [clone], by simp, by simp, by simpa using All2.nil⟩⟩
  · obtain ⟨ext, he, hr'⟩ := htie_list_aux ht hm v len ws h hl hf
    refine ⟨ext, by simpa [clone, hc] using he, by simpa [clone, hc] using hr'⟩

-- what a heap-relative tie says in terms of `view` ----------------------------------------------------------------------

/-- the form asked for: the heap only grows, and the VIEW of the model's result in the new heap is the tree of the pure
    function's result -/
theorem HTie.view_eq {c : T → T} {i : Inst} {R : Rep T} {tr : T → Tree} (ht : HTie c i R) (hv : R.Views i.ty tr)
    {h : Heap} {v : T} {x : Val} (hr : R h v x) :
    ∃ ext, (clone i x h).2 = h ++ ext ∧ WT i.ty (clone i x h).2 (clone i x h).1 ∧
      view i.ty (clone i x h).2 (clone i x h).1 = tr (c v) := by
  obtain ⟨ext, he, hr'⟩ := ht v x h hr
  have := hv _ _ _ hr'
  exact ⟨ext, he, by rw [he]; exact this.1, by rw [he]; exact this.2⟩

end FpVerif.CloneHeap
