import FpVerif.Lemmas.HamtSet3
/-! The stratification of `set` (`setCore` + expansion function) is immaterial below the root. -/
set_option linter.unusedSimpArgs false
set_option linter.unusedVariables false
namespace FpVerif.Hamt
variable {K V : Type} {h : Hasher K}

theorem mem_of_getElem?_kidsB {bm : Nat} {ns : List (Node K V)} (hlen : ns.length = popCount bm)
    {i : Nat} {c : Node K V} (hc : ns[i]? = some c) : ∃ b, (b, c) ∈ kidsB bm ns :=
  exists_zip_left (l₁ := bitsOf bm) (List.mem_of_getElem? hc) (by unfold popCount at hlen; omega)

theorem mem_of_getElem?_kidsH {ns : List (Option (Node K V))} (hlen : ns.length = 32)
    {i : Nat} {c : Node K V} (hc : ns[i]? = some (some c)) : (i, c) ∈ kidsH ns := by
  have hi : i < 32 := by
    rcases Nat.lt_or_ge i ns.length with h' | h'
    · omega
    · rw [List.getElem?_eq_none h'] at hc; cases hc
  obtain ⟨SL, o, SR, hsl, hSL, hsget⟩ := hashArray_split hi hlen
  rw [hsget] at hc; cases hc
  have hk1 := kidsH_cons hi (SR := SR) (some c) hSL
  rw [← hsl] at hk1
  rw [hk1]; simp

/-- On a well-formed non-array node `setCore` does not depend on the expansion function. -/
theorem setCore_ex_irrel (ex1 ex2 : List (K × V) → K → V → Bool → GoE (Node K V × Bool))
    {s : Nat} {n : Node K V} (hwf : WF h s n) : (∀ es, n ≠ .array es) →
    ∀ (k : K) (v : V) (kh : UInt32) (mu r : Bool),
      n.setCore h ex1 k v s kh mu r = n.setCore h ex2 k v s kh mu r := by
  induction hwf with
  | array h0 => intro hna; exact absurd rfl (hna _)
  | value hkh => intro _ k v kh mu r; rw [Node.setCore, Node.setCore]
  | collision h2 hh hd => intro _ k v kh mu r; rw [Node.setCore, Node.setCore]
  | @bitmap s bm ns hs hb hlen h1 h17 hkw hks ihw =>
    intro _ k v kh mu r
    have key : ∀ (i : Nat) (c : Node K V), ns[i]? = some c → ∀ r', c.setCore h ex1 k v (s + mapNodeBits) kh mu r' =
        c.setCore h ex2 k v (s + mapNodeBits) kh mu r' := by
      intro i c hc r'
      obtain ⟨b, hb⟩ := mem_of_getElem?_kidsB hlen hc
      exact ihw _ hb (WF.not_array (by omega) (hkw _ hb)) k v kh mu r'
    rw [Node.setCore, Node.setCore]
    split
    · split
      · rename_i c hc
        rw [key _ c hc]
      · rfl
    · rfl
  | @hashArray s cnt ns hs hlen hcnt h16 hkw hks ihw =>
    intro _ k v kh mu r
    have key : ∀ (i : Nat) (c : Node K V), ns[i]? = some (some c) → ∀ r', c.setCore h ex1 k v (s + mapNodeBits) kh mu r' =
        c.setCore h ex2 k v (s + mapNodeBits) kh mu r' := by
      intro i c hc r'
      have hb := mem_of_getElem?_kidsH hlen hc
      exact ihw _ hb (WF.not_array (by omega) (hkw _ hb)) k v kh mu r'
    rw [Node.setCore, Node.setCore]
    split
    · rfl
    · rename_i node hc
      cases node with
      | none => rfl
      | some c => simp only [key _ c hc]

theorem setTrie_eq_set {s : Nat} {n : Node K V} (hwf : WF h s n) (hna : ∀ es, n ≠ .array es)
    (k : K) (v : V) (kh : UInt32) (mu r : Bool) :
    n.setTrie h k v s kh mu r = n.set h k v s kh mu r :=
  setCore_ex_irrel _ _ hwf hna k v kh mu r

/-- the expansion loop written with `set` itself (as in Go) equals the model's loop -/
theorem expand_loop_eq (hl : LawfulHash h) : ∀ (Q : List (K × V)) (N : Node K V) (r : Bool),
    WF h 0 N → (∀ es, N ≠ .array es) →
    Q.foldlM (fun (acc : Node K V × Bool) entry =>
        acc.1.setTrie h entry.1 entry.2 0 (h.hash entry.1) false acc.2) (N, r) =
    Q.foldlM (fun (acc : Node K V × Bool) entry =>
        acc.1.set h entry.1 entry.2 0 (h.hash entry.1) false acc.2) (N, r) := by
  intro Q
  induction Q with
  | nil => intro N r _ _; rfl
  | cons e Q ih =>
    intro N r hwf hna
    rw [List.foldlM_cons, List.foldlM_cons]
    simp only [setTrie_eq_set hwf hna]
    obtain ⟨⟨N1, r1⟩, hset, hpost⟩ := setCore_spec hl (expandArray h) hwf hna e.1 e.2 false r
      (fun _ _ => pfxEq_zero _ _)
    have hset' : Node.set h N e.1 e.2 0 (h.hash e.1) false r = .ok (N1, r1) := hset
    simp only [hset', bind, Except.bind]
    exact ih N1 r1 hpost.wf hpost.notArray

/-- `mapArrayNode.set` on a full node, as the Go code reads: start from a value node for the new
    key and `set` every old entry into it. -/
theorem set_array_expansion (hl : LawfulHash h) {es : List (K × V)} (k : K) (v : V) (mu r : Bool)
    (hi : indexOf h es k = none) (hfull : es.length ≥ maxArrayMapSize) :
    (Node.array es).set h k v 0 (h.hash k) mu r =
      es.foldlM (fun (acc : Node K V × Bool) entry =>
        acc.1.set h entry.1 entry.2 0 (h.hash entry.1) false acc.2)
        (Node.value (h.hash k) k v, true) := by
  rw [← expand_loop_eq hl es _ true (WF.value rfl) (by intro es; simp)]
  unfold Node.set
  rw [Node.setCore]
  have : decide (es.length ≥ maxArrayMapSize) = true := by simpa using hfull
  simp only [hi, beq_self_eq_true, if_true, this, Bool.and_self, expandArray]

end FpVerif.Hamt
