import FpVerif.Model.TryOptExt
/-!
# Helper lemmas for `Spec/C01TExt.lean`: the loops of `seq.Scan` and `Seq.MakeString` equal their recursive
specifications (`scanTail`, `joinSep`), which are defined here because the lemmas are stated with them.
-/
namespace FpVerif.Spec.C01
open FpVerif

variable {A B : Type}

/-- the running fold that `seq.Scan` tabulates (without the leading zero) -/
def scanTail (f : B → A → GoM B) : List A → B → GoM (List B)
  | [], _ => pure []
  | v :: vs, sum => do
    let sum' ← f sum v
    let tl ← scanTail f vs sum'
    pure (sum' :: tl)

theorem scanLoop_spec (f : B → A → GoM B) (vs : List A) :
    ∀ (sum : B) (ret : List B), SeqM.scanLoop f vs sum ret = (do let tl ← scanTail f vs sum; pure (ret ++ tl)) := by
  induction vs with
  | nil => intro sum ret; simp [SeqM.scanLoop, scanTail]
  | cons v vs ih =>
    intro sum ret
    simp only [SeqM.scanLoop, scanTail, ih, bind_assoc, pure_bind]
    congr 1; funext s'
    congr 1; funext tl
    simp

/-- `strings.Join(parts, sep)`, by recursion on the list: the first part, then every further part preceded by `sep` -/
def joinAll : List String → String
  | [] => ""
  | a :: as => a ++ joinAll as

def joinSep (sep : String) : List String → String
  | [] => ""
  | a :: as => a ++ joinAll (as.map (fun x => sep ++ x))

theorem makeStringLoop_spec (sprint : A → String) (sep : String) (vs : List A) :
    ∀ buf : String, SeqM.makeStringLoop sprint sep vs false buf
      = buf ++ joinAll ((vs.map sprint).map (fun x => sep ++ x)) := by
  induction vs with
  | nil => intro buf; simp [SeqM.makeStringLoop, joinAll]
  | cons v vs ih => intro buf; simp [SeqM.makeStringLoop, joinAll, ih, String.append_assoc]

end FpVerif.Spec.C01
