import FpVerif.Model.EvalStack
/-! Helper lemmas for the stack-instrumented model of lazy.Eval: projections of the cost monad. -/
namespace FpVerif.EvalStack
open FpVerif FpVerif.EvalM

namespace Cost
variable {α β : Type}

@[simp] theorem val_pure (a : α) : (pure a : Cost α).val = a := rfl
@[simp] theorem log_pure (a : α) : (pure a : Cost α).log = [] := rfl
@[simp] theorem peak_pure (a : α) : (pure a : Cost α).peak = 0 := rfl
@[simp] theorem val_bind (m : Cost α) (f : α → Cost β) : (m >>= f).val = (f m.val).val := rfl
@[simp] theorem log_bind (m : Cost α) (f : α → Cost β) : (m >>= f).log = m.log ++ (f m.val).log := rfl
@[simp] theorem peak_bind (m : Cost α) (f : α → Cost β) : (m >>= f).peak = max m.peak (f m.val).peak := rfl
@[simp] theorem val_call (m : Cost α) : (call m).val = m.val := rfl
@[simp] theorem log_call (m : Cost α) : (call m).log = bump 1 m.log := rfl
@[simp] theorem peak_call (m : Cost α) : (call m).peak = m.peak + 1 := rfl
@[simp] theorem val_void (m : Cost α) : m.void.val = () := rfl
@[simp] theorem log_void (m : Cost α) : m.void.log = m.log := rfl
@[simp] theorem peak_void (m : Cost α) : m.void.peak = m.peak := rfl
@[simp] theorem log_emit (e : Event) : (emit e).log = [(e, 0)] := rfl
@[simp] theorem peak_emit (e : Event) : (emit e).peak = 0 := rfl

theorem ext' {a b : Cost α} (h1 : a.val = b.val) (h2 : a.log = b.log) (h3 : a.peak = b.peak) : a = b := by
  cases a; cases b; simp_all

@[simp] theorem bump_nil (k : Nat) : bump k [] = [] := rfl
@[simp] theorem bump_append (k : Nat) (a b : List DEvent) : bump k (a ++ b) = bump k a ++ bump k b := by
  simp [bump]
@[simp] theorem bump_bump (j k : Nat) (a : List DEvent) : bump j (bump k a) = bump (k + j) a := by
  simp [bump, Nat.add_assoc]
@[simp] theorem bump_cons (k : Nat) (p : DEvent) (a : List DEvent) : bump k (p :: a) = (p.1, p.2 + k) :: bump k a := rfl
@[simp] theorem map_fst_bump (k : Nat) (a : List DEvent) : (bump k a).map Prod.fst = a.map Prod.fst := by
  simp [bump, Function.comp_def]

@[simp] theorem events_pure (a : α) : (pure a : Cost α).events = [] := rfl
@[simp] theorem events_bind (m : Cost α) (f : α → Cost β) : (m >>= f).events = m.events ++ (f m.val).events := by
  simp [events]
@[simp] theorem events_call (m : Cost α) : (call m).events = m.events := by simp [events]
@[simp] theorem events_void (m : Cost α) : m.void.events = m.events := rfl
@[simp] theorem events_emit (e : Event) : (emit e).events = [e] := rfl

theorem erase_eq (m : Cost α) : m.erase = (m.val, m.events) := rfl

/-- every logged frame is below the peak -/
def WF (m : Cost α) : Prop := ∀ p ∈ m.log, p.2 ≤ m.peak

theorem wf_pure (a : α) : WF (pure a : Cost α) := by intro p hp; simp at hp
theorem wf_emit (e : Event) : WF (emit e) := by intro p hp; simp at hp; simp [hp]
theorem wf_call {m : Cost α} (h : WF m) : WF (call m) := by
  intro p hp
  simp [bump] at hp
  obtain ⟨a, b, hab, rfl⟩ := hp
  have := h _ hab
  simp at this ⊢; omega
theorem wf_bind {m : Cost α} {f : α → Cost β} (h1 : WF m) (h2 : WF (f m.val)) : WF (m >>= f) := by
  intro p hp
  simp at hp
  rcases hp with hp | hp
  · have := h1 _ hp; simp; omega
  · have := h2 _ hp; simp; omega
theorem wf_void {m : Cost α} (h : WF m) : WF m.void := h

end Cost
-- equations of the instrumented run loop (used by Spec/C16Stack) ------------------------------------------------
section RunLemmas
open Cost
variable {T : Type} [Inhabited T]

theorem callFirst_erase (first : Option (Unit → Cost T)) :
    (EvalStack.callFirst first).erase = EvalM.callFirst (first.map (fun f u => (f u).erase)) := by
  cases first <;> simp [EvalStack.callFirst, EvalM.callFirst, erase_eq]

theorem val_runBody_cont (first : Option (Unit → Cost T)) (nextC : T → Cost Unit) (next : T → SEval T) :
    (runBody (.cont first nextC next)).val = (runBody (next (EvalStack.callFirst first).val)).val := by
  simp [runBody]

/-- One loop iteration on a `cont` node: `Resume` (1 frame), then the closure it returned (1 frame) calling
    `firstFunc` and `getNextFunc` (1 frame each + what they do); the REST of the evaluation runs in the same
    frame of `Run`: it contributes with `max`, not with `+`. -/
theorem peak_runBody_cont (first : Option (Unit → Cost T)) (nextC : T → Cost Unit) (next : T → SEval T) :
    (runBody (.cont first nextC next)).peak
      = max (1 + max (EvalStack.callFirst first).peak (1 + (nextC (EvalStack.callFirst first).val).peak))
            (runBody (next (EvalStack.callFirst first).val)).peak := by
  simp [runBody]; omega

theorem peak_runBody_leaf (first : Option (Unit → Cost T)) :
    (runBody (.leaf first)).peak = 1 + (EvalStack.callFirst first).peak := by
  simp [runBody]; omega

theorem peak_runBody_done (t : T) : (runBody (done t)).peak = 2 := by
  simp [runBody, done, EvalStack.callFirst]

theorem val_runBody_tailCall (f : Unit → Cost (SEval T)) :
    (runBody (tailCall f)).val = (runBody (f ()).val).val := by
  simp [tailCall, val_runBody_cont]

theorem peak_get (e : SEval T) : (EvalStack.get e).peak = 2 + (runBody e).peak := by
  simp [EvalStack.get, EvalStack.run]; omega

theorem val_runBody_flatMap (r : SEval T) (f : T → Cost (SEval T)) :
    (runBody (flatMap r f)).val = (runBody (f (runBody r).val).val).val := by
  induction r with
  | leaf first => simp [flatMap, runBody]
  | cont first nextC next ih => simp [flatMap, val_runBody_cont, ih]

omit [Inhabited T] in
/-- structure of a left-nested chain on a leaf: the `getNextFunc` of `e.FlatMap(k 1)…FlatMap(k (n+1))` is a tower
    of `n` wrapper closures around `k 1` -/
theorem lchain_leaf (k : Nat → T → Cost (SEval T)) (first : Option (Unit → Cost T)) (n : Nat) :
    ∃ nextC next, lchain k (n + 1) (.leaf first) = .cont first nextC next
      ∧ (∀ v, (nextC v).peak = n + (k 1 v).peak ∨ ((k 1 v).peak = 0 ∧ (nextC v).peak = n)) := by
  induction n with
  | zero => exact ⟨_, _, rfl, fun v => by simp⟩
  | succ n ih =>
    obtain ⟨nC, nx, h, hp⟩ := ih
    refine ⟨_, _, by rw [lchain, h, flatMap], fun v => ?_⟩
    have := hp v
    simp; omega

theorem log_runBody_tailCall (f : Unit → Cost (SEval T)) :
    (runBody (tailCall f)).log = bump 7 (f ()).log ++ (runBody (f ()).val).log := by
  simp [tailCall, runBody, callFirst, memoBody, onceDo]

theorem log_runBody_tailCallN (f : Unit → Cost (SEval T)) :
    (runBody (tailCallN f)).log = bump 8 (f ()).log ++ (runBody (f ()).val).log := by
  simp [tailCallN, log_runBody_tailCall]

theorem wf_callFirst (first : Option (Unit → Cost T)) (h : ∀ f, first = some f → WF (f ())) : WF (callFirst first) := by
  cases first with
  | none => exact wf_call (wf_pure _)
  | some f => exact wf_call (h f rfl)

theorem log_runBody_callE (f : Unit → Cost T) : (runBody (callE f)).log = bump 6 (f ()).log := by
  simp [runBody, callE, callFirst, memoBody, onceDo]

end RunLemmas

end FpVerif.EvalStack
