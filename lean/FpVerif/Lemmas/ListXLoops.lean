import FpVerif.Model.ListX
import FpVerif.Lemmas.ListLoops
import FpVerif.Lemmas.ListDen
import FpVerif.Lemmas.IterPanic
/-!
# LISTX: the cursor loops `ToGoMap / ToMap / ToSet / ToGoSet`, `Unapply`, `Foreach`, `FoldFuture`
# over any list representation that satisfies the `fp.List` interface contract `LSim`; they keep the
# memo heap well-formed (every cell started at most once).
-/
namespace FpVerif.LX
open FpVerif FpVerif.It FpVerif.LL IM

variable {k : Nat} {R : Heap → LV → List Val → Prop}

/-! ## running `GoM` computations -/

theorem gom_bind_ok {A B : Type} {m : GoM A} {f : A → GoM B} {lg lg1 : Log} {a : A}
    (h : m.run.run lg = (.ok a, lg1)) : (m >>= f).run.run lg = (f a).run.run lg1 := by
  simp only [ExceptT.run_bind]
  simp only [bind, StateT.bind, StateT.run] at h ⊢
  have h' : ExceptT.run m lg = (Except.ok a, lg1) := h
  rw [h']

theorem gom_bind_err {A B : Type} {m : GoM A} {f : A → GoM B} {lg lg1 : Log} {p : PanicVal}
    (h : m.run.run lg = (.error p, lg1)) : (m >>= f).run.run lg = (.error p, lg1) := by
  simp only [ExceptT.run_bind]
  simp only [bind, StateT.bind, StateT.run] at h ⊢
  have h' : ExceptT.run m lg = (Except.error p, lg1) := h
  rw [h']
  rfl

/-! ## the accumulator loop -/

theorem accLoop_lspec {α : Type} (upd : α → Val → α) (hS : LSim k R) :
    ∀ (xs : List Val) (fuel : Nat) (hp : Heap) (l : LV) (z : α) (lg : Log),
      k + xs.length < fuel → R hp l xs →
      ∃ hp' lg', accLoop upd fuel l z hp lg = (.ok (xs.foldl upd z), hp', lg') := by
  intro xs
  induction xs with
  | nil =>
    intro fuel hp l z lg hfu hR
    obtain ⟨n, rfl⟩ := Nat.exists_eq_succ_of_ne_zero (by omega : fuel ≠ 0)
    obtain ⟨hp1, lg1, h1, _⟩ := hS.isEmpty n hp l [] lg (by simp at hfu; omega) hR
    exact ⟨hp1, lg1, by simp [accLoop, bind_ok h1]⟩
  | cons x xs ih =>
    intro fuel hp l z lg hfu hR
    obtain ⟨n, rfl⟩ := Nat.exists_eq_succ_of_ne_zero (by omega : fuel ≠ 0)
    have hk : k ≤ n := by simp at hfu; omega
    obtain ⟨hp1, lg1, h1, hR1⟩ := hS.isEmpty n hp l (x :: xs) lg hk hR
    obtain ⟨hp2, lg2, h2, hR2⟩ := hS.head n hp1 l x xs lg1 hk hR1
    obtain ⟨t, hp3, lg3, h3, hR3⟩ := hS.tail n hp2 l x xs lg2 hk hR2
    obtain ⟨hp', lg', h4⟩ := ih n hp3 t (upd z x) lg3 (by simp at hfu ⊢; omega) hR3
    exact ⟨hp', lg', by simp [accLoop, bind_ok h1, bind_ok h2, bind_ok h3, h4]⟩

theorem pres_accLoop {α : Type} (upd : α → Val → α) : ∀ fuel l z, Pres (accLoop upd fuel l z) := by
  intro fuel
  induction fuel with
  | zero => intro l z; exact Pres.panic _
  | succ n ih =>
    intro l z
    have hA := presAll n
    simp only [accLoop]
    refine Pres.bind (hA.isEmpty l) (fun b => ?_)
    cases b
    · exact Pres.bind (hA.head l) (fun v => Pres.bind (hA.tail l) (fun t => ih t _))
    · exact Pres.pure _

/-! ## `Unapply` -/

theorem unapply_lspec (hS : LSim k R) (fuel : Nat) (hp : Heap) (l : LV) (x : Val) (xs : List Val) (lg : Log)
    (hk : k < fuel) (hR : R hp l (x :: xs)) :
    ∃ t hp' lg', unapply fuel l hp lg = (.ok (x, t), hp', lg') ∧ R hp' t xs := by
  obtain ⟨n, rfl⟩ := Nat.exists_eq_succ_of_ne_zero (by omega : fuel ≠ 0)
  have hk' : k ≤ n := by omega
  obtain ⟨hp1, lg1, h1, hR1⟩ := hS.head n hp l x xs lg hk' hR
  obtain ⟨t, hp2, lg2, h2, hR2⟩ := hS.tail n hp1 l x xs lg1 hk' hR1
  cases l with
  | nil =>
    -- `Nil` denotes no non-empty list: `Head()` panics
    cases n with
    | zero => simp [LL.head, IM.panic] at h1
    | succ m => simp [LL.head, IM.panic] at h1
  | cons a t' => exact ⟨t, hp2, lg2, by simp [unapply, bind_ok h1, bind_ok h2], hR2⟩
  | seq ys => exact ⟨t, hp2, lg2, by simp [unapply, bind_ok h1, bind_ok h2], hR2⟩
  | adaptor a b => exact ⟨t, hp2, lg2, by simp [unapply, bind_ok h1, bind_ok h2], hR2⟩
  | nilIface =>
    -- the nil interface denotes nothing: `Head()` panics
    cases n with
    | zero => simp [LL.head, IM.panic] at h1
    | succ m => simp [LL.head, IM.panic] at h1

/-- `Unapply` of an empty `Nil` / `Cons`-free / `Seq` list panics (as `Head()` does), nothing changes -/
theorem unapply_empty_plain (fuel : Nat) (l : LV) (hp : Heap) (lg : Log) (h : plainDen l = some []) :
    ∃ p, unapply (fuel + 2) l hp lg = (.error p, hp, lg) ∧ (p = "List.empty" ∨ p = "List.Empty") := by
  cases l with
  | nil => exact ⟨"List.empty", by simp [unapply, LL.head, IM.panic, listEmpty, bind_apply], Or.inl rfl⟩
  | cons a t => simp [plainDen] at h
  | seq ys =>
    simp [plainDen] at h; subst h
    exact ⟨"List.Empty", by simp [unapply, LL.head, IM.panic, bind_apply], Or.inr rfl⟩
  | adaptor a b => simp [plainDen] at h
  | nilIface => simp [plainDen] at h

theorem pres_unapply : ∀ fuel l, Pres (unapply fuel l) := by
  intro fuel l
  cases fuel with
  | zero => cases l <;> exact Pres.panic _
  | succ n =>
    have hA := presAll n
    cases l with
    | nil => exact Pres.bind (hA.head _) (fun _ => Pres.pure _)
    | cons a t => exact Pres.bind (hA.head _) (fun _ => Pres.bind (hA.tail _) (fun _ => Pres.pure _))
    | seq ys => exact Pres.bind (hA.head _) (fun _ => Pres.bind (hA.tail _) (fun _ => Pres.pure _))
    | adaptor a b => exact Pres.bind (hA.head _) (fun _ => Pres.bind (hA.tail _) (fun _ => Pres.pure _))
    | nilIface => exact Pres.bind (hA.head _) (fun _ => Pres.bind (hA.tail _) (fun _ => Pres.pure _))

theorem pres_nonEmpty (fuel : Nat) (l : LV) : Pres (LX.nonEmpty fuel l) :=
  Pres.bind ((presAll fuel).isEmpty l) (fun _ => Pres.pure _)

/-! ## `Foreach` -/

/-- `ListAdaptor.Foreach` with a callback that returns or panics: the outcome of the reference loop;
    after a panic the cursor rests on the element whose callback panicked. -/
theorem foreachCursor_lspec {f : Val → GoM Unit} {g : Val → Except PanicVal Unit} (hf : Outcome f g) (hS : LSim k R) :
    ∀ (xs : List Val) (fuel : Nat) (hp : Heap) (l : LV) (lg : Log),
      k + xs.length < fuel → R hp l xs →
      ∃ hp' lg', foreachCursor f fuel l hp lg = ((foreachE g xs).1, hp', lg') ∧
        (∀ p, (foreachE g xs).1 = .error p → ∃ l' a, R hp' l' (a :: (foreachE g xs).2)) := by
  intro xs
  induction xs with
  | nil =>
    intro fuel hp l lg hfu hR
    obtain ⟨n, rfl⟩ := Nat.exists_eq_succ_of_ne_zero (by omega : fuel ≠ 0)
    obtain ⟨hp1, lg1, h1, _⟩ := hS.isEmpty n hp l [] lg (by simp at hfu; omega) hR
    exact ⟨hp1, lg1, by simp [foreachCursor, bind_ok h1, foreachE], by simp [foreachE]⟩
  | cons x xs ih =>
    intro fuel hp l lg hfu hR
    obtain ⟨n, rfl⟩ := Nat.exists_eq_succ_of_ne_zero (by omega : fuel ≠ 0)
    have hk : k ≤ n := by simp at hfu; omega
    obtain ⟨hp1, lg1, h1, hR1⟩ := hS.isEmpty n hp l (x :: xs) lg hk hR
    obtain ⟨hp2, lg2, h2, hR2⟩ := hS.head n hp1 l x xs lg1 hk hR1
    obtain ⟨lg3, h3⟩ := liftG_outcome hf x hp2 lg2
    cases hg : g x with
    | ok u =>
      cases u
      rw [hg] at h3
      obtain ⟨t, hp4, lg4, h4, hR4⟩ := hS.tail n hp2 l x xs lg3 hk hR2
      obtain ⟨hp', lg', h5, hrest⟩ := ih n hp4 t lg4 (by simp at hfu ⊢; omega) hR4
      refine ⟨hp', lg', ?_, by simpa [foreachE, hg] using hrest⟩
      simp [foreachCursor, bind_ok h1, bind_ok h2, bind_ok h3, bind_ok h4, h5, foreachE, hg]
    | error p =>
      rw [hg] at h3
      refine ⟨hp2, lg3, ?_, fun _ _ => ⟨l, x, by simpa [foreachE, hg] using hR2⟩⟩
      simp [foreachCursor, bind_ok h1, bind_ok h2, bind_err h3, foreachE, hg]

theorem pres_seqForeach (f : Val → GoM Unit) : ∀ xs, Pres (seqForeach f xs : HM Unit) := by
  intro xs
  induction xs with
  | nil => exact Pres.pure _
  | cons x xs ih => exact Pres.bind (Pres.liftG _) (fun _ => ih)

theorem pres_foreachCursor (f : Val → GoM Unit) : ∀ fuel l, Pres (foreachCursor f fuel l) := by
  intro fuel
  induction fuel with
  | zero => intro l; exact Pres.panic _
  | succ n ih =>
    intro l
    have hA := presAll n
    simp only [foreachCursor]
    refine Pres.bind (hA.isEmpty l) (fun b => ?_)
    cases b
    · exact Pres.bind (hA.head l) (fun v => Pres.bind (Pres.liftG _) (fun _ => Pres.bind (hA.tail l) (fun t => ih t)))
    · exact Pres.pure _

theorem pres_foreachL (f : Val → GoM Unit) : ∀ fuel l, Pres (foreachL f fuel l) := by
  intro fuel
  induction fuel with
  | zero => intro l; cases l <;> exact Pres.panic _
  | succ n ih =>
    intro l
    cases l with
    | nil => exact Pres.pure _
    | cons a t => exact Pres.bind (Pres.liftG _) (fun _ => ih t)
    | seq ys => exact pres_seqForeach f ys
    | adaptor a b => exact pres_foreachCursor f n _
    | nilIface => exact Pres.panic _

theorem pres_toSeqM : ∀ fuel l acc, Pres (toSeqM fuel l acc) := by
  intro fuel
  induction fuel with
  | zero => intro l acc; cases l <;> exact Pres.panic _
  | succ n ih =>
    intro l acc
    cases l with
    | nil => exact Pres.pure _
    | cons a t => exact ih t _
    | seq ys => exact Pres.pure _
    | adaptor a b => exact pres_toSeq n _ _
    | nilIface => exact Pres.panic _

/-- `Foreach` on the heap-free representations with a callback that appends `ev a` to the log: the
    callback sees exactly the elements, in order, once each; the heap is not touched. -/
theorem foreachL_plain (f : Val → GoM Unit) (ev : Val → List Event)
    (hf : ∀ a lg, (f a).run.run lg = (.ok (), lg ++ ev a)) :
    ∀ (l : LV) (xs : List Val), plainDen l = some xs → ∀ (fuel : Nat) (hp : Heap) (lg : Log), xs.length < fuel →
      foreachL f fuel l hp lg = (.ok (), hp, lg ++ xs.flatMap ev) := by
  have hl : ∀ a (hp : Heap) lg, (IM.liftG (f a) : HM Unit) hp lg = (.ok (), hp, lg ++ ev a) := by
    intro a hp lg; simp [IM.liftG, hf a lg]
  have hseq : ∀ (ys : List Val) (hp : Heap) (lg : Log), (seqForeach f ys : HM Unit) hp lg = (.ok (), hp, lg ++ ys.flatMap ev) := by
    intro ys
    induction ys with
    | nil => intro hp lg; simp [seqForeach]
    | cons y ys ih => intro hp lg; simp [seqForeach, bind_ok (hl y hp lg), ih, List.append_assoc]
  intro l
  induction l with
  | nil =>
    intro xs h fuel hp lg hfu
    simp [plainDen] at h; subst h
    obtain ⟨n, rfl⟩ := Nat.exists_eq_succ_of_ne_zero (by omega : fuel ≠ 0)
    simp [foreachL]
  | cons a t ih =>
    intro xs h fuel hp lg hfu
    simp only [plainDen, Option.map_eq_some_iff] at h
    obtain ⟨ys, hy, rfl⟩ := h
    obtain ⟨n, rfl⟩ := Nat.exists_eq_succ_of_ne_zero (by omega : fuel ≠ 0)
    have := ih ys hy n hp (lg ++ ev a) (by simp at hfu; omega)
    simp [foreachL, bind_ok (hl a hp lg), this, List.append_assoc]
  | seq ys =>
    intro xs h fuel hp lg hfu
    simp [plainDen] at h; subst h
    obtain ⟨n, rfl⟩ := Nat.exists_eq_succ_of_ne_zero (by omega : fuel ≠ 0)
    simp [foreachL, hseq]
  | adaptor a b => intro xs h; simp [plainDen] at h
  | nilIface => intro xs h; simp [plainDen] at h

/-! ## `FoldFuture` -/

/-- the sequential fold over results: a failure stops it -/
def futRef (g : Val → Val → Try Val) : Try Val → List Val → Try Val
  | acc, [] => acc
  | .success a, v :: vs => futRef g (g a v) vs
  | .failure e, _ :: vs => futRef g (.failure e) vs

theorem futRef_failure (g : Val → Val → Try Val) (e : Err) (vs : List Val) : futRef g (.failure e) vs = .failure e := by
  induction vs with
  | nil => rfl
  | cons v vs ih => simpa [futRef] using ih

/-- once the chain has failed `fn` is not called any more: no event, same failure -/
theorem futChain_failed (fn : Val → Val → GoM (Try Val)) (e : Err) (he : e ≠ .nil) :
    ∀ (vs : List Val) (lg : Log), (futChain fn vs (.failure e)).run.run lg = (.ok (.failure e), lg) := by
  intro vs
  induction vs with
  | nil => intro lg; rfl
  | cons v vs ih =>
    intro lg
    have h1 : (futStep fn (.failure e) v).run.run lg = (.ok (.failure e), lg) := by
      simp [futStep, Try.failedGet_failure e he]; rfl
    simp only [futChain]
    rw [gom_bind_ok h1]
    exact ih lg

theorem futChain_total {fn : Val → Val → GoM (Try Val)} {g : Val → Val → Try Val} (hf : Total2 fn g)
    (hg : ∀ a v, g a v ≠ .failure .nil) :
    ∀ (vs : List Val) (acc : Try Val) (lg : Log), acc ≠ .failure .nil →
      ∃ lg', (futChain fn vs acc).run.run lg = (.ok (futRef g acc vs), lg') := by
  intro vs
  induction vs with
  | nil => intro acc lg _; exact ⟨lg, by cases acc <;> rfl⟩
  | cons v vs ih =>
    intro acc lg hacc
    cases acc with
    | failure e =>
      have he : e ≠ .nil := fun h => hacc (by rw [h])
      exact ⟨lg, by rw [futChain_failed fn e he, futRef_failure]⟩
    | success a =>
      obtain ⟨lg1, h1⟩ := hf a v lg
      obtain ⟨lg2, h2⟩ := ih (g a v) lg1 (hg a v)
      refine ⟨lg2, ?_⟩
      simp only [futChain, futRef]
      have h1' : (futStep fn (.success a) v).run.run lg = (.ok (g a v), lg1) := h1
      rw [gom_bind_ok h1']
      exact h2

theorem pres_foldFuture (fn : Val → Val → GoM (Try Val)) (fuel : Nat) (l : LV) (z : Val) : Pres (foldFuture fn fuel l z) :=
  Pres.bind (pres_toSeq fuel l []) (fun _ => Pres.liftG _)

end FpVerif.LX
