import FpVerif.Lemmas.ListLoops
/-!
# Lazy list: the memoised cells of `GenerateFrom` (`Generate`, `Range`, `RangeClosed`) satisfy the
# `fp.List` interface contract `LSim` — with frame lemmas for heap growth and for forcing cells.
-/
namespace FpVerif.LL
open FpVerif.It IM

/-! ## a memoised representation satisfies the contract: `GenerateFrom` (`Generate`, `Range`) -/

/-- `xs` is exactly what the generator yields from index `i` on, up to its first `None` -/
def Enum (gp : Int → Option Val) : Int → List Val → Prop
  | i, [] => gp i = none
  | i, v :: rest => gp i = some v ∧ Enum gp (i + 1) rest

/-- the cells of `GenerateFrom(i, g)`, partially forced -/
def GenR (g : Int → GoM (Option Val)) (gp : Int → Option Val) : List Val → Heap → LV → Int → Prop
  | xs, hp, .adaptor hc tc, i =>
    (hp.hs[hc]? = some (.pending (.gen i g), 0) ∨ hp.hs[hc]? = some (.done (gp i), 1)) ∧
    match xs with
    | [] => gp i = none
    | v :: rest => gp i = some v ∧
      ((hp.ts[tc]? = some (.pending (.gen i g), 0) ∧ Enum gp (i + 1) rest) ∨
       (∃ hc' tc', hp.ts[tc]? = some (.done (.adaptor hc' tc'), 1) ∧ hc < hc' ∧ tc < tc' ∧
          GenR g gp rest hp (.adaptor hc' tc') (i + 1)))
  | _, _, _, _ => False

variable {g : Int → GoM (Option Val)} {gp : Int → Option Val}

theorem GenR_enum : ∀ (xs : List Val) (hp : Heap) (l : LV) (i : Int), GenR g gp xs hp l i → Enum gp i xs := by
  intro xs
  induction xs with
  | nil => intro hp l i h; cases l <;> simp [GenR] at h; exact h.2
  | cons v rest ih =>
    intro hp l i h
    cases l <;> simp only [GenR] at h
    obtain ⟨_, hv, h2⟩ := h
    refine ⟨hv, ?_⟩
    rcases h2 with ⟨_, he⟩ | ⟨hc', tc', _, _, _, hr⟩
    · exact he
    · exact ih hp _ _ hr

/-- changing a head cell below all cells of the list does not affect it -/
theorem GenR_set_hs (c : Nat) (v : Cell HThunk (Option Val) × Nat) :
    ∀ (xs : List Val) (hp : Heap) (a b : Nat) (i : Int), c < a → GenR g gp xs hp (.adaptor a b) i →
      GenR g gp xs { hp with hs := hp.hs.set! c v } (.adaptor a b) i := by
  intro xs
  induction xs with
  | nil =>
    intro hp a b i hlt h
    simp only [GenR] at h ⊢
    have : (hp.hs.set! c v)[a]? = hp.hs[a]? := by
      simp [Array.set!_eq_setIfInBounds, Array.getElem?_setIfInBounds]; omega
    rw [this]; exact h
  | cons x rest ih =>
    intro hp a b i hlt h
    simp only [GenR] at h ⊢
    have : (hp.hs.set! c v)[a]? = hp.hs[a]? := by
      simp [Array.set!_eq_setIfInBounds, Array.getElem?_setIfInBounds]; omega
    rw [this]
    refine ⟨h.1, h.2.1, ?_⟩
    rcases h.2.2 with hpend | ⟨hc', tc', ht, h1, h2, hr⟩
    · exact Or.inl hpend
    · exact Or.inr ⟨hc', tc', ht, h1, h2, ih hp hc' tc' (i + 1) (by omega) hr⟩

theorem push_get_lt {C : Type} (a : Array C) (x : C) (i : Nat) (h : i < a.size) : (a.push x)[i]? = a[i]? := by
  rw [Array.getElem?_push]; simp; omega

/-- pushing fresh cells does not affect it -/
theorem GenR_push (h1 : Cell HThunk (Option Val) × Nat) (t1 : Cell TThunk LV × Nat) :
    ∀ (xs : List Val) (hp : Heap) (a b : Nat) (i : Int), GenR g gp xs hp (.adaptor a b) i →
      GenR g gp xs { hp with hs := hp.hs.push h1, ts := hp.ts.push t1 } (.adaptor a b) i := by
  intro xs
  induction xs with
  | nil =>
    intro hp a b i h
    simp only [GenR] at h ⊢
    have ha : a < hp.hs.size := by
      rcases h.1 with h | h <;> exact (Array.getElem?_eq_some_iff.mp h).1
    rw [push_get_lt _ _ _ ha]
    exact h
  | cons x rest ih =>
    intro hp a b i h
    simp only [GenR] at h ⊢
    have ha : a < hp.hs.size := by
      rcases h.1 with h | h <;> exact (Array.getElem?_eq_some_iff.mp h).1
    rw [push_get_lt _ _ _ ha]
    refine ⟨h.1, h.2.1, ?_⟩
    rcases h.2.2 with ⟨hpend, he⟩ | ⟨hc', tc', ht, h1', h2, hr⟩
    · have hb : b < hp.ts.size := (Array.getElem?_eq_some_iff.mp hpend).1
      exact Or.inl ⟨by rw [push_get_lt _ _ _ hb]; exact hpend, he⟩
    · have hb : b < hp.ts.size := (Array.getElem?_eq_some_iff.mp ht).1
      exact Or.inr ⟨hc', tc', by rw [push_get_lt _ _ _ hb]; exact ht, h1', h2, ih hp hc' tc' (i + 1) hr⟩

/-- changing a tail cell below all cells of the list does not affect it -/
theorem GenR_set_ts (c : Nat) (v : Cell TThunk LV × Nat) :
    ∀ (xs : List Val) (hp : Heap) (a b : Nat) (i : Int), c < b → GenR g gp xs hp (.adaptor a b) i →
      GenR g gp xs { hp with ts := hp.ts.set! c v } (.adaptor a b) i := by
  intro xs
  induction xs with
  | nil => intro hp a b i hlt h; simpa only [GenR] using h
  | cons x rest ih =>
    intro hp a b i hlt h
    simp only [GenR] at h ⊢
    have : (hp.ts.set! c v)[b]? = hp.ts[b]? := by
      simp [Array.set!_eq_setIfInBounds, Array.getElem?_setIfInBounds]; omega
    rw [this]
    refine ⟨h.1, h.2.1, ?_⟩
    rcases h.2.2 with hpend | ⟨hc', tc', ht, h1, h2, hr⟩
    · exact Or.inl hpend
    · exact Or.inr ⟨hc', tc', ht, h1, h2, ih hp hc' tc' (i + 1) (by omega) hr⟩

theorem forceH_gen_spec (hg : Total g gp) (fuel hc : Nat) (hp : Heap) (lg : Log) (i : Int)
    (hcell : hp.hs[hc]? = some (.pending (.gen i g), 0)) :
    ∃ lg', forceH (fuel + 2) hc hp lg =
      (.ok (gp i), { hp with hs := (hp.hs.set! hc (.running, 0 + 1)).set! hc (.done (gp i), 0 + 1) }, lg') := by
  obtain ⟨lg', h'⟩ := liftG_total hg i ({ hp with hs := hp.hs.set! hc (.running, 0 + 1) } : Heap) lg
  refine ⟨lg', ?_⟩
  rw [LL.forceH]
  simp only [bind_apply, get_apply, hcell, modify_apply]
  rw [LL.runH]
  · simp only [LL.onPanic, h', pure_apply]
  · exact fun h => absurd h (Nat.succ_ne_zero _)

theorem forceT_gen_spec (fuel tc : Nat) (hp : Heap) (lg : Log) (i : Int)
    (hcell : hp.ts[tc]? = some (.pending (.gen i g), 0)) :
    forceT (fuel + 2) tc hp lg =
      (.ok (.adaptor hp.hs.size hp.ts.size),
       { hp with hs := hp.hs.push (.pending (.gen (i + 1) g), 0),
                 ts := (((hp.ts.set! tc (.running, 0 + 1)).push (.pending (.gen (i + 1) g), 0)).set! tc
                    (.done (.adaptor hp.hs.size hp.ts.size), 0 + 1)) }, lg) := by
  rw [LL.forceT]
  simp only [bind_apply, get_apply, hcell, modify_apply]
  rw [LL.runT]
  · simp [makeList, LL.onPanic]
  · exact fun h => absurd h (Nat.succ_ne_zero _)

theorem set_get_same {C : Type} (a : Array C) (c : Nat) (x : C) (h : c < a.size) : (a.set! c x)[c]? = some x := by
  simp [Array.set!_eq_setIfInBounds, Array.getElem?_setIfInBounds, h]

theorem set_get_other {C : Type} (a : Array C) (c j : Nat) (x : C) (h : j ≠ c) : (a.set! c x)[j]? = a[j]? := by
  simp [Array.set!_eq_setIfInBounds, Array.getElem?_setIfInBounds]; omega

/-- forcing the head cell of a `GenerateFrom` list keeps the relation -/
theorem GenR_force_head (xs : List Val) (hp : Heap) (hc tc : Nat) (i : Int)
    (h : GenR g gp xs hp (.adaptor hc tc) i) (w : Cell HThunk (Option Val) × Nat) :
    GenR g gp xs { hp with hs := (hp.hs.set! hc w).set! hc (.done (gp i), 0 + 1) } (.adaptor hc tc) i := by
  have hlt : hc < hp.hs.size := by
    cases xs <;> simp only [GenR] at h <;> rcases h.1 with h | h <;> exact (Array.getElem?_eq_some_iff.mp h).1
  have hget : ((hp.hs.set! hc w).set! hc (.done (gp i), 0 + 1))[hc]? = some (.done (gp i), 1) := by
    rw [set_get_same]; simp [Array.set!_eq_setIfInBounds, hlt]
  cases xs with
  | nil =>
    simp only [GenR] at h ⊢
    exact ⟨Or.inr hget, h.2⟩
  | cons v rest =>
    simp only [GenR] at h ⊢
    refine ⟨Or.inr hget, h.2.1, ?_⟩
    rcases h.2.2 with hpend | ⟨hc', tc', ht, h1, h2, hr⟩
    · exact Or.inl hpend
    · refine Or.inr ⟨hc', tc', ht, h1, h2, ?_⟩
      have := GenR_set_hs hc w rest hp hc' tc' (i + 1) h1 hr
      exact GenR_set_hs hc (.done (gp i), 0 + 1) rest _ hc' tc' (i + 1) h1 this

theorem gen_lsim (hg : Total g gp) : LSim 3 (fun hp l xs => ∃ i, GenR g gp xs hp l i) where
  isEmpty := by
    rintro fuel hp l xs lg hk ⟨i, h⟩
    obtain ⟨f, rfl⟩ : ∃ f, fuel = f + 3 := ⟨fuel - 3, by omega⟩
    cases l with
    | nil => simp [GenR] at h
    | cons a t => simp [GenR] at h
    | seq ys => simp [GenR] at h
    | nilIface => simp [GenR] at h
    | adaptor hc tc =>
      have hempty : (gp i).isNone = xs.isEmpty := by
        cases xs <;> simp only [GenR] at h
        · simp [h.2]
        · simp [h.2.1]
      have hcell : hp.hs[hc]? = some (.pending (.gen i g), 0) ∨ hp.hs[hc]? = some (.done (gp i), 1) := by
        cases xs <;> simp only [GenR] at h <;> exact h.1
      rcases hcell with hcell | hcell
      · obtain ⟨lg', e⟩ := forceH_gen_spec hg f hc hp lg i hcell
        refine ⟨_, lg', ?_, i, GenR_force_head xs hp hc tc i h (.running, 0 + 1)⟩
        rw [LL.isEmpty]
        simp only [bind_apply, e, pure_apply, hempty]
      · refine ⟨hp, lg, ?_, i, h⟩
        rw [LL.isEmpty]
        simp only [bind_apply, forceH_done _ hc hp lg _ _ hcell, pure_apply, hempty]
  head := by
    rintro fuel hp l x xs lg hk ⟨i, h⟩
    obtain ⟨f, rfl⟩ : ∃ f, fuel = f + 3 := ⟨fuel - 3, by omega⟩
    cases l with
    | nil => simp [GenR] at h
    | cons a t => simp [GenR] at h
    | seq ys => simp [GenR] at h
    | nilIface => simp [GenR] at h
    | adaptor hc tc =>
      have hv : gp i = some x := by simp only [GenR] at h; exact h.2.1
      have hcell : hp.hs[hc]? = some (.pending (.gen i g), 0) ∨ hp.hs[hc]? = some (.done (gp i), 1) := by
        simp only [GenR] at h; exact h.1
      rcases hcell with hcell | hcell
      · obtain ⟨lg', e⟩ := forceH_gen_spec hg f hc hp lg i hcell
        refine ⟨_, lg', ?_, i, GenR_force_head (x :: xs) hp hc tc i h (.running, 0 + 1)⟩
        rw [LL.head]
        simp only [bind_apply, e, hv, pure_apply]
      · refine ⟨hp, lg, ?_, i, h⟩
        rw [LL.head]
        simp only [bind_apply, forceH_done _ hc hp lg _ _ hcell, hv, pure_apply]
  tail := by
    rintro fuel hp l x xs lg hk ⟨i, h⟩
    obtain ⟨f, rfl⟩ : ∃ f, fuel = f + 3 := ⟨fuel - 3, by omega⟩
    cases l with
    | nil => simp [GenR] at h
    | cons a t => simp [GenR] at h
    | seq ys => simp [GenR] at h
    | nilIface => simp [GenR] at h
    | adaptor hc tc =>
      simp only [GenR] at h
      obtain ⟨hhead, hv, htail⟩ := h
      rcases htail with ⟨hpend, henum⟩ | ⟨hc', tc', ht, h1, h2, hr⟩
      · -- the tail closure runs: two fresh cells
        have htc : tc < hp.ts.size := (Array.getElem?_eq_some_iff.mp hpend).1
        refine ⟨.adaptor hp.hs.size hp.ts.size,
          { hp with hs := hp.hs.push (.pending (.gen (i + 1) g), 0),
                    ts := (((hp.ts.set! tc (.running, 0 + 1)).push (.pending (.gen (i + 1) g), 0)).set! tc
                      (.done (.adaptor hp.hs.size hp.ts.size), 0 + 1)) }, lg, ?_, i + 1, ?_⟩
        · rw [LL.tail]; exact forceT_gen_spec f tc hp lg i hpend
        · -- fresh cells: pending, and `rest` is the enumeration from i+1
          have hsz : (hp.ts.set! tc (Cell.running, 0 + 1)).size = hp.ts.size := by
            simp [Array.set!_eq_setIfInBounds]
          have hH : (hp.hs.push (Cell.pending (HThunk.gen (i + 1) g), 0))[hp.hs.size]? =
              some (.pending (.gen (i + 1) g), 0) := by simp
          have hT : ((((hp.ts.set! tc (Cell.running, 0 + 1)).push (Cell.pending (TThunk.gen (i + 1) g), 0)).set! tc
              (Cell.done (LV.adaptor hp.hs.size hp.ts.size), 0 + 1)))[hp.ts.size]? =
              some (.pending (.gen (i + 1) g), 0) := by
            rw [set_get_other _ _ _ _ (by omega)]
            have := Array.getElem?_push_size (xs := hp.ts.set! tc (Cell.running, 0 + 1))
              (x := (Cell.pending (TThunk.gen (i + 1) g), 0))
            rw [hsz] at this
            exact this
          cases xs with
          | nil =>
            simp only [GenR]
            exact ⟨Or.inl hH, henum⟩
          | cons y rest =>
            simp only [GenR]
            exact ⟨Or.inl hH, henum.1, Or.inl ⟨hT, henum.2⟩⟩
      · refine ⟨.adaptor hc' tc', hp, lg, ?_, i + 1, hr⟩
        rw [LL.tail]
        exact forceT_done _ tc hp lg _ _ ht

theorem enum_range (gp : Int → Option Val) : ∀ (cnt : Nat) (a : Int),
    (∀ j : Nat, j < cnt → gp (a + j) = some (.int (a + j))) → gp (a + cnt) = none →
    Enum gp a ((List.range cnt).map (fun (i : Nat) => Val.int (a + i))) := by
  intro cnt
  induction cnt with
  | zero => intro a _ h2; simpa [Enum] using h2
  | succ k ih =>
    intro a h1 h2
    rw [List.range_succ_eq_map]
    simp only [List.map_cons, List.map_map, Enum]
    refine ⟨by simpa using h1 0 (by omega), ?_⟩
    have := ih (a + 1) (fun j hj => by
      have := h1 (j + 1) (by omega)
      simp only [Int.natCast_add, Int.natCast_one] at this
      rw [show a + 1 + (j : Int) = a + ((j : Int) + 1) by omega]; exact this)
      (by rw [show a + 1 + (k : Int) = a + ((k + 1 : Nat) : Int) by omega]; exact h2)
    have heq : (List.range k).map ((fun (i : Nat) => Val.int (a + i)) ∘ Nat.succ) =
        (List.range k).map (fun (i : Nat) => Val.int (a + 1 + i)) := by
      apply List.map_congr_left
      intro i _
      simp only [Function.comp, Nat.succ_eq_add_one, Int.natCast_add, Int.natCast_one]
      congr 1; omega
    rw [heq]; exact this

def rangeP (closed : Bool) (b : Int) (index : Int) : Option Val :=
  if (if closed then decide (index ≤ b) else decide (index < b)) then some (.int index) else none

theorem rangeGen_total (closed : Bool) (b : Int) : Total (rangeGen closed b) (rangeP closed b) := by
  intro i lg; exact ⟨lg, rfl⟩

def generateP (n : Int) (index : Int) : Option Val := if index < n then some (.int index) else none

theorem generateGen_total (id n : Int) : Total (generateGen id n) (generateP n) := by
  intro i lg; exact ⟨lg ++ [s!"gen{id}:{i}"], rfl⟩

/-- `list.Range(a, b)` / `RangeClosed` evaluate to a list value that satisfies the interface
    contract for its denotation. -/
theorem range_list_rel (closed : Bool) (a b : Int) (x : Val) (fuel : Nat) (lg : Log) :
    ∃ l hp, LL.eval (fuel + 1) (.range closed a b) x {} lg = (.ok l, hp, lg) ∧
      ∃ i, GenR (rangeGen closed b) (rangeP closed b) ((LExpr.range closed a b).denote x) hp l i := by
  refine ⟨.adaptor 0 0, _, by rw [LL.eval]; rfl; exact fun h => absurd h (Nat.succ_ne_zero _), a, ?_⟩
  have henum : Enum (rangeP closed b) a ((LExpr.range closed a b).denote x) := by
    simp only [LExpr.denote]
    apply enum_range
    · intro j hj
      cases closed <;> simp only [rangeP, Bool.false_eq_true, if_false, if_true] at hj ⊢ <;>
        simp only [decide_eq_true_eq] <;> rw [if_pos (by omega)]
    · cases closed <;> simp only [rangeP, Bool.false_eq_true, if_false, if_true] <;>
        simp only [decide_eq_true_eq] <;> rw [if_neg (by omega)]
  cases hden : (LExpr.range closed a b).denote x with
  | nil =>
    rw [hden] at henum
    simp only [GenR]
    exact ⟨Or.inl (by simp), henum⟩
  | cons v rest =>
    rw [hden] at henum
    simp only [GenR]
    exact ⟨Or.inl (by simp), henum.1, Or.inl ⟨by simp, henum.2⟩⟩

end FpVerif.LL
