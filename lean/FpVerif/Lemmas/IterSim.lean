import FpVerif.Model.IterM
/-!
# Simulation framework for iterator machines

`Sim m R`: `R s d r` reads "in state `s` the iterator has so far delivered `d` and will deliver
exactly `r`".  `R` is a simulation relation: it is preserved by `hasNext` (which answers `r ≠ []`),
`next` on `a :: r` returns `a` and moves `a` to the delivered part, `next` on `[]` panics and stays.
-/
namespace FpVerif.It
open IM
variable {σ σ₂ τ γ X Y α β : Type}

/-! ## evaluation lemmas for `IM` -/

@[simp] theorem pure_apply (x : X) (s : σ) (lg : Log) : (pure x : IM σ X) s lg = (.ok x, s, lg) := rfl

theorem bind_apply (m : IM σ X) (f : X → IM σ Y) (s : σ) (lg : Log) :
    (m >>= f) s lg = match m s lg with
      | (.ok x, s', lg') => f x s' lg'
      | (.error p, s', lg') => (.error p, s', lg') := rfl

theorem bind_ok {m : IM σ X} {f : X → IM σ Y} {s s' : σ} {lg lg' : Log} {x : X}
    (h : m s lg = (.ok x, s', lg')) : (m >>= f) s lg = f x s' lg' := by
  simp [bind_apply, h]

theorem bind_err {m : IM σ X} {f : X → IM σ Y} {s s' : σ} {lg lg' : Log} {p : PanicVal}
    (h : m s lg = (.error p, s', lg')) : (m >>= f) s lg = (.error p, s', lg') := by
  simp [bind_apply, h]

@[simp] theorem map_apply (g : X → Y) (m : IM σ X) (s : σ) (lg : Log) :
    (g <$> m) s lg = match m s lg with
      | (.ok x, s', lg') => (.ok (g x), s', lg')
      | (.error p, s', lg') => (.error p, s', lg') := rfl

@[simp] theorem panic_apply (p : PanicVal) (s : σ) (lg : Log) :
    (IM.panic p : IM σ X) s lg = (.error p, s, lg) := rfl
@[simp] theorem get_apply (s : σ) (lg : Log) : (IM.get : IM σ σ) s lg = (.ok s, s, lg) := rfl
@[simp] theorem set_apply (s s' : σ) (lg : Log) : (IM.set s' : IM σ Unit) s lg = (.ok (), s', lg) := rfl
@[simp] theorem modify_apply (f : σ → σ) (s : σ) (lg : Log) :
    (IM.modify f : IM σ Unit) s lg = (.ok (), f s, lg) := rfl

theorem onFst_apply (m : IM σ X) (s : σ) (c : γ) (lg : Log) :
    (IM.onFst m : IM (σ × γ) X) (s, c) lg = ((m s lg).1, ((m s lg).2.1, c), (m s lg).2.2) := rfl

theorem onSnd_apply (m : IM γ X) (s : σ) (c : γ) (lg : Log) :
    (IM.onSnd m : IM (σ × γ) X) (s, c) lg = ((m c lg).1, (s, (m c lg).2.1), (m c lg).2.2) := rfl

theorem onFst_eq {m : IM σ X} {s s' : σ} {lg lg' : Log} {r : Except PanicVal X} (c : γ)
    (h : m s lg = (r, s', lg')) : (IM.onFst m : IM (σ × γ) X) (s, c) lg = (r, (s', c), lg') := by
  simp [onFst_apply, h]

theorem onSnd_eq {m : IM γ X} {c c' : γ} {lg lg' : Log} {r : Except PanicVal X} (s : σ)
    (h : m c lg = (r, c', lg')) : (IM.onSnd m : IM (σ × γ) X) (s, c) lg = (r, (s, c'), lg') := by
  simp [onSnd_apply, h]

@[simp] theorem onSnd_get (s : σ) (c : γ) (lg : Log) :
    (IM.onSnd IM.get : IM (σ × γ) γ) (s, c) lg = (.ok c, (s, c), lg) := rfl
@[simp] theorem onSnd_set (s : σ) (c c' : γ) (lg : Log) :
    (IM.onSnd (IM.set c') : IM (σ × γ) Unit) (s, c) lg = (.ok (), (s, c'), lg) := rfl
@[simp] theorem onSnd_modify (f : γ → γ) (s : σ) (c : γ) (lg : Log) :
    (IM.onSnd (IM.modify f) : IM (σ × γ) Unit) (s, c) lg = (.ok (), (s, f c), lg) := rfl

/-! ## user callbacks -/

/-- The callback `f` does not panic and returns `g a` (it may log whatever it likes). -/
def Total (f : α → GoM β) (g : α → β) : Prop :=
  ∀ a lg, ∃ lg', (f a).run.run lg = (.ok (g a), lg')

def Total2 (f : α → β → GoM γ) (g : α → β → γ) : Prop :=
  ∀ a b lg, ∃ lg', (f a b).run.run lg = (.ok (g a b), lg')

theorem liftG_total {f : α → GoM β} {g : α → β} (h : Total f g) (a : α) (s : σ) (lg : Log) :
    ∃ lg', (IM.liftG (f a) : IM σ β) s lg = (.ok (g a), s, lg') := by
  obtain ⟨lg', h'⟩ := h a lg
  exact ⟨lg', by simp [IM.liftG, h']⟩

theorem liftG_total2 {f : α → β → GoM γ} {g : α → β → γ} (h : Total2 f g) (a : α) (b : β) (s : σ) (lg : Log) :
    ∃ lg', (IM.liftG (f a b) : IM σ γ) s lg = (.ok (g a b), s, lg') := by
  obtain ⟨lg', h'⟩ := h a b lg
  exact ⟨lg', by simp [IM.liftG, h']⟩

theorem total_pure (g : α → β) : Total (fun a => (pure (g a) : GoM β)) g := by
  intro a lg; exact ⟨lg, rfl⟩

theorem total_emit (e : α → Event) (g : α → β) : Total (fun a => (do emit (e a); pure (g a) : GoM β)) g := by
  intro a lg; exact ⟨lg ++ [e a], rfl⟩

theorem total_bind_pure {p : α → GoM β} {g : α → β} (hp : Total p g) (h : β → γ) :
    Total (fun t => do let b ← p t; pure (h b)) (fun x => h (g x)) := by
  intro a lg
  obtain ⟨lg', h'⟩ := hp a lg
  refine ⟨lg', ?_⟩
  simp only [ExceptT.run_bind]
  simp only [bind, StateT.bind, StateT.run] at h' ⊢
  have h'' : ExceptT.run (p a) lg = (Except.ok (g a), lg') := h'
  rw [h'']
  rfl

/-! ## simulation -/

structure Sim (m : Machine σ α) (R : σ → List α → List α → Prop) : Prop where
  hasNext : ∀ s d r lg, R s d r →
    ∃ s' lg', m.hasNext s lg = (.ok (!r.isEmpty), s', lg') ∧ R s' d r
  next_cons : ∀ s d a r lg, R s d (a :: r) →
    ∃ s' lg', m.next s lg = (.ok a, s', lg') ∧ R s' (d ++ [a]) r
  next_nil : ∀ s d lg, R s d [] →
    ∃ p s' lg', m.next s lg = (.error p, s', lg') ∧ R s' d []

/-- "From state `s`, having delivered `d`, machine `m` will yield exactly the list `r`." -/
def Represents (m : Machine σ α) (s : σ) (d r : List α) : Prop :=
  ∃ R, Sim m R ∧ R s d r

/-- `Represents` is itself a simulation relation (the largest one). -/
theorem Represents.sim (m : Machine σ α) : Sim m (Represents m) where
  hasNext := by
    rintro s d r lg ⟨R, hS, hR⟩
    obtain ⟨s', lg', h, hR'⟩ := hS.hasNext s d r lg hR
    exact ⟨s', lg', h, R, hS, hR'⟩
  next_cons := by
    rintro s d a r lg ⟨R, hS, hR⟩
    obtain ⟨s', lg', h, hR'⟩ := hS.next_cons s d a r lg hR
    exact ⟨s', lg', h, R, hS, hR'⟩
  next_nil := by
    rintro s d lg ⟨R, hS, hR⟩
    obtain ⟨p, s', lg', h, hR'⟩ := hS.next_nil s d lg hR
    exact ⟨p, s', lg', h, R, hS, hR'⟩

end FpVerif.It
