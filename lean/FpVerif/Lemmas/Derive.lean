import FpVerif.Model.Derive
/-!
# Helper lemmas for C08 (derived instances).  Core Lean only.
-/
namespace FpVerif.Derive
open FpVerif.Rec

variable {α : Type}

/-! ## record plumbing (any value type) -/

theorem projectG_length (fs : List Field) (x : List α) (h : x.length = fs.length) :
    (projectG fs x).length = (fs.filter Field.applicable).length := by
  induction fs generalizing x with
  | nil => cases x <;> simp [projectG]
  | cons f fs ih =>
    cases x with
    | nil => simp at h
    | cons v vs =>
      have := ih vs (by simpa using h)
      cases hf : f.applicable <;> simp [projectG, hf, this]

theorem injectG_length (fs : List Field) (b t : List α) : (injectG fs b t).length = b.length := by
  induction fs generalizing b t with
  | nil => cases b <;> simp [injectG]
  | cons f fs ih =>
    cases b with
    | nil => simp [injectG]
    | cons bv bs =>
      cases hf : f.applicable
      · simp [injectG, hf, ih]
      · cases t <;> simp [injectG, hf, ih]

theorem projectG_injectG (fs : List Field) (b t : List α) (hb : b.length = fs.length)
    (ht : t.length = (fs.filter Field.applicable).length) :
    projectG fs (injectG fs b t) = t := by
  induction fs generalizing b t with
  | nil => cases b <;> cases t <;> simp_all [projectG]
  | cons f fs ih =>
    cases b with
    | nil => simp at hb
    | cons bv bs =>
      have hb' : bs.length = fs.length := by simpa using hb
      cases hf : f.applicable
      · simp [injectG, projectG, hf]
        exact ih bs t hb' (by simpa [hf] using ht)
      · cases t with
        | nil => simp [hf] at ht
        | cons v t' =>
          simp [injectG, projectG, hf]
          exact ih bs t' hb' (by simpa [hf] using ht)

theorem unapplyG_length (s : StructSpec) (x : List α) (h : WFG s x) :
    (unapplyG s x).length = s.nApp := by
  simpa [unapplyG, StructSpec.nApp, StructSpec.applicableFields] using projectG_length s.fields x h

theorem fromZero_WFG (s : StructSpec) (zero t : List α) (hz : WFG s zero) :
    WFG s (fromZero s zero t) := by
  simpa [WFG, fromZero, injectG_length] using hz

theorem unapplyG_fromZero (s : StructSpec) (zero t : List α) (hz : WFG s zero)
    (ht : t.length = s.nApp) : unapplyG s (fromZero s zero t) = t :=
  projectG_injectG s.fields zero t hz ht

/-- `TBuilder{}.FromTuple(x.AsTuple()).Build()` is `x` with the non-applicable fields zeroed -/
theorem injectG_zero_projectG (fs : List Field) (zero x : List α) (hz : zero.length = fs.length)
    (h : x.length = fs.length) : injectG fs zero (projectG fs x) = maskG fs zero x := by
  induction fs generalizing zero x with
  | nil => cases x <;> cases zero <;> simp_all [injectG, maskG]
  | cons f fs ih =>
    cases x with
    | nil => simp at h
    | cons v vs =>
      cases zero with
      | nil => simp at hz
      | cons z zs =>
        have := ih zs vs (by simpa using hz) (by simpa using h)
        cases hf : f.applicable <;> simp [injectG, projectG, maskG, hf, this]

/-- whatever tuple is assigned onto the zero value, the non-applicable fields stay zero -/
theorem maskG_injectG_zero (fs : List Field) (zero t : List α) (hz : zero.length = fs.length) :
    maskG fs zero (injectG fs zero t) = injectG fs zero t := by
  induction fs generalizing zero t with
  | nil => cases zero <;> simp_all [injectG, maskG]
  | cons f fs ih =>
    cases zero with
    | nil => simp at hz
    | cons z zs =>
      have hz' : zs.length = fs.length := by simpa using hz
      cases hf : f.applicable
      · simp [injectG, maskG, hf, ih zs t hz']
      · cases t <;> simp [injectG, maskG, hf, ih zs _ hz']

/-- when every field is applicable nothing is lost -/
theorem maskG_all_applicable (fs : List Field) (zero x : List α) (hz : zero.length = fs.length)
    (hlen : x.length = fs.length) (happ : ∀ f ∈ fs, f.applicable = true) : maskG fs zero x = x := by
  induction fs generalizing zero x with
  | nil => cases x with
    | nil => cases zero <;> rfl
    | cons v vs => simp at hlen
  | cons f fs ih =>
    cases x with
    | nil => simp at hlen
    | cons v vs =>
      cases zero with
      | nil => simp at hz
      | cons z zs =>
        have hf : f.applicable = true := happ f (by simp)
        have := ih zs vs (by simpa using hz) (by simpa using hlen)
          (fun g hg => happ g (by simp [hg]))
        simp [maskG, hf, this]

/-- masking forgets the non-applicable fields and nothing else -/
theorem projectG_maskG (fs : List Field) (zero x : List α) (hz : zero.length = fs.length)
    (h : x.length = fs.length) : projectG fs (maskG fs zero x) = projectG fs x := by
  rw [← injectG_zero_projectG fs zero x hz h]
  exact projectG_injectG fs zero _ hz (projectG_length fs x h)

/-! ### the record model of C07 is the instance `α = RV` -/

theorem projectG_eq_project (fs : List Field) (x : Rec) : projectG fs x = project fs x := by
  induction fs generalizing x with
  | nil => cases x <;> simp [projectG, project]
  | cons f fs ih => cases x <;> simp [projectG, project, ih]

theorem injectG_eq_inject (fs : List Field) (b : Rec) (t : List RV) :
    injectG fs b t = inject fs b t := by
  induction fs generalizing b t with
  | nil => cases b <;> simp [injectG, inject]
  | cons f fs ih =>
    cases b with
    | nil => simp [injectG, inject]
    | cons bv bs => cases t <;> simp [injectG, inject, ih]

theorem maskG_eq_mask (fs : List Field) (x : Rec) : maskG fs (fs.map Field.zero) x = mask fs x := by
  induction fs generalizing x with
  | nil => cases x <;> simp [maskG, mask]
  | cons f fs ih => cases x <;> simp [maskG, mask, ih]

theorem zero_WF (s : StructSpec) : Rec.WF s s.zero := by simp [Rec.WF, StructSpec.zero]

/-! ## eq -/

theorem tupleEq_cons (d : EqD α) (ds : List (EqD α)) (a b : α) (as bs : List α) :
    tupleEq (d :: ds) (a :: as) (b :: bs) = (d.eqv a b && tupleEq ds as bs) := by
  cases ds <;> simp [tupleEq]

/-- the tuple `Eqv` is the conjunction of the component `Eqv`s -/
theorem tupleEq_iff (ds : List (EqD α)) (as bs : List α) (ha : as.length = ds.length)
    (hb : bs.length = ds.length) :
    tupleEq ds as bs = true ↔
      ∀ k (h : k < ds.length), (ds[k]).eqv (as[k]'(ha ▸ h)) (bs[k]'(hb ▸ h)) = true := by
  induction ds generalizing as bs with
  | nil => simp [tupleEq]
  | cons d ds ih =>
    cases as with
    | nil => simp at ha
    | cons a as =>
      cases bs with
      | nil => simp at hb
      | cons b bs =>
        have ha' : as.length = ds.length := by simpa using ha
        have hb' : bs.length = ds.length := by simpa using hb
        rw [tupleEq_cons, Bool.and_eq_true, ih as bs ha' hb']
        constructor
        · rintro ⟨h0, hr⟩ k hk
          cases k with
          | zero => simpa using h0
          | succ k => simpa using hr k (by simpa using hk)
        · intro h
          refine ⟨h 0 (by simp), fun k hk => ?_⟩
          exact h (k + 1) (by simpa using hk)

theorem tupleEq_refl (ds : List (EqD α)) (h : ∀ d ∈ ds, LawfulEq d) (as : List α)
    (ha : as.length = ds.length) : tupleEq ds as as = true := by
  rw [tupleEq_iff ds as as ha ha]
  intro k hk
  exact (h _ (List.getElem_mem hk)).refl _ trivial

theorem tupleEq_symm (ds : List (EqD α)) (h : ∀ d ∈ ds, LawfulEq d) (as bs : List α)
    (ha : as.length = ds.length) (hb : bs.length = ds.length) (e : tupleEq ds as bs = true) :
    tupleEq ds bs as = true := by
  rw [tupleEq_iff ds _ _ hb ha]
  rw [tupleEq_iff ds _ _ ha hb] at e
  intro k hk
  exact (h _ (List.getElem_mem hk)).symm _ _ trivial trivial (e k hk)

theorem tupleEq_trans (ds : List (EqD α)) (h : ∀ d ∈ ds, LawfulEq d) (as bs cs : List α)
    (ha : as.length = ds.length) (hb : bs.length = ds.length) (hc : cs.length = ds.length)
    (e1 : tupleEq ds as bs = true) (e2 : tupleEq ds bs cs = true) : tupleEq ds as cs = true := by
  rw [tupleEq_iff ds _ _ ha hc]
  rw [tupleEq_iff ds _ _ ha hb] at e1
  rw [tupleEq_iff ds _ _ hb hc] at e2
  intro k hk
  exact (h _ (List.getElem_mem hk)).trans _ _ _ trivial trivial trivial (e1 k hk) (e2 k hk)

/-! ## hash -/

theorem tupleHash_cons2 (d e : HashD α) (ds : List (HashD α)) (a : α) (as : List α) :
    tupleHash (d :: e :: ds) (a :: as) = d.hash a * 31 + tupleHash (e :: ds) as := by
  simp [tupleHash]

theorem tupleHash_congr (ds : List (HashD α)) (h : ∀ d ∈ ds, LawfulHash d) (as bs : List α)
    (ha : as.length = ds.length) (hb : bs.length = ds.length)
    (e : tupleEq (ds.map HashD.toEq) as bs = true) : tupleHash ds as = tupleHash ds bs := by
  induction ds generalizing as bs with
  | nil => simp [tupleHash]
  | cons d ds ih =>
    cases as with
    | nil => simp at ha
    | cons a as =>
      cases bs with
      | nil => simp at hb
      | cons b bs =>
        have ha' : as.length = ds.length := by simpa using ha
        have hb' : bs.length = ds.length := by simpa using hb
        rw [List.map_cons, tupleEq_cons, Bool.and_eq_true] at e
        have h0 : d.hash a = d.hash b := (h d (by simp)).congr a b trivial trivial e.1
        have hr := ih (fun d hd => h d (by simp [hd])) as bs ha' hb' e.2
        cases ds with
        | nil => simp [tupleHash, h0]
        | cons e' ds => rw [tupleHash_cons2, tupleHash_cons2, h0, hr]

/-! ## ord -/

namespace LawfulOrdOn
variable {P : α → Prop} {d : OrdD α}

theorem asymm (L : LawfulOrdOn P d) {a b : α} (pa : P a) (pb : P b) (h : d.less a b = true) :
    d.less b a = false := by
  cases hba : d.less b a with
  | false => rfl
  | true =>
    have := L.trans a b a pa pb pa h hba
    rw [L.irrefl a pa] at this
    exact absurd this (by simp)

theorem incomp_trans (L : LawfulOrdOn P d) {a b c : α} (pa : P a) (pb : P b) (pc : P c)
    (h1 : d.less a b = false) (h2 : d.less b a = false)
    (h3 : d.less b c = false) (h4 : d.less c b = false) :
    d.less a c = false ∧ d.less c a = false :=
  (L.eqv_iff a c pa pc).1 (L.eqv_trans a b c pa pb pc ((L.eqv_iff a b pa pb).2 ⟨h1, h2⟩)
    ((L.eqv_iff b c pb pc).2 ⟨h3, h4⟩))

/-- `a ~ b < c → a < c` -/
theorem incomp_less (L : LawfulOrdOn P d) {a b c : α} (pa : P a) (pb : P b) (pc : P c)
    (h1 : d.less a b = false) (h2 : d.less b a = false) (h3 : d.less b c = true) :
    d.less a c = true := by
  cases hac : d.less a c with
  | true => rfl
  | false =>
    cases hca : d.less c a with
    | true =>
      have := L.trans b c a pb pc pa h3 hca
      rw [h2] at this; exact absurd this (by simp)
    | false =>
      have := (L.incomp_trans pb pa pc h2 h1 hac hca).1
      rw [h3] at this; exact absurd this (by simp)

/-- `a < b ~ c → a < c` -/
theorem less_incomp (L : LawfulOrdOn P d) {a b c : α} (pa : P a) (pb : P b) (pc : P c)
    (h1 : d.less a b = true) (h2 : d.less b c = false) (h3 : d.less c b = false) :
    d.less a c = true := by
  cases hac : d.less a c with
  | true => rfl
  | false =>
    cases hca : d.less c a with
    | true =>
      have := L.trans c a b pc pa pb hca h1
      rw [h3] at this; exact absurd this (by simp)
    | false =>
      have := (L.incomp_trans pa pc pb hac hca h3 h2).1
      rw [h1] at this; exact absurd this (by simp)

theorem toEq (L : LawfulOrdOn P d) : LawfulEqOn P d.toEq where
  refl a pa := (L.eqv_iff a a pa pa).2 ⟨L.irrefl a pa, L.irrefl a pa⟩
  symm a b pa pb h := (L.eqv_iff b a pb pa).2 ((L.eqv_iff a b pa pb).1 h).symm
  trans := L.eqv_trans

/-- `x < y ∨ x ~ y ∨ y < x` -/
theorem total (L : LawfulOrdOn P d) {a b : α} (pa : P a) (pb : P b) :
    d.less a b = true ∨ d.eqv a b = true ∨ d.less b a = true := by
  cases h1 : d.less a b with
  | true => exact .inl rfl
  | false =>
    cases h2 : d.less b a with
    | true => exact .inr (.inr rfl)
    | false => exact .inr (.inl ((L.eqv_iff a b pa pb).2 ⟨h1, h2⟩))

theorem eqv_not_less (L : LawfulOrdOn P d) {a b : α} (pa : P a) (pb : P b)
    (h : d.eqv a b = true) : d.less a b = false :=
  ((L.eqv_iff a b pa pb).1 h).1

/-- laws transfer along a function into the carrier -/
theorem comap {β : Type} {Q : β → Prop} (L : LawfulOrdOn P d) (f : β → α)
    (hf : ∀ x, Q x → P (f x)) :
    LawfulOrdOn Q ⟨fun a b => d.eqv (f a) (f b), fun a b => d.less (f a) (f b)⟩ where
  irrefl a qa := L.irrefl (f a) (hf a qa)
  trans a b c qa qb qc := L.trans (f a) (f b) (f c) (hf a qa) (hf b qb) (hf c qc)
  eqv_iff a b qa qb := L.eqv_iff (f a) (f b) (hf a qa) (hf b qb)
  eqv_trans a b c qa qb qc := L.eqv_trans (f a) (f b) (f c) (hf a qa) (hf b qb) (hf c qc)

/-- laws only look at the values of `Eqv` / `Less` on the carrier -/
theorem congr {d' : OrdD α} (L : LawfulOrdOn P d)
    (h : ∀ a b, P a → P b → d'.eqv a b = d.eqv a b ∧ d'.less a b = d.less a b) :
    LawfulOrdOn P d' where
  irrefl a pa := by rw [(h a a pa pa).2]; exact L.irrefl a pa
  trans a b c pa pb pc := by
    rw [(h a b pa pb).2, (h b c pb pc).2, (h a c pa pc).2]; exact L.trans a b c pa pb pc
  eqv_iff a b pa pb := by
    rw [(h a b pa pb).1, (h a b pa pb).2, (h b a pb pa).2]; exact L.eqv_iff a b pa pb
  eqv_trans a b c pa pb pc := by
    rw [(h a b pa pb).1, (h b c pb pc).1, (h a c pa pc).1]; exact L.eqv_trans a b c pa pb pc

end LawfulOrdOn

theorem tupleLess_cons (d : OrdD α) (ds : List (OrdD α)) (a b : α) (as bs : List α) :
    tupleLess (d :: ds) (a :: as) (b :: bs) =
      (if d.less a b then true else if d.less b a then false else tupleLess ds as bs) := by
  cases ds with
  | nil => cases h : d.less a b <;> simp [tupleLess, h]
  | cons e ds => simp [tupleLess]

/-- `Less` of the tuple is the lexicographic order: the first position where the components are
    not "neither less" decides.  (No law needed: this is what the code computes.) -/
theorem tupleLess_iff (ds : List (OrdD α)) (as bs : List α) (ha : as.length = ds.length)
    (hb : bs.length = ds.length) :
    tupleLess ds as bs = true ↔
      ∃ k, ∃ h : k < ds.length,
        (∀ j (hj : j < k),
          (ds[j]).less (as[j]'(by omega)) (bs[j]'(by omega)) = false ∧
          (ds[j]).less (bs[j]'(by omega)) (as[j]'(by omega)) = false) ∧
        (ds[k]).less (as[k]'(ha ▸ h)) (bs[k]'(hb ▸ h)) = true := by
  induction ds generalizing as bs with
  | nil => simp [tupleLess]
  | cons d ds ih =>
    cases as with
    | nil => simp at ha
    | cons a as =>
      cases bs with
      | nil => simp at hb
      | cons b bs =>
        have ha' : as.length = ds.length := by simpa using ha
        have hb' : bs.length = ds.length := by simpa using hb
        rw [tupleLess_cons]
        constructor
        · intro h
          cases h1 : d.less a b with
          | true => exact ⟨0, by simp, by simp, by simpa using h1⟩
          | false =>
            cases h2 : d.less b a with
            | true => simp [h1, h2] at h
            | false =>
              simp only [h1, h2] at h
              obtain ⟨k, hk, hpre, hlt⟩ := (ih as bs ha' hb').1 (by simpa using h)
              refine ⟨k + 1, by simpa using hk, ?_, by simpa using hlt⟩
              intro j hj
              cases j with
              | zero => exact ⟨by simpa using h1, by simpa using h2⟩
              | succ j => simpa using hpre j (by omega)
        · rintro ⟨k, hk, hpre, hlt⟩
          cases k with
          | zero =>
            have : d.less a b = true := by simpa using hlt
            simp [this]
          | succ k =>
            have h0 := hpre 0 (by omega)
            have h1 : d.less a b = false := by simpa using h0.1
            have h2 : d.less b a = false := by simpa using h0.2
            simp only [h1, h2]
            have : tupleLess ds as bs = true :=
              (ih as bs ha' hb').2 ⟨k, by simpa using hk, fun j hj => by
                simpa using hpre (j + 1) (by omega), by simpa using hlt⟩
            simpa using this

theorem tupleLess_irrefl (ds : List (OrdD α)) (h : ∀ d ∈ ds, LawfulOrd d) (as : List α) :
    tupleLess ds as as = false := by
  induction ds generalizing as with
  | nil => simp [tupleLess]
  | cons d ds ih =>
    cases as with
    | nil => simp [tupleLess]
    | cons a as =>
      rw [tupleLess_cons]
      simp [(h d (by simp)).irrefl a trivial, ih (fun d hd => h d (by simp [hd]))]

theorem tupleLess_trans (ds : List (OrdD α)) (h : ∀ d ∈ ds, LawfulOrd d) (as bs cs : List α)
    (ha : as.length = ds.length) (hb : bs.length = ds.length) (hc : cs.length = ds.length)
    (e1 : tupleLess ds as bs = true) (e2 : tupleLess ds bs cs = true) :
    tupleLess ds as cs = true := by
  induction ds generalizing as bs cs with
  | nil => simp [tupleLess] at e1
  | cons d ds ih =>
    cases as with
    | nil => simp at ha
    | cons a as =>
    cases bs with
    | nil => simp at hb
    | cons b bs =>
    cases cs with
    | nil => simp at hc
    | cons c cs =>
      have L := h d (by simp)
      have ih' := ih (fun d hd => h d (by simp [hd])) as bs cs (by simpa using ha)
        (by simpa using hb) (by simpa using hc)
      rw [tupleLess_cons] at e1 e2 ⊢
      cases hab : d.less a b with
      | true =>
        cases hbc : d.less b c with
        | true => simp [L.trans a b c trivial trivial trivial hab hbc]
        | false =>
          cases hcb : d.less c b with
          | true => simp [hbc, hcb] at e2
          | false => simp [L.less_incomp trivial trivial trivial hab hbc hcb]
      | false =>
        cases hba : d.less b a with
        | true => simp [hab, hba] at e1
        | false =>
          cases hbc : d.less b c with
          | true => simp [L.incomp_less trivial trivial trivial hab hba hbc]
          | false =>
            cases hcb : d.less c b with
            | true => simp [hbc, hcb] at e2
            | false =>
              have := L.incomp_trans trivial trivial trivial hab hba hbc hcb
              simp only [hab, hba, hbc, hcb, this.1, this.2] at e1 e2 ⊢
              simpa using ih' (by simpa using e1) (by simpa using e2)

/-- the tuple `Eqv` (conjunction of component `Eqv`s) is exactly "neither tuple is `Less`" -/
theorem tupleEq_iff_not_less (ds : List (OrdD α)) (h : ∀ d ∈ ds, OrdCompat d) (as bs : List α)
    (ha : as.length = ds.length) (hb : bs.length = ds.length) :
    tupleEq (ds.map OrdD.toEq) as bs = true ↔
      (tupleLess ds as bs = false ∧ tupleLess ds bs as = false) := by
  induction ds generalizing as bs with
  | nil => simp [tupleEq, tupleLess]
  | cons d ds ih =>
    cases as with
    | nil => simp at ha
    | cons a as =>
    cases bs with
    | nil => simp at hb
    | cons b bs =>
      have E := h d (by simp) a b
      have ih' := ih (fun d hd => h d (by simp [hd])) as bs (by simpa using ha) (by simpa using hb)
      rw [List.map_cons, tupleEq_cons, tupleLess_cons, tupleLess_cons, Bool.and_eq_true, ih']
      simp only [OrdD.toEq]
      cases hab : d.less a b with
      | true =>
        have : d.eqv a b = false := by
          cases he : d.eqv a b with
          | false => rfl
          | true => have := (E.1 he).1; rw [hab] at this; exact absurd this (by simp)
        simp [this]
      | false =>
        cases hba : d.less b a with
        | true =>
          have : d.eqv a b = false := by
            cases he : d.eqv a b with
            | false => rfl
            | true => have := (E.1 he).2; rw [hba] at this; exact absurd this (by simp)
          simp [this]
        | false =>
          have : d.eqv a b = true := E.2 ⟨hab, hba⟩
          simp [this]

theorem LawfulOrdOn.compat {d : OrdD α} (L : LawfulOrd d) : OrdCompat d :=
  fun a b => L.eqv_iff a b trivial trivial

/-- the reference pair (conjunction of `Eqv`s, lexicographic `Less`) is a lawful order -/
theorem tupleLex_lawful (ds : List (OrdD α)) (h : ∀ d ∈ ds, LawfulOrd d) :
    LawfulOrdOn (fun l : List α => l.length = ds.length)
      ⟨tupleEq (ds.map OrdD.toEq), tupleLess ds⟩ where
  irrefl a _ := tupleLess_irrefl ds h a
  trans a b c pa pb pc := tupleLess_trans ds h a b c pa pb pc
  eqv_iff a b pa pb := tupleEq_iff_not_less ds (fun d hd => (h d hd).compat) a b pa pb
  eqv_trans a b c pa pb pc :=
    tupleEq_trans (ds.map OrdD.toEq)
      (fun d hd => by
        obtain ⟨d', hd', rfl⟩ := List.mem_map.1 hd
        exact (h d' hd').toEq)
      a b c (by simpa using pa) (by simpa using pb) (by simpa using pc)

/-- `ord.New(eqv, less)` is the pair `(eqv, less)` wherever `eqv` is "neither is less" -/
theorem OrdD.new_of_compat (e l : α → α → Bool) (a b : α)
    (h : e a b = true ↔ (l a b = false ∧ l b a = false)) :
    (OrdD.new e l).eqv a b = e a b ∧ (OrdD.new e l).less a b = l a b := by
  cases he : e a b <;> cases hab : l a b <;> cases hba : l b a <;> simp_all [OrdD.new]

theorem tupleOrd_nil (as bs : List α) :
    (tupleOrd ([] : List (OrdD α))).eqv as bs = true ∧ (tupleOrd ([] : List (OrdD α))).less as bs = false := by
  simp [tupleOrd, OrdD.new]

/-- the generated `ord.TupleN` (every level wrapped in `ord.New`) computes the reference pair
    when every component's `Eqv` is "neither is less" -/
theorem tupleOrd_spec (ds : List (OrdD α)) (h : ∀ d ∈ ds, OrdCompat d) (as bs : List α)
    (ha : as.length = ds.length) (hb : bs.length = ds.length) :
    (tupleOrd ds).eqv as bs = tupleEq (ds.map OrdD.toEq) as bs ∧
      (tupleOrd ds).less as bs = tupleLess ds as bs := by
  induction ds generalizing as bs with
  | nil => simp [tupleOrd, OrdD.new, tupleEq, tupleLess]
  | cons d ds ih =>
    cases as with
    | nil => simp at ha
    | cons a as =>
    cases bs with
    | nil => simp at hb
    | cons b bs =>
      have ha' : as.length = ds.length := by simpa using ha
      have hb' : bs.length = ds.length := by simpa using hb
      have h' : ∀ d ∈ ds, OrdCompat d := fun d hd => h d (by simp [hd])
      have i1 := ih h' as bs ha' hb'
      have i2 := ih h' bs as hb' ha'
      have C := tupleEq_iff_not_less (d :: ds) h (a :: as) (b :: bs) ha hb
      rw [List.map_cons, tupleEq_cons, tupleLess_cons, tupleLess_cons] at C
      rw [List.map_cons, tupleEq_cons, tupleLess_cons]
      simp only [OrdD.toEq] at C ⊢
      unfold tupleOrd
      have := OrdD.new_of_compat
        (fun t1 t2 : List α =>
          match t1, t2 with
          | a :: as, b :: bs => d.eqv a b && (tupleOrd ds).eqv as bs
          | _, _ => false)
        (fun t1 t2 : List α =>
          match t1, t2 with
          | a :: as, b :: bs =>
            if d.less a b then true
            else if d.less b a then false
            else (tupleOrd ds).less as bs
          | _, _ => false) (a :: as) (b :: bs)
        (by simp only [i1.1, i1.2, i2.2]; exact C)
      simp only [i1.1, i1.2] at this
      exact this

/-- `ord.TupleN` of lawful components is a lawful order on the tuples of its arity -/
theorem tupleOrd_lawful (ds : List (OrdD α)) (h : ∀ d ∈ ds, LawfulOrd d) :
    LawfulOrdOn (fun l : List α => l.length = ds.length) (tupleOrd ds) :=
  (tupleLex_lawful ds h).congr fun a b pa pb =>
    tupleOrd_spec ds (fun d hd => (h d hd).compat) a b pa pb

/-- `ord.ContraMap(inst, fn)` is `inst` read through `fn`, wherever `inst.Eqv` is "neither is less" -/
theorem OrdD.contraMap_spec {β : Type} (inst : OrdD α) (fn : β → α) (a b : β)
    (h : inst.eqv (fn a) (fn b) = true ↔
      (inst.less (fn a) (fn b) = false ∧ inst.less (fn b) (fn a) = false)) :
    (OrdD.contraMap inst fn).eqv a b = inst.eqv (fn a) (fn b) ∧
      (OrdD.contraMap inst fn).less a b = inst.less (fn a) (fn b) :=
  OrdD.new_of_compat _ _ a b h

theorem LawfulOrdOn.contraMap {β : Type} {P : α → Prop} {Q : β → Prop} {inst : OrdD α}
    (L : LawfulOrdOn P inst) (f : β → α) (hf : ∀ x, Q x → P (f x)) :
    LawfulOrdOn Q (OrdD.contraMap inst f) :=
  (L.comap f hf).congr fun a b qa qb =>
    OrdD.contraMap_spec inst f a b (L.eqv_iff (f a) (f b) (hf a qa) (hf b qb))

/-! ## monoid -/

theorem tupleEmpty_length (ds : List (MonoidD α)) : (tupleEmpty ds).length = ds.length := by
  simp [tupleEmpty]

theorem tupleCombine_length (ds : List (MonoidD α)) (as bs : List α) (ha : as.length = ds.length)
    (hb : bs.length = ds.length) : (tupleCombine ds as bs).length = ds.length := by
  induction ds generalizing as bs with
  | nil => simp [tupleCombine]
  | cons d ds ih =>
    cases as with
    | nil => simp at ha
    | cons a as =>
      cases bs with
      | nil => simp at hb
      | cons b bs => simp [tupleCombine, ih as bs (by simpa using ha) (by simpa using hb)]

/-- component `k` of the result is the `k`-th instance applied to the `k`-th components -/
theorem tupleCombine_getElem (ds : List (MonoidD α)) (as bs : List α) (ha : as.length = ds.length)
    (hb : bs.length = ds.length) (k : Nat) (hk : k < ds.length) :
    (tupleCombine ds as bs)[k]'(by rw [tupleCombine_length ds as bs ha hb]; exact hk) =
      (ds[k]).combine (as[k]'(ha ▸ hk)) (bs[k]'(hb ▸ hk)) := by
  induction ds generalizing as bs k with
  | nil => simp at hk
  | cons d ds ih =>
    cases as with
    | nil => simp at ha
    | cons a as =>
      cases bs with
      | nil => simp at hb
      | cons b bs =>
        cases k with
        | zero => simp [tupleCombine]
        | succ k =>
          simpa [tupleCombine] using ih as bs (by simpa using ha) (by simpa using hb) k
            (by simpa using hk)

theorem Forall2.length_eq {β : Type} {R : α → β → Prop} {as : List α} {bs : List β}
    (h : Forall2 R as bs) : as.length = bs.length := by
  induction h with
  | nil => rfl
  | cons _ _ ih => simp [ih]

/-- the trivial carriers: one `True` per component -/
theorem Forall2.of_forall {β : Type} {R : α → β → Prop} (as : List α) (b : β)
    (h : ∀ a ∈ as, R a b) : Forall2 R as (as.map fun _ => b) := by
  induction as with
  | nil => exact .nil
  | cons a as ih => exact .cons (h a (by simp)) (ih fun a ha => h a (by simp [ha]))

theorem InCarriers.trivial (ds : List (MonoidD α)) (vs : List α) (h : vs.length = ds.length) :
    InCarriers (ds.map fun _ => fun _ : α => True) vs := by
  induction ds generalizing vs with
  | nil => cases vs with
    | nil => exact .nil
    | cons v vs => simp at h
  | cons d ds ih => cases vs with
    | nil => simp at h
    | cons v vs => exact .cons True.intro (ih vs (by simpa using h))

theorem tupleCombine_left_id (ds : List (MonoidD α)) (Ps : List (α → Prop))
    (h : LawfulMonoids ds Ps) (as : List α) (ha : InCarriers Ps as) :
    tupleCombine ds (tupleEmpty ds) as = as := by
  induction h generalizing as with
  | nil => cases ha; simp [tupleCombine]
  | @cons d P ds Ps hd _ ih =>
    cases ha with
    | cons pa ha =>
      have := ih _ ha
      simp only [tupleEmpty] at this
      simp [tupleEmpty, tupleCombine, hd.left_id _ pa, this]

theorem tupleCombine_right_id (ds : List (MonoidD α)) (Ps : List (α → Prop))
    (h : LawfulMonoids ds Ps) (as : List α) (ha : InCarriers Ps as) :
    tupleCombine ds as (tupleEmpty ds) = as := by
  induction h generalizing as with
  | nil => cases ha; simp [tupleCombine]
  | @cons d P ds Ps hd _ ih =>
    cases ha with
    | cons pa ha =>
      have := ih _ ha
      simp only [tupleEmpty] at this
      simp [tupleEmpty, tupleCombine, hd.right_id _ pa, this]

theorem tupleCombine_assoc (ds : List (MonoidD α)) (Ps : List (α → Prop))
    (h : LawfulMonoids ds Ps) (as bs cs : List α) (ha : InCarriers Ps as) (hb : InCarriers Ps bs)
    (hc : InCarriers Ps cs) :
    tupleCombine ds (tupleCombine ds as bs) cs = tupleCombine ds as (tupleCombine ds bs cs) := by
  induction h generalizing as bs cs with
  | nil => simp [tupleCombine]
  | @cons d P ds Ps hd _ ih =>
    cases ha with
    | cons pa ha =>
    cases hb with
    | cons pb hb =>
    cases hc with
    | cons pc hc =>
      simp [tupleCombine, hd.assoc _ _ _ pa pb pc, ih _ _ _ ha hb hc]

/-! ## clone -/

@[simp] theorem runAlloc_pure (a : α) (n : Nat) : runAlloc (pure a) n = (a, n) := rfl

@[simp] theorem runAlloc_bind {β : Type} (m : Alloc α) (f : α → Alloc β) (n : Nat) :
    runAlloc (m >>= f) n = runAlloc (f (runAlloc m n).1) (runAlloc m n).2 := rfl

@[simp] theorem runAlloc_fresh (n : Nat) : runAlloc fresh n = (n, n + 1) := rfl

/-- a block of addresses allocated between counter `n` and counter `n'`, pairwise distinct -/
def Block (l : List Nat) (n n' : Nat) : Prop := (∀ a ∈ l, n ≤ a ∧ a < n') ∧ l.Nodup

theorem Block.nil (n n' : Nat) : Block [] n n' := ⟨by simp, by simp⟩

theorem Block.append {l1 l2 : List Nat} {n m k : Nat} (h1 : Block l1 n m) (h2 : Block l2 m k)
    (hnm : n ≤ m) (hmk : m ≤ k) : Block (l1 ++ l2) n k := by
  refine ⟨fun a ha => ?_, ?_⟩
  · rcases List.mem_append.1 ha with ha | ha
    · have := h1.1 a ha; omega
    · have := h2.1 a ha; omega
  · rw [List.nodup_append]
    refine ⟨h1.2, h2.2, fun a ha b hb => ?_⟩
    have := h1.1 a ha; have := h2.1 b hb; omega

theorem Block.cons {l : List Nat} {n k : Nat} (h : Block l (n + 1) k) (hk : n + 1 ≤ k) :
    Block (n :: l) n k := by
  have := Block.append (l1 := [n]) (n := n) (m := n + 1) ⟨by simp, by simp⟩ h (by omega) hk
  simpa using this

theorem HV.same_refl (v : HV) : v.same v = true := by
  induction v with
  | leaf s => simp [HV.same]
  | ref a c ih => simpa [HV.same] using ih
  | pair l r ihl ihr => simp [HV.same, ihl, ihr]

theorem HV.same_symm (v w : HV) (h : v.same w = true) : w.same v = true := by
  induction v generalizing w with
  | leaf s => cases w <;> simp_all [HV.same]
  | ref a c ih => cases w <;> simp_all [HV.same]
  | pair l r ihl ihr => cases w <;> simp_all [HV.same]

theorem HV.same_trans (u v w : HV) (h1 : u.same v = true) (h2 : v.same w = true) :
    u.same w = true := by
  induction u generalizing v w with
  | leaf s => cases v <;> cases w <;> simp_all [HV.same]
  | ref a c ih =>
    cases v <;> cases w <;> simp_all [HV.same]
    exact ih _ _ h1 h2
  | pair l r ihl ihr =>
    cases v <;> cases w <;> simp_all [HV.same]
    exact ⟨ihl _ _ h1.1 h2.1, ihr _ _ h1.2 h2.2⟩

theorem CloneOK.block {d : CloneD HV} {v : HV} (h : CloneOK d v) (n : Nat) :
    Block (runAlloc (d.clone v) n).1.addrs n (runAlloc (d.clone v) n).2 :=
  ⟨h.fresh n, h.nodup n⟩

theorem deepClone_run (v : HV) (n : Nat) :
    (runAlloc (deepClone v) n).1.same v = true ∧ n ≤ (runAlloc (deepClone v) n).2 ∧
      Block (runAlloc (deepClone v) n).1.addrs n (runAlloc (deepClone v) n).2 := by
  induction v generalizing n with
  | leaf s => simp [deepClone, HV.same, HV.addrs, Block.nil]
  | ref a c ih =>
    obtain ⟨h1, h2, h3⟩ := ih (n + 1)
    simp only [deepClone, runAlloc_bind, runAlloc_fresh, runAlloc_pure, HV.same, HV.addrs]
    exact ⟨h1, by omega, h3.cons h2⟩
  | pair l r ihl ihr =>
    obtain ⟨l1, l2, l3⟩ := ihl n
    obtain ⟨r1, r2, r3⟩ := ihr (runAlloc (deepClone l) n).2
    simp only [deepClone, runAlloc_bind, runAlloc_pure, HV.same, HV.addrs, Bool.and_eq_true]
    exact ⟨⟨l1, r1⟩, by omega, l3.append r3 l2 r2⟩

theorem deepClone_ok (v : HV) : CloneOK CloneD.deep v where
  same n := (deepClone_run v n).1
  mono n := (deepClone_run v n).2.1
  fresh n := (deepClone_run v n).2.2.1
  nodup n := (deepClone_run v n).2.2.2

theorem sameL_refl (vs : List HV) : sameL vs vs = true := by
  induction vs with
  | nil => rfl
  | cons v vs ih => simp [sameL, HV.same_refl, ih]

theorem ofRV_addrs (v : RV) : (HV.ofRV v).addrs = [] := by
  induction v with
  | atom s => rfl
  | none => rfl
  | some v ih => simp [HV.ofRV, HV.addrs, ih]
  | nilIface => rfl
  | iface d v ih => simp [HV.ofRV, HV.addrs, ih]

@[simp] theorem addrsL_nil : addrsL [] = [] := rfl
@[simp] theorem addrsL_cons (v : HV) (vs : List HV) : addrsL (v :: vs) = v.addrs ++ addrsL vs := rfl

/-- the tuple clone: component-wise same content, one block of fresh addresses -/
theorem tupleClone_run (ds : List (CloneD HV)) (vs : List HV) (h : Forall2 CloneOK ds vs)
    (n : Nat) :
    sameL (runAlloc (tupleClone ds vs) n).1 vs = true ∧ n ≤ (runAlloc (tupleClone ds vs) n).2 ∧
      (runAlloc (tupleClone ds vs) n).1.length = vs.length ∧
      Block (addrsL (runAlloc (tupleClone ds vs) n).1) n (runAlloc (tupleClone ds vs) n).2 := by
  induction h generalizing n with
  | nil => simp [tupleClone, sameL, Block.nil]
  | @cons d v ds vs hd _ ih =>
    obtain ⟨t1, t2, t3, t4⟩ := ih (runAlloc (d.clone v) n).2
    simp only [tupleClone, runAlloc_bind, runAlloc_pure, sameL, addrsL_cons,
      Bool.and_eq_true, List.length_cons]
    refine ⟨⟨hd.same n, t1⟩, ?_, by simpa using t3, (hd.block n).append t4 (hd.mono n) t2⟩
    have := hd.mono n
    omega

/-- addresses of a record assembled on the zero builder: exactly those of the injected tuple -/
theorem addrsL_injectG_zero_eq (fs : List Field) (t : List HV)
    (ht : t.length = (fs.filter Field.applicable).length) :
    addrsL (injectG fs (fs.map (fun f => HV.ofRV f.zero)) t) = addrsL t := by
  induction fs generalizing t with
  | nil => cases t <;> simp_all [injectG]
  | cons f fs ih =>
    cases hf : f.applicable
    · have := ih t (by simpa [hf] using ht)
      simp [injectG, hf, ofRV_addrs, this]
    · cases t with
      | nil => simp [hf] at ht
      | cons v t =>
        have := ih t (by simpa [hf] using ht)
        simp [injectG, hf, this]

end FpVerif.Derive
