import Mathlib.Logic.Hydra
import Mathlib.Tactic.Abel
import Mathlib.Algebra.BigOperators.Group.Finset.Basic
import FpVerif.Model.Future
/-!
# The task queue of the future network always drains (helper lemmas for `Spec/C06Drain.lean`)

Every task either completes a promise (which only MOVES already registered callbacks into the pool) or
applies one continuation `k` to one value and builds `k v`; everything `build (k v)` registers or queues
belongs to a structurally smaller continuation.  `FExpr` has infinitely branching constructors
(`k : Val → FExpr`), so there is no natural-number measure; the argument is the multiset ("hydra")
ordering over the structural order of continuations (`Relation.CutExpand`, Mathlib `Logic/Hydra`).

This file is the only place of the project that imports Mathlib; no oracle imports it.
-/
namespace FpVerif.Fut.Drain
open FpVerif FpVerif.Fut Multiset

/-- what a queued task / registered callback can still cause: only its continuation matters -/
inductive Kind where
  | flatMapK (k : Val → FExpr)
  | transformWithK (k : Try Val → FExpr)
  | recoverWithK (k : Err → FExpr)
  | orFutureK
  | leaf

def cbKind : CB → Kind
  | .flatMapA k _ => .flatMapK k
  | .completeWith _ => .leaf
  | .transformA _ _ => .leaf
  | .transformWithA k _ => .transformWithK k
  | .recoverWithA _ k _ => .recoverWithK k
  | .orFutureA _ _ => .orFutureK
  | .observe _ => .leaf

def taskKind : Task → Kind
  | .cb c _ => cbKind c
  | .applyT _ _ => .leaf

/-- the items `build e` adds to the net (callbacks it registers or, on completed promises, queues; `Apply` tasks) -/
def created : FExpr → Multiset Kind
  | .ref _ => 0
  | .successful _ => 0
  | .failed _ => 0
  | .successfulOf e => created e
  | .logged _ e => created e
  | .flatMap e k => created e + {Kind.flatMapK k}
  | .transform e _ => created e + {Kind.leaf}
  | .transformWith e k => created e + {Kind.transformWithK k}
  | .recoverWith e _ k => created e + {Kind.recoverWithK k}
  | .orFuture e alt => created e + created alt + {Kind.orFutureK}
  | .apply _ => {Kind.leaf}

/-- the expressions a task of this kind may build when it runs -/
def Spawns : Kind → FExpr → Prop
  | .flatMapK k, e => ∃ v, e = k v
  | .transformWithK k, e => ∃ t, e = k t
  | .recoverWithK k, e => ∃ x, e = k x
  | .orFutureK, _ => False
  | .leaf, _ => False

/-- `a` may appear when a task of kind `b` runs -/
def Lt (a b : Kind) : Prop := (∃ e, Spawns b e ∧ a ∈ created e) ∨ (a = .leaf ∧ b ≠ .leaf)

theorem acc_leaf : Acc Lt Kind.leaf := by
  refine Acc.intro _ fun a h => ?_
  rcases h with ⟨e, hs, _⟩ | ⟨_, hb⟩
  · exact hs.elim
  · exact (hb rfl).elim

theorem acc_orFuture : Acc Lt Kind.orFutureK := by
  refine Acc.intro _ fun a h => ?_
  rcases h with ⟨e, hs, _⟩ | ⟨ha, _⟩
  · exact hs.elim
  · exact ha ▸ acc_leaf

theorem acc_created (e : FExpr) : ∀ a ∈ created e, Acc Lt a := by
  induction e with
  | ref p => intro a h; simp [created] at h
  | successful v => intro a h; simp [created] at h
  | failed e => intro a h; simp [created] at h
  | successfulOf e ih => intro a h; exact ih a (by simpa [created] using h)
  | logged evs e ih => intro a h; exact ih a (by simpa [created] using h)
  | flatMap e k ih ihk =>
    intro a h
    simp only [created, mem_add, mem_singleton] at h
    rcases h with h | rfl
    · exact ih a h
    · refine Acc.intro _ fun a' h' => ?_
      rcases h' with ⟨e', ⟨v, rfl⟩, hm⟩ | ⟨ha, _⟩
      · exact ihk v a' hm
      · exact ha ▸ acc_leaf
  | transform e f ih =>
    intro a h
    simp only [created, mem_add, mem_singleton] at h
    rcases h with h | rfl
    · exact ih a h
    · exact acc_leaf
  | transformWith e k ih ihk =>
    intro a h
    simp only [created, mem_add, mem_singleton] at h
    rcases h with h | rfl
    · exact ih a h
    · refine Acc.intro _ fun a' h' => ?_
      rcases h' with ⟨e', ⟨v, rfl⟩, hm⟩ | ⟨ha, _⟩
      · exact ihk v a' hm
      · exact ha ▸ acc_leaf
  | recoverWith e d k ih ihk =>
    intro a h
    simp only [created, mem_add, mem_singleton] at h
    rcases h with h | rfl
    · exact ih a h
    · refine Acc.intro _ fun a' h' => ?_
      rcases h' with ⟨e', ⟨v, rfl⟩, hm⟩ | ⟨ha, _⟩
      · exact ihk v a' hm
      · exact ha ▸ acc_leaf
  | orFuture e alt ih iha =>
    intro a h
    simp only [created, mem_add, mem_singleton] at h
    rcases h with (h | h) | rfl
    · exact ih a h
    · exact iha a h
    · exact acc_orFuture
  | apply f =>
    intro a h
    simp only [created, mem_singleton] at h
    exact h ▸ acc_leaf

theorem wf_lt : WellFounded Lt := by
  refine ⟨fun a => Acc.intro _ fun a' h => ?_⟩
  rcases h with ⟨e, _, hm⟩ | ⟨ha, _⟩
  · exact acc_created e a' hm
  · exact ha ▸ acc_leaf

/-! ## the measure -/

def poolM (n : Net) : Multiset Kind := ((n.pool.map taskKind : List Kind) : Multiset Kind)

def cbsM (n : Net) (B : Nat) : Multiset Kind :=
  ∑ q ∈ Finset.range B, (((n.cbs q).map cbKind : List Kind) : Multiset Kind)

def M (n : Net) (B : Nat) : Multiset Kind := poolM n + cbsM n B

/-- no callback is registered on a promise `≥ B` -/
def Supp (n : Net) (B : Nat) : Prop := ∀ q, B ≤ q → n.cbs q = []

theorem cbsM_mono {n : Net} {B B' : Nat} (hS : Supp n B) (h : B ≤ B') : cbsM n B' = cbsM n B := by
  induction B', h using Nat.le_induction with
  | base => rfl
  | succ k hk ih =>
    unfold cbsM at ih ⊢
    rw [Finset.sum_range_succ, ih, hS k hk]
    simp

theorem supp_mono {n : Net} {B B' : Nat} (hS : Supp n B) (h : B ≤ B') : Supp n B' :=
  fun q hq => hS q (Nat.le_trans h hq)

theorem M_mono {n : Net} {B B' : Nat} (hS : Supp n B) (h : B ≤ B') : M n B' = M n B := by
  unfold M; rw [cbsM_mono hS h]

/-- changing the callback list of one promise `p < B` -/
theorem cbsM_update (n n' : Net) (B p : Nat) (hp : p < B) (l : List CB)
    (hc : n'.cbs = fun q => if q = p then l else n.cbs q) :
    cbsM n' B + (((n.cbs p).map cbKind : List Kind) : Multiset Kind)
      = cbsM n B + ((l.map cbKind : List Kind) : Multiset Kind) := by
  unfold cbsM
  have hm : p ∈ Finset.range B := by simpa using hp
  rw [← Finset.add_sum_erase _ _ hm, ← Finset.add_sum_erase (Finset.range B) (fun q => (((n.cbs q).map cbKind : List Kind) : Multiset Kind)) hm]
  have : ∑ x ∈ (Finset.range B).erase p, (((n'.cbs x).map cbKind : List Kind) : Multiset Kind)
       = ∑ x ∈ (Finset.range B).erase p, (((n.cbs x).map cbKind : List Kind) : Multiset Kind) := by
    refine Finset.sum_congr rfl fun x hx => ?_
    have hxp : x ≠ p := (Finset.mem_erase.1 hx).1
    simp [hc, hxp]
  rw [this]
  simp only [hc, if_true]
  abel

theorem M_onComplete {n : Net} {B : Nat} (hS : Supp n B) (p : Nat) (c : CB) :
    ∃ B', B ≤ B' ∧ Supp (onComplete p c n) B' ∧ M (onComplete p c n) B' = M n B + {cbKind c} := by
  refine ⟨max B (p + 1), Nat.le_max_left _ _, ?_, ?_⟩
  · intro q hq
    unfold onComplete
    cases hst : n.status p with
    | some t => exact hS q (Nat.le_trans (Nat.le_max_left _ _) hq)
    | none =>
      have hqp : q ≠ p := by have := Nat.le_trans (Nat.le_max_right B (p + 1)) hq; omega
      simp only [hqp, if_false]
      exact hS q (Nat.le_trans (Nat.le_max_left _ _) hq)
  · have hS' : Supp n (max B (p + 1)) := supp_mono hS (Nat.le_max_left _ _)
    rw [← M_mono hS (Nat.le_max_left B (p + 1))]
    unfold onComplete
    cases hst : n.status p with
    | some t =>
      simp only [M, poolM, cbsM, List.map_append, List.map_cons, List.map_nil, taskKind]
      rw [← Multiset.coe_add]
      simp only [Multiset.coe_singleton]
      abel
    | none =>
      have hp : p < max B (p + 1) := Nat.lt_of_lt_of_le (Nat.lt_succ_self p) (Nat.le_max_right _ _)
      have h := cbsM_update n { n with cbs := fun q => if q = p then n.cbs p ++ [c] else n.cbs q } (max B (p + 1)) p hp
        (n.cbs p ++ [c]) rfl
      simp only [List.map_append, List.map_cons, List.map_nil] at h
      rw [← Multiset.coe_add, Multiset.coe_singleton] at h
      simp only [M, poolM]
      have h2 : cbsM { n with cbs := fun q => if q = p then n.cbs p ++ [c] else n.cbs q } (max B (p + 1))
          = cbsM n (max B (p + 1)) + {cbKind c} := by
        have h3 : cbsM { n with cbs := fun q => if q = p then n.cbs p ++ [c] else n.cbs q } (max B (p + 1))
              + (((n.cbs p).map cbKind : List Kind) : Multiset Kind)
            = (cbsM n (max B (p + 1)) + {cbKind c}) + (((n.cbs p).map cbKind : List Kind) : Multiset Kind) := by
          rw [h]; abel
        exact add_right_cancel h3
      rw [h2]
      abel

theorem M_complete {n : Net} {B : Nat} (hS : Supp n B) (p : Nat) (t : Try Val) :
    Supp (complete p t n) B ∧ M (complete p t n) B = M n B := by
  unfold complete
  cases hst : n.status p with
  | some t' => exact ⟨hS, rfl⟩
  | none =>
    refine ⟨?_, ?_⟩
    · intro q hq
      by_cases hqp : q = p
      · simp [hqp]
      · simp only [hqp, if_false]; exact hS q hq
    · by_cases hp : p < B
      · have h := cbsM_update n { n with
            status := fun q => if q = p then some t else n.status q
            pool := n.pool ++ (n.cbs p).map (fun c => Task.cb c t)
            cbs := fun q => if q = p then [] else n.cbs q
            completes := n.completes ++ [(p, true)] } B p hp [] rfl
        simp only [List.map_nil, Multiset.coe_nil, add_zero] at h
        simp only [M, poolM, List.map_append, List.map_map]
        rw [← Multiset.coe_add, ← h]
        have : (taskKind ∘ fun c => Task.cb c t) = cbKind := by funext c; rfl
        rw [this]
        abel
      · have hnil : n.cbs p = [] := hS p (Nat.le_of_not_lt hp)
        simp only [M, poolM, hnil, List.map_nil, List.append_nil]
        congr 1
        unfold cbsM
        refine Finset.sum_congr rfl fun x hx => ?_
        have hxp : x ≠ p := by have := Finset.mem_range.1 hx; omega
        simp [hxp]

theorem M_fresh {n : Net} {B : Nat} (hS : Supp n B) (sp : FExpr) :
    Supp (fresh sp n).2 B ∧ M (fresh sp n).2 B = M n B := ⟨hS, rfl⟩

theorem M_log {n : Net} {B : Nat} (hS : Supp n B) (evs : List Event) :
    Supp { n with log := n.log ++ evs } B ∧ M { n with log := n.log ++ evs } B = M n B := ⟨hS, rfl⟩

theorem M_addTask {n : Net} {B : Nat} (hS : Supp n B) (tk : Task) :
    Supp { n with pool := n.pool ++ [tk] } B ∧ M { n with pool := n.pool ++ [tk] } B = M n B + {taskKind tk} := by
  refine ⟨hS, ?_⟩
  simp only [M, poolM, cbsM, List.map_append, List.map_cons, List.map_nil]
  rw [← Multiset.coe_add, Multiset.coe_singleton]
  abel

/-- `build e` adds exactly `created e` -/
theorem M_build (e : FExpr) : ∀ (n : Net) (B : Nat), Supp n B →
    ∃ B', B ≤ B' ∧ Supp (build e n).2 B' ∧ M (build e n).2 B' = M n B + created e := by
  induction e with
  | ref p => intro n B hS; exact ⟨B, Nat.le_refl _, hS, by simp [build, created]⟩
  | successful v =>
    intro n B hS
    obtain ⟨h1, h2⟩ := M_fresh hS (.successful v)
    obtain ⟨h3, h4⟩ := M_complete h1 (fresh (.successful v) n).1 (.success v)
    exact ⟨B, Nat.le_refl _, h3, by simp only [build, created, add_zero]; rw [h4, h2]⟩
  | failed err =>
    intro n B hS
    obtain ⟨h1, h2⟩ := M_fresh hS (.failed err)
    obtain ⟨h3, h4⟩ := M_complete h1 (fresh (.failed err) n).1 (.failure err)
    exact ⟨B, Nat.le_refl _, h3, by simp only [build, created, add_zero]; rw [h4, h2]⟩
  | successfulOf e ih =>
    intro n B hS
    obtain ⟨B1, hB1, hS1, hM1⟩ := ih n B hS
    obtain ⟨h1, h2⟩ := M_fresh hS1 (.successfulOf (.ref (build e n).1))
    obtain ⟨h3, h4⟩ := M_complete h1 (fresh (.successfulOf (.ref (build e n).1)) (build e n).2).1 (.success (handle (build e n).1))
    exact ⟨B1, hB1, h3, by simp only [build, created]; rw [h4, h2, hM1]⟩
  | logged evs e ih =>
    intro n B hS
    obtain ⟨h1, h2⟩ := M_log hS evs
    obtain ⟨B1, hB1, hS1, hM1⟩ := ih _ B h1
    exact ⟨B1, hB1, hS1, by simp only [build, created]; rw [hM1, h2]⟩
  | flatMap e k ih _ =>
    intro n B hS
    obtain ⟨B1, hB1, hS1, hM1⟩ := ih n B hS
    obtain ⟨h1, h2⟩ := M_fresh hS1 (.flatMap (.ref (build e n).1) k)
    obtain ⟨B2, hB2, hS2, hM2⟩ := M_onComplete h1 (build e n).1 (.flatMapA k (fresh (.flatMap (.ref (build e n).1) k) (build e n).2).1)
    exact ⟨B2, Nat.le_trans hB1 hB2, hS2, by simp only [build, created]; rw [hM2, h2, hM1]; simp [cbKind, add_assoc]⟩
  | transform e f ih =>
    intro n B hS
    obtain ⟨B1, hB1, hS1, hM1⟩ := ih n B hS
    obtain ⟨h1, h2⟩ := M_fresh hS1 (.transform (.ref (build e n).1) f)
    obtain ⟨B2, hB2, hS2, hM2⟩ := M_onComplete h1 (build e n).1 (.transformA f (fresh (.transform (.ref (build e n).1) f) (build e n).2).1)
    exact ⟨B2, Nat.le_trans hB1 hB2, hS2, by simp only [build, created]; rw [hM2, h2, hM1]; simp [cbKind, add_assoc]⟩
  | transformWith e k ih _ =>
    intro n B hS
    obtain ⟨B1, hB1, hS1, hM1⟩ := ih n B hS
    obtain ⟨h1, h2⟩ := M_fresh hS1 (.transformWith (.ref (build e n).1) k)
    obtain ⟨B2, hB2, hS2, hM2⟩ := M_onComplete h1 (build e n).1 (.transformWithA k (fresh (.transformWith (.ref (build e n).1) k) (build e n).2).1)
    exact ⟨B2, Nat.le_trans hB1 hB2, hS2, by simp only [build, created]; rw [hM2, h2, hM1]; simp [cbKind, add_assoc]⟩
  | recoverWith e d k ih _ =>
    intro n B hS
    obtain ⟨B1, hB1, hS1, hM1⟩ := ih n B hS
    obtain ⟨h1, h2⟩ := M_fresh hS1 (.recoverWith (.ref (build e n).1) d k)
    obtain ⟨B2, hB2, hS2, hM2⟩ := M_onComplete h1 (build e n).1 (.recoverWithA d k (fresh (.recoverWith (.ref (build e n).1) d k) (build e n).2).1)
    exact ⟨B2, Nat.le_trans hB1 hB2, hS2, by simp only [build, created]; rw [hM2, h2, hM1]; simp [cbKind, add_assoc]⟩
  | orFuture e alt ih iha =>
    intro n B hS
    obtain ⟨B1, hB1, hS1, hM1⟩ := ih n B hS
    obtain ⟨B2, hB2, hS2, hM2⟩ := iha (build e n).2 B1 hS1
    obtain ⟨h1, h2⟩ := M_fresh hS2 (.orFuture (.ref (build e n).1) (.ref (build alt (build e n).2).1))
    obtain ⟨B3, hB3, hS3, hM3⟩ := M_onComplete h1 (build e n).1
      (.orFutureA (build alt (build e n).2).1 (fresh (.orFuture (.ref (build e n).1) (.ref (build alt (build e n).2).1)) (build alt (build e n).2).2).1)
    exact ⟨B3, Nat.le_trans hB1 (Nat.le_trans hB2 hB3), hS3,
      by simp only [build, created]; rw [hM3, h2, hM2, hM1]; simp [cbKind, add_assoc]⟩
  | apply f =>
    intro n B hS
    obtain ⟨h1, h2⟩ := M_fresh hS (.apply f)
    obtain ⟨h3, h4⟩ := M_addTask h1 (Task.applyT f (fresh (.apply f) n).1)
    exact ⟨B, Nat.le_refl _, h3, by simp only [build, created]; rw [h4, h2]; rfl⟩

/-- `build e` followed by `OnComplete(completeWith np)` on its result (the tail of FlatMap/TransformWith/RecoverWith tasks) -/
theorem M_chain {n : Net} {B : Nat} (hS : Supp n B) (e : FExpr) (np : Nat) :
    ∃ B', Supp (onComplete (build e n).1 (.completeWith np) (build e n).2) B' ∧
      M (onComplete (build e n).1 (.completeWith np) (build e n).2) B' = M n B + (created e + {Kind.leaf}) := by
  obtain ⟨B1, _, hS1, hM1⟩ := M_build e n B hS
  obtain ⟨B2, _, hS2, hM2⟩ := M_onComplete hS1 (build e n).1 (.completeWith np)
  exact ⟨B2, hS2, by rw [hM2, hM1]; simp [cbKind, add_assoc]⟩

theorem leaf_lt {b : Kind} (h : b ≠ .leaf) : Lt .leaf b := .inr ⟨rfl, h⟩

/-- one task body: everything it adds is below its own kind -/
theorem M_runTask (tk : Task) {n : Net} {B : Nat} (hS : Supp n B) :
    ∃ B' t, Supp (runTask tk n) B' ∧ M (runTask tk n) B' = M n B + t ∧ ∀ a ∈ t, Lt a (taskKind tk) := by
  match tk with
  | .applyT f np =>
    obtain ⟨h1, h2⟩ := M_log hS (f ()).2
    obtain ⟨h3, h4⟩ := M_complete h1 np (f ()).1
    exact ⟨B, 0, h3, by simp only [runTask]; rw [h4, h2]; simp, by simp⟩
  | .cb (.flatMapA k np) (.success v) =>
    obtain ⟨B', hS', hM'⟩ := M_chain hS (k v) np
    refine ⟨B', created (k v) + {Kind.leaf}, by simpa only [runTask] using hS', by simpa only [runTask] using hM', ?_⟩
    intro a ha
    simp only [mem_add, mem_singleton] at ha
    rcases ha with ha | rfl
    · exact .inl ⟨k v, ⟨v, rfl⟩, ha⟩
    · exact leaf_lt (by simp [taskKind, cbKind])
  | .cb (.flatMapA k np) (.failure e) =>
    obtain ⟨h3, h4⟩ := M_complete hS np (.failure e)
    exact ⟨B, 0, h3, by simp only [runTask]; rw [h4]; simp, by simp⟩
  | .cb (.completeWith np) t =>
    obtain ⟨h3, h4⟩ := M_complete hS np t
    exact ⟨B, 0, h3, by simp only [runTask]; rw [h4]; simp, by simp⟩
  | .cb (.transformA f np) t =>
    obtain ⟨h1, h2⟩ := M_log hS (f t).2
    obtain ⟨h3, h4⟩ := M_complete h1 np (f t).1
    exact ⟨B, 0, h3, by simp only [runTask]; rw [h4, h2]; simp, by simp⟩
  | .cb (.transformWithA k np) t =>
    obtain ⟨B', hS', hM'⟩ := M_chain hS (k t) np
    refine ⟨B', created (k t) + {Kind.leaf}, by simpa only [runTask] using hS', by simpa only [runTask] using hM', ?_⟩
    intro a ha
    simp only [mem_add, mem_singleton] at ha
    rcases ha with ha | rfl
    · exact .inl ⟨k t, ⟨t, rfl⟩, ha⟩
    · exact leaf_lt (by simp [taskKind, cbKind])
  | .cb (.recoverWithA d k np) (.success v) =>
    obtain ⟨h3, h4⟩ := M_complete hS np (.success v)
    exact ⟨B, 0, h3, by simp only [runTask]; rw [h4]; simp, by simp⟩
  | .cb (.recoverWithA d k np) (.failure e) =>
    by_cases hd : d e = true
    · obtain ⟨B', hS', hM'⟩ := M_chain hS (k e) np
      refine ⟨B', created (k e) + {Kind.leaf}, by simpa only [runTask, hd, if_true] using hS',
        by simpa only [runTask, hd, if_true] using hM', ?_⟩
      intro a ha
      simp only [mem_add, mem_singleton] at ha
      rcases ha with ha | rfl
      · exact .inl ⟨k e, ⟨e, rfl⟩, ha⟩
      · exact leaf_lt (by simp [taskKind, cbKind])
    · obtain ⟨h3, h4⟩ := M_complete hS np (.failure e)
      have hd' : d e = false := by simpa using hd
      refine ⟨B, 0, by simpa [runTask, hd'] using h3, ?_, by simp⟩
      simpa [runTask, hd'] using h4
  | .cb (.orFutureA q np) (.success v) =>
    obtain ⟨h3, h4⟩ := M_complete hS np (.success v)
    exact ⟨B, 0, h3, by simp only [runTask]; rw [h4]; simp, by simp⟩
  | .cb (.orFutureA q np) (.failure e) =>
    obtain ⟨B2, _, hS2, hM2⟩ := M_onComplete hS q (.completeWith np)
    refine ⟨B2, {Kind.leaf}, hS2, by simpa only [runTask, cbKind] using hM2, ?_⟩
    intro a ha
    simp only [mem_singleton] at ha
    exact ha ▸ leaf_lt (by simp [taskKind, cbKind])
  | .cb (.observe id) t =>
    exact ⟨B, 0, hS, by simp [runTask, M, poolM, cbsM], by simp⟩

theorem poolM_erase (l : List Task) : ∀ (i : Nat) (tk : Task), l[i]? = some tk →
    ((l.map taskKind : List Kind) : Multiset Kind) = (((l.eraseIdx i).map taskKind : List Kind) : Multiset Kind) + {taskKind tk} := by
  induction l with
  | nil => intro i tk h; simp at h
  | cons x xs ih =>
    intro i tk h
    cases i with
    | zero =>
      simp only [List.getElem?_cons_zero, Option.some.injEq] at h
      subst h
      simp only [List.map_cons, List.eraseIdx_cons_zero]
      rw [← Multiset.cons_coe, ← Multiset.singleton_add, add_comm]
    | succ j =>
      simp only [List.getElem?_cons_succ] at h
      simp only [List.map_cons, List.eraseIdx_cons_succ]
      rw [← Multiset.cons_coe, ← Multiset.cons_coe, ih j tk h, Multiset.cons_add]

/-- a scheduler step that really runs a task -/
def RunRel (n' n : Net) : Prop := ∃ i tk, n.pool[i]? = some tk ∧ n' = step n (.run i)

theorem runRel_cutExpand {n n' : Net} {B : Nat} (hS : Supp n B) (h : RunRel n' n) :
    ∃ B', Supp n' B' ∧ Relation.CutExpand Lt (M n' B') (M n B) := by
  obtain ⟨i, tk, hi, rfl⟩ := h
  have hS0 : Supp { n with pool := n.pool.eraseIdx i } B := hS
  obtain ⟨B', t, hS', hM', hlt⟩ := M_runTask tk hS0
  refine ⟨B', by simpa only [step, hi] using hS', t, taskKind tk, hlt, ?_⟩
  simp only [step, hi]
  rw [hM']
  have : M n B = M { n with pool := n.pool.eraseIdx i } B + {taskKind tk} := by
    simp only [M, poolM]
    rw [poolM_erase n.pool i tk hi]
    simp only [cbsM]
    abel
  rw [this]
  abel

/-- THE TERMINATION ARGUMENT: from any net with finitely many registered callbacks, every sequence of task runs is finite -/
theorem acc_runRel (n : Net) (h : ∃ B, Supp n B) : Acc RunRel n := by
  obtain ⟨B, hS⟩ := h
  have key : ∀ s : Multiset Kind, ∀ (n : Net) (B : Nat), Supp n B → M n B = s → Acc RunRel n := by
    intro s
    induction s using (WellFounded.cutExpand wf_lt).induction with
    | _ s ih =>
      intro n B hS hM
      refine Acc.intro _ fun n' hr => ?_
      obtain ⟨B', hS', hc⟩ := runRel_cutExpand hS hr
      exact ih (M n' B') (hM ▸ hc) n' B' hS' rfl
  exact key _ n B hS rfl

/-! ## finitely many registered callbacks: preserved by every event, no assumption -/

theorem supp_step {n : Net} (h : ∃ B, Supp n B) (ev : Ev) : ∃ B, Supp (step n ev) B := by
  obtain ⟨B, hS⟩ := h
  match ev with
  | .run i =>
    cases hi : n.pool[i]? with
    | none => exact ⟨B, by simpa only [step, hi] using hS⟩
    | some tk =>
      have hS0 : Supp { n with pool := n.pool.eraseIdx i } B := hS
      obtain ⟨B', _, hS', _, _⟩ := M_runTask tk hS0
      exact ⟨B', by simpa only [step, hi] using hS'⟩
  | .src p t => exact ⟨B, (M_complete hS p t).1⟩
  | .mk e =>
    obtain ⟨B', _, hS', _⟩ := M_build e n B hS
    exact ⟨B', hS'⟩
  | .obs p id =>
    obtain ⟨B', _, hS', _⟩ := M_onComplete hS p (.observe id)
    exact ⟨B', hS'⟩

theorem supp_runEvs (evs : List Ev) : ∀ (n : Net), (∃ B, Supp n B) → ∃ B, Supp (runEvs n evs) B := by
  induction evs with
  | nil => intro n h; exact h
  | cons ev evs ih => intro n h; exact ih (step n ev) (supp_step h ev)

theorem supp_empty (nsrc : Nat) : ∃ B, Supp (Net.empty nsrc) B := ⟨0, fun _ _ => rfl⟩

end FpVerif.Fut.Drain
