import FpVerif.Lemmas.PipeSim
/-!
# Demand, operationally: a potential argument over machine steps

`StepB m φ wv wp`: every call of the iterator `m` raises the potential `φ` (source pulls minus the
pulls that sit in look-ahead variables) by at most
* `0`  for a `HasNext` that returns,
* `wv` for a `Next` that returns an element,
* `wp` for a call that panics (a panicking callback loses the element it was applied to).

Nothing is assumed about the callbacks (they may log and panic) or about the source (it may be an
unbounded generator): the statement is about single steps of the closures, so it composes over
the combinators without a list denotation.
-/
namespace FpVerif.It
open IM
variable {σ σ₂ σ₃ τ γ X Y α β : Type}

/-- what a call may cost: `wv` when it returns, `wp` when it panics -/
def cost (r : Except PanicVal X) (wv wp : Int) : Int :=
  match r with
  | .ok _ => wv
  | .error _ => wp

@[simp] theorem cost_ok (x : X) (wv wp : Int) : cost (.ok x : Except PanicVal X) wv wp = wv := rfl
@[simp] theorem cost_error (p : PanicVal) (wv wp : Int) : cost (.error p : Except PanicVal X) wv wp = wp := rfl

theorem cost_le (r : Except PanicVal X) {wv wp : Int} (h : wv ≤ wp) : cost r wv wp ≤ wp := by
  cases r <;> simp [h]

theorem cost_nonneg (r : Except PanicVal X) {wv wp : Int} (h0 : 0 ≤ wv) (h : wv ≤ wp) : 0 ≤ cost r wv wp := by
  cases r <;> simp <;> omega

structure StepB (m : Machine σ α) (φ : σ → Int) (wv wp : Int) : Prop where
  wv_nonneg : 0 ≤ wv
  wv_le : wv ≤ wp
  hasNext : ∀ s lg, φ (m.hasNext s lg).2.1 ≤ φ s + cost (m.hasNext s lg).1 0 wp
  next : ∀ s lg, φ (m.next s lg).2.1 ≤ φ s + cost (m.next s lg).1 wv wp

theorem StepB.hasNext_eq {m : Machine σ α} {φ : σ → Int} {wv wp : Int} (h : StepB m φ wv wp)
    {s s' : σ} {lg lg' : Log} {r : Except PanicVal Bool} (e : m.hasNext s lg = (r, s', lg')) :
    φ s' ≤ φ s + cost r 0 wp := by
  have := h.hasNext s lg; rw [e] at this; exact this

theorem StepB.next_eq {m : Machine σ α} {φ : σ → Int} {wv wp : Int} (h : StepB m φ wv wp)
    {s s' : σ} {lg lg' : Log} {r : Except PanicVal α} (e : m.next s lg = (r, s', lg')) :
    φ s' ≤ φ s + cost r wv wp := by
  have := h.next s lg; rw [e] at this; exact this

theorem StepB.wp_nonneg {m : Machine σ α} {φ : σ → Int} {wv wp : Int} (h : StepB m φ wv wp) : 0 ≤ wp :=
  Int.le_trans h.wv_nonneg h.wv_le

/-- weaken the weights -/
theorem StepB.mono {m : Machine σ α} {φ : σ → Int} {wv wp wv' wp' : Int} (h : StepB m φ wv wp)
    (h1 : wv ≤ wv') (h2 : wp ≤ wp') (h3 : wv' ≤ wp') : StepB m φ wv' wp' where
  wv_nonneg := Int.le_trans h.wv_nonneg h1
  wv_le := h3
  hasNext := by
    intro s lg
    have := h.hasNext s lg
    cases hr : (m.hasNext s lg).1 <;> rw [hr] at this <;> simp at this ⊢ <;> omega
  next := by
    intro s lg
    have := h.next s lg
    cases hr : (m.next s lg).1 <;> rw [hr] at this <;> simp at this ⊢ <;> omega

/-! ## scripts -/

/-- elements handed out by a run -/
def vals : List (Obs α) → Nat
  | [] => 0
  | .val _ :: os => vals os + 1
  | _ :: os => vals os

/-- calls of a run that panicked -/
def panics : List (Obs α) → Nat
  | [] => 0
  | .panic _ :: os => panics os + 1
  | _ :: os => panics os

theorem runScript_cons (m : Machine σ α) (c : Call) (cs : List Call) (s : σ) (lg : Log) :
    runScript m (c :: cs) s lg =
      ((runCall m c s lg).1 :: (runScript m cs (runCall m c s lg).2.1 (runCall m c s lg).2.2).1,
        (runScript m cs (runCall m c s lg).2.1 (runCall m c s lg).2.2).2) := rfl

theorem runScript_stepB {m : Machine σ α} {φ : σ → Int} {wv wp : Int} (h : StepB m φ wv wp) :
    ∀ (cs : List Call) (s : σ) (lg : Log),
      φ (runScript m cs s lg).2.1 ≤ φ s + wv * vals (runScript m cs s lg).1 + wp * panics (runScript m cs s lg).1 := by
  intro cs
  induction cs with
  | nil => intro s lg; simp [runScript, vals, panics]
  | cons c cs ih =>
    intro s lg
    have hwp := h.wp_nonneg
    rw [runScript_cons]
    cases c with
    | H =>
      rcases e : m.hasNext s lg with ⟨r, s1, lg1⟩
      have h1 := h.hasNext_eq e
      have h2 := ih s1 lg1
      cases r with
      | ok b =>
        simp only [runCall, e]
        generalize runScript m cs s1 lg1 = res at h2 ⊢
        simp only [vals, panics]
        simp only [cost_ok] at h1
        omega
      | error p =>
        simp only [runCall, e]
        generalize runScript m cs s1 lg1 = res at h2 ⊢
        simp only [vals, panics]
        simp only [cost_error] at h1
        rw [Int.natCast_add, Int.mul_add]
        omega
    | N =>
      rcases e : m.next s lg with ⟨r, s1, lg1⟩
      have h1 := h.next_eq e
      have h2 := ih s1 lg1
      cases r with
      | ok b =>
        simp only [runCall, e]
        generalize runScript m cs s1 lg1 = res at h2 ⊢
        simp only [vals, panics]
        simp only [cost_ok] at h1
        rw [Int.natCast_add, Int.mul_add]
        omega
      | error p =>
        simp only [runCall, e]
        generalize runScript m cs s1 lg1 = res at h2 ⊢
        simp only [vals, panics]
        simp only [cost_error] at h1
        rw [Int.natCast_add, Int.mul_add]
        omega

/-! ## sources -/

/-- a machine without instrumented source -/
theorem stepB_zero (m : Machine σ α) : StepB m (fun _ => 0) 0 0 where
  wv_nonneg := Int.le_refl _
  wv_le := Int.le_refl _
  hasNext := by intro s lg; cases (m.hasNext s lg).1 <;> simp
  next := by intro s lg; cases (m.next s lg).1 <;> simp

/-- the instrumented slice iterator: `idx` is its pull counter -/
theorem ofSeq_stepB (tag : Option (α → Event)) (xs : List α) :
    StepB (ofSeq tag xs) (fun idx => (idx : Int)) 1 1 where
  wv_nonneg := by omega
  wv_le := by omega
  hasNext := by intro s lg; simp [ofSeq, bind_apply]
  next := by
    intro s lg
    cases hx : xs[s]? with
    | none => simp [ofSeq, bind_apply, hx]; omega
    | some a =>
      cases tag with
      | none => simp [ofSeq, bind_apply, hx]
      | some t =>
        have he : (IM.liftG (emit (t a)) : IM Nat Unit) (s + 1) lg = (.ok (), s + 1, lg ++ [t a]) := rfl
        simp [ofSeq, bind_apply, hx, he]

/-- `Generate`: the call counter -/
theorem generate_stepB (g : Nat → GoM α) : StepB (generate g) (fun n => (n : Int)) 1 1 where
  wv_nonneg := by omega
  wv_le := by omega
  hasNext := by intro s lg; simp [generate]
  next := by
    intro s lg
    cases hr : ((g s).run.run lg).1 with
    | ok v => simp [generate, bind_apply, IM.liftG, hr]
    | error p => simp [generate, bind_apply, IM.liftG, hr]; omega

/-! ## combinators -/

theorem map_stepB {f : α → GoM β} {m : Machine σ α} {φ : σ → Int} {wv wp : Int} (h : StepB m φ wv wp) :
    StepB (map f m) φ wv wp where
  wv_nonneg := h.wv_nonneg
  wv_le := h.wv_le
  hasNext := h.hasNext
  next := by
    intro s lg
    rcases e : m.next s lg with ⟨r, s1, lg1⟩
    have h1 := h.next_eq e
    have := h.wv_le
    cases r with
    | error p => simpa [map, bind_err e] using h1
    | ok v =>
      simp only [map, bind_ok e, IM.liftG]
      simp only [cost_ok] at h1
      have := cost_le ((f v).run.run lg1).1 h.wv_le
      cases hr : ((f v).run.run lg1).1 <;> simp <;> omega

theorem tapEach_stepB {f : α → GoM Unit} {m : Machine σ α} {φ : σ → Int} {wv wp : Int} (h : StepB m φ wv wp) :
    StepB (tapEach f m) φ wv wp where
  wv_nonneg := h.wv_nonneg
  wv_le := h.wv_le
  hasNext := h.hasNext
  next := by
    intro s lg
    rcases e : m.next s lg with ⟨r, s1, lg1⟩
    have h1 := h.next_eq e
    have := h.wv_le
    cases r with
    | error p => simpa [tapEach, bind_err e] using h1
    | ok v =>
      simp only [tapEach, bind_ok e, IM.liftG, bind_apply]
      simp only [cost_ok] at h1
      cases hr : ((f v).run.run lg1).1 <;> simp <;> omega

theorem liftG_eq {g : GoM X} {lg lg' : Log} {r : Except PanicVal X} (s : σ) (e : g.run.run lg = (r, lg')) :
    (IM.liftG g : IM σ X) s lg = (r, s, lg') := by
  simp [IM.liftG, e]

/-! ### Take -/

theorem take_hasNext_eq (n : Int) (m : Machine σ α) (s : σ) (i : Nat) (lg : Log) :
    (take n m).hasNext (s, i) lg =
      if (i : Int) < n then ((m.hasNext s lg).1, ((m.hasNext s lg).2.1, i), (m.hasNext s lg).2.2)
      else (.ok false, (s, i), lg) := by
  by_cases hlt : (i : Int) < n <;> simp [take, bind_apply, hlt, onFst_apply]

theorem take_next_of_hasNext (n : Int) (m : Machine σ α) (sc sc1 : σ × Nat) (lg lg1 : Log) (b : Bool)
    (h : (take n m).hasNext sc lg = (.ok b, sc1, lg1)) :
    (take n m).next sc lg =
      if b then (IM.onFst m.next : IM (σ × Nat) α) (sc1.1, sc1.2 + 1) lg1 else (.error nextOnEmpty, sc1, lg1) := by
  unfold take at h ⊢
  simp only [] at h ⊢
  rw [bind_ok h]
  obtain ⟨s1, i1⟩ := sc1
  cases b <;> simp [bind_apply]

theorem take_next_of_hasNext_err (n : Int) (m : Machine σ α) (sc sc1 : σ × Nat) (lg lg1 : Log) (p : PanicVal)
    (h : (take n m).hasNext sc lg = (.error p, sc1, lg1)) :
    (take n m).next sc lg = (.error p, sc1, lg1) := by
  unfold take at h ⊢
  simp only [] at h ⊢
  rw [bind_err h]

/-- `Take(n)`: for every `0 ≤ c ≤ wv` the potential `φ − c·i` (`i` = Take's counter) is raised by at
    most `wv − c` per element.  `c = 0`: Take adds no look-ahead; `c = wv`: handing out an element
    costs NOTHING beyond what the counter `i ≤ n` already accounts for. -/
theorem take_stepB_gen (n : Int) {m : Machine σ α} {φ : σ → Int} {wv wp : Int} (h : StepB m φ wv wp)
    (c : Int) (hc0 : 0 ≤ c) (hc : c ≤ wv) :
    StepB (take n m) (fun sc => φ sc.1 - c * (sc.2 : Int)) (wv - c) wp where
  wv_nonneg := by omega
  wv_le := by have := h.wv_le; omega
  hasNext := by
    rintro ⟨s, i⟩ lg
    rw [take_hasNext_eq]
    by_cases hlt : (i : Int) < n
    · simp only [hlt, if_true]
      have := h.hasNext s lg
      omega
    · simp [hlt]
  next := by
    rintro ⟨s, i⟩ lg
    have hwp := h.wp_nonneg
    have hmul : c * ((i + 1 : Nat) : Int) = c * (i : Int) + c := by rw [Int.natCast_add, Int.mul_add]; simp
    by_cases hlt : (i : Int) < n
    · rcases e1 : m.hasNext s lg with ⟨r1, s1, lg1⟩
      have h1 := h.hasNext_eq e1
      have hh : (take n m).hasNext (s, i) lg = (r1, (s1, i), lg1) := by
        rw [take_hasNext_eq]; simp [hlt, e1]
      cases r1 with
      | error p =>
        rw [take_next_of_hasNext_err n m _ _ _ _ _ hh]
        simp only [cost_error] at h1 ⊢
        omega
      | ok b =>
        rw [take_next_of_hasNext n m _ _ _ _ _ hh]
        simp only [cost_ok] at h1
        cases b with
        | false => simp only [Bool.false_eq_true, if_false, cost_error]; omega
        | true =>
          simp only [if_true]
          rcases e2 : m.next s1 lg1 with ⟨r2, s2, lg2⟩
          have h2 := h.next_eq e2
          rw [onFst_eq _ e2]
          cases r2 with
          | ok v => simp only [cost_ok] at h2 ⊢; simp only [hmul]; omega
          | error p => simp only [cost_error] at h2 ⊢; simp only [hmul]; omega
    · have hh : (take n m).hasNext (s, i) lg = (.ok false, (s, i), lg) := by
        rw [take_hasNext_eq]; simp [hlt]
      rw [take_next_of_hasNext n m _ _ _ _ _ hh]
      simp only [Bool.false_eq_true, if_false, cost_error]; omega

theorem take_stepB (n : Int) {m : Machine σ α} {φ : σ → Int} {wv wp : Int} (h : StepB m φ wv wp) :
    StepB (take n m) (fun sc => φ sc.1) wv wp := by
  have := take_stepB_gen n h 0 (Int.le_refl _) h.wv_nonneg
  simpa using this

/-- the counter of `Take(n)` never exceeds `n` -/
theorem take_counter_le (n : Int) (m : Machine σ α) :
    ∀ (cs : List Call) (s : σ) (i : Nat) (lg : Log), i ≤ n.toNat →
      (runScript (take n m) cs (s, i) lg).2.1.2 ≤ n.toNat := by
  intro cs
  induction cs with
  | nil => intro s i lg hi; simpa [runScript] using hi
  | cons c cs ih =>
    intro s i lg hi
    rw [runScript_cons]
    have key : (runCall (take n m) c (s, i) lg).2.1.2 ≤ n.toNat := by
      cases c with
      | H =>
        simp only [runCall]
        rw [take_hasNext_eq]
        by_cases hlt : (i : Int) < n
        · simp only [hlt, if_true]
          cases (m.hasNext s lg).1 <;> simpa using hi
        · simpa [hlt] using hi
      | N =>
        simp only [runCall]
        rcases e : (take n m).hasNext (s, i) lg with ⟨r, ⟨s1, i1⟩, lg1⟩
        have hi1 : i1 = i ∧ (r = .ok true → (i : Int) < n) := by
          rw [take_hasNext_eq] at e
          by_cases hlt : (i : Int) < n
          · simp only [hlt, if_true, Prod.mk.injEq] at e
            exact ⟨e.2.1.2.symm, fun _ => hlt⟩
          · simp only [hlt, if_false, Prod.mk.injEq] at e
            refine ⟨e.2.1.2.symm, fun hr => ?_⟩
            rw [hr] at e; simp at e
        obtain ⟨rfl, hlt⟩ := hi1
        cases r with
        | error p =>
          rw [take_next_of_hasNext_err n m _ _ _ _ _ e]; simpa using hi
        | ok b =>
          rw [take_next_of_hasNext n m _ _ _ _ _ e]
          cases b with
          | false => simpa using hi
          | true =>
            have := hlt rfl
            simp only [if_true, onFst_apply]
            cases (m.next s1 lg1).1 <;> simp <;> omega
    generalize runCall (take n m) c (s, i) lg = rc at key ⊢
    obtain ⟨o, ⟨s1, i1⟩, lg1⟩ := rc
    exact ih s1 i1 lg1 key

/-! ### TakeWhile -/

theorem takeWhile_next_of_hasNext (p : α → GoM Bool) (m : Machine σ α) (sc sc1 : σ × TakeWhileSt α) (lg lg1 : Log) (b : Bool)
    (h : (takeWhile p m).hasNext sc lg = (.ok b, sc1, lg1)) :
    (takeWhile p m).next sc lg =
      if b then
        match sc1.2.fv with
        | some ret => (.ok ret, (sc1.1, { sc1.2 with fv := none }), lg1)
        | none => (.error "Option.empty", sc1, lg1)
      else (.error nextOnEmpty, sc1, lg1) := by
  unfold takeWhile at h ⊢
  simp only [] at h ⊢
  rw [bind_ok h]
  obtain ⟨s1, c1⟩ := sc1
  cases b
  · simp
  · cases hfv : c1.fv <;> simp [bind_apply, hfv]

theorem takeWhile_next_of_hasNext_err (p : α → GoM Bool) (m : Machine σ α) (sc sc1 : σ × TakeWhileSt α) (lg lg1 : Log)
    (q : PanicVal) (h : (takeWhile p m).hasNext sc lg = (.error q, sc1, lg1)) :
    (takeWhile p m).next sc lg = (.error q, sc1, lg1) := by
  unfold takeWhile at h ⊢
  simp only [] at h ⊢
  rw [bind_err h]

/-- the look-ahead of `TakeWhile`: `fv` holds an element, or `breaking` records that the element that
    ended the run was pulled -/
def twHeld (c : TakeWhileSt α) (wv : Int) : Int := if c.breaking || c.fv.isSome then wv else 0

theorem takeWhile_hasNext_pot {p : α → GoM Bool} {m : Machine σ α} {φ : σ → Int} {wv wp : Int} (h : StepB m φ wv wp)
    (s : σ) (c : TakeWhileSt α) (lg : Log) :
    φ ((takeWhile p m).hasNext (s, c) lg).2.1.1 - twHeld ((takeWhile p m).hasNext (s, c) lg).2.1.2 wv
      ≤ φ s - twHeld c wv + cost ((takeWhile p m).hasNext (s, c) lg).1 0 wp := by
  have hwp := h.wp_nonneg
  have hwv := h.wv_nonneg
  have hle := h.wv_le
  rcases c with ⟨_ | _, _ | v⟩
  · rcases e1 : m.hasNext s lg with ⟨r1, s1, lg1⟩
    have h1 := h.hasNext_eq e1
    cases r1 with
    | error q =>
      simp only [cost_error] at h1
      simp [takeWhile, bind_apply, onFst_eq _ e1, twHeld]; omega
    | ok b =>
      simp only [cost_ok] at h1
      cases b with
      | false => simp [takeWhile, bind_apply, onFst_eq _ e1, twHeld]; omega
      | true =>
        rcases e2 : m.next s1 lg1 with ⟨r2, s2, lg2⟩
        have h2 := h.next_eq e2
        cases r2 with
        | error q =>
          simp only [cost_error] at h2
          simp [takeWhile, bind_apply, onFst_eq _ e1, onFst_eq _ e2, twHeld]; omega
        | ok v =>
          simp only [cost_ok] at h2
          rcases e3 : (p v).run.run lg2 with ⟨r3, lg3⟩
          have e3' := liftG_eq (σ := σ × TakeWhileSt α) (s2, ({} : TakeWhileSt α)) e3
          cases r3 with
          | error q => simp [takeWhile, bind_apply, onFst_eq _ e1, onFst_eq _ e2, e3', twHeld]; omega
          | ok b =>
            cases b <;> simp [takeWhile, bind_apply, onFst_eq _ e1, onFst_eq _ e2, e3', twHeld] <;> omega
  · simp [takeWhile, bind_apply, twHeld]
  · simp [takeWhile, bind_apply, twHeld]
  · simp [takeWhile, bind_apply, twHeld]

theorem takeWhile_stepB {p : α → GoM Bool} {m : Machine σ α} {φ : σ → Int} {wv wp : Int} (h : StepB m φ wv wp) :
    StepB (takeWhile p m) (fun sc => φ sc.1 - twHeld sc.2 wv) wv wp where
  wv_nonneg := h.wv_nonneg
  wv_le := h.wv_le
  hasNext := by rintro ⟨s, c⟩ lg; exact takeWhile_hasNext_pot h s c lg
  next := by
    rintro ⟨s, c⟩ lg
    have hwp := h.wp_nonneg
    have hwv := h.wv_nonneg
    have hle := h.wv_le
    have h0 := takeWhile_hasNext_pot (p := p) h s c lg
    rcases e : (takeWhile p m).hasNext (s, c) lg with ⟨r, ⟨s1, c1⟩, lg1⟩
    rw [e] at h0
    simp only at h0
    cases r with
    | error q =>
      rw [takeWhile_next_of_hasNext_err p m _ _ _ _ _ e]
      simpa using h0
    | ok b =>
      rw [takeWhile_next_of_hasNext p m _ _ _ _ _ e]
      simp only [cost_ok] at h0
      cases b with
      | false => simp only [Bool.false_eq_true, if_false, cost_error]; omega
      | true =>
        simp only [if_true]
        rcases c1 with ⟨br, _ | v⟩
        · simp only [cost_error]; omega
        · simp only [cost_ok, twHeld] at h0 ⊢
          simp at h0 ⊢
          split <;> omega

/-! ### Scan -/

theorem scan_stepB {f : β → α → GoM β} {m : Machine σ α} {φ : σ → Int} {wv wp : Int} (h : StepB m φ wv wp) :
    StepB (scan f m) (fun sc => φ sc.1) wv wp where
  wv_nonneg := h.wv_nonneg
  wv_le := h.wv_le
  hasNext := by
    rintro ⟨s, ⟨first, sum⟩⟩ lg
    cases first with
    | true => simp [scan, bind_apply]
    | false =>
      have := h.hasNext s lg
      simpa [scan, bind_apply, onFst_apply] using this
  next := by
    rintro ⟨s, ⟨first, sum⟩⟩ lg
    have hwp := h.wp_nonneg
    have hwv := h.wv_nonneg
    have hle := h.wv_le
    cases first with
    | true => simp [scan, bind_apply]; omega
    | false =>
      rcases e1 : m.hasNext s lg with ⟨r1, s1, lg1⟩
      have h1 := h.hasNext_eq e1
      cases r1 with
      | error q =>
        simp only [cost_error] at h1
        simp [scan, bind_apply, onFst_eq _ e1]; omega
      | ok b =>
        simp only [cost_ok] at h1
        cases b with
        | false => simp [scan, bind_apply, onFst_eq _ e1]; omega
        | true =>
          rcases e2 : m.next s1 lg1 with ⟨r2, s2, lg2⟩
          have h2 := h.next_eq e2
          cases r2 with
          | error q =>
            simp only [cost_error] at h2
            simp [scan, bind_apply, onFst_eq _ e1, onFst_eq _ e2]; omega
          | ok v =>
            simp only [cost_ok] at h2
            rcases e3 : (f sum v).run.run lg2 with ⟨r3, lg3⟩
            have e3' := liftG_eq (σ := σ × ScanSt β) (s2, ({ first := false, sum := sum } : ScanSt β)) e3
            cases r3 with
            | error q => simp [scan, bind_apply, onFst_eq _ e1, onFst_eq _ e2, e3']; omega
            | ok b => simp [scan, bind_apply, onFst_eq _ e1, onFst_eq _ e2, e3']; omega

/-! ### Zip -/

theorem zip_stepB {a : Machine σ α} {b : Machine σ₂ β} {φa : σ → Int} {φb : σ₂ → Int} {wva wpa wvb wpb : Int}
    (ha : StepB a φa wva wpa) (hb : StepB b φb wvb wpb) :
    StepB (zip a b) (fun st => φa st.1 + φb st.2) (wva + wvb) (wpa + wpb) where
  wv_nonneg := by have := ha.wv_nonneg; have := hb.wv_nonneg; omega
  wv_le := by have := ha.wv_le; have := hb.wv_le; omega
  hasNext := by
    rintro ⟨s, t⟩ lg
    have := ha.wp_nonneg; have := hb.wp_nonneg
    rcases e1 : a.hasNext s lg with ⟨r1, s1, lg1⟩
    have h1 := ha.hasNext_eq e1
    cases r1 with
    | error q =>
      simp only [cost_error] at h1
      simp [zip, bind_apply, onFst_eq _ e1]; omega
    | ok bb =>
      simp only [cost_ok] at h1
      cases bb with
      | false => simp [zip, bind_apply, onFst_eq _ e1]; omega
      | true =>
        rcases e2 : b.hasNext t lg1 with ⟨r2, t2, lg2⟩
        have h2 := hb.hasNext_eq e2
        cases r2 with
        | error q =>
          simp only [cost_error] at h2
          simp [zip, bind_apply, onFst_eq _ e1, onSnd_eq _ e2]; omega
        | ok b2 =>
          simp only [cost_ok] at h2
          simp [zip, bind_apply, onFst_eq _ e1, onSnd_eq _ e2]; omega
  next := by
    rintro ⟨s, t⟩ lg
    have := ha.wp_nonneg; have := hb.wp_nonneg
    have := ha.wv_le; have := hb.wv_le
    rcases e1 : a.next s lg with ⟨r1, s1, lg1⟩
    have h1 := ha.next_eq e1
    cases r1 with
    | error q =>
      simp only [cost_error] at h1
      simp [zip, bind_apply, onFst_eq _ e1]; omega
    | ok x =>
      simp only [cost_ok] at h1
      rcases e2 : b.next t lg1 with ⟨r2, t2, lg2⟩
      have h2 := hb.next_eq e2
      cases r2 with
      | error q =>
        simp only [cost_error] at h2
        simp [zip, bind_apply, onFst_eq _ e1, onSnd_eq _ e2]; omega
      | ok y =>
        simp only [cost_ok] at h2
        simp [zip, bind_apply, onFst_eq _ e1, onSnd_eq _ e2]; omega

/-! ### MakePullIterator -/

/-- the look-ahead of the pull iterator: `val` holds the element pulled ahead -/
def pullHeld (v : Option α) (wv : Int) : Int := if v.isSome then wv else 0

theorem pullNextFn_pot {m : Machine σ α} {φ : σ → Int} {wv wp : Int} (h : StepB m φ wv wp) (s : σ) (lg : Log) :
    match pullNextFn m s lg with
    | (.ok nv, s', _) => φ s' - pullHeld nv wv ≤ φ s
    | (.error _, s', _) => φ s' ≤ φ s + wp := by
  have hwp := h.wp_nonneg
  have hwv := h.wv_nonneg
  rcases e1 : m.hasNext s lg with ⟨r1, s1, lg1⟩
  have h1 := h.hasNext_eq e1
  cases r1 with
  | error q => simp only [cost_error] at h1; simp [pullNextFn, bind_apply, e1]; omega
  | ok b =>
    simp only [cost_ok] at h1
    cases b with
    | false => simp [pullNextFn, bind_apply, e1, pullHeld]; omega
    | true =>
      rcases e2 : m.next s1 lg1 with ⟨r2, s2, lg2⟩
      have h2 := h.next_eq e2
      cases r2 with
      | error q => simp only [cost_error] at h2; simp [pullNextFn, bind_apply, e1, e2]; omega
      | ok v => simp only [cost_ok] at h2; simp [pullNextFn, bind_apply, e1, e2, pullHeld]; omega

theorem pull_stepB {m : Machine σ α} {φ : σ → Int} {wv wp : Int} (h : StepB m φ wv wp) :
    StepB (pull m) (fun sc => φ sc.1 - pullHeld sc.2 wv) wv wp where
  wv_nonneg := h.wv_nonneg
  wv_le := h.wv_le
  hasNext := by rintro ⟨s, v⟩ lg; simp [pull, bind_apply]
  next := by
    rintro ⟨s, v⟩ lg
    have hwp := h.wp_nonneg
    have hwv := h.wv_nonneg
    have hle := h.wv_le
    cases v with
    | none => simp [pull, bind_apply]; omega
    | some ret =>
      have h0 := pullNextFn_pot h s lg
      rcases e : pullNextFn m s lg with ⟨r, s1, lg1⟩
      rw [e] at h0
      cases r with
      | error q =>
        simp only at h0
        simp [pull, bind_apply, onFst_eq _ e, pullHeld]; omega
      | ok nv =>
        simp only at h0
        simp [pull, bind_apply, onFst_eq _ e, pullHeld] at h0 ⊢; omega

/-- construction of the pull iterator pulls the first element into `val` -/
theorem pullInit_pot {m : Machine σ α} {φ : σ → Int} {wv wp : Int} (h : StepB m φ wv wp) (s : σ) (v0 : Option α) (lg : Log) :
    match pullInit m (s, v0) lg with
    | (.ok _, sc', _) => φ sc'.1 - pullHeld sc'.2 wv ≤ φ s
    | (.error _, sc', _) => φ sc'.1 ≤ φ s + wp := by
  have h0 := pullNextFn_pot h s lg
  rcases e : pullNextFn m s lg with ⟨r, s1, lg1⟩
  rw [e] at h0
  cases r with
  | error q => simp only at h0; simpa [pullInit, bind_apply, onFst_eq _ e] using h0
  | ok nv => simp only at h0; simpa [pullInit, bind_apply, onFst_eq _ e] using h0

theorem StepB.congr {m : Machine σ α} {φ ψ : σ → Int} {wv wp : Int} (h : StepB m φ wv wp) (e : ∀ s, ψ s = φ s) :
    StepB m ψ wv wp := by
  have : ψ = φ := funext e
  rw [this]; exact h

/-! ### Drop (runs at construction time) -/

theorem dropLoop_pot {m : Machine σ α} {φ : σ → Int} {wv wp : Int} (h : StepB m φ wv wp) :
    ∀ (k : Nat) (s : σ) (lg : Log), φ (dropLoop m k s lg).2.1 ≤ φ s + (k : Int) * wp := by
  intro k
  induction k with
  | zero => intro s lg; simp [dropLoop]
  | succ k ih =>
    intro s lg
    have hwp := h.wp_nonneg
    have hle := h.wv_le
    have hk : (0 : Int) ≤ (k : Int) * wp := Int.mul_nonneg (Int.natCast_nonneg _) hwp
    have hmul : ((k + 1 : Nat) : Int) * wp = (k : Int) * wp + wp := by
      rw [Int.natCast_add, Int.add_mul]; simp
    rw [hmul]
    rcases e1 : m.hasNext s lg with ⟨r1, s1, lg1⟩
    have h1 := h.hasNext_eq e1
    cases r1 with
    | error q => simp only [cost_error] at h1; simp [dropLoop, bind_err e1]; omega
    | ok b =>
      simp only [cost_ok] at h1
      cases b with
      | false => simp [dropLoop, bind_ok e1]; omega
      | true =>
        rcases e2 : m.next s1 lg1 with ⟨r2, s2, lg2⟩
        have h2 := h.next_eq e2
        cases r2 with
        | error q => simp only [cost_error] at h2; simp [dropLoop, bind_ok e1, bind_err e2]; omega
        | ok v =>
          simp only [cost_ok] at h2
          have h3 := ih s2 lg2
          simp only [dropLoop, bind_ok e1, if_true, bind_ok e2]
          omega

/-! ## Concat: multi-port machines -/

/-- every port of the component list satisfies the step bound -/
structure MStepB (M : MMachine σ α) (φ : σ → Int) (wv wp : Int) : Prop where
  wv_nonneg : 0 ≤ wv
  wv_le : wv ≤ wp
  hasNext : ∀ i s lg, φ (M.hasNext i s lg).2.1 ≤ φ s + cost (M.hasNext i s lg).1 0 wp
  next : ∀ i s lg, φ (M.next i s lg).2.1 ≤ φ s + cost (M.next i s lg).1 wv wp

theorem single_mstepB {m : Machine σ α} {φ : σ → Int} {wv wp : Int} (h : StepB m φ wv wp) :
    MStepB (MMachine.single m) φ wv wp where
  wv_nonneg := h.wv_nonneg
  wv_le := h.wv_le
  hasNext := fun _ => h.hasNext
  next := fun _ => h.next

theorem MStepB.mono {M : MMachine σ α} {φ : σ → Int} {wv wp wv' wp' : Int} (h : MStepB M φ wv wp)
    (h1 : wv ≤ wv') (h2 : wp ≤ wp') (h3 : wv' ≤ wp') : MStepB M φ wv' wp' where
  wv_nonneg := Int.le_trans h.wv_nonneg h1
  wv_le := h3
  hasNext := by
    intro i s lg
    have := h.hasNext i s lg
    cases hr : (M.hasNext i s lg).1 <;> rw [hr] at this <;> simp at this ⊢ <;> omega
  next := by
    intro i s lg
    have := h.next i s lg
    cases hr : (M.next i s lg).1 <;> rw [hr] at this <;> simp at this ⊢ <;> omega

theorem MStepB.congr {M : MMachine σ α} {φ ψ : σ → Int} {wv wp : Int} (h : MStepB M φ wv wp) (e : ∀ s, ψ s = φ s) :
    MStepB M ψ wv wp := by
  have : ψ = φ := funext e
  rw [this]; exact h

/-- `append(alliter, tail.concat...)`: a call on one port touches one side only -/
theorem join_mstepB {A : MMachine σ α} {B : MMachine σ₂ α} {φa : σ → Int} {φb : σ₂ → Int} {wv wp : Int}
    (ha : MStepB A φa wv wp) (hb : MStepB B φb wv wp) :
    MStepB (A.join B) (fun st => φa st.1 + φb st.2) wv wp where
  wv_nonneg := ha.wv_nonneg
  wv_le := ha.wv_le
  hasNext := by
    rintro i ⟨s, t⟩ lg
    by_cases hi : i < A.n
    · have := ha.hasNext i s lg
      simp only [MMachine.join, hi, if_true, onFst_apply]; omega
    · have := hb.hasNext (i - A.n) t lg
      simp only [MMachine.join, hi, if_false, onSnd_apply]; omega
  next := by
    rintro i ⟨s, t⟩ lg
    by_cases hi : i < A.n
    · have := ha.next i s lg
      simp only [MMachine.join, hi, if_true, onFst_apply]; omega
    · have := hb.next (i - A.n) t lg
      simp only [MMachine.join, hi, if_false, onSnd_apply]; omega

theorem concatParts_mstepB {M : MMachine σ α} {φ : σ → Int} {wv wp : Int} (h : MStepB M φ wv wp) :
    MStepB (concatParts M) (fun sc => φ sc.1) wv wp where
  wv_nonneg := h.wv_nonneg
  wv_le := h.wv_le
  hasNext := by rintro i ⟨s, c⟩ lg; have := h.hasNext i s lg; simpa [concatParts, onFst_apply] using this
  next := by rintro i ⟨s, c⟩ lg; have := h.next i s lg; simpa [concatParts, onFst_apply] using this

theorem concatScan_pot {M : MMachine σ α} {φ : σ → Int} {wv wp : Int} (h : MStepB M φ wv wp) :
    ∀ (k j : Nat) (s : σ) (c : ConcatSt) (lg : Log),
      φ (concatScan M k j (s, c) lg).2.1.1 ≤ φ s + cost (concatScan M k j (s, c) lg).1 0 wp := by
  intro k
  induction k with
  | zero => intro j s c lg; simp [concatScan, bind_apply]
  | succ k ih =>
    intro j s c lg
    have hwp : 0 ≤ wp := Int.le_trans h.wv_nonneg h.wv_le
    rcases e1 : M.hasNext j s lg with ⟨r1, s1, lg1⟩
    have h1 := h.hasNext j s lg
    rw [e1] at h1
    cases r1 with
    | error q => simp only [cost_error] at h1; simp [concatScan, bind_apply, onFst_eq _ e1]; omega
    | ok b =>
      simp only [cost_ok] at h1
      cases b with
      | true => simp [concatScan, bind_apply, onFst_eq _ e1]; omega
      | false =>
        have h2 := ih (j + 1) s1 c lg1
        simp only [concatScan, bind_apply, onFst_eq _ e1]
        simp only [Bool.false_eq_true, if_false]
        omega

theorem concatCurrentNext_pot {M : MMachine σ α} {φ : σ → Int} {wv wp : Int} (h : MStepB M φ wv wp)
    (s : σ) (c : ConcatSt) (lg : Log) :
    φ (concatCurrentNext M (s, c) lg).2.1.1 ≤ φ s + cost (concatCurrentNext M (s, c) lg).1 0 wp := by
  have hwp : 0 ≤ wp := Int.le_trans h.wv_nonneg h.wv_le
  rcases c with ⟨cur, rem, chk⟩
  cases chk with
  | true => simp [concatCurrentNext, bind_apply]
  | false =>
    cases cur with
    | none => simp [concatCurrentNext, bind_apply]
    | some cur =>
      rcases e1 : M.hasNext cur s lg with ⟨r1, s1, lg1⟩
      have h1 := h.hasNext cur s lg
      rw [e1] at h1
      cases r1 with
      | error q => simp only [cost_error] at h1; simp [concatCurrentNext, bind_apply, onFst_eq _ e1]; omega
      | ok b =>
        simp only [cost_ok] at h1
        cases b with
        | true => simp [concatCurrentNext, bind_apply, onFst_eq _ e1]; omega
        | false =>
          have h2 := concatScan_pot h (M.n - rem) rem s1 ⟨some cur, rem, false⟩ lg1
          have e2 : concatCurrentNext M (s, ⟨some cur, rem, false⟩) lg
              = concatScan M (M.n - rem) rem (s1, ⟨some cur, rem, false⟩) lg1 := by
            simp [concatCurrentNext, bind_apply, onFst_eq _ e1]
          rw [e2]
          omega

theorem concat_stepB {M : MMachine σ α} {φ : σ → Int} {wv wp : Int} (h : MStepB M φ wv wp) :
    StepB (concat M) (fun sc => φ sc.1) wv wp where
  wv_nonneg := h.wv_nonneg
  wv_le := h.wv_le
  hasNext := by rintro ⟨s, c⟩ lg; exact concatCurrentNext_pot h s c lg
  next := by
    rintro ⟨s, c⟩ lg
    have hwp : 0 ≤ wp := Int.le_trans h.wv_nonneg h.wv_le
    have hwv := h.wv_nonneg
    have hle := h.wv_le
    have h0 := concatCurrentNext_pot h s c lg
    rcases e : concatCurrentNext M (s, c) lg with ⟨r, ⟨s1, c1⟩, lg1⟩
    rw [e] at h0
    simp only at h0
    cases r with
    | error q =>
      simp only [cost_error] at h0
      simp only [concat, bind_err e, cost_error]; omega
    | ok b =>
      simp only [cost_ok] at h0
      cases b with
      | false => simp only [concat, bind_ok e]; simp; omega
      | true =>
        rcases c1 with ⟨cur, rem, chk⟩
        cases cur with
        | none => simp only [concat, bind_ok e]; simp [bind_apply]; omega
        | some cur =>
          have h2 := h.next cur s1 lg1
          simp only [concat, bind_ok e]
          simp only [if_true, bind_apply, onSnd_modify, onSnd_get, onFst_apply]
          cases hr : (M.next cur s1 lg1).1 <;> rw [hr] at h2 <;> simp at h2 ⊢ <;> omega

/-! ## over the pipeline AST -/
namespace Pipe

/-- the combinators that hand on every element they pull (one in, one out, possibly with a
    look-ahead), and `Concat`: for these the number of source pulls is bounded by the number of elements handed
    out.  `Filter`, `FilterNot`, `DropWhile`, `Drop`, `FlatMap`, `FilterMap` SKIP elements — for them
    a bound in the number of elements handed out is false (`C12.filter_no_linear_bound`), their
    demand is data dependent (`C12.filter_demand`, `dropWhile_demand`, `flatMap_demand`). -/
def Linear : Pipe → Prop
  | map p _ => Linear p
  | tap p _ => Linear p
  | take p _ => Linear p
  | takew p _ => Linear p
  | scan p _ _ => Linear p
  | zipidx p => Linear p
  | zip p q => Linear p ∧ Linear q
  | zip3 p q r => Linear p ∧ Linear q ∧ Linear r
  | concat p q => Linear p ∧ Linear q
  | drop _ _ => False
  | dropw _ _ => False
  | filter _ _ => False
  | filternot _ _ => False
  | flatmap _ _ _ => False
  | filtermap _ _ => False
  | _ => True

/-- `Linear` plus `Drop(n)`, which skips `n` elements ONCE, at construction time -/
def LinearD : Pipe → Prop
  | map p _ => LinearD p
  | tap p _ => LinearD p
  | take p _ => LinearD p
  | takew p _ => LinearD p
  | scan p _ _ => LinearD p
  | zipidx p => LinearD p
  | drop p _ => LinearD p
  | zip p q => LinearD p ∧ LinearD q
  | zip3 p q r => LinearD p ∧ LinearD q ∧ LinearD r
  | concat p q => LinearD p ∧ LinearD q
  | dropw _ _ => False
  | filter _ _ => False
  | filternot _ _ => False
  | flatmap _ _ _ => False
  | filtermap _ _ => False
  | _ => True

theorem Linear.toD : ∀ (p : Pipe), p.Linear → p.LinearD := by
  intro p
  induction p with
  | map p f ih => exact ih
  | tap p f ih => exact ih
  | take p n ih => exact ih
  | takew p f ih => exact ih
  | scan p z f ih => exact ih
  | zipidx p ih => exact ih
  | zip p q ihp ihq => exact fun h => ⟨ihp h.1, ihq h.2⟩
  | zip3 p q r ihp ihq ihr => exact fun h => ⟨ihp h.1, ihq h.2.1, ihr h.2.2⟩
  | concat p q ihp ihq => exact fun h => ⟨ihp h.1, ihq h.2⟩
  | drop p n _ => exact fun h => h.elim
  | dropw p f _ => exact fun h => h.elim
  | filter p f _ => exact fun h => h.elim
  | filternot p f _ => exact fun h => h.elim
  | flatmap p f k _ _ => exact fun h => h.elim
  | filtermap p f _ => exact fun h => h.elim
  | _ => exact fun _ => trivial

/-- what ONE element handed out may cost in source pulls: the number of instrumented sources that
    are pulled together (`Zip` adds, `Concat` takes the larger side) -/
def width : Pipe → Nat
  | src _ _ => 1
  | gen _ _ _ => 1
  | pullseq _ _ => 1
  | map p _ => width p
  | tap p _ => width p
  | take p _ => width p
  | drop p _ => width p
  | takew p _ => width p
  | dropw p _ => width p
  | filter p _ => width p
  | filternot p _ => width p
  | concat p q => Nat.max (width p) (width q)
  | flatmap p _ _ => width p
  | filtermap p _ => width p
  | scan p _ _ => width p
  | zip p q => width p + width q
  | zip3 p q r => width p + width q + width r
  | zipidx p => width p
  | _ => 0

/-- source pulls that currently sit in look-ahead variables (`MakePullIterator`'s `val`,
    `TakeWhile`'s `fv` / the element that ended the run) -/
def held : (p : Pipe) → p.St → Nat
  | pullseq _ _, s => if s.2.isSome then 1 else 0
  | map p _, s => held p s
  | tap p _, s => held p s
  | take p _, s => held p s.1
  | takew p _, s => held p s.1 + (if s.2.breaking || s.2.fv.isSome then width p else 0)
  | scan p _ _, s => held p s.1
  | zip p q, s => held p s.1 + held q s.2
  | zip3 p q r, s => held p s.1 + held q s.2.1 + held r s.2.2
  | zipidx p, s => held p s.2
  | concat p q, s => held p s.1.1 + held q s.1.2
  | drop p _, s => held p s
  | _, _ => 0

/-- the structural look-ahead constant: one element per `MakePullIterator`, one element of the
    underlying pipeline (`width` pulls) per `TakeWhile` -/
def lookahead : Pipe → Nat
  | pullseq _ _ => 1
  | map p _ => lookahead p
  | tap p _ => lookahead p
  | take p _ => lookahead p
  | takew p _ => lookahead p + width p
  | scan p _ _ => lookahead p
  | zip p q => lookahead p + lookahead q
  | zip3 p q r => lookahead p + lookahead q + lookahead r
  | zipidx p => lookahead p
  | concat p q => lookahead p + lookahead q
  | drop p _ => lookahead p
  | _ => 0

/-- source pulls that `Drop(n)` spends at construction time: `n` elements of the pipeline below -/
def dropped : Pipe → Nat
  | drop p n => dropped p + n.toNat * width p
  | map p _ => dropped p
  | tap p _ => dropped p
  | take p _ => dropped p
  | takew p _ => dropped p
  | scan p _ _ => dropped p
  | zipidx p => dropped p
  | zip p q => dropped p + dropped q
  | zip3 p q r => dropped p + dropped q + dropped r
  | concat p q => dropped p + dropped q
  | _ => 0

theorem held_le_lookahead : ∀ (p : Pipe) (s : p.St), held p s ≤ lookahead p := by
  intro p
  induction p with
  | pullseq id xs => intro s; simp only [held, lookahead]; split <;> omega
  | map p f ih => intro s; exact ih s
  | tap p f ih => intro s; exact ih s
  | take p n ih => intro s; exact ih s.1
  | takew p f ih =>
    intro s
    have := ih s.1
    simp only [held, lookahead]; split <;> omega
  | scan p z f ih => intro s; exact ih s.1
  | zip p q ihp ihq =>
    intro s
    have := ihp s.1; have := ihq s.2
    simp only [held, lookahead]; omega
  | zip3 p q r ihp ihq ihr =>
    intro s
    have := ihp s.1; have := ihq s.2.1; have := ihr s.2.2
    simp only [held, lookahead]; omega
  | zipidx p ih => intro s; exact ih s.2
  | concat p q ihp ihq =>
    intro s
    have := ihp s.1.1; have := ihq s.1.2
    simp only [held, lookahead]; omega
  | drop p n ih => intro s; exact ih s
  | _ => intro s; simp [held]

/-- the potential: source pulls minus the pulls held in look-ahead variables -/
def pot (p : Pipe) (s : p.St) : Int := (pulls p s : Int) - (held p s : Int)

/-- for a pipeline that is not itself a `Concat` / `Drop` the component list is the iterator itself -/
theorem joint_single (fuel : Nat) (p : Pipe) (h1 : ∀ a b, p ≠ .concat a b) (h2 : ∀ a n, p ≠ .drop a n)
    (hs : StepB (machineF fuel p) (pot p) (width p) (width p)) :
    StepB (machineF fuel p) (pot p) (width p) (width p) ∧ MStepB (partsF fuel p) (pot p) (width p) (width p) := by
  refine ⟨hs, ?_⟩
  rw [partsF_single fuel p h1 h2]
  exact single_mstepB hs

/-- EVERY linear pipeline, ANY callbacks (logging, panicking), ANY sources (also `Generate`): each
    call raises `pulls − held` by at most `width` — and a `HasNext` that returns, not at all. -/
theorem stepJ (fuel : Nat) : ∀ (p : Pipe), p.LinearD →
    StepB (machineF fuel p) (pot p) (width p) (width p) ∧ MStepB (partsF fuel p) (pot p) (width p) (width p) := by
  intro p
  induction p with
  | src id xs =>
    intro _
    refine joint_single fuel _ (by intros; simp) (by intros; simp) ?_
    have e : machineF fuel (.src id xs) = ofSeq (some (srcTag id)) xs := by rw [machineF]
    rw [e]
    refine (ofSeq_stepB _ xs).congr (fun s => ?_)
    show ((s : Nat) : Int) - ((0 : Nat) : Int) = (s : Int)
    simp
  | seq xs =>
    intro _
    refine joint_single fuel _ (by intros; simp) (by intros; simp) ?_
    refine (stepB_zero _).congr (fun s => ?_)
    show ((0 : Nat) : Int) - ((0 : Nat) : Int) = 0
    simp
  | arg n =>
    intro _
    refine joint_single fuel _ (by intros; simp) (by intros; simp) ?_
    refine (stepB_zero _).congr (fun s => ?_)
    show ((0 : Nat) : Int) - ((0 : Nat) : Int) = 0
    simp
  | gen id a b =>
    intro _
    refine joint_single fuel _ (by intros; simp) (by intros; simp) ?_
    have e : machineF fuel (.gen id a b) = generate (fun n => do
      let v := Val.int (a + b * n)
      emit (srcTag id v)
      pure v) := by rw [machineF]
    rw [e]
    refine (generate_stepB _).congr (fun s => ?_)
    show ((s : Nat) : Int) - ((0 : Nat) : Int) = (s : Int)
    simp
  | range c a b =>
    intro _
    refine joint_single fuel _ (by intros; simp) (by intros; simp) ?_
    refine (stepB_zero _).congr (fun s => ?_)
    show ((0 : Nat) : Int) - ((0 : Nat) : Int) = 0
    simp
  | opt o =>
    intro _
    refine joint_single fuel _ (by intros; simp) (by intros; simp) ?_
    refine (stepB_zero _).congr (fun s => ?_)
    show ((0 : Nat) : Int) - ((0 : Nat) : Int) = 0
    simp
  | empty =>
    intro _
    refine joint_single fuel _ (by intros; simp) (by intros; simp) ?_
    refine (stepB_zero _).congr (fun s => ?_)
    show ((0 : Nat) : Int) - ((0 : Nat) : Int) = 0
    simp
  | zero =>
    intro _
    refine joint_single fuel _ (by intros; simp) (by intros; simp) ?_
    refine (stepB_zero _).congr (fun s => ?_)
    show ((0 : Nat) : Int) - ((0 : Nat) : Int) = 0
    simp
  | rev xs =>
    intro _
    refine joint_single fuel _ (by intros; simp) (by intros; simp) ?_
    refine (stepB_zero _).congr (fun s => ?_)
    show ((0 : Nat) : Int) - ((0 : Nat) : Int) = 0
    simp
  | pullseq id xs =>
    intro _
    refine joint_single fuel _ (by intros; simp) (by intros; simp) ?_
    have e : machineF fuel (.pullseq id xs) = pull (ofSeq (some (srcTag id)) xs) := by rw [machineF]
    rw [e]
    refine (pull_stepB (ofSeq_stepB _ xs)).congr (fun s => ?_)
    show ((s.1 : Nat) : Int) - (((if s.2.isSome then 1 else 0 : Nat)) : Int) = ((s.1 : Nat) : Int) - pullHeld s.2 1
    unfold pullHeld
    split <;> simp
  | map p f ih =>
    intro h
    refine joint_single fuel _ (by intros; simp) (by intros; simp) ?_
    have e : machineF fuel (.map p f) = It.map f (machineF fuel p) := by rw [machineF]; try rfl
    rw [e]
    exact (map_stepB (ih h).1).congr (fun s => rfl)
  | tap p f ih =>
    intro h
    refine joint_single fuel _ (by intros; simp) (by intros; simp) ?_
    have e : machineF fuel (.tap p f) = tapEach f (machineF fuel p) := by rw [machineF]; try rfl
    rw [e]
    exact (tapEach_stepB (ih h).1).congr (fun s => rfl)
  | take p n ih =>
    intro h
    refine joint_single fuel _ (by intros; simp) (by intros; simp) ?_
    have e : machineF fuel (.take p n) = It.take n (machineF fuel p) := by rw [machineF]; try rfl
    rw [e]
    exact (take_stepB n (ih h).1).congr (fun s => rfl)
  | takew p f ih =>
    intro h
    refine joint_single fuel _ (by intros; simp) (by intros; simp) ?_
    have e : machineF fuel (.takew p f) = takeWhile f (machineF fuel p) := by rw [machineF]; try rfl
    rw [e]
    refine (takeWhile_stepB (ih h).1).congr (fun s => ?_)
    show ((pulls p s.1 : Nat) : Int) - ((held p s.1 + (if s.2.breaking || s.2.fv.isSome then width p else 0) : Nat) : Int)
      = (((pulls p s.1 : Nat) : Int) - ((held p s.1 : Nat) : Int)) - twHeld s.2 (width p)
    unfold twHeld
    split <;> simp <;> omega
  | scan p z f ih =>
    intro h
    refine joint_single fuel _ (by intros; simp) (by intros; simp) ?_
    have e : machineF fuel (.scan p z f) = It.scan f (machineF fuel p) := by rw [machineF]; try rfl
    rw [e]
    exact (scan_stepB (ih h).1).congr (fun s => rfl)
  | zip p q ihp ihq =>
    intro h
    refine joint_single fuel _ (by intros; simp) (by intros; simp) ?_
    have e : machineF fuel (.zip p q) = It.map (fun ab => pure (tupV ab.1 ab.2)) (It.zip (machineF fuel p) (machineF fuel q)) := by
      rw [machineF]; try rfl
    rw [e]
    have hz := map_stepB (f := fun ab => (pure (tupV ab.1 ab.2) : GoM Val)) (zip_stepB (ihp h.1).1 (ihq h.2).1)
    have hw : ((width (.zip p q) : Nat) : Int) = (width p : Int) + (width q : Int) := by
      show ((width p + width q : Nat) : Int) = _
      simp
    rw [hw]
    refine hz.congr (fun s => ?_)
    show ((pulls p s.1 + pulls q s.2 : Nat) : Int) - ((held p s.1 + held q s.2 : Nat) : Int)
      = (((pulls p s.1 : Nat) : Int) - ((held p s.1 : Nat) : Int)) + (((pulls q s.2 : Nat) : Int) - ((held q s.2 : Nat) : Int))
    simp only [Int.natCast_add]; omega
  | zip3 p q r ihp ihq ihr =>
    intro h
    refine joint_single fuel _ (by intros; simp) (by intros; simp) ?_
    have e : machineF fuel (.zip3 p q r) = It.map (fun abc => pure (Val.tup [abc.1, abc.2.1, abc.2.2]))
        (It.zip (machineF fuel p) (It.zip (machineF fuel q) (machineF fuel r))) := by
      rw [machineF, zip3_eq]; try rfl
    rw [e]
    have hz := map_stepB (f := fun abc => (pure (Val.tup [abc.1, abc.2.1, abc.2.2]) : GoM Val))
      (zip_stepB (ihp h.1).1 (zip_stepB (ihq h.2.1).1 (ihr h.2.2).1))
    have hw : ((width (.zip3 p q r) : Nat) : Int) = (width p : Int) + ((width q : Int) + (width r : Int)) := by
      show ((width p + width q + width r : Nat) : Int) = _
      simp only [Int.natCast_add]; omega
    rw [hw]
    refine hz.congr (fun s => ?_)
    show ((pulls p s.1 + pulls q s.2.1 + pulls r s.2.2 : Nat) : Int) - ((held p s.1 + held q s.2.1 + held r s.2.2 : Nat) : Int)
      = (((pulls p s.1 : Nat) : Int) - ((held p s.1 : Nat) : Int)) +
        ((((pulls q s.2.1 : Nat) : Int) - ((held q s.2.1 : Nat) : Int)) + (((pulls r s.2.2 : Nat) : Int) - ((held r s.2.2 : Nat) : Int)))
    simp only [Int.natCast_add]; omega
  | zipidx p ih =>
    intro h
    refine joint_single fuel _ (by intros; simp) (by intros; simp) ?_
    have e : machineF fuel (.zipidx p) = It.map (fun ia => pure (tupV (.int ia.1) ia.2)) (zipWithIndex (machineF fuel p)) := by
      rw [machineF]; try rfl
    rw [e]
    have hz := map_stepB (f := fun ia => (pure (tupV (.int ia.1) ia.2) : GoM Val))
      (zip_stepB (stepB_zero (generate (fun n => (pure (n : Int) : GoM Int)))) (ih h).1)
    have hw : ((width (.zipidx p) : Nat) : Int) = 0 + (width p : Int) := by
      show ((width p : Nat) : Int) = _
      simp
    rw [hw]
    refine hz.congr (fun s => ?_)
    show ((pulls p s.2 : Nat) : Int) - ((held p s.2 : Nat) : Int) = 0 + (((pulls p s.2 : Nat) : Int) - ((held p s.2 : Nat) : Int))
    simp
  | drop p n ih =>
    intro h
    obtain ⟨hs, hm⟩ := ih h
    rw [machineF_drop, partsF_drop]
    exact ⟨hs.congr (fun s => rfl), hm.congr (fun s => rfl)⟩
  | dropw p f _ => intro h; exact h.elim
  | filter p f _ => intro h; exact h.elim
  | filternot p f _ => intro h; exact h.elim
  | concat p q ihp ihq =>
    intro h
    obtain ⟨_, hmp⟩ := ihp h.1
    obtain ⟨_, hmq⟩ := ihq h.2
    have hw : ((width (.concat p q) : Nat) : Int) = ((Nat.max (width p) (width q) : Nat) : Int) := rfl
    have hle1 : ((width p : Nat) : Int) ≤ ((Nat.max (width p) (width q) : Nat) : Int) := Int.ofNat_le.mpr (Nat.le_max_left _ _)
    have hle2 : ((width q : Nat) : Int) ≤ ((Nat.max (width p) (width q) : Nat) : Int) := Int.ofNat_le.mpr (Nat.le_max_right _ _)
    have hJ := join_mstepB (hmp.mono hle1 hle1 (Int.le_refl _)) (hmq.mono hle2 hle2 (Int.le_refl _))
    rw [machineF_concat, partsF_concat, hw]
    have hpot : ∀ s : (Pipe.concat p q).St, pot (.concat p q) s = pot p s.1.1 + pot q s.1.2 := by
      intro s
      show ((pulls p s.1.1 + pulls q s.1.2 : Nat) : Int) - ((held p s.1.1 + held q s.1.2 : Nat) : Int)
        = (((pulls p s.1.1 : Nat) : Int) - ((held p s.1.1 : Nat) : Int)) + (((pulls q s.1.2 : Nat) : Int) - ((held q s.1.2 : Nat) : Int))
      simp only [Int.natCast_add]; omega
    exact ⟨(concat_stepB hJ).congr hpot, (concatParts_mstepB hJ).congr hpot⟩
  | flatmap p f k _ _ => intro h; exact h.elim
  | filtermap p f _ => intro h; exact h.elim

theorem stepB (fuel : Nat) (p : Pipe) (hl : p.Linear) : StepB (machineF fuel p) (pot p) (width p) (width p) :=
  (stepJ fuel p (Linear.toD p hl)).1

theorem stepBD (fuel : Nat) (p : Pipe) (hl : p.LinearD) : StepB (machineF fuel p) (pot p) (width p) (width p) :=
  (stepJ fuel p hl).1

/-- building a linear pipeline cannot fail, and afterwards the only source pulls are the ones
    `MakePullIterator` has made into its `val` -/
theorem build_linear (fuel : Nat) : ∀ (p : Pipe), p.Linear → ∀ (x : Val) (lg : Log),
    ∃ (s : p.St) (lg' : Log), (buildF fuel p x).run.run lg = (.ok s, lg') ∧ pulls p s = held p s := by
  intro p
  induction p with
  | src id xs => intro _ x lg; exact ⟨(0 : Nat), lg, by rw [buildF]; rfl, rfl⟩
  | seq xs => intro _ x lg; exact ⟨(0 : Nat), lg, by rw [buildF]; rfl, rfl⟩
  | arg n => intro _ x lg; exact ⟨_, lg, by rw [buildF]; rfl, rfl⟩
  | gen id a b => intro _ x lg; exact ⟨(0 : Nat), lg, by rw [buildF]; rfl, rfl⟩
  | range c a b => intro _ x lg; exact ⟨a, lg, by rw [buildF]; rfl, rfl⟩
  | opt o => intro _ x lg; exact ⟨true, lg, by rw [buildF]; rfl, rfl⟩
  | empty => intro _ x lg; exact ⟨(), lg, by rw [buildF]; rfl, rfl⟩
  | zero => intro _ x lg; exact ⟨(), lg, by rw [buildF]; rfl, rfl⟩
  | rev xs => intro _ x lg; exact ⟨xs.length, lg, by rw [buildF]; rfl, rfl⟩
  | pullseq id xs =>
    intro _ x lg
    cases xs with
    | nil => exact ⟨((0 : Nat), none), lg, by rw [buildF]; rfl, rfl⟩
    | cons a xs => exact ⟨((1 : Nat), some a), lg ++ [srcTag id a], by rw [buildF]; rfl, rfl⟩
  | map p f ih =>
    intro h x lg
    obtain ⟨s, lg', e, hp⟩ := ih h x lg
    exact ⟨s, lg', by rw [buildF]; exact e, hp⟩
  | tap p f ih =>
    intro h x lg
    obtain ⟨s, lg', e, hp⟩ := ih h x lg
    exact ⟨s, lg', by rw [buildF]; exact e, hp⟩
  | take p n ih =>
    intro h x lg
    obtain ⟨s, lg', e, hp⟩ := ih h x lg
    exact ⟨(s, (0 : Nat)), lg', by rw [buildF, gom_bind_ok e]; rfl, hp⟩
  | takew p f ih =>
    intro h x lg
    obtain ⟨s, lg', e, hp⟩ := ih h x lg
    refine ⟨(s, {}), lg', by rw [buildF, gom_bind_ok e]; rfl, ?_⟩
    show pulls p s = held p s + 0
    omega
  | scan p z f ih =>
    intro h x lg
    obtain ⟨s, lg', e, hp⟩ := ih h x lg
    exact ⟨(s, { sum := z }), lg', by rw [buildF, gom_bind_ok e]; rfl, hp⟩
  | zip p q ihp ihq =>
    intro h x lg
    obtain ⟨s, lg1, e1, hp⟩ := ihp h.1 x lg
    obtain ⟨t, lg2, e2, hq⟩ := ihq h.2 x lg1
    refine ⟨(s, t), lg2, by rw [buildF, gom_bind_ok e1, gom_bind_ok e2]; rfl, ?_⟩
    show pulls p s + pulls q t = held p s + held q t
    omega
  | zip3 p q r ihp ihq ihr =>
    intro h x lg
    obtain ⟨s, lg1, e1, hp⟩ := ihp h.1 x lg
    obtain ⟨t, lg2, e2, hq⟩ := ihq h.2.1 x lg1
    obtain ⟨u, lg3, e3, hr⟩ := ihr h.2.2 x lg2
    refine ⟨(s, t, u), lg3, by rw [buildF, gom_bind_ok e1, gom_bind_ok e2, gom_bind_ok e3]; rfl, ?_⟩
    show pulls p s + pulls q t + pulls r u = held p s + held q t + held r u
    omega
  | zipidx p ih =>
    intro h x lg
    obtain ⟨s, lg', e, hp⟩ := ih h x lg
    exact ⟨((0 : Nat), s), lg', by rw [buildF, gom_bind_ok e]; rfl, hp⟩
  | concat p q ihp ihq =>
    intro h x lg
    obtain ⟨s, lg1, e1, hp⟩ := ihp h.1 x lg
    obtain ⟨t, lg2, e2, hq⟩ := ihq h.2 x lg1
    refine ⟨((s, t), {}), lg2, by rw [buildF, gom_bind_ok e1, gom_bind_ok e2]; rfl, ?_⟩
    show pulls p s + pulls q t = held p s + held q t
    omega
  | drop p n _ => intro h; exact h.elim
  | dropw p f _ => intro h; exact h.elim
  | filter p f _ => intro h; exact h.elim
  | filternot p f _ => intro h; exact h.elim
  | flatmap p f k _ _ => intro h; exact h.elim
  | filtermap p f _ => intro h; exact h.elim

/-- the demand bound of a linear pipeline, for any starting state: -/
theorem pulls_le_of_stepB (fuel : Nat) (p : Pipe) (hl : p.Linear) (s0 : p.St) (h0 : pulls p s0 = held p s0)
    (cs : List Call) (lg : Log) :
    pulls p (runScript (machineF fuel p) cs s0 lg).2.1
      ≤ width p * (vals (runScript (machineF fuel p) cs s0 lg).1 + panics (runScript (machineF fuel p) cs s0 lg).1)
        + lookahead p := by
  have h := runScript_stepB (stepB fuel p hl) cs s0 lg
  generalize runScript (machineF fuel p) cs s0 lg = res at h ⊢
  have hh := held_le_lookahead p res.2.1
  unfold pot at h
  have : ((pulls p res.2.1 : Nat) : Int) ≤ ((width p * (vals res.1 + panics res.1) + lookahead p : Nat) : Int) := by
    rw [Int.natCast_add, Int.natCast_mul, Int.natCast_add, Int.mul_add]
    omega
  exact Int.ofNat_le.mp this

/-! ### with `Drop`: what construction may have pulled -/

theorem gom_bind_err {A B : Type} {m : GoM A} {f : A → GoM B} {lg lg1 : Log} {q : PanicVal}
    (h : m.run.run lg = (.error q, lg1)) : (m >>= f).run.run lg = (.error q, lg1) := by
  simp only [ExceptT.run_bind]
  simp only [bind, StateT.bind, StateT.run] at h ⊢
  have h' : ExceptT.run m lg = (Except.error q, lg1) := h
  rw [h']
  rfl

theorem gom_bind_inv {A B : Type} {m : GoM A} {f : A → GoM B} {lg lg2 : Log} {b : B}
    (h : (m >>= f).run.run lg = (.ok b, lg2)) :
    ∃ a lg1, m.run.run lg = (.ok a, lg1) ∧ (f a).run.run lg1 = (.ok b, lg2) := by
  rcases e : m.run.run lg with ⟨r, lg1⟩
  cases r with
  | error q => rw [gom_bind_err e] at h; cases h
  | ok a => rw [gom_bind_ok e] at h; exact ⟨a, lg1, rfl, h⟩

theorem gom_pure_inv {A : Type} {a b : A} {lg lg' : Log} (h : (pure a : GoM A).run.run lg = (.ok b, lg')) : b = a := by
  have h' : ((.ok a, lg) : Except PanicVal A × Log) = (.ok b, lg') := h
  cases h'; rfl

/-- IF building a pipeline with `Drop`s returns (a panicking callback may abort a `Drop` loop), the
    source pulls not accounted for by look-ahead variables are the ones the `Drop`s have spent -/
theorem build_linearD (fuel : Nat) : ∀ (p : Pipe), p.LinearD → ∀ (x : Val) (lg : Log) (s : p.St) (lg' : Log),
    (buildF fuel p x).run.run lg = (.ok s, lg') → pulls p s ≤ held p s + dropped p := by
  intro p
  have src : ∀ (p : Pipe), p.Linear → dropped p = 0 → ∀ (x : Val) (lg : Log) (s : p.St) (lg' : Log),
      (buildF fuel p x).run.run lg = (.ok s, lg') → pulls p s ≤ held p s + dropped p := by
    intro p hl hd x lg s lg' e
    obtain ⟨s0, lg0, e0, h0⟩ := build_linear fuel p hl x lg
    rw [e0] at e
    cases e
    omega
  induction p with
  | src id xs => intro _; exact src _ trivial rfl
  | seq xs => intro _; exact src _ trivial rfl
  | arg n => intro _; exact src _ trivial rfl
  | gen id a b => intro _; exact src _ trivial rfl
  | range c a b => intro _; exact src _ trivial rfl
  | opt o => intro _; exact src _ trivial rfl
  | empty => intro _; exact src _ trivial rfl
  | zero => intro _; exact src _ trivial rfl
  | rev xs => intro _; exact src _ trivial rfl
  | pullseq id xs => intro _; exact src _ trivial rfl
  | map p f ih =>
    intro h x lg s lg' e
    rw [buildF] at e
    exact ih h x lg s lg' e
  | tap p f ih =>
    intro h x lg s lg' e
    rw [buildF] at e
    exact ih h x lg s lg' e
  | take p n ih =>
    intro h x lg s lg' e
    rw [buildF] at e
    obtain ⟨a, lg1, e1, e2⟩ := gom_bind_inv e
    have := gom_pure_inv e2
    subst this
    exact ih h x lg a lg1 e1
  | takew p f ih =>
    intro h x lg s lg' e
    rw [buildF] at e
    obtain ⟨a, lg1, e1, e2⟩ := gom_bind_inv e
    have := gom_pure_inv e2
    subst this
    have := ih h x lg a lg1 e1
    show pulls p a ≤ held p a + 0 + dropped p
    omega
  | scan p z f ih =>
    intro h x lg s lg' e
    rw [buildF] at e
    obtain ⟨a, lg1, e1, e2⟩ := gom_bind_inv e
    have := gom_pure_inv e2
    subst this
    exact ih h x lg a lg1 e1
  | zipidx p ih =>
    intro h x lg s lg' e
    rw [buildF] at e
    obtain ⟨a, lg1, e1, e2⟩ := gom_bind_inv e
    have := gom_pure_inv e2
    subst this
    exact ih h x lg a lg1 e1
  | zip p q ihp ihq =>
    intro h x lg s lg' e
    rw [buildF] at e
    obtain ⟨a, lg1, e1, e2⟩ := gom_bind_inv e
    obtain ⟨b, lg2, e3, e4⟩ := gom_bind_inv e2
    have := gom_pure_inv e4
    subst this
    have := ihp h.1 x lg a lg1 e1
    have := ihq h.2 x lg1 b lg2 e3
    show pulls p a + pulls q b ≤ held p a + held q b + (dropped p + dropped q)
    omega
  | zip3 p q r ihp ihq ihr =>
    intro h x lg s lg' e
    rw [buildF] at e
    obtain ⟨a, lg1, e1, e2⟩ := gom_bind_inv e
    obtain ⟨b, lg2, e3, e4⟩ := gom_bind_inv e2
    obtain ⟨c, lg3, e5, e6⟩ := gom_bind_inv e4
    have := gom_pure_inv e6
    subst this
    have := ihp h.1 x lg a lg1 e1
    have := ihq h.2.1 x lg1 b lg2 e3
    have := ihr h.2.2 x lg2 c lg3 e5
    show pulls p a + pulls q b + pulls r c ≤ held p a + held q b + held r c + (dropped p + dropped q + dropped r)
    omega
  | concat p q ihp ihq =>
    intro h x lg s lg' e
    rw [buildF] at e
    obtain ⟨a, lg1, e1, e2⟩ := gom_bind_inv e
    obtain ⟨b, lg2, e3, e4⟩ := gom_bind_inv e2
    have := gom_pure_inv e4
    subst this
    have := ihp h.1 x lg a lg1 e1
    have := ihq h.2 x lg1 b lg2 e3
    show pulls p a + pulls q b ≤ held p a + held q b + (dropped p + dropped q)
    omega
  | drop p n ih =>
    intro h x lg s lg' e
    rw [buildF] at e
    obtain ⟨a, lg1, e1, e2⟩ := gom_bind_inv e
    have e2' : Pipe.buildF.runInit (dropLoop (machineF fuel p) n.toNat) a lg1 = (.ok s, lg') := e2
    have hd := dropLoop_pot (stepBD fuel p h) n.toNat a lg1
    have hi := ih h x lg a lg1 e1
    rcases e3 : dropLoop (machineF fuel p) n.toNat a lg1 with ⟨r, s2, lg2⟩
    rw [e3] at hd
    simp only [Pipe.buildF.runInit, e3] at e2'
    cases r with
    | error q => cases e2'
    | ok u =>
      cases e2'
      simp only [pot] at hd
      show pulls p s ≤ held p s + (dropped p + n.toNat * width p)
      have : ((pulls p s : Nat) : Int) ≤ ((held p s + (dropped p + n.toNat * width p) : Nat) : Int) := by
        rw [Int.natCast_add, Int.natCast_add, Int.natCast_mul]
        omega
      exact Int.ofNat_le.mp this
  | dropw p f _ => intro h; exact h.elim
  | filter p f _ => intro h; exact h.elim
  | filternot p f _ => intro h; exact h.elim
  | flatmap p f k _ _ => intro h; exact h.elim
  | filtermap p f _ => intro h; exact h.elim

/-- the demand bound for pipelines with `Drop`, from any state that construction can leave -/
theorem pulls_le_of_stepBD (fuel : Nat) (p : Pipe) (hl : p.LinearD) (s0 : p.St) (k : Nat) (h0 : pulls p s0 ≤ held p s0 + k)
    (cs : List Call) (lg : Log) :
    pulls p (runScript (machineF fuel p) cs s0 lg).2.1
      ≤ width p * (vals (runScript (machineF fuel p) cs s0 lg).1 + panics (runScript (machineF fuel p) cs s0 lg).1)
        + lookahead p + k := by
  have h := runScript_stepB (stepBD fuel p hl) cs s0 lg
  generalize runScript (machineF fuel p) cs s0 lg = res at h ⊢
  have hh := held_le_lookahead p res.2.1
  unfold pot at h
  have : ((pulls p res.2.1 : Nat) : Int) ≤ ((width p * (vals res.1 + panics res.1) + lookahead p + k : Nat) : Int) := by
    rw [Int.natCast_add, Int.natCast_add, Int.natCast_mul, Int.natCast_add, Int.mul_add]
    omega
  exact Int.ofNat_le.mp this

/-- `Take(n)` over a linear pipeline, ANY script (however long): the sources are pulled at most
    `n` times each (plus the look-ahead below, plus one per panicking call) — the number of calls
    does not enter. -/
theorem take_pulls_le (fuel : Nat) (q : Pipe) (hl : q.Linear) (n : Int) (s0 : q.St) (h0 : pulls q s0 = held q s0)
    (cs : List Call) (lg : Log) :
    pulls q (runScript (It.take n (machineF fuel q)) cs (s0, 0) lg).2.1.1
      ≤ width q * (n.toNat + panics (runScript (It.take n (machineF fuel q)) cs (s0, 0) lg).1) + lookahead q := by
  have hq := stepB fuel q hl
  have hs := take_stepB_gen n hq (width q) (Int.natCast_nonneg _) (Int.le_refl _)
  have h := runScript_stepB hs cs (s0, 0) lg
  have hi := take_counter_le n (machineF fuel q) cs s0 0 lg (Nat.zero_le _)
  generalize runScript (It.take n (machineF fuel q)) cs (s0, 0) lg = res at h hi ⊢
  have hh := held_le_lookahead q res.2.1.1
  simp only [pot] at h
  have hmul : (width q : Int) * (res.2.1.2 : Int) ≤ (width q : Int) * (n.toNat : Int) :=
    Int.mul_le_mul_of_nonneg_left (Int.ofNat_le.mpr hi) (Int.natCast_nonneg _)
  have : ((pulls q res.2.1.1 : Nat) : Int) ≤ ((width q * (n.toNat + panics res.1) + lookahead q : Nat) : Int) := by
    rw [Int.natCast_add, Int.natCast_mul, Int.natCast_add, Int.mul_add]
    have e0 : ((pulls q s0 : Nat) : Int) = ((held q s0 : Nat) : Int) := by rw [h0]
    simp only [Int.sub_self, Int.zero_mul, Int.add_zero, Int.natCast_zero, Int.mul_zero, Int.sub_zero] at h
    omega
  exact Int.ofNat_le.mp this

end Pipe
end FpVerif.It
