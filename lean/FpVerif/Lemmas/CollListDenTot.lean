import FpVerif.Lemmas.CollListDenTy
/-!
# Lazy list over `El`: every operation of the model is totally correct on a well-typed heap

Port of `Lemmas/ListTot.lean`: `TotAll fuel` for the twelve mutually recursive functions of
`Model/CollList.lean`, by induction on the fuel.
-/
namespace FpVerif.Coll
open FpVerif.It IM
open FpVerif.LL (push_get_lt set_get_same set_get_other push_cases set_cases size_set! get_lt)

structure TotAll (fuel : Nat) : Prop where
  isEmpty : ∀ S hp l d K, Cons S hp → VDen S l d K → K ≤ fuel → Quiet K S hp →
    Spec (Coll.isEmpty fuel l) S hp (fun _ b => b = d.isEmpty)
  head : ∀ S hp l d K x, Cons S hp → VDen S l d K → d.head? = some x → K ≤ fuel → Quiet K S hp →
    Spec (Coll.head fuel l) S hp (fun _ v => v = x)
  tail : ∀ S hp l d K, Cons S hp → VDen S l d K → d.isEmpty = false → K ≤ fuel → Quiet K S hp →
    Spec (Coll.tail fuel l) S hp (fun S' t => VDen S' t d.tail K)
  headOpt : ∀ S hp l d K, Cons S hp → VDen S l d K → K + 1 ≤ fuel → Quiet K S hp →
    Spec (Coll.headOpt fuel l) S hp (fun _ o => o = d.head?)
  forceH : ∀ S hp c, Cons S hp → c < S.nh → (S.hs c).need ≤ fuel → Quiet ((S.hs c).need + 1) S hp →
    Spec (Coll.forceH fuel c) S hp (fun _ o => o = (S.hs c).o)
  forceT : ∀ S hp c d, Cons S hp → c < S.nt → (S.ts c).d = some d → (S.ts c).need ≤ fuel →
    Quiet ((S.ts c).need + 1) S hp →
    Spec (Coll.forceT fuel c) S hp (fun S' v => VDen S' v d (S.ts c).K)
  forceL : ∀ S hp c, Cons S hp → c < S.nl → (S.ls c).need ≤ fuel → Quiet ((S.ls c).need + 1) S hp →
    Spec (Coll.forceL fuel c) S hp (fun S' v => VDen S' v (S.ls c).xs (S.ls c).K)
  applyK : ∀ S hp k kd Bi y, Cons S hp → KOK S k kd Bi y → 1 ≤ fuel →
    Spec (Coll.applyK fuel k y) S hp (fun S' v => VDen S' v (kd y) Bi)
  runH : ∀ S hp t ty, Cons S hp → HThunkOK S t ty → 2 ≤ ty.need → ty.need ≤ fuel + 1 → Quiet ty.need S hp →
    Spec (Coll.runH fuel t) S hp (fun _ o => o = ty.o)
  runT : ∀ S hp t d need K, Cons S hp → TThunkOK S t d need K → 2 ≤ need → need ≤ fuel + 1 →
    Quiet need S hp → Spec (Coll.runT fuel t) S hp (fun S' v => VDen S' v d K)
  flatMap : ∀ S hp opt k kd ys Ks Bi, Cons S hp → VDen S opt ys Ks → (∀ y, y ∈ ys → KOK S k kd Bi y) → 1 ≤ Bi →
    FMB Ks Bi ys.length ≤ fuel → Quiet (FMB Ks Bi ys.length) S hp →
    Spec (Coll.flatMap fuel opt k) S hp (fun S' v => VDen S' v (ys.flatMap kd) (FMB Ks Bi ys.length))
  combine : ∀ S hp l1 l2 xs ys K1 K2, Cons S hp → VDen S l1 xs K1 → VDen S l2 ys K2 →
    K1 + 1 ≤ fuel → Quiet K1 S hp →
    Spec (Coll.combine fuel l1 l2) S hp (fun S' v => VDen S' v (xs ++ ys) (max (K1 + 4) K2))

/-! ## small facts -/

theorem cell_of_lt {C : Type} (a : Array C) (c : Nat) (h : c < a.size) : ∃ x, a[c]? = some x :=
  ⟨a[c], by simp [h]⟩

theorem head?_isNone (d : List El) : d.head?.isNone = d.isEmpty := by cases d <;> rfl

theorem head?_none {d : List El} (h : d.isEmpty = true) : d.head? = none := by
  cases d with
  | nil => rfl
  | cons a as => cases h

theorem tailTy_some {d d' : List El} (h : tailTy d = some d') : d.isEmpty = false ∧ d' = d.tail := by
  unfold tailTy at h
  split at h
  · cases h
  · next hne => cases h; exact ⟨by simpa using hne, rfl⟩

attribute [local irreducible] Coll.isEmpty Coll.head Coll.tail Coll.headOpt Coll.forceH Coll.forceT Coll.forceL
  Coll.applyK Coll.runH Coll.runT Coll.flatMap Coll.combine

/-! ## the interface operations -/

theorem tot_isEmpty {n : Nat} (ih : TotAll n) : ∀ S hp l d K, Cons S hp → VDen S l d K → K ≤ n + 1 → Quiet K S hp →
    Spec (Coll.isEmpty (n + 1) l) S hp (fun _ b => b = d.isEmpty) := by
  intro S hp l d K hC hV hK hQ
  cases l with
  | nil =>
    rw [Coll.isEmpty]
    · exact Spec.pure hC _ (by rw [hV.1]; rfl)
    · exact fun h => absurd h (Nat.succ_ne_zero _)
  | seq xs =>
    rw [Coll.isEmpty]
    · exact Spec.pure hC _ (by rw [hV.1])
    · exact fun h => absurd h (Nat.succ_ne_zero _)
  | adaptor hc tc =>
    obtain ⟨h1, h2, h3, _⟩ := hV
    rw [Coll.isEmpty]
    refine Spec.bind (ih.forceH S hp hc hC h1 (by omega) (hQ.mono (by omega))) (fun o S1 hp1 hP ho => ?_)
    subst ho
    exact Spec.pure hP.cons _ (by rw [h2]; exact head?_isNone d)

theorem tot_head {n : Nat} (ih : TotAll n) : ∀ S hp l d K x, Cons S hp → VDen S l d K → d.head? = some x →
    K ≤ n + 1 → Quiet K S hp → Spec (Coll.head (n + 1) l) S hp (fun _ v => v = x) := by
  intro S hp l d K x hC hV hx hK hQ
  cases l with
  | nil => rw [hV.1] at hx; cases hx
  | seq xs =>
    rw [hV.1] at hx
    cases xs with
    | nil => cases hx
    | cons y ys =>
      rw [Coll.head]
      · exact Spec.pure hC _ (by simpa using hx)
      · exact fun h => absurd h (Nat.succ_ne_zero _)
  | adaptor hc tc =>
    obtain ⟨h1, h2, h3, _⟩ := hV
    rw [Coll.head]
    refine Spec.bind (ih.forceH S hp hc hC h1 (by omega) (hQ.mono (by omega))) (fun o S1 hp1 hP ho => ?_)
    rw [h2, hx] at ho
    subst ho
    exact Spec.pure hP.cons _ rfl

theorem tot_tail {n : Nat} (ih : TotAll n) : ∀ S hp l d K, Cons S hp → VDen S l d K → d.isEmpty = false →
    K ≤ n + 1 → Quiet K S hp → Spec (Coll.tail (n + 1) l) S hp (fun S' t => VDen S' t d.tail K) := by
  intro S hp l d K hC hV hne hK hQ
  cases l with
  | nil => rw [hV.1] at hne; cases hne
  | seq xs =>
    obtain ⟨hd, hk⟩ := hV
    rw [hd] at hne
    cases xs with
    | nil => cases hne
    | cons y ys =>
      rw [Coll.tail]
      · exact Spec.pure hC _ (by rw [hd]; exact ⟨rfl, hk⟩)
      · exact fun h => absurd h (Nat.succ_ne_zero _)
  | adaptor hc tc =>
    obtain ⟨_, _, _, h4⟩ := hV
    obtain ⟨t1, t2, t3, t4⟩ := h4 hne
    rw [Coll.tail]
    exact (ih.forceT S hp tc d.tail hC t1 t2 (by omega) (hQ.mono (by omega))).weaken
      (fun S' v _ hv => hv.monoK t4)

theorem tot_headOpt {n : Nat} (ih : TotAll n) : ∀ S hp l d K, Cons S hp → VDen S l d K → K + 1 ≤ n + 1 →
    Quiet K S hp → Spec (Coll.headOpt (n + 1) l) S hp (fun _ o => o = d.head?) := by
  intro S hp l d K hC hV hK hQ
  rw [Coll.headOpt]
  refine Spec.bind (ih.isEmpty S hp l d K hC hV (by omega) hQ) (fun b S1 hp1 hP hb => ?_)
  subst hb
  cases d with
  | nil =>
    simp only [List.isEmpty_nil, if_true]
    exact Spec.pure hP.cons _ rfl
  | cons x xs =>
    simp only [List.isEmpty_cons, Bool.false_eq_true, if_false]
    refine Spec.bind (ih.head S1 hp1 l (x :: xs) K x hP.cons (hV.ext hP.ext) rfl (by omega) (hQ.post hC hP))
      (fun v S2 hp2 hP2 hv => ?_)
    subst hv
    exact Spec.pure hP2.cons _ rfl

/-! ## forcing a memo cell -/

theorem RunSub.forcedH {hp hp2 : Heap} {c m m' : Nat} {v : Option El}
    (h : RunSub hp2 { hp with hs := hp.hs.set! c (.running, m) }) :
    RunSub { hp2 with hs := hp2.hs.set! c (.done v, m') } hp := by
  refine ⟨fun i k hi => ?_, h.ts, h.ls⟩
  rcases set_cases hi with ⟨hne, hi⟩ | ⟨_, _, hx⟩
  · obtain ⟨k', hk'⟩ := h.hs i k hi
    rcases set_cases hk' with ⟨_, hk'⟩ | ⟨he, _, _⟩
    · exact ⟨k', hk'⟩
    · exact absurd he hne
  · cases hx

theorem RunSub.forcedT {hp hp2 : Heap} {c m m' : Nat} {v : LV}
    (h : RunSub hp2 { hp with ts := hp.ts.set! c (.running, m) }) :
    RunSub { hp2 with ts := hp2.ts.set! c (.done v, m') } hp := by
  refine ⟨h.hs, fun i k hi => ?_, h.ls⟩
  rcases set_cases hi with ⟨hne, hi⟩ | ⟨_, _, hx⟩
  · obtain ⟨k', hk'⟩ := h.ts i k hi
    rcases set_cases hk' with ⟨_, hk'⟩ | ⟨he, _, _⟩
    · exact ⟨k', hk'⟩
    · exact absurd he hne
  · cases hx

theorem RunSub.forcedL {hp hp2 : Heap} {c m m' : Nat} {v : LV}
    (h : RunSub hp2 { hp with ls := hp.ls.set! c (.running, m) }) :
    RunSub { hp2 with ls := hp2.ls.set! c (.done v, m') } hp := by
  refine ⟨h.hs, h.ts, fun i k hi => ?_⟩
  rcases set_cases hi with ⟨hne, hi⟩ | ⟨_, _, hx⟩
  · obtain ⟨k', hk'⟩ := h.ls i k hi
    rcases set_cases hk' with ⟨_, hk'⟩ | ⟨he, _, _⟩
    · exact ⟨k', hk'⟩
    · exact absurd he hne
  · cases hx

theorem Quiet.runningH {S : Sty} {hp : Heap} {c m : Nat} (h : Quiet ((S.hs c).need + 1) S hp) :
    Quiet (S.hs c).need S { hp with hs := hp.hs.set! c (.running, m) } := by
  refine ⟨fun i k hi => ?_, fun i k hi => Nat.le_trans (Nat.le_succ _) (h.ts i k hi),
    fun i k hi => Nat.le_trans (Nat.le_succ _) (h.ls i k hi)⟩
  rcases set_cases hi with ⟨_, hi⟩ | ⟨he, _, _⟩
  · exact Nat.le_trans (Nat.le_succ _) (h.hs i k hi)
  · rw [he]; exact Nat.le_refl _

theorem Quiet.runningT {S : Sty} {hp : Heap} {c m : Nat} (h : Quiet ((S.ts c).need + 1) S hp) :
    Quiet (S.ts c).need S { hp with ts := hp.ts.set! c (.running, m) } := by
  refine ⟨fun i k hi => Nat.le_trans (Nat.le_succ _) (h.hs i k hi), fun i k hi => ?_,
    fun i k hi => Nat.le_trans (Nat.le_succ _) (h.ls i k hi)⟩
  rcases set_cases hi with ⟨_, hi⟩ | ⟨he, _, _⟩
  · exact Nat.le_trans (Nat.le_succ _) (h.ts i k hi)
  · rw [he]; exact Nat.le_refl _

theorem Quiet.runningL {S : Sty} {hp : Heap} {c m : Nat} (h : Quiet ((S.ls c).need + 1) S hp) :
    Quiet (S.ls c).need S { hp with ls := hp.ls.set! c (.running, m) } := by
  refine ⟨fun i k hi => Nat.le_trans (Nat.le_succ _) (h.hs i k hi),
    fun i k hi => Nat.le_trans (Nat.le_succ _) (h.ts i k hi), fun i k hi => ?_⟩
  rcases set_cases hi with ⟨_, hi⟩ | ⟨he, _, _⟩
  · exact Nat.le_trans (Nat.le_succ _) (h.ls i k hi)
  · rw [he]; exact Nat.le_refl _

theorem tot_forceH {n : Nat} (ih : TotAll n) : ∀ S hp c, Cons S hp → c < S.nh → (S.hs c).need ≤ n + 1 →
    Quiet ((S.hs c).need + 1) S hp → Spec (Coll.forceH (n + 1) c) S hp (fun _ o => o = (S.hs c).o) := by
  intro S hp c hC hc hn hQ lg
  obtain ⟨⟨cell, m⟩, hcell⟩ := cell_of_lt hp.hs c (by rw [← hC.nh]; exact hc)
  obtain ⟨h2, hok⟩ := hC.hs c cell m hcell
  cases cell with
  | done v => exact ⟨v, S, hp, lg, forceH_done n c hp lg v m hcell, Post.refl hC, hok⟩
  | running => exact absurd (hQ.hs c m hcell) (by omega)
  | pending t =>
    have hC1 : Cons S { hp with hs := hp.hs.set! c (.running, m + 1) } := hC.setH c .running (m + 1) trivial
    obtain ⟨o, S2, hp2, lg2, e2, hP2, ho⟩ := ih.runH S _ t (S.hs c) hC1 hok h2 hn hQ.runningH lg
    refine ⟨o, S2, { hp2 with hs := hp2.hs.set! c (.done o, m + 1) }, lg2, ?_, ⟨?_, hP2.ext, hP2.run.forcedH⟩, ho⟩
    · rw [Coll.forceH]
      simp only [bind_apply, get_apply, hcell, modify_apply, e2, pure_apply]
    · refine hP2.cons.setH c (.done o) (m + 1) ?_
      show o = (S2.hs c).o
      rw [hP2.ext.hs c hc]; exact ho

theorem tot_forceT {n : Nat} (ih : TotAll n) : ∀ S hp c d, Cons S hp → c < S.nt → (S.ts c).d = some d →
    (S.ts c).need ≤ n + 1 → Quiet ((S.ts c).need + 1) S hp →
    Spec (Coll.forceT (n + 1) c) S hp (fun S' v => VDen S' v d (S.ts c).K) := by
  intro S hp c d hC hc hd hn hQ lg
  obtain ⟨⟨cell, m⟩, hcell⟩ := cell_of_lt hp.ts c (by rw [← hC.nt]; exact hc)
  obtain ⟨h2, hok⟩ := hC.ts c cell m hcell
  cases cell with
  | done v => exact ⟨v, S, hp, lg, forceT_done n c hp lg v m hcell, Post.refl hC, hok d hd⟩
  | running => exact absurd (hQ.ts c m hcell) (by omega)
  | pending t =>
    have hC1 : Cons S { hp with ts := hp.ts.set! c (.running, m + 1) } :=
      hC.setT c .running (m + 1) trivial
    obtain ⟨v, S2, hp2, lg2, e2, hP2, hv⟩ :=
      ih.runT S _ t d (S.ts c).need (S.ts c).K hC1 (hok d hd) h2 hn hQ.runningT lg
    refine ⟨v, S2, { hp2 with ts := hp2.ts.set! c (.done v, m + 1) }, lg2, ?_, ⟨?_, hP2.ext, hP2.run.forcedT⟩, hv⟩
    · rw [Coll.forceT]
      simp only [bind_apply, get_apply, hcell, modify_apply, e2, pure_apply]
    · refine hP2.cons.setT c (.done v) (m + 1) ?_
      intro d' hd'
      rw [hP2.ext.ts c hc] at hd' ⊢
      rw [hd] at hd'; cases hd'
      exact hv

theorem tot_forceL {n : Nat} (ih : TotAll n) : ∀ S hp c, Cons S hp → c < S.nl → (S.ls c).need ≤ n + 1 →
    Quiet ((S.ls c).need + 1) S hp →
    Spec (Coll.forceL (n + 1) c) S hp (fun S' v => VDen S' v (S.ls c).xs (S.ls c).K) := by
  intro S hp c hC hc hn hQ lg
  obtain ⟨⟨cell, m⟩, hcell⟩ := cell_of_lt hp.ls c (by rw [← hC.nl]; exact hc)
  obtain ⟨h2, hok⟩ := hC.ls c cell m hcell
  cases cell with
  | done v => exact ⟨v, S, hp, lg, forceL_done n c hp lg v m hcell, Post.refl hC, hok⟩
  | running => exact absurd (hQ.ls c m hcell) (by omega)
  | pending t =>
    obtain ⟨opt, k⟩ := t
    obtain ⟨kd, y, ys, Ks, hV, hxs, hneed, hK⟩ := hok
    have hKs := hV.pos
    have hC1 : Cons S { hp with ls := hp.ls.set! c (.running, m + 1) } := hC.setL c .running (m + 1) trivial
    have hQ1 := hQ.runningL (m := m + 1)
    obtain ⟨x, S1, hp1, lg1, e1, hP1, hx⟩ :=
      ih.head S _ opt (y :: ys) Ks y hC1 hV rfl (by omega) (hQ1.mono (by omega)) lg
    subst hx
    obtain ⟨v, S2, hp2, lg2, e2, hP2, hv⟩ :=
      ih.applyK S1 hp1 k kd (S.ls c).K x hP1.cons (hK.mono hP1.ext) (by omega) lg1
    have hP := hP1.trans hP2
    refine ⟨v, S2, { hp2 with ls := hp2.ls.set! c (.done v, m + 1) }, lg2, ?_, ⟨?_, hP.ext, hP.run.forcedL⟩, ?_⟩
    · rw [Coll.forceL]
      simp only [bind_apply, get_apply, hcell, modify_apply, e1, e2, pure_apply]
    · refine hP.cons.setL c (.done v) (m + 1) ?_
      show VDen S2 v (S2.ls c).xs (S2.ls c).K
      rw [hP.ext.ls c hc, hxs]; exact hv
    · rw [hxs]; exact hv

/-! ## the `MakeList` calls of the library, typed -/

theorem spec_mkMap {S : Sty} {hp : Heap} (hC : Cons S hp) {opt : LV} {fn : Fn} {xs : List El} {Ko : Nat}
    (hV : VDen S opt xs Ko) (hf : fn.Tot) :
    Spec (lMap opt fn) S hp (fun S' v => VDen S' v (xs.map (fnP fn)) (Ko + 4)) := by
  unfold lMap
  refine (spec_makeList (h := .map opt fn) (t := .map opt fn) (hty := ⟨(xs.head?).map (fnP fn), Ko + 3⟩)
    (tty := ⟨tailTy (xs.map (fnP fn)), Ko + 2, Ko + 4⟩) hC ⟨xs, Ko, hV, hf, rfl, Nat.le_refl _⟩
    (by simp only; omega) ?_ (by simp only; omega)).weaken ?_
  · intro d' hd'
    obtain ⟨hne, rfl⟩ := tailTy_some hd'
    cases xs with
    | nil => cases hne
    | cons x xs' => exact ⟨x, xs', Ko, hV, hf, rfl, Nat.le_refl _, Nat.le_refl _⟩
  · rintro S' v _ ⟨rfl, rfl⟩
    exact VDen.fresh S _ _ _ _ (by cases xs <;> rfl) (by simp only; omega) rfl (by simp only; omega) (Nat.le_refl _)

theorem tot_applyK {n : Nat} (_ih : TotAll n) : ∀ S hp k kd Bi y, Cons S hp → KOK S k kd Bi y → 1 ≤ n + 1 →
    Spec (Coll.applyK (n + 1) k y) S hp (fun S' v => VDen S' v (kd y) Bi) := by
  intro S hp k kd Bi y hC hK _
  cases k with
  | user f =>
    obtain ⟨hf, hB⟩ := hK
    rw [Coll.applyK]
    refine Spec.bind (Spec.liftG (Q := fun _ o => o = kd y) hC hf rfl) (fun o S1 hp1 hP1 ho => ?_)
    subst ho
    exact Spec.pure hP1.cons _ ⟨rfl, hB⟩
  | ident =>
    obtain ⟨⟨tag, xs, rfl, hkd⟩, hB⟩ := hK
    rw [Coll.applyK]
    exact Spec.pure hC _ ⟨hkd, hB⟩
  | apInner a =>
    obtain ⟨xs, Ka, f, hV, rfl, hf, hkd, hB⟩ := hK
    rw [Coll.applyK]
    rw [hkd]
    exact (spec_mkMap hC hV hf).weaken (fun S' v _ hv => hv.monoK hB)
  | map2Inner b g =>
    obtain ⟨xs, Kb, hV, hf, hkd, hB⟩ := hK
    rw [Coll.applyK]
    rw [hkd]
    exact (spec_mkMap hC hV hf).weaken (fun S' v _ hv => hv.monoK hB)

/-! ## the bodies of the `getHead` closures -/

theorem tot_runH {n : Nat} (ih : TotAll n) : ∀ S hp t ty, Cons S hp → HThunkOK S t ty → 2 ≤ ty.need →
    ty.need ≤ n + 1 + 1 → Quiet ty.need S hp → Spec (Coll.runH (n + 1) t) S hp (fun _ o => o = ty.o) := by
  intro S hp t ty hC hOK h2 hn hQ
  cases t with
  | map opt fn =>
    obtain ⟨xs, K, hV, hf, ho, hk⟩ := hOK
    rw [Coll.runH]
    refine Spec.bind (ih.headOpt S hp opt _ K hC hV (by omega) (hQ.mono (by omega))) (fun o S1 hp1 hP1 ho1 => ?_)
    subst ho1
    cases xs with
    | nil => exact Spec.pure hP1.cons _ ho.symm
    | cons x xs' =>
      refine Spec.bind (Spec.liftG (Q := fun _ u => u = fnP fn x) hP1.cons (hf x) rfl) (fun u S2 hp2 hP2 hu => ?_)
      subst hu
      exact Spec.pure hP2.cons _ ho.symm
  | flatMap lz tl k =>
    obtain ⟨kd, y, ys, Ks, Bi, hF, ho, hneed⟩ := hOK
    have hFMB : FMB Ks Bi ys.length = Ks + Bi + 4 * ys.length + 4 := rfl
    have hFn := hF.hneed
    have hB1 := hF.hBi
    rw [Coll.runH]
    refine Spec.bind (ih.forceL S hp lz hC hF.hlz (by omega) (hQ.mono (by omega))) (fun hl S1 hp1 hP1 hV1 => ?_)
    rw [hF.hxs] at hV1
    have hV1' := hV1.monoK hF.hK
    have hQ1 := hQ.post hC hP1
    refine Spec.bind (ih.isEmpty S1 hp1 hl _ Bi hP1.cons hV1' (by omega) (hQ1.mono (by omega)))
      (fun b S2 hp2 hP2 hb => ?_)
    subst hb
    have hP12 := hP1.trans hP2
    have hQ2 := hQ.post hC hP12
    cases hden : kd y with
    | nil =>
      rw [hden] at ho
      simp only [List.isEmpty_nil, if_true]
      refine Spec.bind (ih.flatMap S2 hp2 tl k kd ys Ks Bi hP2.cons (hF.htl.ext hP12.ext)
        (fun y' hy' => (hF.hk y' hy').mono hP12.ext) hB1 (by omega) (hQ2.mono (by omega)))
        (fun rest S3 hp3 hP3 hV3 => ?_)
      exact (ih.headOpt S3 hp3 rest _ _ hP3.cons hV3 (by omega)
        ((hQ.post hC (hP12.trans hP3)).mono (by omega))).weaken (fun S' o _ ho' => by rw [ho', ho]; rfl)
    | cons v rest =>
      rw [hden] at ho hV1'
      simp only [List.isEmpty_cons, Bool.false_eq_true, if_false]
      refine Spec.bind (ih.head S2 hp2 hl _ Bi v hP2.cons (hV1'.ext hP2.ext) rfl (by omega) (hQ2.mono (by omega)))
        (fun w S3 hp3 hP3 hw => ?_)
      subst hw
      exact Spec.pure hP3.cons _ ho.symm
  | combine l1 =>
    obtain ⟨x, xs, K, hV, ho, hk⟩ := hOK
    rw [Coll.runH]
    refine Spec.bind (ih.head S hp l1 _ K x hC hV rfl (by omega) (hQ.mono (by omega))) (fun w S1 hp1 hP1 hw => ?_)
    subst hw
    exact Spec.pure hP1.cons _ ho.symm

/-! ## the bodies of the `getTail` closures -/

theorem tot_runT {n : Nat} (ih : TotAll n) : ∀ S hp t d need K, Cons S hp → TThunkOK S t d need K →
    2 ≤ need → need ≤ n + 1 + 1 → Quiet need S hp →
    Spec (Coll.runT (n + 1) t) S hp (fun S' v => VDen S' v d K) := by
  intro S hp t d need K hC hOK h2 hn hQ
  cases t with
  | map opt fn =>
    obtain ⟨x, xs, Ko, hV, hf, hd, hn', hK⟩ := hOK
    subst hd
    rw [Coll.runT]
    refine Spec.bind (ih.tail S hp opt _ Ko hC hV rfl (by omega) (hQ.mono (by omega))) (fun t S1 hp1 hP1 hVt => ?_)
    exact (spec_mkMap hP1.cons hVt hf).weaken (fun S' v _ hv => hv.monoK hK)
  | flatMap lz tl k =>
    obtain ⟨kd, y, ys, Ks, Bi, hF, hne, hd, hneed, hK⟩ := hOK
    subst hd
    have hFMB : FMB Ks Bi ys.length = Ks + Bi + 4 * ys.length + 4 := rfl
    have hFn := hF.hneed
    have hFK := hF.hK
    have hB1 := hF.hBi
    rw [Coll.runT]
    refine Spec.bind (ih.forceL S hp lz hC hF.hlz (by omega) (hQ.mono (by omega))) (fun hl S1 hp1 hP1 hV1 => ?_)
    rw [hF.hxs] at hV1
    have hV1' := hV1.monoK hF.hK
    have hQ1 := hQ.post hC hP1
    refine Spec.bind (ih.isEmpty S1 hp1 hl _ Bi hP1.cons hV1' (by omega) (hQ1.mono (by omega)))
      (fun b S2 hp2 hP2 hb => ?_)
    subst hb
    have hP12 := hP1.trans hP2
    have hQ2 := hQ.post hC hP12
    cases hden : kd y with
    | nil =>
      rw [hden] at hne
      simp only [List.isEmpty_nil, if_true]
      refine Spec.bind (ih.flatMap S2 hp2 tl k kd ys Ks Bi hP2.cons (hF.htl.ext hP12.ext)
        (fun y' hy' => (hF.hk y' hy').mono hP12.ext) hB1
        (by omega) (hQ2.mono (by omega))) (fun rest S3 hp3 hP3 hV3 => ?_)
      have hne' : (ys.flatMap kd).isEmpty = false := by
        cases hfm : ys.flatMap kd with
        | nil => rw [hfm] at hne; exact absurd rfl hne
        | cons _ _ => rfl
      exact (ih.tail S3 hp3 rest _ _ hP3.cons hV3 hne' (by omega)
        ((hQ.post hC (hP12.trans hP3)).mono (by omega))).weaken (fun S' v _ hv => hv.monoK hK)
    | cons w rest =>
      rw [hden] at hV1'
      simp only [List.isEmpty_cons, Bool.false_eq_true, if_false]
      refine Spec.bind (ih.tail S2 hp2 hl _ Bi hP2.cons (hV1'.ext hP2.ext) rfl (by omega) (hQ2.mono (by omega)))
        (fun ht S3 hp3 hP3 hVt => ?_)
      have hP123 := hP12.trans hP3
      refine Spec.bind (ih.flatMap S3 hp3 tl k kd ys Ks Bi hP3.cons (hF.htl.ext hP123.ext)
        (fun y' hy' => (hF.hk y' hy').mono hP123.ext) hB1
        (by omega) ((hQ.post hC hP123).mono (by omega))) (fun rs S4 hp4 hP4 hV4 => ?_)
      have hP1234 := hP123.trans hP4
      refine (ih.combine S4 hp4 ht rs rest (ys.flatMap kd) Bi _ hP4.cons (hVt.ext hP4.ext) hV4 (by omega)
        ((hQ.post hC hP1234).mono (by omega))).weaken (fun S' v _ hv => ?_)
      exact hv.monoK (by omega)
  | combine l1 l2 =>
    obtain ⟨x, xs, ys, K1, K2, hV1, hV2, hd, hn', hK⟩ := hOK
    subst hd
    rw [Coll.runT]
    refine Spec.bind (ih.tail S hp l1 _ K1 hC hV1 rfl (by omega) (hQ.mono (by omega))) (fun lt S1 hp1 hP1 hVt => ?_)
    refine Spec.bind (ih.isEmpty S1 hp1 lt _ K1 hP1.cons hVt (by omega) ((hQ.post hC hP1).mono (by omega)))
      (fun b S2 hp2 hP2 hb => ?_)
    subst hb
    have hP12 := hP1.trans hP2
    cases xs with
    | nil =>
      simp only [List.tail_cons, List.isEmpty_nil, Bool.not_true, Bool.false_eq_true, if_false]
      exact Spec.pure hP2.cons _ ((hV2.ext hP12.ext).monoK (by omega))
    | cons x' xs' =>
      simp only [List.tail_cons, List.isEmpty_cons, Bool.not_false, if_true]
      exact (ih.combine S2 hp2 lt l2 _ ys K1 K2 hP2.cons (hVt.ext hP2.ext) (hV2.ext hP12.ext) (by omega)
        ((hQ.post hC hP12).mono (by omega))).weaken (fun S' v _ hv => hv.monoK hK)

/-! ## `list.FlatMap`, `list.Combine` -/

theorem tot_flatMap {n : Nat} (ih : TotAll n) : ∀ S hp opt k kd ys Ks Bi, Cons S hp → VDen S opt ys Ks →
    (∀ y, y ∈ ys → KOK S k kd Bi y) → 1 ≤ Bi →
    FMB Ks Bi ys.length ≤ n + 1 → Quiet (FMB Ks Bi ys.length) S hp →
    Spec (Coll.flatMap (n + 1) opt k) S hp (fun S' v => VDen S' v (ys.flatMap kd) (FMB Ks Bi ys.length)) := by
  intro S hp opt k kd ys Ks Bi hC hV hk hB1 hn hQ
  have hFMB : FMB Ks Bi ys.length = Ks + Bi + 4 * ys.length + 4 := rfl
  have hKs := hV.pos
  rw [Coll.flatMap]
  refine Spec.bind (ih.isEmpty S hp opt _ Ks hC hV (by omega) (hQ.mono (by omega))) (fun b S1 hp1 hP1 hb => ?_)
  subst hb
  cases ys with
  | nil =>
    simp only [List.isEmpty_nil, if_true]
    exact Spec.pure hP1.cons _ ⟨rfl, by omega⟩
  | cons y ys' =>
    simp only [List.isEmpty_cons, Bool.false_eq_true, if_false]
    have hky : KOK S1 k kd Bi y := (hk y (List.mem_cons_self ..)).mono hP1.ext
    refine Spec.bind (spec_allocLazy (opt := opt) (k := k) (lty := ⟨kd y, Ks + 1, Bi⟩) hP1.cons
      ⟨kd, y, ys', Ks, hV.ext hP1.ext, rfl, Nat.le_refl _, hky⟩ (by simp only; omega))
      (fun lz S2 hp2 hP2 hlz => ?_)
    obtain ⟨rfl, rfl⟩ := hlz
    have hP12 := hP1.trans hP2
    refine Spec.bind (ih.tail _ hp2 opt _ Ks hP2.cons (hV.ext hP12.ext) rfl (by omega)
      ((hQ.post hC hP12).mono (by omega))) (fun tl S3 hp3 hP3 hVtl => ?_)
    have hP123 := hP12.trans hP3
    have hF : FMOK S3 S1.nl tl k kd y ys' Ks Bi := by
      have hlt : S1.nl < (S1.pushL ⟨kd y, Ks + 1, Bi⟩).nl := by simp [Sty.pushL]
      have hls : S3.ls S1.nl = ⟨kd y, Ks + 1, Bi⟩ := by
        rw [hP3.ext.ls _ hlt]; simp [Sty.pushL]
      exact ⟨Nat.lt_of_lt_of_le hlt hP3.ext.nl, by rw [hls], by rw [hls]; simp only; omega, by rw [hls]; exact Nat.le_refl _,
        hVtl, fun y' hy' => (hk y' (List.mem_cons_of_mem _ hy')).mono hP123.ext, hB1⟩
    have hlen : (y :: ys').length = ys'.length + 1 := rfl
    rw [hlen] at hFMB hn hQ ⊢
    have hFMB' : FMB Ks Bi ys'.length = Ks + Bi + 4 * ys'.length + 4 := rfl
    refine (spec_makeList (h := .flatMap S1.nl tl k) (t := .flatMap S1.nl tl k)
      (hty := ⟨(kd y ++ ys'.flatMap kd).head?, FMB Ks Bi ys'.length + 3⟩)
      (tty := ⟨tailTy (kd y ++ ys'.flatMap kd), FMB Ks Bi ys'.length + 2, FMB Ks Bi ys'.length⟩) hP3.cons
      ⟨kd, y, ys', Ks, Bi, hF, rfl, Nat.le_refl _⟩ (by simp only; omega) ?_ (by simp only; omega)).weaken ?_
    · intro d' hd'
      obtain ⟨hne, rfl⟩ := tailTy_some hd'
      refine ⟨kd, y, ys', Ks, Bi, hF, ?_, rfl, Nat.le_refl _, Nat.le_refl _⟩
      intro he; rw [he] at hne; cases hne
    · rintro S' v _ ⟨rfl, rfl⟩
      exact VDen.fresh S3 ((y :: ys').flatMap kd) _ _ _ rfl (by simp only; omega) rfl (by simp only; omega)
        (by simp only; omega)

theorem tot_combine {n : Nat} (ih : TotAll n) : ∀ S hp l1 l2 xs ys K1 K2, Cons S hp → VDen S l1 xs K1 →
    VDen S l2 ys K2 → K1 + 1 ≤ n + 1 → Quiet K1 S hp →
    Spec (Coll.combine (n + 1) l1 l2) S hp (fun S' v => VDen S' v (xs ++ ys) (max (K1 + 4) K2)) := by
  intro S hp l1 l2 xs ys K1 K2 hC hV1 hV2 hn hQ
  rw [Coll.combine]
  refine Spec.bind (ih.isEmpty S hp l1 _ K1 hC hV1 (by omega) hQ) (fun b S1 hp1 hP1 hb => ?_)
  subst hb
  cases xs with
  | nil =>
    simp only [List.isEmpty_nil, if_true]
    exact Spec.pure hP1.cons _ ((hV2.ext hP1.ext).monoK (by omega))
  | cons x xs' =>
    simp only [List.isEmpty_cons, Bool.false_eq_true, if_false]
    refine (spec_makeList (h := .combine l1) (t := .combine l1 l2) (hty := ⟨some x, K1 + 2⟩)
      (tty := ⟨some (xs' ++ ys), K1 + 3, max (K1 + 4) K2⟩) hP1.cons
      ⟨x, xs', K1, hV1.ext hP1.ext, rfl, Nat.le_refl _⟩ (by simp only; omega) ?_ (by simp only; omega)).weaken ?_
    · intro d' hd'
      cases hd'
      exact ⟨x, xs', ys, K1, K2, hV1.ext hP1.ext, hV2.ext hP1.ext, rfl, Nat.le_refl _, Nat.le_refl _⟩
    · rintro S' v _ ⟨rfl, rfl⟩
      exact VDen.fresh S1 (x :: xs' ++ ys) _ _ _ rfl (by simp only; omega) rfl (by simp only; omega)
        (Nat.le_refl _)

/-! ## all functions, every fuel -/

theorem totAll : ∀ fuel, TotAll fuel := by
  intro fuel
  induction fuel with
  | zero =>
    refine ⟨?_, ?_, ?_, ?_, ?_, ?_, ?_, ?_, ?_, ?_, ?_, ?_⟩
    · intro S hp l d K _ hV hK; have := hV.pos; omega
    · intro S hp l d K x _ hV _ hK; have := hV.pos; omega
    · intro S hp l d K _ hV _ hK; have := hV.pos; omega
    · intro S hp l d K _ hV hK; omega
    · intro S hp c hC hc hn
      obtain ⟨⟨cell, m⟩, hcell⟩ := cell_of_lt hp.hs c (by rw [← hC.nh]; exact hc)
      have := (hC.hs c cell m hcell).1; omega
    · intro S hp c d hC hc _ hn
      obtain ⟨⟨cell, m⟩, hcell⟩ := cell_of_lt hp.ts c (by rw [← hC.nt]; exact hc)
      have := (hC.ts c cell m hcell).1; omega
    · intro S hp c hC hc hn
      obtain ⟨⟨cell, m⟩, hcell⟩ := cell_of_lt hp.ls c (by rw [← hC.nl]; exact hc)
      have := (hC.ls c cell m hcell).1; omega
    · intro S hp k kd Bi y _ _ hn; omega
    · intro S hp t ty _ _ h2 hn; omega
    · intro S hp t d need K _ _ h2 hn; omega
    · intro S hp opt k kd ys Ks Bi _ _ _ _ hn; simp only [FMB] at hn; omega
    · intro S hp l1 l2 xs ys K1 K2 _ _ _ hn; omega
  | succ n ih =>
    exact ⟨tot_isEmpty ih, tot_head ih, tot_tail ih, tot_headOpt ih, tot_forceH ih, tot_forceT ih, tot_forceL ih,
      tot_applyK ih, tot_runH ih, tot_runT ih, tot_flatMap ih, tot_combine ih⟩

end FpVerif.Coll
