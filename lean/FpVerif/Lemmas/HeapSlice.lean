import FpVerif.Lemmas.HeapAbs
/-!
Effects (`Eff`: which old cells an operation may have written) and the specifications of the slice
primitives of `Model/HamtHeap.lean` (`allocSlots`, `storeSlot`, `appendSlot`, `removeSlot`,
`insertSlot`).
-/
set_option linter.unusedSimpArgs false
set_option linter.unusedVariables false
namespace FpVerif.HamtHeap
open FpVerif.Hamt
variable {K V : Type} {α β : Type}

/-- `H'` is `H` with some new cells, and of the old cells only those in `W` may differ -/
structure Eff (H H' : Heap K V) (W : List Addr) : Prop where
  size_le : H.size ≤ H'.size
  frame : ∀ a, a < H.size → a ∉ W → H'[a]? = H[a]?

theorem Eff.refl (H : Heap K V) (W : List Addr) : Eff H H W := ⟨Nat.le_refl _, fun _ _ _ => rfl⟩

theorem Eff.of_le {H H' : Heap K V} (h : Heap.le H H') (W : List Addr) : Eff H H' W :=
  ⟨h.1, fun a ha _ => h.2 a ha⟩

theorem Eff.to_le {H H' : Heap K V} (h : Eff H H' []) : Heap.le H H' :=
  ⟨h.1, fun a ha => h.2 a ha (by simp)⟩

theorem Eff.mono {H H' : Heap K V} {W W' : List Addr} (h : Eff H H' W) (hs : ∀ a ∈ W, a < H.size → a ∈ W') :
    Eff H H' W' :=
  ⟨h.1, fun a ha hn => h.2 a ha (fun hw => hn (hs a hw ha))⟩

theorem Eff.trans {H1 H2 H3 : Heap K V} {W : List Addr} (h12 : Eff H1 H2 W) (h23 : Eff H2 H3 W) : Eff H1 H3 W :=
  ⟨Nat.le_trans h12.1 h23.1, fun a ha hn => by
    rw [h23.2 a (Nat.lt_of_lt_of_le ha h12.1) hn, h12.2 a ha hn]⟩

theorem Eff.push (H : Heap K V) (c : Cell K V) (W : List Addr) : Eff H (H.push c) W :=
  Eff.of_le (Heap.le_push H c) W

theorem Eff.set (H : Heap K V) (a : Addr) (c : Cell K V) {W : List Addr} (ha : a ∈ W) :
    Eff H (H.setIfInBounds a c) W :=
  ⟨by simp, fun b hb hn => get_set_ne c (fun h => hn (h ▸ ha))⟩

theorem Eff.get {H H' : Heap K V} {W : List Addr} (h : Eff H H' W) {a : Addr} {c : Cell K V}
    (hc : H[a]? = some c) (hn : a ∉ W) : H'[a]? = some c := by
  rw [h.2 a (lt_size_of_get hc) hn, hc]

/-- a sub-trie that the write set does not touch keeps its abstraction -/
theorem Eff.absF {H H' : Heap K V} {W : List Addr} (h : Eff H H' W) {f s : Nat} {p : Addr} {n : Node K V}
    {fp : List Addr} (habs : absF f s H p = some (n, fp)) (hd : ∀ a ∈ fp, a ∉ W) :
    HamtHeap.absF f s H' p = some (n, fp) :=
  absF_agree habs (fun a ha => h.2 a (absF_lt habs ha) (hd a ha))

-- allocSlots ---------------------------------------------------------------------------------------

theorem allocSlots_apply (xs : List (Slot K V)) (cap : Nat) (H : Heap K V) :
    allocSlots xs cap H = .ok (⟨H.size, xs.length⟩,
      H.push (.arr (xs.map some ++ List.replicate (cap - xs.length) none))) := rfl

theorem take_map_some_append {γ : Type} (xs : List γ) (t : List (Option γ)) :
    (xs.map some ++ t).take xs.length = xs.map some := by
  rw [List.take_append_of_le_length (by simp)]
  rw [List.take_of_length_le (by simp)]

theorem viewEnts_push (H : Heap K V) (es : List (K × V)) (t : List (Option (Slot K V))) :
    viewEnts (H.push (.arr ((entSlots es).map some ++ t))) ⟨H.size, (entSlots es).length⟩ = some es := by
  apply viewWith_intro (slots := (entSlots es).map some ++ t) (by simp) (by simp)
  rw [take_map_some_append, mapOpt_map, mapOpt_eq_some_iff]
  simp [entSlots, Slot.ent?]

theorem viewPtrs_push (H : Heap K V) (ps : List Addr) (t : List (Option (Slot K V))) :
    viewPtrs (H.push (.arr ((ptrSlots ps : List (Slot K V)).map some ++ t)))
      ⟨H.size, (ptrSlots ps : List (Slot K V)).length⟩ = some ps := by
  apply viewWith_intro (slots := (ptrSlots ps).map some ++ t) (by simp) (by simp)
  rw [take_map_some_append, mapOpt_map, mapOpt_eq_some_iff]
  simp [ptrSlots, Slot.ptr?]

@[simp] theorem entSlots_length (es : List (K × V)) : (entSlots es).length = es.length := by simp [entSlots]
@[simp] theorem ptrSlots_length (ps : List Addr) : (ptrSlots ps : List (Slot K V)).length = ps.length := by
  simp [ptrSlots]

-- in-place slice primitives ------------------------------------------------------------------------

/-- `s[i] = x` -/
theorem storeSlot_spec {g : Slot K V → Option β} {H : Heap K V} {sl : Slice} {xs : List β}
    (hv : viewWith g H sl = some xs) {i : Nat} (hi : i < xs.length) {x : Slot K V} {y : β} (hg : g x = some y) :
    ∃ H', storeSlot sl i x H = .ok ((), H') ∧ viewWith g H' sl = some (xs.set i y) ∧
      H'.size = H.size ∧ Eff H H' [sl.arr] := by
  obtain ⟨slots, hc, hle, hm⟩ := viewWith_eq_some hv
  have hlen := viewWith_length hv
  have harr := lt_size_of_get hc
  refine ⟨H.setIfInBounds sl.arr (.arr (slots.set i (some x))), ?_, ?_, by simp, Eff.set _ _ _ (by simp)⟩
  · unfold storeSlot
    rw [bind_ok (load_apply hc)]
    have : i < sl.len ∧ sl.len ≤ slots.length := ⟨by omega, hle⟩
    simp only [this, and_self, if_true]
    exact store_apply _ harr
  · apply viewWith_intro (slots := slots.set i (some x)) (get_set_eq _ harr) (by simpa using hle)
    have : (slots.set i (some x)).take sl.len = (slots.take sl.len).set i (some x) := by
      have : i < sl.len := by omega
      list_ext
    rw [this]
    exact mapOpt_set hm (by simp [hg])

/-- `append(s, x)` -/
theorem appendSlot_spec {g : Slot K V → Option β} {H : Heap K V} {sl : Slice} {xs : List β}
    (hv : viewWith g H sl = some xs) {x : Slot K V} {y : β} (hg : g x = some y) :
    ∃ sl' H', appendSlot sl (some x) H = .ok (sl', H') ∧ viewWith g H' sl' = some (xs ++ [y]) ∧
      Eff H H' [sl.arr] ∧ (sl'.arr = sl.arr ∨ (sl'.arr = H.size ∧ H'[sl.arr]? = H[sl.arr]?)) ∧
      sl'.arr < H'.size ∧ H'.size ≤ H.size + 1 := by
  obtain ⟨slots, hc, hle, hm⟩ := viewWith_eq_some hv
  have harr := lt_size_of_get hc
  unfold appendSlot
  rw [bind_ok (load_apply hc)]
  by_cases hlt : sl.len < slots.length
  · -- spare capacity: in place
    refine ⟨⟨sl.arr, sl.len + 1⟩, H.setIfInBounds sl.arr (.arr (slots.set sl.len (some x))), ?_, ?_,
      Eff.set _ _ _ (by simp), Or.inl rfl, by simpa using harr, by simp⟩
    · simp only [hlt, if_true]
      rw [bind_ok (store_apply _ harr)]; rfl
    · apply viewWith_intro (s := ⟨sl.arr, sl.len + 1⟩) (slots := slots.set sl.len (some x)) (get_set_eq _ harr)
        (by simp; omega)
      have : (slots.set sl.len (some x)).take (sl.len + 1) = slots.take sl.len ++ [some x] := by
        list_ext
      show mapOpt _ ((slots.set sl.len (some x)).take (sl.len + 1)) = _
      rw [this]
      exact mapOpt_append hm (by simp [mapOpt, hg])
  · have heq : sl.len = slots.length := by omega
    refine ⟨⟨H.size, sl.len + 1⟩, H.push (.arr (slots ++ some x :: List.replicate (growCap slots.length - slots.length - 1) none)),
      ?_, ?_, Eff.push _ _ _, Or.inr ⟨rfl, by rw [Array.getElem?_push]; simp [Nat.ne_of_lt harr]⟩, by simp, by simp⟩
    · simp only [if_neg hlt, if_pos heq]; rfl
    · apply viewWith_intro (s := ⟨H.size, sl.len + 1⟩)
        (slots := slots ++ some x :: List.replicate (growCap slots.length - slots.length - 1) none)
        (by simp) (by simp; omega)
      have : (slots ++ some x :: List.replicate (growCap slots.length - slots.length - 1) none).take (sl.len + 1)
          = slots.take sl.len ++ [some x] := by
        list_ext
      show mapOpt _ ((slots ++ some x :: List.replicate (growCap slots.length - slots.length - 1) none).take (sl.len + 1)) = _
      rw [this]
      exact mapOpt_append hm (by simp [mapOpt, hg])

theorem appendSlot_inplace {H : Heap K V} {sl : Slice} {slots : List (Option (Slot K V))}
    (hc : H[sl.arr]? = some (.arr slots)) (hlt : sl.len < slots.length) (x : Option (Slot K V)) :
    appendSlot sl x H = .ok (⟨sl.arr, sl.len + 1⟩, H.setIfInBounds sl.arr (.arr (slots.set sl.len x))) := by
  unfold appendSlot
  rw [bind_ok (load_apply hc)]
  simp only [if_pos hlt]
  rw [bind_ok (store_apply _ (lt_size_of_get hc))]; rfl

theorem appendSlot_grow {H : Heap K V} {sl : Slice} {slots : List (Option (Slot K V))}
    (hc : H[sl.arr]? = some (.arr slots)) (heq : sl.len = slots.length) (x : Option (Slot K V)) :
    appendSlot sl x H = .ok (⟨H.size, sl.len + 1⟩,
      H.push (.arr (slots ++ x :: List.replicate (growCap slots.length - slots.length - 1) none))) := by
  unfold appendSlot
  rw [bind_ok (load_apply hc)]
  have hlt : ¬ sl.len < slots.length := by omega
  simp only [if_neg hlt, if_pos heq]; rfl

theorem mapOpt_insert {g : α → Option β} {l : List α} {r : List β} (h : mapOpt g l = some r)
    {x : α} {y : β} (hx : g x = some y) (idx : Nat) :
    mapOpt g (l.take idx ++ x :: l.drop idx) = some (r.take idx ++ y :: r.drop idx) :=
  mapOpt_append (mapOpt_take h idx) (mapOpt_cons hx (mapOpt_drop h idx))

/-- `s = append(s, nil); copy(s[idx+1:], s[idx:]); s[idx] = x` -/
theorem insertSlot_spec {g : Slot K V → Option β} {H : Heap K V} {sl : Slice} {xs : List β}
    (hv : viewWith g H sl = some xs) {idx : Nat} (hidx : idx ≤ xs.length) {x : Slot K V} {y : β}
    (hg : g x = some y) :
    ∃ sl' H', insertSlot sl idx x H = .ok (sl', H') ∧
      viewWith g H' sl' = some (xs.take idx ++ y :: xs.drop idx) ∧
      Eff H H' [sl.arr] ∧ (sl'.arr = sl.arr ∨ sl'.arr = H.size) ∧ sl'.arr < H'.size ∧ H'.size ≤ H.size + 1 := by
  obtain ⟨slots, hc, hle, hm⟩ := viewWith_eq_some hv
  have hlen := viewWith_length hv
  have harr := lt_size_of_get hc
  have hG : (fun o : Option (Slot K V) => o.bind g) (some x) = some y := by simp [hg]
  unfold insertSlot
  by_cases hlt : sl.len < slots.length
  · -- spare capacity: everything happens inside the old backing array
    let slots1 := slots.set sl.len none
    let H1 := H.setIfInBounds sl.arr (.arr slots1)
    let fin := slots1.take idx ++ some x :: (slots1.take sl.len).drop idx ++ slots1.drop (sl.len + 1)
    have h1 : H1[sl.arr]? = some (.arr slots1) := get_set_eq _ harr
    have harr1 : sl.arr < H1.size := by simpa [H1] using harr
    refine ⟨⟨sl.arr, sl.len + 1⟩, H1.setIfInBounds sl.arr (.arr fin), ?_, ?_, ?_, Or.inl rfl,
      by simpa [H1] using harr, by simp [H1]⟩
    · rw [bind_ok (appendSlot_inplace hc hlt none)]
      rw [bind_ok (load_apply h1)]
      have : idx < sl.len + 1 ∧ sl.len + 1 ≤ slots1.length := ⟨by omega, by simp [slots1]; omega⟩
      simp only [this, and_self, if_true]
      rw [bind_ok (store_apply _ harr1)]; rfl
    · apply viewWith_intro (s := ⟨sl.arr, sl.len + 1⟩) (slots := fin) (get_set_eq _ harr1)
        (by simp [fin, slots1]; omega)
      have : fin.take (sl.len + 1) = (slots.take sl.len).take idx ++ some x :: (slots.take sl.len).drop idx := by
        simp only [fin, slots1]
        list_ext
      show mapOpt _ (fin.take (sl.len + 1)) = _
      rw [this]
      exact mapOpt_insert hm hG idx
    · exact Eff.trans (Eff.set _ _ _ (by simp)) (Eff.set _ _ _ (by simp))
  · have heq : sl.len = slots.length := by omega
    let slots1 := slots ++ none :: List.replicate (growCap slots.length - slots.length - 1) none
    let H1 := H.push (.arr slots1)
    let fin := slots1.take idx ++ some x :: (slots1.take sl.len).drop idx ++ slots1.drop (sl.len + 1)
    have h1 : H1[H.size]? = some (.arr slots1) := get_push_size _ _
    have harr1 : H.size < H1.size := by simp [H1]
    refine ⟨⟨H.size, sl.len + 1⟩, H1.setIfInBounds H.size (.arr fin), ?_, ?_, ?_, Or.inr rfl,
      by simp [H1], by simp [H1]⟩
    · rw [bind_ok (appendSlot_grow hc heq none)]
      rw [bind_ok (load_apply h1)]
      have : idx < sl.len + 1 ∧ sl.len + 1 ≤ slots1.length := ⟨by omega, by simp [slots1]; omega⟩
      simp only [this, and_self, if_true]
      rw [bind_ok (store_apply _ harr1)]; rfl
    · apply viewWith_intro (s := ⟨H.size, sl.len + 1⟩) (slots := fin) (get_set_eq _ harr1)
        (by simp [fin, slots1]; omega)
      have : fin.take (sl.len + 1) = (slots.take sl.len).take idx ++ some x :: (slots.take sl.len).drop idx := by
        simp only [fin, slots1]
        list_ext
      show mapOpt _ (fin.take (sl.len + 1)) = _
      rw [this]
      exact mapOpt_insert hm hG idx
    · refine ⟨by simp [H1], fun a ha _ => ?_⟩
      rw [get_set_ne _ (Nat.ne_of_gt ha)]
      exact (Heap.le_push H _).2 a ha

end FpVerif.HamtHeap
