import FpVerif.Lemmas.IterTerm
/-!
# How many elements the shared source of `Duplicate` / `Span` / `Partition` has handed out.

(AUDITFIX-B, audit finding 19.)  From `DupInv`: the source has delivered exactly what the side
that is further ahead has consumed.
-/
namespace FpVerif.It
open FpVerif

variable {σ α : Type}

/-- the source has delivered exactly `max |dL| |dR|` elements: the ones the side that is further
    ahead has consumed; both sides' consumed lists are prefixes of the same sequence -/
theorem dupRel_max {R : σ → List α → List α → Prop} {sc : σ × DupSt α} {dL rL dR rR : List α}
    (h : dupRel R sc dL rL dR rR) :
    ∃ d r, R sc.1 d r ∧ d.length = Nat.max dL.length dR.length ∧
      d ++ r = dL ++ rL ∧ d ++ r = dR ++ rR := by
  obtain ⟨d, r, hR, hI⟩ := h
  refine ⟨d, r, hR, ?_⟩
  simp only [DupInv] at hI
  by_cases hla : sc.2.leftAhead = true
  · simp only [hla, if_true] at hI
    obtain ⟨h1, h2, h3, h4⟩ := hI
    have hle : dR.length ≤ dL.length := by rw [h3]; simp
    refine ⟨?_, by rw [h1, h2], ?_⟩
    · rw [← h1]; exact (Nat.max_eq_left hle).symm
    · rw [h4, ← List.append_assoc, ← h3, h1]
  · simp only [hla] at hI
    obtain ⟨h1, h2, h3, h4⟩ := hI
    have hle : dL.length ≤ dR.length := by rw [h3]; simp
    refine ⟨?_, ?_, by rw [h1, h2]⟩
    · rw [← h1]; exact (Nat.max_eq_right hle).symm
    · rw [h4, ← List.append_assoc, ← h3, h1]

/-- how many source elements a `TakeWhile` holds beyond those it has delivered: the element parked
    in `fv` by `HasNext`, or the first failing element (which had to be pulled to be tested) -/
def TakeWhileSt.look (c : TakeWhileSt α) : Nat := if c.breaking || c.fv.isSome then 1 else 0

theorem TakeWhileInv.consumed {g : α → Bool} {c : TakeWhileSt α} {d r d' r' : List α}
    (h : TakeWhileInv g c d r d' r') : d.length = d'.length + c.look := by
  unfold TakeWhileInv at h
  unfold TakeWhileSt.look
  cases hb : c.breaking <;> cases hf : c.fv <;> simp [hb, hf] at h ⊢
  · rw [h.1]
  · rw [h.1]; simp
  · obtain ⟨⟨v, hv, _⟩, _⟩ := h; rw [hv]; simp

/-- what a `DropWhile` has consumed (`n` elements of the sequence `l` its source delivers), in
    terms of its captured variables and of what it will still deliver (`r'`) -/
def DropWhilePulled (g : α → Bool) (l : List α) (c : DropWhileSt α) (n : Nat) (r' : List α) : Prop :=
  n ≤ l.length ∧
  match c.found, c.first with
  | true, none => n + r'.length = l.length
  | true, some _ => n + r'.length = l.length + 1
  | false, _ => r' = (l.drop n).dropWhile g

theorem DropWhileInv.pulled {fuel : Nat} {g : α → Bool} {c : DropWhileSt α} {d r d' r' l : List α}
    (h : DropWhileInv fuel g c d r d' r') (hl : d ++ r = l) : DropWhilePulled g l c d.length r' := by
  unfold DropWhileInv at h
  obtain ⟨_, h⟩ := h
  subst hl
  refine ⟨by simp, ?_⟩
  cases hb : c.found <;> cases hf : c.first <;> simp [hb, hf] at h ⊢
  · exact h
  · rw [h]
  · rw [h]; simp; omega

/-- what a `Filter` has consumed: nothing before its first `HasNext`; afterwards it sits on the
    next matching element `v` (having consumed the shortest prefix that contains one match more
    than it has delivered), or has run to the end of the source -/
def FilterPulled (g : α → Bool) (l : List α) (c : FilterSt α) (n : Nat) (d' : List α) : Prop :=
  n ≤ l.length ∧
  match c.first, c.fv with
  | true, _ => n = 0
  | false, none => n = l.length
  | false, some v => (l.take n).filter g = d' ++ [v] ∧ (l.take n).getLast? = some v

theorem FilterInv.pulled {g : α → Bool} {c : FilterSt α} {d r d' r' l : List α}
    (h : FilterInv g c d r d' r') (hl : d ++ r = l) : FilterPulled g l c d.length d' := by
  unfold FilterInv at h
  subst hl
  refine ⟨by simp, ?_⟩
  cases hb : c.first <;> cases hf : c.fv <;> simp [hb, hf] at h ⊢
  · obtain ⟨rfl, _, _⟩ := h; simp
  · obtain ⟨⟨d0, rfl⟩, _, h3, _⟩ := h
    simp at h3 ⊢
    exact h3
  · exact h.1

/-- a simulation relation may carry along the whole sequence `l = delivered ++ rest` -/
theorem Sim.withTotal {m : Machine σ α} {R : σ → List α → List α → Prop} (hS : Sim m R)
    (l : List α) : Sim m (fun s d r => R s d r ∧ d ++ r = l) where
  hasNext := by
    rintro s d r lg ⟨hR, hl⟩
    obtain ⟨s', lg', h, hR'⟩ := hS.hasNext s d r lg hR
    exact ⟨s', lg', h, hR', hl⟩
  next_cons := by
    rintro s d a r lg ⟨hR, hl⟩
    obtain ⟨s', lg', h, hR'⟩ := hS.next_cons s d a r lg hR
    exact ⟨s', lg', h, hR', by simpa using hl⟩
  next_nil := by
    rintro s d lg ⟨hR, hl⟩
    obtain ⟨p, s', lg', h, hR'⟩ := hS.next_nil s d lg hR
    exact ⟨p, s', lg', h, hR', hl⟩

/-- from `d ++ r = l`: `d` and `r` are `take` / `drop` -/
theorem take_drop_of_append {d r l : List α} (h : d ++ r = l) :
    d = l.take d.length ∧ r = l.drop d.length := by
  subst h; simp

end FpVerif.It
