import FpVerif.Lemmas.HamtSet2
/-! `set` at the root: array node (update, append, expansion into a trie) and `Hamt.set`. -/
set_option linter.unusedSimpArgs false
set_option linter.unusedVariables false
namespace FpVerif.Hamt
variable {K V : Type} {h : Hasher K}

/-- what `set` must achieve on the root node -/
structure SetPostR (h : Hasher K) (n : Node K V) (k : K) (v : V) (r : Bool)
    (res : Node K V × Bool) : Prop where
  wf : WF h 0 res.1
  resized : res.2 = (r || (lookup h k n.toList).isNone)
  look : ∀ k', lookup h k' res.1.toList = if h.eqv k k' then some v else lookup h k' n.toList
  len : res.1.toList.length = n.toList.length + (if (lookup h k n.toList).isSome then 0 else 1)
  keys : ∀ e ∈ res.1.toList, (∃ e0 ∈ n.toList, e0.1 = e.1) ∨ e.1 = k

theorem SetPost.toR {n : Node K V} {k : K} {v : V} {r : Bool} {res : Node K V × Bool}
    (hp : SetPost h 0 n k v r res) : SetPostR h n k v r res :=
  ⟨hp.wf, hp.resized, hp.look, hp.len, hp.keys⟩

/-- the expansion loop of a full array node -/
theorem expand_fold (hl : LawfulHash h) {k : K} {v : V} :
    ∀ (Q P : List (K × V)) (N : Node K V), DistinctKeys h (P ++ Q) →
      (∀ e ∈ P ++ Q, h.eqv e.1 k = false) → WF h 0 N → (∀ es, N ≠ .array es) →
      (∀ k', lookup h k' N.toList = if h.eqv k k' then some v else lookup h k' P) →
      N.toList.length = P.length + 1 →
      (∀ e ∈ N.toList, (∃ e0 ∈ P, e0.1 = e.1) ∨ e.1 = k) →
      ∃ N', Q.foldlM (fun (acc : Node K V × Bool) entry =>
                acc.1.setTrie h entry.1 entry.2 0 (h.hash entry.1) false acc.2) (N, true) = .ok (N', true) ∧
        WF h 0 N' ∧ (∀ es, N' ≠ .array es) ∧
        (∀ k', lookup h k' N'.toList = if h.eqv k k' then some v else lookup h k' (P ++ Q)) ∧
        N'.toList.length = (P ++ Q).length + 1 ∧
        (∀ e ∈ N'.toList, (∃ e0 ∈ P ++ Q, e0.1 = e.1) ∨ e.1 = k) := by
  intro Q
  induction Q with
  | nil =>
    intro P N hd hno hwf hna hlook hlen hkeys
    exact ⟨N, rfl, hwf, hna, by simpa using hlook, by simpa using hlen, by simpa using hkeys⟩
  | cons e Q ih =>
    intro P N hd hno hwf hna hlook hlen hkeys
    obtain ⟨⟨N1, r1⟩, hset, hpost⟩ := setCore_spec hl (fun _ _ _ _ => throw "model: array node below the root")
      hwf hna e.1 e.2 false true (fun x _ => pfxEq_zero _ _)
    have hek : h.eqv e.1 k = false := hno e (by simp)
    have hke : h.eqv k e.1 = false := by rw [hl.eqv_comm]; exact hek
    have hd' := hd
    unfold DistinctKeys at hd'
    rw [List.pairwise_append, List.pairwise_cons] at hd'
    have hPe : ∀ x ∈ P, h.eqv x.1 e.1 = false := fun x hx => hd'.2.2 x hx e (by simp)
    have hnone : lookup h e.1 N.toList = none := by
      rw [hlook, hke]; simp [lookup_eq_none hPe]
    have hr1 : r1 = true := by have := hpost.resized; simpa using this
    subst hr1
    have hPQ : P ++ e :: Q = (P ++ [e]) ++ Q := by simp
    rw [hPQ] at hd hno
    obtain ⟨N', hfold, hwf', hna', hlook', hlen', hkeys'⟩ := ih (P ++ [e]) N1 hd hno hpost.wf hpost.notArray
      (by
        intro k'
        have := hpost.look k'
        simp only at this
        rw [this, hlook k', lookup_append, lookup_cons, lookup_nil]
        cases hek' : h.eqv e.1 k' with
        | true =>
          have h1 : h.eqv k k' = false := by rw [← hl.eqv_congr_right hek' k]; exact hke
          have h2 : lookup h k' P = none := lookup_eq_none (fun x hx => by rw [← hl.eqv_congr_right hek' x.1]; exact hPe x hx)
          simp [h1, h2]
        | false => simp)
      (by have := hpost.len; simp only at this; rw [this, hnone, hlen]; simp)
      (by
        intro x hx
        rcases hpost.keys x hx with ⟨e0, he0, heq⟩ | heq
        · rcases hkeys e0 he0 with ⟨e1, he1, heq1⟩ | heq1
          · exact Or.inl ⟨e1, by simp [he1], by rw [heq1, heq]⟩
          · exact Or.inr (by rw [← heq, heq1])
        · exact Or.inl ⟨e, by simp, heq.symm⟩)
    refine ⟨N', ?_, hwf', hna', ?_, ?_, ?_⟩
    · rw [List.foldlM_cons]
      have : Node.setTrie h N e.1 e.2 0 (h.hash e.1) false true = .ok (N1, true) := hset
      simp only [this, bind, Except.bind]
      exact hfold
    · rw [hPQ]; exact hlook'
    · rw [hPQ]; exact hlen'
    · rw [hPQ]; exact hkeys'

theorem Node.set_spec (hl : LawfulHash h) {n : Node K V} (hwf : WF h 0 n) (k : K) (v : V) (mu r : Bool) :
    ∃ res, n.set h k v 0 (h.hash k) mu r = .ok res ∧ SetPostR h n k v r res := by
  cases hwf with
  | value hkh =>
    obtain ⟨res, h1, h2⟩ := setCore_spec hl (expandArray h) (WF.value hkh) (by intro es; simp) k v mu r
      (fun _ _ => pfxEq_zero _ _)
    exact ⟨res, h1, h2.toR⟩
  | collision a b c =>
    obtain ⟨res, h1, h2⟩ := setCore_spec hl (expandArray h) (WF.collision a b c) (by intro es; simp) k v mu r
      (fun _ _ => pfxEq_zero _ _)
    exact ⟨res, h1, h2.toR⟩
  | bitmap a b c d e f g =>
    obtain ⟨res, h1, h2⟩ := setCore_spec hl (expandArray h) (WF.bitmap a b c d e f g) (by intro es; simp) k v mu r
      (fun _ _ => pfxEq_zero _ _)
    exact ⟨res, h1, h2.toR⟩
  | hashArray a b c d e f =>
    obtain ⟨res, h1, h2⟩ := setCore_spec hl (expandArray h) (WF.hashArray a b c d e f) (by intro es; simp) k v mu r
      (fun _ _ => pfxEq_zero _ _)
    exact ⟨res, h1, h2.toR⟩
  | @array _ es h0 hne hlen hd =>
    unfold Node.set
    rw [Node.setCore]
    cases hi : indexOf h es k with
    | some i =>
      obtain ⟨hlook, hlen', hdist, hsome, hkeys, hmem⟩ := replace_spec hl (v := v) hd hi
      refine ⟨(Node.array (es.set i (k, v)), r), by simp [pure, Except.pure], ?_, ?_, ?_, ?_, ?_⟩
      · exact WF.array rfl (by intro h0; have := congrArg List.length h0; simp at this; exact hne this) (by rw [hlen']; exact hlen) hdist
      · cases hlk : lookup h k es with
        | none => rw [hlk] at hsome; cases hsome
        | some x => simp [hlk]
      · simpa using hlook
      · cases hlk : lookup h k es with
        | none => rw [hlk] at hsome; cases hsome
        | some x => simp [hlk, hlen']
      · simpa using hkeys
    | none =>
      have hno : ∀ e ∈ es, h.eqv e.1 k = false := indexOf_none.mp hi
      by_cases hfull : es.length ≥ maxArrayMapSize
      · -- expansion
        obtain ⟨N', hfold, hwf', hna', hlook', hlen', hkeys'⟩ := expand_fold hl (k := k) (v := v) es [] (Node.value (h.hash k) k v)
          (by simpa using hd) (by simpa using hno) (WF.value rfl) (by intro es; simp)
          (by intro k'; simp [lookup_cons, lookup_nil]) (by simp) (by intro e he; simp at he; exact Or.inr (by rw [he]))
        refine ⟨(N', true), ?_, hwf', ?_, ?_, ?_, ?_⟩
        · have : decide (es.length ≥ maxArrayMapSize) = true := by simpa using hfull
          simp only [beq_self_eq_true, if_true, this, Bool.and_self, expandArray]
          exact hfold
        · simp [lookup_eq_none hno]
        · simpa using hlook'
        · simp [lookup_eq_none hno]; simpa using hlen'
        · simpa using hkeys'
      · refine ⟨(Node.array (es ++ [(k, v)]), true), ?_, ?_, ?_, ?_, ?_, ?_⟩
        · have : decide (es.length ≥ maxArrayMapSize) = false := by simpa using hfull
          simp [this, pure, Except.pure]
        · exact WF.array rfl (by simp) (by simp; omega) (distinct_insert_new hl hd hno).1
        · simp [lookup_eq_none hno]
        · intro k'; simp only [toList_array]; exact lookup_insert_new hl hno (Or.inl rfl) k'
        · simp [lookup_eq_none hno]
        · intro e he; simp at he
          rcases he with he | rfl
          · exact Or.inl ⟨e, by simp [he], rfl⟩
          · exact Or.inr rfl

-- hamt ---------------------------------------------------------------------------------------------

/-- entries of a map -/
def Hamt.toList (m : Hamt K V) : List (K × V) :=
  match m.root with
  | none => []
  | some root => root.toList

/-- well-formed map: well-formed root (an empty map has no root), `size` = number of entries -/
def Hamt.Inv (h : Hasher K) (m : Hamt K V) : Prop :=
  match m.root with
  | none => m.size = 0
  | some root => FpVerif.Hamt.WF h 0 root ∧ m.size = root.toList.length

theorem Hamt.Inv.size_eq {m : Hamt K V} (hwf : Hamt.Inv h m) : m.size = m.toList.length := by
  unfold Hamt.Inv at hwf; unfold Hamt.toList
  cases hr : m.root with
  | none => simp [hr] at hwf ⊢; exact hwf
  | some root => simp [hr] at hwf ⊢; exact hwf.2

theorem Hamt.set_spec (hl : LawfulHash h) {m : Hamt K V} (hwf : Hamt.Inv h m) (k : K) (v : V) (mu : Bool) :
    ∃ m', m.set h k v mu = .ok m' ∧ Hamt.Inv h m' ∧
      (∀ k', lookup h k' m'.toList = if h.eqv k k' then some v else lookup h k' m.toList) ∧
      m'.size = m.size + (if (lookup h k m.toList).isSome then 0 else 1) ∧
      (∀ e ∈ m'.toList, (∃ e0 ∈ m.toList, e0.1 = e.1) ∨ e.1 = k) := by
  unfold Hamt.set
  cases hr : m.root with
  | none =>
    have hsz : m.size = 0 := by unfold Hamt.Inv at hwf; simpa [hr] using hwf
    refine ⟨_, rfl, ?_, ?_, ?_, ?_⟩
    · unfold Hamt.Inv
      exact ⟨WF.array rfl (by simp) (by simp [maxArrayMapSize]) (by unfold DistinctKeys; simp), by simp⟩
    · intro k'; simp [Hamt.toList, hr, lookup_cons, lookup_nil]
    · simp [Hamt.toList, hr, hsz, lookup_nil]
    · intro e he; simp [Hamt.toList] at he; exact Or.inr (by rw [he])
  | some root =>
    have hw : FpVerif.Hamt.WF h 0 root ∧ m.size = root.toList.length := by
      unfold Hamt.Inv at hwf; simpa [hr] using hwf
    obtain ⟨⟨nr, rz⟩, hset, hpost⟩ := Node.set_spec hl hw.1 k v mu false
    have hrz : rz = (lookup h k root.toList).isNone := by simpa using hpost.resized
    refine ⟨{ size := if rz = true then m.size + 1 else m.size, root := some nr },
      by simp [hset, bind, Except.bind, pure, Except.pure], ?_, ?_, ?_, ?_⟩
    · unfold Hamt.Inv
      refine ⟨hpost.wf, ?_⟩
      have := hpost.len
      simp only at this ⊢
      rw [this, hrz, hw.2]
      cases lookup h k root.toList <;> simp
    · intro k'; simpa [Hamt.toList, hr] using hpost.look k'
    · simp only [Hamt.toList, hr, hrz]
      cases lookup h k root.toList <;> simp
    · simpa [Hamt.toList, hr] using hpost.keys

end FpVerif.Hamt
