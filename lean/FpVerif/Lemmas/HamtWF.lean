import FpVerif.Lemmas.HamtBits
/-!
Well-formedness of a trie node (`WF`), lawful hashers, association-list view (`lookup`,
`DistinctKeys`) and the decomposition lemmas used by the per-node-kind proofs.
-/
set_option linter.unusedSimpArgs false
set_option linter.unusedVariables false
namespace FpVerif.Hamt
variable {K V : Type}

/-- `Hash` agrees with `Eqv`, and `Eqv` is an equivalence relation (the contract of `fp.Hashable`). -/
structure LawfulHash (h : Hasher K) : Prop where
  refl : ∀ a, h.eqv a a = true
  symm : ∀ a b, h.eqv a b = true → h.eqv b a = true
  trans : ∀ a b c, h.eqv a b = true → h.eqv b c = true → h.eqv a c = true
  hash_eq : ∀ a b, h.eqv a b = true → h.hash a = h.hash b

/-- association-list lookup: value of the first entry whose key is `Eqv` to `k` -/
def lookup (h : Hasher K) (k : K) (l : List (K × V)) : Option V :=
  (l.find? (fun e => h.eqv e.1 k)).map (·.2)

/-- keys pairwise not `Eqv` -/
def DistinctKeys (h : Hasher K) (l : List (K × V)) : Prop :=
  l.Pairwise (fun a b => h.eqv a.1 b.1 = false)

/-- entries of an optional child -/
def optList : Option (Node K V) → List (K × V)
  | some c => c.toList
  | none => []

@[simp] theorem optList_some (c : Node K V) : optList (some c) = c.toList := rfl
@[simp] theorem optList_none : optList (none : Option (Node K V)) = [] := rfl

@[simp] theorem toList_array (es : List (K × V)) : (Node.array es).toList = es := by rw [Node.toList]
@[simp] theorem toList_value (kh : UInt32) (k : K) (v : V) : (Node.value kh k v).toList = [(k, v)] := by
  rw [Node.toList]
@[simp] theorem toList_collision (kh : UInt32) (es : List (K × V)) : (Node.collision kh es).toList = es := by
  rw [Node.toList]
theorem toList_bitmap (bm : Nat) (ns : List (Node K V)) :
    (Node.bitmap bm ns).toList = ns.flatMap Node.toList := by
  rw [Node.toList]
theorem toList_hashArray (c : Nat) (ns : List (Option (Node K V))) :
    (Node.hashArray c ns).toList = ns.flatMap optList := by
  rw [Node.toList]
  have h2 : ns.flatMap optList = ns.attach.flatMap (fun x => optList x.1) := by
    conv => lhs; rw [← List.attach_map_subtype_val ns]
    rw [List.flatMap_map]
  rw [h2]
  congr 1
  funext ⟨o, ho⟩
  cases o <;> rfl

/-- number of non-nil slots -/
def countSome (ns : List (Option (Node K V))) : Nat := (ns.filter Option.isSome).length

/-- children of a bitmap node with their slot (bit position) -/
def kidsB (bm : Nat) (ns : List (Node K V)) : List (Nat × Node K V) := List.zip (bitsOf bm) ns

/-- non-nil children of a hash-array node with their slot (array index) -/
def kidsH (ns : List (Option (Node K V))) : List (Nat × Node K V) :=
  (List.zip (List.range 32) ns).filterMap (fun p => p.2.map (fun c => (p.1, c)))

/-- entries below a list of (slot, child) -/
def flat (ks : List (Nat × Node K V)) : List (K × V) := ks.flatMap (fun p => p.2.toList)

/-- Well-formedness of a node that sits at `shift` `s` (depth `s/5`). -/
inductive WF (h : Hasher K) : Nat → Node K V → Prop
  | array {s : Nat} {es : List (K × V)} :
      s = 0 → es ≠ [] → es.length ≤ maxArrayMapSize → DistinctKeys h es → WF h s (.array es)
  | value {s : Nat} {kh : UInt32} {k : K} {v : V} : kh = h.hash k → WF h s (.value kh k v)
  | collision {s : Nat} {kh : UInt32} {es : List (K × V)} :
      2 ≤ es.length → (∀ e ∈ es, h.hash e.1 = kh) → DistinctKeys h es → WF h s (.collision kh es)
  | bitmap {s bm : Nat} {ns : List (Node K V)} :
      s < 32 → bm < 2 ^ 32 → ns.length = popCount bm → 1 ≤ ns.length →
      ns.length ≤ maxBitmapIndexedSize + 1 →
      (∀ p ∈ kidsB bm ns, WF h (s + 5) p.2) →
      (∀ p ∈ kidsB bm ns, ∀ e ∈ p.2.toList, frag (h.hash e.1) s = p.1) →
      WF h s (.bitmap bm ns)
  | hashArray {s cnt : Nat} {ns : List (Option (Node K V))} :
      s < 32 → ns.length = 32 → cnt = countSome ns → maxBitmapIndexedSize ≤ cnt →
      (∀ p ∈ kidsH ns, WF h (s + 5) p.2) →
      (∀ p ∈ kidsH ns, ∀ e ∈ p.2.toList, frag (h.hash e.1) s = p.1) →
      WF h s (.hashArray cnt ns)

-- association lists ------------------------------------------------------------------------------

theorem lookup_nil (h : Hasher K) (k : K) : lookup h k ([] : List (K × V)) = none := rfl

theorem lookup_append (h : Hasher K) (k : K) (a b : List (K × V)) :
    lookup h k (a ++ b) = (lookup h k a).or (lookup h k b) := by
  unfold lookup
  rw [List.find?_append]
  cases List.find? (fun e => h.eqv e.1 k) a <;> simp

theorem lookup_eq_none {h : Hasher K} {k : K} {l : List (K × V)}
    (hn : ∀ e ∈ l, h.eqv e.1 k = false) : lookup h k l = none := by
  unfold lookup
  have : List.find? (fun e => h.eqv e.1 k) l = none := by
    rw [List.find?_eq_none]; intro e he; simp [hn e he]
  simp [this]

theorem lookup_eq_none_iff {h : Hasher K} {k : K} {l : List (K × V)} :
    lookup h k l = none ↔ ∀ e ∈ l, h.eqv e.1 k = false := by
  constructor
  · intro hl e he
    unfold lookup at hl
    simp only [Option.map_eq_none_iff, List.find?_eq_none] at hl
    simpa using hl e he
  · exact lookup_eq_none

theorem lookup_cons (h : Hasher K) (k : K) (e : K × V) (l : List (K × V)) :
    lookup h k (e :: l) = if h.eqv e.1 k then some e.2 else lookup h k l := by
  unfold lookup
  rw [List.find?_cons]
  cases h.eqv e.1 k <;> simp

theorem lookup_mid {h : Hasher K} {k : K} {a c b : List (K × V)}
    (ha : ∀ e ∈ a, h.eqv e.1 k = false) (hb : ∀ e ∈ b, h.eqv e.1 k = false) :
    lookup h k (a ++ c ++ b) = lookup h k c := by
  rw [lookup_append, lookup_append, lookup_eq_none ha, lookup_eq_none hb]
  cases lookup h k c <;> simp

theorem lookup_isSome_iff {h : Hasher K} {k : K} {l : List (K × V)} :
    (lookup h k l).isSome = true ↔ ∃ e ∈ l, h.eqv e.1 k = true := by
  cases hl : lookup h k l with
  | none =>
    rw [lookup_eq_none_iff] at hl
    simp only [Option.isSome_none, Bool.false_eq_true, false_iff]
    rintro ⟨e, he, hk⟩
    rw [hl e he] at hk; cases hk
  | some v =>
    simp only [Option.isSome_some, true_iff]
    unfold lookup at hl
    simp only [Option.map_eq_some_iff] at hl
    obtain ⟨e, he, _⟩ := hl
    exact ⟨e, List.mem_of_find?_eq_some he, by simpa using List.find?_some he⟩

theorem lookup_of_mem {h : Hasher K} (hl : LawfulHash h) {l : List (K × V)} (hd : DistinctKeys h l)
    {e : K × V} (he : e ∈ l) {k : K} (hk : h.eqv e.1 k = true) : lookup h k l = some e.2 := by
  induction l with
  | nil => cases he
  | cons a l ih =>
    rw [lookup_cons]
    unfold DistinctKeys at hd
    rw [List.pairwise_cons] at hd
    rcases List.mem_cons.mp he with rfl | he'
    · simp [hk]
    · have hne : h.eqv a.1 k = false := by
        cases hak : h.eqv a.1 k with
        | false => rfl
        | true =>
          have h1 := hd.1 e he'
          have h2 := hl.trans _ _ _ hak (hl.symm _ _ hk)
          rw [h1] at h2; cases h2
      simp [hne]
      exact ih hd.2 he'

-- positions of the first `Eqv` key -------------------------------------------------------------

theorem indexOf_none {h : Hasher K} {es : List (K × V)} {k : K} :
    indexOf h es k = none ↔ ∀ e ∈ es, h.eqv e.1 k = false := by
  unfold indexOf; exact List.findIdx?_eq_none_iff

theorem indexOf_some {h : Hasher K} {es : List (K × V)} {k : K} {i : Nat} (hi : indexOf h es k = some i) :
    ∃ e, es[i]? = some e ∧ h.eqv e.1 k = true ∧ es = es.take i ++ e :: es.drop (i + 1) ∧
      ∀ x ∈ es.take i, h.eqv x.1 k = false := by
  unfold indexOf at hi
  rw [List.findIdx?_eq_some_iff_getElem] at hi
  obtain ⟨hlt, hp, hbefore⟩ := hi
  refine ⟨es[i], by simp [hlt], hp, ?_, ?_⟩
  · have := List.take_append_drop i es
    conv => lhs; rw [← this]
    rw [List.drop_eq_getElem_cons hlt]
  · intro x hx
    obtain ⟨j, hj, rfl⟩ := List.getElem_of_mem hx
    simp only [List.length_take] at hj
    have hji : j < i := by omega
    have := hbefore j hji
    simp only [List.getElem_take]
    simpa using this

-- zipped lists ------------------------------------------------------------------------------------

theorem exists_zip_left {α β : Type} {b : β} {l₂ : List β} (hb : b ∈ l₂) :
    ∀ {l₁ : List α}, l₁.length = l₂.length → ∃ a, (a, b) ∈ List.zip l₁ l₂ := by
  induction l₂ with
  | nil => cases hb
  | cons y l₂ ih =>
    intro l₁ hl
    cases l₁ with
    | nil => simp at hl
    | cons x l₁ =>
      simp only [List.length_cons, Nat.add_right_cancel_iff] at hl
      rcases List.mem_cons.mp hb with rfl | hb'
      · exact ⟨x, by simp⟩
      · obtain ⟨a, ha⟩ := ih hb' hl
        exact ⟨a, by simp [ha]⟩

theorem mem_zip_fst {α β : Type} {p : α × β} {l₁ : List α} {l₂ : List β} (hp : p ∈ List.zip l₁ l₂) :
    p.1 ∈ l₁ := (List.of_mem_zip (a := p.1) (b := p.2) hp).1

theorem mem_zip_snd {α β : Type} {p : α × β} {l₁ : List α} {l₂ : List β} (hp : p ∈ List.zip l₁ l₂) :
    p.2 ∈ l₂ := (List.of_mem_zip (a := p.1) (b := p.2) hp).2

/-- Split a list that is aligned with `L ++ j :: R` at the position of `j`. -/
theorem split_aligned {α : Type} {ns : List α} {a b : Nat} (hlen : ns.length = a + 1 + b) :
    ∃ NL c NR, ns = NL ++ c :: NR ∧ NL.length = a ∧ NR.length = b ∧ ns[a]? = some c := by
  have ha : a < ns.length := by omega
  refine ⟨ns.take a, ns[a], ns.drop (a + 1), ?_, ?_, ?_, by simp [ha]⟩
  · conv => lhs; rw [← List.take_append_drop a ns]
    rw [List.drop_eq_getElem_cons ha]
  · simp; omega
  · simp; omega

theorem split_aligned0 {α : Type} {ns : List α} {a b : Nat} (hlen : ns.length = a + b) :
    ∃ NL NR, ns = NL ++ NR ∧ NL.length = a ∧ NR.length = b ∧ ns.take a = NL ∧ ns.drop a = NR := by
  refine ⟨ns.take a, ns.drop a, (List.take_append_drop a ns).symm, ?_, ?_, rfl, rfl⟩
  · simp; omega
  · simp; omega

end FpVerif.Hamt
