import FpVerif.Model.Future
/-!
# Well-formed `fp.Try` results in the future network (C06, audit finding 1)

The executable task-atomic model (`Model/Future.lean`) is *total* on the ill-formed Try value
`failure .nil` (Go: the zero value `fp.Try[T]{}` and `fp.Failure[T](nil)`): `runTask` passes it on with
`complete np (.failure .nil)`.  The Go code does not: every task that takes the failure branch evaluates
`t.Failed().Get()` (future.go:152,216,262,286,302,307,322,338; future/future_op.go:100,228), and
`Try.Failed()` of a failure whose `err` is nil is `Failure("Try not initialized correctly")` (try.go:86-88),
so `.Get()` panics inside the task: the task dies (with the default executor the process dies) and the
derived promise is never completed.

This module defines the side condition under which the model and the code agree — no Try value that ever
enters the network is `failure .nil` — and proves that it is an invariant of the network for EVERY
schedule, independently of the soundness invariant (so it holds for first-order and for higher-order
programs alike):

 * `WFTry t`        : `t ≠ .failure .nil`;
 * `WFE e`          : hereditarily, every Try value the construction program `e` can put into the network is
                      well formed: `Failed(err)` has `err ≠ nil`, a `Transform` function maps well-formed
                      inputs to well-formed results, an `Apply` body returns a well-formed Try, and every future
                      a user function builds (for a well-formed argument) is again `WFE`;
 * `EvWF ev`        : the environment completes a source only with a well-formed Try, the program only
                      constructs `WFE` expressions;
 * `WFNet n`        : every completed promise, every pooled task and every registered callback is well formed;
 * `wf_runEvs`      : `WFNet` is preserved by every event list whose events are `EvWF`;
 * `runTaskGo` / `stepGo` / `runEvsGo` : the panic-aware reading of the tasks (`none` = a task panicked in
                      `t.Failed().Get()`), and `runEvsGo_eq`: from a well-formed network, along `EvWF` events, it
                      coincides with the executable (total) model.
-/
namespace FpVerif.Fut

/-- a well-formed `fp.Try`: not the zero value `Try{}` / `Failure(nil)` -/
def WFTry (t : Try Val) : Prop := t ≠ .failure .nil

instance (t : Try Val) : Decidable (WFTry t) :=
  match t with
  | .success _ => isTrue (by simp [WFTry])
  | .failure e => if h : e = .nil then isFalse (by simp [WFTry, h]) else isTrue (by simp [WFTry, h])

@[simp] theorem wfTry_success (v : Val) : WFTry (.success v) := by simp [WFTry]
@[simp] theorem wfTry_failure (e : Err) : WFTry (.failure e) ↔ e ≠ .nil := by simp [WFTry]

/-- hereditarily well-formed construction programs (see the module comment) -/
inductive WFE : FExpr → Prop where
  | ref (p : Nat) : WFE (.ref p)
  | successful (v : Val) : WFE (.successful v)
  | failed (e : Err) : e ≠ .nil → WFE (.failed e)
  | successfulOf (e : FExpr) : WFE e → WFE (.successfulOf e)
  | logged (evs : List Event) (e : FExpr) : WFE e → WFE (.logged evs e)
  | flatMap (e : FExpr) (k : Val → FExpr) : WFE e → (∀ v, WFE (k v)) → WFE (.flatMap e k)
  | transform (e : FExpr) (f : Try Val → W (Try Val)) : WFE e → (∀ t, WFTry t → WFTry (f t).1) →
      WFE (.transform e f)
  | transformWith (e : FExpr) (k : Try Val → FExpr) : WFE e → (∀ t, WFTry t → WFE (k t)) →
      WFE (.transformWith e k)
  | recoverWith (e : FExpr) (d : Err → Bool) (k : Err → FExpr) : WFE e → (∀ x, x ≠ .nil → WFE (k x)) →
      WFE (.recoverWith e d k)
  | orFuture (e alt : FExpr) : WFE e → WFE alt → WFE (.orFuture e alt)
  | apply (f : Unit → W (Try Val)) : WFTry (f ()).1 → WFE (.apply f)

/-- the closures the library registers only ever produce well-formed Try values from well-formed ones -/
def CbWF : CB → Prop
  | .flatMapA k _ => ∀ v, WFE (k v)
  | .completeWith _ => True
  | .transformA f _ => ∀ t, WFTry t → WFTry (f t).1
  | .transformWithA k _ => ∀ t, WFTry t → WFE (k t)
  | .recoverWithA _ k _ => ∀ x, x ≠ .nil → WFE (k x)
  | .orFutureA _ _ => True
  | .observe _ => True

def TaskWF : Task → Prop
  | .cb c t => WFTry t ∧ CbWF c
  | .applyT f _ => WFTry (f ()).1

/-- no ill-formed Try anywhere in the network: not in a completed promise, not carried by a pooled task,
    and no registered callback can produce one -/
structure WFNet (n : Net) : Prop where
  status : ∀ p t, n.status p = some t → WFTry t
  tasks : ∀ tk ∈ n.pool, TaskWF tk
  cbs : ∀ q c, c ∈ n.cbs q → CbWF c

theorem wfNet_empty (nsrc : Nat) : WFNet (Net.empty nsrc) :=
  ⟨by intro p t h; simp [Net.empty] at h, by intro tk h; simp [Net.empty] at h,
   by intro q c h; simp [Net.empty] at h⟩

/-- `WFNet` only looks at status, pool and cbs -/
theorem wfNet_congr {n n' : Net} (h : WFNet n) (h1 : n'.status = n.status) (h2 : n'.pool = n.pool)
    (h3 : n'.cbs = n.cbs) : WFNet n' :=
  ⟨by rw [h1]; exact h.status, by rw [h2]; exact h.tasks, by rw [h3]; exact h.cbs⟩

theorem wf_complete {n : Net} (h : WFNet n) (p : Nat) (t : Try Val) (ht : WFTry t) : WFNet (complete p t n) := by
  unfold complete
  cases hst : n.status p with
  | some v => exact wfNet_congr h rfl rfl rfl
  | none =>
    refine ⟨?_, ?_, ?_⟩
    · intro q v hq
      by_cases hqp : q = p
      · subst hqp; simp at hq; subst hq; exact ht
      · simp [hqp] at hq; exact h.status q v hq
    · intro tk htk
      simp only [List.mem_append, List.mem_map] at htk
      rcases htk with hold | ⟨c, hc, rfl⟩
      · exact h.tasks tk hold
      · exact ⟨ht, h.cbs p c hc⟩
    · intro q c hc
      by_cases hqp : q = p
      · subst hqp; simp at hc
      · simp [hqp] at hc; exact h.cbs q c hc

theorem wf_onComplete {n : Net} (h : WFNet n) (p : Nat) (c : CB) (hc : CbWF c) : WFNet (onComplete p c n) := by
  unfold onComplete
  cases hst : n.status p with
  | some t =>
    refine ⟨h.status, ?_, h.cbs⟩
    intro tk htk
    simp only [List.mem_append, List.mem_singleton] at htk
    rcases htk with hold | rfl
    · exact h.tasks tk hold
    · exact ⟨h.status p t hst, hc⟩
  | none =>
    refine ⟨h.status, h.tasks, ?_⟩
    intro q c' hc'
    by_cases hqp : q = p
    · subst hqp
      simp at hc'
      rcases hc' with hold | rfl
      · exact h.cbs q c' hold
      · exact hc
    · simp [hqp] at hc'; exact h.cbs q c' hc'

theorem wf_fresh {n : Net} (h : WFNet n) (sp : FExpr) : WFNet (fresh sp n).2 := wfNet_congr h rfl rfl rfl

theorem wf_log {n : Net} (h : WFNet n) (evs : List Event) : WFNet { n with log := n.log ++ evs } :=
  wfNet_congr h rfl rfl rfl

/-- constructing a well-formed program keeps the network well formed -/
theorem wf_build (e : FExpr) (he : WFE e) : ∀ n : Net, WFNet n → WFNet (build e n).2 := by
  induction he with
  | ref p => intro n h; exact h
  | successful v => intro n h; exact wf_complete (wf_fresh h _) _ _ (wfTry_success v)
  | failed x hx => intro n h; exact wf_complete (wf_fresh h _) _ _ ((wfTry_failure x).2 hx)
  | successfulOf e _ ih => intro n h; exact wf_complete (wf_fresh (ih n h) _) _ _ (wfTry_success _)
  | logged evs e _ ih => intro n h; exact ih _ (wf_log h evs)
  | flatMap e k _ hk ihe _ => intro n h; exact wf_onComplete (wf_fresh (ihe n h) _) _ _ hk
  | transform e f _ hf ih => intro n h; exact wf_onComplete (wf_fresh (ih n h) _) _ _ hf
  | transformWith e k _ hk ihe _ => intro n h; exact wf_onComplete (wf_fresh (ihe n h) _) _ _ hk
  | recoverWith e d k _ hk ihe _ => intro n h; exact wf_onComplete (wf_fresh (ihe n h) _) _ _ hk
  | orFuture e alt _ _ ihe iha => intro n h; exact wf_onComplete (wf_fresh (iha _ (ihe n h)) _) _ _ trivial
  | apply f hf =>
    intro n h
    refine ⟨h.status, ?_, h.cbs⟩
    intro tk htk
    simp only [build, fresh, List.mem_append, List.mem_singleton] at htk
    rcases htk with hold | rfl
    · exact h.tasks tk hold
    · exact hf

/-- running a well-formed task keeps the network well formed: in particular the failure branches of
    FlatMap / RecoverWith only ever see `failure e` with `e ≠ nil`, where `t.Failed().Get()` is `e` -/
theorem wf_runTask {n : Net} (h : WFNet n) (tk : Task) (htk : TaskWF tk) : WFNet (runTask tk n) := by
  cases tk with
  | applyT f np => exact wf_complete (wf_log h _) np _ htk
  | cb c t =>
    obtain ⟨ht, hc⟩ := htk
    cases c with
    | flatMapA k np =>
      cases t with
      | success v => exact wf_onComplete (wf_build (k v) (hc v) n h) _ _ trivial
      | failure e => exact wf_complete h np _ ht
    | completeWith np => exact wf_complete h np t ht
    | transformA f np => exact wf_complete (wf_log h _) np _ (hc t ht)
    | transformWithA k np => exact wf_onComplete (wf_build (k t) (hc t ht) n h) _ _ trivial
    | recoverWithA d k np =>
      cases t with
      | success v => exact wf_complete h np _ (wfTry_success v)
      | failure e =>
        simp only [runTask]
        split
        · exact wf_onComplete (wf_build (k e) (hc e ((wfTry_failure e).1 ht)) n h) _ _ trivial
        · exact wf_complete h np _ ht
    | orFutureA q np =>
      cases t with
      | success v => exact wf_complete h np _ (wfTry_success v)
      | failure e => exact wf_onComplete h q _ trivial
    | observe id => exact wf_log h _

/-- the well-formedness obligations of an event: sources are never completed with `Try{}` / `Failure(nil)`,
    and the program constructs only `WFE` expressions -/
def EvWF : Ev → Prop
  | .run _ => True
  | .src _ t => WFTry t
  | .mk e => WFE e
  | .obs _ _ => True

theorem wf_step {n : Net} (h : WFNet n) (ev : Ev) (hev : EvWF ev) : WFNet (step n ev) := by
  cases ev with
  | run i =>
    simp only [step]
    cases hi : n.pool[i]? with
    | none => exact h
    | some tk =>
      have hmem : tk ∈ n.pool := List.mem_of_getElem? hi
      have h0 : WFNet { n with pool := n.pool.eraseIdx i } :=
        ⟨h.status, fun tk' htk' => h.tasks tk' (List.mem_of_mem_eraseIdx htk'), h.cbs⟩
      exact wf_runTask h0 tk (h.tasks tk hmem)
  | src p t => exact wf_complete h p t hev
  | mk e => exact wf_build e hev n h
  | obs p id => exact wf_onComplete h p _ trivial

theorem wf_runEvs (evs : List Ev) : ∀ n : Net, WFNet n → (∀ ev ∈ evs, EvWF ev) → WFNet (runEvs n evs) := by
  induction evs with
  | nil => intro n h _; exact h
  | cons ev evs ih =>
    intro n h hv
    exact ih _ (wf_step h ev (hv ev (by simp))) (fun ev' hm => hv ev' (by simp [hm]))

-- the panic-aware reading of the task bodies ---------------------------------------------------------------------------------

/-- The pooled tasks whose Go body evaluates `t.Failed().Get()` on a failure and therefore PANICS on the ill-formed
    `failure .nil` before it calls `np.Complete` / `np.Failure`:
    * `flatMapA` — `future.FlatMap` (future_op.go:228), `Future.FlatMap` (future.go:338): `np.Failure(t.Failed().Get())`;
    * `recoverWithA` — `Future.RecoverWith` (future.go:286: `f(t.Failed().Get())`), `Future.RecoverCaseWith`
      (future.go:302: `isDefinedAt(t.Failed().Get())`).  (`Future.Or`, which the model also expresses by `recoverWith`,
      does not inspect the error — future.go:230 — so for it this reading is conservative.)
    `completeWith`, `transformWithA`, `orFutureA` pass the Try on (`np.Complete(t)`, `fn(t)`, `v.OnComplete`) and never
    panic; for `transformA f` the function `f` is the caller's (`future.Transform`) — the library methods that go through
    it (`Map`, `Recover`, `RecoverCase`, `Failed`) are treated in `Spec/C06Methods.lean` (`method_tasks_panic_on_nil`). -/
def panicsInGo : Task → Bool
  | .cb (.flatMapA _ _) (.failure .nil) => true
  | .cb (.recoverWithA _ _ _) (.failure .nil) => true
  | _ => false

/-- the task body with that panic explicit: `none` = the task panicked, nothing was completed (the derived promise stays
    pending; with the default `go runnable.Run()` executor the process terminates) -/
def runTaskGo (tk : Task) (n : Net) : Option Net := if panicsInGo tk then none else some (runTask tk n)

def stepGo (n : Net) : Ev → Option Net
  | .run i =>
    match n.pool[i]? with
    | some tk => runTaskGo tk { n with pool := n.pool.eraseIdx i }
    | none => some n
  | ev => some (step n ev)

def runEvsGo : Net → List Ev → Option Net
  | n, [] => some n
  | n, ev :: evs => (stepGo n ev).bind (fun n' => runEvsGo n' evs)

theorem taskWF_not_panics {tk : Task} (h : TaskWF tk) : panicsInGo tk = false := by
  cases tk with
  | applyT f np => rfl
  | cb c t =>
    obtain ⟨ht, _⟩ := h
    cases t with
    | success v => cases c <;> rfl
    | failure e =>
      have he : e ≠ .nil := (wfTry_failure e).1 ht
      cases c <;> first | rfl | (cases e <;> first | rfl | exact absurd rfl he)

/-- in a well-formed network the panic-aware step IS the step of the executable model -/
theorem stepGo_eq {n : Net} (h : WFNet n) (ev : Ev) : stepGo n ev = some (step n ev) := by
  cases ev with
  | run i =>
    simp only [stepGo, step]
    cases hi : n.pool[i]? with
    | none => rfl
    | some tk =>
      have hmem : tk ∈ n.pool := List.mem_of_getElem? hi
      simp [runTaskGo, taskWF_not_panics (h.tasks tk hmem)]
  | src p t => rfl
  | mk e => rfl
  | obs p id => rfl

theorem runEvsGo_eq (evs : List Ev) : ∀ n : Net, WFNet n → (∀ ev ∈ evs, EvWF ev) →
    runEvsGo n evs = some (runEvs n evs) := by
  induction evs with
  | nil => intro n _ _; rfl
  | cons ev evs ih =>
    intro n h hv
    simp only [runEvsGo, stepGo_eq h ev, Option.bind_some]
    exact ih _ (wf_step h ev (hv ev (by simp))) (fun ev' hm => hv ev' (by simp [hm]))

end FpVerif.Fut
