import FpVerif.Model.CollMonad
import FpVerif.Lemmas.IterSim
namespace FpVerif.Coll
open FpVerif FpVerif.It

variable {α β γ φ X Y : Type}

/-! ## running `GoM` computations -/

theorem run_pure (x : X) (lg : List Event) : (pure x : GoM X).run.run lg = (.ok x, lg) := rfl

theorem run_bind_ok {m : GoM X} {f : X → GoM Y} {lg lg1 : List Event} {x : X}
    (h : m.run.run lg = (.ok x, lg1)) : (m >>= f).run.run lg = (f x).run.run lg1 := by
  simp only [ExceptT.run_bind]
  simp only [bind, StateT.bind, StateT.run] at h ⊢
  have h'' : ExceptT.run m lg = (Except.ok x, lg1) := h
  rw [h'']

theorem run_bind_err {m : GoM X} {f : X → GoM Y} {lg lg1 : List Event} {p : PanicVal}
    (h : m.run.run lg = (.error p, lg1)) : (m >>= f).run.run lg = (.error p, lg1) := by
  simp only [ExceptT.run_bind]
  simp only [bind, StateT.bind, StateT.run] at h ⊢
  have h'' : ExceptT.run m lg = (Except.error p, lg1) := h
  rw [h'']
  rfl

/-! ## loop lemmas -/

theorem seqFlatMapLoop_acc (fn : α → GoM (List β)) (l : List α) (ret : List β) :
    seqFlatMapLoop fn l ret = (do let r ← seqFlatMapLoop fn l []; pure (ret ++ r)) := by
  induction l generalizing ret with
  | nil => simp [seqFlatMapLoop]
  | cons v rest ih =>
    simp only [seqFlatMapLoop, bind_assoc, List.nil_append]
    congr 1; funext r
    rw [ih (ret ++ r), ih r]
    simp [List.append_assoc]

theorem seqMapLoop_acc (fn : α → GoM β) (l : List α) (ret : List β) :
    seqMapLoop fn l ret = (do let r ← seqMapLoop fn l []; pure (ret ++ r)) := by
  induction l generalizing ret with
  | nil => simp [seqMapLoop]
  | cons v rest ih =>
    simp only [seqMapLoop, bind_assoc, List.nil_append]
    congr 1; funext r
    rw [ih (ret ++ [r]), ih [r]]
    simp [List.append_assoc]

theorem seqFlatMap_nil (fn : α → GoM (List β)) : seqFlatMap [] fn = pure [] := rfl

theorem seqFlatMap_cons (fn : α → GoM (List β)) (v : α) (rest : List α) :
    seqFlatMap (v :: rest) fn = (do let r ← fn v; let r' ← seqFlatMap rest fn; pure (r ++ r')) := by
  simp only [seqFlatMap, seqFlatMapLoop, List.nil_append]
  congr 1; funext r
  rw [seqFlatMapLoop_acc]

theorem seqMap_nil (fn : α → GoM β) : seqMap [] fn = pure [] := rfl

theorem seqMap_cons (fn : α → GoM β) (v : α) (rest : List α) :
    seqMap (v :: rest) fn = (do let r ← fn v; let r' ← seqMap rest fn; pure (r :: r')) := by
  simp only [seqMap, seqMapLoop, List.nil_append]
  congr 1; funext r
  rw [seqMapLoop_acc]
  rfl

/-! ## A. exact laws (all callbacks, also logging / panicking ones) -/

theorem seq_left_identity (a : α) (f : α → GoM (List β)) : seqFlatMap (seqPure a) f = f a := by
  simp [seqPure, seqFlatMap_cons, seqFlatMap_nil]

theorem seq_right_identity (m : List α) : seqFlatMap m (fun x => pure (seqPure x)) = pure m := by
  induction m with
  | nil => rfl
  | cons v rest ih => rw [seqFlatMap_cons, ih]; simp [seqPure]

theorem seq_map_eq_flatMap_unit (m : List α) (f : α → GoM β) :
    seqMap m f = seqFlatMap m (fun x => do let y ← f x; pure (seqPure y)) := by
  induction m with
  | nil => rfl
  | cons v rest ih => rw [seqFlatMap_cons, seqMap_cons, ih]; simp [seqPure]

theorem seq_flatten_eq (opt : List (List α)) : seqFlatten opt = pure opt.flatten := by
  unfold seqFlatten
  induction opt with
  | nil => rfl
  | cons v rest ih => rw [seqFlatMap_cons, ih]; simp

theorem seq_concat_eq (h : α) (t : List α) : seqConcat h t = h :: t := by
  cases t <;> simp [seqConcat, seqConcatM, seqOf]

theorem seqAp_def (app : φ → α → GoM β) (t : List φ) (a : List α) :
    seqAp app t a = seqFlatMap t (fun f => seqMap a (app f)) := rfl

theorem seqMap2_def (a : List α) (b : List β) (f : α → β → GoM γ) :
    seqMap2 a b f = seqFlatMap a (fun v1 => seqMap b (fun v2 => f v1 v2)) := rfl

theorem seqFilterMap_def (opt : List α) (fn : α → GoM (Option β)) :
    seqFilterMap opt fn = seqFlatMap opt (fun v => do let o ← fn v; pure (optionToSeq o)) := rfl

theorem seqLift_def (f : α → GoM β) (opt : List α) : seqLift f opt = seqMap opt f := rfl

theorem seqLiftM_def (f : α → GoM (List β)) (opt : List α) : seqLiftM f opt = seqFlatMap opt f := rfl

theorem seqCompose_def (f1 : α → GoM (List β)) (f2 : β → GoM (List γ)) (a : α) :
    seqCompose f1 f2 a = (do let l ← f1 a; seqFlatMap l f2) := rfl

theorem seqComposePure_def (fab : α → GoM β) (a : α) :
    seqComposePure fab a = (do let b ← fab a; pure (seqOf [b])) := rfl

theorem seqFlatten_def (opt : List (List α)) : seqFlatten opt = seqFlatMap opt (fun v => pure v) := rfl

/-! ## B. callbacks that return -/

theorem seqFlatMap_run_cons {fn : α → GoM (List β)} {v : α} {rest : List α} {lg lg1 lg2 : List Event}
    {r r' : List β} (h1 : (fn v).run.run lg = (.ok r, lg1))
    (h2 : (seqFlatMap rest fn).run.run lg1 = (.ok r', lg2)) :
    (seqFlatMap (v :: rest) fn).run.run lg = (.ok (r ++ r'), lg2) := by
  rw [seqFlatMap_cons, run_bind_ok h1, run_bind_ok h2]; rfl

theorem seqMap_run_cons {fn : α → GoM β} {v : α} {rest : List α} {lg lg1 lg2 : List Event}
    {r : β} {r' : List β} (h1 : (fn v).run.run lg = (.ok r, lg1))
    (h2 : (seqMap rest fn).run.run lg1 = (.ok r', lg2)) :
    (seqMap (v :: rest) fn).run.run lg = (.ok (r :: r'), lg2) := by
  rw [seqMap_cons, run_bind_ok h1, run_bind_ok h2]; rfl

theorem seqFlatMap_total {fn : α → GoM (List β)} {g : α → List β} (h : Total fn g) (opt : List α)
    (lg : List Event) : ∃ lg', (seqFlatMap opt fn).run.run lg = (.ok (opt.flatMap g), lg') := by
  induction opt generalizing lg with
  | nil => exact ⟨lg, rfl⟩
  | cons v rest ih =>
    obtain ⟨lg1, h1⟩ := h v lg
    obtain ⟨lg2, h2⟩ := ih lg1
    exact ⟨lg2, by rw [seqFlatMap_run_cons h1 h2]; simp⟩

theorem seqMap_total {fn : α → GoM β} {g : α → β} (h : Total fn g) (opt : List α)
    (lg : List Event) : ∃ lg', (seqMap opt fn).run.run lg = (.ok (opt.map g), lg') := by
  induction opt generalizing lg with
  | nil => exact ⟨lg, rfl⟩
  | cons v rest ih =>
    obtain ⟨lg1, h1⟩ := h v lg
    obtain ⟨lg2, h2⟩ := ih lg1
    exact ⟨lg2, by rw [seqMap_run_cons h1 h2]; simp⟩

/-- `seqCompose f g` returns when `f` and `g` do. -/
theorem total_seqCompose {f : α → GoM (List β)} {g : β → GoM (List γ)} {gf : α → List β}
    {gg : β → List γ} (hf : Total f gf) (hg : Total g gg) :
    Total (seqCompose f g) (fun x => (gf x).flatMap gg) := by
  intro a lg
  obtain ⟨lg1, h1⟩ := hf a lg
  obtain ⟨lg2, h2⟩ := seqFlatMap_total hg (gf a) lg1
  exact ⟨lg2, by unfold seqCompose; rw [run_bind_ok h1, h2]⟩

theorem seq_assoc {f : α → GoM (List β)} {g : β → GoM (List γ)} {gf : α → List β}
    {gg : β → List γ} (hf : Total f gf) (hg : Total g gg) (m : List α) (lg : List Event) :
    ∃ lg1 lg2,
      (do let l ← seqFlatMap m f; seqFlatMap l g).run.run lg
        = (.ok ((m.flatMap gf).flatMap gg), lg1) ∧
      (seqFlatMap m (fun x => do let l ← f x; seqFlatMap l g)).run.run lg
        = (.ok ((m.flatMap gf).flatMap gg), lg2) := by
  obtain ⟨lga, ha⟩ := seqFlatMap_total hf m lg
  obtain ⟨lgb, hb⟩ := seqFlatMap_total hg (m.flatMap gf) lga
  obtain ⟨lgc, hc⟩ := seqFlatMap_total (total_seqCompose hf hg) m lg
  refine ⟨lgb, lgc, ?_, ?_⟩
  · rw [run_bind_ok ha, hb]
  · rw [List.flatMap_assoc]; exact hc

theorem seq_assoc_compose {f : α → GoM (List β)} {g : β → GoM (List γ)} {gf : α → List β}
    {gg : β → List γ} (hf : Total f gf) (hg : Total g gg) (m : List α) (lg : List Event) :
    ∃ lg1 lg2,
      (do let l ← seqFlatMap m f; seqFlatMap l g).run.run lg
        = (.ok ((m.flatMap gf).flatMap gg), lg1) ∧
      (seqFlatMap m (seqCompose f g)).run.run lg
        = (.ok ((m.flatMap gf).flatMap gg), lg2) :=
  seq_assoc hf hg m lg

theorem seq_ap_eq {app : φ → α → GoM β} {g2 : φ → α → β} (h : Total2 app g2) (t : List φ)
    (a : List α) (lg : List Event) :
    ∃ lg', (seqAp app t a).run.run lg = (.ok (t.flatMap (fun f => a.map (g2 f))), lg') :=
  seqFlatMap_total (g := fun f => a.map (g2 f))
    (fun f lg => seqMap_total (g := g2 f) (fun x lg => h f x lg) a lg) t lg

theorem seq_map2_eq {f : α → β → GoM γ} {g : α → β → γ} (h : Total2 f g) (a : List α)
    (b : List β) (lg : List Event) :
    ∃ lg', (seqMap2 a b f).run.run lg = (.ok (a.flatMap (fun x => b.map (g x))), lg') :=
  seqFlatMap_total (g := fun x => b.map (g x))
    (fun x lg => seqMap_total (g := g x) (fun y lg => h x y lg) b lg) a lg

theorem flatMap_optionToSeq (g : α → Option β) (opt : List α) :
    opt.flatMap (fun v => optionToSeq (g v)) = opt.filterMap g := by
  induction opt with
  | nil => rfl
  | cons v rest ih =>
    rw [List.flatMap_cons, ih, List.filterMap_cons]
    cases g v <;> simp [optionToSeq]

theorem seq_filterMap_eq {fn : α → GoM (Option β)} {g : α → Option β} (h : Total fn g)
    (opt : List α) (lg : List Event) :
    ∃ lg', (seqFilterMap opt fn).run.run lg = (.ok (opt.filterMap g), lg') := by
  rw [← flatMap_optionToSeq]
  exact seqFlatMap_total (total_bind_pure h optionToSeq) opt lg

theorem seq_lift_eq {f : α → GoM β} {g : α → β} (h : Total f g) (opt : List α) (lg : List Event) :
    ∃ lg', (seqLift f opt).run.run lg = (.ok (opt.map g), lg') :=
  seqMap_total h opt lg

theorem seq_liftM_eq {f : α → GoM (List β)} {g : α → List β} (h : Total f g) (opt : List α)
    (lg : List Event) : ∃ lg', (seqLiftM f opt).run.run lg = (.ok (opt.flatMap g), lg') :=
  seqFlatMap_total h opt lg

theorem seq_compose_eq {f1 : α → GoM (List β)} {f2 : β → GoM (List γ)} {g1 : α → List β}
    {g2 : β → List γ} (h1 : Total f1 g1) (h2 : Total f2 g2) (a : α) (lg : List Event) :
    ∃ lg', (seqCompose f1 f2 a).run.run lg = (.ok ((g1 a).flatMap g2), lg') :=
  total_seqCompose h1 h2 a lg

theorem seq_composePure_eq {fab : α → GoM β} {g : α → β} (h : Total fab g) (a : α)
    (lg : List Event) : ∃ lg', (seqComposePure fab a).run.run lg = (.ok [g a], lg') :=
  total_bind_pure h (fun b => seqOf [b]) a lg

/-! ## C. order of the callback invocations -/

/-- `f a` returns `g a` and appends exactly the events `e a` to the log. -/
def Logs (f : α → GoM β) (g : α → β) (e : α → List Event) : Prop :=
  ∀ a lg, (f a).run.run lg = (.ok (g a), lg ++ e a)

def Logs2 (f : α → β → GoM γ) (g : α → β → γ) (e : α → β → List Event) : Prop :=
  ∀ a b lg, (f a b).run.run lg = (.ok (g a b), lg ++ e a b)

theorem Logs.total {f : α → GoM β} {g : α → β} {e : α → List Event} (h : Logs f g e) : Total f g :=
  fun a lg => ⟨_, h a lg⟩

theorem seqFlatMap_logs {fn : α → GoM (List β)} {g : α → List β} {e : α → List Event}
    (h : Logs fn g e) (opt : List α) (lg : List Event) :
    (seqFlatMap opt fn).run.run lg = (.ok (opt.flatMap g), lg ++ opt.flatMap e) := by
  induction opt generalizing lg with
  | nil => rw [seqFlatMap_nil, run_pure]; simp
  | cons v rest ih =>
    rw [seqFlatMap_run_cons (h v lg) (ih _)]; simp [List.append_assoc]

theorem seqMap_logs {fn : α → GoM β} {g : α → β} {e : α → List Event}
    (h : Logs fn g e) (opt : List α) (lg : List Event) :
    (seqMap opt fn).run.run lg = (.ok (opt.map g), lg ++ opt.flatMap e) := by
  induction opt generalizing lg with
  | nil => rw [seqMap_nil, run_pure]; simp
  | cons v rest ih =>
    rw [seqMap_run_cons (h v lg) (ih _)]; simp [List.append_assoc]

theorem logs_seqCompose {f : α → GoM (List β)} {g : β → GoM (List γ)} {gf : α → List β}
    {gg : β → List γ} {ef : α → List Event} {eg : β → List Event}
    (hf : Logs f gf ef) (hg : Logs g gg eg) :
    Logs (seqCompose f g) (fun x => (gf x).flatMap gg) (fun x => ef x ++ (gf x).flatMap eg) := by
  intro a lg
  unfold seqCompose
  rw [run_bind_ok (hf a lg), seqFlatMap_logs hg, List.append_assoc]

theorem seq_assoc_logs {f : α → GoM (List β)} {g : β → GoM (List γ)} {gf : α → List β}
    {gg : β → List γ} {ef : α → List Event} {eg : β → List Event}
    (hf : Logs f gf ef) (hg : Logs g gg eg) (m : List α) (lg : List Event) :
    (do let l ← seqFlatMap m f; seqFlatMap l g).run.run lg
      = (.ok ((m.flatMap gf).flatMap gg), lg ++ m.flatMap ef ++ (m.flatMap gf).flatMap eg) ∧
    (seqFlatMap m (fun x => do let l ← f x; seqFlatMap l g)).run.run lg
      = (.ok ((m.flatMap gf).flatMap gg),
          lg ++ m.flatMap (fun x => ef x ++ (gf x).flatMap eg)) := by
  refine ⟨?_, ?_⟩
  · rw [run_bind_ok (seqFlatMap_logs hf m lg), seqFlatMap_logs hg]
  · rw [List.flatMap_assoc]; exact seqFlatMap_logs (logs_seqCompose hf hg) m lg

theorem seq_assoc_logs_perm (gf : α → List β) (ef : α → List Event) (eg : β → List Event)
    (m : List α) (lg : List Event) :
    (lg ++ m.flatMap ef ++ (m.flatMap gf).flatMap eg).Perm
      (lg ++ m.flatMap (fun x => ef x ++ (gf x).flatMap eg)) := by
  rw [List.append_assoc]
  refine List.Perm.append_left lg ?_
  induction m with
  | nil => simp
  | cons v rest ih =>
    simp only [List.flatMap_cons, List.flatMap_append, List.append_assoc]
    refine List.Perm.append_left (ef v) ?_
    refine (List.perm_append_comm_assoc _ _ _).trans ?_
    exact List.Perm.append_left _ ih

theorem seq_map2_logs {f : α → β → GoM γ} {g : α → β → γ} {e : α → β → List Event}
    (h : Logs2 f g e) (a : List α) (b : List β) (lg : List Event) :
    (seqMap2 a b f).run.run lg
      = (.ok (a.flatMap (fun x => b.map (g x))),
          lg ++ a.flatMap (fun x => b.flatMap (fun y => e x y))) :=
  seqFlatMap_logs (g := fun x => b.map (g x)) (e := fun x => b.flatMap (fun y => e x y))
    (fun x lg => seqMap_logs (g := g x) (e := e x) (fun y lg => h x y lg) b lg) a lg

/-! ## D. panic propagation -/

theorem seqFlatMap_panic {fn : α → GoM (List β)} {g : α → List β} {e : α → List Event}
    (pre post : List α) (a : α) (p : PanicVal) (ea : List Event)
    (hpre : ∀ x ∈ pre, ∀ lg, (fn x).run.run lg = (.ok (g x), lg ++ e x))
    (ha : ∀ lg, (fn a).run.run lg = (.error p, lg ++ ea)) (lg : List Event) :
    (seqFlatMap (pre ++ a :: post) fn).run.run lg = (.error p, lg ++ pre.flatMap e ++ ea) := by
  induction pre generalizing lg with
  | nil => rw [List.nil_append, seqFlatMap_cons, run_bind_err (ha lg)]; simp
  | cons v rest ih =>
    rw [List.cons_append, seqFlatMap_cons, run_bind_ok (hpre v (by simp) lg),
      run_bind_err (ih (fun x hx => hpre x (by simp [hx])) _)]
    simp [List.append_assoc]

/-! ## examples -/

example : Total (fun a : Nat => (do emit "x"; pure [a, a] : GoM (List Nat))) (fun a => [a, a]) :=
  fun _ lg => ⟨lg ++ ["x"], rfl⟩

example : Logs (fun a : Nat => (do emit "x"; pure [a, a] : GoM (List Nat))) (fun a => [a, a])
    (fun _ => ["x"]) :=
  fun _ _ => rfl

example : Logs2 (fun (a b : Nat) => (do emit "x"; pure (a + b) : GoM Nat)) (fun a b => a + b)
    (fun _ _ => ["x"]) :=
  fun _ _ _ => rfl

/-- the callbacks of the example: `exF a` logs `a` and returns `[a, a]`, `exG b` logs `"g"`. -/
def exF : Event → GoM (List Event) := fun a => do emit a; pure [a, a]
def exG : Event → GoM (List Event) := fun b => do emit "g"; pure [b]

theorem exF_logs : Logs exF (fun a => [a, a]) (fun a => [a]) := fun _ _ => rfl
theorem exG_logs : Logs exG (fun b => [b]) (fun _ => ["g"]) := fun _ _ => rfl

/-- left nesting: all `f` callbacks first. -/
example : (do let l ← seqFlatMap ["a", "b"] exF; seqFlatMap l exG).run.run []
    = (.ok ["a", "a", "b", "b"], ["a", "b", "g", "g", "g", "g"]) := rfl

/-- right nesting: interleaved. -/
example : (seqFlatMap ["a", "b"] (fun x => do let l ← exF x; seqFlatMap l exG)).run.run []
    = (.ok ["a", "a", "b", "b"], ["a", "g", "g", "b", "g", "g"]) := rfl

/-- the two logs really differ (same value). -/
example : ((do let l ← seqFlatMap ["a", "b"] exF; seqFlatMap l exG).run.run []).2
    ≠ ((seqFlatMap ["a", "b"] (fun x => do let l ← exF x; seqFlatMap l exG)).run.run []).2 := by
  rw [(seq_assoc_logs exF_logs exG_logs ["a", "b"] []).1,
    (seq_assoc_logs exF_logs exG_logs ["a", "b"] []).2]
  decide

end FpVerif.Coll
