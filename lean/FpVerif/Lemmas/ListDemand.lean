import FpVerif.Lemmas.ListGen
/-!
# Lazy list: demand of a `GenerateFrom` list (`Generate`, `Range`, `RangeClosed`)

`GenR` (Lemmas/ListGen.lean) describes a partially forced generated list.  `GenFresh` is the cursor
of a traversal of a list that nobody else has forced: the head cell of the cursor is pending or
done, its TAIL cell is PENDING, and the two cells are the LAST cells of the heap — the cells of what
follows do not exist yet.  It is closed under the three interface operations (`LSim`), `Tail` moves it
by allocating exactly one new pair of cells; `N = (number of head cells) + (elements not yet passed)`
is constant.  So every loop of package `list` proved for an arbitrary `LSim` leaves the heap with
exactly one more cell pair per element it has passed.
-/
namespace FpVerif.LL
open FpVerif.It IM

variable {g : Int → GoM (Option Val)} {gp : Int → Option Val}

/-- the cursor of a traversal over a generated list whose rest has not been forced -/
def GenFresh (g : Int → GoM (Option Val)) (gp : Int → Option Val) (N : Nat) : Heap → LV → List Val → Prop
  | hp, .adaptor hc tc, xs => ∃ i : Int,
      (hp.hs[hc]? = some (.pending (.gen i g), 0) ∨ hp.hs[hc]? = some (.done (gp i), 1)) ∧
      hp.ts[tc]? = some (.pending (.gen i g), 0) ∧ Enum gp i xs ∧
      hc + 1 = hp.hs.size ∧ tc + 1 = hp.ts.size ∧ hp.hs.size + xs.length = N
  | _, _, _ => False

/-- a fresh cursor is in particular a (partially forced) generated list -/
theorem GenFresh.genR {N : Nat} {hp : Heap} {l : LV} {xs : List Val} (h : GenFresh g gp N hp l xs) :
    ∃ i, GenR g gp xs hp l i := by
  cases l with
  | adaptor hc tc =>
    obtain ⟨i, hh, ht, he, _⟩ := h
    refine ⟨i, ?_⟩
    cases xs with
    | nil => exact ⟨hh, he⟩
    | cons v rest => exact ⟨hh, he.1, Or.inl ⟨ht, he.2⟩⟩
  | nil => exact h.elim
  | cons a t => exact h.elim
  | seq ys => exact h.elim
  | nilIface => exact h.elim

/-- what the invariant says about the heap: the cursor's cells are the last ones, and the number of
    head cells plus the number of elements not yet passed is the constant `N` -/
theorem GenFresh.sizes {N : Nat} {hp : Heap} {l : LV} {xs : List Val} (h : GenFresh g gp N hp l xs) :
    hp.hs.size + xs.length = N ∧ ∃ hc tc, l = .adaptor hc tc ∧ hc + 1 = hp.hs.size ∧ tc + 1 = hp.ts.size ∧
      ∃ i, hp.ts[tc]? = some (.pending (.gen i g), 0) := by
  cases l with
  | adaptor hc tc =>
    obtain ⟨i, _, ht, _, h1, h2, h3⟩ := h
    exact ⟨h3, hc, tc, rfl, h1, h2, i, ht⟩
  | nil => exact h.elim
  | cons a t => exact h.elim
  | seq ys => exact h.elim
  | nilIface => exact h.elim

theorem genFresh_force_head (N : Nat) (xs : List Val) (hp : Heap) (hc tc : Nat) (i : Int)
    (hcell : hp.hs[hc]? = some (.pending (.gen i g), 0))
    (h : GenFresh g gp N hp (.adaptor hc tc) xs) (hi : Enum gp i xs) :
    GenFresh g gp N { hp with hs := (hp.hs.set! hc (.running, 0 + 1)).set! hc (.done (gp i), 0 + 1) } (.adaptor hc tc) xs := by
  obtain ⟨j, hh, ht, he, h1, h2, h3⟩ := h
  have hlt : hc < hp.hs.size := by omega
  have hij : j = i := by
    rcases hh with hh | hh
    · rw [hcell] at hh; simp at hh; exact hh.symm
    · rw [hcell] at hh; simp at hh
  subst hij
  have hget : ((hp.hs.set! hc (.running, 0 + 1)).set! hc (.done (gp j), 0 + 1))[hc]? = some (.done (gp j), 1) := by
    rw [set_get_same]; simp [Array.set!_eq_setIfInBounds, hlt]
  have hsz : ((hp.hs.set! hc (.running, 0 + 1)).set! hc (.done (gp j), 0 + 1)).size = hp.hs.size := by
    simp [Array.set!_eq_setIfInBounds]
  exact ⟨j, Or.inr hget, ht, he, by simp only [hsz]; exact h1, h2, by simp only [hsz]; exact h3⟩

theorem genFresh_lsim (hg : Total g gp) (N : Nat) : LSim 3 (GenFresh g gp N) where
  isEmpty := by
    rintro fuel hp l xs lg hk h
    obtain ⟨f, rfl⟩ : ∃ f, fuel = f + 3 := ⟨fuel - 3, by omega⟩
    cases l with
    | nil => exact h.elim
    | cons a t => exact h.elim
    | seq ys => exact h.elim
    | nilIface => exact h.elim
    | adaptor hc tc =>
      obtain ⟨i, hcell, ht, he, h1, h2, h3⟩ := h
      have hempty : (gp i).isNone = xs.isEmpty := by
        cases xs with
        | nil => simp [Enum] at he; simp [he]
        | cons v r => simp [Enum] at he; simp [he.1]
      rcases hcell with hcell | hcell
      · obtain ⟨lg', e⟩ := forceH_gen_spec hg f hc hp lg i hcell
        refine ⟨_, lg', ?_, genFresh_force_head N xs hp hc tc i hcell ⟨i, Or.inl hcell, ht, he, h1, h2, h3⟩ he⟩
        rw [LL.isEmpty]
        simp only [bind_apply, e, pure_apply, hempty]
      · refine ⟨hp, lg, ?_, ⟨i, Or.inr hcell, ht, he, h1, h2, h3⟩⟩
        rw [LL.isEmpty]
        simp only [bind_apply, forceH_done _ hc hp lg _ _ hcell, pure_apply, hempty]
  head := by
    rintro fuel hp l x xs lg hk h
    obtain ⟨f, rfl⟩ : ∃ f, fuel = f + 3 := ⟨fuel - 3, by omega⟩
    cases l with
    | nil => exact h.elim
    | cons a t => exact h.elim
    | seq ys => exact h.elim
    | nilIface => exact h.elim
    | adaptor hc tc =>
      obtain ⟨i, hcell, ht, he, h1, h2, h3⟩ := h
      have hv : gp i = some x := he.1
      rcases hcell with hcell | hcell
      · obtain ⟨lg', e⟩ := forceH_gen_spec hg f hc hp lg i hcell
        refine ⟨_, lg', ?_, genFresh_force_head N (x :: xs) hp hc tc i hcell ⟨i, Or.inl hcell, ht, he, h1, h2, h3⟩ he⟩
        rw [LL.head]
        simp only [bind_apply, e, hv, pure_apply]
      · refine ⟨hp, lg, ?_, ⟨i, Or.inr hcell, ht, he, h1, h2, h3⟩⟩
        rw [LL.head]
        simp only [bind_apply, forceH_done _ hc hp lg _ _ hcell, hv, pure_apply]
  tail := by
    rintro fuel hp l x xs lg hk h
    obtain ⟨f, rfl⟩ : ∃ f, fuel = f + 3 := ⟨fuel - 3, by omega⟩
    cases l with
    | nil => exact h.elim
    | cons a t => exact h.elim
    | seq ys => exact h.elim
    | nilIface => exact h.elim
    | adaptor hc tc =>
      obtain ⟨i, hcell, hpend, he, h1, h2, h3⟩ := h
      have htc : tc < hp.ts.size := by omega
      refine ⟨.adaptor hp.hs.size hp.ts.size,
        { hp with hs := hp.hs.push (.pending (.gen (i + 1) g), 0),
                  ts := (((hp.ts.set! tc (.running, 0 + 1)).push (.pending (.gen (i + 1) g), 0)).set! tc
                    (.done (.adaptor hp.hs.size hp.ts.size), 0 + 1)) }, lg, ?_, ?_⟩
      · rw [LL.tail]; exact forceT_gen_spec f tc hp lg i hpend
      · have hsz : (hp.ts.set! tc (Cell.running, 0 + 1)).size = hp.ts.size := by
          simp [Array.set!_eq_setIfInBounds]
        have hH : (hp.hs.push (Cell.pending (HThunk.gen (i + 1) g), 0))[hp.hs.size]? =
            some (.pending (.gen (i + 1) g), 0) := by simp
        have hT : ((((hp.ts.set! tc (Cell.running, 0 + 1)).push (Cell.pending (TThunk.gen (i + 1) g), 0)).set! tc
            (Cell.done (LV.adaptor hp.hs.size hp.ts.size), 0 + 1)))[hp.ts.size]? =
            some (.pending (.gen (i + 1) g), 0) := by
          rw [set_get_other _ _ _ _ (by omega)]
          have := Array.getElem?_push_size (xs := hp.ts.set! tc (Cell.running, 0 + 1))
            (x := (Cell.pending (TThunk.gen (i + 1) g), 0))
          rw [hsz] at this
          exact this
        refine ⟨i + 1, Or.inl hH, hT, he.2, by simp, ?_, ?_⟩
        · simp [Array.set!_eq_setIfInBounds]
        · simp only [Array.size_push, List.length_cons] at h3 ⊢; omega

/-- `list.GenerateFrom(i, g)` builds a fresh cursor: two new cells at the end of the heap -/
theorem genFresh_makeList (hp : Heap) (lg : Log) (i : Int) (xs : List Val) (he : Enum gp i xs) :
    ∃ l hp', makeList (.gen i g) (.gen i g) hp lg = (.ok l, hp', lg) ∧
      GenFresh g gp (hp.hs.size + 1 + xs.length) hp' l xs := by
  refine ⟨.adaptor hp.hs.size hp.ts.size, _, rfl, i, Or.inl (by simp), by simp, he, by simp, by simp, by simp⟩

/-- `list.Range(a, b)` / `RangeClosed` from the empty heap: a fresh cursor; the heap holds ONE pair of
    cells however long the range is -/
theorem range_eval_fresh (closed : Bool) (a b : Int) (x : Val) (fuel : Nat) (lg : Log) :
    ∃ l hp, LL.eval (fuel + 1) (.range closed a b) x {} lg = (.ok l, hp, lg) ∧ hp.hs.size = 1 ∧
      GenFresh (rangeGen closed b) (rangeP closed b) (1 + ((LExpr.range closed a b).denote x).length) hp l
        ((LExpr.range closed a b).denote x) := by
  have henum : Enum (rangeP closed b) a ((LExpr.range closed a b).denote x) := by
    simp only [LExpr.denote]
    apply enum_range
    · intro j hj
      cases closed <;> simp only [rangeP, Bool.false_eq_true, if_false, if_true] at hj ⊢ <;>
        simp only [decide_eq_true_eq] <;> rw [if_pos (by omega)]
    · cases closed <;> simp only [rangeP, Bool.false_eq_true, if_false, if_true] <;>
        simp only [decide_eq_true_eq] <;> rw [if_neg (by omega)]
  obtain ⟨l, hp', e, hF⟩ := genFresh_makeList (g := rangeGen closed b) ({} : Heap) lg a _ henum
  refine ⟨l, hp', ?_, ?_, by simpa using hF⟩
  · rw [LL.eval]
    · exact e
    · exact fun h => absurd h (Nat.succ_ne_zero _)
  · have := hF.sizes.1
    simp at this
    omega

end FpVerif.LL
