import FpVerif.Model.SliceHeap
/-!
# The ownership discipline of the slice-heap programs (helper lemmas for Spec/C04Seq)

`Inv n0 h0 st`: the arrays below `n0` (those that existed when the library call started) are exactly as in `h0`,
and both slice registers are nil or point to arrays allocated since (`Own`), inside the heap.
Every primitive step preserves it — `goAppend` and `setAt` write into the REGISTER's array only, which is owned —
hence so does every program built from them (`Safe`).
-/
namespace FpVerif.SliceHeap

theorem updArr_length (h : Heap) (a : Nat) (f : List Int → List Int) : (updArr h a f).length = h.length := by
  induction h generalizing a with
  | nil => rfl
  | cons x xs ih => cases a <;> simp [updArr, ih]

theorem updArr_get_ne (h : Heap) (a a' : Nat) (f : List Int → List Int) (hne : a' ≠ a) :
    (updArr h a f)[a']? = h[a']? := by
  induction h generalizing a a' with
  | nil => rfl
  | cons x xs ih =>
    cases a with
    | zero =>
      cases a' with
      | zero => exact absurd rfl hne
      | succ n => simp [updArr]
    | succ m =>
      cases a' with
      | zero => simp [updArr]
      | succ n =>
        simp only [updArr, List.getElem?_cons_succ]
        exact ih m n (fun hh => hne (by rw [hh]))

/-- nil, or an array allocated at or after `n0` -/
def Own (n0 : Nat) (s : Slice) : Prop := ∀ a, s.arr = some a → n0 ≤ a

/-- nil, or an array of the heap -/
def InHeap (h : Heap) (s : Slice) : Prop := ∀ a, s.arr = some a → a < h.length

structure Inv (n0 : Nat) (h0 : Heap) (st : St) : Prop where
  len : n0 ≤ st.heap.length
  old : ∀ a, a < n0 → st.heap[a]? = h0[a]?
  ownA : Own n0 st.a
  ownB : Own n0 st.b
  inA : InHeap st.heap st.a
  inB : InHeap st.heap st.b

def Safe (p : Step) : Prop := ∀ n0 h0 st, Inv n0 h0 st → Inv n0 h0 (p st)

theorem own_nil (n0 : Nat) : Own n0 Slice.nil := by intro a h; simp [Slice.nil] at h
theorem inHeap_nil (h : Heap) : InHeap h Slice.nil := by intro a hh; simp [Slice.nil] at hh

/-! ### the primitives on one register -/

/-- growing the heap at the end keeps everything and gives an owned, in-heap slice -/
theorem push_old {n0 : Nat} {h0 h : Heap} (hl : n0 ≤ h.length) (ho : ∀ a, a < n0 → h[a]? = h0[a]?) (x : List Int) :
    ∀ a, a < n0 → (h ++ [x])[a]? = h0[a]? := by
  intro a ha
  rw [List.getElem?_append_left (Nat.lt_of_lt_of_le ha hl)]
  exact ho a ha

theorem inHeap_push {h : Heap} {s : Slice} (hs : InHeap h s) (x : List Int) : InHeap (h ++ [x]) s := by
  intro a ha
  have := hs a ha
  simp only [List.length_append, List.length_cons, List.length_nil]
  omega

theorem inHeap_upd {h : Heap} {s : Slice} (hs : InHeap h s) (a : Nat) (f : List Int → List Int) : InHeap (updArr h a f) s := by
  intro b hb
  rw [updArr_length]
  exact hs b hb

/-- an in-place write through an OWNED slice leaves the old arrays alone -/
theorem upd_old {n0 : Nat} {h0 h : Heap} (ho : ∀ a, a < n0 → h[a]? = h0[a]?) (b : Nat) (hb : n0 ≤ b) (f : List Int → List Int) :
    ∀ a, a < n0 → (updArr h b f)[a]? = h0[a]? := by
  intro a ha
  rw [updArr_get_ne h b a f (by omega)]
  exact ho a ha

theorem safe_skip : Safe skip := fun _ _ _ h => h
theorem safe_id : Safe id := fun _ _ _ h => h

theorem safe_seq {p q : Step} (hp : Safe p) (hq : Safe q) : Safe (p ;; q) :=
  fun n0 h0 st h => hq n0 h0 _ (hp n0 h0 st h)

theorem safe_iter (n : Nat) {body : Nat → Step} (hb : ∀ i, Safe (body i)) : Safe (iter n body) := by
  induction n with
  | zero => exact safe_id
  | succ n ih => exact fun n0 h0 st h => hb n n0 h0 _ (ih n0 h0 st h)

theorem safe_cond (c : St → Bool) {p q : Step} (hp : Safe p) (hq : Safe q) : Safe (cond c p q) := by
  intro n0 h0 st h
  unfold cond
  split
  · exact hp n0 h0 st h
  · exact hq n0 h0 st h

/-- a step chosen by looking at the state -/
theorem safe_dep {P : St → Step} (hP : ∀ x, Safe (P x)) : Safe (fun st => P st st) :=
  fun n0 h0 st h => hP st n0 h0 st h

theorem safe_mkA (l c : Nat) : Safe (mkA l c) := by
  intro n0 h0 st h
  refine ⟨?_, push_old h.len h.old _, ?_, h.ownB, ?_, inHeap_push h.inB _⟩
  · simp [mkA, make]; have := h.len; omega
  · intro a ha; simp [mkA, make] at ha; have := h.len; omega
  · intro a ha; simp [mkA, make] at ha ⊢; omega

theorem safe_mkB (l c : Nat) : Safe (mkB l c) := by
  intro n0 h0 st h
  refine ⟨?_, push_old h.len h.old _, h.ownA, ?_, inHeap_push h.inA _, ?_⟩
  · simp [mkB, make]; have := h.len; omega
  · intro a ha; simp [mkB, make] at ha; have := h.len; omega
  · intro a ha; simp [mkB, make] at ha ⊢; omega

theorem safe_litA (xs : St → List Int) : Safe (litA xs) := by
  intro n0 h0 st h
  refine ⟨?_, push_old h.len h.old _, ?_, h.ownB, ?_, inHeap_push h.inB _⟩
  · simp [litA, lit]; have := h.len; omega
  · intro a ha; simp [litA, lit] at ha; have := h.len; omega
  · intro a ha; simp [litA, lit] at ha ⊢; omega

theorem safe_litB (xs : St → List Int) : Safe (litB xs) := by
  intro n0 h0 st h
  refine ⟨?_, push_old h.len h.old _, h.ownA, ?_, inHeap_push h.inA _, ?_⟩
  · simp [litB, lit]; have := h.len; omega
  · intro a ha; simp [litB, lit] at ha; have := h.len; omega
  · intro a ha; simp [litB, lit] at ha ⊢; omega

/-- `append` through an owned slice: in place into the owned array, or into a new array -/
theorem goAppend_spec {n0 : Nat} {h0 h : Heap} (s : Slice) (xs : List Int)
    (hl : n0 ≤ h.length) (ho : ∀ a, a < n0 → h[a]? = h0[a]?) (hs : Own n0 s) (hin : InHeap h s) :
    n0 ≤ (goAppend h s xs).2.length ∧ (∀ a, a < n0 → (goAppend h s xs).2[a]? = h0[a]?) ∧
      Own n0 (goAppend h s xs).1 ∧ InHeap (goAppend h s xs).2 (goAppend h s xs).1 ∧
      (∀ t, InHeap h t → InHeap (goAppend h s xs).2 t) := by
  unfold goAppend
  split
  · exact ⟨hl, ho, hs, hin, fun _ ht => ht⟩
  · cases harr : s.arr with
    | none =>
      simp only [lit]
      refine ⟨by simp; omega, push_old hl ho _, ?_, ?_, fun t ht => inHeap_push ht _⟩
      · intro a ha; simp at ha; omega
      · intro a ha; simp at ha ⊢; omega
    | some b =>
      simp only
      split
      · refine ⟨by rw [updArr_length]; exact hl, upd_old ho b (hs b harr) _, ?_, ?_, fun t ht => inHeap_upd ht _ _⟩
        · intro a ha; simp at ha; subst ha; exact hs b harr
        · intro a ha; simp at ha; subst ha; rw [updArr_length]; exact hin b harr
      · simp only [lit]
        refine ⟨by simp; omega, push_old hl ho _, ?_, ?_, fun t ht => inHeap_push ht _⟩
        · intro a ha; simp at ha; omega
        · intro a ha; simp at ha ⊢; omega

theorem safe_appA (xs : St → List Int) : Safe (appA xs) := by
  intro n0 h0 st h
  obtain ⟨h1, h2, h3, h4, h5⟩ := goAppend_spec st.a (xs st) h.len h.old h.ownA h.inA
  exact ⟨h1, h2, h3, h.ownB, h4, h5 _ h.inB⟩

theorem safe_appB (xs : St → List Int) : Safe (appB xs) := by
  intro n0 h0 st h
  obtain ⟨h1, h2, h3, h4, h5⟩ := goAppend_spec st.b (xs st) h.len h.old h.ownB h.inB
  exact ⟨h1, h2, h.ownA, h3, h5 _ h.inA, h4⟩

theorem setAt_spec {n0 : Nat} {h0 h : Heap} (s : Slice) (i : Nat) (xs : List Int)
    (hl : n0 ≤ h.length) (ho : ∀ a, a < n0 → h[a]? = h0[a]?) (hs : Own n0 s) :
    n0 ≤ (setAt h s i xs).length ∧ (∀ a, a < n0 → (setAt h s i xs)[a]? = h0[a]?) ∧
      (∀ t, InHeap h t → InHeap (setAt h s i xs) t) := by
  unfold setAt
  cases harr : s.arr with
  | none => exact ⟨hl, ho, fun _ ht => ht⟩
  | some b =>
    exact ⟨by rw [updArr_length]; exact hl, upd_old ho b (hs b harr) _, fun t ht => inHeap_upd ht _ _⟩

theorem safe_setA (i : St → Nat) (xs : St → List Int) : Safe (setA i xs) := by
  intro n0 h0 st h
  obtain ⟨h1, h2, h3⟩ := setAt_spec st.a (i st) (xs st) h.len h.old h.ownA
  exact ⟨h1, h2, h.ownA, h.ownB, h3 _ h.inA, h3 _ h.inB⟩

theorem safe_setB (i : St → Nat) (xs : St → List Int) : Safe (setB i xs) := by
  intro n0 h0 st h
  obtain ⟨h1, h2, h3⟩ := setAt_spec st.b (i st) (xs st) h.len h.old h.ownB
  exact ⟨h1, h2, h.ownA, h.ownB, h3 _ h.inA, h3 _ h.inB⟩

theorem safe_moveBA : Safe moveBA := fun _ _ _ h => ⟨h.len, h.old, h.ownB, h.ownB, h.inB, h.inB⟩

theorem safe_nilA : Safe nilA := fun n0 _ st h => ⟨h.len, h.old, own_nil n0, h.ownB, inHeap_nil st.heap, h.inB⟩

theorem safe_concatInto (s : Slice) (tl : St → List Int) (n : Nat) : Safe (concatInto s tl n) :=
  safe_seq (safe_mkA _ _) (safe_seq (safe_setA _ _) (safe_iter _ (fun _ => safe_setA _ _)))

theorem safe_mapIntoB (t : Slice) (f : St → Int → Int) : Safe (mapIntoB t f) :=
  safe_seq (safe_mkB _ _) (safe_iter _ (fun _ => safe_setB _ _))

theorem safe_flatMapWith (s : Slice) {chunk : Nat → Step} (hc : ∀ i, Safe (chunk i)) : Safe (flatMapWith s chunk) :=
  safe_seq (safe_mkA _ _) (safe_iter _ (fun i => safe_seq (hc i) (safe_appA _)))

end FpVerif.SliceHeap
