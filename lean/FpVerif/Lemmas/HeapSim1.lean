import FpVerif.Lemmas.HeapSlice
import FpVerif.Lemmas.HeapFrame
import FpVerif.Lemmas.HamtBits
/-!
Simulation, part 1: footprint bookkeeping, the node constructors, `mergeIntoNode`.
-/
set_option linter.unusedSimpArgs false
set_option linter.unusedVariables false
namespace FpVerif.HamtHeap
open FpVerif.Hamt
variable {K V : Type} {α β : Type}

/-- What a heap-level operation on the trie with footprint `fp` must deliver: `p'` represents `n'`
    in `H'` as a TREE (`fp'` without repetition), only cells of the old footprint were written (and
    only on the in-place path), and the new footprint consists of old footprint cells and cells
    allocated by the operation. -/
def SimRes (mu : Bool) (F s : Nat) (H : Heap K V) (fp : List Addr) (H' : Heap K V) (p' : Addr)
    (n' : Node K V) : Prop :=
  ∃ fp', absF F s H' p' = some (n', fp') ∧ fp'.Nodup ∧ Eff H H' (if mu then fp else []) ∧
    ∀ a ∈ fp', a ∈ fp ∨ H.size ≤ a

theorem frag_ge32 (kh : UInt32) {s : Nat} (hs : 32 ≤ s) : frag kh s = 0 := by
  rw [frag_eq]
  have h1 : kh.toNat < 2 ^ 32 := kh.toNat_lt
  have h2 : 2 ^ 32 ≤ 2 ^ s := Nat.pow_le_pow_right (by decide) hs
  rw [Nat.div_eq_of_lt (by omega)]

-- footprint bookkeeping --------------------------------------------------------------------------------

theorem nodup_fresh2 {L : List Nat} {b : Nat} (hnd : L.Nodup) (hlt : ∀ x ∈ L, x < b) :
    ((b + 1) :: b :: L).Nodup := by
  rw [List.nodup_cons, List.nodup_cons]
  refine ⟨?_, ?_, hnd⟩
  · simp only [List.mem_cons, not_or]
    exact ⟨by omega, fun h => by have := hlt _ h; omega⟩
  · intro h; have := hlt _ h; omega

theorem nodup_fresh1 {L : List Nat} {b : Nat} (hnd : L.Nodup) (hlt : ∀ x ∈ L, x < b) : (b :: L).Nodup := by
  rw [List.nodup_cons]
  exact ⟨fun h => by have := hlt _ h; omega, hnd⟩

theorem flatten_set_eq {L : List (List Nat)} {idx : Nat} {old new : List Nat} (hold : L[idx]? = some old) :
    L.flatten = (L.take idx).flatten ++ old ++ (L.drop (idx + 1)).flatten ∧
    (L.set idx new).flatten = (L.take idx).flatten ++ new ++ (L.drop (idx + 1)).flatten := by
  have hlt : idx < L.length := by
    rcases Nat.lt_or_ge idx L.length with h | h
    · exact h
    · rw [List.getElem?_eq_none h] at hold; cases hold
  have hget : L[idx] = old := by
    rw [List.getElem?_eq_getElem hlt] at hold; injection hold
  constructor
  · conv => lhs; rw [← List.take_append_drop idx L, List.drop_eq_getElem_cons hlt, hget]
    simp
  · rw [List.set_eq_take_append_cons_drop, if_pos hlt]
    simp

theorem mem_flatten_set {L : List (List Nat)} {idx : Nat} {new : List Nat} {a : Nat}
    (h : a ∈ (L.set idx new).flatten) : a ∈ new ∨ a ∈ L.flatten := by
  rw [List.mem_flatten] at h
  obtain ⟨l, hl, hal⟩ := h
  rcases List.mem_or_eq_of_mem_set hl with h1 | h1
  · exact Or.inr (List.mem_flatten.mpr ⟨l, h1, hal⟩)
  · exact Or.inl (h1 ▸ hal)

theorem mem_flatten_of_getElem? {L : List (List Nat)} {j : Nat} {l : List Nat} (h : L[j]? = some l)
    {a : Nat} (ha : a ∈ l) : a ∈ L.flatten :=
  List.mem_flatten.mpr ⟨l, List.mem_of_getElem? h, ha⟩

/-- replacing one child's footprint by one that consists of its old cells and fresh cells keeps the
    whole footprint free of repetitions -/
theorem nodup_flatten_set {L : List (List Nat)} {idx : Nat} {old new : List Nat} {B : Nat}
    (hnd : L.flatten.Nodup) (hold : L[idx]? = some old) (hnew : new.Nodup)
    (hsub : ∀ a ∈ new, a ∈ old ∨ B ≤ a) (hB : ∀ a ∈ L.flatten, a < B) : (L.set idx new).flatten.Nodup := by
  obtain ⟨h1, h2⟩ := flatten_set_eq (new := new) hold
  rw [h2]
  rw [h1] at hnd hB
  simp only [List.nodup_append, List.mem_append] at hnd ⊢
  obtain ⟨⟨hA, hO, hAO⟩, hC, hAOC⟩ := hnd
  refine ⟨⟨hA, hnew, ?_⟩, hC, ?_⟩
  · intro a ha b hb hab
    subst hab
    rcases hsub _ hb with h | h
    · exact hAO a ha a h rfl
    · have := hB a (by simp [ha]); omega
  · intro a ha b hb hab
    subst hab
    rcases ha with ha | ha
    · exact hAOC a (Or.inl ha) a hb rfl
    · rcases hsub _ ha with h | h
      · exact hAOC a (Or.inr h) a hb rfl
      · have := hB a (by simp [hb]); omega

/-- siblings of the child at `idx` are disjoint from it in a footprint without repetition -/
theorem disjoint_of_nodup_flatten {L : List (List Nat)} (hnd : L.flatten.Nodup) {i j : Nat} {li lj : List Nat}
    (hi : L[i]? = some li) (hj : L[j]? = some lj) (hij : i ≠ j) {a : Nat} (hai : a ∈ li) : a ∉ lj := by
  have hp := (List.pairwise_flatten.mp hnd).2
  rw [List.pairwise_iff_getElem] at hp
  have hil := (List.getElem?_eq_some_iff.mp hi)
  have hjl := (List.getElem?_eq_some_iff.mp hj)
  obtain ⟨hi1, hi2⟩ := hil
  obtain ⟨hj1, hj2⟩ := hjl
  intro haj
  rcases Nat.lt_or_gt_of_ne hij with h | h
  · exact hp i j hi1 hj1 h a (hi2 ▸ hai) a (hj2 ▸ haj) rfl
  · exact hp j i hj1 hi1 h a (hj2 ▸ haj) a (hi2 ▸ hai) rfl

/-- inserting a child whose footprint is fresh -/
theorem nodup_flatten_insert {L : List (List Nat)} {idx : Nat} {new : List Nat} {B : Nat}
    (hnd : L.flatten.Nodup) (hnew : new.Nodup) (hfresh : ∀ a ∈ new, B ≤ a) (hB : ∀ a ∈ L.flatten, a < B) :
    (L.take idx ++ new :: L.drop idx).flatten.Nodup := by
  have h1 : L.flatten = (L.take idx).flatten ++ (L.drop idx).flatten := by
    rw [← List.flatten_append, List.take_append_drop]
  rw [h1] at hnd hB
  simp only [List.flatten_append, List.flatten_cons, List.nodup_append, List.mem_append] at hnd ⊢
  obtain ⟨hA, hC, hAC⟩ := hnd
  refine ⟨hA, ⟨hnew, hC, ?_⟩, ?_⟩
  · intro a ha b hb hab; subst hab
    have := hfresh a ha; have := hB a (by simp [hb]); omega
  · intro a ha b hb hab; subst hab
    rcases hb with hb | hb
    · have := hfresh a hb; have := hB a (by simp [ha]); omega
    · exact hAC a ha a hb rfl

theorem mem_flatten_insert {L : List (List Nat)} {idx : Nat} {new : List Nat} {a : Nat}
    (h : a ∈ (L.take idx ++ new :: L.drop idx).flatten) : a ∈ new ∨ a ∈ L.flatten := by
  simp only [List.flatten_append, List.flatten_cons, List.mem_append] at h
  rcases h with h | h | h
  · exact Or.inr (by
      rw [List.mem_flatten] at h ⊢
      obtain ⟨l, hl, hal⟩ := h
      exact ⟨l, List.mem_of_mem_take hl, hal⟩)
  · exact Or.inl h
  · exact Or.inr (by
      rw [List.mem_flatten] at h ⊢
      obtain ⟨l, hl, hal⟩ := h
      exact ⟨l, List.mem_of_mem_drop hl, hal⟩)

-- children ------------------------------------------------------------------------------------------

/-- the children of a bitmap node after the child at `idx` was replaced: the siblings are untouched
    because their footprints avoid the write set -/
theorem kids_set {f s : Nat} {H H' : Heap K V} {W : List Addr} (heff : Eff H H' W)
    {ps : List Addr} {rs : List (Node K V × List Addr)} (hk : mapOpt (absF f s H) ps = some rs)
    {idx : Nat} {c' : Addr} {r' : Node K V × List Addr} (hc' : absF f s H' c' = some r')
    (hdisj : ∀ j r, j ≠ idx → rs[j]? = some r → ∀ a ∈ r.2, a ∉ W) :
    mapOpt (absF f s H') (ps.set idx c') = some (rs.set idx r') := by
  rw [mapOpt_eq_some_iff]
  have hlen := mapOpt_length hk
  apply List.ext_getElem?
  intro j
  simp only [List.getElem?_map, List.getElem?_set]
  by_cases hj : idx = j
  · subst hj
    simp only [if_true, hlen]
    split <;> simp [hc']
  · simp only [hj, if_false]
    cases hp : ps[j]? with
    | none =>
      have : rs[j]? = none := by
        rw [List.getElem?_eq_none_iff] at hp ⊢; omega
      simp [this]
    | some c =>
      obtain ⟨r, hr, hcabs⟩ := mapOpt_getElem? hk hp
      have := heff.absF (n := r.1) (fp := r.2) hcabs (hdisj j r (Ne.symm hj) hr)
      simp [hr, this]

/-- same for the slots of a hash-array node -/
theorem slots_set {f s : Nat} {H H' : Heap K V} {W : List Addr} (heff : Eff H H' W)
    {slots : List (Option Addr)} {rs : List (Option (Node K V) × List Addr)}
    (hk : mapOpt (absSlot f s H) slots = some rs)
    {idx : Nat} {c' : Option Addr} {r' : Option (Node K V) × List Addr} (hc' : absSlot f s H' c' = some r')
    (hdisj : ∀ j r, j ≠ idx → rs[j]? = some r → ∀ a ∈ r.2, a ∉ W) :
    mapOpt (absSlot f s H') (slots.set idx c') = some (rs.set idx r') := by
  rw [mapOpt_eq_some_iff]
  have hlen := mapOpt_length hk
  apply List.ext_getElem?
  intro j
  simp only [List.getElem?_map, List.getElem?_set]
  by_cases hj : idx = j
  · subst hj
    simp only [if_true, hlen]
    split <;> simp [hc']
  · simp only [hj, if_false]
    cases hp : slots[j]? with
    | none =>
      have : rs[j]? = none := by
        rw [List.getElem?_eq_none_iff] at hp ⊢; omega
      simp [this]
    | some o =>
      obtain ⟨r, hr, hoabs⟩ := mapOpt_getElem? hk hp
      have : absSlot f s H' o = some r := by
        cases o with
        | none => exact hoabs
        | some c =>
          simp only [absSlot, Option.map_eq_some_iff] at hoabs ⊢
          obtain ⟨rc, hcabs, hrc⟩ := hoabs
          refine ⟨rc, heff.absF (n := rc.1) (fp := rc.2) hcabs ?_, hrc⟩
          intro a ha
          exact hdisj j r (Ne.symm hj) hr a (by rw [← hrc]; exact ha)
      simp [hr, this]

-- constructors ----------------------------------------------------------------------------------------

theorem mkValue_abs (H : Heap K V) (kh : UInt32) (k : K) (v : V) (f s : Nat) :
    absF (f + 1) s (H.push (.value kh k v)) H.size = some (Node.value kh k v, [H.size]) :=
  absF_value (get_push_size _ _)

/-- `&mapArrayNode{entries: …}` / `&mapHashCollisionNode{…}` with a new backing array -/
theorem mkEnts_heap (H : Heap K V) (es : List (K × V)) (cap : Nat) (c : Slice → Cell K V) :
    (allocSlots (entSlots es) cap >>= fun sl => alloc (c sl)) H =
      .ok (H.size + 1, (H.push (.arr ((entSlots es).map some ++ List.replicate (cap - (entSlots es).length) none))).push
        (c ⟨H.size, (entSlots es).length⟩)) := by
  rw [bind_ok (allocSlots_apply _ _ _)]
  simp [alloc_apply]

theorem viewEnts_push2 (H : Heap K V) (es : List (K × V)) (t : List (Option (Slot K V))) (c : Cell K V) :
    viewEnts ((H.push (.arr ((entSlots es).map some ++ t))).push c) ⟨H.size, (entSlots es).length⟩ = some es := by
  have h1 := viewEnts_push H es t
  have : ((H.push (.arr ((entSlots es).map some ++ t))).push c)[H.size]? =
      (H.push (.arr ((entSlots es).map some ++ t)))[H.size]? :=
    (Heap.le_push _ c).2 H.size (by simp)
  unfold viewEnts at h1 ⊢
  rw [viewWith_agree (s := ⟨H.size, _⟩) this]; exact h1

theorem viewPtrs_push2 (H : Heap K V) (ps : List Addr) (t : List (Option (Slot K V))) (c : Cell K V) :
    viewPtrs ((H.push (.arr ((ptrSlots ps : List (Slot K V)).map some ++ t))).push c)
      ⟨H.size, (ptrSlots ps : List (Slot K V)).length⟩ = some ps := by
  have h1 := viewPtrs_push (K := K) (V := V) H ps t
  have : ((H.push (.arr ((ptrSlots ps : List (Slot K V)).map some ++ t))).push c)[H.size]? =
      (H.push (.arr ((ptrSlots ps : List (Slot K V)).map some ++ t)))[H.size]? :=
    (Heap.le_push _ c).2 H.size (by simp)
  unfold viewPtrs at h1 ⊢
  rw [viewWith_agree (s := ⟨H.size, _⟩) this]; exact h1

theorem mkArray_abs (H : Heap K V) (es : List (K × V)) (t : List (Option (Slot K V))) (f : Nat) :
    absF (f + 1) 0 ((H.push (.arr ((entSlots es).map some ++ t))).push (.array ⟨H.size, (entSlots es).length⟩))
      (H.size + 1) = some (Node.array es, [H.size + 1, H.size]) := by
  have hc : ((H.push (.arr ((entSlots es).map some ++ t))).push (.array ⟨H.size, (entSlots es).length⟩))[H.size + 1]? =
      some (.array ⟨H.size, (entSlots es).length⟩) := by
    have := get_push_size (H.push (.arr ((entSlots es).map some ++ t))) (.array ⟨H.size, (entSlots es).length⟩)
    simpa using this
  rw [absF_array hc, viewEnts_push2]; simp

theorem mkCollision_abs (H : Heap K V) (kh : UInt32) (es : List (K × V)) (t : List (Option (Slot K V))) (f s : Nat) :
    absF (f + 1) s ((H.push (.arr ((entSlots es).map some ++ t))).push (.collision kh ⟨H.size, (entSlots es).length⟩))
      (H.size + 1) = some (Node.collision kh es, [H.size + 1, H.size]) := by
  have hc : ((H.push (.arr ((entSlots es).map some ++ t))).push (.collision kh ⟨H.size, (entSlots es).length⟩))[H.size + 1]? =
      some (.collision kh ⟨H.size, (entSlots es).length⟩) := by
    have := get_push_size (H.push (.arr ((entSlots es).map some ++ t))) (.collision kh ⟨H.size, (entSlots es).length⟩)
    simpa using this
  rw [absF_collision hc, viewEnts_push2]; simp

/-- `&mapBitmapIndexedNode{bitmap, nodes}` with a new backing array over existing children -/
theorem mkBitmap_heap (H : Heap K V) (ps : List Addr) (cap bm : Nat) :
    (allocSlots (ptrSlots ps) cap >>= fun sl => alloc (.bitmap bm sl)) H =
      .ok (H.size + 1, (H.push (.arr ((ptrSlots ps : List (Slot K V)).map some ++
        List.replicate (cap - (ptrSlots ps : List (Slot K V)).length) none))).push
        (.bitmap bm ⟨H.size, (ptrSlots ps : List (Slot K V)).length⟩)) := by
  rw [bind_ok (allocSlots_apply _ _ _)]
  simp [alloc_apply]

theorem mkBitmap_abs {H : Heap K V} {ps : List Addr} {rs : List (Node K V × List Addr)} {f s : Nat}
    (hk : mapOpt (absF f (s + mapNodeBits) H) ps = some rs) (hs : s < 32) (t : List (Option (Slot K V))) (bm : Nat) :
    absF (f + 1) s ((H.push (.arr ((ptrSlots ps : List (Slot K V)).map some ++ t))).push
        (.bitmap bm ⟨H.size, (ptrSlots ps : List (Slot K V)).length⟩)) (H.size + 1) =
      some (Node.bitmap bm (rs.map (·.1)), (H.size + 1) :: H.size :: (rs.map (·.2)).flatten) := by
  let H2 := (H.push (.arr ((ptrSlots ps : List (Slot K V)).map some ++ t))).push
        (.bitmap bm ⟨H.size, (ptrSlots ps : List (Slot K V)).length⟩)
  have hc : H2[H.size + 1]? = some (.bitmap bm ⟨H.size, (ptrSlots ps : List (Slot K V)).length⟩) := by
    have := get_push_size (H.push (.arr ((ptrSlots ps : List (Slot K V)).map some ++ t)))
      (.bitmap bm ⟨H.size, (ptrSlots ps : List (Slot K V)).length⟩)
    simpa [H2] using this
  have hle : Heap.le H H2 := Heap.le_trans (Heap.le_push _ _) (Heap.le_push _ _)
  have hk' : mapOpt (absF f (s + mapNodeBits) H2) ps = some rs := by
    rw [← hk]; apply mapOpt_congr
    intro c hcm
    obtain ⟨r, _, hcabs⟩ := mapOpt_mem hk hcm
    rw [hcabs]; exact absF_le (n := r.1) (fp := r.2) hcabs hle
  show absF (f + 1) s H2 (H.size + 1) = _
  rw [absF_bitmap hc hs, viewPtrs_push2]
  simp [hk']

theorem mkHashArray_abs {H : Heap K V} {slots : List (Option Addr)}
    {rs : List (Option (Node K V) × List Addr)} {f s : Nat}
    (hk : mapOpt (absSlot f (s + mapNodeBits) H) slots = some rs) (hs : s < 32) (cnt : Nat) :
    absF (f + 1) s (H.push (.hashArray cnt slots)) H.size =
      some (Node.hashArray cnt (rs.map (·.1)), H.size :: (rs.map (·.2)).flatten) := by
  have hle : Heap.le H (H.push (.hashArray cnt slots)) := Heap.le_push _ _
  have hk' : mapOpt (absSlot f (s + mapNodeBits) (H.push (.hashArray cnt slots))) slots = some rs := by
    rw [← hk]; apply mapOpt_congr
    intro o hom
    obtain ⟨r, _, hoabs⟩ := mapOpt_mem hk hom
    cases o with
    | none => rfl
    | some c =>
      simp only [absSlot, Option.map_eq_some_iff] at hoabs ⊢
      obtain ⟨rc, hcabs, hrc⟩ := hoabs
      rw [absF_le (n := rc.1) (fp := rc.2) hcabs hle, hcabs]
  rw [absF_hashArray (get_push_size _ _) hs]
  simp [hk']

end FpVerif.HamtHeap
