import FpVerif.Model.DeriveInst
import FpVerif.Lemmas.Derive
import FpVerif.Lemmas.TCOrd
/-!
# Helper lemmas for C08: the concrete component instances are lawful.  Core Lean only.

The sequence / map / option orders re-use the lemmas of C09 / C10 (`Lemmas/TCEq.lean`,
`Lemmas/TCOrd.lean`) about the very same model functions.
-/
namespace FpVerif.Derive
open FpVerif.Rec

variable {α β : Type}

/-! ## transfer along projections -/

theorem LawfulEqOn.comap {P : α → Prop} {Q : β → Prop} {d : EqD α} (L : LawfulEqOn P d)
    (f : β → α) (hf : ∀ x, Q x → P (f x)) : LawfulEqOn Q (d.comap f) where
  refl a qa := L.refl (f a) (hf a qa)
  symm a b qa qb := L.symm (f a) (f b) (hf a qa) (hf b qb)
  trans a b c qa qb qc := L.trans (f a) (f b) (f c) (hf a qa) (hf b qb) (hf c qc)

theorem LawfulHashOn.comap {P : α → Prop} {Q : β → Prop} {d : HashD α} (L : LawfulHashOn P d)
    (f : β → α) (hf : ∀ x, Q x → P (f x)) : LawfulHashOn Q (d.comap f) where
  congr a b qa qb := L.congr (f a) (f b) (hf a qa) (hf b qb)

/-- equality of a projection is an equivalence -/
theorem lawfulEq_proj {γ : Type} [BEq γ] [LawfulBEq γ] (f : α → γ) :
    LawfulEq (⟨fun a b => f a == f b⟩ : EqD α) where
  refl a _ := by simp
  symm a b _ _ h := by simp at h ⊢; exact h.symm
  trans a b c _ _ _ h1 h2 := by simp at h1 h2 ⊢; exact h1.trans h2

theorem eqInt_lawful : LawfulEq eqInt := lawfulEq_proj DV.asInt
theorem eqStr_lawful : LawfulEq eqStr := lawfulEq_proj DV.asStr
theorem eqBool_lawful : LawfulEq eqBool := lawfulEq_proj DV.asBool
theorem eqMod10_lawful : LawfulEq eqMod10 := lawfulEq_proj fun a : DV => a.asInt % 10
theorem eqMoney100_lawful : LawfulEq eqMoney100 := lawfulEq_proj fun a : DV => Int.tdiv a.asInt 100
theorem eqMoney7_lawful : LawfulEq eqMoney7 := lawfulEq_proj fun a : DV => Int.tmod a.asInt 7
theorem eqTrivial_lawful : LawfulEq EqD.trivial :=
  ⟨fun _ _ => rfl, fun _ _ _ _ _ => rfl, fun _ _ _ _ _ _ _ _ => rfl⟩

/-! ## eq combinators -/

theorem optEqv_lawful {e : EqD DV} (L : LawfulEq e) :
    LawfulEq (⟨optEqv e⟩ : EqD (Option DV)) where
  refl a _ := by cases a <;> simp [optEqv, L.refl _ trivial]
  symm a b _ _ h := by
    cases a <;> cases b <;> simp_all [optEqv]
    exact L.symm _ _ trivial trivial h
  trans a b c _ _ _ h1 h2 := by
    cases a <;> cases b <;> cases c <;> simp_all [optEqv]
    exact L.trans _ _ _ trivial trivial trivial h1 h2

theorem eqOption_lawful {e : EqD DV} (L : LawfulEq e) : LawfulEq (eqOption e) :=
  (optEqv_lawful L).comap DV.asOpt fun _ _ => trivial

theorem eqPtr_lawful {e : EqD DV} (L : LawfulEq e) : LawfulEq (eqPtr e) :=
  (optEqv_lawful L).comap DV.asPtr fun _ _ => trivial

/-- the law bundle of C09 for the same relation -/
theorem toTC {e : EqD α} (L : LawfulEq e) : TC.LawfulEq (⟨e.eqv⟩ : TC.EqD α) where
  refl a := L.refl a trivial
  symm a b := L.symm a b trivial trivial
  trans a b c := L.trans a b c trivial trivial trivial

theorem ofTC {e : TC.EqD α} (L : TC.LawfulEq e) : LawfulEq (⟨e.eqv⟩ : EqD α) where
  refl a _ := L.refl a
  symm a b _ _ := L.symm a b
  trans a b c _ _ _ := L.trans a b c

theorem seqEqv_iff (e : EqD DV) (a b : List DV) :
    seqEqv e a b = true ↔ TC.Pointwise (fun x y => e.eqv x y = true) a b :=
  TC.seq_eqv_iff ⟨e.eqv⟩ a b

theorem seqEqv_lawful {e : EqD DV} (L : LawfulEq e) : LawfulEq (⟨seqEqv e⟩ : EqD (List DV)) where
  refl a _ := (seqEqv_iff e a a).2 (TC.Pointwise.refl (fun x => L.refl x trivial) a)
  symm a b _ _ h := (seqEqv_iff e b a).2
    (TC.Pointwise.symm (fun x y => L.symm x y trivial trivial) ((seqEqv_iff e a b).1 h))
  trans a b c _ _ _ h1 h2 := (seqEqv_iff e a c).2
    (TC.Pointwise.trans (fun x y z => L.trans x y z trivial trivial trivial)
      ((seqEqv_iff e a b).1 h1) ((seqEqv_iff e b c).1 h2))

theorem eqSeq_lawful {e : EqD DV} (L : LawfulEq e) : LawfulEq (eqSeq e) :=
  (seqEqv_lawful L).comap DV.asList fun _ _ => trivial

theorem eqSlice_lawful {e : EqD DV} (L : LawfulEq e) : LawfulEq (eqSlice e) :=
  (eqSeq_lawful L).comap id fun _ _ => trivial

theorem goMapEqv_lawful {e : EqD DV} (L : LawfulEq e) :
    LawfulEq (⟨(TC.EqD.goMap (κ := List UInt8) ⟨e.eqv⟩).eqv⟩ : EqD (TC.GoMap (List UInt8) DV)) where
  refl a _ := (TC.goMap_eqv_iff _ a a).2 fun k => by
    cases h : a.get k <;> simp [TC.OptRel]
    exact L.refl _ trivial
  symm a b _ _ hab := (TC.goMap_eqv_iff _ b a).2 fun k => by
    have := (TC.goMap_eqv_iff _ a b).1 hab k
    cases ha : a.get k <;> cases hb : b.get k <;> simp_all [TC.OptRel]
    exact L.symm _ _ trivial trivial this
  trans a b c _ _ _ hab hbc := (TC.goMap_eqv_iff _ a c).2 fun k => by
    have h1 := (TC.goMap_eqv_iff _ a b).1 hab k
    have h2 := (TC.goMap_eqv_iff _ b c).1 hbc k
    cases ha : a.get k <;> cases hb : b.get k <;> cases hc : c.get k <;> simp_all [TC.OptRel]
    exact L.trans _ _ _ trivial trivial trivial h1 h2

theorem eqGoMap_lawful {e : EqD DV} (L : LawfulEq e) : LawfulEq (eqGoMap e) :=
  (goMapEqv_lawful L).comap DV.goMap fun _ _ => trivial

/-- a lawful instance of tuples of one arity, read through `asN` (which always has that arity) -/
theorem lawfulEq_asN {n : Nat} {d : EqD (List DV)} (L : LawfulEqOn (fun l => l.length = n) d) :
    LawfulEq (d.comap (DV.asN n)) :=
  L.comap (DV.asN n) fun v _ => DV.asN_length n v

theorem tupleEq_lawful (ds : List (EqD DV)) (h : ∀ d ∈ ds, LawfulEq d) :
    LawfulEqOn (fun l : List DV => l.length = ds.length) ⟨tupleEq ds⟩ where
  refl a pa := tupleEq_refl ds h a pa
  symm a b pa pb := tupleEq_symm ds h a b pa pb
  trans a b c pa pb pc := tupleEq_trans ds h a b c pa pb pc

theorem eqTuple2_lawful {a b : EqD DV} (La : LawfulEq a) (Lb : LawfulEq b) :
    LawfulEq (eqTuple2 a b) :=
  lawfulEq_asN (n := 2) (tupleEq_lawful [a, b] (by
    intro d hd; simp at hd; rcases hd with rfl | rfl
    · exact La
    · exact Lb))

/-! ## hash -/

theorem lawfulHash_proj {γ : Type} [BEq γ] [LawfulBEq γ] (f : α → γ) (g : γ → UInt32) :
    LawfulHash (⟨fun a b => f a == f b, fun a => g (f a)⟩ : HashD α) where
  congr a b _ _ h := by simp at h; simp [h]

theorem hashNumber_lawful : LawfulHash hashNumber :=
  lawfulHash_proj DV.asInt fun i => TC.HashD.hashUint64 (UInt64.ofInt i)
theorem hashStr_lawful : LawfulHash hashStr := lawfulHash_proj DV.asStr TC.HashD.fnv1
theorem hashMod10_lawful : LawfulHash hashMod10 :=
  lawfulHash_proj (fun a : DV => a.asInt % 10) UInt32.ofInt
theorem hashMoney100_lawful : LawfulHash hashMoney100 :=
  lawfulHash_proj (fun a : DV => Int.tdiv a.asInt 100) UInt32.ofInt
theorem hashTrivial_lawful : LawfulHash HashD.trivial := ⟨fun _ _ _ _ _ => rfl⟩

theorem hashOption_lawful {h : HashD DV} (L : LawfulHash h) : LawfulHash (hashOption h) where
  congr a b _ _ e := by
    simp only [hashOption, eqOption, HashD.toEq] at e ⊢
    cases ha : a.asOpt <;> cases hb : b.asOpt <;> simp_all [optEqv]
    exact L.congr _ _ trivial trivial e

theorem hashPtr_lawful {h : HashD DV} (L : LawfulHash h) : LawfulHash (hashPtr h) where
  congr a b _ _ e := by
    simp only [hashPtr, eqPtr, HashD.toEq] at e ⊢
    cases ha : a.asPtr <;> cases hb : b.asPtr <;> simp_all [optEqv]
    exact L.congr _ _ trivial trivial e

theorem foldHash_congr {h : HashD DV} (L : LawfulHash h) {a b : List DV}
    (p : TC.Pointwise (fun x y => h.eqv x y = true) a b) (acc : UInt32) :
    a.foldl (fun acc t => acc * 31 + h.hash t) acc = b.foldl (fun acc t => acc * 31 + h.hash t) acc := by
  induction p generalizing acc with
  | nil => rfl
  | cons hxy _ ih => simp only [List.foldl_cons, L.congr _ _ trivial trivial hxy]; exact ih _

theorem hashSeq_lawful {h : HashD DV} (L : LawfulHash h) : LawfulHash (hashSeq h) where
  congr a b _ _ e := by
    simp only [hashSeq, eqSeq, HashD.toEq] at e ⊢
    exact foldHash_congr L ((seqEqv_iff _ _ _).1 e) 0

theorem hashSlice_lawful {h : HashD DV} (L : LawfulHash h) : LawfulHash (hashSlice h) where
  congr a b _ _ e := (hashSeq_lawful L).congr a b trivial trivial e

theorem lawfulHash_asN {n : Nat} {d : HashD (List DV)} (L : LawfulHashOn (fun l => l.length = n) d) :
    LawfulHash (d.comap (DV.asN n)) :=
  L.comap (DV.asN n) fun v _ => DV.asN_length n v

theorem hashTuple2_lawful {a b : HashD DV} (La : LawfulHash a) (Lb : LawfulHash b) :
    LawfulHash (hashTuple2 a b) :=
  lawfulHash_asN (n := 2) ⟨fun x y px py e =>
    tupleHash_congr [a, b] (by
      intro d hd; simp at hd; rcases hd with rfl | rfl
      · exact La
      · exact Lb) x y px py e⟩

/-! ## ord -/

theorem lawfulOrd_of {d : OrdD α} (sw : TC.StrictWeak d.less) (c : OrdCompat d) : LawfulOrd d where
  irrefl a _ := sw.irrefl a
  trans a b c _ _ _ := sw.trans a b c
  eqv_iff a b _ _ := c a b
  eqv_trans a b x _ _ _ h1 h2 := by
    have i1 := (c a b).1 h1
    have i2 := (c b x).1 h2
    exact (c a x).2 (sw.incomp_trans a b x i1.1 i1.2 i2.1 i2.2)

theorem LawfulOrdOn.strictWeak {d : OrdD α} (L : LawfulOrd d) : TC.StrictWeak d.less where
  irrefl a := L.irrefl a trivial
  trans a b c := L.trans a b c trivial trivial trivial
  incomp_trans a b c h1 h2 h3 h4 := L.incomp_trans trivial trivial trivial h1 h2 h3 h4

theorem ofLess_lawful {l : α → α → Bool} (sw : TC.StrictWeak l) : LawfulOrd (OrdD.ofLess l) :=
  lawfulOrd_of sw fun a b => by simp [OrdD.ofLess]

/-- `ord.New(eqv, less)` of a lawful pair is that pair -/
theorem new_lawful {e l : α → α → Bool} (L : LawfulOrd ⟨e, l⟩) : LawfulOrd (OrdD.new e l) :=
  L.congr fun a b _ _ => OrdD.new_of_compat e l a b (L.eqv_iff a b trivial trivial)

theorem ordTrivial_lawful : LawfulOrd OrdD.trivial :=
  ⟨fun _ _ => rfl, fun _ _ _ _ _ _ h => by simp [OrdD.trivial] at h, fun _ _ _ _ => by simp [OrdD.trivial],
   fun _ _ _ _ _ _ _ _ => rfl⟩

theorem intLt_strictWeak : TC.StrictWeak fun a b : Int => decide (a < b) where
  irrefl a := by simp
  trans a b c h1 h2 := by simp at *; omega
  incomp_trans a b c h1 h2 h3 h4 := by simp at *; omega

theorem natLt_strictWeak : TC.StrictWeak fun a b : Nat => decide (a < b) where
  irrefl a := by simp
  trans a b c h1 h2 := by simp at *; omega
  incomp_trans a b c h1 h2 h3 h4 := by simp at *; omega

/-- comparison of an integer key: `Eqv` = same key, `Less` = smaller key -/
theorem intKey_lawful (f : α → Int) :
    LawfulOrd (⟨fun a b => f a == f b, fun a b => decide (f a < f b)⟩ : OrdD α) :=
  lawfulOrd_of (intLt_strictWeak.comap f) fun a b => by simp; omega

theorem ordInt_lawful : LawfulOrd ordInt := ofLess_lawful (intLt_strictWeak.comap DV.asInt)

theorem bytesLt_strictWeak : TC.StrictWeak bytesLt :=
  TC.StrictWeak.seq (ord := TC.OrdD.lessFunc fun x y : UInt8 => decide (x.toNat < y.toNat))
    (natLt_strictWeak.comap UInt8.toNat)

theorem ordStr_lawful : LawfulOrd ordStr := ofLess_lawful (bytesLt_strictWeak.comap DV.asStr)

theorem ordMod10_lawful : LawfulOrd ordMod10 := new_lawful (intKey_lawful fun a : DV => a.asInt % 10)
theorem ordMoney100_lawful : LawfulOrd ordMoney100 :=
  new_lawful (intKey_lawful fun a : DV => Int.tdiv a.asInt 100)

theorem optLess_eq (m : OrdD DV) : optLess m = TC.optLess m.less := by
  funext a b; cases a <;> cases b <;> rfl

theorem ptrLess_eq (m : OrdD DV) : ptrLess m = TC.optLess m.less := by
  funext a b; cases a <;> cases b <;> rfl

theorem ordOption_lawful {m : OrdD DV} (L : LawfulOrd m) : LawfulOrd (ordOption m) := by
  unfold ordOption
  rw [optLess_eq]
  exact ofLess_lawful ((TC.StrictWeak.opt L.strictWeak).comap DV.asOpt)

/-- the pair (`eq.Ptr`'s `Eqv`, nil-first `Less`) on `Option` -/
theorem optPair_lawful {o : OrdD DV} (L : LawfulOrd o) :
    LawfulOrd (⟨optEqv o.toEq, TC.optLess o.less⟩ : OrdD (Option DV)) :=
  lawfulOrd_of (TC.StrictWeak.opt L.strictWeak) fun a b => by
    cases a <;> cases b <;> simp [optEqv, TC.optLess, OrdD.toEq]
    exact L.eqv_iff _ _ trivial trivial

theorem ordPtr_lawful {o : OrdD DV} (L : LawfulOrd o) : LawfulOrd (ordPtr o) := by
  unfold ordPtr
  rw [ptrLess_eq]
  exact new_lawful ((optPair_lawful L).comap DV.asPtr fun _ _ => trivial)

theorem pointwise_congr {R S : α → α → Prop} (h : ∀ a b, R a b ↔ S a b) {a b : List α} :
    TC.Pointwise R a b ↔ TC.Pointwise S a b := by
  constructor
  · intro p; induction p with
    | nil => exact .nil
    | cons hab _ ih => exact .cons ((h _ _).1 hab) ih
  · intro p; induction p with
    | nil => exact .nil
    | cons hab _ ih => exact .cons ((h _ _).2 hab) ih

/-- the pair (`eq.Seq`'s `Eqv`, lexicographic `Less`) on lists -/
theorem seqPair_lawful {o : OrdD DV} (L : LawfulOrd o) :
    LawfulOrd (⟨seqEqv o.toEq, seqLess o⟩ : OrdD (List DV)) :=
  lawfulOrd_of (TC.StrictWeak.seq (ord := TC.OrdD.lessFunc o.less) L.strictWeak) fun a b => by
    show seqEqv o.toEq a b = true ↔ _
    rw [seqEqv_iff]
    have := TC.seqLess_incomp_iff (ord := TC.OrdD.lessFunc o.less) L.strictWeak a b
    simp only [seqLess]
    rw [this]
    exact pointwise_congr fun x y => L.eqv_iff x y trivial trivial

theorem ordSeq_lawful {o : OrdD DV} (L : LawfulOrd o) : LawfulOrd (ordSeq o) :=
  new_lawful ((seqPair_lawful L).comap DV.asList fun _ _ => trivial)

theorem ordSlice_lawful {o : OrdD DV} (L : LawfulOrd o) : LawfulOrd (ordSlice o) :=
  (ordSeq_lawful L).contraMap id fun _ _ => trivial

theorem lawfulOrd_asN {n : Nat} {d : OrdD (List DV)} (L : LawfulOrdOn (fun l => l.length = n) d) :
    LawfulOrd (d.comap (DV.asN n)) :=
  L.comap (DV.asN n) fun v _ => DV.asN_length n v

theorem ordTuple2_lawful {a b : OrdD DV} (La : LawfulOrd a) (Lb : LawfulOrd b) :
    LawfulOrd (ordTuple2 a b) :=
  lawfulOrd_asN (n := 2) (tupleOrd_lawful [a, b] (by
    intro d hd; simp at hd; rcases hd with rfl | rfl
    · exact La
    · exact Lb))

/-! ## monoid -/

theorem emod_mul_left (a b n : Int) : (a % n * b) % n = (a * b) % n := by
  rw [Int.mul_emod, Int.emod_emod, ← Int.mul_emod]

theorem emod_mul_right (a b n : Int) : (a * (b % n)) % n = (a * b) % n := by
  rw [Int.mul_emod, Int.emod_emod, ← Int.mul_emod]

theorem IntKind.wrap_mul_left (k : IntKind) (a b : Int) : k.wrap (k.wrap a * b) = k.wrap (a * b) := by
  cases k <;> simp only [IntKind.wrap]
  · exact Int.bmod_mul_bmod
  · exact Int.bmod_mul_bmod
  · exact emod_mul_left a b _

theorem IntKind.wrap_mul_right (k : IntKind) (a b : Int) : k.wrap (a * k.wrap b) = k.wrap (a * b) := by
  cases k <;> simp only [IntKind.wrap]
  · exact Int.mul_bmod_bmod
  · exact Int.mul_bmod_bmod
  · exact emod_mul_right a b _

theorem IntKind.wrap_add_left (k : IntKind) (a b : Int) : k.wrap (k.wrap a + b) = k.wrap (a + b) := by
  cases k <;> simp only [IntKind.wrap]
  · exact Int.bmod_add_bmod
  · exact Int.bmod_add_bmod
  · exact Int.emod_add_emod a _ b

theorem IntKind.wrap_add_right (k : IntKind) (a b : Int) : k.wrap (a + k.wrap b) = k.wrap (a + b) := by
  cases k <;> simp only [IntKind.wrap]
  · exact Int.add_bmod_bmod
  · exact Int.add_bmod_bmod
  · exact Int.add_emod_emod a b _

/-- `monoid.Product[T]()` is a monoid on the values of the integer type `T` (wrap-around
    multiplication is associative) -/
theorem monoidProduct_lawful (k : IntKind) : LawfulMonoidOn k.InRange (monoidProduct k) where
  left_id a pa := by
    obtain ⟨n, rfl, hn⟩ := pa
    simp [monoidProduct, DV.asInt, hn]
  right_id a pa := by
    obtain ⟨n, rfl, hn⟩ := pa
    simp [monoidProduct, DV.asInt, hn]
  assoc a b c pa pb pc := by
    obtain ⟨x, rfl, _⟩ := pa
    obtain ⟨y, rfl, _⟩ := pb
    obtain ⟨z, rfl, _⟩ := pc
    simp only [monoidProduct, DV.asInt]
    rw [k.wrap_mul_left, k.wrap_mul_right, Int.mul_assoc]

/-- `monoid.New(0, a + b)` (`MonoidMyInt`, `dep.MonoidMoney`) -/
theorem monoidSum_lawful (k : IntKind) : LawfulMonoidOn k.InRange (monoidSum k) where
  left_id a pa := by
    obtain ⟨n, rfl, hn⟩ := pa
    simp [monoidSum, DV.asInt, hn]
  right_id a pa := by
    obtain ⟨n, rfl, hn⟩ := pa
    simp [monoidSum, DV.asInt, hn]
  assoc a b c pa pb pc := by
    obtain ⟨x, rfl, _⟩ := pa
    obtain ⟨y, rfl, _⟩ := pb
    obtain ⟨z, rfl, _⟩ := pc
    simp only [monoidSum, DV.asInt]
    rw [k.wrap_add_left, k.wrap_add_right, Int.add_assoc]

theorem monoidStr_lawful : LawfulMonoidOn DV.IsStr monoidStr where
  left_id a pa := by obtain ⟨b, rfl⟩ := pa; simp [monoidStr, DV.asStr]
  right_id a pa := by obtain ⟨b, rfl⟩ := pa; simp [monoidStr, DV.asStr]
  assoc a b c _ _ _ := by simp [monoidStr, DV.asStr, List.append_assoc]

theorem monoidMerge_lawful : LawfulMonoidOn DV.IsList monoidMerge where
  left_id a pa := by obtain ⟨b, rfl⟩ := pa; simp [monoidMerge, DV.asList]
  right_id a pa := by obtain ⟨b, rfl⟩ := pa; simp [monoidMerge, DV.asList]
  assoc a b c _ _ _ := by simp [monoidMerge, DV.asList, List.append_assoc]

theorem monoid_vacuous (m : MonoidD DV) : LawfulMonoidOn (fun _ => False) m :=
  ⟨fun _ h => h.elim, fun _ h => h.elim, fun _ _ _ h => h.elim⟩

/-- `monoid.Option(m)`: `Some(m.Empty())` is the identity, `None` absorbs -/
theorem monoidOption_lawful {m : MonoidD DV} {P : DV → Prop} (L : LawfulMonoidOn P m) :
    LawfulMonoidOn (fun v => v = .none ∨ ∃ w, v = .some w ∧ P w) (monoidOption m) where
  left_id a pa := by
    rcases pa with rfl | ⟨w, rfl, pw⟩
    · simp [monoidOption, DV.asOpt]
    · simp [monoidOption, DV.asOpt, L.left_id w pw]
  right_id a pa := by
    rcases pa with rfl | ⟨w, rfl, pw⟩
    · simp [monoidOption, DV.asOpt]
    · simp [monoidOption, DV.asOpt, L.right_id w pw]
  assoc a b c pa pb pc := by
    rcases pa with rfl | ⟨x, rfl, px⟩ <;> rcases pb with rfl | ⟨y, rfl, py⟩ <;>
      rcases pc with rfl | ⟨z, rfl, pz⟩ <;> simp [monoidOption, DV.asOpt]
    exact L.assoc x y z px py pz

/-- `monoid.Tuple2(a, b)` -/
theorem monoidTuple2_lawful {a b : MonoidD DV} {Pa Pb : DV → Prop} (La : LawfulMonoidOn Pa a)
    (Lb : LawfulMonoidOn Pb b) :
    LawfulMonoidOn (fun v => ∃ x y, v = .tup [x, y] ∧ Pa x ∧ Pb y) (monoidTuple2 a b) where
  left_id v pv := by
    obtain ⟨x, y, rfl, px, py⟩ := pv
    simp [monoidTuple2, tupleEmpty, tupleCombine, DV.asN, La.left_id x px, Lb.left_id y py]
  right_id v pv := by
    obtain ⟨x, y, rfl, px, py⟩ := pv
    simp [monoidTuple2, tupleEmpty, tupleCombine, DV.asN, La.right_id x px, Lb.right_id y py]
  assoc u v w pu pv pw := by
    obtain ⟨x1, y1, rfl, px1, py1⟩ := pu
    obtain ⟨x2, y2, rfl, px2, py2⟩ := pv
    obtain ⟨x3, y3, rfl, px3, py3⟩ := pw
    simp [monoidTuple2, tupleCombine, DV.asN, La.assoc _ _ _ px1 px2 px3, Lb.assoc _ _ _ py1 py2 py3]

theorem asN_record (n : Nat) (vs : List DV) (h : vs.length = n) : DV.asN n (.record vs) = vs := by
  simp [DV.asN, h]

/-! ## clone -/

theorem unspine_spine (vs : List HV) : unspine (spine vs) = vs := by
  induction vs with
  | nil => rfl
  | cons v vs ih => simp [spine, unspine, ih]

theorem spine_addrs (vs : List HV) : (spine vs).addrs = addrsL vs := by
  induction vs with
  | nil => rfl
  | cons v vs ih => simp [spine, HV.addrs, ih]

theorem spine_same (r vs : List HV) : (spine r).same (spine vs) = sameL r vs := by
  induction r generalizing vs with
  | nil => cases vs <;> simp [spine, HV.same, sameL]
  | cons a r ih => cases vs <;> simp [spine, HV.same, sameL, ih]

theorem projectG_all_applicable (fs : List Field) (x : List α) (hlen : x.length = fs.length)
    (happ : ∀ f ∈ fs, f.applicable = true) : projectG fs x = x := by
  induction fs generalizing x with
  | nil => cases x with
    | nil => rfl
    | cons v vs => simp at hlen
  | cons f fs ih =>
    cases x with
    | nil => simp at hlen
    | cons v vs =>
      have hf : f.applicable = true := happ f (by simp)
      simp [projectG, hf, ih vs (by simpa using hlen) (fun g hg => happ g (by simp [hg]))]

/-- a clone whose every run returns the same content in one block of fresh addresses -/
theorem cloneOK_of_run {d : CloneD HV} {v : HV}
    (h : ∀ n, (runAlloc (d.clone v) n).1.same v = true ∧ n ≤ (runAlloc (d.clone v) n).2 ∧
      Block (runAlloc (d.clone v) n).1.addrs n (runAlloc (d.clone v) n).2) : CloneOK d v where
  same n := (h n).1
  mono n := (h n).2.1
  fresh n := (h n).2.2.1
  nodup n := (h n).2.2.2

/-- `clone.Given` is a lawful clone of a value that holds no mutable storage -/
theorem given_ok (v : HV) (hv : v.addrs = []) : CloneOK CloneD.given v :=
  cloneOK_of_run fun n => by
    simp only [CloneD.given, runAlloc_pure, hv]
    exact ⟨HV.same_refl v, Nat.le_refl n, Block.nil n n⟩

theorem pure_ok_leaf (d : CloneD HV) (t : String) (h : ∀ n, runAlloc (d.clone (.leaf t)) n = (.leaf t, n)) :
    CloneOK d (.leaf t) :=
  cloneOK_of_run fun n => by
    rw [h n]
    exact ⟨HV.same_refl _, Nat.le_refl n, by simpa [HV.addrs] using Block.nil n n⟩

/-- cloning the two halves of a pair one after the other -/
theorem pair_ok {c1 c2 d : CloneD HV} {v r : HV} (h1 : CloneOK c1 v) (h2 : CloneOK c2 r)
    (hd : ∀ n, runAlloc (d.clone (.pair v r)) n =
      (.pair (runAlloc (c1.clone v) n).1 (runAlloc (c2.clone r) (runAlloc (c1.clone v) n).2).1,
        (runAlloc (c2.clone r) (runAlloc (c1.clone v) n).2).2)) :
    CloneOK d (.pair v r) :=
  cloneOK_of_run fun n => by
    rw [hd n]
    refine ⟨by simp [HV.same, h1.same n, h2.same _], ?_, ?_⟩
    · have := h1.mono n
      have := h2.mono (runAlloc (c1.clone v) n).2
      simp only
      omega
    · simpa [HV.addrs] using (h1.block n).append (h2.block _) (h1.mono n) (h2.mono _)

/-- `seq.Map(s, c.Clone)`: the elements of a spine, one after the other -/
theorem spineClone_ok {c : CloneD HV} {P : HV → Prop} (hc : ∀ v, P v → CloneOK c v) {sp : HV}
    (h : SpineOf P sp) : CloneOK ⟨spineClone c⟩ sp := by
  induction h with
  | nil => exact pure_ok_leaf _ _ fun n => rfl
  | cons pv _ ih => exact pair_ok (hc _ pv) ih fun n => rfl

theorem cloneEntry_ok {ck cv : CloneD HV} {P : HV → Prop} (hk : ∀ k, k.addrs = [] → CloneOK ck k)
    (hv : ∀ w, P w → CloneOK cv w) (e : HV) (he : EntryOf P e) : CloneOK (cloneEntry ck cv) e := by
  obtain ⟨k, w, rfl, hk0, pw⟩ := he
  exact pair_ok (hk k hk0) (hv w pw) fun n => rfl

theorem cloneOption_ok {c : CloneD HV} {w : HV} (h : CloneOK c w) :
    CloneOK (cloneOption c) (.pair (.leaf "Some") w) :=
  pair_ok (c1 := CloneD.given) (given_ok _ rfl) h fun n => rfl

/-- a tuple / struct value (the spine of its components) cloned component by component -/
theorem spineTuple_ok (d : CloneD HV) (ds : List (CloneD HV)) (vs : List HV)
    (h : Forall2 CloneOK ds vs)
    (hd : ∀ n, runAlloc (d.clone (spine vs)) n =
      (spine (runAlloc (tupleClone ds vs) n).1, (runAlloc (tupleClone ds vs) n).2)) :
    CloneOK d (spine vs) :=
  cloneOK_of_run fun n => by
    obtain ⟨t1, t2, _, t4⟩ := tupleClone_run ds vs h n
    rw [hd n]
    exact ⟨by rw [spine_same]; exact t1, t2, by rw [spine_addrs]; exact t4⟩

/-! ## instance expressions and declarations: plumbing -/

theorem WFs_mem {is : List Inst} (h : Inst.WFs is) {i : Inst} (hi : i ∈ is) : i.WF := by
  induction is with
  | nil => simp at hi
  | cons j js ih =>
    simp only [List.mem_cons] at hi
    rcases hi with rfl | hi
    · exact h.1
    · exact ih h.2 hi

theorem prim_WF (n : String) : (Inst.prim n).WF := by simp [Inst.WF]

theorem givenInst_WF (d : Decl) (wf : d.WF) (t : Ty) : (d.givenInst t).WF := by
  unfold Decl.givenInst
  split
  · rename_i p hp
    exact WFs_mem wf.insts (List.of_mem_zip (List.mem_of_find?_eq_some hp)).2
  · exact prim_WF _

theorem paramInst_WF (d : Decl) (wf : d.WF) (n : String) : (d.paramInst n).WF := by
  unfold Decl.paramInst
  split
  · rename_i p hp
    exact WFs_mem wf.pinsts (List.mem_map.2 ⟨p, List.mem_of_find?_eq_some hp, rfl⟩)
  · exact prim_WF _

theorem components_length {D : Type} (s : StructSpec) (params : List String) (given : Ty → D)
    (pd : String → D) : (components s params given pd).length = s.nApp := by
  simp [components, StructSpec.nApp]

/-- every component of a generic instance is the parameter dictionary or an in-scope instance -/
theorem components_all {D : Type} (P : D → Prop) (s : StructSpec) (params : List String)
    (given : Ty → D) (pd : String → D) (hg : ∀ t, P (given t)) (hp : ∀ n, P (pd n)) :
    ∀ c ∈ components s params given pd, P c := by
  intro c hc
  obtain ⟨f, _, rfl⟩ := List.mem_map.1 hc
  unfold resolve
  split
  · split
    · exact hp _
    · exact hg _
  · exact hg _

theorem eqs_length (env : Env (EqD DV)) (is : List Inst) : (Inst.eqs env is).length = is.length := by
  induction is with
  | nil => rfl
  | cons i is ih => simp [Inst.eqs, ih]

theorem hashes_length (env : Env (HashD DV)) (is : List Inst) :
    (Inst.hashes env is).length = is.length := by
  induction is with
  | nil => rfl
  | cons i is ih => simp [Inst.hashes, ih]

theorem ords_length (env : Env (OrdD DV)) (is : List Inst) :
    (Inst.ords env is).length = is.length := by
  induction is with
  | nil => rfl
  | cons i is ih => simp [Inst.ords, ih]

theorem monoids_length (env : Env (MonoidD DV)) (is : List Inst) :
    (Inst.monoids env is).length = is.length := by
  induction is with
  | nil => rfl
  | cons i is ih => simp [Inst.monoids, ih]

theorem WFms_mem {is : List Inst} (h : Inst.WFms is) {i : Inst} (hi : i ∈ is) : i.WFm := by
  induction is with
  | nil => simp at hi
  | cons j js ih =>
    simp only [List.mem_cons] at hi
    rcases hi with rfl | hi
    · exact h.1
    · exact ih h.2 hi

theorem components_forall2 {D E : Type} (R : D → E → Prop) (s : StructSpec) (params : List String)
    (g1 : Ty → D) (p1 : String → D) (g2 : Ty → E) (p2 : String → E) (hg : ∀ t, R (g1 t) (g2 t))
    (hp : ∀ n, R (p1 n) (p2 n)) :
    Forall2 R (components s params g1 p1) (components s params g2 p2) := by
  unfold components
  induction s.applicableFields with
  | nil => exact .nil
  | cons f fs ih =>
    refine .cons ?_ ih
    unfold resolve
    split
    · split
      · exact hp _
      · exact hg _
    · exact hg _

theorem givenInst_WFm (d : Decl) (hi : Inst.WFms d.insts) (t : Ty) : (d.givenInst t).WFm := by
  unfold Decl.givenInst
  split
  · rename_i p hp
    exact WFms_mem hi (List.of_mem_zip (List.mem_of_find?_eq_some hp)).2
  · simp [Inst.WFm]

theorem paramInst_WFm (d : Decl) (hpi : Inst.WFms (d.pinsts.map (·.2))) (n : String) :
    (d.paramInst n).WFm := by
  unfold Decl.paramInst
  split
  · rename_i p hp
    exact WFms_mem hpi (List.mem_map.2 ⟨p, List.mem_of_find?_eq_some hp, rfl⟩)
  · simp [Inst.WFm]

theorem nestedZero_WFG (s : StructSpec) : WFG s (nestedZero s) := by simp [WFG, nestedZero]

theorem primClone_given (n : String) : (primClone? n).getD CloneD.given = CloneD.given := by
  unfold primClone?
  split <;> rfl

end FpVerif.Derive
