import FpVerif.Lemmas.FutHO
/-!
# The information order on three-valued statuses of futures of futures

`leS τ x y`: `y` knows at least what `x` knows — pending is below everything, a failure / a plain value is only
below itself, a success holding an inner future is below a success holding a more determined inner future.
Every operator of the denotation (`den`) is monotone; so is reading the statuses of a network (`absS`).
-/
namespace FpVerif.Spec.C06.HO
open FpVerif FpVerif.Fut FpVerif.Spec.C06

def leS : (τ : Ty) → St τ → St τ → Prop
  | .val, none, _ => True
  | .val, some (.failure e), y => y = some (.failure e)
  | .val, some (.success v), y => y = some (.success v)
  | .fut _, none, _ => True
  | .fut _, some (.failure e), y => y = some (.failure e)
  | .fut τ, some (.success i), y => ∃ j, y = some (.success j) ∧ leS τ i j

theorem leS_none (τ : Ty) (y : St τ) : leS τ none y := by cases τ <;> trivial

theorem leS_failure {τ : Ty} {e : Err} {y : St τ} : leS τ (some (.failure e)) y ↔ y = some (.failure e) := by
  cases τ <;> exact Iff.rfl

theorem leS_val {t : Try Val} {y : St .val} : leS .val (some t) y ↔ y = some t := by
  cases t <;> exact Iff.rfl

theorem leS_success_fut {τ : Ty} {i j : St τ} :
    leS (.fut τ) (some (.success i)) (some (.success j)) ↔ leS τ i j := by
  constructor
  · rintro ⟨j', hj, h⟩
    cases hj; exact h
  · intro h; exact ⟨j, rfl, h⟩

theorem leS_refl : ∀ (τ : Ty) (x : St τ), leS τ x x := by
  intro τ
  induction τ with
  | val =>
    intro x
    match x with
    | none => trivial
    | some (.failure e) => rfl
    | some (.success v) => rfl
  | fut τ ih =>
    intro x
    match x with
    | none => trivial
    | some (.failure e) => rfl
    | some (.success i) => exact ⟨i, rfl, ih i⟩

theorem leS_of_eq {τ : Ty} {x y : St τ} (h : x = y) : leS τ x y := h ▸ leS_refl τ x

theorem leS_trans : ∀ (τ : Ty) (x y z : St τ), leS τ x y → leS τ y z → leS τ x z := by
  intro τ
  induction τ with
  | val =>
    intro x y z h1 h2
    match x with
    | none => trivial
    | some t => have h1 := leS_val.1 h1; subst h1; exact h2
  | fut τ ih =>
    intro x y z h1 h2
    match x with
    | none => trivial
    | some (.failure e) => rw [leS_failure] at h1; subst h1; exact h2
    | some (.success i) =>
      obtain ⟨j, hj, hij⟩ := h1
      subst hj
      obtain ⟨k, hk, hjk⟩ := h2
      exact ⟨k, hk, ih i j k hij hjk⟩

theorem leS_some_inv {τ : Ty} {a : Try (Sem τ)} {y : St τ} (h : leS τ (some a) y) : ∃ b, y = some b := by
  cases τ with
  | val => exact ⟨a, leS_val.1 h⟩
  | fut τ =>
    match a with
    | .failure e => exact ⟨_, h⟩
    | .success i => obtain ⟨j, hj, _⟩ := h; exact ⟨_, hj⟩

theorem leS_to_none {τ : Ty} {x : St τ} (h : leS τ x none) : x = none := by
  cases x with
  | none => rfl
  | some a => obtain ⟨b, hb⟩ := leS_some_inv h; cases hb

/-- a success is only below a success -/
theorem leS_success_inv {τ : Ty} {i : Sem τ} {y : St τ} (h : leS τ (some (.success i)) y) :
    ∃ j, y = some (.success j) ∧ leS τ (some (.success i)) (some (.success j)) := by
  cases τ with
  | val => have h := leS_val.1 h; subst h; exact ⟨i, rfl, leS_refl _ _⟩
  | fut τ => obtain ⟨j, hj, hij⟩ := h; subst hj; exact ⟨j, rfl, ⟨j, rfl, hij⟩⟩

-- the operators of `den` are monotone ------------------------------------------------------------------------------

theorem leS_successOf {τ : Ty} {a a' : St τ} (h : leS τ a a') :
    leS (.fut τ) (some (.success a)) (some (.success a')) := leS_success_fut.2 h

theorem leS_bindOkS {τ : Ty} {a a' : St .val} (K : Val → St τ) (h : leS .val a a') :
    leS τ (bindOkS a K) (bindOkS a' K) := by
  cases a with
  | none => exact leS_none _ _
  | some t => have h := leS_val.1 h; subst h; exact leS_refl _ _

theorem leS_bindTryS {τ : Ty} {a a' : St .val} (K : Try Val → St τ) (h : leS .val a a') :
    leS τ (bindTryS a K) (bindTryS a' K) := by
  cases a with
  | none => exact leS_none _ _
  | some t => have h := leS_val.1 h; subst h; exact leS_refl _ _

theorem leS_map {a a' : St .val} (f : Try Val → Try Val) (h : leS .val a a') :
    leS .val (a.map f) (a'.map f) := by
  cases a with
  | none => exact leS_none _ _
  | some t => have h := leS_val.1 h; subst h; exact leS_refl _ _

theorem leS_joinS {τ : Ty} {a a' : St (.fut τ)} (h : leS (.fut τ) a a') : leS τ (joinS a) (joinS a') := by
  match a with
  | none => exact leS_none _ _
  | some (.failure e) => rw [leS_failure] at h; subst h; exact leS_refl _ _
  | some (.success i) =>
    obtain ⟨j, hj, hij⟩ := h
    subst hj
    exact hij

theorem leS_recS {τ : Ty} {a a' : St τ} {F F' : Err → St τ} (h : leS τ a a') (hF : ∀ err, leS τ (F err) (F' err)) :
    leS τ (bindTryS a (recS F)) (bindTryS a' (recS F')) := by
  match a with
  | none => exact leS_none _ _
  | some (.failure e) => rw [leS_failure] at h; subst h; exact hF e
  | some (.success i) =>
    obtain ⟨j, hj, hij⟩ := leS_success_inv h
    subst hj
    exact hij


-- the denotation is monotone: once determined, always determined ---------------------------------------------------------

theorem leS_bindOkS2 {τ : Ty} {a a' : St .val} {K K' : Val → St τ} (h : leS .val a a') (hK : ∀ v, leS τ (K v) (K' v)) :
    leS τ (bindOkS a K) (bindOkS a' K') := by
  match a with
  | none => exact leS_none _ _
  | some (.failure e) => have h := leS_val.1 h; subst h; exact leS_refl _ _
  | some (.success v) => have h := leS_val.1 h; subst h; exact hK v

theorem leS_bindTryS2 {τ : Ty} {a a' : St .val} {K K' : Try Val → St τ} (h : leS .val a a') (hK : ∀ t, leS τ (K t) (K' t)) :
    leS τ (bindTryS a K) (bindTryS a' K') := by
  match a with
  | none => exact leS_none _ _
  | some t => have h := leS_val.1 h; subst h; exact hK t

/-- reading the statuses of a network is monotone: what has completed stays, inner futures only get more determined -/
theorem absS_mono {σ σ' : Nat → Option (Try Val)} (hx : Ext σ σ') : ∀ (τ : Ty) (p : Nat), leS τ (absS σ τ p) (absS σ' τ p) := by
  intro τ
  induction τ with
  | val =>
    intro p
    rw [absS_val, absS_val]
    cases hp : σ p with
    | none => exact leS_none _ _
    | some t => rw [hx p t hp]; exact leS_refl _ _
  | fut τ ih =>
    intro p
    cases hp : σ p with
    | none => rw [absS_none _ hp]; exact leS_none _ _
    | some t =>
      rw [absS_some _ hp, absS_some _ (hx p t hp)]
      cases t with
      | failure e => exact leS_refl _ _
      | success v => exact leS_successOf (ih (unhandle v))

/-- **Monotonicity of the denotation**: in a more determined environment a program denotes a more determined status; at
    value type: once it denotes a result it denotes that result forever. -/
theorem den_mono {ρ ρ' : Env} (h : ∀ τ p, leS τ (ρ τ p) (ρ' τ p)) {τ : Ty} (t : TExpr τ) : leS τ (den ρ t) (den ρ' t) := by
  induction t with
  | ref τ p => exact h τ p
  | successful v => exact leS_refl _ _
  | failed τ x => exact leS_refl _ _
  | successfulOf e ih => exact leS_successOf ih
  | logged evs e ih => exact ih
  | flatMap e k ihe ihk => exact leS_bindOkS2 ihe ihk
  | flatten e ih => exact leS_joinS ih
  | transform e f ih => exact leS_map _ ih
  | transformWith e k ihe ihk => exact leS_bindTryS2 ihe ihk
  | recoverWith e d k ihe ihk =>
    refine leS_recS ihe (fun err => ?_)
    cases d err
    · exact leS_refl _ _
    · exact ihk err
  | orFuture e alt ihe iha => exact leS_recS ihe (fun _ => iha)
  | apply f => exact leS_refl _ _

theorem den_absE_mono {σ σ' : Nat → Option (Try Val)} (hx : Ext σ σ') {τ : Ty} (t : TExpr τ) :
    leS τ (den (absE σ) t) (den (absE σ') t) :=
  den_mono (fun τ p => absS_mono hx τ p) t

-- both directions at once ------------------------------------------------------------------------------------------

/-- `le`: the statuses know at most what the denotation says (soundness); `ge`: at least (completeness) -/
inductive Dir where
  | le
  | ge

def rel (d : Dir) (τ : Ty) (x y : St τ) : Prop :=
  match d with
  | .le => leS τ x y
  | .ge => leS τ y x

theorem rel_refl (d : Dir) (τ : Ty) (x : St τ) : rel d τ x x := by cases d <;> exact leS_refl τ x

theorem rel_of_eq (d : Dir) {τ : Ty} {x y : St τ} (h : x = y) : rel d τ x y := h ▸ rel_refl d τ x

theorem rel_trans (d : Dir) {τ : Ty} {x y z : St τ} (h1 : rel d τ x y) (h2 : rel d τ y z) : rel d τ x z := by
  cases d
  · exact leS_trans τ x y z h1 h2
  · exact leS_trans τ z y x h2 h1

theorem rel_successOf (d : Dir) {τ : Ty} {a a' : St τ} (h : rel d τ a a') :
    rel d (.fut τ) (some (.success a)) (some (.success a')) := by
  cases d <;> exact leS_successOf h

theorem rel_bindOkS (d : Dir) {τ : Ty} {a a' : St .val} (K : Val → St τ) (h : rel d .val a a') :
    rel d τ (bindOkS a K) (bindOkS a' K) := by
  cases d <;> exact leS_bindOkS K h

theorem rel_bindTryS (d : Dir) {τ : Ty} {a a' : St .val} (K : Try Val → St τ) (h : rel d .val a a') :
    rel d τ (bindTryS a K) (bindTryS a' K) := by
  cases d <;> exact leS_bindTryS K h

theorem rel_map (d : Dir) {a a' : St .val} (f : Try Val → Try Val) (h : rel d .val a a') :
    rel d .val (a.map f) (a'.map f) := by
  cases d <;> exact leS_map f h

theorem rel_joinS (d : Dir) {τ : Ty} {a a' : St (.fut τ)} (h : rel d (.fut τ) a a') : rel d τ (joinS a) (joinS a') := by
  cases d <;> exact leS_joinS h

theorem rel_recS (d : Dir) {τ : Ty} {a a' : St τ} {F F' : Err → St τ} (h : rel d τ a a')
    (hF : ∀ err, rel d τ (F err) (F' err)) : rel d τ (bindTryS a (recS F)) (bindTryS a' (recS F')) := by
  cases d
  · exact leS_recS h hF
  · exact leS_recS h hF

end FpVerif.Spec.C06.HO
