import FpVerif.Lemmas.HeapWorld4
import FpVerif.Lemmas.HeapFrameWrap
/-!
Whole histories: the invariant holds after every history, every collection handed out stays intact,
and what a builder writes in place.  Plus: the wrapper methods on a trie-backed receiver ARE the
composite operations of the histories.
-/
set_option linter.unusedSimpArgs false
set_option linter.unusedVariables false
namespace FpVerif.HamtHeap
open FpVerif.Hamt
variable {K V : Type} {α β : Type}

theorem Intact.refl (W : World K V) : Intact W W := ⟨⟨[], by simp⟩, fun _ _ => rfl⟩

theorem Intact.trans {W1 W2 W3 : World K V} (h12 : Intact W1 W2) (h23 : Intact W2 W3) : Intact W1 W3 := by
  obtain ⟨⟨l1, hl1⟩, ha1⟩ := h12
  obtain ⟨⟨l2, hl2⟩, ha2⟩ := h23
  refine ⟨⟨l1 ++ l2, by rw [hl2, hl1, List.append_assoc]⟩, fun m hm => ?_⟩
  rw [ha2 m (by rw [hl1]; exact List.mem_append_left _ hm), ha1 m hm]

theorem stepSkip_inv {h : Hasher K} (hl : LawfulHash h) {W : World K V} (hW : WInv h W) (op : Op K V) :
    WInv h (W.stepSkip h op) ∧ Intact W (W.stepSkip h op) := by
  unfold World.stepSkip
  cases hs : W.step h op with
  | ok W' => exact hW.step hl op hs
  | error e => exact ⟨hW, Intact.refl W⟩

theorem run_inv {h : Hasher K} (hl : LawfulHash h) : ∀ (ops : List (Op K V)) {W : World K V}, WInv h W →
    WInv h (W.run h ops) ∧ Intact W (W.run h ops) := by
  intro ops
  induction ops with
  | nil => intro W hW; exact ⟨hW, Intact.refl W⟩
  | cons op ops ih =>
    intro W hW
    obtain ⟨h1, h2⟩ := stepSkip_inv hl hW op
    obtain ⟨h3, h4⟩ := ih h1
    exact ⟨h3, h2.trans h4⟩

theorem run_append (h : Hasher K) (ops1 ops2 : List (Op K V)) (W : World K V) :
    W.run h (ops1 ++ ops2) = (W.run h ops1).run h ops2 := by
  unfold World.run; rw [List.foldl_append]

theorem Intact.absV {W W' : World K V} (hi : Intact W W') {i : Nat} (hlt : i < W.vers.length) :
    W'.vers[i]? = W.vers[i]? ∧ W'.absV i = W.absV i := by
  obtain ⟨⟨l, hl⟩, ha⟩ := hi
  have h1 : W'.vers[i]? = W.vers[i]? := by rw [hl, List.getElem?_append_left hlt]
  refine ⟨h1, ?_⟩
  unfold World.absV
  rw [h1]
  have : W.vers[i]? = some W.vers[i] := List.getElem?_eq_getElem hlt
  rw [this]
  simp only
  rw [ha _ (List.getElem_mem hlt)]

theorem WInv.absV_some {h : Hasher K} {W : World K V} (hW : WInv h W) {i : Nat} (hlt : i < W.vers.length) :
    ∃ a, W.absV i = some a ∧ Hamt.Inv h a := by
  obtain ⟨a, fp, habs, _, hinv⟩ := hW.vers _ (List.getElem_mem hlt)
  refine ⟨a, ?_, hinv⟩
  unfold World.absV
  rw [List.getElem?_eq_getElem hlt]
  simp [habs]

/-- what an in-place `Add` of the MapBuilder writes -/
theorem mbAdd_writes {h : Hasher K} (hl : LawfulHash h) {W W' : World K V} (hW : WInv h W) (k : K) (v : V)
    (hs : W.step h (.mbAdd k v) = .ok W') :
    ∃ m, W.mb = some ⟨some m⟩ ∧ Eff W.heap W'.heap (fpOf W.heap m) := by
  unfold World.step at hs
  cases hmb : W.mb with
  | none => rw [hmb] at hs; cases hs
  | some b =>
    rw [hmb] at hs
    obtain ⟨bm⟩ := b
    cases bm with
    | none => simp [HMapBuilder.add, fail] at hs
    | some m =>
      obtain ⟨hg, _⟩ := hW.mb m hmb
      obtain ⟨m1, H1, hh1, _, heff, _⟩ := builder_add_inplace hl hg k v
      have hadd : (HMapBuilder.add h ⟨some m⟩ k v : HM K V HMapBuilder) W.heap = .ok (⟨some m1⟩, H1) := by
        unfold HMapBuilder.add; dsimp only; rw [bind_ok hh1]; rfl
      simp only [hadd] at hs
      injection hs with hs; subst hs
      exact ⟨m, rfl, heff⟩

/-- what `Add` of the SetBuilder writes: its own cells before `Build`, nothing afterwards -/
theorem sbAdd_writes {h : Hasher K} (hl : LawfulHash h) {W W' : World K V} (hW : WInv h W) (k : K) (tt : V)
    (hs : W.step h (.sbAdd k tt) = .ok W') :
    ∃ b, W.sb = some b ∧ Eff W.heap W'.heap (if b.shared then [] else fpOf W.heap b.m) := by
  unfold World.step at hs
  cases hsb : W.sb with
  | none => rw [hsb] at hs; cases hs
  | some b =>
    rw [hsb] at hs
    obtain ⟨hg, _⟩ := hW.sb b hsb
    refine ⟨b, rfl, ?_⟩
    cases hsh : b.shared with
    | false =>
      obtain ⟨m1, H1, hh1, _, heff, _⟩ := builder_add_inplace hl hg k tt
      have hadd : (HSetBuilder.add h b k tt : HM K V HSetBuilder) W.heap = .ok ({ b with m := m1 }, H1) := by
        unfold HSetBuilder.add; simp only [hsh, Bool.not_false]; rw [bind_ok hh1]; rfl
      simp only [hadd] at hs
      injection hs with hs; subst hs
      simpa using heff
    | true =>
      obtain ⟨a, fp, habs, hnd, hinv⟩ := hg
      obtain ⟨a1, m1, H1, _, _, hh1, _, _, _, heff1, _⟩ := hamtSet_step hl habs hnd hinv k tt false
      have hadd : (HSetBuilder.add h b k tt : HM K V HSetBuilder) W.heap = .ok ({ b with m := m1 }, H1) := by
        unfold HSetBuilder.add; simp only [hsh, Bool.not_true]; rw [bind_ok hh1]; rfl
      simp only [hadd] at hs
      injection hs with hs; subst hs
      simpa using heff1

-- the wrapper methods on a trie-backed receiver are the composite operations ---------------------------

section wrappers
variable [BEq K]

theorem HFMap_updated_hamt (h : Hasher K) (m : Addr) (k : K) (v : V) :
    (⟨some (.hamt m)⟩ : HFMap K V).updated h k v = (do pure ⟨some (.hamt (← hamtUpdated h m k v))⟩) := rfl

theorem HFMap_removed_hamt (h : Hasher K) (m : Addr) (ks : List K) :
    (⟨some (.hamt m)⟩ : HFMap K V).removed h ks = (do pure ⟨some (.hamt (← hamtRemoved h m ks))⟩) := rfl

theorem HSetMin_incl_hamt (h : Hasher K) (m : Addr) (v : K) :
    (HSetMin.hamt m).incl h v = (do pure (.hamt (← hamtUpdated h m v true))) := rfl

theorem HSetMin_excl_hamt (h : Hasher K) (m : Addr) (v : K) :
    (HSetMin.hamt m).excl h v = (do pure (.hamt (← hamtRemoved h m [v]))) := rfl

end wrappers

end FpVerif.HamtHeap
