import FpVerif.Lemmas.MemoPanicSeq
/-!
# Heaps of memo cells: facts shared by `Lemmas/EvalPanic.lean` and `Lemmas/ListPanic.lean`

* `CellOK`: the ghost counter of a cell says "started once" exactly when the `Once` has fired;
* `ExtL`: how a list of cells may evolve — cells are only appended, a cell keeps its thunk, a cell whose `Once`
  has fired never changes again;
* `Good m`: the computation `m` evolves the heap along a given preorder, whatever it returns (also when it panics).
-/
namespace FpVerif.MemoPanic
open FpVerif FpVerif.It

variable {T α β σ X Y : Type}

/-- started at most once, and exactly once iff the `Once` has fired -/
def CellOK (c : Cell T) : Prop := c.runs = if c.done then 1 else 0

theorem cellOK_fresh (zero : T) : CellOK (Cell.fresh zero) := rfl

theorem CellOK.runs_le_one {c : Cell T} (h : CellOK c) : c.runs ≤ 1 := by
  unfold CellOK at h; split at h <;> omega

theorem get_cellOK (f : Nat → GoM T) (c : Cell T) (lg : Log) (h : CellOK c) : CellOK (get f c lg).2.1 := by
  unfold get
  cases hd : c.done with
  | true => simpa using h
  | false =>
    have hr : c.runs = 0 := by simpa [CellOK, hd] using h
    simp only [Bool.false_eq_true, if_false]
    rcases (f c.runs).run.run lg with ⟨r, lg'⟩
    cases r <;> simp [CellOK, hr]

theorem get_stable (f : Nat → GoM T) (c : Cell T) (lg : Log) (h : c.done = true) : (get f c lg).2.1 = c := by
  rw [get_of_done f c lg h]

theorem set_same {l : List α} {c : Nat} {a : α} (h : l[c]? = some a) : l.set c a = l := by
  induction l generalizing c with
  | nil => rfl
  | cons x xs ih =>
    cases c with
    | zero => simp at h; subst h; rfl
    | succ c' => simp at h; simp [ih h]

theorem getElem?_concat_self {α : Type} (l : List α) (a : α) : (l ++ [a])[l.length]? = some a := by simp

/-- evolution of a list of cells: `key` = what never changes (the thunk), `done` = frozen from then on -/
def ExtL (key : α → β) (done : α → Bool) (l l' : List α) : Prop :=
  ∀ (c : Nat) (a : α), l[c]? = some a → ∃ a', l'[c]? = some a' ∧ key a' = key a ∧ (done a = true → a' = a)

theorem ExtL.refl (key : α → β) (done : α → Bool) (l : List α) : ExtL key done l l :=
  fun _ a h => ⟨a, h, rfl, fun _ => rfl⟩

theorem ExtL.trans {key : α → β} {done : α → Bool} {l1 l2 l3 : List α}
    (h12 : ExtL key done l1 l2) (h23 : ExtL key done l2 l3) : ExtL key done l1 l3 := by
  intro c a h
  obtain ⟨a2, h2, k2, d2⟩ := h12 c a h
  obtain ⟨a3, h3, k3, d3⟩ := h23 c a2 h2
  refine ⟨a3, h3, k3.trans k2, fun hd => ?_⟩
  have e2 := d2 hd
  subst e2
  exact d3 hd

theorem ExtL.append (key : α → β) (done : α → Bool) (l : List α) (x : α) : ExtL key done l (l ++ [x]) := by
  intro c a h
  refine ⟨a, ?_, rfl, fun _ => rfl⟩
  have hlt : c < l.length := (List.getElem?_eq_some_iff.mp h).1
  rw [List.getElem?_append_left hlt]; exact h

/-- overwriting cell `c` (currently `old`) by `new` with the same thunk; allowed to differ only if `old` was not done -/
theorem ExtL.set (key : α → β) (done : α → Bool) (l : List α) (c : Nat) (old new : α)
    (hold : l[c]? = some old) (hk : key new = key old) (hd : done old = true → new = old) :
    ExtL key done l (l.set c new) := by
  intro c' a h
  rw [List.getElem?_set]
  by_cases hc : c = c'
  · subst hc
    have hlt : c < l.length := (List.getElem?_eq_some_iff.mp h).1
    rw [hold] at h
    cases h
    exact ⟨new, by simp [hlt], hk, hd⟩
  · exact ⟨a, by simp [hc, h], rfl, fun _ => rfl⟩

theorem ExtL.length_le {key : α → β} {done : α → Bool} {l l' : List α} (h : ExtL key done l l') :
    l.length ≤ l'.length := by
  cases hl : l.length with
  | zero => exact Nat.zero_le _
  | succ n =>
    have hn : n < l.length := by omega
    obtain ⟨a', ha', _, _⟩ := h n l[n] (List.getElem?_eq_getElem hn)
    have := (List.getElem?_eq_some_iff.mp ha').1
    omega

-- ---------------------------------------------------------------------------------- computations and preorders

/-- `m` moves the state along `R` whatever its outcome -/
def Good (R : σ → σ → Prop) (m : IM σ X) : Prop := ∀ s lg, R s (m s lg).2.1

theorem good_pure {R : σ → σ → Prop} (hr : ∀ s, R s s) (x : X) : Good R (pure x : IM σ X) := fun s _ => hr s

theorem good_panic {R : σ → σ → Prop} (hr : ∀ s, R s s) (p : PanicVal) : Good R (IM.panic p : IM σ X) :=
  fun s _ => hr s

theorem good_liftG {R : σ → σ → Prop} (hr : ∀ s, R s s) (g : GoM X) : Good R (IM.liftG g : IM σ X) :=
  fun s _ => hr s

theorem good_bind {R : σ → σ → Prop} (ht : ∀ a b c, R a b → R b c → R a c) {m : IM σ X} {k : X → IM σ Y}
    (hm : Good R m) (hk : ∀ x, Good R (k x)) : Good R (m >>= k) := by
  intro s lg
  rw [im_bind_apply]
  have h1 := hm s lg
  rcases h : m s lg with ⟨r, s', lg'⟩
  rw [h] at h1
  cases r with
  | ok x => exact ht _ _ _ h1 (hk x s' lg')
  | error p => exact h1

theorem good_attempt {R : σ → σ → Prop} {m : IM σ X} (hm : Good R m) : Good R (attempt m) := fun s lg => hm s lg

end FpVerif.MemoPanic
