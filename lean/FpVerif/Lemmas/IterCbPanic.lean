import FpVerif.Lemmas.IterComb
import FpVerif.Lemmas.IterPanic
/-!
# Callbacks INSIDE a pipeline that panic or log (audit finding 12)

`Lemmas/IterPanic.lean` lets the callback of a TERMINAL operation panic (`Outcome`).  Here the
callback of `Map`, `TapEach`, `Filter`, `TakeWhile` may panic: `Outcome f g` says that `f a` logs
whatever it likes and then returns or panics as `g a : Except PanicVal _` says.  The iterator below
the combinator is any machine with a simulation `Sim m R` (so: any pipeline of `Spec/C12`).
-/
namespace FpVerif.It
open IM
variable {σ α β γ : Type}

/-! ## Find / Filter -/

/-- reference for the `Find` loop with a predicate that may panic: the outcome, and the elements
    that have NOT been pulled when the loop ends (by a hit, by exhaustion, or by the panic). -/
def findE (g : α → Except PanicVal Bool) : List α → Except PanicVal (Option α) × List α
  | [] => (.ok none, [])
  | a :: r =>
    match g a with
    | .error p => (.error p, r)
    | .ok true => (.ok (some a), r)
    | .ok false => findE g r

theorem findE_suffix (g : α → Except PanicVal Bool) (r : List α) : ∃ d1, d1 ++ (findE g r).2 = r := by
  induction r with
  | nil => exact ⟨[], rfl⟩
  | cons a r ih =>
    unfold findE
    rcases hg : g a with p | b
    · exact ⟨[a], rfl⟩
    · cases b
      · obtain ⟨d1, h⟩ := ih; exact ⟨a :: d1, by simp [h]⟩
      · exact ⟨[a], rfl⟩

theorem find_pspec {p : α → GoM Bool} {g : α → Except PanicVal Bool} (hp : Outcome p g) {m : Machine σ α}
    {R : σ → List α → List α → Prop} (hS : Sim m R) :
    ∀ (r : List α) (fuel : Nat) (s : σ) (d : List α) (lg : Log), r.length < fuel → R s d r →
      ∃ s' lg' d1, find p m fuel s lg = ((findE g r).1, s', lg') ∧ R s' (d ++ d1) (findE g r).2 ∧
        d1 ++ (findE g r).2 = r := by
  intro r
  induction r with
  | nil =>
    intro fuel s d lg hf hR
    obtain ⟨k, rfl⟩ := Nat.exists_eq_succ_of_ne_zero (by omega : fuel ≠ 0)
    obtain ⟨s1, lg1, h1, hR1⟩ := hS.hasNext s d [] lg hR
    refine ⟨s1, lg1, [], ?_, by simpa [findE] using hR1, by simp [findE]⟩
    simp only [List.isEmpty_nil, Bool.not_true] at h1
    simp [find, bind_ok h1, findE]
  | cons a r ih =>
    intro fuel s d lg hf hR
    obtain ⟨k, rfl⟩ := Nat.exists_eq_succ_of_ne_zero (by omega : fuel ≠ 0)
    obtain ⟨s1, lg1, h1, hR1⟩ := hS.hasNext s d (a :: r) lg hR
    obtain ⟨s2, lg2, h2, hR2⟩ := hS.next_cons s1 d a r lg1 hR1
    obtain ⟨lg3, h3⟩ := liftG_outcome hp a s2 lg2
    simp only [List.isEmpty_cons, Bool.not_false] at h1
    rcases hg : g a with q | b
    · rw [hg] at h3
      refine ⟨s2, lg3, [a], ?_, ?_, ?_⟩
      · simp [find, bind_ok h1, bind_ok h2, bind_err h3, findE, hg]
      · simpa [findE, hg] using hR2
      · simp [findE, hg]
    · rw [hg] at h3
      cases b
      · obtain ⟨s', lg', d1, h4, hR4, hd⟩ := ih k s2 (d ++ [a]) lg3 (by simpa using hf) hR2
        refine ⟨s', lg', a :: d1, ?_, ?_, ?_⟩
        · simp [find, bind_ok h1, bind_ok h2, bind_ok h3, h4, findE, hg]
        · simpa [findE, hg] using hR4
        · simpa [findE, hg] using hd
      · refine ⟨s2, lg3, [a], ?_, ?_, ?_⟩
        · simp [find, bind_ok h1, bind_ok h2, bind_ok h3, findE, hg]
        · simpa [findE, hg] using hR2
        · simp [findE, hg]

/-- `Filter.HasNext` in the state before the first look-ahead (`first = true`): it runs `Find`;
    a hit / exhaustion is stored in `fv`; a PANIC of the predicate propagates and leaves the
    captured variables untouched (`first` still `true`) while the underlying iterator has moved
    past the offending element — the Filter iterator is a fresh Filter over the elements AFTER it. -/
theorem filter_hasNext_first {p : α → GoM Bool} {g : α → Except PanicVal Bool} (hp : Outcome p g) {m : Machine σ α}
    {R : σ → List α → List α → Prop} (hS : Sim m R) (fuel : Nat) (s : σ) (fv0 : Option α) (d r : List α) (lg : Log)
    (hf : r.length < fuel) (hR : R s d r) :
    ∃ s' lg' d1, R s' (d ++ d1) (findE g r).2 ∧ d1 ++ (findE g r).2 = r ∧
      (filter fuel p m).hasNext (s, { first := true, fv := fv0 }) lg =
        match (findE g r).1 with
        | .ok fv => (.ok fv.isSome, (s', { first := false, fv := fv }), lg')
        | .error q => (.error q, (s', { first := true, fv := fv0 }), lg') := by
  obtain ⟨s', lg', d1, h1, hR1, hd⟩ := find_pspec hp hS r fuel s d lg hf hR
  refine ⟨s', lg', d1, hR1, hd, ?_⟩
  rcases hr : (findE g r).1 with q | fv
  · rw [hr] at h1
    simp [filter, bind_apply, onFst_eq _ h1]
  · rw [hr] at h1
    simp [filter, bind_apply, onFst_eq _ h1]

/-- `Filter.Next` with a look-ahead `fv = some ret`: it hands out `ret` and runs `Find` for the next
    look-ahead.  If the predicate PANICS there, the panic comes out of THIS `Next` — although `ret`
    itself was fine — and `ret` is NOT lost: `fv` still holds it, the underlying iterator has moved
    past the offending element.  (So a client that recovers sees the panic one element early and
    then `ret`, followed by the hits after the offending element.) -/
theorem filter_next_lookahead {p : α → GoM Bool} {g : α → Except PanicVal Bool} (hp : Outcome p g) {m : Machine σ α}
    {R : σ → List α → List α → Prop} (hS : Sim m R) (fuel : Nat) (s : σ) (ret : α) (d r : List α) (lg : Log)
    (hf : r.length < fuel) (hR : R s d r) :
    ∃ s' lg' d1, R s' (d ++ d1) (findE g r).2 ∧ d1 ++ (findE g r).2 = r ∧
      (filter fuel p m).next (s, { first := false, fv := some ret }) lg =
        match (findE g r).1 with
        | .ok fv => (.ok ret, (s', { first := false, fv := fv }), lg')
        | .error q => (.error q, (s', { first := false, fv := some ret }), lg') := by
  obtain ⟨s', lg', d1, h1, hR1, hd⟩ := find_pspec hp hS r fuel s d lg hf hR
  refine ⟨s', lg', d1, hR1, hd, ?_⟩
  rcases hr : (findE g r).1 with q | fv
  · rw [hr] at h1
    simp [filter, bind_apply, onFst_eq _ h1]
  · rw [hr] at h1
    simp [filter, bind_apply, onFst_eq _ h1]

/-! ## TakeWhile -/

/-- `TakeWhile.HasNext` without look-ahead on a non-empty underlying iterator: the predicate is
    applied to the next element `a`; its outcome decides.  A PANIC propagates, the element is
    consumed, `breaking` stays `false`: the iterator is a fresh TakeWhile over the elements after
    `a` (it does NOT end there). -/
theorem takeWhile_hasNext_outcome {p : α → GoM Bool} {g : α → Except PanicVal Bool} (hp : Outcome p g) {m : Machine σ α}
    {R : σ → List α → List α → Prop} (hS : Sim m R) (s : σ) (d : List α) (a : α) (r : List α) (lg : Log)
    (hR : R s d (a :: r)) :
    ∃ s' lg', R s' (d ++ [a]) r ∧
      (takeWhile p m).hasNext (s, {}) lg =
        match g a with
        | .ok true => (.ok true, (s', { breaking := false, fv := some a }), lg')
        | .ok false => (.ok false, (s', { breaking := true, fv := none }), lg')
        | .error q => (.error q, (s', {}), lg') := by
  obtain ⟨s1, lg1, h1, hR1⟩ := hS.hasNext s d (a :: r) lg hR
  obtain ⟨s2, lg2, h2, hR2⟩ := hS.next_cons s1 d a r lg1 hR1
  obtain ⟨lg3, h3⟩ := liftG_outcome hp a (s2, ({} : TakeWhileSt α)) lg2
  simp only [List.isEmpty_cons, Bool.not_false] at h1
  refine ⟨s2, lg3, hR2, ?_⟩
  rcases hg : g a with q | b
  · rw [hg] at h3
    simp [takeWhile, bind_apply, onFst_eq _ h1, onFst_eq _ h2, h3]
  · rw [hg] at h3
    cases b <;> simp [takeWhile, bind_apply, onFst_eq _ h1, onFst_eq _ h2, h3]

/-! ## Map / TapEach: the complete behaviour under any script, with the log -/

/-- the callback logs exactly `ev a` and then returns / panics as `g a` says -/
def Logs (f : α → GoM β) (g : α → Except PanicVal β) (ev : α → List Event) : Prop :=
  ∀ a lg, (f a).run.run lg = (g a, lg ++ ev a)

theorem Logs.outcome {f : α → GoM β} {g : α → Except PanicVal β} {ev : α → List Event} (h : Logs f g ev) :
    Outcome f g := fun a lg => ⟨_, h a lg⟩

/-- satisfiable: log, then panic on the bad elements -/
theorem logs_example (t : α → Event) (bad : α → Bool) (q : PanicVal) (h : α → β) :
    Logs (fun a => (do emit (t a); if bad a then throw q else pure (h a) : GoM β))
      (fun a => if bad a then .error q else .ok (h a)) (fun a => [t a]) := by
  intro a lg
  by_cases hb : bad a = true
  · simp only [hb, if_true]; rfl
  · simp only [hb, if_false]; rfl

def outcomeObs : Except PanicVal β → Obs β
  | .ok b => .val b
  | .error q => .panic q

/-- what a script observes on `Map(f)` over the list `r` when `f` behaves as `g`: a panicking
    element yields `panic` and IS consumed -/
def mapSpecObs (g : α → Except PanicVal β) : List Call → List α → List (Obs β)
  | [], _ => []
  | .H :: cs, r => .has (!r.isEmpty) :: mapSpecObs g cs r
  | .N :: cs, [] => .panic nextOnEmpty :: mapSpecObs g cs []
  | .N :: cs, a :: r => outcomeObs (g a) :: mapSpecObs g cs r

/-- the events of the run: for every element pulled, the source's tag event (if instrumented),
    then the callback's events — in pull order -/
def mapSpecLog (tagEv : α → List Event) (ev : α → List Event) : List Call → List α → List Event
  | [], _ => []
  | .H :: cs, r => mapSpecLog tagEv ev cs r
  | .N :: cs, [] => mapSpecLog tagEv ev cs []
  | .N :: cs, a :: r => tagEv a ++ ev a ++ mapSpecLog tagEv ev cs r

def tagEvs (tag : Option (α → Event)) (a : α) : List Event :=
  match tag with
  | some t => [t a]
  | none => []

theorem ofSeq_next_some (tag : Option (α → Event)) (xs : List α) (idx : Nat) (a : α) (lg : Log) (h : xs[idx]? = some a) :
    (ofSeq tag xs).next idx lg = (.ok a, idx + 1, lg ++ tagEvs tag a) := by
  cases tag with
  | none => simp [ofSeq, bind_apply, h, tagEvs]
  | some t =>
    have he : (IM.liftG (emit (t a)) : IM Nat Unit) (idx + 1) lg = (.ok (), idx + 1, lg ++ [t a]) := rfl
    simp [ofSeq, bind_apply, h, he, tagEvs]

/-- `Map(f)` over the (instrumented) slice iterator, ANY script, `f` logging and panicking:
    observations, position and LOG are exactly the reference's: a panic of `f` comes out of the
    `Next` that evaluates it, that element is consumed, and the iterator continues with the
    elements after it; the log is the concatenation, in pull order, of (source event, callback
    events) — nothing is evaluated ahead. -/
theorem map_ofSeq_script {f : α → GoM β} {g : α → Except PanicVal β} {ev : α → List Event} (hf : Logs f g ev)
    (tag : Option (α → Event)) (xs : List α) :
    ∀ (cs : List Call) (idx : Nat) (lg : Log), idx ≤ xs.length →
      runScript (map f (ofSeq tag xs)) cs idx lg =
        (mapSpecObs g cs (xs.drop idx),
          xs.length - (specRest cs (xs.drop idx)).length,
          lg ++ mapSpecLog (tagEvs tag) ev cs (xs.drop idx)) := by
  intro cs
  induction cs with
  | nil => intro idx lg hi; simp [runScript, mapSpecObs, mapSpecLog, specRest]; omega
  | cons c cs ih =>
    intro idx lg hi
    cases c with
    | H =>
      have h1 : (map f (ofSeq tag xs)).hasNext idx lg = (.ok (decide (idx < xs.length)), idx, lg) := by
        simp [map, ofSeq, bind_apply]
      have he : (!(xs.drop idx).isEmpty) = decide (idx < xs.length) := by
        cases hd : xs.drop idx with
        | nil =>
          have : xs.length ≤ idx := by simpa using List.drop_eq_nil_iff.mp hd
          simp; omega
        | cons a r =>
          have : idx < xs.length := by
            rcases Nat.lt_or_ge idx xs.length with h | h
            · exact h
            · rw [List.drop_eq_nil_of_le h] at hd; cases hd
          simp [this]
      simp only [runScript, runCall, h1, ih idx lg hi, mapSpecObs, mapSpecLog, specRest, he]
    | N =>
      cases hd : xs.drop idx with
      | nil =>
        have hge : xs.length ≤ idx := by simpa using List.drop_eq_nil_iff.mp hd
        have h1 : (map f (ofSeq tag xs)).next idx lg = (.error nextOnEmpty, idx, lg) := by
          simp [map, ofSeq, bind_apply, List.getElem?_eq_none hge]
        have := ih idx lg hi
        rw [hd] at this
        simp only [runScript, runCall, h1, this, mapSpecObs, mapSpecLog, specRest]
      | cons a r =>
        have hlt : idx < xs.length := by
          rcases Nat.lt_or_ge idx xs.length with h | h
          · exact h
          · rw [List.drop_eq_nil_of_le h] at hd; cases hd
        have hda := List.drop_eq_getElem_cons hlt
        rw [hda] at hd
        simp only [List.cons.injEq] at hd
        obtain ⟨ha, hr⟩ := hd
        have hx : xs[idx]? = some a := by rw [List.getElem?_eq_getElem hlt, ha]
        have h0 := ofSeq_next_some tag xs idx a lg hx
        have h1 : (map f (ofSeq tag xs)).next idx lg = (g a, idx + 1, lg ++ tagEvs tag a ++ ev a) := by
          simp only [map, bind_ok h0, IM.liftG, hf a (lg ++ tagEvs tag a)]
        have := ih (idx + 1) (lg ++ tagEvs tag a ++ ev a) (by omega)
        rw [hr] at this
        simp only [List.append_assoc] at this h1
        rcases hg : g a with q | b
        · rw [hg] at h1
          simp only [runScript, runCall, h1, this, mapSpecObs, mapSpecLog, specRest, hg, outcomeObs, List.append_assoc]
        · rw [hg] at h1
          simp only [runScript, runCall, h1, this, mapSpecObs, mapSpecLog, specRest, hg, outcomeObs, List.append_assoc]

/-- `Map(f)` over ANY iterator that represents `a :: r`: the panic of `f` on `a` comes out of `Next`,
    and the iterator (whose whole state is the underlying iterator's) then represents exactly `r`. -/
theorem map_next_outcome {f : α → GoM β} {g : α → Except PanicVal β} (hf : Outcome f g) {m : Machine σ α}
    {R : σ → List α → List α → Prop} (hS : Sim m R) (s : σ) (d : List α) (a : α) (r : List α) (lg : Log)
    (hR : R s d (a :: r)) :
    ∃ s' lg', (map f m).next s lg = (g a, s', lg') ∧ R s' (d ++ [a]) r := by
  obtain ⟨s1, lg1, h1, hR1⟩ := hS.next_cons s d a r lg hR
  obtain ⟨lg2, h2⟩ := liftG_outcome hf a s1 lg1
  exact ⟨s1, lg2, by simp [map, bind_ok h1, h2], hR1⟩

/-- two observations agree; only the message of a `Next` on the exhausted iterator is left open
    (it is the underlying iterator's) -/
def ObsAgree (o o' : Obs β) : Prop := o = o' ∨ (∃ q, o = .panic q ∧ o' = .panic nextOnEmpty)

/-- element-wise `ObsAgree` -/
def ObsAgreeL : List (Obs β) → List (Obs β) → Prop
  | [], [] => True
  | o :: os, o' :: os' => ObsAgree o o' ∧ ObsAgreeL os os'
  | _, _ => False

/-- the elements a script consumes from `r` (every `Next` on a non-empty rest consumes one — also
    when the callback panics on it) -/
def specTaken : List Call → List α → List α
  | [], _ => []
  | .H :: cs, r => specTaken cs r
  | .N :: cs, [] => specTaken cs []
  | .N :: cs, a :: r => a :: specTaken cs r

/-- `Map(f)` over ANY iterator (any pipeline of `Spec/C12`: `Sim m R`), ANY script, `f` panicking
    where `g` says so: the observations are the reference's (`mapSpecObs`: a panicking element
    yields `panic` out of the `Next` that evaluates it, and is consumed), and afterwards the
    iterator represents exactly the elements the script has not consumed. -/
theorem map_outcome_script {f : α → GoM β} {g : α → Except PanicVal β} (hf : Outcome f g) {m : Machine σ α}
    {R : σ → List α → List α → Prop} (hS : Sim m R) :
    ∀ (cs : List Call) (s : σ) (d r : List α) (lg : Log), R s d r →
      ObsAgreeL (runScript (map f m) cs s lg).1 (mapSpecObs g cs r) ∧
      R (runScript (map f m) cs s lg).2.1 (d ++ specTaken cs r) (specRest cs r) := by
  intro cs
  induction cs with
  | nil => intro s d r lg hR; simpa [runScript, mapSpecObs, specTaken, specRest, ObsAgreeL] using hR
  | cons c cs ih =>
    intro s d r lg hR
    cases c with
    | H =>
      obtain ⟨s1, lg1, h1, hR1⟩ := hS.hasNext s d r lg hR
      have h1' : (map f m).hasNext s lg = (.ok (!r.isEmpty), s1, lg1) := h1
      obtain ⟨ho, hr⟩ := ih s1 d r lg1 hR1
      simp only [runScript, runCall, h1', mapSpecObs, specTaken, specRest]
      exact ⟨⟨Or.inl rfl, ho⟩, hr⟩
    | N =>
      cases r with
      | nil =>
        obtain ⟨q, s1, lg1, h1, hR1⟩ := hS.next_nil s d lg hR
        have h1' : (map f m).next s lg = (.error q, s1, lg1) := by simp [map, bind_err h1]
        obtain ⟨ho, hr⟩ := ih s1 d [] lg1 hR1
        simp only [runScript, runCall, h1', mapSpecObs, specTaken, specRest]
        exact ⟨⟨Or.inr ⟨q, rfl, rfl⟩, ho⟩, hr⟩
      | cons a r =>
        obtain ⟨s1, lg1, h1, hR1⟩ := map_next_outcome hf hS s d a r lg hR
        obtain ⟨ho, hr⟩ := ih s1 (d ++ [a]) r lg1 hR1
        rcases hg : g a with q | b
        · rw [hg] at h1
          simp only [runScript, runCall, h1, mapSpecObs, specTaken, specRest, hg, outcomeObs]
          exact ⟨⟨Or.inl rfl, ho⟩, by simpa using hr⟩
        · rw [hg] at h1
          simp only [runScript, runCall, h1, mapSpecObs, specTaken, specRest, hg, outcomeObs]
          exact ⟨⟨Or.inl rfl, ho⟩, by simpa using hr⟩

/-! ## FlatMap -/

/-- `FlatMap.HasNext` before the first inner iterator exists (`current = None`), on a non-empty
    underlying iterator, when the callback `mf` PANICS on the next element `a`: the panic propagates
    out of `HasNext`, `a` is consumed, `current` is still `None` — the iterator is a fresh FlatMap
    over the elements after `a`. -/
theorem flatMap_hasNext_panic {τ : Type} {mf : α → GoM τ} {gm : α → Except PanicVal τ} (hmf : Outcome mf gm)
    (inner : Machine τ β) {m : Machine σ α} {R : σ → List α → List α → Prop} (hS : Sim m R) (fuel : Nat)
    (s : σ) (d : List α) (a : α) (r : List α) (lg : Log) (q : PanicVal) (hR : R s d (a :: r)) (hq : gm a = .error q) :
    ∃ s' lg', (flatMap (fuel + 1) mf inner m).hasNext (s, none) lg = (.error q, (s', none), lg') ∧ R s' (d ++ [a]) r := by
  obtain ⟨s1, lg1, h1, hR1⟩ := hS.hasNext s d (a :: r) lg hR
  obtain ⟨s2, lg2, h2, hR2⟩ := hS.next_cons s1 d a r lg1 hR1
  obtain ⟨lg3, h3⟩ := liftG_outcome hmf a (s2, (none : Option τ)) lg2
  rw [hq] at h3
  simp only [List.isEmpty_cons, Bool.not_false] at h1
  refine ⟨s2, lg3, ?_, hR2⟩
  have hc : (IM.onSnd (onCurrent (pure false) inner.hasNext) : IM (σ × Option τ) Bool) (s, none) lg = (.ok false, (s, none), lg) := rfl
  simp [flatMap, flatMapLoop, bind_apply, hc, onFst_eq _ h1, onFst_eq _ h2, h3]

/-! ## Filter: the complete behaviour under any script, predicate panicking -/

/-- what the captured variables of `Filter` mean: `none` = before the first look-ahead (`first`),
    `some fv` = the look-ahead is `fv` -/
def filterMode (c : FilterSt α) : Option (Option α) := if c.first then none else some c.fv

/-- `Next` with look-ahead `ret`: search the next look-ahead first; a panic there keeps `ret` -/
def lookNext (g : α → Except PanicVal Bool) (ret : α) (r : List α) : Obs α × Option (Option α) × List α :=
  match (findE g r).1 with
  | .ok fv => (.val ret, some fv, (findE g r).2)
  | .error q => (.panic q, some (some ret), (findE g r).2)

/-- reference for ONE call on `Filter(p)` over the list `r` -/
def filterStep (g : α → Except PanicVal Bool) : Call → Option (Option α) → List α → Obs α × Option (Option α) × List α
  | .H, none, r =>
    match (findE g r).1 with
    | .ok fv => (.has fv.isSome, some fv, (findE g r).2)
    | .error q => (.panic q, none, (findE g r).2)
  | .H, some fv, r => (.has fv.isSome, some fv, r)
  | .N, some none, r => (.panic nextOnEmpty, some none, r)
  | .N, some (some ret), r => lookNext g ret r
  | .N, none, r =>
    match (findE g r).1 with
    | .error q => (.panic q, none, (findE g r).2)
    | .ok none => (.panic nextOnEmpty, some none, (findE g r).2)
    | .ok (some ret) => lookNext g ret (findE g r).2

/-- reference for a script -/
def filterSpec (g : α → Except PanicVal Bool) : List Call → Option (Option α) → List α → List (Obs α) × Option (Option α) × List α
  | [], md, r => ([], md, r)
  | c :: cs, md, r =>
    ((filterStep g c md r).1 :: (filterSpec g cs (filterStep g c md r).2.1 (filterStep g c md r).2.2).1,
      (filterSpec g cs (filterStep g c md r).2.1 (filterStep g c md r).2.2).2)

theorem filter_next_of_hasNext (fuel : Nat) (p : α → GoM Bool) (m : Machine σ α) (sc sc1 : σ × FilterSt α) (lg lg1 : Log) (b : Bool)
    (h : (filter fuel p m).hasNext sc lg = (.ok b, sc1, lg1)) :
    (filter fuel p m).next sc lg =
      if b then
        match sc1.2.fv with
        | some ret =>
          match find p m fuel sc1.1 lg1 with
          | (.ok fv, s2, lg2) => (.ok ret, (s2, { sc1.2 with fv := fv }), lg2)
          | (.error e, s2, lg2) => (.error e, (s2, sc1.2), lg2)
        | none => (.error "Option.empty", sc1, lg1)
      else (.error nextOnEmpty, sc1, lg1) := by
  unfold filter at h ⊢
  simp only [] at h ⊢
  rw [bind_ok h]
  obtain ⟨s1, c1⟩ := sc1
  cases b
  · simp
  · cases hfv : c1.fv with
    | none => simp [bind_apply, hfv]
    | some v =>
      simp only [if_true, bind_apply, onSnd_get, hfv, onFst_apply]
      rcases hfd : find p m fuel s1 lg1 with ⟨_ | fv, s2, lg2⟩ <;> simp

theorem filter_next_of_hasNext_err (fuel : Nat) (p : α → GoM Bool) (m : Machine σ α) (sc sc1 : σ × FilterSt α) (lg lg1 : Log)
    (q : PanicVal) (h : (filter fuel p m).hasNext sc lg = (.error q, sc1, lg1)) :
    (filter fuel p m).next sc lg = (.error q, sc1, lg1) := by
  unfold filter at h ⊢
  simp only [] at h ⊢
  rw [bind_err h]

theorem findE_length_le (g : α → Except PanicVal Bool) (r : List α) : (findE g r).2.length ≤ r.length := by
  obtain ⟨d1, h⟩ := findE_suffix g r
  have := congrArg List.length h
  simp only [List.length_append] at this
  omega

/-- ONE call on `Filter(p)`, `p` panicking where `g` says so, over any iterator below: observation,
    captured variables and the list the iterator below represents are the reference's. -/
theorem filter_call_spec {p : α → GoM Bool} {g : α → Except PanicVal Bool} (hp : Outcome p g) {m : Machine σ α}
    {R : σ → List α → List α → Prop} (hS : Sim m R) (fuel : Nat) (c : Call) (s : σ) (cst : FilterSt α) (d r : List α) (lg : Log)
    (hf : r.length < fuel) (hR : R s d r) :
    ∃ s' cst' lg' d1,
      runCall (filter fuel p m) c (s, cst) lg = ((filterStep g c (filterMode cst) r).1, (s', cst'), lg') ∧
      filterMode cst' = (filterStep g c (filterMode cst) r).2.1 ∧
      R s' (d ++ d1) (filterStep g c (filterMode cst) r).2.2 ∧
      (filterStep g c (filterMode cst) r).2.2.length ≤ r.length := by
  rcases cst with ⟨first, fv0⟩
  cases first with
  | true =>
    -- before the first look-ahead
    obtain ⟨s1, lg1, d1, hR1, hd1, e1⟩ := filter_hasNext_first hp hS fuel s fv0 d r lg hf hR
    have hlen1 := findE_length_le g r
    cases c with
    | H =>
      rcases hr : (findE g r).1 with q | fv
      · rw [hr] at e1
        refine ⟨s1, ⟨true, fv0⟩, lg1, d1, ?_, ?_, ?_, ?_⟩
        · simp [runCall, e1, filterStep, filterMode, hr]
        · simp [filterStep, filterMode, hr]
        · simpa [filterStep, filterMode, hr] using hR1
        · simpa [filterStep, filterMode, hr] using hlen1
      · rw [hr] at e1
        refine ⟨s1, ⟨false, fv⟩, lg1, d1, ?_, ?_, ?_, ?_⟩
        · simp [runCall, e1, filterStep, filterMode, hr]
        · simp [filterStep, filterMode, hr]
        · simpa [filterStep, filterMode, hr] using hR1
        · simpa [filterStep, filterMode, hr] using hlen1
    | N =>
      rcases hr : (findE g r).1 with q | fv
      · rw [hr] at e1
        have e2 := filter_next_of_hasNext_err fuel p m _ _ _ _ _ e1
        refine ⟨s1, ⟨true, fv0⟩, lg1, d1, ?_, ?_, ?_, ?_⟩
        · simp [runCall, e2, filterStep, filterMode, hr]
        · simp [filterStep, filterMode, hr]
        · simpa [filterStep, filterMode, hr] using hR1
        · simpa [filterStep, filterMode, hr] using hlen1
      · rw [hr] at e1
        have e2 := filter_next_of_hasNext fuel p m _ _ _ _ _ e1
        cases fv with
        | none =>
          refine ⟨s1, ⟨false, none⟩, lg1, d1, ?_, ?_, ?_, ?_⟩
          · simp at e2; simp [runCall, e2, filterStep, filterMode, hr]
          · simp [filterStep, filterMode, hr]
          · simpa [filterStep, filterMode, hr] using hR1
          · simpa [filterStep, filterMode, hr] using hlen1
        | some ret =>
          have hf2 : (findE g r).2.length < fuel := by omega
          obtain ⟨s2, lg2, d2, h2, hR2, hd2⟩ := find_pspec hp hS (findE g r).2 fuel s1 (d ++ d1) lg1 hf2 hR1
          have hlen2 := findE_length_le g (findE g r).2
          simp only [Option.isSome_some, if_true] at e2
          rw [h2] at e2
          rcases hr2 : (findE g (findE g r).2).1 with q | fv2
          · rw [hr2] at e2
            refine ⟨s2, ⟨false, some ret⟩, lg2, d1 ++ d2, ?_, ?_, ?_, ?_⟩
            · simp [runCall, e2, filterStep, filterMode, hr, lookNext, hr2]
            · simp [filterStep, filterMode, hr, lookNext, hr2]
            · simpa [filterStep, filterMode, hr, lookNext, hr2, List.append_assoc] using hR2
            · have e3 : (filterStep g .N (filterMode (⟨true, fv0⟩ : FilterSt α)) r).2.2 = (findE g (findE g r).2).2 := by
                simp [filterStep, filterMode, hr, lookNext, hr2]
              rw [e3]; omega
          · rw [hr2] at e2
            refine ⟨s2, ⟨false, fv2⟩, lg2, d1 ++ d2, ?_, ?_, ?_, ?_⟩
            · simp [runCall, e2, filterStep, filterMode, hr, lookNext, hr2]
            · simp [filterStep, filterMode, hr, lookNext, hr2]
            · simpa [filterStep, filterMode, hr, lookNext, hr2, List.append_assoc] using hR2
            · have e3 : (filterStep g .N (filterMode (⟨true, fv0⟩ : FilterSt α)) r).2.2 = (findE g (findE g r).2).2 := by
                simp [filterStep, filterMode, hr, lookNext, hr2]
              rw [e3]; omega
  | false =>
    cases c with
    | H =>
      refine ⟨s, ⟨false, fv0⟩, lg, [], ?_, ?_, ?_, ?_⟩
      · simp [runCall, filter, bind_apply, filterStep, filterMode]
      · simp [filterStep, filterMode]
      · simpa [filterStep, filterMode] using hR
      · simp [filterStep, filterMode]
    | N =>
      cases fv0 with
      | none =>
        refine ⟨s, ⟨false, none⟩, lg, [], ?_, ?_, ?_, ?_⟩
        · simp [runCall, filter, bind_apply, filterStep, filterMode]
        · simp [filterStep, filterMode]
        · simpa [filterStep, filterMode] using hR
        · simp [filterStep, filterMode]
      | some ret =>
        obtain ⟨s1, lg1, d1, hR1, hd1, e1⟩ := filter_next_lookahead hp hS fuel s ret d r lg hf hR
        have hlen1 := findE_length_le g r
        rcases hr : (findE g r).1 with q | fv
        · rw [hr] at e1
          refine ⟨s1, ⟨false, some ret⟩, lg1, d1, ?_, ?_, ?_, ?_⟩
          · simp [runCall, e1, filterStep, filterMode, lookNext, hr]
          · simp [filterStep, filterMode, lookNext, hr]
          · simpa [filterStep, filterMode, lookNext, hr] using hR1
          · simpa [filterStep, filterMode, lookNext, hr] using hlen1
        · rw [hr] at e1
          refine ⟨s1, ⟨false, fv⟩, lg1, d1, ?_, ?_, ?_, ?_⟩
          · simp [runCall, e1, filterStep, filterMode, lookNext, hr]
          · simp [filterStep, filterMode, lookNext, hr]
          · simpa [filterStep, filterMode, lookNext, hr] using hR1
          · simpa [filterStep, filterMode, lookNext, hr] using hlen1

/-- `Filter(p)` under ANY script, over any iterator below, `p` panicking where `g` says so:
    observations and final captured variables are the reference's, and the iterator below is left
    representing exactly the reference's rest. -/
theorem filter_outcome_script {p : α → GoM Bool} {g : α → Except PanicVal Bool} (hp : Outcome p g) {m : Machine σ α}
    {R : σ → List α → List α → Prop} (hS : Sim m R) (fuel : Nat) :
    ∀ (cs : List Call) (s : σ) (cst : FilterSt α) (d r : List α) (lg : Log), r.length < fuel → R s d r →
      (runScript (filter fuel p m) cs (s, cst) lg).1 = (filterSpec g cs (filterMode cst) r).1 ∧
      filterMode (runScript (filter fuel p m) cs (s, cst) lg).2.1.2 = (filterSpec g cs (filterMode cst) r).2.1 ∧
      ∃ d', R (runScript (filter fuel p m) cs (s, cst) lg).2.1.1 d' (filterSpec g cs (filterMode cst) r).2.2 := by
  intro cs
  induction cs with
  | nil => intro s cst d r lg _ hR; exact ⟨rfl, rfl, d, hR⟩
  | cons c cs ih =>
    intro s cst d r lg hf hR
    obtain ⟨s1, cst1, lg1, d1, e, hm, hR1, hlen⟩ := filter_call_spec hp hS fuel c s cst d r lg hf hR
    obtain ⟨h1, h2, d', h3⟩ := ih s1 cst1 (d ++ d1) _ lg1 (by omega) hR1
    rw [hm] at h1 h2 h3
    have erun : runScript (filter fuel p m) (c :: cs) (s, cst) lg =
        ((filterStep g c (filterMode cst) r).1 :: (runScript (filter fuel p m) cs (s1, cst1) lg1).1,
          (runScript (filter fuel p m) cs (s1, cst1) lg1).2) := by
      simp only [runScript, e]
    rw [erun]
    exact ⟨by simp only [filterSpec, h1], by simpa only [filterSpec] using h2, d', by simpa only [filterSpec] using h3⟩

/-! ## TakeWhile: the complete behaviour under any script, predicate panicking -/

/-- reference for ONE call on `TakeWhile(p)` over the list `r`; the captured variables themselves
    are the mode (`breaking`; look-ahead `fv`) -/
def twStep (g : α → Except PanicVal Bool) : Call → TakeWhileSt α → List α → Obs α × TakeWhileSt α × List α
  | .H, ⟨true, fv⟩, r => (.has false, ⟨true, fv⟩, r)
  | .H, ⟨false, some v⟩, r => (.has true, ⟨false, some v⟩, r)
  | .H, ⟨false, none⟩, [] => (.has false, ⟨false, none⟩, [])
  | .H, ⟨false, none⟩, a :: r =>
    match g a with
    | .ok true => (.has true, ⟨false, some a⟩, r)
    | .ok false => (.has false, ⟨true, none⟩, r)
    | .error q => (.panic q, ⟨false, none⟩, r)
  | .N, ⟨true, fv⟩, r => (.panic nextOnEmpty, ⟨true, fv⟩, r)
  | .N, ⟨false, some v⟩, r => (.val v, ⟨false, none⟩, r)
  | .N, ⟨false, none⟩, [] => (.panic nextOnEmpty, ⟨false, none⟩, [])
  | .N, ⟨false, none⟩, a :: r =>
    match g a with
    | .ok true => (.val a, ⟨false, none⟩, r)
    | .ok false => (.panic nextOnEmpty, ⟨true, none⟩, r)
    | .error q => (.panic q, ⟨false, none⟩, r)

def twSpec (g : α → Except PanicVal Bool) : List Call → TakeWhileSt α → List α → List (Obs α) × TakeWhileSt α × List α
  | [], c, r => ([], c, r)
  | k :: cs, c, r =>
    ((twStep g k c r).1 :: (twSpec g cs (twStep g k c r).2.1 (twStep g k c r).2.2).1,
      (twSpec g cs (twStep g k c r).2.1 (twStep g k c r).2.2).2)

theorem takeWhile_next_of_hasNext_err' (p : α → GoM Bool) (m : Machine σ α) (sc sc1 : σ × TakeWhileSt α) (lg lg1 : Log)
    (q : PanicVal) (h : (takeWhile p m).hasNext sc lg = (.error q, sc1, lg1)) :
    (takeWhile p m).next sc lg = (.error q, sc1, lg1) := by
  unfold takeWhile at h ⊢
  simp only [] at h ⊢
  rw [bind_err h]

/-- `HasNext` of `TakeWhile(p)`: the reference, for every state -/
theorem takeWhile_hasNext_spec {p : α → GoM Bool} {g : α → Except PanicVal Bool} (hp : Outcome p g) {m : Machine σ α}
    {R : σ → List α → List α → Prop} (hS : Sim m R) (s : σ) (cst : TakeWhileSt α) (d r : List α) (lg : Log) (hR : R s d r) :
    ∃ s' lg' d1, (takeWhile p m).hasNext (s, cst) lg =
        (match (twStep g .H cst r).1 with | .has b => .ok b | .panic q => .error q | .val _ => .ok false,
          (s', (twStep g .H cst r).2.1), lg') ∧
      R s' (d ++ d1) (twStep g .H cst r).2.2 ∧ (twStep g .H cst r).2.2.length ≤ r.length := by
  rcases cst with ⟨_ | _, _ | v⟩
  · cases r with
    | nil =>
      obtain ⟨s1, lg1, h1, hR1⟩ := hS.hasNext s d [] lg hR
      simp only [List.isEmpty_nil, Bool.not_true] at h1
      exact ⟨s1, lg1, [], by simp [takeWhile, bind_apply, onFst_eq _ h1, twStep], by simpa [twStep] using hR1, by simp [twStep]⟩
    | cons a r =>
      obtain ⟨s1, lg1, hR1, e⟩ := takeWhile_hasNext_outcome hp hS s d a r lg hR
      have e' : (takeWhile p m).hasNext (s, ⟨false, none⟩) lg = _ := e
      rcases hg : g a with q | b
      · rw [hg] at e'
        exact ⟨s1, lg1, [a], by simp [e', twStep, hg], by simpa [twStep, hg] using hR1, by simp [twStep, hg]⟩
      · rw [hg] at e'
        cases b
        · exact ⟨s1, lg1, [a], by simp [e', twStep, hg], by simpa [twStep, hg] using hR1, by simp [twStep, hg]⟩
        · exact ⟨s1, lg1, [a], by simp [e', twStep, hg], by simpa [twStep, hg] using hR1, by simp [twStep, hg]⟩
  · exact ⟨s, lg, [], by simp [takeWhile, bind_apply, twStep], by simpa [twStep] using hR, by simp [twStep]⟩
  · exact ⟨s, lg, [], by simp [takeWhile, bind_apply, twStep], by simpa [twStep] using hR, by simp [twStep]⟩
  · exact ⟨s, lg, [], by simp [takeWhile, bind_apply, twStep], by simpa [twStep] using hR, by simp [twStep]⟩

theorem twStep_N_of_H (g : α → Except PanicVal Bool) (cst : TakeWhileSt α) (r : List α) :
    twStep g .N cst r =
      match twStep g .H cst r with
      | (.has true, c1, r1) =>
        (match c1.fv with
         | some v => (.val v, { c1 with fv := none }, r1)
         | none => (.panic "Option.empty", c1, r1))
      | (.has false, c1, r1) => (.panic nextOnEmpty, c1, r1)
      | (.panic q, c1, r1) => (.panic q, c1, r1)
      | (.val _, c1, r1) => (.panic nextOnEmpty, c1, r1) := by
  rcases cst with ⟨_ | _, _ | v⟩
  · cases r with
    | nil => rfl
    | cons a r =>
      simp only [twStep]
      rcases hg : g a with q | b
      · rfl
      · cases b <;> rfl
  · rfl
  · rfl
  · rfl

/-- ONE call on `TakeWhile(p)`, `p` panicking where `g` says so, over any iterator below -/
theorem takeWhile_call_spec {p : α → GoM Bool} {g : α → Except PanicVal Bool} (hp : Outcome p g) {m : Machine σ α}
    {R : σ → List α → List α → Prop} (hS : Sim m R) (c : Call) (s : σ) (cst : TakeWhileSt α) (d r : List α) (lg : Log)
    (hR : R s d r) :
    ∃ s' lg' d1,
      runCall (takeWhile p m) c (s, cst) lg = ((twStep g c cst r).1, (s', (twStep g c cst r).2.1), lg') ∧
      R s' (d ++ d1) (twStep g c cst r).2.2 := by
  obtain ⟨s', lg', d1, e, hR', _⟩ := takeWhile_hasNext_spec hp hS s cst d r lg hR
  rcases hH : twStep g .H cst r with ⟨o, c1, r1⟩
  rw [hH] at e hR'
  simp only at e hR'
  cases c with
  | H =>
    refine ⟨s', lg', d1, ?_, by rw [hH]; exact hR'⟩
    rw [hH]
    cases o with
    | has b => simp [runCall, e]
    | panic q => simp [runCall, e]
    | val v =>
      exfalso
      rcases cst with ⟨_ | _, _ | v'⟩
      · cases r with
        | nil => simp [twStep] at hH
        | cons a r =>
          simp only [twStep] at hH
          rcases hg : g a with q | b
          · rw [hg] at hH; simp at hH
          · rw [hg] at hH; cases b <;> simp at hH
      · simp [twStep] at hH
      · simp [twStep] at hH
      · simp [twStep] at hH
  | N =>
    have hN := twStep_N_of_H g cst r
    rw [hH] at hN
    cases o with
    | panic q =>
      simp only at e hN
      have e2 := takeWhile_next_of_hasNext_err' p m _ _ _ _ _ e
      exact ⟨s', lg', d1, by simp [runCall, e2, hN], by rw [hN]; exact hR'⟩
    | val v =>
      exfalso
      rcases cst with ⟨_ | _, _ | v'⟩
      · cases r with
        | nil => simp [twStep] at hH
        | cons a r =>
          simp only [twStep] at hH
          rcases hg : g a with q | b
          · rw [hg] at hH; simp at hH
          · rw [hg] at hH; cases b <;> simp at hH
      · simp [twStep] at hH
      · simp [twStep] at hH
      · simp [twStep] at hH
    | has b =>
      simp only at e
      have e2 := takeWhile_next_eq p m _ _ _ _ _ e
      cases b with
      | false =>
        simp only at hN
        exact ⟨s', lg', d1, by simp [runCall, e2, hN], by rw [hN]; exact hR'⟩
      | true =>
        simp only at hN
        rcases c1 with ⟨br, _ | v⟩
        · simp only at hN e2
          exact ⟨s', lg', d1, by simp [runCall, e2, hN], by rw [hN]; exact hR'⟩
        · simp only at hN e2
          exact ⟨s', lg', d1, by simp [runCall, e2, hN], by rw [hN]; exact hR'⟩

/-- `TakeWhile(p)` under ANY script, over any iterator below, `p` panicking where `g` says so:
    observations and captured variables are exactly the reference's (`twSpec`), the iterator below
    represents the reference's rest. -/
theorem takeWhile_outcome_script {p : α → GoM Bool} {g : α → Except PanicVal Bool} (hp : Outcome p g) {m : Machine σ α}
    {R : σ → List α → List α → Prop} (hS : Sim m R) :
    ∀ (cs : List Call) (s : σ) (cst : TakeWhileSt α) (d r : List α) (lg : Log), R s d r →
      (runScript (takeWhile p m) cs (s, cst) lg).1 = (twSpec g cs cst r).1 ∧
      (runScript (takeWhile p m) cs (s, cst) lg).2.1.2 = (twSpec g cs cst r).2.1 ∧
      ∃ d', R (runScript (takeWhile p m) cs (s, cst) lg).2.1.1 d' (twSpec g cs cst r).2.2 := by
  intro cs
  induction cs with
  | nil => intro s cst d r lg hR; exact ⟨rfl, rfl, d, hR⟩
  | cons c cs ih =>
    intro s cst d r lg hR
    obtain ⟨s1, lg1, d1, e, hR1⟩ := takeWhile_call_spec hp hS c s cst d r lg hR
    obtain ⟨h1, h2, d', h3⟩ := ih s1 (twStep g c cst r).2.1 (d ++ d1) (twStep g c cst r).2.2 lg1 hR1
    have erun : runScript (takeWhile p m) (c :: cs) (s, cst) lg =
        ((twStep g c cst r).1 :: (runScript (takeWhile p m) cs (s1, (twStep g c cst r).2.1) lg1).1,
          (runScript (takeWhile p m) cs (s1, (twStep g c cst r).2.1) lg1).2) := by
      simp only [runScript, e]
    rw [erun]
    exact ⟨by simp only [twSpec, h1], by simpa only [twSpec] using h2, d', by simpa only [twSpec] using h3⟩

end FpVerif.It
