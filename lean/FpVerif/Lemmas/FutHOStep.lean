import FpVerif.Lemmas.FutHOSound
/-!
# Every task and every scheduler event preserves the higher-order invariant; goodness of every promise

(helper lemmas for `Spec/C06HO.lean`, continuation of `Lemmas/FutHOSound.lean`)
-/
namespace FpVerif.Spec.C06.HO
open FpVerif FpVerif.Fut FpVerif.Spec.C06

/-- build the future a user function returned, then let it complete `np` -/
theorem inv_chain {nsrc : Nat} {T : TSpec} {n : Net} (h : Inv nsrc T n) {τ : Ty} (e sp : TExpr τ) (np : Nat)
    (hnp : np < n.next) (hsp : T np = ⟨τ, sp⟩)
    (hj : ∀ σ', Ext n.status σ' → den (absE σ') sp = den (absE σ') e) :
    ∃ T', Inv nsrc T' (onComplete (build (erase e) n).1 (.completeWith np) (build (erase e) n).2) ∧
      Le T T' n (onComplete (build (erase e) n).1 (.completeWith np) (build (erase e) n).2) := by
  obtain ⟨hi, hle, hr⟩ := inv_build (nsrc := nsrc) e T n h
  obtain ⟨hi2, hle2⟩ := inv_onComplete hi (build (erase e) n).1 (.completeWith np)
    ⟨Nat.lt_of_lt_of_le hnp hle.next, τ, sp, e, n.next, by rw [hle.spec np hnp]; exact hsp, hnp, hr,
      fun σ' hx => hj σ' (fun p v hp => hx p v (hle.status p v hp))⟩
  exact ⟨_, hi2, hle.trans hle2⟩

theorem inv_log {nsrc : Nat} {T : TSpec} {n : Net} (h : Inv nsrc T n) (evs : List Event) :
    Inv nsrc T { n with log := n.log ++ evs } ∧ Le T T n { n with log := n.log ++ evs } :=
  ⟨inv_congr h rfl rfl rfl rfl rfl, le_of_eq T rfl rfl⟩

/-- completing `np` with a result `t` that its spec denotes in every later state -/
theorem inv_completeEq {nsrc : Nat} {T : TSpec} {n : Net} (h : Inv nsrc T n) (np : Nat) (t : Try Val) (hnp : np < n.next)
    {τ : Ty} {sp : TExpr τ} (hsp : T np = ⟨τ, sp⟩)
    (heq : n.status np = none → ∀ σ' : Nat → Option (Try Val), Ext n.status σ' → σ' np = some t →
      den (absE σ') sp = some (absT σ' τ t)) :
    Inv nsrc T (complete np t n) ∧ Le T T n (complete np t n) := by
  refine inv_complete h np t hnp ?_
  intro hn d σ' hx _
  rw [good_iff hsp]
  have h1 : σ' np = some t := hx np t (by simp)
  have h2 : Ext n.status σ' := fun q v hq => hx q v (upd_keep n np q t v hq hn)
  rw [absS_some τ h1]
  exact rel_of_eq d (heq hn σ' h2 h1).symm

theorem inv_runTask {nsrc : Nat} {T : TSpec} {n : Net} (h : Inv nsrc T n) (tk : Task) (htk : TaskOK T n tk) :
    ∃ T', Inv nsrc T' (runTask tk n) ∧ Le T T' n (runTask tk n) := by
  cases tk with
  | applyT f np =>
    obtain ⟨hnp, hsp⟩ := htk
    obtain ⟨hi0, hle0⟩ := inv_log h (f ()).2
    obtain ⟨hi1, hle1⟩ := inv_completeEq hi0 np (f ()).1 hnp hsp (by intro _ σ' _ _; rfl)
    exact ⟨T, hi1, hle0.trans hle1⟩
  | cb c t =>
    obtain ⟨q, hq, hc⟩ := htk
    cases c with
    | flatMapA k np =>
      obtain ⟨hnp, hk⟩ := hc
      rcases hk with ⟨τ, k', hsp, rfl⟩ | ⟨τ, hsp, rfl⟩
      · cases t with
        | success v =>
          exact inv_chain h (k' v) _ np hnp hsp (by
            intro σ' hx
            simp [den, absE, absS_val, hx q _ hq, bindOkS])
        | failure e =>
          obtain ⟨hi, hle⟩ := inv_completeEq h np (.failure e) hnp hsp (by
            intro _ σ' hx _
            simp [den, absE, absS_val, hx q _ hq, bindOkS, absT_failure])
          exact ⟨T, hi, hle⟩
      · cases t with
        | success v =>
          exact inv_chain h (.ref τ (unhandle v)) _ np hnp hsp (by
            intro σ' hx
            simp [den, absE, absS_fut_success τ (hx q _ hq), joinS, bindOkS])
        | failure e =>
          obtain ⟨hi, hle⟩ := inv_completeEq h np (.failure e) hnp hsp (by
            intro _ σ' hx _
            simp [den, absE, absS_some _ (hx q _ hq), joinS, bindOkS, absT_failure])
          exact ⟨T, hi, hle⟩
    | completeWith np =>
      obtain ⟨hnp, τ, sp, e, lo, hsp, hlo, hr, hj⟩ := hc
      obtain ⟨hi, hle⟩ := inv_complete h np t hnp (by
        intro hn d σ' hx hy
        rw [good_iff hsp]
        have h1 : σ' np = some t := hx np t (by simp)
        have h2 : Ext n.status σ' := fun q v hq => hx q v (upd_keep n np q t v hq hn)
        rw [hj σ' h2, absS_some τ h1, ← absS_some τ (h2 q t hq)]
        exact root_rel d T n σ' lo e q (fun p' h3 h4 => hy p' (Nat.lt_of_lt_of_le hlo h3) h4) hr)
      exact ⟨T, hi, hle⟩
    | transformA f np =>
      obtain ⟨hnp, hsp⟩ := hc
      obtain ⟨hi0, hle0⟩ := inv_log h (f t).2
      obtain ⟨hi1, hle1⟩ := inv_completeEq hi0 np (f t).1 hnp hsp (by
        intro _ σ' hx _
        have hq' : σ' q = some t := hx q t hq
        simp [den, absE, absS_val, hq', absT_val] <;> rfl)
      exact ⟨T, hi1, hle0.trans hle1⟩
    | transformWithA k np =>
      obtain ⟨hnp, τ, k', hsp, rfl⟩ := hc
      exact inv_chain h (k' t) _ np hnp hsp (by
        intro σ' hx
        simp [den, absE, absS_val, hx q _ hq, bindTryS])
    | recoverWithA d k np =>
      obtain ⟨hnp, τ, k', hsp, rfl⟩ := hc
      cases t with
      | success v =>
        obtain ⟨hi, hle⟩ := inv_completeEq h np (.success v) hnp hsp (by
          intro _ σ' hx _
          obtain ⟨x, hx'⟩ := absT_success σ' τ v
          simp [den, absE, absS_some τ (hx q _ hq), bindTryS, hx', recS])
        exact ⟨T, hi, hle⟩
      | failure e =>
        simp only [runTask]
        by_cases hd : d e = true
        · simp only [hd, if_true]
          exact inv_chain h (k' e) _ np hnp hsp (by
            intro σ' hx
            simp [den, absE, absS_some τ (hx q _ hq), bindTryS, absT_failure, recS, hd])
        · simp only [hd]
          obtain ⟨hi, hle⟩ := inv_completeEq h np (.failure e) hnp hsp (by
            intro _ σ' hx _
            simp [den, absE, absS_some τ (hx q _ hq), bindTryS, absT_failure, recS, hd])
          exact ⟨T, hi, hle⟩
    | orFutureA alt np =>
      obtain ⟨hnp, τ, hsp⟩ := hc
      cases t with
      | success v =>
        obtain ⟨hi, hle⟩ := inv_completeEq h np (.success v) hnp hsp (by
          intro _ σ' hx _
          obtain ⟨x, hx'⟩ := absT_success σ' τ v
          simp [den, absE, absS_some τ (hx q _ hq), bindTryS, hx', recS])
        exact ⟨T, hi, hle⟩
      | failure e =>
        obtain ⟨hi, hle⟩ := inv_onComplete h alt (.completeWith np)
          ⟨hnp, τ, _, .ref τ alt, np + 1, hsp, Nat.lt_succ_self _, rfl, by
            intro σ' hx
            simp [den, absE, absS_some τ (hx q _ hq), bindTryS, absT_failure, recS]⟩
        exact ⟨T, hi, hle⟩
    | observe id =>
      obtain ⟨hi, hle⟩ := inv_log h [s!"obs{id}:{Val.ofTry t}"]
      exact ⟨T, hi, hle⟩

-- events ---------------------------------------------------------------------------------------------------------------

/-- the programs that are (erasures of) typed construction programs of type `τ` -/
def HO (τ : Ty) (e : FExpr) : Prop := ∃ t : TExpr τ, erase t = e

/-- what the environment and the program may do: only source promises are completed from outside; the program
    constructs futures from typed programs (first-order combinators, `Successful` of a future, `Flatten`) -/
def EvOK (nsrc : Nat) : Ev → Prop
  | .run _ => True
  | .src p t => p < nsrc ∧ WFTry t       -- audit finding 1: never `Try{}` / `Failure(nil)` (see `Lemmas/FutWF.lean`)
  | .mk e => (∃ τ, HO τ e) ∧ WFE e       -- … and every Try a constructed program can produce is well formed
  | .obs _ _ => True

theorem EvOK.wf {nsrc : Nat} {ev : Ev} (h : EvOK nsrc ev) : EvWF ev := by
  cases ev with
  | run i => trivial
  | src p t => exact h.2
  | mk e => exact h.2
  | obs p id => trivial

def Valid (nsrc : Nat) (evs : List Ev) : Prop := ∀ ev ∈ evs, EvOK nsrc ev

theorem inv_step {nsrc : Nat} {T : TSpec} {n : Net} (h : Inv nsrc T n) (ev : Ev) (hev : EvOK nsrc ev) :
    ∃ T', Inv nsrc T' (step n ev) ∧ Le T T' n (step n ev) := by
  cases ev with
  | run i =>
    simp only [step]
    cases hi : n.pool[i]? with
    | none => exact ⟨T, h, Le.refl T n⟩
    | some tk =>
      simp only
      have hmem : tk ∈ n.pool := List.mem_of_getElem? hi
      have hle : Le T T n { n with pool := n.pool.eraseIdx i } := le_of_eq T rfl rfl
      have h0 : Inv nsrc T { n with pool := n.pool.eraseIdx i } :=
        ⟨fun q v hq => just_le hle (h.lt hq) (h.just q v hq),
         fun tk' htk' => taskOK_le hle tk' (h.tasks tk' (List.mem_of_mem_eraseIdx htk')),
         fun q c hc => cbOK_le hle q c (h.cbs q c hc), h.fresh, h.srcs, h.spec⟩
      obtain ⟨T', hi', hle'⟩ := inv_runTask h0 tk (taskOK_le hle tk (h.tasks tk hmem))
      exact ⟨T', hi', hle.trans hle'⟩
  | src p t =>
    have hp : p < nsrc := hev.1
    obtain ⟨hi, hle⟩ := inv_completeEq h p t (Nat.lt_of_lt_of_le hp h.srcs.1) (h.srcs.2 p hp) (by
      intro _ σ' _ h1
      simp [den, absE, absS_val, h1, absT_val] <;> rfl)
    exact ⟨T, hi, hle⟩
  | mk e =>
    obtain ⟨⟨τ, t, rfl⟩, _⟩ := hev
    obtain ⟨hi, hle, _⟩ := inv_build (nsrc := nsrc) t T n h
    exact ⟨_, hi, hle⟩
  | obs p id =>
    obtain ⟨hi, hle⟩ := inv_onComplete h p (.observe id) trivial
    exact ⟨T, hi, hle⟩

def T0 : TSpec := fun p => ⟨.val, .ref .val p⟩

theorem inv_init (nsrc : Nat) : Inv nsrc T0 (Net.empty nsrc) where
  just := by intro p v hp; simp [Net.empty] at hp
  tasks := by intro tk htk; simp [Net.empty] at htk
  cbs := by intro q c hc; simp [Net.empty] at hc
  fresh := by intro p _; rfl
  srcs := ⟨Nat.le_refl _, fun _ _ => rfl⟩
  spec := fun _ _ => rfl

theorem inv_run {nsrc : Nat} (evs : List Ev) : ∀ (T : TSpec) (n : Net), Inv nsrc T n → Valid nsrc evs →
    ∃ T', Inv nsrc T' (runEvs n evs) ∧ Le T T' n (runEvs n evs) := by
  induction evs with
  | nil => intro T n h _; exact ⟨T, h, Le.refl T n⟩
  | cons ev evs ih =>
    intro T n h hv
    obtain ⟨T1, h1, hle1⟩ := inv_step h ev (hv ev (by simp))
    obtain ⟨T2, h2, hle2⟩ := ih T1 (step n ev) h1 (fun ev' hm => hv ev' (by simp [hm]))
    exact ⟨T2, h2, hle1.trans hle2⟩

-- goodness of every promise, in one state -------------------------------------------------------------------------------

/-- by induction on the creation order, youngest first -/
theorem all_good {nsrc : Nat} {T : TSpec} {n : Net} (h : Inv nsrc T n) (d : Dir)
    (hpend : ∀ p, p < n.next → n.status p = none →
      (∀ p', p < p' → p' < n.next → Good d T n.status p') → Good d T n.status p) :
    ∀ p, p < n.next → Good d T n.status p := by
  have key : ∀ k p, n.next ≤ p + k → p < n.next → Good d T n.status p := by
    intro k
    induction k with
    | zero => intro p hk hlt; omega
    | succ k ih =>
      intro p hk hlt
      cases hst : n.status p with
      | none => exact hpend p hlt hst (fun p' h1 h2 => ih p' (by omega) h2)
      | some v => exact h.just p v hst d n.status (fun _ _ hq => hq) (fun p' h1 h2 => ih p' (by omega) h2)
  intro p hlt
  exact key n.next p (Nat.le_add_left _ _) hlt

/-- **Soundness, one state**: the `Sem`-level reading of every promise is below the denotation of its typed spec -/
theorem all_good_le {nsrc : Nat} {T : TSpec} {n : Net} (h : Inv nsrc T n) : ∀ p, p < n.next → Good .le T n.status p :=
  all_good h .le (fun p _ hp _ => by unfold Good; rw [absS_none _ hp]; exact leS_none _ _)

/-- the root of a value-typed program, once completed, holds what the program denotes -/
theorem root_sound {nsrc : Nat} {T : TSpec} {n : Net} (h : Inv nsrc T n) (lo : Nat) (e : TExpr .val) (q : Nat) (r : Try Val)
    (hr : RootOf T n lo q e) (hq : n.status q = some r) : den (absE n.status) e = some r := by
  have := root_rel .le T n n.status lo e q (fun p' _ hlt => all_good_le h p' hlt) hr
  rw [absS_val, hq] at this
  exact leS_val.1 this

end FpVerif.Spec.C06.HO
