import FpVerif.Model.MemoPanic
/-!
# Invariant of the concurrent `sync.Once` cell with a thunk that returns or panics (`Model/MemoPanic.lean`)

The property statements are in `Spec/C16Panic.lean`; here: weights summed over the goroutines, the invariant,
its preservation by every atomic step, and the accounting of programs (calls started + calls to do).
-/
namespace FpVerif.MemoPanic
open FpVerif

variable {T : Type}

-- ---------------------------------------------------------------------------------- sums over goroutines

/-- sum of a weight over the goroutines -/
def sumW (w : Thread T → Nat) (ts : List (Thread T)) : Nat := (ts.map w).sum

@[simp] theorem sumW_nil (w : Thread T → Nat) : sumW w [] = 0 := rfl
@[simp] theorem sumW_cons (w : Thread T → Nat) (t : Thread T) (ts : List (Thread T)) :
    sumW w (t :: ts) = w t + sumW w ts := by simp [sumW]

theorem sumW_set (w : Thread T → Nat) (ts : List (Thread T)) (i : Nat) (t old : Thread T)
    (h : ts[i]? = some old) : sumW w (ts.set i t) + w old = sumW w ts + w t := by
  induction ts generalizing i with
  | nil => simp at h
  | cons x xs ih =>
    cases i with
    | zero => simp at h; subst h; simp [List.set]; omega
    | succ j =>
      simp at h
      have := ih j h
      simp [List.set] at this ⊢; omega

theorem sumW_eq_zero_mem (w : Thread T → Nat) (ts : List (Thread T)) (h : sumW w ts = 0)
    (t : Thread T) (ht : t ∈ ts) : w t = 0 := by
  induction ts with
  | nil => simp at ht
  | cons x xs ih =>
    simp at h
    rcases List.mem_cons.mp ht with rfl | hm
    · exact h.1
    · exact ih h.2 hm

theorem sumW_le (w1 w2 : Thread T → Nat) (hle : ∀ t, w1 t ≤ w2 t) (ts : List (Thread T)) :
    sumW w1 ts ≤ sumW w2 ts := by
  induction ts with
  | nil => simp
  | cons x xs ih => simp; have := hle x; omega

theorem sumW_pos_of_mem (w : Thread T → Nat) (ts : List (Thread T)) (t : Thread T) (ht : t ∈ ts)
    (h : 0 < w t) : 0 < sumW w ts := by
  induction ts with
  | nil => simp at ht
  | cons x xs ih =>
    simp
    rcases List.mem_cons.mp ht with rfl | hm
    · omega
    · have := ih hm; omega

theorem mem_of_getElem? {α : Type} {l : List α} {i : Nat} {a : α} (h : l[i]? = some a) : a ∈ l :=
  List.mem_of_getElem? h

-- ---------------------------------------------------------------------------------- weights

/-- holds the mutex -/
def wHold (t : Thread T) : Nat :=
  match t.pc with
  | .locked | .running _ | .stored _ | .unlocking _ => 1
  | _ => 0

/-- `f` started by this goroutine's current call and `done` not yet stored -/
def wAct (t : Thread T) : Nat :=
  match t.pc with
  | .running _ | .stored _ => 1
  | _ => 0

def wStored (t : Thread T) : Nat :=
  match t.pc with
  | .stored _ => 1
  | _ => 0

def wUnl (t : Thread T) : Nat :=
  match t.pc with
  | .unlocking _ => 1
  | _ => 0

/-- number of calls of this goroutine that ended in a panic -/
def wPan (t : Thread T) : Nat := (t.results.filter Res.isPanic).length

/-- inside a call -/
def wBusy (t : Thread T) : Nat :=
  match t.pc with
  | .idle => 0
  | _ => 1

theorem wAct_le_wHold (t : Thread T) : wAct t ≤ wHold t := by
  unfold wAct wHold; cases t.pc <;> simp

theorem wStored_le_wAct (t : Thread T) : wStored t ≤ wAct t := by
  unfold wAct wStored; cases t.pc <;> simp

theorem wUnl_le_wHold (t : Thread T) : wUnl t ≤ wHold t := by
  unfold wUnl wHold; cases t.pc <;> simp

theorem wPan_append (rs : List (Res T)) (r : Res T) (todo : Nat) (pc : PC T) :
    wPan { todo := todo, pc := pc, results := rs ++ [r] }
      = wPan { todo := todo, pc := pc, results := rs } + (if r.isPanic then 1 else 0) := by
  simp only [wPan, List.filter_append, List.length_append]
  cases h : r.isPanic <;> simp [List.filter, h]

-- ---------------------------------------------------------------------------------- the invariant

structure Inv (zero : T) (out : Nat → Out T) (s : Sys T) : Prop where
  hold : sumW wHold s.threads = if s.mutex then 1 else 0
  runs : s.runs = sumW wAct s.threads + if s.done then 1 else 0
  act_nd : 0 < sumW wAct s.threads → s.done = false
  fin : s.finished = sumW wStored s.threads + if s.done then 1 else 0
  ret : s.ret = if 0 < s.finished then memoVal zero out else zero
  pcs : ∀ t ∈ s.threads, (∀ k, t.pc = .running k → k = 0) ∧ (∀ o, t.pc = .stored o → o = out 0)
          ∧ (∀ o, t.pc = .unlocking o → o = out 0)
  ans_done : ∀ t ∈ s.threads, t.results ≠ [] → s.done = true
  rets : ∀ t ∈ s.threads, ∀ v, Res.returned v ∈ t.results → v = memoVal zero out
  pan : sumW wPan s.threads + sumW wUnl s.threads ≤ if s.done then 1 else 0
  who : ∀ i t, s.threads[i]? = some t →
          (∀ p, Res.panicked p ∈ t.results → s.runner = some i ∧ out 0 = .panic p)
          ∧ (0 < wAct t + wUnl t → s.runner = some i)

theorem sumW_init (w : Thread T → Nat) (progs : List Nat)
    (hw : ∀ n, w { todo := n, pc := .idle, results := [] } = 0) :
    sumW w (progs.map (fun n => ({ todo := n, pc := .idle, results := [] } : Thread T))) = 0 := by
  induction progs with
  | nil => rfl
  | cons n ns ih => simp [hw, ih]

theorem inv_init (zero : T) (out : Nat → Out T) (progs : List Nat) : Inv zero out (init zero progs) where
  hold := by simp [init]; exact sumW_init _ _ (fun _ => rfl)
  runs := by simp [init]; exact (sumW_init _ _ (fun _ => rfl)).symm
  act_nd := by intro _; rfl
  fin := by simp [init]; exact (sumW_init _ _ (fun _ => rfl)).symm
  ret := by simp [init]
  pcs := by
    intro t ht
    simp [init] at ht
    obtain ⟨n, _, rfl⟩ := ht
    simp
  ans_done := by
    intro t ht
    simp [init] at ht
    obtain ⟨n, _, rfl⟩ := ht
    simp
  rets := by
    intro t ht
    simp [init] at ht
    obtain ⟨n, _, rfl⟩ := ht
    simp
  pan := by
    simp [init]
    exact ⟨sumW_init _ _ (fun _ => rfl), sumW_init _ _ (fun _ => rfl)⟩
  who := by
    intro i t ht
    have hm := mem_of_getElem? ht
    simp [init] at hm
    obtain ⟨n, _, rfl⟩ := hm
    simp [wAct, wUnl]

/-- a property of all goroutines survives replacing one goroutine by one that has it -/
theorem forall_mem_set {P : Thread T → Prop} {ts : List (Thread T)} {i : Nat} {new : Thread T}
    (h : ∀ t ∈ ts, P t) (hn : P new) : ∀ t ∈ ts.set i new, P t := by
  intro t ht
  rcases List.mem_or_eq_of_mem_set ht with hm | he
  · exact h t hm
  · exact he ▸ hn

theorem forall_idx_set {P : Nat → Thread T → Prop} {ts : List (Thread T)} {i : Nat} {new : Thread T}
    (h : ∀ j t, ts[j]? = some t → P j t) (hn : P i new) : ∀ j t, (ts.set i new)[j]? = some t → P j t := by
  intro j t ht
  rw [List.getElem?_set] at ht
  by_cases hij : i = j
  · subst hij
    simp at ht
    exact ht.2 ▸ hn
  · simp [hij] at ht
    exact h j t ht

theorem le_sumW_of_getElem? (w : Thread T → Nat) (ts : List (Thread T)) (i : Nat) (a : Thread T)
    (hi : ts[i]? = some a) : w a ≤ sumW w ts := by
  induction ts generalizing i with
  | nil => simp at hi
  | cons y ys ih =>
    cases i with
    | zero => simp at hi; subst hi; simp
    | succ i' => simp at hi; have := ih i' hi; simp; omega

theorem sumW_two (w : Thread T → Nat) (ts : List (Thread T)) (i j : Nat) (a b : Thread T) (hij : i ≠ j)
    (hi : ts[i]? = some a) (hj : ts[j]? = some b) : w a + w b ≤ sumW w ts := by
  induction ts generalizing i j with
  | nil => simp at hi
  | cons x xs ih =>
    cases i with
    | zero =>
      cases j with
      | zero => exact absurd rfl hij
      | succ j' =>
        simp at hi hj; subst hi
        have := le_sumW_of_getElem? w xs j' b hj
        simp; omega
    | succ i' =>
      cases j with
      | zero =>
        simp at hi hj; subst hj
        have := le_sumW_of_getElem? w xs i' a hi
        simp; omega
      | succ j' =>
        simp at hi hj
        have := ih i' j' (by omega) hi hj
        simp; omega

theorem forall_idx_set_ne {P : Nat → Thread T → Prop} {ts : List (Thread T)} {i : Nat} {new : Thread T}
    (h : ∀ j t, j ≠ i → ts[j]? = some t → P j t) (hn : P i new) :
    ∀ j t, (ts.set i new)[j]? = some t → P j t := by
  intro j t ht
  rw [List.getElem?_set] at ht
  by_cases hij : i = j
  · subst hij
    simp at ht
    exact ht.2 ▸ hn
  · simp [hij] at ht
    exact h j t (fun e => hij e.symm) ht

-- ---------------------------------------------------------------------------------- preservation

/-- the part of the invariant that speaks about one goroutine at a time, for a given `done` / `runner` -/
def ThreadOK (zero : T) (out : Nat → Out T) (done : Bool) (runner : Option Nat) (j : Nat) (t : Thread T) : Prop :=
  ((∀ k, t.pc = .running k → k = 0) ∧ (∀ o, t.pc = .stored o → o = out 0) ∧ (∀ o, t.pc = .unlocking o → o = out 0))
  ∧ (t.results ≠ [] → done = true)
  ∧ (∀ v, Res.returned v ∈ t.results → v = memoVal zero out)
  ∧ (∀ p, Res.panicked p ∈ t.results → runner = some j ∧ out 0 = .panic p)
  ∧ (0 < wAct t + wUnl t → runner = some j)

theorem inv_iff (zero : T) (out : Nat → Out T) (s : Sys T) :
    Inv zero out s ↔
      (sumW wHold s.threads = (if s.mutex then 1 else 0)
      ∧ s.runs = sumW wAct s.threads + (if s.done then 1 else 0)
      ∧ (0 < sumW wAct s.threads → s.done = false)
      ∧ s.finished = sumW wStored s.threads + (if s.done then 1 else 0)
      ∧ s.ret = (if 0 < s.finished then memoVal zero out else zero)
      ∧ sumW wPan s.threads + sumW wUnl s.threads ≤ (if s.done then 1 else 0))
      ∧ ∀ j t, s.threads[j]? = some t → ThreadOK zero out s.done s.runner j t := by
  constructor
  · intro h
    refine ⟨⟨h.hold, h.runs, h.act_nd, h.fin, h.ret, h.pan⟩, fun j t hj => ?_⟩
    have hm := mem_of_getElem? hj
    exact ⟨h.pcs t hm, h.ans_done t hm, h.rets t hm, (h.who j t hj).1, (h.who j t hj).2⟩
  · rintro ⟨⟨h1, h2, h3, h4, h5, h6⟩, ht⟩
    refine ⟨h1, h2, h3, h4, h5, ?_, ?_, ?_, h6, ?_⟩
    · intro t hm; obtain ⟨j, hj⟩ := List.getElem?_of_mem hm; exact (ht j t hj).1
    · intro t hm; obtain ⟨j, hj⟩ := List.getElem?_of_mem hm; exact (ht j t hj).2.1
    · intro t hm; obtain ⟨j, hj⟩ := List.getElem?_of_mem hm; exact (ht j t hj).2.2.1
    · intro j t hj; exact ⟨(ht j t hj).2.2.2.1, (ht j t hj).2.2.2.2⟩

theorem ThreadOK.done_true {zero : T} {out : Nat → Out T} {d : Bool} {r : Option Nat} {j : Nat} {t : Thread T}
    (h : ThreadOK zero out d r j t) : ThreadOK zero out true r j t :=
  ⟨h.1, fun _ => rfl, h.2.2.1, h.2.2.2.1, h.2.2.2.2⟩

theorem inv_step {zero : T} {out : Nat → Out T} {s : Sys T} (h : Inv zero out s) (i : Nat) :
    Inv zero out (step out s i) := by
  unfold step
  cases hti : s.threads[i]? with
  | none => exact h
  | some t =>
    have hS := fun (w : Thread T → Nat) (t' : Thread T) => sumW_set w s.threads i t' t hti
    have hAH := sumW_le wAct wHold wAct_le_wHold s.threads
    have hSA := sumW_le wStored wAct wStored_le_wAct s.threads
    have hUH := sumW_le wUnl wHold wUnl_le_wHold s.threads
    have hinv := h
    rw [inv_iff] at h
    obtain ⟨⟨h_hold, h_runs, h_actnd, h_fin, h_ret, h_pan⟩, h_thr⟩ := h
    have h_me := h_thr i t hti
    obtain ⟨done, mutex, ret, runs, finished, runner, threads⟩ := s
    obtain ⟨todo, pc, results⟩ := t
    simp only at hti hS hAH hSA hUH h_hold h_runs h_actnd h_fin h_ret h_pan h_thr h_me
    cases pc with
    | idle =>
      cases todo with
      | zero => exact hinv
      | succ k =>
        simp only
        cases done with
        | true =>
          simp only [if_true]
          have e1 := hS wHold ⟨k, .idle, results ++ [.returned ret]⟩
          have e2 := hS wAct ⟨k, .idle, results ++ [.returned ret]⟩
          have e3 := hS wStored ⟨k, .idle, results ++ [.returned ret]⟩
          have e4 := hS wUnl ⟨k, .idle, results ++ [.returned ret]⟩
          have e5 := hS wPan ⟨k, .idle, results ++ [.returned ret]⟩
          rw [wPan_append] at e5
          simp [wHold, wAct, wStored, wUnl, wPan, Res.isPanic] at e1 e2 e3 e4 e5
          rw [inv_iff]
          simp only [if_true] at h_runs h_fin h_pan ⊢
          have hA0 : sumW wAct threads = 0 := Nat.eq_zero_of_not_pos (fun hp => by simpa using h_actnd hp)
          refine ⟨⟨by omega, by omega, by omega, by omega, h_ret, by omega⟩,
            forall_idx_set h_thr ?_⟩
          obtain ⟨a, b, c, d, e⟩ := h_me
          refine ⟨by simp, fun _ => rfl, ?_, ?_, by simp [wAct, wUnl]⟩
          · intro v hv
            simp at hv
            rcases hv with hv | hv
            · exact c v hv
            · rw [hv, h_ret]; simp [h_fin]
          · intro p hp
            simp at hp
            exact d p hp
        | false =>
          simp only [Bool.false_eq_true, if_false]
          have e1 := hS wHold ⟨k, .locking, results⟩
          have e2 := hS wAct ⟨k, .locking, results⟩
          have e3 := hS wStored ⟨k, .locking, results⟩
          have e4 := hS wUnl ⟨k, .locking, results⟩
          have e5 := hS wPan ⟨k, .locking, results⟩
          simp [wHold, wAct, wStored, wUnl, wPan] at e1 e2 e3 e4 e5
          rw [inv_iff]
          simp only [Bool.false_eq_true, if_false] at h_runs h_fin h_pan ⊢
          refine ⟨⟨by omega, by omega, by simp, by omega, h_ret, by simp at h_pan ⊢; omega⟩,
            forall_idx_set h_thr ?_⟩
          obtain ⟨a, b, c, d, e⟩ := h_me
          exact ⟨by simp, b, c, d, by simp [wAct, wUnl]⟩
    | locking =>
      simp only
      cases mutex with
      | true => exact hinv
      | false =>
        simp only [Bool.false_eq_true, if_false]
        have e1 := hS wHold ⟨todo, .locked, results⟩
        have e2 := hS wAct ⟨todo, .locked, results⟩
        have e3 := hS wStored ⟨todo, .locked, results⟩
        have e4 := hS wUnl ⟨todo, .locked, results⟩
        have e5 := hS wPan ⟨todo, .locked, results⟩
        simp [wHold, wAct, wStored, wUnl, wPan] at e1 e2 e3 e4 e5
        rw [inv_iff]
        simp only [Bool.false_eq_true, if_false, if_true] at h_hold ⊢
        refine ⟨⟨by omega, by omega, by rw [e2]; exact h_actnd, by omega, h_ret, by omega⟩,
          forall_idx_set h_thr ?_⟩
        obtain ⟨a, b, c, d, e⟩ := h_me
        exact ⟨by simp, b, c, d, by simp [wAct, wUnl]⟩
    | locked =>
      simp only
      have hmx : mutex = true := by
        cases mutex with
        | true => rfl
        | false =>
          have := le_sumW_of_getElem? wHold threads i _ hti
          simp [wHold] at this h_hold; omega
      subst hmx
      simp only [if_true] at h_hold
      cases done with
      | true =>
        simp only [if_true]
        have e1 := hS wHold ⟨todo, .idle, results ++ [.returned ret]⟩
        have e2 := hS wAct ⟨todo, .idle, results ++ [.returned ret]⟩
        have e3 := hS wStored ⟨todo, .idle, results ++ [.returned ret]⟩
        have e4 := hS wUnl ⟨todo, .idle, results ++ [.returned ret]⟩
        have e5 := hS wPan ⟨todo, .idle, results ++ [.returned ret]⟩
        rw [wPan_append] at e5
        simp [wHold, wAct, wStored, wUnl, wPan, Res.isPanic] at e1 e2 e3 e4 e5
        rw [inv_iff]
        simp only [if_true, Bool.false_eq_true, if_false] at h_runs h_fin h_pan ⊢
        have hA0 : sumW wAct threads = 0 := Nat.eq_zero_of_not_pos (fun hp => by simpa using h_actnd hp)
        refine ⟨⟨by omega, by omega, by omega, by omega, h_ret, by omega⟩, forall_idx_set h_thr ?_⟩
        obtain ⟨a, b, c, d, e⟩ := h_me
        refine ⟨by simp, fun _ => rfl, ?_, ?_, by simp [wAct, wUnl]⟩
        · intro v hv
          simp at hv
          rcases hv with hv | hv
          · exact c v hv
          · rw [hv, h_ret]; simp [h_fin]
        · intro p hp
          simp at hp
          exact d p hp
      | false =>
        simp only [Bool.false_eq_true, if_false]
        have e1 := hS wHold ⟨todo, .running runs, results⟩
        have e2 := hS wAct ⟨todo, .running runs, results⟩
        have e3 := hS wStored ⟨todo, .running runs, results⟩
        have e4 := hS wUnl ⟨todo, .running runs, results⟩
        have e5 := hS wPan ⟨todo, .running runs, results⟩
        simp [wHold, wAct, wStored, wUnl, wPan] at e1 e2 e3 e4 e5
        have hAH' := sumW_le wAct wHold wAct_le_wHold (threads.set i ⟨todo, .running runs, results⟩)
        rw [inv_iff]
        simp only [Bool.false_eq_true, if_false, if_true] at h_runs h_fin h_pan ⊢
        refine ⟨⟨by omega, by omega, by simp, by omega, h_ret, by omega⟩, forall_idx_set_ne ?_ ?_⟩
        · intro j t' hji hj
          obtain ⟨a, b, c, d, e⟩ := h_thr j t' hj
          have hre : t'.results = [] := by
            cases hr : t'.results with
            | nil => rfl
            | cons x xs => have := b (by simp [hr]); simp at this
          have h2 := sumW_two wHold threads i j _ t' (fun e => hji e.symm) hti hj
          have h3 := wAct_le_wHold t'
          have h4 := wUnl_le_wHold t'
          have h2' : 1 + wHold t' ≤ sumW wHold threads := h2
          refine ⟨a, b, c, ?_, ?_⟩
          · intro p hp; rw [hre] at hp; simp at hp
          · intro hpos; omega
        · obtain ⟨a, b, c, d, e⟩ := h_me
          refine ⟨⟨?_, by simp, by simp⟩, b, c, fun p hp => ⟨rfl, (d p hp).2⟩, fun _ => rfl⟩
          intro k hk
          simp at hk
          omega
    | running k =>
      have hk : k = 0 := h_me.1.1 k rfl
      subst hk
      have hmx : mutex = true := by
        cases mutex with
        | true => rfl
        | false =>
          have := le_sumW_of_getElem? wHold threads i _ hti
          simp [wHold] at this h_hold; omega
      subst hmx
      have hApos : 0 < sumW wAct threads := by
        have := le_sumW_of_getElem? wAct threads i _ hti
        simp [wAct] at this; omega
      have hdn : done = false := h_actnd hApos
      subst hdn
      simp only [if_true, Bool.false_eq_true, if_false] at h_hold h_runs h_fin h_pan
      simp only
      cases hout : out 0 with
      | value v =>
        simp only
        have e1 := hS wHold ⟨todo, .stored (.value v), results⟩
        have e2 := hS wAct ⟨todo, .stored (.value v), results⟩
        have e3 := hS wStored ⟨todo, .stored (.value v), results⟩
        have e4 := hS wUnl ⟨todo, .stored (.value v), results⟩
        have e5 := hS wPan ⟨todo, .stored (.value v), results⟩
        simp [wHold, wAct, wStored, wUnl, wPan] at e1 e2 e3 e4 e5
        rw [inv_iff]
        simp only [Bool.false_eq_true, if_false, if_true]
        refine ⟨⟨by omega, by omega, by simp, by omega, by simp [memoVal, hout], by omega⟩,
          forall_idx_set h_thr ?_⟩
        obtain ⟨a, b, c, d, e⟩ := h_me
        refine ⟨⟨by simp, by simp [hout], by simp⟩, b, c, d, fun _ => e (by simp [wAct]; omega)⟩
      | panic p =>
        simp only
        have e1 := hS wHold ⟨todo, .stored (.panic p), results⟩
        have e2 := hS wAct ⟨todo, .stored (.panic p), results⟩
        have e3 := hS wStored ⟨todo, .stored (.panic p), results⟩
        have e4 := hS wUnl ⟨todo, .stored (.panic p), results⟩
        have e5 := hS wPan ⟨todo, .stored (.panic p), results⟩
        simp [wHold, wAct, wStored, wUnl, wPan] at e1 e2 e3 e4 e5
        have hSA' := sumW_le wStored wAct wStored_le_wAct (threads.set i ⟨todo, .stored (.panic p), results⟩)
        have hfin0 : finished = 0 := by omega
        subst hfin0
        rw [inv_iff]
        simp only [Bool.false_eq_true, if_false, if_true]
        refine ⟨⟨by omega, by omega, by simp, by omega, ?_, by omega⟩, forall_idx_set h_thr ?_⟩
        · simp at h_ret; simp [memoVal, hout, h_ret]
        · obtain ⟨a, b, c, d, e⟩ := h_me
          refine ⟨⟨by simp, by simp [hout], by simp⟩, b, c, d, fun _ => e (by simp [wAct]; omega)⟩
    | stored o =>
      have ho : o = out 0 := h_me.1.2.1 o rfl
      have hmx : mutex = true := by
        cases mutex with
        | true => rfl
        | false =>
          have := le_sumW_of_getElem? wHold threads i _ hti
          simp [wHold] at this h_hold; omega
      subst hmx
      have hApos : 0 < sumW wAct threads := by
        have := le_sumW_of_getElem? wAct threads i _ hti
        simp [wAct] at this; omega
      have hdn : done = false := h_actnd hApos
      subst hdn
      simp only [if_true, Bool.false_eq_true, if_false] at h_hold h_runs h_fin h_pan
      simp only
      have e1 := hS wHold ⟨todo, .unlocking o, results⟩
      have e2 := hS wAct ⟨todo, .unlocking o, results⟩
      have e3 := hS wStored ⟨todo, .unlocking o, results⟩
      have e4 := hS wUnl ⟨todo, .unlocking o, results⟩
      have e5 := hS wPan ⟨todo, .unlocking o, results⟩
      simp [wHold, wAct, wStored, wUnl, wPan] at e1 e2 e3 e4 e5
      rw [inv_iff]
      simp only [if_true]
      refine ⟨⟨by omega, by omega, by intro _; omega, by omega, h_ret, by omega⟩,
        forall_idx_set (fun j t' hj => (h_thr j t' hj).done_true) ?_⟩
      obtain ⟨a, b, c, d, e⟩ := h_me
      exact ⟨⟨by simp, by simp, by simp [ho]⟩, fun _ => rfl, c, d, fun _ => e (by simp [wAct]; omega)⟩
    | unlocking o =>
      have ho : o = out 0 := h_me.1.2.2 o rfl
      have hmx : mutex = true := by
        cases mutex with
        | true => rfl
        | false =>
          have := le_sumW_of_getElem? wHold threads i _ hti
          simp [wHold] at this h_hold; omega
      subst hmx
      have hdn : done = true := by
        cases done with
        | true => rfl
        | false =>
          have := le_sumW_of_getElem? wUnl threads i _ hti
          simp [wUnl] at this h_pan; omega
      subst hdn
      have hA0 : sumW wAct threads = 0 := Nat.eq_zero_of_not_pos (fun hp => by simpa using h_actnd hp)
      simp only [if_true] at h_hold h_runs h_fin h_pan
      simp only
      obtain ⟨a, b, c, d, e⟩ := h_me
      have hrun : runner = some i := e (by simp [wUnl])
      cases o with
      | value v =>
        simp only
        have e1 := hS wHold ⟨todo, .idle, results ++ [.returned ret]⟩
        have e2 := hS wAct ⟨todo, .idle, results ++ [.returned ret]⟩
        have e3 := hS wStored ⟨todo, .idle, results ++ [.returned ret]⟩
        have e4 := hS wUnl ⟨todo, .idle, results ++ [.returned ret]⟩
        have e5 := hS wPan ⟨todo, .idle, results ++ [.returned ret]⟩
        rw [wPan_append] at e5
        simp [wHold, wAct, wStored, wUnl, wPan, Res.isPanic] at e1 e2 e3 e4 e5
        rw [inv_iff]
        simp only [Bool.false_eq_true, if_false, if_true]
        refine ⟨⟨by omega, by omega, by omega, by omega, h_ret, by omega⟩, forall_idx_set h_thr ?_⟩
        refine ⟨by simp, fun _ => rfl, ?_, ?_, by simp [wAct, wUnl]⟩
        · intro v' hv
          simp at hv
          rcases hv with hv | hv
          · exact c v' hv
          · rw [hv, h_ret]; simp [h_fin]
        · intro p hp
          simp at hp
          exact d p hp
      | panic p =>
        simp only
        have e1 := hS wHold ⟨todo, .idle, results ++ [.panicked p]⟩
        have e2 := hS wAct ⟨todo, .idle, results ++ [.panicked p]⟩
        have e3 := hS wStored ⟨todo, .idle, results ++ [.panicked p]⟩
        have e4 := hS wUnl ⟨todo, .idle, results ++ [.panicked p]⟩
        have e5 := hS wPan ⟨todo, .idle, results ++ [.panicked p]⟩
        rw [wPan_append] at e5
        simp [wHold, wAct, wStored, wUnl, wPan, Res.isPanic] at e1 e2 e3 e4 e5
        rw [inv_iff]
        simp only [Bool.false_eq_true, if_false, if_true]
        refine ⟨⟨by omega, by omega, by omega, by omega, h_ret, by omega⟩, forall_idx_set h_thr ?_⟩
        refine ⟨by simp, fun _ => rfl, ?_, ?_, by simp [wAct, wUnl]⟩
        · intro v' hv
          simp at hv
          exact c v' hv
        · intro p' hp
          simp at hp
          rcases hp with hp | hp
          · exact d p' hp
          · exact ⟨hrun, by rw [← ho, hp]⟩

end FpVerif.MemoPanic
