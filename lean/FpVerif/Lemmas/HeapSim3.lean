import FpVerif.Lemmas.HeapSim2
import FpVerif.Lemmas.HamtStrat
/-!
Simulation, part 3: `set` on value, collision and array nodes (the leaves of the recursion).
-/
set_option linter.unusedSimpArgs false
set_option linter.unusedVariables false
namespace FpVerif.HamtHeap
open FpVerif.Hamt
variable {K V : Type} {α β : Type}

theorem SimRes.weaken {F s : Nat} {H H' : Heap K V} {fp : List Addr} {p' : Addr} {n' : Node K V}
    (h : SimRes false F s H fp H' p' n') (mu : Bool) : SimRes mu F s H fp H' p' n' := by
  obtain ⟨fp', h1, h2, h3, h4⟩ := h
  exact ⟨fp', h1, h2, Eff.of_le h3.to_le _, h4⟩

/-- the statement of the simulation for `set` at recursion budget `F`.  The in-place path needs the
    trie to be well-formed (`len(n.nodes) = popcount(n.bitmap)`, otherwise Go's `copy` in the insert
    branch panics where the value model does not); the copying path needs nothing. -/
def SetSim (h : Hasher K) (ex : List (K × V) → K → V → Bool → GoE (Node K V × Bool))
    (hex : List (K × V) → K → V → Bool → HM K V (Addr × Bool)) (F : Nat) : Prop :=
  ∀ (p : Addr) (s : Nat) (H : Heap K V) (n : Node K V) (fp : List Addr) (k : K) (v : V) (kh : UInt32)
    (mu r : Bool) (n' : Node K V) (r' : Bool),
    absF F s H p = some (n, fp) → fp.Nodup → 16 ≤ s / 5 + F → (mu = true → WF h s n) →
    n.setCore h ex k v s kh mu r = .ok (n', r') →
    ∃ p' H', hsetCoreN h hex F p k v s kh mu r H = .ok ((p', r'), H') ∧ SimRes mu F s H fp H' p' n'

/-- the heap-level expansion function refines the value-level one and only allocates -/
def ExpandSim (ex : List (K × V) → K → V → Bool → GoE (Node K V × Bool))
    (hex : List (K × V) → K → V → Bool → HM K V (Addr × Bool)) : Prop :=
  ∀ (es : List (K × V)) (k : K) (v : V) (r : Bool) (H : Heap K V) (n' : Node K V) (r' : Bool) (F : Nat),
    ex es k v r = .ok (n', r') → 16 ≤ F →
    ∃ p' H', hex es k v r H = .ok ((p', r'), H') ∧ SimRes false F 0 H [] H' p' n'

theorem keyHashValueAt_value {H : Heap K V} {p : Addr} {kh : UInt32} {k : K} {v : V}
    (hc : H[p]? = some (.value kh k v)) : keyHashValueAt p H = .ok (kh, H) := by
  unfold keyHashValueAt; rw [bind_ok (load_apply hc)]; rfl

theorem keyHashValueAt_collision {H : Heap K V} {p : Addr} {kh : UInt32} {sl : Slice}
    (hc : H[p]? = some (.collision kh sl)) : keyHashValueAt p H = .ok (kh, H) := by
  unfold keyHashValueAt; rw [bind_ok (load_apply hc)]; rfl

theorem setSim_value (h : Hasher K) {ex : List (K × V) → K → V → Bool → GoE (Node K V × Bool)}
    {hex : List (K × V) → K → V → Bool → HM K V (Addr × Bool)} {F : Nat}
    {p : Addr} {s : Nat} {H : Heap K V} {nkh : UInt32} {nk : K} {nv : V} (hc : H[p]? = some (.value nkh nk nv))
    (k : K) (v : V) (kh : UInt32) (mu r : Bool) (n' : Node K V) (r' : Bool)
    (hfuel : 16 ≤ s / 5 + (F + 1))
    (hv : (Node.value nkh nk nv).setCore h ex k v s kh mu r = .ok (n', r')) :
    ∃ p' H', hsetCoreN h hex (F + 1) p k v s kh mu r H = .ok ((p', r'), H') ∧
      SimRes mu (F + 1) s H [p] H' p' n' := by
  have hp := lt_size_of_get hc
  rw [Node.setCore] at hv
  unfold hsetCoreN
  rw [bind_ok (load_apply hc)]
  dsimp only
  by_cases heqv : h.eqv nk k = true
  · simp only [heqv, if_true] at hv ⊢
    cases mu with
    | true =>
      simp only [if_true] at hv ⊢
      simp only [pure, Except.pure] at hv
      injection hv with hv; injection hv with hn hr; subst hn; subst hr
      rw [bind_ok (store_apply _ hp)]
      refine ⟨_, _, rfl, [p], absF_value (get_set_eq _ hp), by simp, ?_, by simp⟩
      simp only [if_true]
      exact Eff.set _ _ _ (by simp)
    | false =>
      simp only [Bool.false_eq_true, if_false] at hv ⊢
      simp only [pure, Except.pure] at hv
      injection hv with hv; injection hv with hn hr; subst hn; subst hr
      rw [bind_ok (alloc_apply _ _)]
      refine ⟨_, _, rfl, ?_⟩
      apply SimRes.of_fresh (mkValue_abs H nkh k v F s) (by simp) (Heap.le_push _ _)
      intro a ha; simp at ha; right; omega
  · simp only [heqv, Bool.false_eq_true, if_false] at hv ⊢
    by_cases hne : (nkh != kh) = true
    · simp only [hne, if_true] at hv ⊢
      cases hm : mergeIntoNode (Node.value nkh nk nv) s kh k v with
      | error e => rw [hm] at hv; cases hv
      | ok m =>
        rw [hm] at hv
        simp only [bind, Except.bind, pure, Except.pure] at hv
        injection hv with hv; injection hv with hn hr; subst hn; subst hr
        obtain ⟨p1, H1, h1, hres⟩ := hmergeN_sim (nv := Node.value nkh nk nv) (fpn := [p]) (node := p) kh k v F s H m
          (fun f s' => absF_value hc) (by simp) (keyHashValueAt_value hc) hfuel hm
        rw [bind_ok h1]
        exact ⟨_, _, rfl, hres.weaken mu⟩
    · simp only [hne, Bool.false_eq_true, if_false] at hv ⊢
      simp only [pure, Except.pure] at hv
      injection hv with hv; injection hv with hn hr; subst hn; subst hr
      have hlit : ([Slot.ent nk nv, Slot.ent k v] : List (Slot K V)) = entSlots [(nk, nv), (k, v)] := rfl
      rw [hlit, bind_ok (allocSlots_apply _ _ _), bind_ok (alloc_apply _ _)]
      refine ⟨_, _, rfl, ?_⟩
      have habs := mkCollision_abs H kh [(nk, nv), (k, v)]
        (List.replicate (2 - (entSlots [(nk, nv), (k, v)] : List (Slot K V)).length) none) F s
      apply SimRes.of_fresh (fp' := [H.size + 1, H.size]) (by simpa using habs) (by simp)
        (Heap.le_trans (Heap.le_push _ _) (Heap.le_push _ _))
      intro a ha; simp at ha; right; omega

-- entries of array / collision nodes -------------------------------------------------------------------

theorem loadEnts_apply {H : Heap K V} {sl : Slice} {es : List (K × V)} (hv : viewEnts H sl = some es) :
    loadEnts sl H = .ok (es, H) := by
  unfold loadEnts; rw [hv]

theorem loadPtrs_apply {H : Heap K V} {sl : Slice} {ps : List Addr} (hv : viewPtrs H sl = some ps) :
    loadPtrs sl H = .ok (ps, H) := by
  unfold loadPtrs; rw [hv]

/-- in place: `n.entries[i] = mapEntry{key, value}` -/
theorem ents_store {H : Heap K V} {p : Addr} {sl : Slice} {es : List (K × V)} {c : Cell K V}
    (hc : H[p]? = some c) (hv : viewEnts H sl = some es) (hne : p ≠ sl.arr) {i : Nat} (hi : i < es.length)
    (k : K) (v : V) :
    ∃ H', storeSlot sl i (.ent k v) H = .ok ((), H') ∧ H'[p]? = some c ∧
      viewEnts H' sl = some (es.set i (k, v)) ∧ Eff H H' [p, sl.arr] ∧ H'.size = H.size := by
  obtain ⟨H', h1, h2, h3, h4⟩ := storeSlot_spec (g := Slot.ent?) hv hi (x := .ent k v) (y := (k, v)) rfl
  refine ⟨H', h1, h4.get hc (by simpa using hne), h2, h4.mono (by simp), h3⟩

/-- in place: `n.entries = append(n.entries, mapEntry{key, value})` -/
theorem ents_append {H : Heap K V} {p : Addr} {sl : Slice} {es : List (K × V)} {c0 : Cell K V}
    (hc : H[p]? = some c0) (hv : viewEnts H sl = some es) (hne : p ≠ sl.arr) (c : Slice → Cell K V)
    (k : K) (v : V) {γ : Type} (ret : γ) :
    ∃ sl' H', (appendSlot sl (some (.ent k v)) >>= fun sl' => store p (c sl') >>= fun _ => pure ret) H
        = .ok (ret, H') ∧
      H'[p]? = some (c sl') ∧ viewEnts H' sl' = some (es ++ [(k, v)]) ∧ Eff H H' [p, sl.arr] ∧
      p ≠ sl'.arr ∧ (sl'.arr = sl.arr ∨ H.size ≤ sl'.arr) := by
  have hp := lt_size_of_get hc
  obtain ⟨sl', H1, h1, h2, h3, h4, h5, h6⟩ :=
    appendSlot_spec (g := Slot.ent?) hv (x := .ent k v) (y := (k, v)) rfl
  have hp1 : p < H1.size := Nat.lt_of_lt_of_le hp h3.1
  have hne' : p ≠ sl'.arr := by
    rcases h4 with h4 | ⟨h4, _⟩
    · rw [h4]; exact hne
    · rw [h4]; omega
  refine ⟨sl', H1.setIfInBounds p (c sl'), ?_, get_set_eq _ hp1, ?_, ?_, hne', ?_⟩
  · rw [bind_ok h1, bind_ok (store_apply _ hp1)]; rfl
  · unfold viewEnts
    rw [viewWith_agree (get_set_ne _ hne')]; exact h2
  · exact Eff.trans (h3.mono (by simp)) (Eff.set _ _ _ (by simp))
  · rcases h4 with h4 | ⟨h4, _⟩
    · exact Or.inl h4
    · right; omega

theorem setSim_collision (h : Hasher K) {ex : List (K × V) → K → V → Bool → GoE (Node K V × Bool)}
    {hex : List (K × V) → K → V → Bool → HM K V (Addr × Bool)} {F : Nat}
    {p : Addr} {s : Nat} {H : Heap K V} {nkh : UInt32} {sl : Slice} {es : List (K × V)}
    (hc : H[p]? = some (.collision nkh sl)) (hview : viewEnts H sl = some es) (hne : p ≠ sl.arr)
    (k : K) (v : V) (kh : UInt32) (mu r : Bool) (n' : Node K V) (r' : Bool)
    (hfuel : 16 ≤ s / 5 + (F + 1))
    (hv : (Node.collision nkh es).setCore h ex k v s kh mu r = .ok (n', r')) :
    ∃ p' H', hsetCoreN h hex (F + 1) p k v s kh mu r H = .ok ((p', r'), H') ∧
      SimRes mu (F + 1) s H [p, sl.arr] H' p' n' := by
  have hp := lt_size_of_get hc
  have harr := viewWith_arr_lt hview
  have habs0 : ∀ f s', absF (f + 1) s' H p = some (Node.collision nkh es, [p, sl.arr]) := by
    intro f s'; rw [absF_collision hc, hview]; rfl
  rw [Node.setCore] at hv
  unfold hsetCoreN
  rw [bind_ok (load_apply hc)]
  dsimp only
  by_cases hneq : (nkh != kh) = true
  · simp only [hneq, if_true] at hv ⊢
    cases hm : mergeIntoNode (Node.collision nkh es) s kh k v with
    | error e => rw [hm] at hv; cases hv
    | ok m =>
      rw [hm] at hv
      simp only [bind, Except.bind, pure, Except.pure] at hv
      injection hv with hv; injection hv with hn hr; subst hn; subst hr
      obtain ⟨p1, H1, h1, hres⟩ := hmergeN_sim (nv := Node.collision nkh es) (fpn := [p, sl.arr]) (node := p)
        kh k v F s H m habs0 (by simpa using hne) (keyHashValueAt_collision hc) hfuel hm
      rw [bind_ok h1]
      exact ⟨_, _, rfl, hres.weaken mu⟩
  · simp only [hneq, Bool.false_eq_true, if_false] at hv ⊢
    rw [bind_ok (loadEnts_apply hview)]
    cases hidx : indexOf h es k with
    | none =>
      rw [hidx] at hv
      simp only [pure, Except.pure] at hv
      injection hv with hv; injection hv with hn hr; subst hn; subst hr
      cases mu with
      | true =>
        simp only [if_true]
        obtain ⟨sl', H', h1, h2, h3, h4, h5, h6⟩ :=
          ents_append hc hview hne (fun sl' => Cell.collision nkh sl') k v (p, true)
        refine ⟨p, H', h1, [p, sl'.arr], ?_, by simpa using h5, by simpa using h4, ?_⟩
        · rw [absF_collision h2, h3]; rfl
        · intro a ha; simp at ha
          rcases ha with rfl | rfl
          · simp
          · rcases h6 with h6 | h6
            · simp [h6]
            · right; exact h6
      | false =>
        simp only [Bool.false_eq_true, if_false]
        rw [bind_ok (allocSlots_apply _ _ _), bind_ok (alloc_apply _ _)]
        refine ⟨_, _, rfl, ?_⟩
        have habs := mkCollision_abs H nkh (es ++ [(k, v)])
          (List.replicate (es.length + 1 - (entSlots (es ++ [(k, v)]) : List (Slot K V)).length) none) F s
        apply SimRes.of_fresh (fp' := [H.size + 1, H.size]) (by simpa using habs) (by simp)
          (Heap.le_trans (Heap.le_push _ _) (Heap.le_push _ _))
        intro a ha; simp at ha; right; omega
    | some i =>
      rw [hidx] at hv
      simp only [pure, Except.pure] at hv
      injection hv with hv; injection hv with hn hr; subst hn; subst hr
      obtain ⟨e, hei, _, _, _⟩ := indexOf_some hidx
      have hi : i < es.length := (List.getElem?_eq_some_iff.mp hei).1
      cases mu with
      | true =>
        simp only [if_true]
        obtain ⟨H', h1, h2, h3, h4, h5⟩ := ents_store hc hview hne hi k v
        rw [bind_ok h1]
        refine ⟨p, H', rfl, [p, sl.arr], ?_, by simpa using hne, by simpa using h4, by simp⟩
        rw [absF_collision h2, h3]; rfl
      | false =>
        simp only [Bool.false_eq_true, if_false]
        rw [bind_ok (allocSlots_apply _ _ _), bind_ok (alloc_apply _ _)]
        refine ⟨_, _, rfl, ?_⟩
        have habs := mkCollision_abs H nkh (es.set i (k, v))
          (List.replicate (es.length - (entSlots (es.set i (k, v)) : List (Slot K V)).length) none) F s
        apply SimRes.of_fresh (fp' := [H.size + 1, H.size]) (by simpa using habs) (by simp)
          (Heap.le_trans (Heap.le_push _ _) (Heap.le_push _ _))
        intro a ha; simp at ha; right; omega

theorem setSim_array (h : Hasher K) {ex : List (K × V) → K → V → Bool → GoE (Node K V × Bool)}
    {hex : List (K × V) → K → V → Bool → HM K V (Addr × Bool)} (hexp : ExpandSim ex hex) {F : Nat}
    {p : Addr} {H : Heap K V} {sl : Slice} {es : List (K × V)}
    (hc : H[p]? = some (.array sl)) (hview : viewEnts H sl = some es) (hne : p ≠ sl.arr)
    (k : K) (v : V) (kh : UInt32) (mu r : Bool) (n' : Node K V) (r' : Bool)
    (hfuel : 16 ≤ F + 1)
    (hv : (Node.array es).setCore h ex k v 0 kh mu r = .ok (n', r')) :
    ∃ p' H', hsetCoreN h hex (F + 1) p k v 0 kh mu r H = .ok ((p', r'), H') ∧
      SimRes mu (F + 1) 0 H [p, sl.arr] H' p' n' := by
  have hp := lt_size_of_get hc
  rw [Node.setCore] at hv
  unfold hsetCoreN
  rw [bind_ok (load_apply hc)]
  dsimp only
  rw [bind_ok (loadEnts_apply hview)]
  cases hidx : indexOf h es k with
  | none =>
    rw [hidx] at hv
    simp only [beq_self_eq_true, if_true, Bool.true_and] at hv ⊢
    by_cases hfull : es.length ≥ maxArrayMapSize
    · have hd : decide (es.length ≥ maxArrayMapSize) = true := by simpa using hfull
      simp only [hd, if_true, bind, Except.bind] at hv
      simp only [hd, if_true]
      obtain ⟨p', H', h1, fp', h2, h3, h4, h5⟩ := hexp es k v true H n' r' (F + 1) hv hfuel
      refine ⟨p', H', h1, fp', h2, h3, Eff.of_le h4.to_le _, ?_⟩
      intro a ha
      rcases h5 a ha with h | h
      · cases h
      · exact Or.inr h
    · have hd : decide (es.length ≥ maxArrayMapSize) = false := by simpa using hfull
      simp only [hd, Bool.false_eq_true, if_false, bind, Except.bind, pure, Except.pure] at hv
      simp only [hd, Bool.false_eq_true, if_false]
      injection hv with hv; injection hv with hn hr; subst hn; subst hr
      cases mu with
      | true =>
        simp only [if_true]
        obtain ⟨sl', H', h1, h2, h3, h4, h5, h6⟩ :=
          ents_append hc hview hne (fun sl' => Cell.array sl') k v (p, true)
        refine ⟨p, H', h1, [p, sl'.arr], ?_, by simpa using h5, by simpa using h4, ?_⟩
        · rw [absF_array h2, h3]; rfl
        · intro a ha; simp at ha
          rcases ha with rfl | rfl
          · simp
          · rcases h6 with h6 | h6
            · simp [h6]
            · right; exact h6
      | false =>
        simp only [Bool.false_eq_true, if_false]
        rw [bind_ok (allocSlots_apply _ _ _), bind_ok (alloc_apply _ _)]
        refine ⟨_, _, rfl, ?_⟩
        have habs := mkArray_abs H (es ++ [(k, v)])
          (List.replicate (es.length + 1 - (entSlots (es ++ [(k, v)]) : List (Slot K V)).length) none) F
        apply SimRes.of_fresh (fp' := [H.size + 1, H.size]) (by simpa using habs) (by simp)
          (Heap.le_trans (Heap.le_push _ _) (Heap.le_push _ _))
        intro a ha; simp at ha; right; omega
  | some i =>
    rw [hidx] at hv
    have hb : (some i == (none : Option Nat)) = false := rfl
    simp only [hb, Bool.false_eq_true, if_false, Bool.false_and, bind, Except.bind, pure, Except.pure] at hv
    simp only [hb, Bool.false_eq_true, if_false, Bool.false_and]
    injection hv with hv; injection hv with hn hr; subst hn; subst hr
    obtain ⟨e, hei, _, _, _⟩ := indexOf_some hidx
    have hi : i < es.length := (List.getElem?_eq_some_iff.mp hei).1
    cases mu with
    | true =>
      simp only [if_true]
      obtain ⟨H', h1, h2, h3, h4, h5⟩ := ents_store hc hview hne hi k v
      rw [bind_ok h1]
      refine ⟨p, H', rfl, [p, sl.arr], ?_, by simpa using hne, by simpa using h4, by simp⟩
      rw [absF_array h2, h3]; rfl
    | false =>
      simp only [Bool.false_eq_true, if_false]
      rw [bind_ok (allocSlots_apply _ _ _), bind_ok (alloc_apply _ _)]
      refine ⟨_, _, rfl, ?_⟩
      have habs := mkArray_abs H (es.set i (k, v))
        (List.replicate (es.length - (entSlots (es.set i (k, v)) : List (Slot K V)).length) none) F
      apply SimRes.of_fresh (fp' := [H.size + 1, H.size]) (by simpa using habs) (by simp)
        (Heap.le_trans (Heap.le_push _ _) (Heap.le_push _ _))
      intro a ha; simp at ha; right; omega

end FpVerif.HamtHeap
