import FpVerif.Lemmas.IterTerm
import FpVerif.Lemmas.ListLoops
/-!
# Terminal operations with callbacks that may panic

`Outcome f g`: whatever the log, the callback `f a` ends as `g a` says — it returns a value or
panics with a value (`Total f g'` is the special case `g = .ok ∘ g'`).  The reference functions
`foldE`, `foldTryE`, … run the list computation up to the first panic (or the first failure /
hit) and also return the elements that were NOT pulled.  The `_pspec` lemmas: the Go loop returns
the same outcome — a panic propagates with its value — and leaves the iterator representing exactly
the unpulled elements: the element whose step panicked was pulled (that pull completed), nothing
after it.
-/
namespace FpVerif.It
open IM
variable {σ α β γ : Type}

def Outcome (f : α → GoM β) (g : α → Except PanicVal β) : Prop :=
  ∀ a lg, ∃ lg', (f a).run.run lg = (g a, lg')

def Outcome2 (f : α → β → GoM γ) (g : α → β → Except PanicVal γ) : Prop :=
  ∀ a b lg, ∃ lg', (f a b).run.run lg = (g a b, lg')

theorem Total.outcome {f : α → GoM β} {g : α → β} (h : Total f g) : Outcome f (fun a => .ok (g a)) := h
theorem Total2.outcome {f : α → β → GoM γ} {g : α → β → γ} (h : Total2 f g) : Outcome2 f (fun a b => .ok (g a b)) := h

/-- a callback that panics on some inputs: `Outcome` is satisfiable with panics -/
theorem outcome_panic_example (bad : α → Bool) (p : PanicVal) (g : α → β) :
    Outcome (fun a => if bad a then (throw p : GoM β) else pure (g a))
      (fun a => if bad a then .error p else .ok (g a)) := by
  intro a lg
  refine ⟨lg, ?_⟩
  by_cases h : bad a = true
  · simp only [h, if_true]; rfl
  · simp only [h, if_false]; rfl

theorem liftG_outcome {f : α → GoM β} {g : α → Except PanicVal β} (h : Outcome f g) (a : α) (s : σ) (lg : Log) :
    ∃ lg', (IM.liftG (f a) : IM σ β) s lg = (g a, s, lg') := by
  obtain ⟨lg', h'⟩ := h a lg
  exact ⟨lg', by simp [IM.liftG, h']⟩

theorem liftG_outcome2 {f : α → β → GoM γ} {g : α → β → Except PanicVal γ} (h : Outcome2 f g) (a : α) (b : β)
    (s : σ) (lg : Log) : ∃ lg', (IM.liftG (f a b) : IM σ γ) s lg = (g a b, s, lg') := by
  obtain ⟨lg', h'⟩ := h a b lg
  exact ⟨lg', by simp [IM.liftG, h']⟩

/-! ## reference computations: outcome and the elements that are not pulled -/

def foldE (g : β → α → Except PanicVal β) : β → List α → Except PanicVal β × List α
  | z, [] => (.ok z, [])
  | z, a :: as => match g z a with
    | .ok z' => foldE g z' as
    | .error p => (.error p, as)

def foldTryE (g : β → α → Except PanicVal (Try β)) : β → List α → Except PanicVal (Try β) × List α
  | z, [] => (.ok (.success z), [])
  | z, a :: as => match g z a with
    | .ok (.success z') => foldTryE g z' as
    | .ok (.failure e) => (.ok (.failure e), as)
    | .error p => (.error p, as)

def foldOptionE (g : β → α → Except PanicVal (Option β)) : β → List α → Except PanicVal (Option β) × List α
  | z, [] => (.ok (some z), [])
  | z, a :: as => match g z a with
    | .ok (some z') => foldOptionE g z' as
    | .ok none => (.ok none, as)
    | .error p => (.error p, as)

def foldErrorE (g : α → Except PanicVal (Option Err)) : List α → Except PanicVal (Option Err) × List α
  | [] => (.ok none, [])
  | a :: as => match g a with
    | .ok none => foldErrorE g as
    | .ok (some e) => (.ok (some e), as)
    | .error p => (.error p, as)

def foreachE (g : α → Except PanicVal Unit) : List α → Except PanicVal Unit × List α
  | [] => (.ok (), [])
  | a :: as => match g a with
    | .ok () => foreachE g as
    | .error p => (.error p, as)

def existsE (g : α → Except PanicVal Bool) : List α → Except PanicVal Bool × List α
  | [] => (.ok false, [])
  | a :: as => match g a with
    | .ok true => (.ok true, as)
    | .ok false => existsE g as
    | .error p => (.error p, as)

def forAllE (g : α → Except PanicVal Bool) : List α → Except PanicVal Bool × List α
  | [] => (.ok true, [])
  | a :: as => match g a with
    | .ok true => forAllE g as
    | .ok false => (.ok false, as)
    | .error p => (.error p, as)

/-- without panics the references are the usual ones -/
theorem foldE_ok (g : β → α → β) (z : β) (l : List α) :
    foldE (fun b a => .ok (g b a)) z l = (.ok (l.foldl g z), []) := by
  induction l generalizing z with
  | nil => rfl
  | cons a l ih => simp [foldE, ih]

/-- the first panic ends the computation, with its value; what follows the panicking element is
    not pulled -/
theorem foldE_first_panic (g : β → α → Except PanicVal β) (z z' : β) (pre post : List α) (a : α) (p : PanicVal)
    (hpre : foldE g z pre = (.ok z', [])) (ha : g z' a = .error p) :
    foldE g z (pre ++ a :: post) = (.error p, post) := by
  induction pre generalizing z with
  | nil => simp [foldE] at hpre; subst hpre; simp [foldE, ha]
  | cons b pre ih =>
    simp only [foldE, List.cons_append] at hpre ⊢
    cases hg : g z b with
    | ok z1 => rw [hg] at hpre; exact ih z1 hpre
    | error e1 => rw [hg] at hpre; simp at hpre

/-! ## the loops -/

theorem fold_pspec {f : β → α → GoM β} {g : β → α → Except PanicVal β} (hf : Outcome2 f g) {m : Machine σ α}
    {R : σ → List α → List α → Prop} (hS : Sim m R) :
    ∀ (r : List α) (fuel : Nat) (s : σ) (d : List α) (z : β) (lg : Log), r.length < fuel → R s d r →
      ∃ s' lg' d', fold f m fuel z s lg = ((foldE g z r).1, s', lg') ∧
        R s' d' (foldE g z r).2 ∧ d' ++ (foldE g z r).2 = d ++ r := by
  intro r
  induction r with
  | nil =>
    intro fuel s d z lg hfu hR
    obtain ⟨k, rfl⟩ := Nat.exists_eq_succ_of_ne_zero (by omega : fuel ≠ 0)
    obtain ⟨s1, lg1, h1, hR1⟩ := hS.hasNext s d [] lg hR
    simp only [List.isEmpty_nil, Bool.not_true] at h1
    exact ⟨s1, lg1, d, by simp [fold, bind_ok h1, foldE], by simpa [foldE] using hR1, by simp [foldE]⟩
  | cons a r ih =>
    intro fuel s d z lg hfu hR
    obtain ⟨k, rfl⟩ := Nat.exists_eq_succ_of_ne_zero (by omega : fuel ≠ 0)
    obtain ⟨s1, lg1, h1, hR1⟩ := hS.hasNext s d (a :: r) lg hR
    simp only [List.isEmpty_cons, Bool.not_false] at h1
    obtain ⟨s2, lg2, h2, hR2⟩ := hS.next_cons s1 d a r lg1 hR1
    obtain ⟨lg3, h3⟩ := liftG_outcome2 hf z a s2 lg2
    cases hg : g z a with
    | ok z' =>
      rw [hg] at h3
      obtain ⟨s', lg', d', h4, hR4, hd⟩ := ih k s2 (d ++ [a]) z' lg3 (by simpa using hfu) hR2
      refine ⟨s', lg', d', ?_, by simpa [foldE, hg] using hR4, by simpa [foldE, hg] using hd⟩
      simp [fold, bind_ok h1, bind_ok h2, bind_ok h3, h4, foldE, hg]
    | error p =>
      rw [hg] at h3
      refine ⟨s2, lg3, d ++ [a], ?_, by simpa [foldE, hg] using hR2, by simp [foldE, hg]⟩
      simp [fold, bind_ok h1, bind_ok h2, bind_err h3, foldE, hg]

theorem foldTry_pspec {f : β → α → GoM (Try β)} {g : β → α → Except PanicVal (Try β)} (hf : Outcome2 f g)
    {m : Machine σ α} {R : σ → List α → List α → Prop} (hS : Sim m R) :
    ∀ (r : List α) (fuel : Nat) (s : σ) (d : List α) (z : β) (lg : Log), r.length < fuel → R s d r →
      ∃ s' lg' d', foldTry f m fuel z s lg = ((foldTryE g z r).1, s', lg') ∧
        R s' d' (foldTryE g z r).2 ∧ d' ++ (foldTryE g z r).2 = d ++ r := by
  intro r
  induction r with
  | nil =>
    intro fuel s d z lg hfu hR
    obtain ⟨k, rfl⟩ := Nat.exists_eq_succ_of_ne_zero (by omega : fuel ≠ 0)
    obtain ⟨s1, lg1, h1, hR1⟩ := hS.hasNext s d [] lg hR
    simp only [List.isEmpty_nil, Bool.not_true] at h1
    exact ⟨s1, lg1, d, by simp [foldTry, bind_ok h1, foldTryE], by simpa [foldTryE] using hR1, by simp [foldTryE]⟩
  | cons a r ih =>
    intro fuel s d z lg hfu hR
    obtain ⟨k, rfl⟩ := Nat.exists_eq_succ_of_ne_zero (by omega : fuel ≠ 0)
    obtain ⟨s1, lg1, h1, hR1⟩ := hS.hasNext s d (a :: r) lg hR
    simp only [List.isEmpty_cons, Bool.not_false] at h1
    obtain ⟨s2, lg2, h2, hR2⟩ := hS.next_cons s1 d a r lg1 hR1
    obtain ⟨lg3, h3⟩ := liftG_outcome2 hf z a s2 lg2
    cases hg : g z a with
    | ok t =>
      rw [hg] at h3
      cases t with
      | success z' =>
        obtain ⟨s', lg', d', h4, hR4, hd⟩ := ih k s2 (d ++ [a]) z' lg3 (by simpa using hfu) hR2
        refine ⟨s', lg', d', ?_, by simpa [foldTryE, hg] using hR4, by simpa [foldTryE, hg] using hd⟩
        simp [foldTry, bind_ok h1, bind_ok h2, bind_ok h3, h4, foldTryE, hg]
      | failure e =>
        refine ⟨s2, lg3, d ++ [a], ?_, by simpa [foldTryE, hg] using hR2, by simp [foldTryE, hg]⟩
        simp [foldTry, bind_ok h1, bind_ok h2, bind_ok h3, foldTryE, hg]
    | error p =>
      rw [hg] at h3
      refine ⟨s2, lg3, d ++ [a], ?_, by simpa [foldTryE, hg] using hR2, by simp [foldTryE, hg]⟩
      simp [foldTry, bind_ok h1, bind_ok h2, bind_err h3, foldTryE, hg]

theorem foldOption_pspec {f : β → α → GoM (Option β)} {g : β → α → Except PanicVal (Option β)} (hf : Outcome2 f g)
    {m : Machine σ α} {R : σ → List α → List α → Prop} (hS : Sim m R) :
    ∀ (r : List α) (fuel : Nat) (s : σ) (d : List α) (z : β) (lg : Log), r.length < fuel → R s d r →
      ∃ s' lg' d', foldOption f m fuel z s lg = ((foldOptionE g z r).1, s', lg') ∧
        R s' d' (foldOptionE g z r).2 ∧ d' ++ (foldOptionE g z r).2 = d ++ r := by
  intro r
  induction r with
  | nil =>
    intro fuel s d z lg hfu hR
    obtain ⟨k, rfl⟩ := Nat.exists_eq_succ_of_ne_zero (by omega : fuel ≠ 0)
    obtain ⟨s1, lg1, h1, hR1⟩ := hS.hasNext s d [] lg hR
    simp only [List.isEmpty_nil, Bool.not_true] at h1
    exact ⟨s1, lg1, d, by simp [foldOption, bind_ok h1, foldOptionE], by simpa [foldOptionE] using hR1,
      by simp [foldOptionE]⟩
  | cons a r ih =>
    intro fuel s d z lg hfu hR
    obtain ⟨k, rfl⟩ := Nat.exists_eq_succ_of_ne_zero (by omega : fuel ≠ 0)
    obtain ⟨s1, lg1, h1, hR1⟩ := hS.hasNext s d (a :: r) lg hR
    simp only [List.isEmpty_cons, Bool.not_false] at h1
    obtain ⟨s2, lg2, h2, hR2⟩ := hS.next_cons s1 d a r lg1 hR1
    obtain ⟨lg3, h3⟩ := liftG_outcome2 hf z a s2 lg2
    cases hg : g z a with
    | ok t =>
      rw [hg] at h3
      cases t with
      | some z' =>
        obtain ⟨s', lg', d', h4, hR4, hd⟩ := ih k s2 (d ++ [a]) z' lg3 (by simpa using hfu) hR2
        refine ⟨s', lg', d', ?_, by simpa [foldOptionE, hg] using hR4, by simpa [foldOptionE, hg] using hd⟩
        simp [foldOption, bind_ok h1, bind_ok h2, bind_ok h3, h4, foldOptionE, hg]
      | none =>
        refine ⟨s2, lg3, d ++ [a], ?_, by simpa [foldOptionE, hg] using hR2, by simp [foldOptionE, hg]⟩
        simp [foldOption, bind_ok h1, bind_ok h2, bind_ok h3, foldOptionE, hg]
    | error p =>
      rw [hg] at h3
      refine ⟨s2, lg3, d ++ [a], ?_, by simpa [foldOptionE, hg] using hR2, by simp [foldOptionE, hg]⟩
      simp [foldOption, bind_ok h1, bind_ok h2, bind_err h3, foldOptionE, hg]

theorem foldError_pspec {f : α → GoM (Option Err)} {g : α → Except PanicVal (Option Err)} (hf : Outcome f g)
    {m : Machine σ α} {R : σ → List α → List α → Prop} (hS : Sim m R) :
    ∀ (r : List α) (fuel : Nat) (s : σ) (d : List α) (lg : Log), r.length < fuel → R s d r →
      ∃ s' lg' d', foldError f m fuel s lg = ((foldErrorE g r).1, s', lg') ∧
        R s' d' (foldErrorE g r).2 ∧ d' ++ (foldErrorE g r).2 = d ++ r := by
  intro r
  induction r with
  | nil =>
    intro fuel s d lg hfu hR
    obtain ⟨k, rfl⟩ := Nat.exists_eq_succ_of_ne_zero (by omega : fuel ≠ 0)
    obtain ⟨s1, lg1, h1, hR1⟩ := hS.hasNext s d [] lg hR
    simp only [List.isEmpty_nil, Bool.not_true] at h1
    exact ⟨s1, lg1, d, by simp [foldError, bind_ok h1, foldErrorE], by simpa [foldErrorE] using hR1,
      by simp [foldErrorE]⟩
  | cons a r ih =>
    intro fuel s d lg hfu hR
    obtain ⟨k, rfl⟩ := Nat.exists_eq_succ_of_ne_zero (by omega : fuel ≠ 0)
    obtain ⟨s1, lg1, h1, hR1⟩ := hS.hasNext s d (a :: r) lg hR
    simp only [List.isEmpty_cons, Bool.not_false] at h1
    obtain ⟨s2, lg2, h2, hR2⟩ := hS.next_cons s1 d a r lg1 hR1
    obtain ⟨lg3, h3⟩ := liftG_outcome hf a s2 lg2
    cases hg : g a with
    | ok t =>
      rw [hg] at h3
      cases t with
      | none =>
        obtain ⟨s', lg', d', h4, hR4, hd⟩ := ih k s2 (d ++ [a]) lg3 (by simpa using hfu) hR2
        refine ⟨s', lg', d', ?_, by simpa [foldErrorE, hg] using hR4, by simpa [foldErrorE, hg] using hd⟩
        simp [foldError, bind_ok h1, bind_ok h2, bind_ok h3, h4, foldErrorE, hg]
      | some e =>
        refine ⟨s2, lg3, d ++ [a], ?_, by simpa [foldErrorE, hg] using hR2, by simp [foldErrorE, hg]⟩
        simp [foldError, bind_ok h1, bind_ok h2, bind_ok h3, foldErrorE, hg]
    | error p =>
      rw [hg] at h3
      refine ⟨s2, lg3, d ++ [a], ?_, by simpa [foldErrorE, hg] using hR2, by simp [foldErrorE, hg]⟩
      simp [foldError, bind_ok h1, bind_ok h2, bind_err h3, foldErrorE, hg]

theorem foreach_pspec {f : α → GoM Unit} {g : α → Except PanicVal Unit} (hf : Outcome f g)
    {m : Machine σ α} {R : σ → List α → List α → Prop} (hS : Sim m R) :
    ∀ (r : List α) (fuel : Nat) (s : σ) (d : List α) (lg : Log), r.length < fuel → R s d r →
      ∃ s' lg' d', foreach f m fuel s lg = ((foreachE g r).1, s', lg') ∧
        R s' d' (foreachE g r).2 ∧ d' ++ (foreachE g r).2 = d ++ r := by
  intro r
  induction r with
  | nil =>
    intro fuel s d lg hfu hR
    obtain ⟨k, rfl⟩ := Nat.exists_eq_succ_of_ne_zero (by omega : fuel ≠ 0)
    obtain ⟨s1, lg1, h1, hR1⟩ := hS.hasNext s d [] lg hR
    simp only [List.isEmpty_nil, Bool.not_true] at h1
    exact ⟨s1, lg1, d, by simp [foreach, bind_ok h1, foreachE], by simpa [foreachE] using hR1, by simp [foreachE]⟩
  | cons a r ih =>
    intro fuel s d lg hfu hR
    obtain ⟨k, rfl⟩ := Nat.exists_eq_succ_of_ne_zero (by omega : fuel ≠ 0)
    obtain ⟨s1, lg1, h1, hR1⟩ := hS.hasNext s d (a :: r) lg hR
    simp only [List.isEmpty_cons, Bool.not_false] at h1
    obtain ⟨s2, lg2, h2, hR2⟩ := hS.next_cons s1 d a r lg1 hR1
    obtain ⟨lg3, h3⟩ := liftG_outcome hf a s2 lg2
    cases hg : g a with
    | ok u =>
      rw [hg] at h3
      obtain ⟨s', lg', d', h4, hR4, hd⟩ := ih k s2 (d ++ [a]) lg3 (by simpa using hfu) hR2
      refine ⟨s', lg', d', ?_, by simpa [foreachE, hg] using hR4, by simpa [foreachE, hg] using hd⟩
      simp [foreach, bind_ok h1, bind_ok h2, bind_ok h3, h4, foreachE, hg]
    | error p =>
      rw [hg] at h3
      refine ⟨s2, lg3, d ++ [a], ?_, by simpa [foreachE, hg] using hR2, by simp [foreachE, hg]⟩
      simp [foreach, bind_ok h1, bind_ok h2, bind_err h3, foreachE, hg]

theorem exists_pspec {f : α → GoM Bool} {g : α → Except PanicVal Bool} (hf : Outcome f g)
    {m : Machine σ α} {R : σ → List α → List α → Prop} (hS : Sim m R) :
    ∀ (r : List α) (fuel : Nat) (s : σ) (d : List α) (lg : Log), r.length < fuel → R s d r →
      ∃ s' lg' d', «exists» f m fuel s lg = ((existsE g r).1, s', lg') ∧
        R s' d' (existsE g r).2 ∧ d' ++ (existsE g r).2 = d ++ r := by
  intro r
  induction r with
  | nil =>
    intro fuel s d lg hfu hR
    obtain ⟨k, rfl⟩ := Nat.exists_eq_succ_of_ne_zero (by omega : fuel ≠ 0)
    obtain ⟨s1, lg1, h1, hR1⟩ := hS.hasNext s d [] lg hR
    simp only [List.isEmpty_nil, Bool.not_true] at h1
    exact ⟨s1, lg1, d, by simp [«exists», bind_ok h1, existsE], by simpa [existsE] using hR1, by simp [existsE]⟩
  | cons a r ih =>
    intro fuel s d lg hfu hR
    obtain ⟨k, rfl⟩ := Nat.exists_eq_succ_of_ne_zero (by omega : fuel ≠ 0)
    obtain ⟨s1, lg1, h1, hR1⟩ := hS.hasNext s d (a :: r) lg hR
    simp only [List.isEmpty_cons, Bool.not_false] at h1
    obtain ⟨s2, lg2, h2, hR2⟩ := hS.next_cons s1 d a r lg1 hR1
    obtain ⟨lg3, h3⟩ := liftG_outcome hf a s2 lg2
    cases hg : g a with
    | ok b =>
      rw [hg] at h3
      cases b with
      | false =>
        obtain ⟨s', lg', d', h4, hR4, hd⟩ := ih k s2 (d ++ [a]) lg3 (by simpa using hfu) hR2
        refine ⟨s', lg', d', ?_, by simpa [existsE, hg] using hR4, by simpa [existsE, hg] using hd⟩
        simp [«exists», bind_ok h1, bind_ok h2, bind_ok h3, h4, existsE, hg]
      | true =>
        refine ⟨s2, lg3, d ++ [a], ?_, by simpa [existsE, hg] using hR2, by simp [existsE, hg]⟩
        simp [«exists», bind_ok h1, bind_ok h2, bind_ok h3, existsE, hg]
    | error p =>
      rw [hg] at h3
      refine ⟨s2, lg3, d ++ [a], ?_, by simpa [existsE, hg] using hR2, by simp [existsE, hg]⟩
      simp [«exists», bind_ok h1, bind_ok h2, bind_err h3, existsE, hg]

theorem forAll_pspec {f : α → GoM Bool} {g : α → Except PanicVal Bool} (hf : Outcome f g)
    {m : Machine σ α} {R : σ → List α → List α → Prop} (hS : Sim m R) :
    ∀ (r : List α) (fuel : Nat) (s : σ) (d : List α) (lg : Log), r.length < fuel → R s d r →
      ∃ s' lg' d', forAll f m fuel s lg = ((forAllE g r).1, s', lg') ∧
        R s' d' (forAllE g r).2 ∧ d' ++ (forAllE g r).2 = d ++ r := by
  intro r
  induction r with
  | nil =>
    intro fuel s d lg hfu hR
    obtain ⟨k, rfl⟩ := Nat.exists_eq_succ_of_ne_zero (by omega : fuel ≠ 0)
    obtain ⟨s1, lg1, h1, hR1⟩ := hS.hasNext s d [] lg hR
    simp only [List.isEmpty_nil, Bool.not_true] at h1
    exact ⟨s1, lg1, d, by simp [forAll, bind_ok h1, forAllE], by simpa [forAllE] using hR1, by simp [forAllE]⟩
  | cons a r ih =>
    intro fuel s d lg hfu hR
    obtain ⟨k, rfl⟩ := Nat.exists_eq_succ_of_ne_zero (by omega : fuel ≠ 0)
    obtain ⟨s1, lg1, h1, hR1⟩ := hS.hasNext s d (a :: r) lg hR
    simp only [List.isEmpty_cons, Bool.not_false] at h1
    obtain ⟨s2, lg2, h2, hR2⟩ := hS.next_cons s1 d a r lg1 hR1
    obtain ⟨lg3, h3⟩ := liftG_outcome hf a s2 lg2
    cases hg : g a with
    | ok b =>
      rw [hg] at h3
      cases b with
      | true =>
        obtain ⟨s', lg', d', h4, hR4, hd⟩ := ih k s2 (d ++ [a]) lg3 (by simpa using hfu) hR2
        refine ⟨s', lg', d', ?_, by simpa [forAllE, hg] using hR4, by simpa [forAllE, hg] using hd⟩
        simp [forAll, bind_ok h1, bind_ok h2, bind_ok h3, h4, forAllE, hg]
      | false =>
        refine ⟨s2, lg3, d ++ [a], ?_, by simpa [forAllE, hg] using hR2, by simp [forAllE, hg]⟩
        simp [forAll, bind_ok h1, bind_ok h2, bind_ok h3, forAllE, hg]
    | error p =>
      rw [hg] at h3
      refine ⟨s2, lg3, d ++ [a], ?_, by simpa [forAllE, hg] using hR2, by simp [forAllE, hg]⟩
      simp [forAll, bind_ok h1, bind_ok h2, bind_err h3, forAllE, hg]

end FpVerif.It

/-! ## the cursor loops of package `list` -/
namespace FpVerif.LL
open FpVerif.It IM

variable {k : Nat} {R : Heap → LV → List Val → Prop}

/-- `list.Fold` with a step that may panic: the panic propagates; the cursor rests on the element
    whose step panicked — its tail has not been forced. -/
theorem fold_lpspec {f : Val → Val → GoM Val} {g : Val → Val → Except PanicVal Val} (hf : Outcome2 f g)
    (hS : LSim k R) :
    ∀ (xs : List Val) (fuel : Nat) (hp : Heap) (l : LV) (z : Val) (lg : Log), k + xs.length < fuel → R hp l xs →
      ∃ hp' lg', LL.fold f fuel l z hp lg = ((foldE g z xs).1, hp', lg') ∧
        (∀ p, (foldE g z xs).1 = .error p → ∃ l' a, R hp' l' (a :: (foldE g z xs).2)) := by
  intro xs
  induction xs with
  | nil =>
    intro fuel hp l z lg hfu hR
    obtain ⟨n, rfl⟩ := Nat.exists_eq_succ_of_ne_zero (by omega : fuel ≠ 0)
    obtain ⟨hp1, lg1, h1, _⟩ := hS.isEmpty n hp l [] lg (by simp at hfu; omega) hR
    exact ⟨hp1, lg1, by simp [LL.fold, bind_ok h1, foldE], by simp [foldE]⟩
  | cons x xs ih =>
    intro fuel hp l z lg hfu hR
    obtain ⟨n, rfl⟩ := Nat.exists_eq_succ_of_ne_zero (by omega : fuel ≠ 0)
    have hk : k ≤ n := by simp at hfu; omega
    obtain ⟨hp1, lg1, h1, hR1⟩ := hS.isEmpty n hp l (x :: xs) lg hk hR
    obtain ⟨hp2, lg2, h2, hR2⟩ := hS.head n hp1 l x xs lg1 hk hR1
    obtain ⟨lg3, h3⟩ := liftG_outcome2 hf z x hp2 lg2
    cases hg : g z x with
    | ok z' =>
      rw [hg] at h3
      obtain ⟨t, hp4, lg4, h4, hR4⟩ := hS.tail n hp2 l x xs lg3 hk hR2
      obtain ⟨hp', lg', h5, hrest⟩ := ih n hp4 t z' lg4 (by simp at hfu ⊢; omega) hR4
      refine ⟨hp', lg', ?_, by simpa [foldE, hg] using hrest⟩
      simp [LL.fold, bind_ok h1, bind_ok h2, bind_ok h3, bind_ok h4, h5, foldE, hg]
    | error p =>
      rw [hg] at h3
      refine ⟨hp2, lg3, ?_, fun _ _ => ⟨l, x, by simpa [foldE, hg] using hR2⟩⟩
      simp [LL.fold, bind_ok h1, bind_ok h2, bind_err h3, foldE, hg]

theorem foldTry_lpspec {f : Val → Val → GoM (Try Val)} {g : Val → Val → Except PanicVal (Try Val)}
    (hf : Outcome2 f g) (hS : LSim k R) :
    ∀ (xs : List Val) (fuel : Nat) (hp : Heap) (l : LV) (z : Val) (lg : Log), k + xs.length < fuel → R hp l xs →
      ∃ hp' lg', LL.foldTry f fuel l z hp lg = ((foldTryE g z xs).1, hp', lg') ∧
        ((∀ z', (foldTryE g z xs).1 ≠ .ok (.success z')) → ∃ l' a, R hp' l' (a :: (foldTryE g z xs).2)) := by
  intro xs
  induction xs with
  | nil =>
    intro fuel hp l z lg hfu hR
    obtain ⟨n, rfl⟩ := Nat.exists_eq_succ_of_ne_zero (by omega : fuel ≠ 0)
    obtain ⟨hp1, lg1, h1, _⟩ := hS.isEmpty n hp l [] lg (by simp at hfu; omega) hR
    exact ⟨hp1, lg1, by simp [LL.foldTry, bind_ok h1, foldTryE], fun h => absurd rfl (h z)⟩
  | cons x xs ih =>
    intro fuel hp l z lg hfu hR
    obtain ⟨n, rfl⟩ := Nat.exists_eq_succ_of_ne_zero (by omega : fuel ≠ 0)
    have hk : k ≤ n := by simp at hfu; omega
    obtain ⟨hp1, lg1, h1, hR1⟩ := hS.isEmpty n hp l (x :: xs) lg hk hR
    obtain ⟨hp2, lg2, h2, hR2⟩ := hS.head n hp1 l x xs lg1 hk hR1
    obtain ⟨lg3, h3⟩ := liftG_outcome2 hf z x hp2 lg2
    cases hg : g z x with
    | ok t =>
      rw [hg] at h3
      cases t with
      | success z' =>
        obtain ⟨t, hp4, lg4, h4, hR4⟩ := hS.tail n hp2 l x xs lg3 hk hR2
        obtain ⟨hp', lg', h5, hrest⟩ := ih n hp4 t z' lg4 (by simp at hfu ⊢; omega) hR4
        refine ⟨hp', lg', ?_, by simpa [foldTryE, hg] using hrest⟩
        simp [LL.foldTry, bind_ok h1, bind_ok h2, bind_ok h3, bind_ok h4, h5, foldTryE, hg]
      | failure e =>
        refine ⟨hp2, lg3, ?_, fun _ => ⟨l, x, by simpa [foldTryE, hg] using hR2⟩⟩
        simp [LL.foldTry, bind_ok h1, bind_ok h2, bind_ok h3, foldTryE, hg]
    | error p =>
      rw [hg] at h3
      refine ⟨hp2, lg3, ?_, fun _ => ⟨l, x, by simpa [foldTryE, hg] using hR2⟩⟩
      simp [LL.foldTry, bind_ok h1, bind_ok h2, bind_err h3, foldTryE, hg]

end FpVerif.LL
