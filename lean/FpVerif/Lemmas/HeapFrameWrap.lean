import FpVerif.Lemmas.HeapFrame
import FpVerif.Model.HamtWorld
/-!
The `fp.Map` / `fp.Set` wrapper methods (and the composite operations of the histories) only
allocate: none of them writes a cell that existed before the call.  No well-formedness is assumed.
-/
set_option linter.unusedSimpArgs false
set_option linter.unusedVariables false
namespace FpVerif.HamtHeap
open FpVerif.Hamt
variable {K V : Type} {α β : Type}

theorem Pres.hamtConcat (h : Hasher K) (m : Addr) (kvs : List (K × V)) : Pres (hamtConcat h m kvs) := by
  unfold HamtHeap.hamtConcat
  apply Pres.foldlM
  intro b a
  exact Pres.hamtUpdated h b a.1 a.2

theorem Pres.hamtUpdatedWith (h : Hasher K) (m : Addr) (k : K) (remap : Option V → Option V) :
    Pres (hamtUpdatedWith h m k remap) := by
  unfold HamtHeap.hamtUpdatedWith
  have h1 := Pres.hamtUpdated (V := V) h m k
  have h2 := Pres.hamtRemoved (V := V) h m [k]
  repeat (first | exact h1 _ | exact h2 | pres_step)

theorem Pres.hamtFilterInto (h : Hasher K) (mi mj : Addr) (neg : Bool) (tt : V) :
    Pres (hamtFilterInto h mi mj neg tt) := by
  unfold HamtHeap.hamtFilterInto
  refine Pres.bind (Pres.readHamt _) (fun _ => Pres.bind (Pres.liftE _) (fun es => Pres.bind Pres.hamtNew (fun m0 => ?_)))
  apply Pres.foldlM
  intro b a
  refine Pres.bind (Pres.readHamt _) (fun _ => Pres.bind (Pres.liftE _) (fun c => ?_))
  split
  · exact Pres.hamtUpdated h _ _ _
  · exact Pres.pure _

section wrappers
variable [BEq K]

theorem Pres.HFMap_updated (h : Hasher K) (r : HFMap K V) (k : K) (v : V) : Pres (r.updated h k v) := by
  unfold HFMap.updated
  have := Pres.hamtUpdated (V := V) h
  repeat (first | exact this _ _ _ | pres_step)

theorem Pres.HFMap_removed (h : Hasher K) (r : HFMap K V) (ks : List K) : Pres (r.removed h ks) := by
  unfold HFMap.removed
  have := Pres.hamtRemoved (V := V) h
  repeat (first | exact this _ _ | pres_step)

theorem Pres.HFMap_get (h : Hasher K) (r : HFMap K V) (k : K) : Pres (r.get h k) := by
  unfold HFMap.get
  repeat pres_step

theorem Pres.HFMap_updatedWith (h : Hasher K) (r : HFMap K V) (k : K) (remap : Option V → Option V) :
    Pres (r.updatedWith h k remap) := by
  unfold HFMap.updatedWith
  have h1 := Pres.HFMap_updated h r k
  have h2 := Pres.HFMap_removed h r [k]
  have h3 := Pres.HFMap_get h r k
  repeat (first | exact h1 _ | exact h2 | exact h3 | pres_step)

theorem Pres.HFMap_concat (h : Hasher K) (r : HFMap K V) (other : List (K × V)) : Pres (r.concat h other) := by
  unfold HFMap.concat
  apply Pres.foldlM
  intro b a
  exact Pres.HFMap_updated h b a.1 a.2

theorem Pres.HSetMin_incl (h : Hasher K) (s : HSetMin K) (v : K) : Pres (s.incl h v) := by
  unfold HSetMin.incl
  have := Pres.hamtUpdated (V := Bool) h
  split <;> repeat (first | exact this _ _ _ | pres_step)

theorem Pres.HSetMin_excl (h : Hasher K) (s : HSetMin K) (v : K) : Pres (s.excl h v) := by
  unfold HSetMin.excl
  have := Pres.hamtRemoved (V := Bool) h
  split <;> repeat (first | exact this _ _ | pres_step)

theorem Pres.HSetMin_contains (h : Hasher K) (s : HSetMin K) (v : K) : Pres (s.contains h v) := by
  unfold HSetMin.contains
  split <;> repeat pres_step

theorem Pres.HSetMin_iterList (s : HSetMin K) : Pres s.iterList := by
  unfold HSetMin.iterList
  split <;> repeat pres_step

theorem Pres.HFSet_callGetEmpty (r : HFSet K) : Pres r.callGetEmpty := by
  unfold HFSet.callGetEmpty
  have := Pres.hamtNew (K := K) (V := Bool)
  split <;> repeat (first | exact this | pres_step)

theorem Pres.HFSet_contains (h : Hasher K) (r : HFSet K) (v : K) : Pres (r.contains h v) := by
  unfold HFSet.contains
  split
  · exact Pres.pure _
  · exact Pres.HSetMin_contains h _ v

theorem Pres.HFSet_iterList (r : HFSet K) : Pres r.iterList := by
  unfold HFSet.iterList
  split
  · exact Pres.pure _
  · exact Pres.HSetMin_iterList _

theorem Pres.HFSet_incl (h : Hasher K) (r : HFSet K) (v : K) : Pres (r.incl h v) := by
  unfold HFSet.incl
  split
  · exact Pres.pure _
  · exact Pres.bind (Pres.HFSet_callGetEmpty r) (fun s => Pres.bind (Pres.HSetMin_incl h s v) (fun _ => Pres.pure _))
  · exact Pres.bind (Pres.HSetMin_incl h _ v) (fun _ => Pres.pure _)

theorem Pres.HFSet_excl (h : Hasher K) (r : HFSet K) (v : K) : Pres (r.excl h v) := by
  unfold HFSet.excl
  split
  · exact Pres.pure _
  · exact Pres.bind (Pres.HSetMin_excl h _ v) (fun _ => Pres.pure _)

theorem Pres.HFSet_concat (h : Hasher K) (r : HFSet K) (other : List K) : Pres (r.concat h other) := by
  unfold HFSet.concat
  apply Pres.foldlM
  intro b a
  exact Pres.HFSet_incl h b a

theorem Pres.HFSet_diff (h : Hasher K) (r other : HFSet K) : Pres (r.diff h other) := by
  unfold HFSet.diff
  refine Pres.bind (Pres.HFSet_iterList r) (fun es => Pres.bind (Pres.HFSet_callGetEmpty r) (fun e0 =>
    Pres.bind ?_ (fun _ => Pres.pure _)))
  apply Pres.foldlM
  intro b a
  refine Pres.bind (Pres.HFSet_contains h other a) (fun c => ?_)
  split
  · exact Pres.HSetMin_incl h b a
  · exact Pres.pure _

theorem Pres.HFSet_intersect (h : Hasher K) (r other : HFSet K) : Pres (r.intersect h other) := by
  unfold HFSet.intersect
  refine Pres.bind (Pres.HFSet_iterList r) (fun es => Pres.bind (Pres.HFSet_callGetEmpty r) (fun e0 =>
    Pres.bind ?_ (fun _ => Pres.pure _)))
  apply Pres.foldlM
  intro b a
  refine Pres.bind (Pres.HFSet_contains h other a) (fun c => ?_)
  split
  · exact Pres.HSetMin_incl h b a
  · exact Pres.pure _

end wrappers

end FpVerif.HamtHeap
