import FpVerif.Lemmas.HeapConv2
/-!
Simulation of `delete` on the copying path, part 2: branch nodes, the assembled theorem,
`(*hamt).delete`, `(*hamt).Removed`.
-/
set_option linter.unusedSimpArgs false
set_option linter.unusedVariables false
namespace FpVerif.HamtHeap
open FpVerif.Hamt
variable {K V : Type} {α β : Type}

theorem delSim_bitmap (h : Hasher K) {F : Nat} (ih : DelSim h V F)
    {p : Addr} {s : Nat} {H : Heap K V} {bm : Nat} {sl : Slice} {ps : List Addr}
    {rs : List (Node K V × List Addr)}
    (hc : H[p]? = some (.bitmap bm sl)) (hs : s < 32) (hview : viewPtrs H sl = some ps)
    (hk : mapOpt (absF F (s + mapNodeBits) H) ps = some rs)
    (hnd : (p :: sl.arr :: (rs.map (·.2)).flatten).Nodup)
    (k : K) (kh : UInt32) (r : Bool) (n' : Option (Node K V)) (r' : Bool)
    (hfuel : 16 ≤ s / 5 + (F + 1))
    (hv : (Node.bitmap bm (rs.map (·.1))).delete h k s kh false r = .ok (n', r')) :
    ∃ p' H', hdeleteN h (F + 1) p k s kh false r H = .ok ((p', r'), H') ∧
      DRes (F + 1) s H (p :: sl.arr :: (rs.map (·.2)).flatten) H' p' n' := by
  have habs0 := parent_bitmap hc hs hview hk
  rw [Node.delete] at hv
  unfold hdeleteN
  rw [bind_ok (load_apply hc)]
  dsimp only
  rw [bind_ok (loadPtrs_apply hview)]
  dsimp only at hv ⊢
  by_cases hbit : (bm &&& 1 <<< frag kh s == 0) = true
  · simp only [hbit, if_true, pure, Except.pure] at hv
    simp only [hbit, if_true]
    injection hv with hv; injection hv with h1 h2; subst h1; subst h2
    exact ⟨some p, H, rfl, DRes.same habs0 hnd (Heap.le_refl _)⟩
  · simp only [hbit, Bool.false_eq_true, if_false] at hv ⊢
    split at hv
    · cases hv
    · rename_i child hnode
      obtain ⟨fpo, hri⟩ := getElem?_map_fst hnode
      obtain ⟨c, hpc, hcabs⟩ := mapOpt_getElem?' hk hri
      have hlen := mapOpt_length hk
      have hndL : (rs.map (·.2)).flatten.Nodup := (List.nodup_cons.mp (List.nodup_cons.mp hnd).2).2
      have hB : ∀ a ∈ (rs.map (·.2)).flatten, a < H.size := fun a ha => absF_lt habs0 (by simp [ha])
      rw [hpc]
      dsimp only
      cases hdc : Node.delete h child k (s + mapNodeBits) kh false r with
      | error e => rw [hdc] at hv; cases hv
      | ok res =>
        obtain ⟨nc, r1⟩ := res
        rw [hdc] at hv
        simp only [bind, Except.bind] at hv
        have hndc : fpo.Nodup :=
          (List.pairwise_flatten.mp hndL).1 fpo (List.mem_of_getElem? (getElem?_map_snd hri))
        obtain ⟨c', H1, h1, hle1, hres1⟩ :=
          ih c (s + mapNodeBits) H child fpo k kh r nc r1 hcabs hndc (by simp [mapNodeBits]; omega) hdc
        rw [bind_ok h1]
        dsimp only
        by_cases hr1 : r1 = true
        · subst hr1
          simp only [Bool.not_true, Bool.false_eq_true, if_false] at hv ⊢
          cases nc with
          | none =>
            cases c' with
            | some _ => exact absurd hres1 (by simp)
            | none =>
              simp only [List.length_map, hlen] at hv
              dsimp only
              by_cases hone : (ps.length == 1) = true
              · simp only [hone, if_true, pure, Except.pure] at hv
                simp only [hone, if_true]
                injection hv with hv; injection hv with h1' h2'; subst h1'; subst h2'
                exact ⟨none, H1, rfl, hle1, trivial⟩
              · simp only [hone, Bool.false_eq_true, if_false, pure, Except.pure] at hv
                simp only [hone, Bool.false_eq_true, if_false]
                injection hv with hv; injection hv with h1' h2'; subst h1'; subst h2'
                rw [bind_ok (allocSlots_apply _ _ _), bind_ok (alloc_apply _ _)]
                refine ⟨_, _, rfl, ?_⟩
                have hk1 : mapOpt (absF F (s + mapNodeBits) H1) ps = some rs :=
                  kids_stable (Eff.of_le hle1 []) hk (fun _ _ _ _ => by simp)
                have hk1' := mapOpt_append (mapOpt_take hk1 (popCount (bm &&& 1 <<< frag kh s - 1)))
                  (mapOpt_drop hk1 (popCount (bm &&& 1 <<< frag kh s - 1) + 1))
                have habs := mkBitmap_abs hk1' hs
                  (List.replicate (ps.length - 1 - (ptrSlots (List.take (popCount (bm &&& 1 <<< frag kh s - 1)) ps ++
                    List.drop (popCount (bm &&& 1 <<< frag kh s - 1) + 1) ps) : List (Slot K V)).length) none)
                  (bm ^^^ 1 <<< frag kh s)
                have hsubl : List.Sublist
                    (((rs.take (popCount (bm &&& 1 <<< frag kh s - 1)) ++
                      rs.drop (popCount (bm &&& 1 <<< frag kh s - 1) + 1)).map (·.2)).flatten)
                    (rs.map (·.2)).flatten := by
                  apply Sublist.flatten'
                  apply List.Sublist.map
                  conv => rhs; rw [← List.take_append_drop (popCount (bm &&& 1 <<< frag kh s - 1)) rs]
                  apply List.Sublist.append (List.Sublist.refl _)
                  rw [← List.drop_drop]
                  exact List.drop_sublist _ _
                apply DRes.fresh (Heap.le_trans hle1 (Heap.le_trans (Heap.le_push _ _) (Heap.le_push _ _)))
                  (fp' := (H1.size + 1) :: H1.size :: ((rs.take (popCount (bm &&& 1 <<< frag kh s - 1)) ++
                      rs.drop (popCount (bm &&& 1 <<< frag kh s - 1) + 1)).map (·.2)).flatten)
                · rw [← List.map_take, ← List.map_drop, ← List.map_append]
                  simpa using habs
                · apply nodup_fresh2 (hndL.sublist hsubl)
                  intro x hx
                  have := hB x (hsubl.subset hx); have := hle1.1; omega
                · intro a ha
                  have := hle1.1
                  simp only [List.mem_cons] at ha
                  rcases ha with rfl | rfl | ha
                  · right; omega
                  · right; omega
                  · left; simp [hsubl.subset ha]
          | some nn =>
            cases c' with
            | none => exact absurd hres1 (by simp)
            | some cp =>
              obtain ⟨fpn, hc', hndn, hsub⟩ := hres1
              simp only [pure, Except.pure] at hv
              injection hv with hv; injection hv with h1' h2'; subst h1'; subst h2'
              dsimp only
              rw [bind_ok (allocSlots_apply _ _ _), bind_ok (alloc_apply _ _)]
              refine ⟨_, _, rfl, ?_⟩
              have hres := bitmap_finish_copy hc hs hview hk hnd hri hc' hndn (Eff.of_le hle1 []) hsub bm
                (List.replicate (ps.length - (ptrSlots (ps.set (popCount (bm &&& 1 <<< frag kh s - 1)) cp) : List (Slot K V)).length) none)
              obtain ⟨fp', ha1, ha2, ha3, ha4⟩ := hres
              exact DRes.fresh ha3.to_le (by simpa using ha1) ha2 ha4
        · have hr1' : r1 = false := by cases r1 <;> simp_all
          subst hr1'
          simp only [Bool.not_false, if_true, pure, Except.pure] at hv
          simp only [Bool.not_false, if_true]
          injection hv with hv; injection hv with h1' h2'; subst h1'; subst h2'
          exact ⟨some p, H1, rfl, DRes.same habs0 hnd hle1⟩

/-- copying path: `other = n.clone(); other.nodes[idx] = nil; other.count--` -/
theorem hashArray_finish_copy_none {F s : Nat} {H H1 : Heap K V} {p : Addr} {cnt : Nat} {slots : List (Option Addr)}
    {rs : List (Option (Node K V) × List Addr)} {idx : Nat}
    (hc : H[p]? = some (.hashArray cnt slots)) (hs : s < 32)
    (hk : mapOpt (absSlot F (s + mapNodeBits) H) slots = some rs)
    (hnd : (p :: (rs.map (·.2)).flatten).Nodup) (hle1 : Heap.le H H1) (cnt' : Nat) :
    DRes (F + 1) s H (p :: (rs.map (·.2)).flatten)
      (H1.push (.hashArray cnt' (slots.set idx none))) (some H1.size)
      (some (.hashArray cnt' ((rs.map (·.1)).set idx none))) := by
  have hparent : absF (F + 1) s H p = some (Node.hashArray cnt (rs.map (·.1)), p :: (rs.map (·.2)).flatten) := by
    rw [absF_hashArray hc hs, hk]; rfl
  have hB : ∀ a ∈ (rs.map (·.2)).flatten, a < H.size := fun a ha => absF_lt hparent (by simp [ha])
  have hk1 : mapOpt (absSlot F (s + mapNodeBits) H1) (slots.set idx none) = some (rs.set idx (none, [])) :=
    slots_set (Eff.of_le hle1 []) hk (by simp [absSlot]) (fun _ _ _ _ _ _ => by simp)
  have habs := mkHashArray_abs hk1 hs cnt'
  have hndL := (List.nodup_cons.mp hnd).2
  have hsubl : ∀ a ∈ ((rs.map (·.2)).set idx []).flatten, a ∈ (rs.map (·.2)).flatten := by
    intro a ha
    rcases mem_flatten_set ha with h' | h'
    · cases h'
    · exact h'
  have hnd' : ((rs.map (·.2)).set idx []).flatten.Nodup := by
    by_cases hlt : idx < (rs.map (·.2)).length
    · exact nodup_flatten_set (B := H.size) hndL (List.getElem?_eq_getElem hlt) (by simp) (by simp) hB
    · rw [List.set_eq_of_length_le (by omega)]; exact hndL
  apply DRes.fresh (Heap.le_trans hle1 (Heap.le_push _ _)) (fp' := H1.size :: ((rs.map (·.2)).set idx []).flatten)
  · rw [habs]; simp [List.map_set]
  · apply nodup_fresh1 hnd'
    intro x hx
    have := hB x (hsubl x hx); have := hle1.1; omega
  · intro a ha
    simp only [List.mem_cons] at ha
    rcases ha with rfl | ha
    · right; exact hle1.1
    · left; simp [hsubl a ha]

theorem delSim_hashArray (h : Hasher K) {F : Nat} (ih : DelSim h V F)
    {p : Addr} {s : Nat} {H : Heap K V} {cnt : Nat} {slots : List (Option Addr)}
    {rs : List (Option (Node K V) × List Addr)}
    (hc : H[p]? = some (.hashArray cnt slots)) (hs : s < 32)
    (hk : mapOpt (absSlot F (s + mapNodeBits) H) slots = some rs)
    (hnd : (p :: (rs.map (·.2)).flatten).Nodup)
    (k : K) (kh : UInt32) (r : Bool) (n' : Option (Node K V)) (r' : Bool)
    (hfuel : 16 ≤ s / 5 + (F + 1))
    (hv : (Node.hashArray cnt (rs.map (·.1))).delete h k s kh false r = .ok (n', r')) :
    ∃ p' H', hdeleteN h (F + 1) p k s kh false r H = .ok ((p', r'), H') ∧
      DRes (F + 1) s H (p :: (rs.map (·.2)).flatten) H' p' n' := by
  have habs0 : absF (F + 1) s H p = some (Node.hashArray cnt (rs.map (·.1)), p :: (rs.map (·.2)).flatten) := by
    rw [absF_hashArray hc hs, hk]; rfl
  rw [Node.delete] at hv
  unfold hdeleteN
  rw [bind_ok (load_apply hc)]
  dsimp only at hv ⊢
  split at hv
  · cases hv
  · rename_i hnode
    obtain ⟨fpo, hri⟩ := getElem?_map_fst hnode
    obtain ⟨o, hso, hoabs⟩ := mapOpt_getElem?' hk hri
    cases o with
    | some c => simp [absSlot] at hoabs
    | none =>
      rw [hso]
      simp only [pure, Except.pure] at hv
      injection hv with hv; injection hv with h1 h2; subst h1; subst h2
      exact ⟨some p, H, rfl, DRes.same habs0 hnd (Heap.le_refl _)⟩
  · rename_i node hnode
    obtain ⟨fpo, hri⟩ := getElem?_map_fst hnode
    obtain ⟨o, hso, hoabs⟩ := mapOpt_getElem?' hk hri
    have hndL : (rs.map (·.2)).flatten.Nodup := (List.nodup_cons.mp hnd).2
    have hB : ∀ a ∈ (rs.map (·.2)).flatten, a < H.size := fun a ha => absF_lt habs0 (by simp [ha])
    cases o with
    | none => simp [absSlot] at hoabs
    | some c =>
      simp only [absSlot, Option.map_eq_some_iff, Prod.mk.injEq, Option.some.injEq] at hoabs
      obtain ⟨⟨child, fpc⟩, hcabs, hn1, hn2⟩ := hoabs
      dsimp only at hn1 hn2
      subst hn1; subst hn2
      rw [hso]
      dsimp only
      cases hdc : Node.delete h child k (s + mapNodeBits) kh false r with
      | error e => rw [hdc] at hv; cases hv
      | ok res =>
        obtain ⟨nc, r1⟩ := res
        rw [hdc] at hv
        simp only [bind, Except.bind] at hv
        have hndc : fpc.Nodup :=
          (List.pairwise_flatten.mp hndL).1 fpc (List.mem_of_getElem? (getElem?_map_snd hri))
        obtain ⟨c', H1, h1, hle1, hres1⟩ :=
          ih c (s + mapNodeBits) H child fpc k kh r nc r1 hcabs hndc (by simp [mapNodeBits]; omega) hdc
        rw [bind_ok h1]
        dsimp only
        by_cases hr1 : r1 = true
        · subst hr1
          simp only [Bool.not_true, Bool.false_eq_true, if_false] at hv ⊢
          cases nc with
          | none =>
            cases c' with
            | some _ => exact absurd hres1 (by simp)
            | none =>
              simp only [Option.isNone_none, Bool.true_and, if_true] at hv ⊢
              by_cases hsmall : cnt ≤ maxBitmapIndexedSize
              · have hd : decide (cnt ≤ maxBitmapIndexedSize) = true := by simpa using hsmall
                simp only [hd, if_true, pure, Except.pure] at hv
                simp only [hd, if_true]
                injection hv with hv; injection hv with h1' h2'; subst h1'; subst h2'
                rw [bind_ok (allocSlots_apply _ _ _), bind_ok (alloc_apply _ _)]
                refine ⟨_, _, rfl, ?_⟩
                obtain ⟨hbm, rsN, hkN, hfstN, hsublN⟩ := h2b_sim hk (frag kh s)
                have hkN1 : mapOpt (absF F (s + mapNodeBits) H1) (hashArrayToBitmapG slots (frag kh s)).2 = some rsN :=
                  kids_stable (Eff.of_le hle1 []) hkN (fun _ _ _ _ => by simp)
                have habs := mkBitmap_abs hkN1 hs
                  (List.replicate (cnt - 1 - (ptrSlots (hashArrayToBitmapG slots (frag kh s)).2 : List (Slot K V)).length) none)
                  (hashArrayToBitmapG slots (frag kh s)).1
                apply DRes.fresh (Heap.le_trans hle1 (Heap.le_trans (Heap.le_push _ _) (Heap.le_push _ _)))
                  (fp' := (H1.size + 1) :: H1.size :: (rsN.map (·.2)).flatten)
                · rw [← hbm, ← hfstN]
                  simpa using habs
                · apply nodup_fresh2 (hndL.sublist hsublN)
                  intro x hx
                  have := hB x (hsublN.subset hx); have := hle1.1; omega
                · intro a ha
                  have := hle1.1
                  simp only [List.mem_cons] at ha
                  rcases ha with rfl | rfl | ha
                  · right; omega
                  · right; omega
                  · left; simp [hsublN.subset ha]
              · have hd : decide (cnt ≤ maxBitmapIndexedSize) = false := by simpa using hsmall
                simp only [hd, Bool.false_eq_true, if_false, pure, Except.pure] at hv
                simp only [hd, Bool.false_eq_true, if_false]
                injection hv with hv; injection hv with h1' h2'; subst h1'; subst h2'
                rw [bind_ok (alloc_apply _ _)]
                exact ⟨_, _, rfl, hashArray_finish_copy_none hc hs hk hnd hle1 (cnt - 1)⟩
          | some nn =>
            cases c' with
            | none => exact absurd hres1 (by simp)
            | some cp =>
              obtain ⟨fpn, hc', hndn, hsub⟩ := hres1
              simp only [Option.isNone_some, Bool.false_and, Bool.false_eq_true, if_false, pure, Except.pure] at hv
              simp only [Option.isNone_some, Bool.false_and, Bool.false_eq_true, if_false]
              injection hv with hv; injection hv with h1' h2'; subst h1'; subst h2'
              rw [bind_ok (alloc_apply _ _)]
              refine ⟨_, _, rfl, ?_⟩
              obtain ⟨fp', ha1, ha2, ha3, ha4⟩ :=
                hashArray_finish_copy hc hs hk hnd hri hc' hndn (Eff.of_le hle1 []) hsub cnt
              exact DRes.fresh ha3.to_le ha1 ha2 ha4
        · have hr1' : r1 = false := by cases r1 <;> simp_all
          subst hr1'
          simp only [Bool.not_false, if_true, pure, Except.pure] at hv
          simp only [Bool.not_false, if_true]
          injection hv with hv; injection hv with h1' h2'; subst h1'; subst h2'
          exact ⟨some p, H1, rfl, DRes.same habs0 hnd hle1⟩

/-- **Simulation of `delete`** on the copying path, all node kinds -/
theorem delSim (h : Hasher K) : ∀ F, DelSim h V F := by
  intro F
  induction F with
  | zero => intro p s H n fp k kh r n' r' habs; cases habs
  | succ F ih =>
    intro p s H n fp k kh r n' r' habs hnd hfuel hv
    cases hc : H[p]? with
    | none => simp [absF, hc] at habs
    | some c =>
      cases c with
      | hamt sz rt => simp [absF, hc] at habs
      | arr sl => simp [absF, hc] at habs
      | value nkh nk nv =>
        rw [absF_value hc] at habs; cases habs
        exact delSim_value h hc k kh r n' r' hv
      | array sl =>
        rw [absF_array hc] at habs
        split at habs
        · rename_i hs0
          subst hs0
          simp only [Option.map_eq_some_iff] at habs
          obtain ⟨es, hview, he⟩ := habs; cases he
          have hne : p ≠ sl.arr := by
            intro h'; rw [List.nodup_cons] at hnd; exact hnd.1 (by simp [h'])
          exact delSim_array h hc hview hne k kh r n' r' hv
        · cases habs
      | collision nkh sl =>
        rw [absF_collision hc] at habs
        simp only [Option.map_eq_some_iff] at habs
        obtain ⟨es, hview, he⟩ := habs; cases he
        have hne : p ≠ sl.arr := by
          intro h'; rw [List.nodup_cons] at hnd; exact hnd.1 (by simp [h'])
        exact delSim_collision h hc hview hne k kh r n' r' hv
      | bitmap bm sl =>
        have hs := absF_bitmap_lt hc habs
        rw [absF_bitmap hc hs] at habs
        simp only [Option.bind_eq_some_iff, Option.map_eq_some_iff] at habs
        obtain ⟨ps, hview, rs, hk, he⟩ := habs; cases he
        exact delSim_bitmap h ih hc hs hview hk hnd k kh r n' r' hfuel hv
      | hashArray cnt slots =>
        have hs := absF_hashArray_lt hc habs
        rw [absF_hashArray hc hs] at habs
        simp only [Option.map_eq_some_iff] at habs
        obtain ⟨rs, hk, he⟩ := habs; cases he
        exact delSim_hashArray h ih hc hs hk hnd k kh r n' r' hfuel hv

/-- **Simulation of `(*hamt).delete(key, false)`**: the same header when nothing was removed, a new
    header otherwise -/
theorem hamtDelete_sim (h : Hasher K) {H : Heap K V} {m : Addr} {a : Hamt K V} {fp : List Addr}
    (habs : absHamt H m = some (a, fp)) (hnd : fp.Nodup) (k : K) {a' : Hamt K V}
    (hv : a.delete h k false = .ok a') :
    ∃ m' H', hamtDelete h m k false H = .ok (m', H') ∧ HSimRes false H fp H' m' a' := by
  unfold hamtDelete
  rcases absHamt_cell habs with ⟨sz, hc, rfl, rfl⟩ | ⟨sz, r, n, fpr, hc, habsr, rfl, rfl⟩
  · rw [bind_ok (load_apply hc)]
    unfold Hamt.delete at hv
    simp only [pure, Except.pure] at hv
    injection hv with hv; subst hv
    exact ⟨m, H, rfl, [m], habs, hnd, Eff.refl _ _, fun x hx => Or.inl hx⟩
  · have hm := lt_size_of_get hc
    rw [bind_ok (load_apply hc)]
    dsimp only
    unfold Hamt.delete at hv
    dsimp only at hv
    cases hdel : n.delete h k 0 (h.hash k) false false with
    | error e => rw [hdel] at hv; cases hv
    | ok res =>
      obtain ⟨n1, r1⟩ := res
      rw [hdel] at hv
      simp only [bind, Except.bind] at hv
      obtain ⟨hmr, hndr⟩ := List.nodup_cons.mp hnd
      obtain ⟨p1, H1, h1, hle1, hres1⟩ :=
        delSim h trieFuel r 0 H n fpr k (h.hash k) false n1 r1 habsr hndr (by simp [trieFuel]) hdel
      rw [bind_ok h1]
      dsimp only
      cases r1 with
      | false =>
        simp only [Bool.not_false, if_true, pure, Except.pure] at hv
        simp only [Bool.not_false, if_true]
        injection hv with hv; subst hv
        exact ⟨m, H1, rfl, m :: fpr, absHamt_le habs hle1, hnd, Eff.of_le hle1 _, fun x hx => Or.inl hx⟩
      | true =>
        simp only [Bool.not_true, Bool.false_eq_true, if_false, pure, Except.pure] at hv
        simp only [Bool.not_true, Bool.false_eq_true, if_false]
        injection hv with hv; subst hv
        rw [alloc_apply]
        refine ⟨_, _, rfl, ?_⟩
        have hc3 : (H1.push (.hamt (sz - 1) p1))[H1.size]? = some (.hamt (sz - 1) p1) := get_push_size _ _
        cases n1 with
        | none =>
          cases p1 with
          | some _ => exact absurd hres1 (by simp)
          | none =>
            refine ⟨[H1.size], absHamt_nil hc3, by simp, Eff.of_le (Heap.le_trans hle1 (Heap.le_push _ _)) _, ?_⟩
            intro x hx; simp at hx; right; have := hle1.1; omega
        | some nn =>
          cases p1 with
          | none => exact absurd hres1 (by simp)
          | some pp =>
            obtain ⟨fp1, habs1, hnd1, hsub1⟩ := hres1
            refine ⟨H1.size :: fp1, ?_, nodup_fresh1 hnd1 (fun x hx => absF_lt habs1 hx),
              Eff.of_le (Heap.le_trans hle1 (Heap.le_push _ _)) _, ?_⟩
            · rw [absHamt_root hc3, absF_le habs1 (Heap.le_push _ _)]; rfl
            · intro x hx
              simp only [List.mem_cons] at hx
              rcases hx with rfl | hx
              · right; exact hle1.1
              · rcases hsub1 x hx with h' | h'
                · left; simp [h']
                · right; exact h'

theorem HSimRes.trans {H H1 H2 : Heap K V} {fp fp1 : List Addr} {m1 m2 : Addr} {a1 a2 : Hamt K V}
    (h1 : ∃ fp1', absHamt H1 m1 = some (a1, fp1') ∧ fp1'.Nodup ∧ Eff H H1 [] ∧ (∀ x ∈ fp1', x ∈ fp ∨ H.size ≤ x) ∧ fp1' = fp1)
    (h2 : HSimRes false H1 fp1 H2 m2 a2) : HSimRes false H fp H2 m2 a2 := by
  obtain ⟨_, _, _, he1, hs1, rfl⟩ := h1
  obtain ⟨fp2, hab2, hnd2, he2, hs2⟩ := h2
  refine ⟨fp2, hab2, hnd2, Eff.trans he1 he2, ?_⟩
  intro x hx
  rcases hs2 x hx with h' | h'
  · exact hs1 x h'
  · right; have := he1.1; omega

/-- **Simulation of `(*hamt).Removed(key...)`** -/
theorem hamtRemoved_sim (h : Hasher K) : ∀ (ks : List K) {H : Heap K V} {m : Addr} {a : Hamt K V} {fp : List Addr},
    absHamt H m = some (a, fp) → fp.Nodup → ∀ {a' : Hamt K V}, a.removed h ks = .ok a' →
    ∃ m' H', hamtRemoved h m ks H = .ok (m', H') ∧ HSimRes false H fp H' m' a' := by
  intro ks
  induction ks with
  | nil =>
    intro H m a fp habs hnd a' hv
    simp only [Hamt.removed, List.foldlM_nil, pure, Except.pure] at hv
    injection hv with hv; subst hv
    exact ⟨m, H, rfl, fp, habs, hnd, Eff.refl _ _, fun x hx => Or.inl hx⟩
  | cons k ks ih =>
    intro H m a fp habs hnd a' hv
    unfold Hamt.removed at hv
    rw [List.foldlM_cons] at hv
    cases hd : a.delete h k false with
    | error e => rw [hd] at hv; cases hv
    | ok a1 =>
      rw [hd] at hv
      simp only [bind, Except.bind] at hv
      obtain ⟨m1, H1, h1, fp1, habs1, hnd1, heff1, hsub1⟩ := hamtDelete_sim h habs hnd k hd
      obtain ⟨m2, H2, h2, hres2⟩ := ih habs1 hnd1 (a' := a') hv
      refine ⟨m2, H2, ?_, HSimRes.trans ⟨fp1, habs1, hnd1, heff1, hsub1, rfl⟩ hres2⟩
      unfold hamtRemoved
      rw [List.foldlM_cons, bind_ok h1]
      exact h2

end FpVerif.HamtHeap
