import FpVerif.Lemmas.CollListDenMemo
/-!
# Lazy list over `El`: the heap typing (port of `Lemmas/ListTy.lean`, `Lemmas/ListTyHeap.lean`)

Same ghost typing as for C12 (`Sty`, `VDen`, `Cons`, `Ext`, `Quiet`, `Post`, `Spec`), for the heap
of `Model/CollList.lean`.  The thunk kinds are `map`, `flatMap`, `combine`; the `FlatMap`
continuation `KL` is typed SEMANTICALLY: `KOK S k kd Bi y` — applied to the element `y` the
continuation `k` returns a list value denoting `kd y` with fuel bound `Bi`.  For `apInner a` /
`map2Inner b g` this mentions the typing of the captured list `a` / `b` (stable under `Ext`).
-/
namespace FpVerif.Coll
open FpVerif.It IM
open FpVerif.LL (push_get_lt set_get_same set_get_other push_cases set_cases size_set! get_lt)

/-! ## pure versions of the callbacks -/

/-- the function a function value computes (its events dropped) -/
def fnP (f : Fn) (x : El) : El := pureG (f.app x)

/-- applying the function value never panics -/
def Fn.Tot (f : Fn) : Prop := ∀ x lg, ∃ lg', (f.app x).run.run lg = (.ok (fnP f x), lg')

/-- the user continuation of a `FlatMap` never panics -/
def KTot (k : Kl) : Prop := ∀ x lg, ∃ lg', (k x).run.run lg = (.ok (pureG (k x)), lg')

def G2Tot (g : Val → Val → GoM Val) : Prop := ∀ x y lg, ∃ lg', (g x y).run.run lg = (.ok (pureG (g x y)), lg')

def G3Tot (h : Val → Val → Val → GoM Val) : Prop :=
  ∀ x y z lg, ∃ lg', (h x y z).run.run lg = (.ok (pureG (h x y z)), lg')

theorem pureG_of_run {X : Type} [Inhabited X] {m : GoM X} {v : X} {lg : Log} (h : m.run.run [] = (.ok v, lg)) :
    pureG m = v := by
  simp only [pureG, h]

/-! ## typing -/

def tailTy (d : List El) : Option (List El) := if d.isEmpty then none else some d.tail

structure HTy where
  o : Option El
  need : Nat

structure TTy where
  d : Option (List El)
  need : Nat
  K : Nat

structure LTy where
  xs : List El
  need : Nat
  K : Nat

/-- heap typing -/
structure Sty where
  nh : Nat
  nt : Nat
  nl : Nat
  hs : Nat → HTy
  ts : Nat → TTy
  ls : Nat → LTy

def Sty.empty : Sty := ⟨0, 0, 0, fun _ => ⟨none, 0⟩, fun _ => ⟨none, 0, 0⟩, fun _ => ⟨[], 0, 0⟩⟩

def Sty.pushHT (S : Sty) (h : HTy) (t : TTy) : Sty :=
  { S with nh := S.nh + 1, nt := S.nt + 1,
           hs := fun c => if c = S.nh then h else S.hs c,
           ts := fun c => if c = S.nt then t else S.ts c }

def Sty.pushL (S : Sty) (l : LTy) : Sty :=
  { S with nl := S.nl + 1, ls := fun c => if c = S.nl then l else S.ls c }

structure Ext (S S' : Sty) : Prop where
  nh : S.nh ≤ S'.nh
  nt : S.nt ≤ S'.nt
  nl : S.nl ≤ S'.nl
  hs : ∀ c, c < S.nh → S'.hs c = S.hs c
  ts : ∀ c, c < S.nt → S'.ts c = S.ts c
  ls : ∀ c, c < S.nl → S'.ls c = S.ls c

theorem Ext.refl (S : Sty) : Ext S S := ⟨Nat.le_refl _, Nat.le_refl _, Nat.le_refl _, fun _ _ => rfl, fun _ _ => rfl, fun _ _ => rfl⟩

theorem Ext.trans {S1 S2 S3 : Sty} (a : Ext S1 S2) (b : Ext S2 S3) : Ext S1 S3 :=
  ⟨Nat.le_trans a.nh b.nh, Nat.le_trans a.nt b.nt, Nat.le_trans a.nl b.nl,
   fun c h => by rw [b.hs c (Nat.lt_of_lt_of_le h a.nh), a.hs c h],
   fun c h => by rw [b.ts c (Nat.lt_of_lt_of_le h a.nt), a.ts c h],
   fun c h => by rw [b.ls c (Nat.lt_of_lt_of_le h a.nl), a.ls c h]⟩

theorem Ext.pushHT (S : Sty) (h : HTy) (t : TTy) : Ext S (S.pushHT h t) :=
  ⟨Nat.le_succ _, Nat.le_succ _, Nat.le_refl _,
   fun c hc => by simp only [Sty.pushHT]; rw [if_neg (by omega)],
   fun c hc => by simp only [Sty.pushHT]; rw [if_neg (by omega)],
   fun _ _ => rfl⟩

theorem Ext.pushL (S : Sty) (l : LTy) : Ext S (S.pushL l) :=
  ⟨Nat.le_refl _, Nat.le_refl _, Nat.le_succ _, fun _ _ => rfl, fun _ _ => rfl,
   fun c hc => by simp only [Sty.pushL]; rw [if_neg (by omega)]⟩

/-- under `S` the list value `l` denotes `d`; every interface operation on it and on its tails
    needs at most fuel `K` -/
def VDen (S : Sty) : LV → List El → Nat → Prop
  | .nil, d, K => d = [] ∧ 1 ≤ K
  | .seq xs, d, K => d = xs ∧ 1 ≤ K
  | .adaptor hc tc, d, K =>
    hc < S.nh ∧ (S.hs hc).o = d.head? ∧ (S.hs hc).need < K ∧
    (d.isEmpty = false →
      tc < S.nt ∧ (S.ts tc).d = some d.tail ∧ (S.ts tc).need < K ∧ (S.ts tc).K ≤ K)

theorem VDen.pos {S : Sty} {l : LV} {d : List El} {K : Nat} (h : VDen S l d K) : 1 ≤ K := by
  cases l with
  | nil => exact h.2
  | seq xs => exact h.2
  | adaptor hc tc => have := h.2.2.1; omega

theorem VDen.mono {S S' : Sty} (hE : Ext S S') {l : LV} {d : List El} {K K' : Nat}
    (h : VDen S l d K) (hk : K ≤ K') : VDen S' l d K' := by
  cases l with
  | nil => exact ⟨h.1, Nat.le_trans h.2 hk⟩
  | seq xs => exact ⟨h.1, Nat.le_trans h.2 hk⟩
  | adaptor hc tc =>
    obtain ⟨h1, h2, h3, h4⟩ := h
    refine ⟨Nat.lt_of_lt_of_le h1 hE.nh, by rw [hE.hs hc h1]; exact h2, by rw [hE.hs hc h1]; omega, ?_⟩
    intro hne
    obtain ⟨t1, t2, t3, t4⟩ := h4 hne
    refine ⟨Nat.lt_of_lt_of_le t1 hE.nt, by rw [hE.ts tc t1]; exact t2, by rw [hE.ts tc t1]; omega,
      by rw [hE.ts tc t1]; omega⟩

theorem VDen.monoK {S : Sty} {l : LV} {d : List El} {K K' : Nat} (h : VDen S l d K) (hk : K ≤ K') :
    VDen S l d K' := VDen.mono (Ext.refl S) h hk

/-- typed values stay typed when the typing grows -/
theorem VDen.ext {S S' : Sty} {l : LV} {d : List El} {K : Nat} (h : VDen S l d K) (hE : Ext S S') :
    VDen S' l d K := VDen.mono hE h (Nat.le_refl _)

/-- fuel bound of the `FlatMap` list over a source with bound `Ks` and `n` remaining elements,
    inner lists bounded by `Bi` -/
def FMB (Ks Bi n : Nat) : Nat := Ks + Bi + 4 * n + 4

/-- the continuation `k`, applied to the element `y`, returns a value denoting `kd y`, bound `Bi` -/
def KOK (S : Sty) (k : KL) (kd : El → List El) (Bi : Nat) (y : El) : Prop :=
  match k with
  | .user f => (∀ lg, ∃ lg', (f y.val).run.run lg = (.ok (kd y), lg')) ∧ 1 ≤ Bi
  | .ident => (∃ tag xs, y = .coll tag xs ∧ kd y = xs) ∧ 1 ≤ Bi
  | .apInner a => ∃ xs Ka f, VDen S a xs Ka ∧ y = .fn f ∧ f.Tot ∧ kd y = xs.map (fnP f) ∧ Ka + 4 ≤ Bi
  | .map2Inner b g => ∃ xs Kb, VDen S b xs Kb ∧ (Fn.c2a g y.val).Tot ∧
      kd y = xs.map (fnP (.c2a g y.val)) ∧ Kb + 4 ≤ Bi

theorem KOK.mono {S S' : Sty} (hE : Ext S S') {k : KL} {kd : El → List El} {Bi : Nat} {y : El}
    (h : KOK S k kd Bi y) : KOK S' k kd Bi y := by
  cases k with
  | user f => exact h
  | ident => exact h
  | apInner a => obtain ⟨xs, Ka, f, h1, h2⟩ := h; exact ⟨xs, Ka, f, h1.ext hE, h2⟩
  | map2Inner b g => obtain ⟨xs, Kb, h1, h2⟩ := h; exact ⟨xs, Kb, h1.ext hE, h2⟩

theorem KOK.pos {S : Sty} {k : KL} {kd : El → List El} {Bi : Nat} {y : El} (h : KOK S k kd Bi y) : 1 ≤ Bi := by
  cases k with
  | user f => exact h.2
  | ident => exact h.2
  | apInner a => obtain ⟨xs, Ka, f, h1, _, _, _, h5⟩ := h; omega
  | map2Inner b g => obtain ⟨xs, Kb, h1, _, _, h5⟩ := h; omega

/-! ## typing of closures -/

/-- the captured variables of a `FlatMap` closure -/
structure FMOK (S : Sty) (lz : Nat) (tl : LV) (k : KL) (kd : El → List El) (y : El) (ys : List El)
    (Ks Bi : Nat) : Prop where
  hlz : lz < S.nl
  hxs : (S.ls lz).xs = kd y
  hneed : (S.ls lz).need ≤ Ks + Bi + 1
  hK : (S.ls lz).K ≤ Bi
  htl : VDen S tl ys Ks
  hk : ∀ y', y' ∈ ys → KOK S k kd Bi y'
  hBi : 1 ≤ Bi

def HThunkOK (S : Sty) : HThunk → HTy → Prop
  | .map opt fn, ty => ∃ xs K, VDen S opt xs K ∧ fn.Tot ∧
      ty.o = (xs.head?).map (fnP fn) ∧ K + 3 ≤ ty.need
  | .flatMap lz tl k, ty => ∃ kd y ys Ks Bi, FMOK S lz tl k kd y ys Ks Bi ∧
      ty.o = (kd y ++ ys.flatMap kd).head? ∧ FMB Ks Bi ys.length + 3 ≤ ty.need
  | .combine l1, ty => ∃ x xs K, VDen S l1 (x :: xs) K ∧ ty.o = some x ∧ K + 2 ≤ ty.need

def TThunkOK (S : Sty) : TThunk → List El → Nat → Nat → Prop
  | .map opt fn, d, need, K => ∃ x xs Ko, VDen S opt (x :: xs) Ko ∧ fn.Tot ∧
      d = xs.map (fnP fn) ∧ Ko + 2 ≤ need ∧ Ko + 4 ≤ K
  | .flatMap lz tl k, d, need, K => ∃ kd y ys Ks Bi, FMOK S lz tl k kd y ys Ks Bi ∧
      (kd y ++ ys.flatMap kd) ≠ [] ∧ d = (kd y ++ ys.flatMap kd).tail ∧
      FMB Ks Bi ys.length + 2 ≤ need ∧ FMB Ks Bi ys.length ≤ K
  | .combine l1 l2, d, need, K => ∃ x xs ys K1 K2, VDen S l1 (x :: xs) K1 ∧
      VDen S l2 ys K2 ∧ d = xs ++ ys ∧ K1 + 3 ≤ need ∧ max (K1 + 4) K2 ≤ K

def LThunkOK (S : Sty) (opt : LV) (k : KL) (ty : LTy) : Prop :=
  ∃ kd y ys Ks, VDen S opt (y :: ys) Ks ∧ ty.xs = kd y ∧ Ks + 1 ≤ ty.need ∧ KOK S k kd ty.K y

theorem FMOK.mono {S S' : Sty} (hE : Ext S S') {lz tl k kd y ys Ks Bi} (h : FMOK S lz tl k kd y ys Ks Bi) :
    FMOK S' lz tl k kd y ys Ks Bi :=
  ⟨Nat.lt_of_lt_of_le h.hlz hE.nl, by rw [hE.ls _ h.hlz]; exact h.hxs, by rw [hE.ls _ h.hlz]; exact h.hneed,
   by rw [hE.ls _ h.hlz]; exact h.hK, h.htl.ext hE, fun y' hy' => (h.hk y' hy').mono hE, h.hBi⟩

theorem HThunkOK.mono {S S' : Sty} (hE : Ext S S') : ∀ {t : HThunk} {ty : HTy}, HThunkOK S t ty → HThunkOK S' t ty := by
  intro t ty h
  cases t with
  | map opt fn => obtain ⟨xs, K, h1, h2⟩ := h; exact ⟨xs, K, h1.ext hE, h2⟩
  | flatMap lz tl k => obtain ⟨kd, y, ys, Ks, Bi, h1, h2⟩ := h; exact ⟨kd, y, ys, Ks, Bi, h1.mono hE, h2⟩
  | combine l1 => obtain ⟨x, xs, K, h1, h2⟩ := h; exact ⟨x, xs, K, h1.ext hE, h2⟩

theorem TThunkOK.mono {S S' : Sty} (hE : Ext S S') : ∀ {t : TThunk} {d : List El} {need K : Nat},
    TThunkOK S t d need K → TThunkOK S' t d need K := by
  intro t d need K h
  cases t with
  | map opt fn => obtain ⟨x, xs, Ko, h1, h2⟩ := h; exact ⟨x, xs, Ko, h1.ext hE, h2⟩
  | flatMap lz tl k => obtain ⟨kd, y, ys, Ks, Bi, h1, h2⟩ := h; exact ⟨kd, y, ys, Ks, Bi, h1.mono hE, h2⟩
  | combine l1 l2 => obtain ⟨x, xs, ys, K1, K2, h1, h2, h3⟩ := h; exact ⟨x, xs, ys, K1, K2, h1.ext hE, h2.ext hE, h3⟩

theorem LThunkOK.mono {S S' : Sty} (hE : Ext S S') {opt k ty} (h : LThunkOK S opt k ty) : LThunkOK S' opt k ty := by
  obtain ⟨kd, y, ys, Ks, h1, h2, h3, h4⟩ := h
  exact ⟨kd, y, ys, Ks, h1.ext hE, h2, h3, h4.mono hE⟩

/-! ## typing of the heap -/

def HCellOK (S : Sty) (ty : HTy) : Cell HThunk (Option El) → Prop
  | .pending t => HThunkOK S t ty
  | .running => True
  | .done v => v = ty.o

def TCellOK (S : Sty) (ty : TTy) : Cell TThunk LV → Prop
  | .pending t => ∀ d, ty.d = some d → TThunkOK S t d ty.need ty.K
  | .running => True
  | .done v => ∀ d, ty.d = some d → VDen S v d ty.K

def LCellOK (S : Sty) (ty : LTy) : Cell (LV × KL) LV → Prop
  | .pending (opt, k) => LThunkOK S opt k ty
  | .running => True
  | .done v => VDen S v ty.xs ty.K

theorem HCellOK.mono {S S' : Sty} (hE : Ext S S') {ty : HTy} {c : Cell HThunk (Option El)}
    (h : HCellOK S ty c) : HCellOK S' ty c := by
  cases c with
  | pending t => exact HThunkOK.mono hE h
  | running => trivial
  | done v => exact h

theorem TCellOK.mono {S S' : Sty} (hE : Ext S S') {ty : TTy} {c : Cell TThunk LV}
    (h : TCellOK S ty c) : TCellOK S' ty c := by
  cases c with
  | pending t => exact fun d hd => TThunkOK.mono hE (h d hd)
  | running => trivial
  | done v => exact fun d hd => (h d hd).ext hE

theorem LCellOK.mono {S S' : Sty} (hE : Ext S S') {ty : LTy} {c : Cell (LV × KL) LV}
    (h : LCellOK S ty c) : LCellOK S' ty c := by
  cases c with
  | pending t => exact LThunkOK.mono hE h
  | running => trivial
  | done v => exact VDen.ext h hE

structure Cons (S : Sty) (hp : Heap) : Prop where
  nh : S.nh = hp.hs.size
  nt : S.nt = hp.ts.size
  nl : S.nl = hp.ls.size
  hs : ∀ (c : Nat) cell n, hp.hs[c]? = some (cell, n) → 2 ≤ (S.hs c).need ∧ HCellOK S (S.hs c) cell
  ts : ∀ (c : Nat) cell n, hp.ts[c]? = some (cell, n) → 2 ≤ (S.ts c).need ∧ TCellOK S (S.ts c) cell
  ls : ∀ (c : Nat) cell n, hp.ls[c]? = some (cell, n) → 2 ≤ (S.ls c).need ∧ LCellOK S (S.ls c) cell

theorem Cons.empty : Cons Sty.empty {} :=
  ⟨rfl, rfl, rfl, by simp, by simp, by simp⟩

/-- cells that are running in `hp'` were running in `hp` -/
structure RunSub (hp' hp : Heap) : Prop where
  hs : ∀ (c : Nat) n, hp'.hs[c]? = some (.running, n) → ∃ n', hp.hs[c]? = some (.running, n')
  ts : ∀ (c : Nat) n, hp'.ts[c]? = some (.running, n) → ∃ n', hp.ts[c]? = some (.running, n')
  ls : ∀ (c : Nat) n, hp'.ls[c]? = some (.running, n) → ∃ n', hp.ls[c]? = some (.running, n')

theorem RunSub.refl (hp : Heap) : RunSub hp hp := ⟨fun _ n h => ⟨n, h⟩, fun _ n h => ⟨n, h⟩, fun _ n h => ⟨n, h⟩⟩

theorem RunSub.trans {a b c : Heap} (h1 : RunSub a b) (h2 : RunSub b c) : RunSub a c :=
  ⟨fun i n h => by obtain ⟨n', h'⟩ := h1.hs i n h; exact h2.hs i n' h',
   fun i n h => by obtain ⟨n', h'⟩ := h1.ts i n h; exact h2.ts i n' h',
   fun i n h => by obtain ⟨n', h'⟩ := h1.ls i n h; exact h2.ls i n' h'⟩

/-- all running cells have `need ≥ K` -/
structure Quiet (K : Nat) (S : Sty) (hp : Heap) : Prop where
  hs : ∀ (c : Nat) n, hp.hs[c]? = some (.running, n) → K ≤ (S.hs c).need
  ts : ∀ (c : Nat) n, hp.ts[c]? = some (.running, n) → K ≤ (S.ts c).need
  ls : ∀ (c : Nat) n, hp.ls[c]? = some (.running, n) → K ≤ (S.ls c).need

theorem Quiet.mono {K K' : Nat} {S : Sty} {hp : Heap} (h : Quiet K S hp) (hk : K' ≤ K) : Quiet K' S hp :=
  ⟨fun c n hc => Nat.le_trans hk (h.hs c n hc), fun c n hc => Nat.le_trans hk (h.ts c n hc),
   fun c n hc => Nat.le_trans hk (h.ls c n hc)⟩

/-- the outcome of an operation: typing extended, heap consistent, no new running cells -/
structure Post (S : Sty) (hp : Heap) (S' : Sty) (hp' : Heap) : Prop where
  cons : Cons S' hp'
  ext : Ext S S'
  run : RunSub hp' hp

theorem Post.refl {S : Sty} {hp : Heap} (h : Cons S hp) : Post S hp S hp :=
  ⟨h, Ext.refl S, RunSub.refl hp⟩

theorem Post.trans {S1 S2 S3 : Sty} {h1 h2 h3 : Heap} (a : Post S1 h1 S2 h2) (b : Post S2 h2 S3 h3) :
    Post S1 h1 S3 h3 := ⟨b.cons, a.ext.trans b.ext, b.run.trans a.run⟩

theorem Quiet.post {K : Nat} {S S' : Sty} {hp hp' : Heap} (h : Quiet K S hp) (hC : Cons S hp)
    (hP : Post S hp S' hp') : Quiet K S' hp' := by
  refine ⟨fun c n hc => ?_, fun c n hc => ?_, fun c n hc => ?_⟩
  · obtain ⟨n', h'⟩ := hP.run.hs c n hc
    have hlt : c < S.nh := by rw [hC.nh]; exact (Array.getElem?_eq_some_iff.mp h').1
    rw [hP.ext.hs c hlt]; exact h.hs c n' h'
  · obtain ⟨n', h'⟩ := hP.run.ts c n hc
    have hlt : c < S.nt := by rw [hC.nt]; exact (Array.getElem?_eq_some_iff.mp h').1
    rw [hP.ext.ts c hlt]; exact h.ts c n' h'
  · obtain ⟨n', h'⟩ := hP.run.ls c n hc
    have hlt : c < S.nl := by rw [hC.nl]; exact (Array.getElem?_eq_some_iff.mp h').1
    rw [hP.ext.ls c hlt]; exact h.ls c n' h'

/-- Hoare-style statement: from a heap consistent with `S`, `m` returns normally with `Q` -/
def Spec {X : Type} (m : HM X) (S : Sty) (hp : Heap) (Q : Sty → X → Prop) : Prop :=
  ∀ lg, ∃ v S' hp' lg', m hp lg = (.ok v, hp', lg') ∧ Post S hp S' hp' ∧ Q S' v

theorem Spec.pure {X : Type} {S : Sty} {hp : Heap} {Q : Sty → X → Prop} (hC : Cons S hp) (x : X) (h : Q S x) :
    Spec (pure x : HM X) S hp Q := fun lg => ⟨x, S, hp, lg, rfl, Post.refl hC, h⟩

theorem Spec.bind {X Y : Type} {m : HM X} {f : X → HM Y} {S : Sty} {hp : Heap} {Q : Sty → X → Prop}
    {Q' : Sty → Y → Prop} (hm : Spec m S hp Q)
    (hf : ∀ v S1 hp1, Post S hp S1 hp1 → Q S1 v → Spec (f v) S1 hp1 Q') : Spec (m >>= f) S hp Q' := by
  intro lg
  obtain ⟨v, S1, hp1, lg1, e1, hP1, hQ1⟩ := hm lg
  obtain ⟨w, S2, hp2, lg2, e2, hP2, hQ2⟩ := hf v S1 hp1 hP1 hQ1 lg1
  exact ⟨w, S2, hp2, lg2, by rw [bind_ok e1, e2], hP1.trans hP2, hQ2⟩

theorem Spec.weaken {X : Type} {m : HM X} {S : Sty} {hp : Heap} {Q Q' : Sty → X → Prop} (hm : Spec m S hp Q)
    (h : ∀ S' v, Ext S S' → Q S' v → Q' S' v) : Spec m S hp Q' := by
  intro lg
  obtain ⟨v, S1, hp1, lg1, e1, hP1, hQ1⟩ := hm lg
  exact ⟨v, S1, hp1, lg1, e1, hP1, h S1 v hP1.ext hQ1⟩

theorem Spec.liftG {X : Type} {S : Sty} {hp : Heap} {Q : Sty → X → Prop} (hC : Cons S hp) {g : GoM X} {x : X}
    (hg : ∀ lg, ∃ lg', g.run.run lg = (.ok x, lg')) (h : Q S x) : Spec (IM.liftG g : HM X) S hp Q := by
  intro lg
  obtain ⟨lg', e⟩ := hg lg
  exact ⟨x, S, hp, lg', by simp [IM.liftG, e], Post.refl hC, h⟩

/-! ## pushing cells -/

theorem Cons.pushHT {S : Sty} {hp : Heap} (hC : Cons S hp) {h : HThunk} {t : TThunk} {hty : HTy} {tty : TTy}
    (hh : HThunkOK S h hty) (h2 : 2 ≤ hty.need)
    (ht : ∀ d, tty.d = some d → TThunkOK S t d tty.need tty.K) (t2 : 2 ≤ tty.need) :
    Cons (S.pushHT hty tty)
      { hp with hs := hp.hs.push (.pending h, 0), ts := hp.ts.push (.pending t, 0) } := by
  have hE := Ext.pushHT S hty tty
  refine ⟨by simp [Sty.pushHT, hC.nh], by simp [Sty.pushHT, hC.nt], hC.nl, ?_, ?_, ?_⟩
  · intro c cell n hc
    rcases push_cases hc with ⟨hlt, hc⟩ | ⟨he, hx⟩
    · rw [hE.hs c (by rw [hC.nh]; exact hlt)]
      exact ⟨(hC.hs c cell n hc).1, (hC.hs c cell n hc).2.mono hE⟩
    · cases hx
      have : (S.pushHT hty tty).hs c = hty := by simp [Sty.pushHT, he, hC.nh]
      rw [this]
      exact ⟨h2, HThunkOK.mono hE hh⟩
  · intro c cell n hc
    rcases push_cases hc with ⟨hlt, hc⟩ | ⟨he, hx⟩
    · rw [hE.ts c (by rw [hC.nt]; exact hlt)]
      exact ⟨(hC.ts c cell n hc).1, (hC.ts c cell n hc).2.mono hE⟩
    · cases hx
      have : (S.pushHT hty tty).ts c = tty := by simp [Sty.pushHT, he, hC.nt]
      rw [this]
      exact ⟨t2, fun d hd => TThunkOK.mono hE (ht d hd)⟩
  · intro c cell n hc
    exact ⟨(hC.ls c cell n hc).1, (hC.ls c cell n hc).2.mono hE⟩

theorem RunSub.pushHT (hp : Heap) (h : HThunk) (t : TThunk) :
    RunSub { hp with hs := hp.hs.push (.pending h, 0), ts := hp.ts.push (.pending t, 0) } hp := by
  refine ⟨fun c n hc => ?_, fun c n hc => ?_, fun c n hc => ⟨n, hc⟩⟩
  · rcases push_cases hc with ⟨_, hc⟩ | ⟨_, hx⟩
    · exact ⟨n, hc⟩
    · cases hx
  · rcases push_cases hc with ⟨_, hc⟩ | ⟨_, hx⟩
    · exact ⟨n, hc⟩
    · cases hx

/-- `fp.MakeList(head, tail)` with closures that are well-typed for `hty`, `tty` -/
theorem spec_makeList {S : Sty} {hp : Heap} (hC : Cons S hp) {h : HThunk} {t : TThunk} {hty : HTy} {tty : TTy}
    (hh : HThunkOK S h hty) (h2 : 2 ≤ hty.need)
    (ht : ∀ d, tty.d = some d → TThunkOK S t d tty.need tty.K) (t2 : 2 ≤ tty.need) :
    Spec (makeList h t) S hp (fun S' v => v = .adaptor S.nh S.nt ∧ S' = S.pushHT hty tty) := by
  intro lg
  refine ⟨.adaptor hp.hs.size hp.ts.size, S.pushHT hty tty, _, lg, rfl,
    ⟨hC.pushHT hh h2 ht t2, Ext.pushHT S hty tty, RunSub.pushHT hp h t⟩, ?_, rfl⟩
  rw [hC.nh, hC.nt]

/-- the fresh adaptor denotes `d` -/
theorem VDen.fresh (S : Sty) (d : List El) (K : Nat) (hty : HTy) (tty : TTy) (ho : hty.o = d.head?)
    (hn : hty.need < K) (htd : tty.d = tailTy d) (htn : tty.need < K) (htK : tty.K ≤ K) :
    VDen (S.pushHT hty tty) (.adaptor S.nh S.nt) d K := by
  refine ⟨by simp [Sty.pushHT], by simp [Sty.pushHT, ho], by simp [Sty.pushHT, hn], fun hne => ?_⟩
  refine ⟨by simp [Sty.pushHT], ?_, by simp [Sty.pushHT, htn], by simp [Sty.pushHT, htK]⟩
  simp [Sty.pushHT, htd, tailTy, hne]

theorem Cons.pushL {S : Sty} {hp : Heap} (hC : Cons S hp) {opt : LV} {k : KL} {lty : LTy}
    (hl : LThunkOK S opt k lty) (l2 : 2 ≤ lty.need) :
    Cons (S.pushL lty) { hp with ls := hp.ls.push (.pending (opt, k), 0) } := by
  have hE := Ext.pushL S lty
  refine ⟨hC.nh, hC.nt, by simp [Sty.pushL, hC.nl], ?_, ?_, ?_⟩
  · intro c cell n hc
    exact ⟨(hC.hs c cell n hc).1, (hC.hs c cell n hc).2.mono hE⟩
  · intro c cell n hc
    exact ⟨(hC.ts c cell n hc).1, (hC.ts c cell n hc).2.mono hE⟩
  · intro c cell n hc
    rcases push_cases hc with ⟨hlt, hc⟩ | ⟨he, hx⟩
    · rw [hE.ls c (by rw [hC.nl]; exact hlt)]
      exact ⟨(hC.ls c cell n hc).1, (hC.ls c cell n hc).2.mono hE⟩
    · cases hx
      have : (S.pushL lty).ls c = lty := by simp [Sty.pushL, he, hC.nl]
      rw [this]
      exact ⟨l2, LThunkOK.mono hE hl⟩

theorem spec_allocLazy {S : Sty} {hp : Heap} (hC : Cons S hp) {opt : LV} {k : KL} {lty : LTy}
    (hl : LThunkOK S opt k lty) (l2 : 2 ≤ lty.need) :
    Spec (allocLazy opt k) S hp (fun S' v => v = S.nl ∧ S' = S.pushL lty) := by
  intro lg
  refine ⟨hp.ls.size, S.pushL lty, _, lg, rfl,
    ⟨hC.pushL hl l2, Ext.pushL S lty, ?_⟩, hC.nl.symm, rfl⟩
  refine ⟨fun c n hc => ⟨n, hc⟩, fun c n hc => ⟨n, hc⟩, fun c n hc => ?_⟩
  rcases push_cases hc with ⟨_, hc⟩ | ⟨_, hx⟩
  · exact ⟨n, hc⟩
  · cases hx

/-! ## overwriting a cell -/

theorem Cons.setH {S : Sty} {hp : Heap} (hC : Cons S hp) (c : Nat) (cell : Cell HThunk (Option El)) (n : Nat)
    (hcell : HCellOK S (S.hs c) cell) : Cons S { hp with hs := hp.hs.set! c (cell, n) } := by
  refine ⟨by simp [hC.nh], hC.nt, hC.nl, ?_, hC.ts, hC.ls⟩
  intro i cl m hi
  rcases set_cases hi with ⟨_, hi⟩ | ⟨he, hlt, hx⟩
  · exact hC.hs i cl m hi
  · cases hx
    subst he
    obtain ⟨old, hold⟩ : ∃ old, hp.hs[i]? = some old := ⟨hp.hs[i], by simp [hlt]⟩
    exact ⟨(hC.hs i old.1 old.2 hold).1, hcell⟩

theorem Cons.setL {S : Sty} {hp : Heap} (hC : Cons S hp) (c : Nat) (cell : Cell (LV × KL) LV) (n : Nat)
    (hcell : LCellOK S (S.ls c) cell) : Cons S { hp with ls := hp.ls.set! c (cell, n) } := by
  refine ⟨hC.nh, hC.nt, by simp [hC.nl], hC.hs, hC.ts, ?_⟩
  intro i cl m hi
  rcases set_cases hi with ⟨_, hi⟩ | ⟨he, hlt, hx⟩
  · exact hC.ls i cl m hi
  · cases hx
    subst he
    obtain ⟨old, hold⟩ : ∃ old, hp.ls[i]? = some old := ⟨hp.ls[i], by simp [hlt]⟩
    exact ⟨(hC.ls i old.1 old.2 hold).1, hcell⟩

theorem Cons.setT {S : Sty} {hp : Heap} (hC : Cons S hp) (c : Nat) (cell : Cell TThunk LV) (n : Nat)
    (hcell : TCellOK S (S.ts c) cell) : Cons S { hp with ts := hp.ts.set! c (cell, n) } := by
  refine ⟨hC.nh, by simp [hC.nt], hC.nl, hC.hs, ?_, hC.ls⟩
  intro i cl m hi
  rcases set_cases hi with ⟨_, hi⟩ | ⟨he, hlt, hx⟩
  · exact hC.ts i cl m hi
  · cases hx
    subst he
    obtain ⟨old, hold⟩ : ∃ old, hp.ts[i]? = some old := ⟨hp.ts[i], by simp [hlt]⟩
    exact ⟨(hC.ts i old.1 old.2 hold).1, hcell⟩

end FpVerif.Coll
