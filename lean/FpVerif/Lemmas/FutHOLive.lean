import FpVerif.Lemmas.FutHOStep
/-!
# Completeness at quiescence for futures of futures (helper lemmas for `Spec/C06HO.lean`)

With the structural liveness invariant `Live` of `Spec/C06Live.lean` (which needs no assumption on the programs at all)
and an empty task queue, the `Sem`-level reading of every promise is also ABOVE the denotation of its typed spec —
hence equal to it.
-/
namespace FpVerif.Spec.C06.HO
open FpVerif FpVerif.Fut FpVerif.Spec.C06

theorem leS_antisymm : ∀ (τ : Ty) (x y : St τ), leS τ x y → leS τ y x → x = y := by
  intro τ
  induction τ with
  | val =>
    intro x y h1 h2
    match x with
    | none => exact (leS_to_none h2).symm
    | some t => exact (leS_val.1 h1).symm
  | fut τ ih =>
    intro x y h1 h2
    match x with
    | none => exact (leS_to_none h2).symm
    | some (.failure e) => exact (leS_failure.1 h1).symm
    | some (.success i) =>
      obtain ⟨j, hj, hij⟩ := h1
      subst hj
      have hji := leS_success_fut.1 h2
      rw [ih i j hij hji]

/-- with nothing left to run, a pending promise's typed spec does not denote anything yet, provided the same holds
    (and completed promises hold all their specs denote) for all younger promises -/
theorem pending_good_ge {nsrc : Nat} {T : TSpec} {n : Net} (hi : Inv nsrc T n) (hl : Live nsrc (fun _ => False) n)
    (hq : n.pool = []) (p : Nat) (hlt : p < n.next) (hst : n.status p = none)
    (hy : ∀ p', p < p' → p' < n.next → Good .ge T n.status p') : Good .ge T n.status p := by
  have fin : ∀ {τ : Ty} {X : TExpr τ}, T p = ⟨τ, X⟩ → den (absE n.status) X = none → Good .ge T n.status p := by
    intro τ X hsp hd
    rw [good_iff hsp, absS_none _ hst]
    exact leS_of_eq hd
  by_cases hsrc : p < nsrc
  · unfold Good
    rw [hi.srcs.2 p hsrc]
    exact rel_refl _ _ _
  · rcases hl.blocked p (Nat.le_of_not_lt hsrc) hlt hst id with ⟨tk, htk, _⟩ | ⟨q, c, hc, ht⟩
    · rw [hq] at htk; simp at htk
    · have hqs := hl.cbsPending q c hc
      have hok := hi.cbs q c hc
      cases c with
      | flatMapA k np =>
        have : np = p := by simpa [cbTarget] using ht
        subst this
        rcases hok.2 with ⟨τ, k', hsp, _⟩ | ⟨τ, hsp, _⟩
        · exact fin hsp (by simp [den, absE, absS_none _ hqs, bindOkS])
        · exact fin hsp (by simp [den, absE, absS_none _ hqs, joinS, bindOkS])
      | completeWith np =>
        have : np = p := by simpa [cbTarget] using ht
        subst this
        obtain ⟨_, τ, sp, e, lo, hsp, hlo, hr, hj⟩ := hok
        refine fin hsp ?_
        rw [hj n.status (fun _ _ h => h)]
        have := root_rel .ge T n n.status lo e q (fun p' h1 h2 => hy p' (Nat.lt_of_lt_of_le hlo h1) h2) hr
        rw [absS_none _ hqs] at this
        exact leS_to_none this
      | transformA f np =>
        have : np = p := by simpa [cbTarget] using ht
        subst this
        exact fin hok.2 (by simp [den, absE, absS_none _ hqs] <;> rfl)
      | transformWithA k np =>
        have : np = p := by simpa [cbTarget] using ht
        subst this
        obtain ⟨_, τ, k', hsp, _⟩ := hok
        exact fin hsp (by simp [den, absE, absS_none _ hqs, bindTryS])
      | recoverWithA d' k np =>
        have : np = p := by simpa [cbTarget] using ht
        subst this
        obtain ⟨_, τ, k', hsp, _⟩ := hok
        exact fin hsp (by simp [den, absE, absS_none _ hqs, bindTryS])
      | orFutureA alt np =>
        have : np = p := by simpa [cbTarget] using ht
        subst this
        obtain ⟨_, τ, hsp⟩ := hok
        exact fin hsp (by simp [den, absE, absS_none _ hqs, bindTryS])
      | observe id => simp [cbTarget] at ht

/-- **Completeness at quiescence, one state** -/
theorem all_good_ge {nsrc : Nat} {T : TSpec} {n : Net} (hi : Inv nsrc T n) (hl : Live nsrc (fun _ => False) n)
    (hq : n.pool = []) : ∀ p, p < n.next → Good .ge T n.status p :=
  all_good hi .ge (fun p hlt hst hy => pending_good_ge hi hl hq p hlt hst hy)

/-- **Exactness at quiescence, one state**: the reading of every promise IS the denotation of its typed spec -/
theorem all_exact {nsrc : Nat} {T : TSpec} {n : Net} (hi : Inv nsrc T n) (hl : Live nsrc (fun _ => False) n)
    (hq : n.pool = []) (p : Nat) (hlt : p < n.next) : absS n.status (T p).1 p = den (absE n.status) (T p).2 :=
  leS_antisymm _ _ _ (all_good_le hi p hlt) (all_good_ge hi hl hq p hlt)

/-- the root of a program holds, at quiescence, exactly what the program denotes -/
theorem root_exact {nsrc : Nat} {T : TSpec} {n : Net} (hi : Inv nsrc T n) (hl : Live nsrc (fun _ => False) n)
    (hq : n.pool = []) (lo : Nat) {τ : Ty} (e : TExpr τ) (q : Nat) (hr : RootOf T n lo q e) :
    absS n.status τ q = den (absE n.status) e :=
  leS_antisymm _ _ _
    (root_rel .le T n n.status lo e q (fun p' _ hlt => all_good_le hi p' hlt) hr)
    (root_rel .ge T n n.status lo e q (fun p' _ hlt => all_good_ge hi hl hq p' hlt) hr)

end FpVerif.Spec.C06.HO
