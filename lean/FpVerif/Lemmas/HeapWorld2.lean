import FpVerif.Lemmas.HeapWorld1
/-!
The in-place (builder) step and the constructors `immutable.Map(hasher, t...)` / `Set(hasher, v...)`,
which run a private builder: every in-place write hits a cell allocated by the same call.
-/
set_option linter.unusedSimpArgs false
set_option linter.unusedVariables false
namespace FpVerif.HamtHeap
open FpVerif.Hamt
variable {K V : Type} {α β : Type}

theorem Inv_root_wf {h : Hasher K} {a : Hamt K V} (hi : Hamt.Inv h a) : ∀ n, a.root = some n → WF h 0 n := by
  intro n hn
  unfold Hamt.Inv at hi
  rw [hn] at hi
  exact hi.1

/-- one `set` of either kind on a well-formed trie: never panics, refines the value-level `set`,
    keeps the invariant -/
theorem hamtSet_step {h : Hasher K} (hl : LawfulHash h) {H : Heap K V} {m : Addr} {a : Hamt K V} {fp : List Addr}
    (habs : absHamt H m = some (a, fp)) (hnd : fp.Nodup) (hinv : Hamt.Inv h a) (k : K) (v : V) (mu : Bool) :
    ∃ a' m' H', a.set h k v mu = .ok a' ∧ Hamt.Inv h a' ∧ hamtSet h m k v mu H = .ok (m', H') ∧
      HSimRes mu H fp H' m' a' := by
  obtain ⟨a', h1, h2, _⟩ := Hamt.set_spec hl hinv k v mu
  obtain ⟨m', H', h3, h4⟩ := hamtSet_sim h habs hnd k v mu (fun _ => Inv_root_wf hinv) h1
  exact ⟨a', m', H', h1, h2, h3, h4⟩

/-- the `Add` loop of a private builder whose trie is entirely fresh with respect to `H0` -/
theorem builderLoop_sim {h : Hasher K} (hl : LawfulHash h) (H0 : Heap K V) : ∀ (t : List (K × V)) (Hc : Heap K V)
    (m : Addr) (a : Hamt K V) (fp : List Addr) (b' : MapBuilder K V),
    Heap.le H0 Hc → absHamt Hc m = some (a, fp) → fp.Nodup → Hamt.Inv h a → (∀ x ∈ fp, H0.size ≤ x) →
    t.foldlM (fun (b : MapBuilder K V) kv => b.add h kv.1 kv.2) ⟨some a⟩ = .ok b' →
    ∃ a' m' H' fp', b' = ⟨some a'⟩ ∧
      t.foldlM (fun (b : HMapBuilder) kv => b.add h kv.1 kv.2) ⟨some m⟩ Hc = .ok (⟨some m'⟩, H') ∧
      Heap.le H0 H' ∧ absHamt H' m' = some (a', fp') ∧ fp'.Nodup ∧ Hamt.Inv h a' ∧ ∀ x ∈ fp', H0.size ≤ x := by
  intro t
  induction t with
  | nil =>
    intro Hc m a fp b' hle habs hnd hinv hfresh hv
    simp only [List.foldlM_nil, pure, Except.pure] at hv
    injection hv with hv; subst hv
    exact ⟨a, m, Hc, fp, rfl, rfl, hle, habs, hnd, hinv, hfresh⟩
  | cons kv t ih =>
    intro Hc m a fp b' hle habs hnd hinv hfresh hv
    obtain ⟨a1, m1, H1, hs1, hinv1, hh1, fp1, habs1, hnd1, heff1, hsub1⟩ :=
      hamtSet_step hl habs hnd hinv kv.1 kv.2 true
    rw [List.foldlM_cons] at hv
    have hadd : (MapBuilder.add h (⟨some a⟩ : MapBuilder K V) kv.1 kv.2) = .ok ⟨some a1⟩ := by
      simp [MapBuilder.add, hs1, bind, Except.bind, pure, Except.pure]
    rw [hadd] at hv
    simp only [bind, Except.bind] at hv
    have hle1 : Heap.le H0 H1 := by
      refine ⟨Nat.le_trans hle.1 heff1.1, fun x hx => ?_⟩
      have hx' : x < Hc.size := Nat.lt_of_lt_of_le hx hle.1
      rw [heff1.2 x hx' (by simp only [if_true]; intro hmem; have := hfresh x hmem; omega), hle.2 x hx]
    obtain ⟨a', m', H', fp', hb', h2, hle', habs', hnd', hinv', hfresh'⟩ :=
      ih H1 m1 a1 fp1 b' hle1 habs1 hnd1 hinv1
        (by
          intro x hx
          rcases hsub1 x hx with h' | h'
          · exact hfresh x h'
          · have := hle.1; omega) hv
    refine ⟨a', m', H', fp', hb', ?_, hle', habs', hnd', hinv', hfresh'⟩
    rw [List.foldlM_cons]
    have haddH : (HMapBuilder.add h ⟨some m⟩ kv.1 kv.2 : HM K V HMapBuilder) Hc = .ok (⟨some m1⟩, H1) := by
      unfold HMapBuilder.add
      dsimp only
      rw [bind_ok hh1]; rfl
    rw [bind_ok haddH]
    exact h2

/-- **constructors**: `immutable.Map(hasher, t...)` returns a collection whose cells are all new;
    no cell that existed before the call is written -/
theorem pres_ofList {h : Hasher K} (hl : LawfulHash h) (t : List (K × V)) (H : Heap K V) :
    ∃ a', Hamt.ofList h t = .ok a' ∧ Hamt.Inv h a' ∧ PRes H [] (hamtOfList h t) a' := by
  obtain ⟨a', hv, hinv, _⟩ := Hamt.ofList_spec hl t
  refine ⟨a', hv, hinv, ?_⟩
  unfold Hamt.ofList at hv
  unfold hamtOfList
  by_cases ht : t.length > 0
  · simp only [ht, if_true] at hv ⊢
    cases hfold : t.foldlM (fun (b : MapBuilder K V) kv => b.add h kv.1 kv.2) MapBuilder.new with
    | error e => rw [hfold] at hv; cases hv
    | ok b' =>
      rw [hfold] at hv
      simp only [bind, Except.bind] at hv
      have hnew : (HMapBuilder.new : HM K V HMapBuilder) H = .ok (⟨some H.size⟩, H.push (.hamt 0 none)) := rfl
      obtain ⟨a1, m1, H1, fp1, hb', h2, hle1, habs1, hnd1, hinv1, hfresh1⟩ :=
        builderLoop_sim hl H t (H.push (.hamt 0 none)) H.size Hamt.empty [H.size] b'
          (Heap.le_push _ _) (absHamt_nil (get_push_size _ _)) (by simp) Hamt.Inv_empty (by simp) hfold
      subst hb'
      simp only [MapBuilder.build, pure, Except.pure] at hv
      injection hv with hv; subst hv
      refine ⟨m1, H1, ?_, fp1, habs1, hnd1, Eff.of_le hle1 _, fun x hx => Or.inr (hfresh1 x hx)⟩
      rw [bind_ok hnew, bind_ok h2]
      rfl
  · simp only [ht, if_false, pure, Except.pure] at hv ⊢
    injection hv with hv; subst hv
    exact pres_new H

end FpVerif.HamtHeap
