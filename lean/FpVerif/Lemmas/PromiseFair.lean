import FpVerif.Lemmas.PromiseFinal
/-!
# Promise: infinite fair schedules, and the per-callback form of the conservation invariant.

(AUDITFIX-B, audit finding 18.)  `prefixOf σ n` is the finite schedule made of the first `n`
entries of the infinite schedule `σ`.  `Fair` is WEAK fairness restricted to the threads that
still have something to do: an unfinished thread is scheduled again, some time.
-/
namespace FpVerif.Promise
open FpVerif FpVerif.Sched

variable {R : Type}

/-- the first `n` entries of an infinite schedule -/
def prefixOf (σ : Nat → Tid) (n : Nat) : List Tid := (List.range n).map σ

theorem prefixOf_add (σ : Nat → Tid) (n k : Nat) :
    prefixOf σ (n + k) = prefixOf σ n ++ (List.range k).map (fun i => σ (n + i)) := by
  simp [prefixOf, List.range_add, List.map_append, List.map_map, Function.comp_def]

/-- every thread that is unfinished after `n` entries is named by some later entry -/
def Fair (v : Variant) (s : PSys R) (σ : Nat → Tid) : Prop :=
  ∀ n t l, (prun v s (prefixOf σ n)).threads[t]? = some l → l.finished = false →
    ∃ m, n ≤ m ∧ σ m = t

/-- a schedule that names every thread id infinitely often is fair -/
theorem Fair.of_infinitely_often (v : Variant) (s : PSys R) (σ : Nat → Tid)
    (h : ∀ n t, t < s.threads.length → ∃ m, n ≤ m ∧ σ m = t) : Fair v s σ := by
  intro n t l hl _
  apply h n t
  have := length_run v s (prefixOf σ n)
  have hlt := (List.getElem?_eq_some_iff.mp hl).1
  omega

/-- Under a fair schedule the system is quiescent after finitely many entries. -/
theorem fair_finishes (v : Variant) (s : PSys R) (hinv : InvA s) (σ : Nat → Tid)
    (hfair : Fair v s σ) : ∃ n, allFinished (prun v s (prefixOf σ n)) = true := by
  suffices h : ∀ k n, measure (prun v s (prefixOf σ n)) ≤ k →
      ∃ n', allFinished (prun v s (prefixOf σ n')) = true from h _ 0 (Nat.le_refl _)
  intro k
  induction k with
  | zero =>
    intro n hk
    cases hf : allFinished (prun v s (prefixOf σ n)) with
    | true => exact ⟨n, hf⟩
    | false =>
      obtain ⟨t, l, hl, hunf, _⟩ := exists_unfinished hf
      have := measure_run_lt v (InvA_run v hinv _) hl hunf (sched := [t]) (by simp)
      omega
  | succ k ih =>
    intro n hk
    cases hf : allFinished (prun v s (prefixOf σ n)) with
    | true => exact ⟨n, hf⟩
    | false =>
      obtain ⟨t, l, hl, hunf, _⟩ := exists_unfinished hf
      obtain ⟨m, hnm, hσ⟩ := hfair n t l hl hunf
      apply ih (m + 1)
      have hsplit : prefixOf σ (m + 1) =
          prefixOf σ n ++ (List.range (m + 1 - n)).map (fun i => σ (n + i)) := by
        rw [← prefixOf_add]; congr 1; omega
      have hmem : t ∈ (List.range (m + 1 - n)).map (fun i => σ (n + i)) := by
        refine List.mem_map.mpr ⟨m - n, List.mem_range.mpr (by omega), ?_⟩
        have : n + (m - n) = m := by omega
        rw [this, hσ]
      have hlt := measure_run_lt v (InvA_run v hinv _) hl hunf hmem
      have : prun v s (prefixOf σ (m + 1)) =
          prun v (prun v s (prefixOf σ n)) ((List.range (m + 1 - n)).map (fun i => σ (n + i))) := by
        rw [hsplit]; exact run_append _ _ _
      rw [this]
      omega

/-- … and stays quiescent (and unchanged) for ever after. -/
theorem fair_finishes_stable (v : Variant) (s : PSys R) (hinv : InvA s) (σ : Nat → Tid)
    (hfair : Fair v s σ) :
    ∃ n, ∀ m, n ≤ m → allFinished (prun v s (prefixOf σ m)) = true ∧
      prun v s (prefixOf σ m) = prun v s (prefixOf σ n) := by
  obtain ⟨n, hn⟩ := fair_finishes v s hinv σ hfair
  refine ⟨n, fun m hm => ?_⟩
  have : prun v s (prefixOf σ m) = prun v s (prefixOf σ n) := by
    obtain ⟨k, rfl⟩ := Nat.exists_eq_add_of_le hm
    rw [prefixOf_add]
    show run _ _ _ = _
    rw [run_append]
    exact allFinished_run v hn _
  rw [this]
  exact ⟨hn, rfl⟩

/-! ### finite schedules made of fair rounds -/

/-- `sched` can be cut into `k` consecutive segments each of which names every thread id `< n` -/
def HasRounds (n : Nat) : Nat → List Tid → Prop
  | 0, _ => True
  | k + 1, sched => ∃ a b, sched = a ++ b ∧ (∀ t, t < n → t ∈ a) ∧ HasRounds n k b

theorem hasRounds_roundRobin (n k : Nat) : HasRounds n k (roundRobin n k) := by
  induction k with
  | zero => trivial
  | succ k ih => exact ⟨List.range n, roundRobin n k, rfl, fun t ht => List.mem_range.mpr ht, ih⟩

/-- any finite schedule containing `measure s` fair rounds reaches quiescence
    (`roundRobin_finishes` is the instance `roundRobin`) -/
theorem rounds_finish (v : Variant) (k : Nat) (s : PSys R) (hinv : InvA s) (sched : List Tid)
    (hm : measure s ≤ k) (hr : HasRounds s.threads.length k sched) :
    allFinished (prun v s sched) = true := by
  induction k generalizing s sched with
  | zero =>
    cases hf : allFinished s with
    | true => rw [allFinished_run v hf]; exact hf
    | false =>
      obtain ⟨t, l, hl, hunf, _⟩ := exists_unfinished hf
      have := measure_run_lt v hinv hl hunf (sched := [t]) (by simp)
      omega
  | succ k ih =>
    cases hf : allFinished s with
    | true => rw [allFinished_run v hf]; exact hf
    | false =>
      obtain ⟨t, l, hl, hunf, hlt⟩ := exists_unfinished hf
      obtain ⟨a, b, rfl, ha, hb⟩ := hr
      show allFinished (run (stepT v) s (a ++ b)) = true
      rw [run_append]
      have hlt' := measure_run_lt v hinv hl hunf (ha t hlt)
      have hlen := length_run v s a
      apply ih (prun v s a) (InvA_run v hinv _) b (by omega)
      rw [hlen]; exact hb

/-! ### where one callback is, when its registrations have returned and no completer is running -/

/-- a thread that is not registering `c` (or has returned from doing so) and is not inside the
    callback loop of `Complete` does not hold `c` -/
theorem holds_zero_of_settled (c : Cb) (sh : Shared R) (l : Local R)
    (hreg : l.prog = .register c → l.finished = true)
    (hrun : ∀ r sl i cb, l ≠ .cRun r sl i cb) : holds c sh l = 0 := by
  cases l with
  | cRun r sl i cb => exact absurd rfl (hrun r sl i cb)
  | rGet cb =>
    by_cases h : cb = c
    · subst h; simp [Local.prog, Local.finished] at hreg
    · simp [holds, h]
  | rAppend cb ap s =>
    by_cases h : cb = c
    · subst h; simp [Local.prog, Local.finished] at hreg
    · simp [holds, h]
  | rCas cb ap new =>
    by_cases h : cb = c
    · subst h; simp [Local.prog, Local.finished] at hreg
    · simp [holds, h]
  | rCall cb r =>
    by_cases h : cb = c
    · subst h; simp [Local.prog, Local.finished] at hreg
    · simp [holds, h]
  | _ => rfl

/-- a returned winner excludes a completer inside its callback loop -/
theorem no_cRun_of_winner_returned {s : PSys R} (hA : InvA s) {i : Nat} {r : R}
    (hi : s.threads[i]? = some (.cRet r true)) :
    ∀ l ∈ s.threads, ∀ r' sl j cb, l ≠ .cRun r' sl j cb := by
  intro l hl r' sl j cb heq
  subst heq
  obtain ⟨k, hk, hget⟩ := List.getElem_of_mem hl
  have hk' : s.threads[k]? = some (.cRun r' sl j cb) := by
    simp [List.getElem?_eq_getElem hk, hget]
  have hne : i ≠ k := by
    rintro rfl
    rw [hi] at hk'
    cases hk'
  have := winners_two hi hk' rfl rfl hne
  have := winners_le_one hA
  omega

/-! ### the log only grows -/

theorem trans_log_ext {v : Variant} {sh sh' : Shared R} {l l' : Local R} (h : Trans v sh l sh' l') :
    ∃ ext, sh'.log = sh.log ++ ext := by
  cases h <;> first | exact ⟨[], (List.append_nil _).symm⟩ | exact ⟨_, rfl⟩

theorem invocations_mono (v : Variant) (cb : Cb) (s : PSys R) (more : List Tid) :
    invocations cb s ≤ invocations cb (prun v s more) := by
  induction more generalizing s with
  | nil => exact Nat.le_refl _
  | cons t ts ih =>
    show _ ≤ invocations cb (run (stepT v) (stepOr (stepT v) s t) ts)
    refine Nat.le_trans ?_ (ih (stepOr (stepT v) s t))
    unfold stepOr
    cases hs : step (stepT v) s t with
    | none => exact Nat.le_refl _
    | some s' =>
      simp only [Option.getD_some]
      obtain ⟨l, sh, l', hl, htr, rfl⟩ := step_trans hs
      obtain ⟨ext, hext⟩ := trans_log_ext htr
      simp only [invocations, hext, List.map_append, List.count_append]
      omega

end FpVerif.Promise
