import FpVerif.Model.Arity
/-!
# Unfolding lemmas for `Model/Arity.lean`

The recursive definitions there have overlapping patterns (a catch-all "arity" branch) and types that
mention the type-level recursion `Cur`; letting `simp` generate their equation lemmas is slow, so the
defining equations are restated here (each by `rfl`) and used explicitly by `Spec/C14.lean`.
-/
namespace FpVerif.Arity
open FpVerif MonadFamily

variable {A R : Type}

/-- `pure_bind` across the definitional unfolding `Cur A R (n+1) = CurF A R n` -/
@[simp] theorem pure_bind_cur {β : Type} (n : Nat) (x : CurF A R n) (k : Cur A R (n + 1) → GoM β) :
    ((pure x : GoM (Cur A R (n + 1))) >>= k) = k x := pure_bind _ _

@[simp] theorem arityPanic_bind {α β : Type} (k : α → GoM β) : (arityPanic >>= k) = arityPanic := rfl

@[simp] theorem applyCur_zero (f : CurF A R 0) (a : A) : applyCur 0 f [a] = f a := rfl
@[simp] theorem applyCur_succ (n : Nat) (f : CurF A R (n + 1)) (a : A) (as : List A) :
    applyCur (n + 1) f (a :: as) = (f a >>= fun g => applyCur n g as) := rfl
@[simp] theorem applyCur_nil (n : Nat) (f : CurF A R n) : applyCur n f [] = arityPanic := by
  cases n <;> rfl
@[simp] theorem applyCur_zero_many (f : CurF A R 0) (a b : A) (as : List A) :
    applyCur 0 f (a :: b :: as) = arityPanic := rfl

@[simp] theorem curry_zero (f : NFun A R) (a : A) : curry 0 f a = f [a] := rfl
@[simp] theorem curry_succ (n : Nat) (f : NFun A R) (a : A) :
    curry (n + 1) f a = (pure (curry n (fun rest => f (a :: rest))) : GoM (Cur A R (n + 1))) := rfl

@[simp] theorem asCurried_zero (f : NFun A R) (a1 : A) :
    asCurried 0 f a1 = (pure (fun a2 => f [a1, a2]) : GoM (Cur A R 1)) := rfl
@[simp] theorem asCurried_succ (n : Nat) (f : NFun A R) (a1 : A) :
    asCurried (n + 1) f a1 = (pure (asCurried n (fun rest => f (a1 :: rest))) : GoM (Cur A R (n + 2))) := rfl

@[simp] theorem composeCur_zero {GA GR : Type} (f : CurF A GA 1) (g : GA → GoM GR) (a : A) :
    composeCur 0 f g a = (pure (fun b => do
      let h ← f a
      let r ← (h : A → GoM GA) b
      g r) : GoM (Cur A GR 1)) := rfl
@[simp] theorem composeCur_succ {GA GR : Type} (n : Nat) (f : CurF A GA (n + 2)) (g : GA → GoM GR) (a1 : A) :
    composeCur (n + 1) f g a1 = (do
      let f1 ← f a1
      (pure (composeCur n f1 g) : GoM (Cur A GR (n + 2)))) := rfl

@[simp] theorem hlistOf_zero (a : A) : hlistOf 0 [a] = some [a] := rfl
@[simp] theorem hlistOf_succ (n : Nat) (a : A) (rest : List A) :
    hlistOf (n + 1) (a :: rest) = (hlistOf n rest).map (a :: ·) := rfl
@[simp] theorem hlistOf_nil (n : Nat) : hlistOf n ([] : List A) = none := by cases n <;> rfl
@[simp] theorem hlistOf_zero_many (a b : A) (as : List A) : hlistOf 0 (a :: b :: as) = none := rfl

@[simp] theorem hcase_zero (h : A) (t : List A) (f : NFun A R) : hcase 0 (h :: t) f = f [h] := rfl
@[simp] theorem hcase_succ (n : Nat) (h : A) (t : List A) (f : NFun A R) :
    hcase (n + 1) (h :: t) f = hcase n t (fun rest => f (h :: rest)) := rfl
@[simp] theorem hcase_nil (n : Nat) (f : NFun A R) : hcase n [] f = arityPanic := by cases n <;> rfl

@[simp] theorem hlift_zero (f : NFun A R) (a : A) : hlift 0 f [a] = f [a] := rfl
@[simp] theorem hlift_succ (n : Nat) (f : NFun A R) (a : A) (t : List A) :
    hlift (n + 1) f (a :: t) = hlift n (fun rest => f (a :: rest)) t := rfl
@[simp] theorem hlift_nil (n : Nat) (f : NFun A R) : hlift n f [] = arityPanic := by cases n <;> rfl
@[simp] theorem hlift_zero_many (f : NFun A R) (a b : A) (as : List A) :
    hlift 0 f (a :: b :: as) = arityPanic := rfl

@[simp] theorem hrift_zero (f : NFun A R) (a : A) : hrift 0 f [a] = f [a] := rfl
@[simp] theorem hrift_succ (n : Nat) (f : NFun A R) (a : A) (t : List A) :
    hrift (n + 1) f (a :: t) = hrift n (fun init => f (init ++ [a])) t := rfl
@[simp] theorem hrift_nil (n : Nat) (f : NFun A R) : hrift n f [] = arityPanic := by cases n <;> rfl
@[simp] theorem hrift_zero_many (f : NFun A R) (a b : A) (as : List A) :
    hrift 0 f (a :: b :: as) = arityPanic := rfl

@[simp] theorem asHList_zero (a : A) : asHList 0 [a] = some [a] := rfl
@[simp] theorem asHList_succ (n : Nat) (a : A) (rest : List A) :
    asHList (n + 1) (a :: rest) = (hlistOf n rest).map (a :: ·) := rfl

@[simp] theorem tupleFromHList_zero (a : A) : tupleFromHList 0 [a] = some [a] := rfl
@[simp] theorem tupleFromHList_succ (n : Nat) (a : A) (t : List A) :
    tupleFromHList (n + 1) (a :: t) = (tupleFromHList n t).map (a :: ·) := rfl
@[simp] theorem tupleFromHList_nil (n : Nat) : tupleFromHList n ([] : List A) = none := by cases n <;> rfl
@[simp] theorem tupleFromHList_zero_many (a b : A) (as : List A) : tupleFromHList 0 (a :: b :: as) = none := rfl

@[simp] theorem flatten_zero (a b c : A) : flatten 0 (.cons a (.pair b c)) = some [a, b, c] := rfl
@[simp] theorem flatten_succ (n : Nat) (a : A) (t : Nest A) :
    flatten (n + 1) (.cons a t) = (flatten n t).map (a :: ·) := rfl

@[simp] theorem nest_ofList_two (a b : A) : Nest.ofList [a, b] = some (.pair a b) := rfl
@[simp] theorem nest_ofList_cons (a b c : A) (rest : List A) :
    Nest.ofList (a :: b :: c :: rest) = (Nest.ofList (b :: c :: rest)).map (.cons a) := rfl

@[simp] theorem composeN_two (f g : A → GoM A) : composeN [f, g] = compose2 f g := rfl
@[simp] theorem composeN_cons (f g h : A → GoM A) (fs : List (A → GoM A)) :
    composeN (f :: g :: h :: fs) = compose2 f (composeN (g :: h :: fs)) := rfl

section builders
variable {M : Type → Type} (V : VMonad M)

@[simp] theorem runApplicativeFrom_zero (fn : ApSt M A R 0) (s : Step M A) :
    runApplicativeFrom V 0 fn [s] = apStep V fn s := rfl
@[simp] theorem runApplicativeFrom_succ (n : Nat) (fn : ApSt M A R (n + 1)) (s : Step M A) (ss : List (Step M A)) :
    runApplicativeFrom V (n + 1) fn (s :: ss) = (do
      let fn' ← apStep V fn s
      runApplicativeFrom V n fn' ss) := rfl
@[simp] theorem runChainFrom_zero (r : ChainSt M A R 0) (s : Step M A) :
    runChainFrom V 0 r [s] = chainLast V r s := rfl
@[simp] theorem runChainFrom_succ (n : Nat) (r : ChainSt M A R (n + 1)) (s : Step M A) (ss : List (Step M A)) :
    runChainFrom V (n + 1) r (s :: ss) = (do
      let r' ← chainStep V r s
      runChainFrom V n r' ss) := rfl
end builders

-- ------------------------------------------------------------------------------------------------
-- value-level facts about Option and Try used by the builder theorems

/-- `M` is a sum of values and errors; binding an error either returns it unchanged or panics
    (`Try{}` / `Failure(nil)`: "Try not initialized correctly") -/
structure VMonad.Sum {M : Type → Type} (V : VMonad M) where
  E : Type
  err : {α : Type} → E → M α
  abort : E → Option PanicVal
  cases : ∀ {α : Type} (m : M α), (∃ a, m = V.vpure a) ∨ (∃ e, m = err e)
  bind_pure : ∀ {α β : Type} (a : α) (k : α → GoM (M β)), V.vbind (V.vpure a) k = k a
  bind_err : ∀ {α β : Type} (e : E) (k : α → GoM (M β)),
    V.vbind (err e : M α) k = match abort e with
      | none => pure (err e)
      | some p => throw p
  fromOption_ok : ∀ {α : Type} (o : Option α),
    (∃ a, V.fromOption o = V.vpure a) ∨ (∃ e, abort e = none ∧ V.fromOption o = err e)

def optSum : optV.Sum where
  E := Unit
  err _ := none
  abort _ := none
  cases m := by cases m <;> simp [optV]
  bind_pure a k := rfl
  bind_err e k := rfl
  fromOption_ok o := by cases o <;> simp [optV]

def trySum : tryV.Sum where
  E := Err
  err e := .failure e
  abort e := if e = .nil then some "ErrNotInit" else none
  cases m := by cases m <;> simp [tryV]
  bind_pure a k := rfl
  bind_err e k := by cases e <;> simp [tryV, TryM.flatMap, Try.failedGet]
  fromOption_ok o := by
    cases o with
    | none => exact Or.inr ⟨.optionEmpty, by simp, rfl⟩
    | some a => exact Or.inl ⟨a, rfl⟩

end FpVerif.Arity
