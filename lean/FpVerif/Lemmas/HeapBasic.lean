import FpVerif.Model.HamtHeap
/-!
Basic facts about the heap monad of `Model/HamtHeap.lean`: evaluation lemmas, heap extension
(`Heap.le`: every old address keeps its cell), and `Pres` — "this heap transformer only allocates".
-/
set_option linter.unusedSimpArgs false
set_option linter.unusedVariables false
namespace FpVerif.HamtHeap
open FpVerif.Hamt
variable {K V : Type} {α β : Type}

-- evaluation ---------------------------------------------------------------------------------------

theorem bind_apply (x : HM K V α) (f : α → HM K V β) (H : Heap K V) :
    (x >>= f) H = match x H with
      | .ok (a, H1) => f a H1
      | .error e => .error e := rfl

theorem pure_apply (a : α) (H : Heap K V) : (pure a : HM K V α) H = .ok (a, H) := rfl

theorem bind_ok {x : HM K V α} {f : α → HM K V β} {H H1 : Heap K V} {a : α}
    (hx : x H = .ok (a, H1)) : (x >>= f) H = f a H1 := by
  rw [bind_apply, hx]

theorem bind_eq_ok {x : HM K V α} {f : α → HM K V β} {H H2 : Heap K V} {b : β}
    (hb : (x >>= f) H = .ok (b, H2)) : ∃ a H1, x H = .ok (a, H1) ∧ f a H1 = .ok (b, H2) := by
  rw [bind_apply] at hb
  split at hb
  · rename_i a H1 hx; exact ⟨a, H1, hx, hb⟩
  · cases hb

theorem fail_apply (msg : String) (H : Heap K V) : (fail msg : HM K V α) H = .error msg := rfl

theorem alloc_apply (c : Cell K V) (H : Heap K V) : alloc c H = .ok (H.size, H.push c) := rfl

theorem load_apply {a : Addr} {c : Cell K V} {H : Heap K V} (h : H[a]? = some c) :
    load a H = .ok (c, H) := by
  simp [load, h]

theorem load_eq_ok {a : Addr} {c : Cell K V} {H H' : Heap K V} (h : load a H = .ok (c, H')) :
    H' = H ∧ H[a]? = some c := by
  unfold load at h
  split at h
  · rename_i c' hc; cases h; exact ⟨rfl, hc⟩
  · cases h

theorem store_apply {a : Addr} (c : Cell K V) {H : Heap K V} (h : a < H.size) :
    store a c H = .ok ((), H.setIfInBounds a c) := by
  simp [store, h]

theorem store_eq_ok {a : Addr} {c : Cell K V} {H H' : Heap K V} {u : Unit}
    (h : store a c H = .ok (u, H')) : a < H.size ∧ H' = H.setIfInBounds a c := by
  unfold store at h
  split at h
  · rename_i hlt; cases h; exact ⟨hlt, rfl⟩
  · cases h

theorem liftE_ok {x : GoE α} {a : α} (H : Heap K V) (h : x = .ok a) : (liftE x : HM K V α) H = .ok (a, H) := by
  subst h; rfl

theorem liftE_eq_ok {x : GoE α} {a : α} {H H' : Heap K V} (h : (liftE x : HM K V α) H = .ok (a, H')) :
    x = .ok a ∧ H' = H := by
  unfold liftE at h
  split at h
  · cases h; exact ⟨rfl, rfl⟩
  · cases h

-- heap extension -------------------------------------------------------------------------------------

/-- `H'` extends `H`: every address of `H` holds the same cell in `H'` -/
def Heap.le (H H' : Heap K V) : Prop := H.size ≤ H'.size ∧ ∀ a, a < H.size → H'[a]? = H[a]?

theorem Heap.le_refl (H : Heap K V) : Heap.le H H := ⟨Nat.le_refl _, fun _ _ => rfl⟩

theorem Heap.le_trans {H1 H2 H3 : Heap K V} (h12 : Heap.le H1 H2) (h23 : Heap.le H2 H3) : Heap.le H1 H3 :=
  ⟨Nat.le_trans h12.1 h23.1, fun a ha => by rw [h23.2 a (Nat.lt_of_lt_of_le ha h12.1), h12.2 a ha]⟩

theorem Heap.le_push (H : Heap K V) (c : Cell K V) : Heap.le H (H.push c) :=
  ⟨by simp, fun a ha => by rw [Array.getElem?_push]; simp [Nat.ne_of_lt ha]⟩

theorem Heap.le.get {H H' : Heap K V} (hle : Heap.le H H') {a : Addr} {c : Cell K V}
    (h : H[a]? = some c) : H'[a]? = some c := by
  have ha : a < H.size := by
    rcases Nat.lt_or_ge a H.size with h' | h'
    · exact h'
    · rw [Array.getElem?_eq_none h'] at h; cases h
  rw [hle.2 a ha, h]

theorem lt_size_of_get {H : Heap K V} {a : Addr} {c : Cell K V} (h : H[a]? = some c) : a < H.size := by
  rcases Nat.lt_or_ge a H.size with h' | h'
  · exact h'
  · rw [Array.getElem?_eq_none h'] at h; cases h

theorem get_push_size (H : Heap K V) (c : Cell K V) : (H.push c)[H.size]? = some c := by
  simp

theorem get_set_eq {H : Heap K V} {a : Addr} (c : Cell K V) (h : a < H.size) :
    (H.setIfInBounds a c)[a]? = some c := by
  simp [Array.getElem?_setIfInBounds, h]

theorem get_set_ne {H : Heap K V} {a b : Addr} (c : Cell K V) (h : a ≠ b) :
    (H.setIfInBounds a c)[b]? = H[b]? := by
  simp [Array.getElem?_setIfInBounds, h]

-- allocate-only transformers -----------------------------------------------------------------------

/-- `m` never writes an existing cell: whatever heap it leaves extends the heap it started from -/
def Pres (m : HM K V α) : Prop := ∀ H a H', m H = .ok (a, H') → Heap.le H H'

theorem Pres.pure (a : α) : Pres (pure a : HM K V α) := by
  intro H a' H' h; cases h; exact Heap.le_refl _

theorem Pres.fail (msg : String) : Pres (fail msg : HM K V α) := by
  intro H a' H' h; cases h

theorem Pres.bind {x : HM K V α} {f : α → HM K V β} (hx : Pres x) (hf : ∀ a, Pres (f a)) :
    Pres (x >>= f) := by
  intro H b H2 h
  obtain ⟨a, H1, h1, h2⟩ := bind_eq_ok h
  exact Heap.le_trans (hx _ _ _ h1) (hf a _ _ _ h2)

theorem Pres.alloc (c : Cell K V) : Pres (alloc c) := by
  intro H a H' h; cases h; exact Heap.le_push _ _

theorem Pres.load (a : Addr) : Pres (load a : HM K V _) := by
  intro H c H' h; rw [(load_eq_ok h).1]; exact Heap.le_refl _

theorem Pres.liftE (x : GoE α) : Pres (liftE x : HM K V α) := by
  intro H a H' h; rw [(liftE_eq_ok h).2]; exact Heap.le_refl _

theorem Pres.loadEnts (s : Slice) : Pres (loadEnts s : HM K V _) := by
  intro H a H' h
  unfold HamtHeap.loadEnts at h
  split at h
  · cases h; exact Heap.le_refl _
  · cases h

theorem Pres.loadPtrs (s : Slice) : Pres (loadPtrs s : HM K V _) := by
  intro H a H' h
  unfold HamtHeap.loadPtrs at h
  split at h
  · cases h; exact Heap.le_refl _
  · cases h

theorem Pres.readHamt (m : Addr) : Pres (readHamt m : HM K V _) := by
  intro H a H' h
  unfold HamtHeap.readHamt at h
  split at h
  · cases h; exact Heap.le_refl _
  · cases h

theorem Pres.allocSlots (xs : List (Slot K V)) (cap : Nat) : Pres (allocSlots xs cap) :=
  Pres.bind (Pres.alloc _) (fun _ => Pres.pure _)

theorem Pres.keyHashValueAt (n : Addr) : Pres (keyHashValueAt n : HM K V _) := by
  unfold HamtHeap.keyHashValueAt
  apply Pres.bind (Pres.load _)
  intro c
  split <;> exact Pres.pure _

theorem Pres.foldlM {f : β → α → HM K V β} (hf : ∀ b a, Pres (f b a)) :
    ∀ (l : List α) (b : β), Pres (l.foldlM f b) := by
  intro l
  induction l with
  | nil => intro b; exact Pres.pure _
  | cons a l ih =>
    intro b
    rw [List.foldlM_cons]
    exact Pres.bind (hf b a) (fun b' => ih b')

theorem Pres.ite {c : Prop} [Decidable c] {x y : HM K V α} (hx : Pres x) (hy : Pres y) :
    Pres (if c then x else y) := by
  split <;> assumption

end FpVerif.HamtHeap
