import FpVerif.Lemmas.HamtMap
/-! The explicit-stack iterator yields exactly `toList`, in that order, each entry once. -/
set_option linter.unusedSimpArgs false
set_option linter.unusedVariables false
namespace FpVerif.Hamt
variable {K V : Type} {h : Hasher K}

-- first non-nil slot ------------------------------------------------------------------------------

theorem findNonNil_spec (l : List (Option (Node K V))) : ∀ (k : Nat),
    match (l.zipIdx k).findSome? (fun oi => oi.1.map (fun c => (oi.2, c))) with
    | none => l.flatMap optList = []
    | some (i, c) => ∃ j, i = k + j ∧ l[j]? = some (some c) ∧
        l.flatMap optList = c.toList ++ (l.drop (j + 1)).flatMap optList := by
  induction l with
  | nil => intro k; simp
  | cons o l ih =>
    intro k
    rw [List.zipIdx_cons, List.findSome?_cons]
    cases o with
    | some c =>
      simp only [Option.map_some]
      exact ⟨0, rfl, rfl, by simp⟩
    | none =>
      simp only [Option.map_none]
      have := ih (k + 1)
      revert this
      cases (l.zipIdx (k + 1)).findSome? (fun oi => oi.1.map (fun c => (oi.2, c))) with
      | none => intro this; simpa using this
      | some ic =>
        obtain ⟨i, c⟩ := ic
        rintro ⟨j, hi, hj, hfl⟩
        exact ⟨j + 1, by omega, by simpa using hj, by simpa using hfl⟩

theorem zipIdx_drop {α : Type} (l : List α) : ∀ (n k : Nat), (l.zipIdx k).drop n = (l.drop n).zipIdx (k + n) := by
  induction l with
  | nil => intro n k; simp
  | cons a l ih =>
    intro n k
    cases n with
    | zero => simp
    | succ n =>
      simp only [List.zipIdx_cons, List.drop_succ_cons]
      rw [ih n (k + 1)]
      congr 1; omega

theorem nextNonNil_spec (ns : List (Option (Node K V))) (start : Nat) :
    match nextNonNil ns start with
    | none => (ns.drop start).flatMap optList = []
    | some (i, c) => ns[i]? = some (some c) ∧
        (ns.drop start).flatMap optList = c.toList ++ (ns.drop (i + 1)).flatMap optList := by
  unfold nextNonNil
  rw [zipIdx_drop]
  have := findNonNil_spec (ns.drop start) (0 + start)
  revert this
  cases ((ns.drop start).zipIdx (0 + start)).findSome? (fun oi => oi.1.map (fun c => (oi.2, c))) with
  | none => exact fun h => h
  | some ic =>
    obtain ⟨i, c⟩ := ic
    rintro ⟨j, hi, hj, hfl⟩
    subst hi
    refine ⟨by rw [List.getElem?_drop] at hj; simpa using hj, ?_⟩
    rw [hfl, List.drop_drop]
    congr 3; omega

-- iterator invariant ---------------------------------------------------------------------------------

/-- what the top element still has to yield, starting at its current index -/
def cur (f : IterElem K V) : List (K × V) :=
  match f.node with
  | .array es => es.drop f.index
  | .collision _ es => es.drop f.index
  | .value _ k v => [(k, v)]
  | _ => []

/-- what an element has to yield after its current position -/
def rest1 (f : IterElem K V) : List (K × V) :=
  match f.node with
  | .array es => es.drop (f.index + 1)
  | .collision _ es => es.drop (f.index + 1)
  | .value _ _ _ => []
  | .bitmap _ ns => (ns.drop (f.index + 1)).flatMap Node.toList
  | .hashArray _ ns => (ns.drop (f.index + 1)).flatMap optList

/-- the entries an iterator in this state will still yield, in order -/
def remaining (st : List (IterElem K V)) : List (K × V) :=
  match st with
  | [] => []
  | top :: below => cur top ++ below.flatMap rest1

/-- the element at depth `d` holds a node that is well-formed at depth `d` -/
def FramesOK (h : Hasher K) : List (IterElem K V) → Prop
  | [] => True
  | f :: below => WF h (5 * below.length) f.node ∧ FramesOK h below

/-- the top element stands on an entry of a leaf -/
def TopOK (f : IterElem K V) : Prop :=
  match f.node with
  | .array es => f.index < es.length
  | .collision _ es => f.index < es.length
  | .value _ _ _ => True
  | _ => False

def StackOK (h : Hasher K) (st : List (IterElem K V)) : Prop :=
  FramesOK h st ∧ match st with
    | [] => True
    | top :: _ => TopOK top

theorem child_wf_bitmap {s bm : Nat} {ns : List (Node K V)} (hwf : WF h s (Node.bitmap bm ns))
    {c : Node K V} (hc : c ∈ ns) : WF h (s + 5) c := by
  cases hwf with
  | bitmap hs hb hlen h1 h17 hkw hks =>
    obtain ⟨i, hi⟩ := exists_zip_left (l₁ := bitsOf bm) hc (by unfold popCount at hlen; omega)
    exact hkw _ hi

theorem child_wf_hashArray {s cnt : Nat} {ns : List (Option (Node K V))} (hwf : WF h s (Node.hashArray cnt ns))
    {i : Nat} {c : Node K V} (hc : ns[i]? = some (some c)) : WF h (s + 5) c := by
  cases hwf with
  | hashArray hs hlen hcnt h16 hkw hks =>
    have hi : i < 32 := by
      rcases Nat.lt_or_ge i ns.length with h' | h'
      · omega
      · rw [List.getElem?_eq_none h'] at hc; cases hc
    obtain ⟨SL, o, SR, hsl, hSL, hsget⟩ := hashArray_split hi hlen
    rw [hsget] at hc; cases hc
    have hk1 := kidsH_cons hi (SR := SR) (some c) hSL
    rw [← hsl] at hk1
    exact hkw (i, c) (by rw [hk1]; simp)

theorem branch_shift_lt {s : Nat} {n : Node K V} (hwf : WF h s n)
    (hb : (∃ bm ns, n = .bitmap bm ns) ∨ (∃ c ns, n = .hashArray c ns)) : s < 32 := by
  rcases hb with ⟨bm, ns, rfl⟩ | ⟨c, ns, rfl⟩
  · cases hwf with | bitmap hs => exact hs
  · cases hwf with | hashArray hs => exact hs

/-- `first()` descends to the left-most leaf below `n` -/
theorem iterFirst_spec {s : Nat} {n : Node K V} (hwf : WF h s n) :
    ∀ (below : List (IterElem K V)), s = 5 * below.length → FramesOK h below →
      ∃ st, iterFirst n below = .ok st ∧ StackOK h st ∧
        remaining st = n.toList ++ below.flatMap rest1 := by
  induction hwf with
  | @array s es h0 hne hlen hd =>
    intro below hs hb
    refine ⟨⟨Node.array es, 0⟩ :: below, ?_, ⟨⟨by rw [← hs]; exact WF.array h0 hne hlen hd, hb⟩, ?_⟩, ?_⟩
    · rw [iterFirst] <;> first | rfl | (intro _ _ hh; cases hh)
    · show (0 : Nat) < es.length
      exact List.length_pos_iff.mpr hne
    · simp [remaining, cur]
  | @value s kh nk nv hkh =>
    intro below hs hb
    refine ⟨⟨Node.value kh nk nv, 0⟩ :: below, ?_, ⟨⟨WF.value hkh, hb⟩, trivial⟩, ?_⟩
    · rw [iterFirst] <;> first | rfl | (intro _ _ hh; cases hh)
    · simp [remaining, cur]
  | @collision s kh es h2 hh hd =>
    intro below hs hb
    refine ⟨⟨Node.collision kh es, 0⟩ :: below, ?_, ⟨⟨WF.collision h2 hh hd, hb⟩, ?_⟩, ?_⟩
    · rw [iterFirst] <;> first | rfl | (intro _ _ hh; cases hh)
    · show (0 : Nat) < es.length
      omega
    · simp [remaining, cur]
  | @bitmap s bm ns hs' hbm hlen h1 h17 hkw hks ihw =>
    intro below hs hb
    have hwfn : WF h s (Node.bitmap bm ns) := WF.bitmap hs' hbm hlen h1 h17 hkw hks
    obtain ⟨c, rest, hns⟩ : ∃ c rest, ns = c :: rest := by
      cases ns with
      | nil => simp at h1
      | cons c rest => exact ⟨c, rest, rfl⟩
    obtain ⟨i, hi⟩ := exists_zip_left (l₁ := bitsOf bm) (b := c) (l₂ := ns) (by rw [hns]; simp)
      (by unfold popCount at hlen; omega)
    have hfr : FramesOK h (⟨Node.bitmap bm ns, 0⟩ :: below) := ⟨by rw [← hs]; exact hwfn, hb⟩
    obtain ⟨st, hst, hok, hrem⟩ := ihw (i, c) hi (⟨Node.bitmap bm ns, 0⟩ :: below) (by simp; omega) hfr
    refine ⟨st, ?_, hok, ?_⟩
    · rw [iterFirst]
      have h0 : ns[0]? = some c := by rw [hns]; rfl
      split
      · rename_i hc; rw [h0] at hc; cases hc
      · rename_i c' hc
        rw [h0] at hc; cases hc
        have : ¬ below.length + 2 > 32 := by omega
        simp only [this, if_false]
        exact hst
    · rw [hrem, toList_bitmap, hns]
      simp [rest1]
  | @hashArray s cnt ns hs' hlen hcnt h16 hkw hks ihw =>
    intro below hs hb
    have hwfn : WF h s (Node.hashArray cnt ns) := WF.hashArray hs' hlen hcnt h16 hkw hks
    have hne := hwfn.toList_ne_nil
    rw [toList_hashArray] at hne
    have hspec := nextNonNil_spec ns 0
    rw [iterFirst]
    split
    · rename_i hf
      rw [hf] at hspec
      simp at hspec
      exact absurd hspec (by simpa using hne)
    · rename_i i c hf
      rw [hf] at hspec
      simp only [List.drop_zero] at hspec
      obtain ⟨hget, hfl⟩ := hspec
      have hi : i < 32 := by
        rcases Nat.lt_or_ge i ns.length with h' | h'
        · omega
        · rw [List.getElem?_eq_none h'] at hget; cases hget
      obtain ⟨SL, o, SR, hsl, hSL, hsget⟩ := hashArray_split hi hlen
      rw [hsget] at hget; cases hget
      have hk1 := kidsH_cons hi (SR := SR) (some c) hSL
      rw [← hsl] at hk1
      have hmem : (i, c) ∈ kidsH ns := by rw [hk1]; simp
      have hfr : FramesOK h (⟨Node.hashArray cnt ns, i⟩ :: below) := ⟨by rw [← hs]; exact hwfn, hb⟩
      obtain ⟨st, hst, hok, hrem⟩ := ihw (i, c) hmem (⟨Node.hashArray cnt ns, i⟩ :: below) (by simp; omega) hfr
      have : ¬ below.length + 2 > 32 := by omega
      simp only [this, if_false]
      refine ⟨st, hst, hok, ?_⟩
      rw [hrem, toList_hashArray, hfl]
      simp [rest1]

/-- `moveStack()` advances to the next entry (or empties the stack) -/
theorem iterMoveStack_spec : ∀ (st : List (IterElem K V)), FramesOK h st →
    ∃ st', iterMoveStack st = .ok st' ∧ StackOK h st' ∧ remaining st' = st.flatMap rest1 := by
  intro st
  induction st with
  | nil =>
    intro _
    exact ⟨[], by rw [iterMoveStack]; rfl, ⟨trivial, trivial⟩, rfl⟩
  | cons f below ih =>
    intro hfr
    obtain ⟨hwf, hb⟩ := hfr
    obtain ⟨st0, h0, hok0, hrem0⟩ := ih hb
    obtain ⟨node, index⟩ := f
    simp only at hwf
    cases node with
    | array es =>
      rw [iterMoveStack]
      by_cases hlt : index + 1 < es.length
      · refine ⟨⟨Node.array es, index + 1⟩ :: below, by simp [hlt, pure, Except.pure], ⟨⟨hwf, hb⟩, hlt⟩, ?_⟩
        simp [remaining, cur, rest1]
      · refine ⟨st0, by simp [hlt, h0], hok0, ?_⟩
        rw [hrem0]
        have : es.drop (index + 1) = [] := List.drop_eq_nil_of_le (by omega)
        simp [rest1, this]
    | collision kh es =>
      rw [iterMoveStack]
      by_cases hlt : index + 1 < es.length
      · refine ⟨⟨Node.collision kh es, index + 1⟩ :: below, by simp [hlt, pure, Except.pure], ⟨⟨hwf, hb⟩, hlt⟩, ?_⟩
        simp [remaining, cur, rest1]
      · refine ⟨st0, by simp [hlt, h0], hok0, ?_⟩
        rw [hrem0]
        have : es.drop (index + 1) = [] := List.drop_eq_nil_of_le (by omega)
        simp [rest1, this]
    | value kh k v =>
      rw [iterMoveStack]
      exact ⟨st0, h0, hok0, by rw [hrem0]; simp [rest1]⟩
    | bitmap bm ns =>
      have hs32 := branch_shift_lt hwf (Or.inl ⟨bm, ns, rfl⟩)
      rw [iterMoveStack]
      by_cases hlt : index + 1 < ns.length
      · have hget : ns[index + 1]? = some ns[index + 1] := by simp [hlt]
        have hcwf := child_wf_bitmap hwf (c := ns[index + 1]) (by simp)
        have hfr' : FramesOK h (⟨Node.bitmap bm ns, index + 1⟩ :: below) := ⟨hwf, hb⟩
        obtain ⟨st1, h1, hok1, hrem1⟩ := iterFirst_spec hcwf (⟨Node.bitmap bm ns, index + 1⟩ :: below)
          (by simp; omega) hfr'
        have hd : ¬ below.length + 2 > 32 := by omega
        refine ⟨st1, by simp [hlt, hget, hd, h1], hok1, ?_⟩
        rw [hrem1]
        have : ns.drop (index + 1) = ns[index + 1] :: ns.drop (index + 1 + 1) := List.drop_eq_getElem_cons hlt
        simp only [List.flatMap_cons, rest1]
        rw [this]
        simp only [List.flatMap_cons, List.append_assoc]
      · refine ⟨st0, by simp [hlt, h0], hok0, ?_⟩
        rw [hrem0]
        have : ns.drop (index + 1) = [] := List.drop_eq_nil_of_le (by omega)
        simp [rest1, this]
    | hashArray cnt ns =>
      have hs32 := branch_shift_lt hwf (Or.inr ⟨cnt, ns, rfl⟩)
      have hspec := nextNonNil_spec ns (index + 1)
      rw [iterMoveStack]
      cases hf : nextNonNil ns (index + 1) with
      | none =>
        rw [hf] at hspec
        refine ⟨st0, by simp [h0], hok0, ?_⟩
        rw [hrem0]
        simp only at hspec
        simp [rest1, hspec]
      | some ic =>
        obtain ⟨i, c⟩ := ic
        rw [hf] at hspec
        obtain ⟨hget, hfl⟩ := hspec
        have hcwf := child_wf_hashArray hwf hget
        have hfr' : FramesOK h (⟨Node.hashArray cnt ns, i⟩ :: below) := ⟨hwf, hb⟩
        obtain ⟨st1, h1, hok1, hrem1⟩ := iterFirst_spec hcwf (⟨Node.hashArray cnt ns, i⟩ :: below)
          (by simp; omega) hfr'
        have hd : ¬ below.length + 2 > 32 := by omega
        refine ⟨st1, by simp [hd, h1], hok1, ?_⟩
        rw [hrem1]
        simp [rest1, hfl]

/-- `next` yields the head of what remains -/
theorem MapIter.next_spec {st : List (IterElem K V)} (hok : StackOK h st) (hne : st ≠ []) :
    ∃ e st', (MapIter.mk st).next = .ok (e, ⟨st'⟩) ∧ StackOK h st' ∧ remaining st = e :: remaining st' := by
  cases st with
  | nil => exact absurd rfl hne
  | cons f below =>
    obtain ⟨hfr, htop⟩ := hok
    obtain ⟨st', hmv, hok', hrem'⟩ := iterMoveStack_spec (f :: below) hfr
    obtain ⟨node, index⟩ := f
    simp only [List.flatMap_cons] at hrem'
    unfold MapIter.next
    cases node with
    | array es =>
      have hlt : index < es.length := htop
      refine ⟨es[index], st', by simp [hlt, hmv, bind, Except.bind, pure, Except.pure], hok', ?_⟩
      rw [hrem']
      simp only [remaining, cur, rest1]
      rw [List.drop_eq_getElem_cons hlt]
      simp only [List.cons_append]
    | collision kh es =>
      have hlt : index < es.length := htop
      refine ⟨es[index], st', by simp [hlt, hmv, bind, Except.bind, pure, Except.pure], hok', ?_⟩
      rw [hrem']
      simp only [remaining, cur, rest1]
      rw [List.drop_eq_getElem_cons hlt]
      simp only [List.cons_append]
    | value kh k v =>
      refine ⟨(k, v), st', by simp [hmv, bind, Except.bind, pure, Except.pure], hok', ?_⟩
      rw [hrem']
      simp [remaining, cur, rest1]
    | bitmap bm ns => exact absurd htop (by simp [TopOK])
    | hashArray cnt ns => exact absurd htop (by simp [TopOK])

theorem remaining_ne_nil {st : List (IterElem K V)} (hok : StackOK h st) (hne : st ≠ []) : remaining st ≠ [] := by
  obtain ⟨e, st', _, _, hrem⟩ := MapIter.next_spec hok hne
  rw [hrem]; simp

/-- draining an iterator yields exactly what remains -/
theorem MapIter.collect_spec : ∀ (fuel : Nat) {st : List (IterElem K V)}, StackOK h st →
    (remaining st).length ≤ fuel → (MapIter.mk st).collect fuel = .ok (remaining st) := by
  intro fuel
  induction fuel with
  | zero =>
    intro st hok hlen
    have : st = [] := by
      rcases st with _ | ⟨f, below⟩
      · rfl
      · have := remaining_ne_nil hok (by simp)
        have h0 : remaining (f :: below) = [] := List.eq_nil_of_length_eq_zero (by omega)
        exact absurd h0 this
    subst this
    simp [MapIter.collect, MapIter.hasNext, remaining, pure, Except.pure]
  | succ fuel ih =>
    intro st hok hlen
    rcases st with _ | ⟨f, below⟩
    · simp [MapIter.collect, MapIter.hasNext, remaining, pure, Except.pure]
    · obtain ⟨e, st', hnext, hok', hrem⟩ := MapIter.next_spec hok (by simp)
      have hlen' : (remaining st').length ≤ fuel := by rw [hrem] at hlen; simpa using hlen
      have := ih hok' hlen'
      simp [MapIter.collect, MapIter.hasNext, hnext, this, hrem, bind, Except.bind, pure, Except.pure]

/-- `Iterator()` of a well-formed map yields its entries, each once, in trie order, without panic -/
theorem Hamt.iterList_spec {m : Hamt K V} (hwf : Hamt.Inv h m) : m.iterList = .ok m.toList := by
  unfold Hamt.iterList Hamt.iterator
  cases hr : m.root with
  | none =>
    simp [Hamt.toList, hr, MapIter.collect, MapIter.hasNext, bind, Except.bind, pure, Except.pure]
  | some root =>
    have hw : FpVerif.Hamt.WF h 0 root ∧ m.size = root.toList.length := by
      unfold Hamt.Inv at hwf; simpa [hr] using hwf
    obtain ⟨st, hst, hok, hrem⟩ := iterFirst_spec hw.1 [] rfl trivial
    simp only [List.flatMap_nil, List.append_nil] at hrem
    have := MapIter.collect_spec (h := h) (m.size + 1) hok (by rw [hrem, hw.2]; omega)
    simp [hst, bind, Except.bind, pure, Except.pure, this, hrem, Hamt.toList, hr]

end FpVerif.Hamt
