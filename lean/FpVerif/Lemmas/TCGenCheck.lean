import Lean
import FpVerif.Gen.TCGen
/-!
# `#tc_ties` — every translated declaration has its tie theorem

`#tc_ties NS "p1." "p2." …` (used at the end of `Spec/C09Gen`, `C10Gen`, `C11Gen`, `C18Gen`) fails the build unless for
every entry `pkg.Name` / `pkg.Type.Method` of `FpVerif.Gen.TC.translated` that equals one of the strings, or starts with one that ends in a dot, there is
a THEOREM in namespace `NS` whose name starts with `pkg_Name` (resp. `pkg_Type_Method`) and ends in `is_model` (equality with / correspondence to the model definition) or `_def`
(a direct characterisation, for declarations the model has no definition for).
(This file is build infrastructure, not a model: it may import `Lean`; nothing an oracle links imports it.)
-/
open Lean Elab Command

syntax (name := tcTies) "#tc_ties " ident (ppSpace str)+ : command

@[command_elab tcTies] def elabTcTies : CommandElab := fun stx => do
  let ns := stx[1].getId
  let prefixes := stx[2].getArgs.toList.filterMap fun s => s.isStrLit?
  let env ← getEnv
  -- the theorems of the namespace
  let names : List String := env.constants.fold (init := []) fun acc n ci =>
    match ci with
    | .thmInfo _ =>
      if ns.isPrefixOf n && n.getPrefix == ns then
        match n with
        | .str _ s => s :: acc
        | _ => acc
      else acc
    | _ => acc
  let mut missing : List String := []
  let mut count : Nat := 0
  for key in FpVerif.Gen.TC.translated do
    if prefixes.any (fun p => key == p || (p.endsWith "." && key.startsWith p)) then
      count := count + 1
      let base := key.replace "." "_"
      unless names.any (fun s => s.startsWith (base ++ "_") && (s.endsWith "is_model" || s.endsWith "_def")) do
        missing := key :: missing
  if count == 0 then
    throwError "#tc_ties: no translated declaration matches {prefixes}"
  unless missing.isEmpty do
    throwError "#tc_ties: translated declarations without a tie theorem `…_is_model` in {ns}: {missing.reverse}"
  logInfo m!"#tc_ties {ns}: {count} translated declarations, each with its tie theorem"
