import FpVerif.Model.FnMonad
/-!
# Helper lemmas for `fn1.Memoize` (`Model/FnMonad.lean`): run-level semantics of the `GoS` primitives,
the sequential behaviour of the memo cell, and the invariant of the concurrent (`sync.Once`) model with
per-caller arguments.  The property statements are in `Spec/C01Fn.lean`.
-/
namespace FpVerif.FnM
variable {V A α β : Type}

/-- run a `GoS` computation from a given log and heap -/
def runS (c : GoS V α) (s : List Event × List (Cell V)) : Except PanicVal α × (List Event × List (Cell V)) :=
  c.run.run s

theorem runS_bind (c : GoS V α) (k : α → GoS V β) (s) :
    runS (c >>= k) s = match runS c s with
      | (.ok a, s') => runS (k a) s'
      | (.error p, s') => (.error p, s') := by
  unfold runS
  rw [ExceptT.run_bind, StateT.run_bind]
  rcases h : (ExceptT.run c).run s with ⟨r, s'⟩
  cases r <;> rfl

@[simp] theorem runS_pure (a : α) (s) : runS (Pure.pure a : GoS V α) s = (.ok a, s) := rfl
@[simp] theorem runS_throw (p : PanicVal) (s) : runS (throw p : GoS V α) s = (.error p, s) := rfl

theorem runS_tryCatch (c : GoS V α) (h : PanicVal → GoS V α) (s) :
    runS (tryCatch c h) s = match runS c s with
      | (.ok a, s') => (.ok a, s')
      | (.error p, s') => runS (h p) s' := by
  unfold runS
  simp only [tryCatch, tryCatchThe, MonadExceptOf.tryCatch, ExceptT.tryCatch, ExceptT.mk, ExceptT.run]
  show (StateT.run (bind _ _) s) = _
  rw [StateT.run_bind]
  rcases h : StateT.run c s with ⟨r, s'⟩
  cases r <;> rfl

@[simp] theorem runS_cellDone (i : Nat) (s) :
    runS (cellDone i : GoS V Bool) s = (.ok (match s.2[i]? with | some c => c.done | none => true), s) := rfl
@[simp] theorem runS_setDone (i : Nat) (s) :
    runS (setDone i : GoS V Unit) s = (.ok (), (s.1, s.2.modify i (fun c => { c with done := true }))) := rfl
@[simp] theorem runS_setRet (i : Nat) (v : V) (s) :
    runS (setRet i v : GoS V Unit) s = (.ok (), (s.1, s.2.modify i (fun c => { c with ret := v }))) := rfl
@[simp] theorem runS_getRet (zero : V) (i : Nat) (s) :
    runS (getRet zero i : GoS V V) s = (.ok (match s.2[i]? with | some c => c.ret | none => zero), s) := rfl
@[simp] theorem runS_allocCell (zero : V) (s) :
    runS (allocCell zero : GoS V Nat) s = (.ok s.2.length, (s.1, s.2 ++ [⟨false, zero⟩])) := rfl
@[simp] theorem runS_liftG (g : GoM α) (s) :
    runS (liftG g : GoS V α) s = ((g.run.run s.1).1, ((g.run.run s.1).2, s.2)) := rfl
end FpVerif.FnM

namespace FpVerif.FnM
variable {V A α β : Type}

theorem modify_eq_set_of_getElem? {α : Type} (l : List α) (i : Nat) (f : α → α) (c : α) (h : l[i]? = some c) :
    l.modify i f = l.set i (f c) := by
  apply List.ext_getElem?
  intro j
  by_cases hj : i = j
  · subst hj; simp [h]
    have : i < l.length := by
      rcases Nat.lt_or_ge i l.length with h1 | h1
      · exact h1
      · rw [List.getElem?_eq_none h1] at h; cases h
    simp [this]
  · simp [hj]

theorem runS_memoize (zero : V) (f : A → GoS V V) (l : List Event) (cs : List (Cell V)) :
    runS (memoize zero f) (l, cs) = (.ok (memoFn zero f cs.length), (l, cs ++ [⟨false, zero⟩])) := by
  simp only [memoize, runS_bind, runS_allocCell, runS_pure]

theorem runS_memoFn_done (zero : V) (f : A → GoS V V) (i : Nat) (a : A) (l : List Event) (cs : List (Cell V))
    (c : Cell V) (hc : cs[i]? = some c) (hd : c.done = true) :
    runS (memoFn zero f i a) (l, cs) = (.ok c.ret, (l, cs)) := by
  simp [memoFn, onceDo, runS_bind, hc, hd]

theorem runS_memoFn_first (zero : V) (f : A → GoS V V) (i : Nat) (a : A) (l : List Event) (cs : List (Cell V))
    (c : Cell V) (hc : cs[i]? = some c) (hd : c.done = false)
    (b : V) (l' : List Event) (cs' : List (Cell V)) (c' : Cell V)
    (hf : runS (f a) (l, cs) = (.ok b, (l', cs'))) (hc' : cs'[i]? = some c') :
    runS (memoFn zero f i a) (l, cs) = (.ok b, (l', cs'.set i ⟨true, b⟩)) := by
  simp [memoFn, onceDo, runS_bind, runS_tryCatch, hc, hd, hf, hc', List.modify_modify_eq]
  rw [modify_eq_set_of_getElem? _ _ _ _ hc']
  rfl

theorem runS_memoFn_first_panic (zero : V) (f : A → GoS V V) (i : Nat) (a : A) (l : List Event) (cs : List (Cell V))
    (c : Cell V) (hc : cs[i]? = some c) (hd : c.done = false)
    (p : PanicVal) (l' : List Event) (cs' : List (Cell V))
    (hf : runS (f a) (l, cs) = (.error p, (l', cs'))) :
    runS (memoFn zero f i a) (l, cs) = (.error p, (l', cs'.modify i (fun c => { c with done := true }))) := by
  simp [memoFn, onceDo, runS_bind, runS_tryCatch, hc, hd, hf]

theorem runS_attempt (c : GoS V α) (s) :
    runS (attempt c) s = match runS c s with
      | (.ok a, s') => (.ok (.ok a), s')
      | (.error p, s') => (.ok (.error p), s') := by
  simp only [attempt, runS_tryCatch, runS_bind]
  rcases runS c s with ⟨r, s'⟩
  cases r <;> rfl

theorem runS_calls_done (zero : V) (f : A → GoS V V) (i : Nat) (as : List A) (l : List Event) (cs : List (Cell V))
    (c : Cell V) (hc : cs[i]? = some c) (hd : c.done = true) :
    runS (calls (memoFn zero f i) as) (l, cs) = (.ok (List.replicate as.length (.ok c.ret)), (l, cs)) := by
  induction as with
  | nil => rfl
  | cons a as ih =>
    simp only [calls, runS_bind, runS_attempt, runS_memoFn_done zero f i a l cs c hc hd, ih, runS_pure,
      List.length_cons, List.replicate_succ]

theorem set_append_length {α : Type} (l : List α) (x y : α) : (l ++ [x]).set l.length y = l ++ [y] := by
  induction l with
  | nil => rfl
  | cons a l ih => simp [ih]

/-- sequence of recovered calls of a freshly memoised USER function (effects: log + panic only):
    `f` runs once, with the first argument; every later call returns the stored result -/
theorem runS_memo_calls_ok (zero : V) (f : A → GoM V) (a : A) (as : List A) (b : V) (evs : List Event)
    (l : List Event) (cs : List (Cell V))
    (hf : (f a).run.run l = (.ok b, l ++ evs)) :
    runS (do let g ← memoize zero (fun x => liftG (f x)); calls g (a :: as)) (l, cs)
      = (.ok (List.replicate (as.length + 1) (.ok b)), (l ++ evs, cs ++ [⟨true, b⟩])) := by
  have h1 := runS_memoFn_first zero (fun x => (liftG (f x) : GoS V V)) cs.length a l (cs ++ [⟨false, zero⟩])
    ⟨false, zero⟩ (by simp) rfl b (l ++ evs) (cs ++ [⟨false, zero⟩]) ⟨false, zero⟩
    (by simp [hf]) (by simp)
  rw [set_append_length] at h1
  have h2 := runS_calls_done zero (fun x => (liftG (f x) : GoS V V)) cs.length as (l ++ evs) (cs ++ [⟨true, b⟩])
    ⟨true, b⟩ (by simp) rfl
  simp only [runS_bind, runS_memoize, calls, runS_attempt, h1, h2, runS_pure, List.replicate_succ]

theorem runS_memo_calls_panic (zero : V) (f : A → GoM V) (a : A) (as : List A) (p : PanicVal) (evs : List Event)
    (l : List Event) (cs : List (Cell V))
    (hf : (f a).run.run l = (.error p, l ++ evs)) :
    runS (do let g ← memoize zero (fun x => liftG (f x)); calls g (a :: as)) (l, cs)
      = (.ok (.error p :: List.replicate as.length (.ok zero)), (l ++ evs, cs ++ [⟨true, zero⟩])) := by
  have h1 := runS_memoFn_first_panic zero (fun x => (liftG (f x) : GoS V V)) cs.length a l (cs ++ [⟨false, zero⟩])
    ⟨false, zero⟩ (by simp) rfl p (l ++ evs) (cs ++ [⟨false, zero⟩])
    (by simp [hf])
  rw [modify_eq_set_of_getElem? _ _ _ ⟨false, zero⟩ (by simp), set_append_length] at h1
  have h2 := runS_calls_done zero (fun x => (liftG (f x) : GoS V V)) cs.length as (l ++ evs) (cs ++ [⟨true, zero⟩])
    ⟨true, zero⟩ (by simp) rfl
  simp only [runS_bind, runS_memoize, calls, runS_attempt, h1, h2, runS_pure]
end FpVerif.FnM

namespace FpVerif.FnM
variable {T : Type}

theorem nRunning_set' (ts : List (Memo.TState T)) (i : Nat) (t old : Memo.TState T) (h : ts[i]? = some old) :
    Memo.nRunning (ts.set i t) + (if Memo.isRunning old then 1 else 0)
      = Memo.nRunning ts + (if Memo.isRunning t then 1 else 0) := by
  induction ts generalizing i with
  | nil => simp at h
  | cons x xs ih =>
    cases i with
    | zero =>
      simp at h; subst h
      simp [Memo.nRunning, List.set]; omega
    | succ j =>
      simp at h
      have := ih j h
      simp [Memo.nRunning, List.set] at this ⊢; omega

/-- invariant of the Once-guarded cell when every caller brings its own argument -/
structure InvArg (vals : Nat → T) (n : Nat) (s : Memo.Sys T) : Prop where
  len : s.threads.length = n
  runs_eq : s.runs = if s.cell.isSome then 1 else 0
  cell_v : ∀ r, s.cell = some r → ∃ w, w < n ∧ r = vals w
  busy_none : s.busy = true → s.cell = none
  running_eq : Memo.nRunning s.threads = if s.busy then 1 else 0
  returned_v : ∀ t ∈ s.threads, ∀ r, t = Memo.TState.returned r → s.cell = some r

theorem invArg_init (vals : Nat → T) (n : Nat) : InvArg vals n (Memo.init n : Memo.Sys T) where
  len := by simp [Memo.init]
  runs_eq := rfl
  cell_v := by intro r h; simp [Memo.init] at h
  busy_none := by simp [Memo.init]
  running_eq := by
    simp only [Memo.init, Memo.nRunning]
    induction n with
    | zero => rfl
    | succ n ih => simp_all [List.replicate_succ, Memo.isRunning]
  returned_v := by
    intro t ht r hr
    simp [Memo.init] at ht
    rw [ht.2] at hr; cases hr

theorem invArg_step (vals : Nat → T) (n : Nat) (s : Memo.Sys T) (i : Nat) (h : InvArg vals n s) :
    InvArg vals n (stepArg vals s i) := by
  obtain ⟨h0, h1, h2, h3, h4, h5⟩ := h
  unfold stepArg
  cases hti : s.threads[i]? with
  | none => exact ⟨h0, h1, h2, h3, h4, h5⟩
  | some t =>
    have hset := fun t' => nRunning_set' s.threads i t' t hti
    have hi : i < n := by
      rcases Nat.lt_or_ge i s.threads.length with h' | h'
      · omega
      · rw [List.getElem?_eq_none h'] at hti; cases hti
    cases t with
    | returned r => exact ⟨h0, h1, h2, h3, h4, h5⟩
    | idle =>
      cases hc : s.cell with
      | some r =>
        refine ⟨by simpa using h0, by simpa [hc] using h1, by simpa [hc] using h2, by simpa [hc] using h3, ?_, ?_⟩
        · have := hset (.returned r); simp [Memo.isRunning] at this; simpa [this] using h4
        · intro t' ht' r' hr'
          rcases List.mem_or_eq_of_mem_set ht' with hm | he
          · simpa [hc] using h5 t' hm r' hr'
          · subst he; cases hr'; rfl
      | none =>
        cases hb : s.busy with
        | true =>
          refine ⟨by simpa using h0, by simpa [hc] using h1, by simp, by simp, ?_, ?_⟩
          · have := hset .waiting; simp [Memo.isRunning] at this; simpa [this, hb] using h4
          · intro t' ht' r' hr'
            rcases List.mem_or_eq_of_mem_set ht' with hm | he
            · simpa [hc] using h5 t' hm r' hr'
            · subst he; cases hr'
        | false =>
          refine ⟨by simpa using h0, by simpa [hc] using h1, by simp, by simp, ?_, ?_⟩
          · have := hset .running; simp [Memo.isRunning] at this
            simp [hb] at h4; simp; omega
          · intro t' ht' r' hr'
            rcases List.mem_or_eq_of_mem_set ht' with hm | he
            · simpa [hc] using h5 t' hm r' hr'
            · subst he; cases hr'
    | waiting =>
      cases hc : s.cell with
      | some r =>
        refine ⟨by simpa using h0, by simpa [hc] using h1, by simpa [hc] using h2, by simpa [hc] using h3, ?_, ?_⟩
        · have := hset (.returned r); simp [Memo.isRunning] at this; simpa [this] using h4
        · intro t' ht' r' hr'
          rcases List.mem_or_eq_of_mem_set ht' with hm | he
          · simpa [hc] using h5 t' hm r' hr'
          · subst he; cases hr'; rfl
      | none =>
        cases hb : s.busy with
        | true => simpa [hc, hb] using (⟨h0, h1, h2, h3, h4, h5⟩ : InvArg vals n s)
        | false =>
          refine ⟨by simpa using h0, by simpa [hc] using h1, by simp, by simp, ?_, ?_⟩
          · have := hset .running; simp [Memo.isRunning] at this
            simp [hb] at h4; simp; omega
          · intro t' ht' r' hr'
            rcases List.mem_or_eq_of_mem_set ht' with hm | he
            · simpa [hc] using h5 t' hm r' hr'
            · subst he; cases hr'
    | running =>
      have hpos : 0 < Memo.nRunning s.threads := by
        have := hset .idle; simp [Memo.isRunning] at this; omega
      have hb : s.busy = true := by
        cases hb : s.busy with
        | true => rfl
        | false => simp [hb] at h4; omega
      have hc : s.cell = none := h3 hb
      refine ⟨by simpa using h0, by simp [hc] at h1; simp [h1], ?_, by simp, ?_, ?_⟩
      · intro r hr; simp at hr; exact ⟨i, hi, hr.symm⟩
      · have := hset (.returned (vals i)); simp [Memo.isRunning] at this
        simp [hb] at h4; simp; omega
      · intro t' ht' r' hr'
        rcases List.mem_or_eq_of_mem_set ht' with hm | he
        · have := h5 t' hm r' hr'; simp [hc] at this
        · subst he; cases hr'; rfl
end FpVerif.FnM

-- `liftG` (user callbacks, no access to the cells) is a monad morphism `GoM → GoS V` ---------------------
namespace FpVerif.FnM
variable {V A B X α β : Type}

theorem goS_ext (c d : GoS V α) (h : ∀ s, runS c s = runS d s) : c = d := by
  apply ExceptT.ext
  apply StateT.ext
  intro s
  exact h s

theorem liftG_pure (a : α) : (liftG (Pure.pure a) : GoS V α) = Pure.pure a := by
  apply goS_ext; intro s; rfl

theorem liftG_bind (g : GoM α) (k : α → GoM β) :
    (liftG (g >>= k) : GoS V β) = liftG g >>= fun a => liftG (k a) := by
  apply goS_ext; intro s
  rw [runS_bind]
  simp only [runS_liftG]
  rw [ExceptT.run_bind, StateT.run_bind]
  rcases h : (ExceptT.run g).run s.1 with ⟨r, l⟩
  cases r <;> rfl

theorem liftG_throw (p : PanicVal) : (liftG (throw p) : GoS V α) = throw p := by
  apply goS_ext; intro s; rfl

theorem liftG_emit (e : Event) : (liftG (emit e) : GoS V Unit) = emitS e := by
  apply goS_ext; intro s; rfl

end FpVerif.FnM
