import FpVerif.Model.EvalPanic
import FpVerif.Lemmas.CellHeap
/-!
# Helper lemmas for `Model/EvalPanic.lean`

`Ext hp hp'`: how the heap of an Eval client program evolves — cells are only added, keep their thunk, are frozen once
their `Once` has fired; variables keep their value; and `OK` (every thunk started at most once, exactly once iff
its `Once` has fired) is preserved.  Every operation of the machine is `Good Ext`.
-/
namespace FpVerif.EvalP
open FpVerif FpVerif.It FpVerif.MemoPanic

variable {T X : Type}

/-- every memo cell: started at most once, exactly once iff done -/
def Heap.OK (hp : Heap T) : Prop :=
  (∀ cc ∈ hp.calls, CellOK cc.cell) ∧ (∀ tc ∈ hp.tails, CellOK tc.cell)

structure Ext (hp hp' : Heap T) : Prop where
  calls : ExtL (fun (cc : CallCell T) => cc.f) (fun cc => cc.cell.done) hp.calls hp'.calls
  tails : ExtL (fun (tc : TailCell T) => tc.f) (fun tc => tc.cell.done) hp.tails hp'.tails
  roots : ∀ (j : Nat) (e : EvalV T), hp.roots[j]? = some e → hp'.roots[j]? = some e
  ok : hp.OK → hp'.OK

theorem Ext.refl (hp : Heap T) : Ext hp hp :=
  ⟨ExtL.refl _ _ _, ExtL.refl _ _ _, fun _ _ h => h, id⟩

theorem Ext.trans {a b c : Heap T} (h1 : Ext a b) (h2 : Ext b c) : Ext a c :=
  ⟨h1.calls.trans h2.calls, h1.tails.trans h2.tails, fun j e h => h2.roots j e (h1.roots j e h),
   fun h => h2.ok (h1.ok h)⟩

abbrev GoodE (m : HM T X) : Prop := Good Ext m

theorem goodE_pure (x : X) : GoodE (pure x : HM T X) := good_pure Ext.refl x
theorem goodE_panic (p : PanicVal) : GoodE (IM.panic p : HM T X) := good_panic Ext.refl p
theorem goodE_liftG (g : GoM X) : GoodE (IM.liftG g : HM T X) := good_liftG Ext.refl g
theorem goodE_bind {Y : Type} {m : HM T X} {k : X → HM T Y} (hm : GoodE m) (hk : ∀ x, GoodE (k x)) :
    GoodE (m >>= k) := good_bind (R := Ext) (fun _ _ _ h1 h2 => Ext.trans h1 h2) hm hk

theorem goodE_emitAll (evs : List Event) : GoodE (emitAll evs : HM T Unit) := fun hp _ => Ext.refl hp

theorem goodE_allocCall (zero : T) (f : Nat → GoM T) : GoodE (allocCall zero f) := by
  intro hp lg
  refine ⟨ExtL.append _ _ _ _, ExtL.refl _ _ _, fun _ _ h => h, ?_⟩
  rintro ⟨h1, h2⟩
  refine ⟨?_, h2⟩
  intro cc hcc
  simp only [allocCall, List.mem_append, List.mem_singleton] at hcc
  rcases hcc with h | h
  · exact h1 cc h
  · subst h; exact cellOK_fresh zero

theorem goodE_allocTail (f : Nat → Prog T) : GoodE (allocTail f) := by
  intro hp lg
  refine ⟨ExtL.refl _ _ _, ExtL.append _ _ _ _, fun _ _ h => h, ?_⟩
  rintro ⟨h1, h2⟩
  refine ⟨h1, ?_⟩
  intro tc htc
  simp only [allocTail, List.mem_append, List.mem_singleton] at htc
  rcases htc with h | h
  · exact h2 tc h
  · subst h; exact cellOK_fresh _

-- `build` only allocates ---------------------------------------------------------------------------------------

/-- the heap grew by fresh cells, nothing else changed -/
def Grow (hp hp' : Heap T) : Prop :=
  (∃ cs, hp'.calls = hp.calls ++ cs ∧ ∀ cc ∈ cs, CellOK cc.cell)
  ∧ (∃ ts, hp'.tails = hp.tails ++ ts ∧ ∀ tc ∈ ts, CellOK tc.cell)
  ∧ hp'.roots = hp.roots

theorem Grow.refl (hp : Heap T) : Grow hp hp :=
  ⟨⟨[], by simp, by simp⟩, ⟨[], by simp, by simp⟩, rfl⟩

theorem Grow.trans {a b c : Heap T} (h1 : Grow a b) (h2 : Grow b c) : Grow a c := by
  obtain ⟨⟨cs1, e1, o1⟩, ⟨ts1, f1, p1⟩, r1⟩ := h1
  obtain ⟨⟨cs2, e2, o2⟩, ⟨ts2, f2, p2⟩, r2⟩ := h2
  refine ⟨⟨cs1 ++ cs2, by rw [e2, e1, List.append_assoc], ?_⟩, ⟨ts1 ++ ts2, by rw [f2, f1, List.append_assoc], ?_⟩,
    r2.trans r1⟩
  · intro cc h; rcases List.mem_append.mp h with h | h; exact o1 cc h; exact o2 cc h
  · intro tc h; rcases List.mem_append.mp h with h | h; exact p1 tc h; exact p2 tc h

theorem extL_append_list {α β : Type} (key : α → β) (done : α → Bool) (l xs : List α) :
    ExtL key done l (l ++ xs) := by
  intro c a h
  refine ⟨a, ?_, rfl, fun _ => rfl⟩
  have hlt : c < l.length := (List.getElem?_eq_some_iff.mp h).1
  rw [List.getElem?_append_left hlt]; exact h

theorem Grow.ext {hp hp' : Heap T} (h : Grow hp hp') : Ext hp hp' := by
  obtain ⟨⟨cs, e, o⟩, ⟨ts, f, p⟩, r⟩ := h
  refine ⟨by rw [e]; exact extL_append_list _ _ _ _, by rw [f]; exact extL_append_list _ _ _ _,
    fun j ev hj => by rw [r]; exact hj, ?_⟩
  rintro ⟨h1, h2⟩
  refine ⟨?_, ?_⟩
  · intro cc hcc; rw [e] at hcc; rcases List.mem_append.mp hcc with h | h; exact h1 cc h; exact o cc h
  · intro tc htc; rw [f] at htc; rcases List.mem_append.mp htc with h | h; exact h2 tc h; exact p tc h

theorem goodG_bind {Y : Type} {m : HM T X} {k : X → HM T Y} (hm : Good Grow m) (hk : ∀ x, Good Grow (k x)) :
    Good Grow (m >>= k) := good_bind (R := Grow) (fun _ _ _ h1 h2 => Grow.trans h1 h2) hm hk

theorem goodG_build (zero : T) (p : Prog T) : Good Grow (build zero p) := by
  induction p with
  | done t => exact good_pure Grow.refl _
  | zero => exact good_pure Grow.refl _
  | call f =>
    refine goodG_bind ?_ (fun _ => good_pure Grow.refl _)
    intro hp lg
    exact ⟨⟨[_], rfl, by simp [cellOK_fresh]⟩, ⟨[], by simp [allocCall], by simp⟩, rfl⟩
  | tailCall f _ =>
    refine goodG_bind ?_ (fun _ => good_pure Grow.refl _)
    intro hp lg
    exact ⟨⟨[], by simp [allocTail], by simp⟩, ⟨[_], rfl, by simp [cellOK_fresh]⟩, rfl⟩
  | flatMap p k ihp _ => exact goodG_bind ihp (fun _ => good_pure Grow.refl _)
  | map p f ihp => exact goodG_bind ihp (fun _ => good_pure Grow.refl _)
  | map2 p q f ihp ihq => exact goodG_bind ihp (fun _ => goodG_bind ihq (fun _ => good_pure Grow.refl _))
  | logged evs p ih => exact goodG_bind (fun hp _ => Grow.refl hp) (fun _ => ih)
  | panic pv => exact good_panic Grow.refl pv
  | ref j =>
    intro hp lg
    simp only [build]
    split <;> exact Grow.refl hp

theorem goodE_build (zero : T) (p : Prog T) : GoodE (build zero p) :=
  fun hp lg => (goodG_build zero p hp lg).ext

theorem forall_mem_set' {α : Type} {P : α → Prop} {l : List α} {i : Nat} {new : α}
    (h : ∀ a ∈ l, P a) (hn : P new) : ∀ a ∈ l.set i new, P a := by
  intro a ha
  rcases List.mem_or_eq_of_mem_set ha with hm | he
  · exact h a hm
  · exact he ▸ hn

theorem goodE_forceCall (c : Nat) : GoodE (forceCall c : HM T T) := by
  intro hp lg
  simp only [forceCall]
  cases hc : hp.calls[c]? with
  | none => exact Ext.refl hp
  | some cc =>
    simp only
    refine ⟨ExtL.set _ _ _ c cc _ hc rfl ?_, ExtL.refl _ _ _, fun _ _ h => h, ?_⟩
    · intro hd
      rw [get_stable cc.f cc.cell lg hd]
    · rintro ⟨h1, h2⟩
      refine ⟨forall_mem_set' h1 ?_, h2⟩
      exact get_cellOK cc.f cc.cell lg (h1 cc (List.mem_of_getElem? hc))

/-- writing the outcome of a tail cell's first execution into the heap that executing the thunk left -/
theorem ext_setTail {hp hp' : Heap T} (h : Grow hp hp') (c : Nat) (tc : TailCell T) (hc : hp.tails[c]? = some tc)
    (hnd : tc.cell.done = false) (cell' : Cell (EvalV T)) (hok : hp.OK → CellOK cell') :
    Ext hp { hp' with tails := hp'.tails.set c { tc with cell := cell' } } := by
  have hc' : hp'.tails[c]? = some tc := by
    obtain ⟨_, ⟨ts, f, _⟩, _⟩ := h
    have hlt : c < hp.tails.length := (List.getElem?_eq_some_iff.mp hc).1
    rw [f, List.getElem?_append_left hlt]; exact hc
  have he := h.ext
  refine ⟨he.calls, ?_, he.roots, ?_⟩
  · refine he.tails.trans (ExtL.set _ _ _ c tc _ hc' rfl ?_)
    intro hd; rw [hnd] at hd; cases hd
  · intro hOK
    obtain ⟨h1, h2⟩ := he.ok hOK
    exact ⟨h1, forall_mem_set' h2 (hok hOK)⟩

theorem goodE_forceTail (zero : T) (c : Nat) : GoodE (forceTail zero c) := by
  intro hp lg
  simp only [forceTail]
  cases hc : hp.tails[c]? with
  | none => exact Ext.refl hp
  | some tc =>
    simp only
    cases hd : tc.cell.done with
    | true => exact Ext.refl hp
    | false =>
      simp only [Bool.false_eq_true, if_false]
      have hg := goodG_build zero (tc.f tc.cell.runs) hp lg
      rcases hb : build zero (tc.f tc.cell.runs) hp lg with ⟨r, hp', lg'⟩
      rw [hb] at hg
      simp only at hg
      have hruns : hp.OK → tc.cell.runs = 0 := by
        intro hOK
        have := hOK.2 tc (List.mem_of_getElem? hc)
        simpa [CellOK, hd] using this
      cases r with
      | ok e => exact ext_setTail hg c tc hc hd _ (fun hOK => by simp [CellOK, hruns hOK])
      | error p => exact ext_setTail hg c tc hc hd _ (fun hOK => by simp [CellOK, hruns hOK])

theorem goodE_callFirst (zero : T) (first : First T) : GoodE (callFirst zero first) := by
  cases first with
  | nil => exact goodE_pure _
  | const t => exact goodE_pure _
  | memo c => exact goodE_forceCall c

theorem goodE_applyK (zero : T) (k : Kont T) (v : T) : GoodE (applyK zero k v) := by
  induction k generalizing v with
  | user k => exact goodE_build zero (k v)
  | mapF f => exact goodE_bind (goodE_liftG _) (fun _ => goodE_pure _)
  | map2L bFirst f => exact goodE_pure _
  | map2C bFirst bNext f _ => exact goodE_pure _
  | tail c => exact goodE_forceTail zero c
  | comp g f ihg _ => exact goodE_bind (ihg v) (fun _ => goodE_pure _)

theorem goodE_resume (zero : T) (e : EvalV T) : GoodE (resume zero e) := by
  cases e with
  | leaf first => exact goodE_bind (goodE_callFirst zero first) (fun _ => goodE_pure _)
  | cont first next =>
    exact goodE_bind (goodE_callFirst zero first) (fun v => goodE_bind (goodE_applyK zero next v) (fun _ => goodE_pure _))

theorem goodE_runLoop (zero : T) (fuel : Nat) (e : EvalV T) : GoodE (runLoop zero fuel e) := by
  induction fuel generalizing e with
  | zero => exact goodE_panic _
  | succ n ih =>
    refine goodE_bind (goodE_resume zero e) (fun r => ?_)
    cases r with
    | inl v => exact goodE_pure _
    | inr e' => exact ih e'

theorem goodE_root (j : Nat) : GoodE (root j : HM T (EvalV T)) := by
  intro hp lg
  simp only [root]
  split <;> exact Ext.refl hp

theorem goodE_pushRoot (e : EvalV T) : GoodE (pushRoot e) := by
  intro hp lg
  refine ⟨ExtL.refl _ _ _, ExtL.refl _ _ _, ?_, id⟩
  intro j ev hj
  have hlt : j < hp.roots.length := (List.getElem?_eq_some_iff.mp hj).1
  simp only [pushRoot]
  rw [List.getElem?_append_left hlt]; exact hj

theorem goodE_exec (zero : T) (fuel : Nat) (c : Cmd T) : GoodE (exec zero fuel c) := by
  cases c with
  | define p =>
    refine goodE_bind (good_attempt (goodE_build zero p)) (fun r => ?_)
    cases r with
    | ok e => exact goodE_bind (goodE_pushRoot e) (fun _ => goodE_pure _)
    | error pv => exact goodE_bind (goodE_pushRoot _) (fun _ => goodE_pure _)
  | get j =>
    refine goodE_bind (good_attempt (goodE_bind (goodE_root j) (fun e => goodE_runLoop zero fuel e))) (fun r => ?_)
    cases r with
    | ok v => exact goodE_pure _
    | error pv => exact goodE_pure _

theorem goodE_execAll (zero : T) (fuel : Nat) (cs : List (Cmd T)) : GoodE (execAll zero fuel cs) := by
  induction cs with
  | nil => exact goodE_pure _
  | cons c cs ih => exact goodE_bind (goodE_exec zero fuel c) (fun _ => goodE_bind ih (fun _ => goodE_pure _))

theorem ok_empty : (({} : Heap T)).OK := ⟨by simp, by simp⟩

-- ---------------------------------------------------------------------------------- Get on a Call / TailCall

theorem build_call (zero : T) (f : Nat → GoM T) (hp : Heap T) (lg : Log) :
    build zero (.call f) hp lg
      = (.ok (.leaf (.memo hp.calls.length)),
         { hp with calls := hp.calls ++ [{ f := f, cell := Cell.fresh zero }] }, lg) := rfl

theorem build_tailCall (zero : T) (f : Nat → Prog T) (hp : Heap T) (lg : Log) :
    build zero (.tailCall f) hp lg
      = (.ok (.cont (.const zero) (.tail hp.tails.length)),
         { hp with tails := hp.tails ++ [{ f := f, cell := Cell.fresh (.leaf .nil) }] }, lg) := rfl

/-- `Get` on the Eval of a `Call` whose cell has not fired: the first execution of `f` -/
theorem runLoop_call_fresh (zero : T) (fuel : Nat) (c : Nat) (f : Nat → GoM T) (hp : Heap T) (lg : Log)
    (hc : hp.calls[c]? = some { f := f, cell := Cell.fresh zero }) :
    runLoop zero (fuel + 1) (.leaf (.memo c)) hp lg
      = (((f 0).run.run lg).1,
         { hp with calls := hp.calls.set c { f := f, cell := { done := true, ret := memoOf zero ((f 0).run.run lg).1, runs := 1 } } },
         ((f 0).run.run lg).2) := by
  simp only [runLoop, resume, callFirst, im_bind_apply, forceCall, hc, get_fresh]
  rcases (f 0).run.run lg with ⟨r, lg'⟩
  cases r <;> rfl

/-- `Get` on the Eval of a `Call` whose cell has fired: the memo, nothing runs, nothing changes -/
theorem runLoop_call_done (zero : T) (fuel : Nat) (c : Nat) (cc : CallCell T) (hp : Heap T) (lg : Log)
    (hc : hp.calls[c]? = some cc) (hd : cc.cell.done = true) :
    runLoop zero (fuel + 1) (.leaf (.memo c)) hp lg = (.ok cc.cell.ret, hp, lg) := by
  simp only [runLoop, resume, callFirst, im_bind_apply, forceCall, hc, get_of_done cc.f cc.cell lg hd]
  have : hp.calls.set c { f := cc.f, cell := cc.cell } = hp.calls := set_same hc
  simp only [this]
  rfl

/-- `Get` on the Eval of a `TailCall` whose cell has not fired and whose thunk panics while producing its Eval -/
theorem runLoop_tail_fresh_panic (zero : T) (fuel : Nat) (c : Nat) (tc : TailCell T) (hp hp' : Heap T) (lg lg' : Log)
    (p : PanicVal) (hc : hp.tails[c]? = some tc) (hd : tc.cell.done = false)
    (hb : build zero (tc.f tc.cell.runs) hp lg = (.error p, hp', lg')) :
    runLoop zero (fuel + 1) (.cont (.const zero) (.tail c)) hp lg
      = (.error p,
         { hp' with tails := hp'.tails.set c { tc with cell := { tc.cell with done := true, runs := tc.cell.runs + 1 } } },
         lg') := by
  simp only [runLoop, resume, callFirst, im_bind_apply, im_pure_apply, applyK, forceTail, hc, hd, hb,
    Bool.false_eq_true, if_false]

/-- … whose thunk produces the Eval `e`: `Run` continues with `e`, the cell keeps it -/
theorem runLoop_tail_fresh_ok (zero : T) (fuel : Nat) (c : Nat) (tc : TailCell T) (hp hp' : Heap T) (lg lg' : Log)
    (e : EvalV T) (hc : hp.tails[c]? = some tc) (hd : tc.cell.done = false)
    (hb : build zero (tc.f tc.cell.runs) hp lg = (.ok e, hp', lg')) :
    runLoop zero (fuel + 1) (.cont (.const zero) (.tail c)) hp lg
      = runLoop zero fuel e
          { hp' with tails := hp'.tails.set c { tc with cell := { done := true, ret := e, runs := tc.cell.runs + 1 } } }
          lg' := by
  simp only [runLoop, resume, callFirst, im_bind_apply, im_pure_apply, applyK, forceTail, hc, hd, hb,
    Bool.false_eq_true, if_false]

/-- `Get` on the Eval of a `TailCall` whose cell has fired: the thunk is not consulted, `Run` continues with the memo -/
theorem runLoop_tail_done (zero : T) (fuel : Nat) (c : Nat) (tc : TailCell T) (hp : Heap T) (lg : Log)
    (hc : hp.tails[c]? = some tc) (hd : tc.cell.done = true) :
    runLoop zero (fuel + 1) (.cont (.const zero) (.tail c)) hp lg = runLoop zero fuel tc.cell.ret hp lg := by
  simp only [runLoop, resume, callFirst, im_bind_apply, im_pure_apply, applyK, forceTail, hc, hd, if_true]

/-- the zero `Eval[T]{}` evaluates to the zero value -/
theorem runLoop_zero (zero : T) (fuel : Nat) (hp : Heap T) (lg : Log) :
    runLoop zero (fuel + 1) (.leaf .nil) hp lg = (.ok zero, hp, lg) := rfl

-- ---------------------------------------------------------------------------------- packaged: first Get, later Gets

/-- after the first `Get` the call cell `c` has fired and holds the memo -/
theorem call_first (zero : T) (fuel : Nat) (c : Nat) (f : Nat → GoM T) (hp : Heap T) (lg : Log)
    (hc : hp.calls[c]? = some { f := f, cell := Cell.fresh zero }) :
    ∃ hp2, runLoop zero (fuel + 1) (.leaf (.memo c)) hp lg = (((f 0).run.run lg).1, hp2, ((f 0).run.run lg).2)
      ∧ ∃ cc, hp2.calls[c]? = some cc ∧ cc.cell.done = true ∧ cc.cell.ret = memoOf zero ((f 0).run.run lg).1 := by
  refine ⟨_, runLoop_call_fresh zero fuel c f hp lg hc,
    { f := f, cell := { done := true, ret := memoOf zero ((f 0).run.run lg).1, runs := 1 } }, ?_, rfl, rfl⟩
  have hlt : c < hp.calls.length := (List.getElem?_eq_some_iff.mp hc).1
  simp [hlt]

/-- a fired call cell answers every later `Get`, whatever the client program did in between -/
theorem call_later (zero : T) (c : Nat) (cc : CallCell T) (hp2 : Heap T) (hc : hp2.calls[c]? = some cc)
    (hd : cc.cell.done = true) (between : List (Cmd T)) (fuel' fuel'' : Nat) (lg2 lg3 : Log) :
    runLoop zero (fuel'' + 1) (.leaf (.memo c)) (execAll zero fuel' between hp2 lg2).2.1 lg3
      = (.ok cc.cell.ret, (execAll zero fuel' between hp2 lg2).2.1, lg3) := by
  obtain ⟨cc', h1, _, h3⟩ := (goodE_execAll zero fuel' between hp2 lg2).calls c cc hc
  rw [h3 hd] at h1
  exact runLoop_call_done zero fuel'' c cc _ lg3 h1 hd

/-- the cell survives (at the same index) the allocations its own thunk performs -/
theorem tails_after_build (zero : T) (p : Prog T) (hp : Heap T) (lg : Log) (c : Nat) (tc : TailCell T)
    (hc : hp.tails[c]? = some tc) : (build zero p hp lg).2.1.tails[c]? = some tc := by
  obtain ⟨_, ⟨ts, hts, _⟩, _⟩ := goodG_build zero p hp lg
  have hlt : c < hp.tails.length := (List.getElem?_eq_some_iff.mp hc).1
  rw [hts, List.getElem?_append_left hlt]; exact hc

theorem tail_first_panic (zero : T) (fuel : Nat) (c : Nat) (tc : TailCell T) (hp hp' : Heap T) (lg lg' : Log)
    (p : PanicVal) (hc : hp.tails[c]? = some tc) (hd : tc.cell.done = false)
    (hb : build zero (tc.f tc.cell.runs) hp lg = (.error p, hp', lg')) :
    ∃ hp2, runLoop zero (fuel + 1) (.cont (.const zero) (.tail c)) hp lg = (.error p, hp2, lg')
      ∧ ∃ tc', hp2.tails[c]? = some tc' ∧ tc'.cell.done = true ∧ tc'.cell.ret = tc.cell.ret := by
  refine ⟨_, runLoop_tail_fresh_panic zero fuel c tc hp hp' lg lg' p hc hd hb,
    { tc with cell := { tc.cell with done := true, runs := tc.cell.runs + 1 } }, ?_, rfl, rfl⟩
  have h1 := tails_after_build zero (tc.f tc.cell.runs) hp lg c tc hc
  rw [hb] at h1
  have hlt : c < hp'.tails.length := (List.getElem?_eq_some_iff.mp h1).1
  simp [hlt]

theorem tail_first_ok (zero : T) (fuel : Nat) (c : Nat) (tc : TailCell T) (hp hp' : Heap T) (lg lg' : Log)
    (e : EvalV T) (hc : hp.tails[c]? = some tc) (hd : tc.cell.done = false)
    (hb : build zero (tc.f tc.cell.runs) hp lg = (.ok e, hp', lg')) :
    ∃ hp2, runLoop zero (fuel + 1) (.cont (.const zero) (.tail c)) hp lg = runLoop zero fuel e hp2 lg'
      ∧ ∃ tc', hp2.tails[c]? = some tc' ∧ tc'.cell.done = true ∧ tc'.cell.ret = e := by
  refine ⟨_, runLoop_tail_fresh_ok zero fuel c tc hp hp' lg lg' e hc hd hb,
    { tc with cell := { done := true, ret := e, runs := tc.cell.runs + 1 } }, ?_, rfl, rfl⟩
  have h1 := tails_after_build zero (tc.f tc.cell.runs) hp lg c tc hc
  rw [hb] at h1
  have hlt : c < hp'.tails.length := (List.getElem?_eq_some_iff.mp h1).1
  simp [hlt]

theorem tail_later (zero : T) (c : Nat) (tc : TailCell T) (hp2 : Heap T) (hc : hp2.tails[c]? = some tc)
    (hd : tc.cell.done = true) (between : List (Cmd T)) (fuel' fuel'' : Nat) (lg2 lg3 : Log) :
    runLoop zero (fuel'' + 1) (.cont (.const zero) (.tail c)) (execAll zero fuel' between hp2 lg2).2.1 lg3
      = runLoop zero fuel'' tc.cell.ret (execAll zero fuel' between hp2 lg2).2.1 lg3 := by
  obtain ⟨tc', h1, _, h3⟩ := (goodE_execAll zero fuel' between hp2 lg2).tails c tc hc
  rw [h3 hd] at h1
  exact runLoop_tail_done zero fuel'' c tc _ lg3 h1 hd

end FpVerif.EvalP
