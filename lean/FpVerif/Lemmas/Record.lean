import FpVerif.Model.Record
import FpVerif.Lemmas.RecordMask
/-!
# Helper lemmas for C07 (record model).  Core Lean only.
-/
namespace FpVerif.Rec

/-- `x` on the applicable fields, `b` on the others -/
def pick : List Field → Rec → Rec → Rec
  | f :: fs, v :: vs, w :: ws => (if f.applicable then v else w) :: pick fs vs ws
  | _, _, _ => []

theorem getF_set_same (x : Rec) (i : Nat) (v : RV) (h : i < x.length) : getF i (x.set i v) = v := by
  simp [getF, List.getD_eq_getElem?_getD, h]

theorem getF_set_other (x : Rec) (i j : Nat) (v : RV) (h : i ≠ j) : getF j (x.set i v) = getF j x := by
  simp [getF, List.getD_eq_getElem?_getD, List.getElem?_set_ne h]

theorem project_length (fs : List Field) (x : Rec) (h : x.length = fs.length) :
    (project fs x).length = (fs.filter Field.applicable).length := by
  induction fs generalizing x with
  | nil => cases x <;> simp [project]
  | cons f fs ih =>
    cases x with
    | nil => simp at h
    | cons v vs =>
      have := ih vs (by simpa using h)
      cases hf : f.applicable <;> simp [project, hf, this]

theorem pick_length (fs : List Field) (x b : Rec) (hx : x.length = fs.length) (hb : b.length = fs.length) :
    (pick fs x b).length = fs.length := by
  induction fs generalizing x b with
  | nil => cases x <;> cases b <;> simp [pick]
  | cons f fs ih =>
    cases x with
    | nil => simp at hx
    | cons v vs =>
      cases b with
      | nil => simp at hb
      | cons w ws => simp [pick, ih vs ws (by simpa using hx) (by simpa using hb)]

/-- `FromTuple(AsTuple(x))`, `Apply(Unapply(x))`: the applicable fields come from `x`, the rest stays -/
theorem inject_project (fs : List Field) (x b : Rec) (hx : x.length = fs.length) (hb : b.length = fs.length) :
    inject fs b (project fs x) = pick fs x b := by
  induction fs generalizing x b with
  | nil => cases x <;> cases b <;> simp_all [inject, pick]
  | cons f fs ih =>
    cases x with
    | nil => simp at hx
    | cons v vs =>
      cases b with
      | nil => simp at hb
      | cons w ws =>
        have := ih vs ws (by simpa using hx) (by simpa using hb)
        cases hf : f.applicable <;> simp [inject, project, pick, hf, this]

/-- `AsTuple(FromTuple(t))` gives `t` back -/
theorem project_inject (fs : List Field) (b t : Rec) (hb : b.length = fs.length)
    (ht : t.length = (fs.filter Field.applicable).length) : project fs (inject fs b t) = t := by
  induction fs generalizing b t with
  | nil => cases t <;> simp_all [inject, project]
  | cons f fs ih =>
    cases b with
    | nil => simp at hb
    | cons w ws =>
      cases hf : f.applicable
      · simp [hf] at ht
        simp [inject, project, hf, ih ws t (by simpa using hb) ht]
      · cases t with
        | nil => simp [hf] at ht
        | cons v t' =>
          simp [hf] at ht
          simp [inject, project, hf, ih ws t' (by simpa using hb) ht]

theorem getF_pick (fs : List Field) (x b : Rec) (i : Nat) (f : Field) (hx : x.length = fs.length)
    (hb : b.length = fs.length) (hf : fs[i]? = some f) :
    getF i (pick fs x b) = if f.applicable then getF i x else getF i b := by
  induction fs generalizing x b i with
  | nil => simp at hf
  | cons g fs ih =>
    cases x with
    | nil => simp at hx
    | cons v vs =>
      cases b with
      | nil => simp at hb
      | cons w ws =>
        cases i with
        | zero =>
          simp at hf
          subst hf
          cases h : g.applicable <;> simp [pick, getF, h]
        | succ i =>
          have := ih vs ws i (by simpa using hx) (by simpa using hb) (by simpa using hf)
          simpa [pick, getF] using this

/-- the tuple is the subsequence of the applicable fields, in declaration order -/
theorem project_eq_filter (fs : List Field) (x : Rec) (h : x.length = fs.length) :
    project fs x = ((fs.zip x).filter (fun p => p.1.applicable)).map (·.2) := by
  induction fs generalizing x with
  | nil => cases x <;> simp [project]
  | cons f fs ih =>
    cases x with
    | nil => simp at h
    | cons v vs =>
      have := ih vs (by simpa using h)
      cases hf : f.applicable <;> simp [project, hf, this]

theorem labels_values (fs : List Field) (x : Rec) : (labels fs x).map Lab.value = project fs x := by
  induction fs generalizing x with
  | nil => cases x <;> simp [labels, project]
  | cons f fs ih =>
    cases x with
    | nil => simp [labels, project]
    | cons v vs => cases hf : f.applicable <;> simp [labels, project, hf, ih]

theorem labels_names (fs : List Field) (x : Rec) (h : x.length = fs.length) :
    (labels fs x).map Lab.name = (fs.filter Field.applicable).map Field.name := by
  induction fs generalizing x with
  | nil => cases x <;> simp [labels]
  | cons f fs ih =>
    cases x with
    | nil => simp at h
    | cons v vs =>
      have := ih vs (by simpa using h)
      cases hf : f.applicable <;> simp [labels, hf, this]

theorem labels_tags (fs : List Field) (x : Rec) (h : x.length = fs.length) :
    (labels fs x).map Lab.tag = (fs.filter Field.applicable).map Field.tag := by
  induction fs generalizing x with
  | nil => cases x <;> simp [labels]
  | cons f fs ih =>
    cases x with
    | nil => simp at h
    | cons v vs =>
      have := ih vs (by simpa using h)
      cases hf : f.applicable <;> simp [labels, hf, this]

theorem mask_eq_pick_zero (fs : List Field) (x : Rec) (h : x.length = fs.length) :
    mask fs x = pick fs x (fs.map Field.zero) := by
  induction fs generalizing x with
  | nil => cases x <;> simp [mask, pick]
  | cons f fs ih =>
    cases x with
    | nil => simp at h
    | cons v vs => simp [mask, pick, ih vs (by simpa using h)]

end FpVerif.Rec
