import FpVerif.Lemmas.HeapWorld2
/-!
The invariant of a `World` and its preservation by every step of a history.

* every collection ever handed out is represented in the current heap, as a tree, by a well-formed
  value-level trie;
* OWNERSHIP: while a builder updates in place, the cells reachable from its trie are cells the builder
  allocated itself (`mbOwned` / `sbOwned`) and none of them is reachable from any collection handed
  out (or from the other builder).
-/
set_option linter.unusedSimpArgs false
set_option linter.unusedVariables false
namespace FpVerif.HamtHeap
open FpVerif.Hamt
variable {K V : Type} {α β : Type}

/-- the cells reachable from a `*hamt` -/
def fpOf (H : Heap K V) (m : Addr) : List Addr :=
  match absHamt H m with
  | some x => x.2
  | none => []

/-- `m` is a `*hamt` that represents a well-formed trie, as a tree -/
def Good (h : Hasher K) (H : Heap K V) (m : Addr) : Prop :=
  ∃ a fp, absHamt H m = some (a, fp) ∧ fp.Nodup ∧ Hamt.Inv h a

theorem fpOf_eq {H : Heap K V} {m : Addr} {a : Hamt K V} {fp : List Addr} (h : absHamt H m = some (a, fp)) :
    fpOf H m = fp := by
  unfold fpOf; rw [h]

theorem fpOf_lt {H : Heap K V} {m : Addr} {x : Addr} (hx : x ∈ fpOf H m) : x < H.size := by
  unfold fpOf at hx
  cases h : absHamt H m with
  | none => rw [h] at hx; cases hx
  | some r => rw [h] at hx; exact absHamt_lt (a := r.1) (fp := r.2) h hx

theorem Good.transport {h : Hasher K} {H H' : Heap K V} {m : Addr} {W : List Addr} (hg : Good h H m)
    (he : Eff H H' W) (hd : ∀ x ∈ fpOf H m, x ∉ W) : Good h H' m ∧ absHamt H' m = absHamt H m := by
  obtain ⟨a, fp, habs, hnd, hinv⟩ := hg
  have := he.absHamt habs (by rw [fpOf_eq habs] at hd; exact hd)
  exact ⟨⟨a, fp, this, hnd, hinv⟩, by rw [this, habs]⟩

theorem Good.le {h : Hasher K} {H H' : Heap K V} {m : Addr} (hg : Good h H m) (hle : Heap.le H H') :
    Good h H' m ∧ absHamt H' m = absHamt H m :=
  hg.transport (Eff.of_le hle []) (fun _ _ => by simp)

theorem fpOf_congr {H H' : Heap K V} {m : Addr} (h : absHamt H' m = absHamt H m) : fpOf H' m = fpOf H m := by
  unfold fpOf; rw [h]

structure WInv (h : Hasher K) (W : World K V) : Prop where
  vers : ∀ m ∈ W.vers, Good h W.heap m
  mb : ∀ m, W.mb = some ⟨some m⟩ → Good h W.heap m ∧ (∀ x ∈ fpOf W.heap m, x ∈ W.mbOwned) ∧
    (∀ m' ∈ W.vers, ∀ x ∈ fpOf W.heap m, x ∉ fpOf W.heap m') ∧
    (∀ b, W.sb = some b → ∀ x ∈ fpOf W.heap m, x ∉ fpOf W.heap b.m)
  sb : ∀ b, W.sb = some b → Good h W.heap b.m ∧
    (b.shared = false → (∀ x ∈ fpOf W.heap b.m, x ∈ W.sbOwned) ∧
      ∀ m' ∈ W.vers, ∀ x ∈ fpOf W.heap b.m, x ∉ fpOf W.heap m')

/-- what a step may do to the collections handed out so far: nothing -/
def Intact (W W' : World K V) : Prop :=
  (∃ l, W'.vers = W.vers ++ l) ∧ ∀ m ∈ W.vers, absHamt W'.heap m = absHamt W.heap m

theorem WInv.init (h : Hasher K) : WInv h ({} : World K V) :=
  ⟨(by intro m hm; cases hm), (by intro m hm; cases hm), (by intro b hb; cases hb)⟩

theorem mem_freshOf {H H' : Heap K V} {x : Addr} (h1 : H.size ≤ x) (h2 : x < H'.size) : x ∈ freshOf H H' := by
  unfold freshOf
  rw [List.mem_range']
  exact ⟨x - H.size, by omega, by omega⟩

/-- a library call that returns a new collection built persistently from collections handed out -/
theorem WInv.call {h : Hasher K} {W : World K V} (hW : WInv h W) {comp : HM K V Addr} {fps : List Addr}
    {a' : Hamt K V} (hp : PRes W.heap fps comp a') (hinv : Hamt.Inv h a')
    (hfps : ∀ y ∈ fps, ∃ m ∈ W.vers, y ∈ fpOf W.heap m) :
    ∃ W', W.call comp = .ok W' ∧ WInv h W' ∧ Intact W W' ∧
      ∃ m', W'.vers = W.vers ++ [m'] ∧ (absHamt W'.heap m').map (·.1) = some a' := by
  obtain ⟨m', H', hcomp, fp', habs', hnd', heff, hsub⟩ := hp
  have hle : Heap.le W.heap H' := heff.to_le
  refine ⟨{ W with heap := H', vers := W.vers ++ [m'] }, by simp [World.call, hcomp], ?_, ?_, m', rfl, by simp [habs']⟩
  · have hnew : ∀ x ∈ fp', x < W.heap.size → ∃ m ∈ W.vers, x ∈ fpOf W.heap m := by
      intro x hx hlt
      rcases hsub x hx with h' | h'
      · exact hfps x h'
      · omega
    constructor
    · intro m hm
      simp only [List.mem_append, List.mem_singleton] at hm
      rcases hm with hm | hm
      · exact ((hW.vers m hm).le hle).1
      · subst hm; exact ⟨a', fp', habs', hnd', hinv⟩
    · intro mb hmb
      obtain ⟨hg, hown, hsepv, hsepb⟩ := hW.mb mb hmb
      obtain ⟨hg', heq⟩ := hg.le hle
      have hfp := fpOf_congr heq
      refine ⟨hg', ?_, ?_, ?_⟩
      · intro x hx; rw [hfp] at hx; exact hown x hx
      · intro m hm x hx
        simp only [List.mem_append, List.mem_singleton] at hm
        rw [hfp] at hx
        rcases hm with hm | hm
        · rw [fpOf_congr ((hW.vers m hm).le hle).2]; exact hsepv m hm x hx
        · subst hm
          rw [fpOf_eq habs']
          intro hx'
          obtain ⟨m0, hm0, hx0⟩ := hnew x hx' (fpOf_lt hx)
          exact hsepv m0 hm0 x hx hx0
      · intro b hb x hx
        rw [hfp] at hx
        rw [fpOf_congr (((hW.sb b hb).1).le hle).2]
        exact hsepb b hb x hx
    · intro b hb
      obtain ⟨hg, hunsh⟩ := hW.sb b hb
      obtain ⟨hg', heq⟩ := hg.le hle
      have hfp := fpOf_congr heq
      refine ⟨hg', fun hs => ?_⟩
      obtain ⟨hown, hsepv⟩ := hunsh hs
      refine ⟨?_, ?_⟩
      · intro x hx; rw [hfp] at hx; exact hown x hx
      · intro m hm x hx
        simp only [List.mem_append, List.mem_singleton] at hm
        rw [hfp] at hx
        rcases hm with hm | hm
        · rw [fpOf_congr ((hW.vers m hm).le hle).2]; exact hsepv m hm x hx
        · subst hm
          rw [fpOf_eq habs']
          intro hx'
          obtain ⟨m0, hm0, hx0⟩ := hnew x hx' (fpOf_lt hx)
          exact hsepv m0 hm0 x hx hx0
  · exact ⟨⟨[m'], rfl⟩, fun m hm => ((hW.vers m hm).le hle).2⟩

end FpVerif.HamtHeap
