import FpVerif.Lemmas.CowInv
import FpVerif.Lemmas.CowMap
/-!
Consequences of the CopyOnWriteMap invariant used by Spec/C19.
-/
namespace FpVerif.Cow
open FpVerif.Sched

/-! ### ComputeIfAbsent on the atomic map -/

/-- `ComputeIfAbsent k f` as an operation: no user predicate, the constant-false one -/
def Op.isCiaOn (k : K) : Op → Prop
  | .computeIf k' none pred _ _ => k' = k ∧ ∀ x, pred x = false
  | _ => False

theorem cia_apply {op : Op} {k : K} (h : op.isCiaOn k) (m : AMap) :
    ∃ v, (op.apply m).2 = .val v ∧ AMap.get (op.apply m).1 k = some v ∧
      (∀ v0, AMap.get m k = some v0 → v = v0 ∧ (op.apply m).1 = m) := by
  cases op with
  | computeIf k' pid pred fid nv =>
    cases pid with
    | some p => exact h.elim
    | none =>
      obtain ⟨rfl, hp⟩ := h
      simp only [Op.apply, computeIfMap]
      cases hg : AMap.get m k' with
      | none => exact ⟨nv, rfl, AMap.get_put_self m k' nv, by simp⟩
      | some x => simp [hp x, hg]
  | _ => exact h.elim

theorem cia_writes {op : Op} {k : K} (h : op.isCiaOn k) : op.writes k := by
  cases op with
  | computeIf k' pid pred fid nv =>
    cases pid with
    | some p => exact h.elim
    | none => exact h.1
  | _ => exact h.elim

/-- On the atomic map: if the only operations that write `k` are `ComputeIfAbsent k`, every one
    of them returns the value bound to `k` at the end, and a binding present at the start stays. -/
theorem seq_cia_agree (k : K) : ∀ (ops : List Op) (m : AMap),
    (∀ op ∈ ops, op.writes k → op.isCiaOn k) →
    (∀ v0, AMap.get m k = some v0 → AMap.get (seqRun m ops).1 k = some v0) ∧
    (∀ (i : Nat) (op : Op) (r : Ret), ops[i]? = some op → (seqRun m ops).2[i]? = some r → op.isCiaOn k →
      ∃ v, r = .val v ∧ AMap.get (seqRun m ops).1 k = some v)
  | [], m, _ => by simp [seqRun]
  | o :: os, m, h => by
    have ih := seq_cia_agree k os (o.apply m).1 (fun op hop => h op (by simp [hop]))
    by_cases hw : o.writes k
    · have hc := h o (by simp) hw
      obtain ⟨v, hv1, hv2, hv3⟩ := cia_apply hc m
      refine ⟨fun v0 h0 => ?_, fun i op r hi hr hcia => ?_⟩
      · obtain ⟨rfl, hm⟩ := hv3 v0 h0
        simp only [seqRun]
        exact ih.1 v hv2
      · cases i with
        | zero =>
          simp at hi; subst hi
          simp [seqRun] at hr; subst hr
          exact ⟨v, hv1, by simpa [seqRun] using ih.1 v hv2⟩
        | succ n =>
          simp at hi
          simp [seqRun] at hr
          simpa [seqRun] using ih.2 n op r hi hr hcia
    · have hf := apply_frame hw m
      refine ⟨fun v0 h0 => ?_, fun i op r hi hr hcia => ?_⟩
      · simp only [seqRun]; exact ih.1 v0 (by rw [hf]; exact h0)
      · cases i with
        | zero =>
          simp at hi; subst hi
          exact absurd (cia_writes hcia) hw
        | succ n =>
          simp at hi
          simp [seqRun] at hr
          simpa [seqRun] using ih.2 n op r hi hr hcia

/-! ### linearized operations come from the programs -/

theorem mem_linsOf {h : List HEv} {op : Op} {r : Ret} (hm : (op, r) ∈ linsOf h) :
    ∃ t i, HEv.lin t i op r ∈ h := by
  induction h with
  | nil => simp [linsOf] at hm
  | cons e es ih =>
    cases e with
    | lin t i o x =>
      simp only [linsOf, List.mem_cons, Prod.mk.injEq] at hm
      rcases hm with ⟨rfl, rfl⟩ | hm
      · exact ⟨t, i, by simp⟩
      · obtain ⟨t', i', h'⟩ := ih hm; exact ⟨t', i', by simp [h']⟩
    | call t i o => obtain ⟨t', i', h'⟩ := ih (by simpa [linsOf] using hm); exact ⟨t', i', by simp [h']⟩
    | ret t i x => obtain ⟨t', i', h'⟩ := ih (by simpa [linsOf] using hm); exact ⟨t', i', by simp [h']⟩

theorem lin_mem_doneEvents {t i n : Nat} {op : Op} {r : Ret} {ds : List (Op × Ret)}
    (h : HEv.lin t i op r ∈ doneEvents t n ds) : op ∈ ds.map (·.1) := by
  induction ds generalizing n with
  | nil => simp [doneEvents] at h
  | cons d rest ih =>
    obtain ⟨o, x⟩ := d
    simp only [doneEvents, List.mem_cons] at h
    rcases h with h | h | h | h
    · cases h
    · injection h with _ _ h3 _; simp [h3]
    · cases h
    · have := ih h; simp [this]

theorem lin_op_in_prog {progs : List (List Op)} {s : CSys} (hinv : Inv progs s) {op : Op} {r : Ret}
    (hm : (op, r) ∈ linsOf s.shared.hist) : ∃ p ∈ progs, op ∈ p := by
  obtain ⟨t, i, he⟩ := mem_linsOf hm
  have hlt := hinv.evtid _ he
  simp only [HEv.tid] at hlt
  obtain ⟨l, hl⟩ : ∃ l, s.threads[t]? = some l := ⟨s.threads[t], by simp [hlt]⟩
  have htid := hinv.tids t l hl
  have hlm := List.mem_of_getElem? hl
  have hview := hinv.views l hlm
  have hin : HEv.lin t i op r ∈ proj l.tid s.shared.hist := by
    simp only [proj, List.mem_filter]
    exact ⟨he, by simp [HEv.tid, htid]⟩
  rw [hview, expected, List.mem_append] at hin
  refine ⟨l.ops, by rw [← hinv.ops]; exact List.mem_map.mpr ⟨l, hlm, rfl⟩, ?_⟩
  rcases hin with hin | hin
  · rw [htid] at hin
    have := lin_mem_doneEvents hin
    simp [Local.ops, this]
  · unfold curEvents at hin
    cases hp : l.phase with
    | finished => simp [hp] at hin
    | running o pc =>
      simp only [hp, List.mem_cons] at hin
      rcases hin with hin | hin
      · exact absurd hin (by simp)
      · cases pc <;> simp at hin
        obtain ⟨_, _, rfl, _⟩ := hin
        simp [Local.ops, hp]

/-! ### order of events -/

/-- `a` occurs before `b` -/
def Before (a b : HEv) (h : List HEv) : Prop := ∃ h1 h2 h3, h = h1 ++ a :: h2 ++ b :: h3

theorem before_of_filter {p : HEv → Bool} {a b : HEv} {h : List HEv}
    (hb : ∃ x y z, h.filter p = x ++ a :: y ++ b :: z) : ∃ h1 h2 h3, h = h1 ++ a :: h2 ++ b :: h3 := by
  obtain ⟨x, y, z, hf⟩ := hb
  simp only [List.append_assoc, List.cons_append] at hf
  obtain ⟨l1, l2, rfl, h1, h2⟩ := List.filter_eq_append_iff.mp hf
  obtain ⟨m1, m2, rfl, _, _, h3⟩ := List.filter_eq_cons_iff.mp h2
  obtain ⟨n1, n2, rfl, _, h4⟩ := List.filter_eq_append_iff.mp h3
  obtain ⟨o1, o2, rfl, _, _, _⟩ := List.filter_eq_cons_iff.mp h4
  exact ⟨l1 ++ m1, n1 ++ o1, o2, by simp⟩

/-- the events of a completed operation occur in the order call, lin, ret -/
theorem doneEvents_order {t n : Nat} {ds : List (Op × Ret)} {j : Nat} {op : Op} {r : Ret}
    (hj : ds[j]? = some (op, r)) :
    ∃ x z, doneEvents t n ds = x ++ HEv.call t (n + j) op :: HEv.lin t (n + j) op r :: HEv.ret t (n + j) r :: z := by
  induction ds generalizing n j with
  | nil => simp at hj
  | cons d rest ih =>
    obtain ⟨o, x⟩ := d
    cases j with
    | zero =>
      simp at hj
      obtain ⟨rfl, rfl⟩ := hj
      exact ⟨[], doneEvents t (n + 1) rest, by simp [doneEvents]⟩
    | succ j' =>
      simp at hj
      obtain ⟨x', z', h'⟩ := ih (n := n + 1) hj
      refine ⟨HEv.call t n o :: HEv.lin t n o x :: HEv.ret t n x :: x', z', ?_⟩
      simp only [doneEvents, h']
      have : n + 1 + j' = n + (j' + 1) := by omega
      simp [this]


/-! ### the defect is confined to ComputeIf -/

def Op.isCif : Op → Bool
  | .computeIf .. => true
  | _ => false

theorem stepT_asIs_eq (sh : Shared) (l : Local) (h : ∀ op ∈ l.ops, op.isCif = false) :
    stepT .asIs sh l = stepT .recheck sh l := by
  unfold stepT
  cases hp : l.phase with
  | finished => rfl
  | running op pc =>
    have hop : op.isCif = false := h op (by simp [Local.ops, hp])
    cases pc with
    | enter =>
      have : writeBody .asIs op sh.map = writeBody .recheck op sh.map := by
        cases op <;> simp [Op.isCif] at hop <;> rfl
      simp only [this]
    | store nm out =>
      have h1 : isAsIsComputeIf .asIs op = false := by cases op <;> simp [Op.isCif] at hop <;> rfl
      have h2 : isAsIsComputeIf .recheck op = false := isAsIs_recheck op
      simp only [h1, h2]
    | _ => rfl

theorem run_asIs_eq {progs : List (List Op)} (hno : ∀ p ∈ progs, ∀ op ∈ p, op.isCif = false)
    (sched : List Tid) : ∀ (s : CSys), Inv progs s → crun .asIs s sched = crun .recheck s sched := by
  induction sched with
  | nil => intro s _; rfl
  | cons t ts ih =>
    intro s hinv
    have hstep : step (stepT .asIs) s t = step (stepT .recheck) s t := by
      unfold step
      cases hl : s.threads[t]? with
      | none => rfl
      | some l =>
        have hlm := List.mem_of_getElem? hl
        have : l.ops ∈ progs := by rw [← hinv.ops]; exact List.mem_map.mpr ⟨l, hlm, rfl⟩
        simp only [stepT_asIs_eq s.shared l (hno l.ops this)]
    show run (stepT .asIs) (stepOr (stepT .asIs) s t) ts = run (stepT .recheck) (stepOr (stepT .recheck) s t) ts
    unfold stepOr
    rw [hstep]
    cases hs : step (stepT .recheck) s t with
    | none => exact ih s hinv
    | some s' => exact ih s' (Inv_step s t s' hinv hs)

end FpVerif.Cow
