import FpVerif.Lemmas.PromiseMeasure
import FpVerif.Lemmas.PromiseInvB
/-!
Consequences of the invariants, in the form the property theorems of Spec/C05 need.
-/
namespace FpVerif.Promise
open FpVerif FpVerif.Sched

variable {R : Type}

/-! ### single assignment -/

theorem winners_pos {ts : List (Local R)} {i : Nat} {a : Local R}
    (hi : ts[i]? = some a) (ha : a.isWinner = true) : 1 ≤ winners ts := by
  have h0 := winners_set (l' := Local.oLoad1) hi
  have h1 : (Local.oLoad1 : Local R).isWinner = false := rfl
  simp only [ha, h1] at h0
  simp at h0
  omega

theorem winners_two {ts : List (Local R)} {i j : Nat} {a b : Local R}
    (hi : ts[i]? = some a) (hj : ts[j]? = some b) (ha : a.isWinner = true) (hb : b.isWinner = true)
    (hne : i ≠ j) : 2 ≤ winners ts := by
  induction ts generalizing i j with
  | nil => simp at hi
  | cons x xs ih =>
    rw [winners_cons]
    cases i with
    | zero =>
      cases j with
      | zero => exact absurd rfl hne
      | succ j' =>
        simp at hi hj
        subst hi
        have := winners_pos hj hb
        simp [ha]; omega
    | succ i' =>
      cases j with
      | zero =>
        simp at hi hj
        subst hj
        have := winners_pos hi ha
        simp [hb]; omega
      | succ j' =>
        simp at hi hj
        have := ih hi hj (by omega)
        omega

theorem map_set_same {α β : Type} {f : α → β} {ts : List α} {t : Nat} {l l' : α}
    (hl : ts[t]? = some l) (h : f l' = f l) : (ts.set t l').map f = ts.map f := by
  induction ts generalizing t with
  | nil => rfl
  | cons a as ih =>
    cases t with
    | zero => simp at hl; subst hl; simp [h]
    | succ n => simp at hl; simp [ih hl]

theorem winners_le_one {s : PSys R} (h : InvA s) : winners s.threads ≤ 1 := by
  rw [h.winner]; split <;> omega

/-- once done, the cell never changes -/
theorem done_step (v : Variant) {s s' : PSys R} {t : Tid} {r : R} (hinv : InvA s)
    (hd : s.shared.cell = .done r) (hstep : step (stepT v) s t = some s') :
    s'.shared.cell = .done r := by
  obtain ⟨l, sh', l', hl, htr, rfl⟩ := step_trans hstep
  have hTl := hinv.threads l (List.mem_of_getElem? hl)
  cases htr with
  | cCasOk hap => have := (hTl.2 hap).1; simp [hd, Cell.isDone] at this
  | rCasOk hap => have := (hTl.2 hap).1; simp [hd, Cell.isDone] at this
  | _ => exact hd

theorem done_run (v : Variant) {s : PSys R} {r : R} (hinv : InvA s) (hd : s.shared.cell = .done r)
    (sched : List Tid) : (prun v s sched).shared.cell = .done r := by
  have := inv_run (stepT := stepT v) (Inv := fun s => InvA s ∧ s.shared.cell = .done r)
    (fun s t s' h hs => ⟨InvA_step v s t s' h.1 hs, done_step v h.1 h.2 hs⟩) ⟨hinv, hd⟩ sched
  exact this.2

/-- the program of every thread is fixed -/
theorem prog_step (v : Variant) {s s' : PSys R} {t : Tid} (hstep : step (stepT v) s t = some s') :
    s'.threads.map Local.prog = s.threads.map Local.prog := by
  obtain ⟨l, sh', l', hl, htr, rfl⟩ := step_trans hstep
  have hER : ∀ (h : Heap) (r : R) (sl : Slice) (i : Nat), (enterRun h r sl i).prog = .complete r := by
    intro h r sl i
    unfold enterRun
    split
    · split <;> rfl
    · rfl
  have : l'.prog = l.prog := by
    cases htr <;> try rfl
    · rename_i r _ c _; cases c with
      | nil => rfl
      | cbs sl => exact hER _ r sl 0
    · rename_i r sl i _; exact hER _ r sl (i + 1)
  exact map_set_same hl this

theorem prog_run (v : Variant) (s : PSys R) (sched : List Tid) :
    (prun v s sched).threads.map Local.prog = s.threads.map Local.prog := by
  induction sched generalizing s with
  | nil => rfl
  | cons t ts ih =>
    show (run (stepT v) (stepOr (stepT v) s t) ts).threads.map Local.prog = _
    rw [ih]
    unfold stepOr
    cases h : step (stepT v) s t with
    | none => rfl
    | some s' => exact prog_step v h

theorem prog_start (zero : Bool) (p : Prog R) : (p.start zero).prog = p := by
  cases p <;> cases zero <;> rfl

theorem progs_init (zero : Bool) (progs : List (Prog R)) :
    (init zero progs).threads.map Local.prog = progs := by
  simp [init, List.map_map, Function.comp_def, prog_start]

/-! ### termination -/

theorem allFinished_step_none (v : Variant) {s : PSys R} (h : allFinished s = true) (t : Tid) :
    step (stepT v) s t = none := by
  unfold step
  cases hl : s.threads[t]? with
  | none => rfl
  | some l =>
    have : l.finished = true := by
      simp only [allFinished, List.all_eq_true] at h
      exact h l (List.mem_of_getElem? hl)
    simp [stepT_none_of_finished v s.shared l this]

theorem allFinished_run (v : Variant) {s : PSys R} (h : allFinished s = true) (sched : List Tid) :
    prun v s sched = s := by
  induction sched with
  | nil => rfl
  | cons t ts ih =>
    show run (stepT v) (stepOr (stepT v) s t) ts = s
    unfold stepOr
    rw [allFinished_step_none v h t]
    exact ih

theorem measure_run_le (v : Variant) {s : PSys R} (hinv : InvA s) (sched : List Tid) :
    measure (prun v s sched) ≤ measure s := by
  have := effSteps_le_measure_inv (stepT := stepT v) (Inv := InvA) (μ := measure)
    (InvA_step v) (measure_step v) s hinv sched
  show measure (run (stepT v) s sched) ≤ measure s
  omega

/-- a schedule that names an unfinished thread makes progress -/
theorem measure_run_lt (v : Variant) {s : PSys R} (hinv : InvA s) {t : Tid} {l : Local R}
    (hl : s.threads[t]? = some l) (hunf : l.finished = false) {sched : List Tid} (hmem : t ∈ sched) :
    measure (prun v s sched) < measure s := by
  induction sched generalizing s l with
  | nil => simp at hmem
  | cons a rest ih =>
    show measure (run (stepT v) (stepOr (stepT v) s a) rest) < measure s
    unfold stepOr
    cases hs : step (stepT v) s a with
    | some s' =>
      have h1 := measure_step v s a s' hinv hs
      have h2 := measure_run_le v (InvA_step v s a s' hinv hs) rest
      simp only [Option.getD_some]
      exact Nat.lt_of_le_of_lt h2 h1
    | none =>
      simp only [Option.getD_none]
      have hat : a ≠ t := by
        rintro rfl
        have hsome := stepT_isSome_of_not_finished v s.shared l hunf
        unfold step at hs
        rw [hl] at hs
        cases hst : stepT v s.shared l with
        | none => simp [hst] at hsome
        | some p => simp [hst] at hs
      have : t ∈ rest := by
        rcases List.mem_cons.mp hmem with h | h
        · exact absurd h.symm hat
        · exact h
      exact ih hinv hl hunf this

theorem exists_unfinished {s : PSys R} (h : allFinished s = false) :
    ∃ t l, s.threads[t]? = some l ∧ l.finished = false ∧ t < s.threads.length := by
  simp only [allFinished, List.all_eq_false] at h
  obtain ⟨l, hmem, hf⟩ := h
  obtain ⟨t, ht, hget⟩ := List.getElem_of_mem hmem
  exact ⟨t, l, by simp [List.getElem?_eq_getElem ht, hget], by simpa using hf, ht⟩

theorem length_run (v : Variant) (s : PSys R) (sched : List Tid) :
    (prun v s sched).threads.length = s.threads.length := by
  have := congrArg List.length (prog_run v s sched)
  simpa using this

/-- round-robin with `fuel ≥ measure` rounds reaches quiescence -/
theorem roundRobin_finishes (v : Variant) (fuel : Nat) (s : PSys R) (hinv : InvA s)
    (hm : measure s ≤ fuel) :
    allFinished (prun v s (roundRobin s.threads.length fuel)) = true := by
  induction fuel generalizing s with
  | zero =>
    cases hf : allFinished s with
    | true => simpa [roundRobin, prun, run] using hf
    | false =>
      obtain ⟨t, l, hl, hunf, _⟩ := exists_unfinished hf
      have := measure_run_lt v hinv hl hunf (sched := [t]) (by simp)
      omega
  | succ n ih =>
    cases hf : allFinished s with
    | true => rw [allFinished_run v hf]; exact hf
    | false =>
      obtain ⟨t, l, hl, hunf, hlt⟩ := exists_unfinished hf
      simp only [roundRobin]
      show allFinished (run (stepT v) s (List.range s.threads.length ++ roundRobin s.threads.length n)) = true
      rw [run_append]
      have hlt' := measure_run_lt v hinv hl hunf (sched := List.range s.threads.length)
        (List.mem_range.mpr hlt)
      have hlen := length_run v s (List.range s.threads.length)
      have := ih (prun v s (List.range s.threads.length)) (InvA_run v hinv _) (by omega)
      rw [hlen] at this
      exact this

/-! ### conservation (repaired algorithm) -/

theorem holds_start (c : Cb) (progs : List (Prog R)) :
    sumBy (holds c (emptyShared : Shared R)) (progs.map (Prog.start false)) = (regCbs progs).count c := by
  induction progs with
  | nil => rfl
  | cons p ps ih =>
    cases p with
    | complete r => simpa [sumBy, Prog.start, holds, regCbs] using ih
    | register cb =>
      simp only [List.map_cons, sumBy, Prog.start, regCbs, List.count_cons, ih]
      simp [holds]
      omega
    | observe => simpa [sumBy, Prog.start, holds, regCbs] using ih

theorem InvB_init (progs : List (Prog R)) :
    InvB (fun c => (regCbs progs).count c) (init false progs) := by
  refine ⟨?_, ?_, ?_⟩
  · intro l hl
    simp only [init, List.mem_map] at hl
    obtain ⟨p, _, rfl⟩ := hl
    cases p <;> simp [Prog.start, TInvB]
  · intro sl h; simp [init, emptyShared] at h
  · intro c
    simp only [occ, init, holds_start]
    simp [cellCount, logCount, emptyShared]

theorem InvAB_run {total : Cb → Nat} {s : PSys R} (hA : InvA s) (hB : InvB total s)
    (sched : List Tid) :
    InvA (prun .copyFirst s sched) ∧ InvB total (prun .copyFirst s sched) :=
  inv_run (stepT := stepT .copyFirst) (Inv := fun s => InvA s ∧ InvB total s)
    (fun s t s' h hs => ⟨InvA_step _ s t s' h.1 hs, InvB_step s t s' h.1 h.2 hs⟩) ⟨hA, hB⟩ sched

theorem holds_finished (c : Cb) (sh : Shared R) (l : Local R) (h : l.finished = true) :
    holds c sh l = 0 := by
  cases l <;> simp [Local.finished] at h <;> rfl

theorem sumBy_zero {L : Type} {f : L → Nat} {ts : List L} (h : ∀ x ∈ ts, f x = 0) : sumBy f ts = 0 := by
  induction ts with
  | nil => rfl
  | cons a as ih => simp [sumBy, h a (by simp), ih (fun x hx => h x (by simp [hx]))]


/-- user-visible deliveries of one callback, when all invocations carry `r` -/
theorem delivered_filter_length {α : Type} (r : Try α) (cb : Cb) :
    ∀ (log : List (Cb × Try α)), (∀ p ∈ log, p.2 = r) →
    ((delivered log).filter (fun p => decide (p.1 = cb))).length =
      if cb.wants r = true then (log.map (·.1)).count cb else 0
  | [], _ => by simp [delivered]
  | (c, r') :: ps, hval => by
    have hr : r' = r := hval (c, r') (by simp)
    subst hr
    have ih := delivered_filter_length r' cb ps (fun p hp => hval p (by simp [hp]))
    have hd : delivered ((c, r') :: ps) =
        if c.wants r' = true then (c, r') :: delivered ps else delivered ps := by
      simp [delivered, List.filter_cons]
    rw [hd]
    by_cases hc : c = cb
    · subst hc
      by_cases hw : c.wants r' = true
      · simp only [hw, if_true] at ih ⊢
        simp [List.filter_cons, ih, List.count_cons]
      · simp only [hw] at ih ⊢
        simpa using ih
    · by_cases hw : c.wants r' = true
      · simp only [hw, if_true]
        simp [List.filter_cons, hc, ih, List.count_cons]
      · simp only [hw]
        simp [ih, List.count_cons, hc]

end FpVerif.Promise
