import FpVerif.Lemmas.HamtKids
/-!
The two node-kind conversion loops keep the (slot, child) view:
`bitmapToHashArray` (bitmap-indexed → hash-array) and `hashArrayToBitmap` (hash-array → bitmap-indexed).
-/
set_option linter.unusedSimpArgs false
set_option linter.unusedVariables false
namespace FpVerif.Hamt
variable {K V : Type}

theorem lo_succ (bm n : Nat) : lo bm (n + 1) = lo bm n ++ (if bm.testBit n then [n] else []) := by
  unfold lo
  rw [List.range_succ, List.filter_append]
  by_cases h : bm.testBit n = true <;> simp [h, List.filter_cons]

theorem lo_32 (bm : Nat) : lo bm 32 = bitsOf bm := rfl

theorem lo_length_lt {bm n : Nat} (hn : n < 32) (ht : bm.testBit n = true) :
    (lo bm n).length < popCount bm := by
  rw [popCount_of_testBit hn ht]; omega

theorem fmH_append (a b : List (Nat × Option (Node K V))) : fmH (a ++ b) = fmH a ++ fmH b := by
  simp [fmH]

theorem length_fmH_zip (n : Nat) : ∀ (P : List (Option (Node K V))), P.length = n →
    (fmH (List.zip (List.range n) P)).length = countSome P := by
  induction n with
  | zero => intro P hP; cases P <;> simp_all [fmH, countSome]
  | succ n ih =>
    intro P hP
    obtain ⟨P', x, rfl⟩ : ∃ P' x, P = P' ++ [x] := by
      refine ⟨P.dropLast, P.getLast (by intro h; simp [h] at hP), ?_⟩
      exact (List.dropLast_concat_getLast _).symm
    have hP' : P'.length = n := by simpa using hP
    rw [List.range_succ, List.zip_append (by simp [hP']), fmH_append, List.length_append, ih P' hP']
    cases x <;> simp [fmH, countSome, List.filter_append]

theorem length_kidsH {ns : List (Option (Node K V))} (hlen : ns.length = 32) :
    (kidsH ns).length = countSome ns := length_fmH_zip 32 ns hlen

theorem length_kidsB {bm : Nat} {ns : List (Node K V)} (hlen : ns.length = popCount bm) :
    (kidsB bm ns).length = ns.length := by
  unfold kidsB; unfold popCount at hlen; simp [hlen]

-- bitmap-indexed -> hash-array ---------------------------------------------------------------------

/-- one iteration of the loop in `bitmapToHashArray` -/
def b2hStep (bm : Nat) (nodes : List (Node K V)) (acc : List (Option (Node K V)) × Nat) (i : Nat) :
    GoE (List (Option (Node K V)) × Nat) :=
  if bm &&& (1 <<< i) != 0 then
    match nodes[acc.2]? with
    | some c => pure (acc.1.set i (some c), acc.2 + 1)
    | none => throw "index out of range"
  else pure acc

theorem bitmapToHashArray_eq (bm : Nat) (nodes : List (Node K V)) :
    bitmapToHashArray bm nodes =
      (List.range 32).foldlM (b2hStep bm nodes) (List.replicate 32 none, 0) := rfl

theorem b2h_prefix {bm : Nat} {ns : List (Node K V)} (hlen : ns.length = popCount bm) :
    ∀ n, n ≤ 32 → ∃ P : List (Option (Node K V)),
      (List.range n).foldlM (b2hStep bm ns) (List.replicate 32 none, 0) =
        .ok (P ++ List.replicate (32 - n) none, (lo bm n).length) ∧
      P.length = n ∧
      fmH (List.zip (List.range n) P) = List.zip (lo bm n) (ns.take (lo bm n).length) := by
  intro n
  induction n with
  | zero =>
    intro _
    exact ⟨[], by simp [lo, pure, Except.pure], rfl, by simp [lo, fmH]⟩
  | succ n ih =>
    intro hn
    obtain ⟨P, hfold, hP, hz⟩ := ih (by omega)
    have hn32 : n < 32 := by omega
    rw [List.range_succ, List.foldlM_append, hfold]
    simp only [bind, Except.bind, List.foldlM_cons, List.foldlM_nil]
    unfold b2hStep
    rw [and_bit_ne_zero, lo_succ]
    have hrep : List.replicate (32 - n) (none : Option (Node K V)) = none :: List.replicate (32 - (n + 1)) none := by
      have : 32 - n = (32 - (n + 1)) + 1 := by omega
      rw [this, List.replicate_succ]
    cases ht : bm.testBit n with
    | false =>
      refine ⟨P ++ [none], ?_, by simp [hP], ?_⟩
      · simp [hrep, pure, Except.pure]
      · rw [List.zip_append (by simp [hP]), fmH_append, hz]
        simp [fmH]
    | true =>
      have hlt := lo_length_lt hn32 ht
      have hidx : (lo bm n).length < ns.length := by omega
      have hget : ns[(lo bm n).length]? = some ns[(lo bm n).length] := by simp [hidx]
      refine ⟨P ++ [some ns[(lo bm n).length]], ?_, by simp [hP], ?_⟩
      · simp only [if_true, hget]
        simp only [bind, Except.bind, pure, Except.pure]
        congr 2
        · rw [hrep, set_split hP]; simp
        · simp
      · rw [List.zip_append (by simp [hP]), fmH_append, hz]
        simp only [List.length_append, List.length_cons, List.length_nil, if_true]
        rw [List.take_succ_eq_append_getElem hidx,
          List.zip_append (by simp; omega)]
        simp [fmH]

theorem bitmapToHashArray_spec {bm : Nat} {ns : List (Node K V)} (hlen : ns.length = popCount bm) :
    ∃ slots, bitmapToHashArray bm ns = .ok (slots, ns.length) ∧ slots.length = 32 ∧
      kidsH slots = kidsB bm ns ∧ countSome slots = ns.length := by
  obtain ⟨P, hfold, hP, hz⟩ := b2h_prefix hlen 32 (Nat.le_refl _)
  have hlo : (lo bm 32).length = ns.length := by rw [lo_32]; unfold popCount at hlen; omega
  have hk : kidsH P = kidsB bm ns := by
    unfold kidsH kidsB
    have := hz
    unfold fmH at this
    have hlo' : (bitsOf bm).length = ns.length := hlo
    rw [this, lo_32, hlo', List.take_length]
  refine ⟨P, ?_, hP, hk, ?_⟩
  · rw [bitmapToHashArray_eq, hfold]; simp [hlo]
  · rw [← length_kidsH hP, hk, length_kidsB hlen]

-- hash-array -> bitmap-indexed ---------------------------------------------------------------------

/-- one iteration of the loop in `hashArrayToBitmap` -/
def h2bStep (nodes : List (Option (Node K V))) (idx : Nat) (acc : Nat × List (Node K V)) (i : Nat) :
    Nat × List (Node K V) :=
  match nodes[i]? with
  | some (some child) => if i != idx then (acc.1 ||| (1 <<< i), acc.2 ++ [child]) else acc
  | _ => acc

theorem hashArrayToBitmap_eq (nodes : List (Option (Node K V))) (idx : Nat) :
    hashArrayToBitmap nodes idx = (List.range 32).foldl (h2bStep nodes idx) (0, []) := rfl

theorem bits_below {bm n : Nat} (hb : bm < 2 ^ n) (hn : n < 32) : lo bm n = bitsOf bm ∧ hi bm n = [] := by
  have ht : bm.testBit n = false := Nat.testBit_lt_two_pow hb
  have hhi : hi bm n = [] := by
    unfold hi
    rw [List.filter_eq_nil_iff]
    intro x hx
    have hx' : n < x := by simp [List.mem_range'_1] at hx; omega
    have : bm < 2 ^ x := Nat.lt_of_lt_of_le hb (Nat.pow_le_pow_right (by decide) (by omega))
    simp [Nat.testBit_lt_two_pow this]
  refine ⟨?_, hhi⟩
  rw [bitsOf_of_not_testBit hn ht, hhi]; simp

theorem h2b_prefix {ns : List (Option (Node K V))} (hlen : ns.length = 32) (idx : Nat) :
    ∀ n, n ≤ 32 → ∃ bm' ns', (List.range n).foldl (h2bStep ns idx) (0, []) = (bm', ns') ∧
      bm' < 2 ^ n ∧ ns'.length = popCount bm' ∧
      kidsB bm' ns' = fmH (List.zip (List.range n) ((ns.set idx none).take n)) := by
  intro n
  induction n with
  | zero =>
    intro _
    refine ⟨0, [], rfl, by decide, by simp only [popCount, bitsOf, Nat.zero_testBit]; rw [List.filter_eq_nil_iff.mpr (by simp)]; rfl, ?_⟩
    simp [kidsB, fmH]
  | succ n ih =>
    intro hn
    obtain ⟨bm', ns', hfold, hb, hl, hk⟩ := ih (by omega)
    have hn32 : n < 32 := by omega
    have hnlen : n < (ns.set idx none).length := by simp [hlen, hn32]
    rw [List.range_succ, List.foldl_append, hfold]
    simp only [List.foldl_cons, List.foldl_nil]
    rw [List.take_succ_eq_append_getElem hnlen,
      List.zip_append (by simp; omega), fmH_append, ← hk]
    have hb' : bm' < 2 ^ (n + 1) := Nat.lt_of_lt_of_le hb (Nat.pow_le_pow_right (by decide) (by omega))
    have hnl : n < ns.length := by omega
    unfold h2bStep
    by_cases hni : n = idx
    · -- the removed slot
      subst hni
      refine ⟨bm', ns', ?_, hb', hl, ?_⟩
      · cases hx : ns[n]? with
        | none => rfl
        | some o => cases o <;> simp
      · simp [fmH]
    · have hsetn : (ns.set idx none)[n] = ns[n] := by
        rw [List.getElem_set_ne]; exact fun h => hni h.symm
      rw [hsetn]
      have hgn : ns[n]? = some ns[n] := by simp [hnl]
      rw [hgn]
      cases hx : ns[n] with
      | none =>
        refine ⟨bm', ns', rfl, hb', hl, ?_⟩
        simp [fmH]
      | some child =>
        obtain ⟨hlo, hhi⟩ := bits_below hb hn32
        have htn : bm'.testBit n = false := Nat.testBit_lt_two_pow hb
        refine ⟨bm' ||| (1 <<< n), ns' ++ [child], by simp [hni], ?_, ?_, ?_⟩
        · apply Nat.or_lt_two_pow hb'
          rw [Nat.one_shiftLeft]; exact Nat.pow_lt_pow_right (by decide) (by omega)
        · rw [popCount_or_bit hn32 htn]; simp [hl]
        · have hNL : ns'.length = (lo bm' n).length := by
            rw [hlo]; unfold popCount at hl; exact hl
          have := kidsB_or_bit hn32 (NL := ns') (NR := []) child hNL
          rw [this, hhi]
          unfold kidsB
          rw [hlo]
          simp [fmH]

theorem hashArrayToBitmap_spec {ns : List (Option (Node K V))} (hlen : ns.length = 32) (idx : Nat) :
    ∃ bm' ns', hashArrayToBitmap ns idx = (bm', ns') ∧ bm' < 2 ^ 32 ∧ ns'.length = popCount bm' ∧
      kidsB bm' ns' = kidsH (ns.set idx none) := by
  obtain ⟨bm', ns', hfold, hb, hl, hk⟩ := h2b_prefix hlen idx 32 (Nat.le_refl _)
  refine ⟨bm', ns', by rw [hashArrayToBitmap_eq, hfold], hb, hl, ?_⟩
  rw [hk]
  unfold kidsH fmH
  have : (ns.set idx none).length = 32 := by simp [hlen]
  rw [← this, List.take_length]

end FpVerif.Hamt
